(* C08 — Cedar text marshalling round-trips every policy.
   Model: Impl/Printer.v with [no_extra] IS cedar_marshal.go + the MarshalCedar methods of the value types (tied to the code
   byte for byte by the `printpol` correspondence); Impl/Parser.v is the parser (tied by the `parse` correspondence).
   Theorems: the tokens of the rendering of a policy parse to that policy - same effect, annotations, scopes, conditions - with literal
   values of set / record / extension type replaced by the constructor expressions their rendering spells out ([norm], the normal form
   of the text syntax); a whole document of policies parses to the list of policies in order.
   Proofs: Proofs/ParserRoundTrip.v (tokens -> tree), Proofs/LexRender.v (rendered bytes -> tokens), Proofs/TextPipeline.v (composition with
   the C18 scanner).  Byte level: C08_text_roundtrip (render, tokenize with the specification tokenizer, parse) and C08_streamed_text_roundtrip
   (the same through the buffered scanner over EVERY chunking of a non-failing reader).  That [norm] preserves evaluation: C08_same_meaning (Proofs/NormMeaning.v). *)
From Coq Require Import ZArith List Bool.
Import ListNotations.
From Cedar Require Import Lang.Value Impl.Like Lang.Expr Impl.Scanner Impl.Tokenizer Lang.Cursor Impl.Quote Impl.Parser Impl.Printer Lang.RoundTrip
  Impl.Eval Impl.IPAddr Proofs.ScannerProofs Proofs.ParserRoundTrip Impl.IPPrint Proofs.LexRender Proofs.TextPipeline Proofs.NormMeaning Proofs.IPProofs.
Local Open Scope Z_scope.

Section C08.
  Variables (is_printable is_gext : Z -> bool).
  Variable set_order : list value -> list nat.
  Variable print_ip : bool -> Z -> Z -> str.
  Hypothesis print_ip_plain : forall v6 a p, Forall (fun c => 32 <= c < 127 /\ c <> 34 /\ c <> 92) (print_ip v6 a p).

  Theorem C08_policy_roundtrip : forall annots p rest,
    policy_ok set_order annots p = true -> rest <> [] ->
    exists f0, forall f, (f0 <= f)%nat ->
      p_policy f (toks_of (policy_items is_printable is_gext set_order print_ip no_extra annots p) ++ rest)
      = POk {| pp_annots := annots; pp_pos := (0, 0, 0); pp_policy := norm_policy set_order print_ip p |} rest.
  Proof. exact (parse_print_policy is_printable is_gext set_order print_ip no_extra print_ip_plain). Qed.

  Theorem C08_expr_roundtrip : forall e rest,
    expr_ok set_order e = true -> rest <> [] -> stop_tok (peek rest) = true ->
    exists f0, forall f, (f0 <= f)%nat ->
      p_expression f (toks_of (expr_items is_printable is_gext set_order print_ip no_extra e) ++ rest) = POk (norm set_order print_ip e) rest.
  Proof. exact (parse_print_expr is_printable is_gext set_order print_ip no_extra print_ip_plain). Qed.

  (* a rendered list / set of policies parses back to the same policies in the same order *)
  Theorem C08_document_roundtrip : forall ps,
    Forall (fun ap => policy_ok set_order (fst ap) (snd ap) = true) ps ->
    exists f0, forall f, (f0 <= f)%nat ->
      p_policies f (doc_toks is_printable is_gext set_order print_ip no_extra ps) [] = POk (map (doc_result set_order print_ip) ps) [eof_token].
  Proof. exact (parse_print_policies is_printable is_gext set_order print_ip no_extra print_ip_plain). Qed.

  (* BYTES: the rendering of a list of policies (joined by any white space, none included), tokenized and parsed, gives back the policies *)
  Theorem C08_text_roundtrip : forall sep ps, all_ws sep ->
    Forall (fun ap => policy_ok set_order (fst ap) (snd ap) = true) ps ->
    exists f0, forall f, (f0 <= f)%nat -> exists ts,
      spec_tokenize f (render (doc_items is_printable is_gext set_order print_ip no_extra sep ps)) = Some (Some ts) /\
      exists res last, p_policies f ts [] = POk res [last] /\ t_type last = TEOF /\
        map (fun pp => (pp_annots pp, pp_policy pp)) res = map (fun ap => (fst ap, norm_policy set_order print_ip (snd ap))) ps.
  Proof. exact (text_roundtrip_document_gen is_printable is_gext set_order print_ip no_extra print_ip_plain). Qed.

  (* ... and so does reading the same bytes through the buffered scanner, whatever the chunking of the (non-failing) reader and the
     buffer size: print -> stream -> tokenize -> parse is the identity up to the text normal form *)
  Theorem C08_streamed_text_roundtrip : forall sep ps, all_ws sep ->
    Forall (fun ap => policy_ok set_order (fst ap) (snd ap) = true) ps ->
    exists f0, forall f b r, (f0 <= f)%nat -> (4 <= b)%nat -> no_fail r -> (List.length (r_sched r) + 2 <= f)%nat ->
      r_rest r = render (doc_items is_printable is_gext set_order print_ip no_extra sep ps) ->
      exists ts, tokenize f b r = Some (Some ts) /\
        exists res last, p_policies f ts [] = POk res [last] /\ t_type last = TEOF /\
          map (fun pp => (pp_annots pp, pp_policy pp)) res = map (fun ap => (fst ap, norm_policy set_order print_ip (snd ap))) ps.
  Proof. exact (streamed_text_roundtrip is_printable is_gext set_order print_ip no_extra print_ip_plain). Qed.
End C08.

(* ... and the normal form MEANS the same: the policy that comes back from the text evaluates, in every well-formed environment, to the
   same Boolean or the same error as the original, so every authorization decision is unchanged.  (policy_lit_ok: literal values are
   well formed and their extension-typed leaves are in the range the printers round-trip - the first day of the datetime range is the
   known finding F27; set_order lists the members of a set value in SOME order: a permutation.) *)
Theorem C08_same_meaning : forall set_order, (forall l, Permutation.Permutation (set_order l) (seq 0 (List.length l))) ->
  forall print_ip ip_ok, (forall v6 a p, ip_ok v6 a p = true -> parse_ip (print_ip v6 a p) = Some (v6, a, p)) ->
  forall en p, norm_env_wf en -> policy_lit_ok ip_ok p = true ->
    bool_eval en (policy_to_expr (norm_policy set_order print_ip p)) = bool_eval en (policy_to_expr p).
Proof. exact policy_norm_same_outcome. Qed.

(* with the MODELLED ipaddr printer (Impl/IPPrint.v, proved plain and to round-trip in Proofs/IPProofs.v) the hypotheses about ip printing
   are discharged: the streamed text round trip and the same-meaning theorem hold with no assumption about net/netip *)
Theorem C08_streamed_text_roundtrip_ip : forall is_printable is_gext set_order sep ps, all_ws sep ->
  Forall (fun ap => policy_ok set_order (fst ap) (snd ap) = true) ps ->
  exists f0, forall f b r, (f0 <= f)%nat -> (4 <= b)%nat -> no_fail r -> (List.length (r_sched r) + 2 <= f)%nat ->
    r_rest r = render (doc_items is_printable is_gext set_order print_ip no_extra sep ps) ->
    exists ts, tokenize f b r = Some (Some ts) /\
      exists res last, p_policies f ts [] = POk res [last] /\ t_type last = TEOF /\
        map (fun pp => (pp_annots pp, pp_policy pp)) res = map (fun ap => (fst ap, norm_policy set_order print_ip (snd ap))) ps.
Proof. exact (fun ip ig so => C08_streamed_text_roundtrip ip ig so print_ip print_ip_plain_concrete). Qed.

Theorem C08_same_meaning_ip : forall set_order, (forall l, Permutation.Permutation (set_order l) (seq 0 (List.length l))) ->
  forall en p, norm_env_wf en -> policy_lit_ok ip_ok p = true ->
    bool_eval en (policy_to_expr (norm_policy set_order print_ip p)) = bool_eval en (policy_to_expr p).
Proof. exact (fun so H => C08_same_meaning so H print_ip ip_ok ip_roundtrip_concrete). Qed.

Theorem C08_same_meaning_expr : forall set_order, (forall l, Permutation.Permutation (set_order l) (seq 0 (List.length l))) ->
  forall print_ip ip_ok, (forall v6 a p, ip_ok v6 a p = true -> parse_ip (print_ip v6 a p) = Some (v6, a, p)) ->
  forall en e, norm_env_wf en -> lit_ok ip_ok e = true -> res_equiv (eval en (norm set_order print_ip e)) (eval en e).
Proof. exact eval_norm. Qed.

Print Assumptions C08_policy_roundtrip.
Print Assumptions C08_expr_roundtrip.
Print Assumptions C08_document_roundtrip.
Print Assumptions C08_text_roundtrip.
Print Assumptions C08_streamed_text_roundtrip.
Print Assumptions C08_same_meaning.
Print Assumptions C08_same_meaning_expr.
Print Assumptions C08_streamed_text_roundtrip_ip.
Print Assumptions C08_same_meaning_ip.
