(* x/exp/batch (Impl/Batch.v): the batch authorizer delivers exactly the brute-force results.

   Structure of the proof.
   1. [do_batch_run]: do_batch is a sequential [run] (budget / cancellation logic) over the list [leaves] of leaf
      computations, in order.  Pure structure, no partial evaluation involved.
   2. [clone_sub_subst]: cloneSub is [subst_val (single k v)]; [subst_env_compose]: binding one more variable and
      then substituting the rest = substituting all at once (values bound are marker-free and well-formed).
   3. [partial_clean] / [partial_policy_clean]: residual policies satisfy [policy_clean] again (literals embedded in
      a residual are marker-free and well-formed, record keys stay distinct), so the soundness theorem of
      PartialProofs applies at every level.
   4. [final_authz_do_partial]: the authorizer only looks at which policies are satisfied; replacing policies by
      residuals with the same [sat] and dropping unsatisfied ones changes neither the decision nor the reason ids.
   5. [leaves_brute]: induction on the variable list; then the headline theorems are facts about [run].

   Hypotheses [batch_hyps vars en ps]: store clean; request parts well-formed, without ignore marker and without
   unknown INSIDE A SET ([tmpl_ok]: unknowns are whole request parts or nested record fields -- the only
   restriction w.r.t. the requested statement; see [bx_set_nested]); every policy [policy_clean]; every candidate
   value [val_ok].  NOT needed: distinct variable names (the first binding wins on both sides), every marker bound.
   [fix_ignores en = en] without ignore markers ([fix_ignores_id]). *)
From Coq Require Import ZArith List Bool Lia Arith String.
Import ListNotations.
From Cedar Require Import Base.Int64 Lang.Value Lang.Expr Impl.Like Impl.InSearch Impl.Eval Impl.Partial
  Impl.Authorize Impl.Batch Proofs.ValueProofs Proofs.AuthorizeProofs Proofs.PartialProofs.

(* ========================================================================================== *)
(* Definitions                                                                                 *)
(* ========================================================================================== *)

(* all substitutions of the Cartesian product, in the order do_batch enumerates them: first variable outermost *)
Fixpoint product (vars : list (str * list value)) : list (list (str * value)) :=
  match vars with
  | [] => [[]]
  | (k, vals) :: vars' => flat_map (fun v => map (fun rest => (k, v) :: rest) (product vars')) vals
  end.

Definition sigma_of (b : list (str * value)) : sigma := fun k => rec_get k b.      (* first binding wins *)

(* brute force: the ordinary authorizer on the ORIGINAL policies under the substituted environment *)
Definition brute (en : env) (ps : list (str * policy)) (b : list (str * value)) : option bresult :=
  final_authz (subst_env (sigma_of b) en) b ps.

(* ========================================================================================== *)
(* 1. The structure of do_batch: a sequential run over the leaves of the enumeration tree      *)
(* ========================================================================================== *)

(* the leaf computations, in order (pure) *)
Fixpoint leaves (vars : list (str * list value)) (en : env) (values : list (str * value)) (ps : list (str * policy))
  {struct vars} : list (option bresult) :=
  match vars with
  | [] => [final_authz en values ps]
  | (key, vals) :: vars' =>
      let ps' := do_partial en ps in
      let en1 := match vars' with [] => fix_ignores en | _ => en end in
      flat_map (fun v => leaves vars' (sub_env en1 key v) (values ++ [(key, v)]) ps') vals
  end.

Definition budget_zero (b : option nat) : bool := match b with Some O => true | _ => false end.

(* delivering the leaves one after the other under a budget *)
Fixpoint run (cancel : bool) (l : list (option bresult)) (budget : option nat) : list bresult * option nat * bstatus :=
  match l with
  | [] => ([], budget, BOk)
  | o :: l' =>
      if cancel && budget_zero budget then ([], budget, BCancelled) else
      match o with
      | None => ([], budget, BInvalidPart)
      | Some r =>
          match budget with
          | Some O => ([r], budget, BCallbackFailed)
          | Some (S b) => let '(rs, b', st) := run cancel l' (Some b) in (r :: rs, b', st)
          | None => let '(rs, b', st) := run cancel l' None in (r :: rs, b', st)
          end
      end
  end.

Definition seq_run (x : list bresult * option nat * bstatus) (f : option nat -> list bresult * option nat * bstatus) :=
  let '(rs, b, st) := x in
  match st with
  | BOk => let '(rs2, b2, st2) := f b in (rs ++ rs2, b2, st2)
  | _ => (rs, b, st)
  end.

Lemma run_app cancel l1 l2 budget :
  run cancel (l1 ++ l2) budget = seq_run (run cancel l1 budget) (run cancel l2).
Proof.
  revert budget. induction l1 as [|o l1 IH]; intros budget.
  - cbn [app run seq_run]. destruct (run cancel l2 budget) as [[rs b] st]. reflexivity.
  - cbn [app run]. destruct (cancel && budget_zero budget); [reflexivity|].
    destruct o as [r|]; [|reflexivity].
    destruct budget as [[|b]|]; [reflexivity| |].
    + rewrite IH. destruct (run cancel l1 (Some b)) as [[rs b'] st]. cbn [seq_run].
      destruct st; try reflexivity. destruct (run cancel l2 b') as [[rs2 b2] st2]. reflexivity.
    + rewrite IH. destruct (run cancel l1 None) as [[rs b'] st]. cbn [seq_run].
      destruct st; try reflexivity. destruct (run cancel l2 b') as [[rs2 b2] st2]. reflexivity.
Qed.

Definition vals_nonempty (vars : list (str * list value)) : Prop := Forall (fun kv => snd kv <> []) vars.

Lemma leaves_nonempty vars : vals_nonempty vars -> forall en values ps, leaves vars en values ps <> [].
Proof.
  induction 1 as [|[key vals] vars Hv _ IH]; intros en values ps; cbn [leaves]; [discriminate|].
  cbn [snd] in Hv. destruct vals as [|v vals]; [congruence|]. cbn [flat_map].
  intros H. apply app_eq_nil in H. destruct H as [H _]. eapply IH. exact H.
Qed.

Lemma run_cancelled l budget : l <> [] -> budget_zero budget = true -> run true l budget = ([], budget, BCancelled).
Proof. destruct l as [|o l]; [congruence|]. intros _ H. cbn [run andb]. rewrite H. reflexivity. Qed.

Lemma do_batch_run cancel : forall vars en values ps budget,
  cancel = false \/ vals_nonempty vars ->
  do_batch cancel vars en values ps budget = run cancel (leaves vars en values ps) budget.
Proof.
  induction vars as [|[key vals] vars IH]; intros en values ps budget Hc.
  - cbn [do_batch leaves run]. fold (budget_zero budget).
    destruct (cancel && budget_zero budget); [reflexivity|].
    destruct (final_authz en values ps) as [r|]; [|reflexivity].
    destruct budget as [[|b]|]; reflexivity.
  - cbn [do_batch leaves]. fold (budget_zero budget).
    assert (Hc' : cancel = false \/ vals_nonempty vars).
    { destruct Hc as [Hc|Hc]; [left; exact Hc | right; inversion Hc; assumption]. }
    destruct (cancel && budget_zero budget) eqn:Ecz.
    + apply andb_true_iff in Ecz. destruct Ecz as [-> Ez]. symmetry. apply run_cancelled; [|exact Ez].
      destruct Hc as [Hc|Hc]; [discriminate|].
      apply (leaves_nonempty ((key, vals) :: vars) Hc en values ps).
    + clear Ecz Hc. set (ps' := do_partial en ps). set (en1 := match vars with [] => fix_ignores en | _ => en end).
      clearbody ps' en1. revert budget. induction vals as [|v vals IHv]; intros budget.
      * reflexivity.
      * cbn [flat_map]. rewrite run_app, <- (IH _ _ _ _ Hc').
        destruct (do_batch cancel vars (sub_env en1 key v) (values ++ [(key, v)]) ps' budget) as [[rs b'] st].
        cbn [seq_run]. destruct st; try reflexivity. rewrite <- IHv. reflexivity.
Qed.

(* ---- properties of run ---- *)
Lemma run_unbounded : forall l, exists rs st, run false l None = (rs, None, st) /\
  ((st = BOk /\ map Some rs = l) \/ (st = BInvalidPart /\ In None l)).
Proof.
  induction l as [|o l IH].
  - exists [], BOk. split; [reflexivity|]. left. split; reflexivity.
  - cbn [run andb]. destruct o as [r|].
    + destruct IH as (rs & st & -> & H). exists (r :: rs), st. split; [reflexivity|].
      destruct H as [[-> H]|[-> H]]; [left | right]; split; auto; cbn; [congruence | auto].
    + exists [], BInvalidPart. split; [reflexivity|]. right. split; [reflexivity | left; reflexivity].
Qed.

Lemma run_all_some cancel full : run cancel (map Some full) None = (full, None, BOk).
Proof.
  induction full as [|r full IH]; [reflexivity|]. cbn [map run budget_zero]. rewrite andb_false_r, IH. reflexivity.
Qed.

Lemma run_fail full : forall k, (k < List.length full)%nat ->
  run false (map Some full) (Some k) = (firstn (S k) full, Some O, BCallbackFailed).
Proof.
  induction full as [|r full IH]; intros k Hk; cbn [List.length] in Hk; [lia|].
  cbn [map run andb]. destruct k as [|k].
  - reflexivity.
  - rewrite IH by lia. reflexivity.
Qed.

Lemma run_cancel full : forall k, (k < List.length full)%nat ->
  run true (map Some full) (Some k) = (firstn k full, Some O, BCancelled).
Proof.
  induction full as [|r full IH]; intros k Hk; cbn [List.length] in Hk; [lia|].
  cbn [map run andb budget_zero]. destruct k as [|k].
  - reflexivity.
  - rewrite IH by lia. reflexivity.
Qed.

Lemma run_cancel_all full : run true (map Some full) (Some (List.length full)) = (full, Some O, BOk).
Proof.
  induction full as [|r full IH]; [reflexivity|].
  cbn [map run andb budget_zero List.length]. rewrite IH. reflexivity.
Qed.

(* ========================================================================================== *)
(* 2. cloneSub is substitution; sequential substitution = simultaneous substitution            *)
(* ========================================================================================== *)

Definition single (k : str) (v : value) : sigma := fun i => if str_eqb i k then Some v else None.
Definition cons_sigma (k : str) (v : value) (s : sigma) : sigma := fun i => if str_eqb i k then Some v else s i.

Lemma sigma_of_cons k v b : sigma_of ((k, v) :: b) = cons_sigma k v (sigma_of b).
Proof. reflexivity. Qed.

Lemma clone_sub_subst k v : forall r, clone_sub r k v = subst_val (single k v) r.
Proof.
  apply (value_ind' (fun r => clone_sub r k v = subst_val (single k v) r)); try (intros; reflexivity).
  - intros t i. cbn [clone_sub subst_val]. unfold single.
    destruct (str_eqb t variable_type), (str_eqb i k); reflexivity.
  - intros l IH. cbn [clone_sub subst_val]. f_equal.
    induction IH as [|x l Hx _ IHl]; [reflexivity|]. cbn [map]. rewrite <- Hx, <- IHl. reflexivity.
  - intros l IH. cbn [clone_sub subst_val]. f_equal.
    induction IH as [|[kk x] l Hx _ IHl]; [reflexivity|]. cbn [map fst snd] in *. rewrite <- Hx, <- IHl. reflexivity.
Qed.

Lemma sub_env_subst en k v : sub_env en k v = subst_env (single k v) en.
Proof. unfold sub_env, subst_env. rewrite !clone_sub_subst. reflexivity. Qed.

(* RESTRICTION of this development: unknowns occur as whole request parts or as (nested) record fields,
   never inside a set *)
Fixpoint tmpl_ok (v : value) : bool :=
  match v with
  | VSet l => negb (has_marker is_variable (VSet l))
  | VRecord l => (fix all (l : list (str * value)) : bool :=
                    match l with [] => true | (_, x) :: l' => tmpl_ok x && all l' end) l
  | _ => true
  end.

Lemma tmpl_ok_record l : tmpl_ok (VRecord l) = forallb (fun kv => tmpl_ok (snd kv)) l.
Proof.
  cbn [tmpl_ok]. induction l as [|[k x] l IH]; [reflexivity|]. cbn [forallb snd]. rewrite <- IH. reflexivity.
Qed.

Lemma novar_tmpl : forall v, has_marker is_variable v = false -> tmpl_ok v = true.
Proof.
  apply (value_ind' (fun v => has_marker is_variable v = false -> tmpl_ok v = true)); try (intros; reflexivity).
  - intros l _ H. cbn [tmpl_ok]. rewrite H. reflexivity.
  - intros l IH H. rewrite tmpl_ok_record. apply forallb_forall. intros kv Hkv.
    rewrite has_marker_record, existsb_false_Forall in H. rewrite Forall_forall in *. auto.
Qed.

(* good template value: well-formed, no unknown inside a set, no ignore marker *)
Definition tq (v : value) : Prop := wf_value v = true /\ tmpl_ok v = true /\ has_marker is_ignore v = false.

Lemma val_ok_tq v : val_ok v -> tq v.
Proof. intros [Hm Hw]. apply marker_free_inv in Hm. destruct Hm. repeat split; auto. apply novar_tmpl; auto. Qed.

Definition sigma_ok (s : sigma) : Prop := forall i w, s i = Some w -> val_ok w.

Lemma tq_record_inv l : tq (VRecord l) -> keys_sorted l = true /\ Forall (fun kv => tq (snd kv)) l.
Proof.
  intros (Hw & Ht & Hi). apply wf_rec_inv in Hw. destruct Hw as [Hs Hw].
  rewrite tmpl_ok_record, forallb_forall in Ht. rewrite has_marker_record, existsb_false_Forall in Hi.
  split; auto. rewrite Forall_forall in *. intros kv Hkv. repeat split; auto.
Qed.

Lemma tq_record l : keys_sorted l = true -> Forall (fun kv => tq (snd kv)) l -> tq (VRecord l).
Proof.
  intros Hs HF. rewrite Forall_forall in HF. repeat split.
  - rewrite wf_value_record, Hs. apply forallb_forall. intros kv Hkv. apply (HF kv Hkv).
  - rewrite tmpl_ok_record. apply forallb_forall. intros kv Hkv. apply (HF kv Hkv).
  - rewrite has_marker_record, existsb_false_Forall, Forall_forall. intros kv Hkv. apply (HF kv Hkv).
Qed.

Lemma tq_set_id s l : tq (VSet l) -> subst_val s (VSet l) = VSet l.
Proof.
  intros (Hw & Ht & _). apply subst_val_id; auto. cbn [tmpl_ok] in Ht. apply negb_true_iff in Ht. exact Ht.
Qed.

Lemma subst_tq s : sigma_ok s -> forall r, tq r -> tq (subst_val s r).
Proof.
  intros Hs. apply (value_ind' (fun r => tq r -> tq (subst_val s r))); try (intros; assumption).
  - intros t i H. cbn [subst_val]. destruct (str_eqb t variable_type); [|exact H].
    destruct (s i) as [w|] eqn:E; [|exact H]. apply val_ok_tq. eapply Hs. exact E.
  - intros l _ H. rewrite tq_set_id; auto.
  - intros l IH H. cbn [subst_val]. destruct (tq_record_inv _ H) as [Hk HF]. apply tq_record.
    + rewrite <- Hk. apply keys_sorted_ext. rewrite map_map. cbn [fst]. reflexivity.
    + rewrite Forall_forall in *. intros kv Hkv. apply in_map_iff in Hkv. destruct Hkv as (kv0 & <- & Hkv0).
      cbn [snd]. apply IH; auto.
Qed.

Lemma subst_compose s k v : val_ok v -> forall r, tq r ->
  subst_val s (subst_val (single k v) r) = subst_val (cons_sigma k v s) r.
Proof.
  intros Hv. apply (value_ind' (fun r => tq r -> subst_val s (subst_val (single k v) r) = subst_val (cons_sigma k v s) r));
    try (intros; reflexivity).
  - intros t i _. cbn [subst_val]. unfold single, cons_sigma.
    destruct (str_eqb t variable_type) eqn:Et.
    + destruct (str_eqb i k); [apply subst_val_ok; exact Hv|]. cbn [subst_val]. rewrite Et. reflexivity.
    + cbn [subst_val]. rewrite Et. reflexivity.
  - intros l _ H. rewrite !tq_set_id; auto.
  - intros l IH H. cbn [subst_val]. f_equal. rewrite map_map. cbn [fst snd].
    destruct (tq_record_inv _ H) as [_ HF]. apply map_ext_in. intros kv Hkv. f_equal.
    rewrite Forall_forall in *. apply IH; auto.
Qed.

Lemma subst_val_none : forall v, wf_value v = true -> subst_val (fun _ => None) v = v.
Proof.
  apply (value_ind' (fun v => wf_value v = true -> subst_val (fun _ => None) v = v)); try (intros; reflexivity).
  - intros t i _. cbn [subst_val]. destruct (str_eqb t variable_type); reflexivity.
  - intros l IH Hw. cbn [subst_val]. pose proof (wf_set_inv _ Hw) as [_ Hm].
    rewrite map_id_Forall; [apply mk_set_wf_id; exact Hw|]. rewrite Forall_forall in *. auto.
  - intros l IH Hw. cbn [subst_val]. f_equal. pose proof (wf_rec_inv _ Hw) as [_ Hm].
    apply map_id_Forall. rewrite Forall_forall in *. intros [k x] Hx. cbn [fst snd]. f_equal.
    exact (IH (k, x) Hx (Hm (k, x) Hx)).
Qed.

(* ---- environments ---- *)
Definition env_good (en : env) : Prop := forall x, tq (var_value en x).

Lemma env_good_wf en : env_good en -> env_wf en.
Proof. intros H x. apply (H x). Qed.
Lemma env_good_noign en : env_good en -> no_ignore en.
Proof. intros H x. apply (H x). Qed.

Lemma subst_env_good s en : sigma_ok s -> env_good en -> env_good (subst_env s en).
Proof. intros Hs H x. rewrite var_value_subst. apply subst_tq; auto. Qed.

Lemma single_ok k v : val_ok v -> sigma_ok (single k v).
Proof. intros Hv i w. unfold single. destruct (str_eqb i k); [|discriminate]. intros H; inversion H; subst; exact Hv. Qed.

Lemma sub_env_good en k v : val_ok v -> env_good en -> env_good (sub_env en k v).
Proof. intros Hv H. rewrite sub_env_subst. apply subst_env_good; auto. apply single_ok; auto. Qed.

Lemma subst_env_compose s en k v : val_ok v -> env_good en ->
  subst_env s (sub_env en k v) = subst_env (cons_sigma k v s) en.
Proof.
  intros Hv H. rewrite sub_env_subst. unfold subst_env. cbn [e_store e_principal e_action e_resource e_context].
  pose proof (subst_compose s k v Hv _ (H VPrincipal)) as E1. pose proof (subst_compose s k v Hv _ (H VAction)) as E2.
  pose proof (subst_compose s k v Hv _ (H VResource)) as E3. pose proof (subst_compose s k v Hv _ (H VContext)) as E4.
  cbn [var_value] in E1, E2, E3, E4. rewrite E1, E2, E3, E4. reflexivity.
Qed.

Lemma subst_env_nil en : env_wf en -> subst_env (sigma_of []) en = en.
Proof.
  intros H. unfold subst_env, sigma_of. cbn [rec_get].
  pose proof (subst_val_none _ (H VPrincipal)) as E1. pose proof (subst_val_none _ (H VAction)) as E2.
  pose proof (subst_val_none _ (H VResource)) as E3. pose proof (subst_val_none _ (H VContext)) as E4.
  cbn [var_value] in E1, E2, E3, E4. rewrite E1, E2, E3, E4. destruct en; reflexivity.
Qed.

Lemma fix_ignores_id en : no_ignore en -> fix_ignores en = en.
Proof.
  intros H. unfold fix_ignores.
  pose proof (noign_top _ (H VPrincipal)) as E1. pose proof (noign_top _ (H VAction)) as E2.
  pose proof (noign_top _ (H VResource)) as E3. pose proof (noign_top _ (H VContext)) as E4.
  cbn [var_value] in E1, E2, E3, E4. rewrite E1, E2, E3, E4. destruct en; reflexivity.
Qed.

(* ========================================================================================== *)
(* 3. Residual policies stay clean                                                             *)
(* ========================================================================================== *)

Definition clean_res (r : pres) : Prop :=
  match r with
  | PNode n => lit_of n = None -> expr_clean n
  | PVar n => expr_clean n
  | _ => True
  end.

Definition lit_q2 (r : pres) : Prop :=
  match r with
  | PNode n => match lit_of n with Some v => Q2 v | None => True end
  | _ => True
  end.

Definition child_ok (x : expr) (r : pres) : Prop := expr_clean x /\ clean_res r /\ lit_q2 r.

Lemma sound_lit_q2 en s e r : sound_res en s e r -> lit_q2 r.
Proof.
  destruct r as [n|n| |k]; cbn [sound_res lit_q2]; auto. destruct (lit_of n); auto. tauto.
Qed.

Lemma lit_clean v : has_marker is_ignore v = false -> has_marker is_variable v = false -> Q2 v -> expr_clean (ELit v).
Proof.
  intros Hi Hv [Hw _]. unfold expr_clean. cbn [expr_forall node_clean]. split; [|exact I].
  split; [|exact Hw]. unfold marker_free. rewrite Hi, Hv. reflexivity.
Qed.

Lemma perr_clean k : expr_clean (EPartialError k).
Proof. unfold expr_clean. cbn [expr_forall node_clean]. tauto. Qed.

Lemma embed_clean b r : child_ok b r -> match embed r b with Some n => expr_clean n | None => True end.
Proof.
  intros (Hb & Hc & Hq). destruct r as [n|n| |k]; cbn [embed]; auto.
  - rewrite residual_operand_node. cbn [clean_res lit_q2] in Hc, Hq. destruct (lit_of n) as [v|] eqn:El; auto.
    destruct (has_marker is_ignore v) eqn:Hi; [exact I|].
    destruct (has_marker is_variable v) eqn:Hv; [exact Hb|].
    apply lit_of_some in El. subst n. apply lit_clean; auto.
  - apply perr_clean.
Qed.

Section TPClean.
  Variable mk : list expr -> expr.
  Variable kids : list expr.
  Hypothesis mk_clean : forall xs, List.length xs = List.length kids -> Forall expr_clean xs -> expr_clean (mk xs).

  Definition stop_ok (r : pres) : Prop := match r with PIgnore | PErr _ => True | _ => False end.

  Lemma fold_clean : forall rest rs, Forall2 child_ok rest rs ->
    forall ok nodes values, Forall expr_clean nodes ->
    match fold_left (tp_step false) (combine rest rs) (TPGo ok nodes values) with
    | TPStop r => stop_ok r
    | TPGo ok' nodes' values' => Forall expr_clean nodes' /\ List.length nodes' = (List.length nodes + List.length rest)%nat
    end.
  Proof.
    induction 1 as [|x r rest rs (Hx & Hc & Hq) _ IH]; intros ok nodes values Hn.
    - cbn [combine fold_left List.length]. split; [exact Hn | lia].
    - cbn [combine fold_left].
      assert (Hkeep : forall n ok' values', expr_clean n ->
        match fold_left (tp_step false) (combine rest rs) (TPGo ok' (n :: nodes) values') with
        | TPStop r => stop_ok r
        | TPGo ok' nodes' values' => Forall expr_clean nodes' /\ List.length nodes' = (List.length nodes + List.length (x :: rest))%nat
        end).
      { intros n ok' values' Hcn. specialize (IH ok' (n :: nodes) values' (Forall_cons _ Hcn Hn)).
        destruct (fold_left _ _ _); [|exact IH]. cbn [List.length] in *. destruct IH; split; [assumption | lia]. }
      destruct r as [n|n| |k].
      + rewrite tp_step_node. cbn [clean_res lit_q2] in Hc, Hq. destruct (lit_of n) as [v|] eqn:El.
        * cbn [negb andb]. destruct (has_marker is_ignore v) eqn:Hi; [rewrite fold_stop; exact I|].
          destruct (has_marker is_variable v) eqn:Hv; [apply Hkeep; exact Hx|].
          apply Hkeep. apply lit_of_some in El. subst n. apply lit_clean; auto.
        * apply Hkeep. auto.
      + cbn [tp_step]. apply Hkeep. exact Hx.
      + cbn [tp_step]. rewrite fold_stop. exact I.
      + cbn [tp_step]. rewrite fold_stop. exact I.
  Qed.

  Lemma F2_child_clean xs rs : Forall2 child_ok xs rs -> Forall expr_clean xs.
  Proof. induction 1 as [|x r xs rs [H _] _ IH]; constructor; auto. Qed.

  Lemma tp_clean rs ev : Forall2 child_ok kids rs -> clean_res (try_partial false kids rs mk ev).
  Proof.
    intros HF. unfold try_partial.
    pose proof (fold_clean kids rs HF true [] [] (Forall_nil _)) as H.
    destruct (fold_left _ _ _) as [ok nodes values|r].
    - destruct H as [H1 H2]. cbn [List.length plus] in H2. destruct ok.
      + destruct (ev _) as [v|k]; [|exact I].
        destruct (is_variable v); [|destruct (is_ignore v); [exact I | cbn; discriminate]].
        cbn [clean_res]. apply mk_clean; [reflexivity | apply (F2_child_clean _ _ HF)].
      + cbn [clean_res]. intros _. apply mk_clean.
        * rewrite rev_length. exact H2.
        * rewrite Forall_forall in *. intros x Hx. apply H1. apply in_rev. exact Hx.
    - destruct r; cbn in H; try contradiction; exact I.
  Qed.
End TPClean.

Lemma un_clean (C : expr -> expr) a ra ev :
  (forall x, expr_clean x -> expr_clean (C x)) -> child_ok a ra ->
  clean_res (try_partial false [a] [ra] (fun l => C (nth 0 l a)) ev).
Proof.
  intros HC Ha. apply (tp_clean (fun l => C (nth 0 l a)) [a]).
  - intros [|x [|y xs]]; try discriminate. intros _ HF. cbn [nth]. apply HC. inversion HF; auto.
  - constructor; [exact Ha | constructor].
Qed.

Lemma bin_clean (C : expr -> expr -> expr) a b ra rb ev :
  (forall x y, expr_clean x -> expr_clean y -> expr_clean (C x y)) -> child_ok a ra -> child_ok b rb ->
  clean_res (try_partial false [a; b] [ra; rb] (fun l => C (nth 0 l a) (nth 1 l b)) ev).
Proof.
  intros HC Ha Hb. apply (tp_clean (fun l => C (nth 0 l a) (nth 1 l b)) [a; b]).
  - intros [|x [|y [|z xs]]]; try discriminate. intros _ HF. cbn [nth].
    inversion HF as [|? ? H1 HF1]; subst. inversion HF1; subst. apply HC; auto.
  - constructor; [exact Ha | constructor; [exact Hb | constructor]].
Qed.

Section Clean.
  Variable en : env.
  Hypothesis Hs : store_clean en.
  Hypothesis Hw : env_wf en.
  Hypothesis Hi : no_ignore en.

  Lemma child_of e : expr_clean e -> clean_res (partial en e) -> child_ok e (partial en e).
  Proof.
    intros He Hc. repeat split; auto.
    eapply sound_lit_q2. apply (sound_res_env en (fun _ => None) Hs Hw Hi e He).
  Qed.

  Lemma true_child b : child_ok (ELit (VBool b)) (PNode (ELit (VBool b))).
  Proof.
    repeat split; try reflexivity.
  Qed.

  Ltac clean_bin := intros; unfold expr_clean in *; cbn [expr_forall node_clean]; tauto.

  Ltac bin_c C IHa IHb :=
    let Hc := fresh "Hc" in
    intros Hc; pose proof Hc as (_ & Hca & Hcb); cbn [partial];
    apply (bin_clean C); [clean_bin | apply child_of; [exact Hca | apply IHa; exact Hca] | apply child_of; [exact Hcb | apply IHb; exact Hcb]].
  Ltac un_c C IHa :=
    let Hc := fresh "Hc" in
    intros Hc; pose proof Hc as (_ & Hca); cbn [partial];
    apply (un_clean C); [clean_bin | apply child_of; [exact Hca | apply IHa; exact Hca]].

  Lemma proj_clean (C : expr -> expr) ev a :
    (forall x, expr_clean x -> expr_clean (C x)) -> expr_clean a -> clean_res (partial en a) ->
    clean_res (try_partial true [a] [partial en a] (fun l => C (nth 0 l a)) ev).
  Proof.
    intros HC Ha Hc. rewrite try_partial_proj. cbn [nth].
    destruct (partial en a) as [n|n| |k]; cbn [clean_res] in *; auto.
    destruct (lit_of n) as [v|].
    - destruct (ev _) as [w|k]; [|exact I]. destruct (is_variable w); [cbn; auto|].
      destruct (is_ignore w); [exact I | cbn; discriminate].
    - cbn [clean_res]. auto.
  Qed.

  Lemma finish_clean (C : expr -> expr -> expr) lft b :
    (forall x y, expr_clean x -> expr_clean y -> expr_clean (C x y)) ->
    expr_clean lft -> child_ok b (partial en b) ->
    clean_res (match embed (partial en b) b with None => PIgnore | Some rgt => PNode (C lft rgt) end).
  Proof.
    intros HC Hl Hb. apply embed_clean in Hb. destruct (embed (partial en b) b); [|exact I].
    cbn [clean_res]. auto.
  Qed.

  Lemma F2_child_list es :
    Forall (fun e => expr_clean e -> clean_res (partial en e)) es ->
    Forall expr_clean es -> Forall2 child_ok es (map (partial en) es).
  Proof.
    induction 1 as [|e es He _ IH]; intros Hc; cbn [map]; constructor; inversion Hc; subst; auto.
    apply child_of; auto.
  Qed.

  Lemma combine_clean keys xs : Forall expr_clean xs ->
    Forall (fun kv : str * expr => expr_forall node_clean (snd kv)) (combine keys xs).
  Proof.
    intros H. revert keys. induction H as [|x xs Hx _ IH]; intros [|k keys]; cbn [combine]; constructor; auto.
  Qed.

  Theorem partial_clean : forall e, expr_clean e -> clean_res (partial en e).
  Proof.
    induction e using expr_ind'.
    - intros _. cbn. discriminate.
    - intros Hc. cbn [partial]. apply (tp_clean (fun _ => EVar x) []); [intros; exact Hc | constructor].
    - (* EAnd *) intros Hc. pose proof Hc as (_ & Ha & Hb). rewrite partial_and.
      pose proof (IHe1 Ha) as H1. pose proof (child_of _ Hb (IHe2 Hb)) as H2.
      destruct (partial en e1) as [lft|lft| |k]; cbn [clean_res] in H1; try exact I.
      + destruct (lit_of lft) as [v|]; [|apply (finish_clean EAnd); auto; clean_bin].
        destruct v as [[|]| | | | | | | | |]; try exact I.
        * apply (bin_clean EAnd); [clean_bin | apply true_child | exact H2].
        * cbn. discriminate.
      + apply (finish_clean EAnd); auto; clean_bin.
    - (* EOr *) intros Hc. pose proof Hc as (_ & Ha & Hb). rewrite partial_or.
      pose proof (IHe1 Ha) as H1. pose proof (child_of _ Hb (IHe2 Hb)) as H2.
      destruct (partial en e1) as [lft|lft| |k]; cbn [clean_res] in H1; try exact I.
      + destruct (lit_of lft) as [v|]; [|apply (finish_clean EOr); auto; clean_bin].
        destruct v as [[|]| | | | | | | | |]; try exact I.
        * cbn. discriminate.
        * apply (bin_clean EOr); [clean_bin | apply true_child | exact H2].
      + apply (finish_clean EOr); auto; clean_bin.
    - un_c ENot IHe.
    - un_c ENeg IHe.
    - bin_c EAdd IHe1 IHe2.
    - bin_c ESub IHe1 IHe2.
    - bin_c EMul IHe1 IHe2.
    - bin_c EEq IHe1 IHe2.
    - bin_c ENe IHe1 IHe2.
    - bin_c ELt IHe1 IHe2.
    - bin_c ELe IHe1 IHe2.
    - bin_c EGt IHe1 IHe2.
    - bin_c EGe IHe1 IHe2.
    - bin_c EIn IHe1 IHe2.
    - bin_c EContains IHe1 IHe2.
    - bin_c EContainsAll IHe1 IHe2.
    - bin_c EContainsAny IHe1 IHe2.
    - un_c EIsEmpty IHe.
    - (* EAccess *) intros Hc. pose proof Hc as (_ & Ha). cbn [partial].
      apply (proj_clean (fun x => EAccess x k)); auto. clean_bin.
    - (* EHas *) intros Hc. pose proof Hc as (_ & Ha). cbn [partial].
      apply (proj_clean (fun x => EHas x k)); auto. clean_bin.
    - bin_c EGetTag IHe1 IHe2.
    - bin_c EHasTag IHe1 IHe2.
    - un_c (fun x => ELike x p) IHe.
    - un_c (fun x => EIs x ty) IHe.
    - (* EIsIn *) intros Hc. pose proof Hc as (_ & Ha & Hb). rewrite partial_isin.
      pose proof (IHe1 Ha) as H1. pose proof (child_of _ Hb (IHe2 Hb)) as H2.
      assert (Htp : clean_res (isin_tp en e1 ty e2)).
      { unfold isin_tp. apply (bin_clean (fun x y => EIsIn x ty y)); [clean_bin | apply child_of; auto | exact H2]. }
      destruct (partial en e1) as [lft|lft| |k]; cbn [clean_res] in H1; try exact I.
      + destruct (lit_of lft) as [v|]; [|apply (finish_clean (fun x y => EIsIn x ty y)); auto; clean_bin].
        destruct v; try exact Htp. destruct (negb (str_eqb ty0 ty)); [cbn; discriminate | exact Htp].
      + apply (finish_clean (fun x y => EIsIn x ty y)); auto; clean_bin.
    - (* EIf *) intros Hc. pose proof Hc as (_ & Hcc & Ht & Hf). rewrite partial_if.
      pose proof (IHe1 Hcc) as H1. pose proof (child_of _ Ht (IHe2 Ht)) as H2. pose proof (child_of _ Hf (IHe3 Hf)) as H3.
      assert (Hfin : forall ifn, expr_clean ifn -> clean_res (if_finish en ifn e2 e3)).
      { intros ifn Hifn. unfold if_finish. apply embed_clean in H2. apply embed_clean in H3.
        destruct (embed (partial en e2) e2) as [tn|]; [|exact I].
        destruct (embed (partial en e3) e3) as [fn|]; [|exact I].
        cbn [clean_res]. intros _. unfold expr_clean in *. cbn [expr_forall node_clean]. tauto. }
      destruct (partial en e1) as [ifn|ifn| |k]; cbn [clean_res] in H1; try exact I; auto.
      destruct (lit_of ifn) as [v|]; [|auto].
      destruct v as [[|]| | | | | | | | |]; try exact I; auto.
    - (* ESet *) intros Hc. pose proof (proj1 (expr_forall_set _ _) Hc) as [_ Hes]. cbn [partial].
      apply (tp_clean (fun l => ESet l) es).
      + intros xs _ HF. apply expr_forall_set. split; [exact I | exact HF].
      + apply F2_child_list; auto.
    - (* ERecord *) intros Hc. pose proof (proj1 (expr_forall_record _ _) Hc) as [Hnd Hes]. cbn [node_clean] in Hnd.
      cbn [partial].
      apply (tp_clean (fun l => ERecord (combine (map fst kvs) l)) (map snd kvs)).
      + intros xs Hlen HF. apply expr_forall_record. split.
        * cbn [node_clean]. rewrite map_fst_combine; [exact Hnd|]. rewrite Hlen, !map_length. reflexivity.
        * apply combine_clean. exact HF.
      + clear Hnd Hc. induction H as [|kv kvs Hkv _ IH]; cbn [map]; constructor; inversion Hes; subst; auto.
        apply child_of; auto.
    - (* ECall *) intros Hc. pose proof (proj1 (expr_forall_call _ _ _) Hc) as [_ Hes]. cbn [partial].
      apply (tp_clean (fun l => ECall n l) args).
      + intros xs _ HF. apply expr_forall_call. split; [exact I | exact HF].
      + apply F2_child_list; auto.
    - intros _. exact I.
  Qed.

  (* ---- policies ---- *)
  Lemma partial_conds_clean permit : forall cs acc cs',
    Forall (fun c => expr_clean (snd c)) cs -> Forall (fun c => expr_clean (snd c)) acc ->
    partial_conds en permit cs acc = Some cs' -> Forall (fun c => expr_clean (snd c)) cs'.
  Proof.
    induction cs as [|[kind body] cs IH]; intros acc cs' Hcs Hacc.
    - cbn [partial_conds]. intros H. assert (E : cs' = rev acc) by congruence. rewrite E. apply Forall_rev. exact Hacc.
    - rewrite partial_conds_unfold. inversion Hcs as [|? ? Hb Hcs']; subst. cbn [snd] in Hb.
      pose proof (partial_clean body Hb) as Hc.
      assert (Hrev : forall n, expr_clean n -> Some (rev ((kind, n) :: acc)) = Some cs' ->
                               Forall (fun c => expr_clean (snd c)) cs').
      { intros n Hn H. assert (E : cs' = rev ((kind, n) :: acc)) by congruence. rewrite E. apply Forall_rev. constructor; auto. }
      destruct (partial en body) as [n|n| |k]; cbn [clean_res] in Hc.
      + destruct (lit_of n) as [v|].
        * destruct v; try (apply Hrev; apply perr_clean).
          destruct (Bool.eqb b kind); [apply IH; auto | discriminate].
        * apply IH; auto.
      + apply IH; auto.
      + destruct permit; [apply IH; auto | discriminate].
      + apply Hrev. apply perr_clean.
  Qed.

  Lemma partial_policy_clean p r : policy_clean p -> partial_policy en p = Some r ->
    policy_clean r /\ p_effect r = p_effect p.
  Proof.
    unfold partial_policy, policy_clean. intros Hp.
    destruct (partial_scope _ _ _); [|discriminate].
    destruct (partial_scope _ _ _); [|discriminate].
    destruct (partial_scope _ _ _); [|discriminate].
    destruct (partial_conds en (p_effect p) (p_conds p) []) as [cs|] eqn:E; [|discriminate].
    intros H; inversion H; subst. cbn [p_conds p_effect]. split; [|reflexivity].
    eapply partial_conds_clean; [exact Hp | constructor | exact E].
  Qed.

  Lemma do_partial_clean ps : Forall (fun ip => policy_clean (snd ip)) ps ->
    Forall (fun ip => policy_clean (snd ip)) (do_partial en ps).
  Proof.
    unfold do_partial. induction 1 as [|ip ps Hp _ IH]; cbn [flat_map]; [constructor|].
    apply Forall_app. split; [|exact IH].
    destruct (partial_policy en (snd ip)) as [r|] eqn:E; [|constructor].
    constructor; [|constructor]. cbn [snd]. apply (partial_policy_clean _ _ Hp E).
  Qed.
End Clean.

(* ========================================================================================== *)
(* 4. The authorizer only sees which policies are satisfied                                    *)
(* ========================================================================================== *)

Definition pol_eff (ip : str * policy) : effect := if p_effect (snd ip) then Permit else Forbid.
Definition pol_ev (en : env) (ip : str * policy) : outcome := outcome_of (bool_eval en (policy_to_expr (snd ip))).

Lemma is_sat_sat en ip : is_sat _ (pol_ev en) ip = sat en (snd ip).
Proof.
  unfold is_sat, pol_ev, outcome_of, sat.
  destruct (bool_eval en (policy_to_expr (snd ip))) as [v|k]; [|reflexivity].
  destruct v as [[|]| | | | | | | | |]; reflexivity.
Qed.

Lemma authz_summary (P : Type) eff ev (ps : list P) :
  let r := authorize P eff ev ps in
  dec r = match filter (sat_forbid P eff ev) ps with
          | _ :: _ => Deny
          | [] => match filter (sat_permit P eff ev) ps with _ :: _ => Allow | [] => Deny end
          end /\
  reasons r = match filter (sat_forbid P eff ev) ps with
              | _ :: _ => filter (sat_forbid P eff ev) ps
              | [] => filter (sat_permit P eff ev) ps
              end.
Proof.
  unfold authorize. destruct (loop_filters P eff ev ps) as (Hf & Hp & _). rewrite Hf, Hp.
  destruct (filter (sat_forbid P eff ev) ps); [destruct (filter (sat_permit P eff ev) ps)|]; split; reflexivity.
Qed.

Section AuthzEquiv.
  Variable en : env.                (* partial environment *)
  Variable en' : env.               (* a completed environment *)
  Hypothesis Hsound : forall p, policy_clean p ->
    match partial_policy en p with
    | Some r => sat en' r = sat en' p /\ p_effect r = p_effect p
    | None => sat en' p = false
    end.

  Lemma filter_do_partial (g : bool -> bool) ps : Forall (fun ip => policy_clean (snd ip)) ps ->
    map fst (filter (fun ip => sat en' (snd ip) && g (p_effect (snd ip))) (do_partial en ps)) =
    map fst (filter (fun ip => sat en' (snd ip) && g (p_effect (snd ip))) ps).
  Proof.
    unfold do_partial. induction 1 as [|ip ps Hp _ IH]; [reflexivity|].
    cbn [flat_map]. rewrite filter_app, map_app, IH. cbn [filter].
    pose proof (Hsound (snd ip) Hp) as H.
    destruct (partial_policy en (snd ip)) as [r|].
    - destruct H as [H1 H2]. cbn [filter snd]. rewrite H1, H2.
      destruct (sat en' (snd ip) && g (p_effect (snd ip))); reflexivity.
    - rewrite H. reflexivity.
  Qed.

  Lemma sat_forbid_eq ps :
    filter (sat_forbid _ pol_eff (pol_ev en')) ps =
    filter (fun ip => sat en' (snd ip) && negb (p_effect (snd ip))) ps.
  Proof.
    apply filter_ext. intros ip. unfold sat_forbid, is_forbid, pol_eff. rewrite is_sat_sat.
    destruct (p_effect (snd ip)); reflexivity.
  Qed.

  Lemma sat_permit_eq ps :
    filter (sat_permit _ pol_eff (pol_ev en')) ps =
    filter (fun ip => sat en' (snd ip) && (fun b => b) (p_effect (snd ip))) ps.
  Proof.
    apply filter_ext. intros ip. unfold sat_permit, is_permit, pol_eff. rewrite is_sat_sat.
    destruct (p_effect (snd ip)); reflexivity.
  Qed.

  Lemma map_nil_match {A B C} (f : A -> B) (l : list A) (x y : C) :
    match l with [] => x | _ :: _ => y end = match map f l with [] => x | _ :: _ => y end.
  Proof. destruct l; reflexivity. Qed.

  Lemma final_authz_do_partial vals ps : Forall (fun ip => policy_clean (snd ip)) ps ->
    final_authz en' vals (do_partial en ps) = final_authz en' vals ps.
  Proof.
    intros Hps. unfold final_authz.
    destruct (e_principal en'); try reflexivity. destruct (e_action en'); try reflexivity.
    destruct (e_resource en'); try reflexivity. destruct (e_context en'); try reflexivity.
    change (fun ip : str * policy => if p_effect (snd ip) then Permit else Forbid) with pol_eff.
    change (fun ip : str * policy => outcome_of (bool_eval en' (policy_to_expr (snd ip)))) with (pol_ev en').
    destruct (authz_summary _ pol_eff (pol_ev en') (do_partial en ps)) as [D1 R1].
    destruct (authz_summary _ pol_eff (pol_ev en') ps) as [D2 R2].
    pose proof (filter_do_partial negb ps Hps) as Ff. pose proof (filter_do_partial (fun b => b) ps Hps) as Fp.
    rewrite <- !sat_forbid_eq in Ff. rewrite <- !sat_permit_eq in Fp.
    f_equal. f_equal.
    - rewrite D1, D2.
      rewrite (map_nil_match fst (filter (sat_forbid _ pol_eff (pol_ev en')) (do_partial en ps))), Ff, <- map_nil_match.
      destruct (filter (sat_forbid _ pol_eff (pol_ev en')) ps); [|reflexivity].
      rewrite (map_nil_match fst (filter (sat_permit _ pol_eff (pol_ev en')) (do_partial en ps))), Fp, <- map_nil_match.
      reflexivity.
    - rewrite R1, R2.
      destruct (filter (sat_forbid _ pol_eff (pol_ev en')) (do_partial en ps)) as [|x lx] eqn:E1;
        destruct (filter (sat_forbid _ pol_eff (pol_ev en')) ps) as [|y my] eqn:E2; cbn [map] in Ff; try discriminate.
      + exact Fp.
      + exact Ff.
  Qed.
End AuthzEquiv.

(* ========================================================================================== *)
(* 5. The leaves of the enumeration are the brute-force results                                *)
(* ========================================================================================== *)

(* Hypotheses H.  [env_good]: the four request parts are well-formed, contain no ignore marker, and no
   unknown inside a set (RESTRICTION, see tmpl_ok).  Not needed: NoDup (map fst vars) (the first binding
   wins on both sides), nor that every marker is bound (unbound markers stay in place on both sides). *)
Definition batch_hyps (vars : list (str * list value)) (en : env) (ps : list (str * policy)) : Prop :=
  store_clean en /\ env_good en /\
  Forall (fun ip => policy_clean (snd ip)) ps /\
  Forall (fun kv => Forall val_ok (snd kv)) vars.

Lemma policy_sound_eff en s p : store_clean en -> env_good en -> policy_clean p ->
  match partial_policy en p with
  | Some r => sat (subst_env s en) r = sat (subst_env s en) p /\ p_effect r = p_effect p
  | None => sat (subst_env s en) p = false
  end.
Proof.
  intros Hs He Hp.
  pose proof (partial_policy_sound_gen en s p Hs (env_good_wf _ He) Hp (env_good_noign _ He)) as H.
  destruct (partial_policy en p) as [r|] eqn:E; [|exact H]. split; [exact H|].
  apply (partial_policy_clean en Hs (env_good_wf _ He) (env_good_noign _ He) p r Hp E).
Qed.

Lemma map_flat_map {A B C} (g : B -> C) (f : A -> list B) l : map g (flat_map f l) = flat_map (fun x => map g (f x)) l.
Proof. induction l as [|x l IH]; cbn [flat_map map]; [reflexivity|]. rewrite map_app, IH. reflexivity. Qed.

Lemma flat_map_ext_F {A B} (f g : A -> list B) l : Forall (fun x => f x = g x) l -> flat_map f l = flat_map g l.
Proof. induction 1 as [|x l Hx _ IH]; cbn [flat_map]; congruence. Qed.

Lemma leaves_brute : forall vars en values ps, batch_hyps vars en ps ->
  leaves vars en values ps =
  map (fun b => final_authz (subst_env (sigma_of b) en) (values ++ b) ps) (product vars).
Proof.
  induction vars as [|[key vals] vars IH]; intros en values ps (Hs & He & Hps & Hv).
  - cbn [leaves product map]. rewrite subst_env_nil by (apply env_good_wf; exact He). rewrite app_nil_r. reflexivity.
  - cbn [leaves product]. rewrite map_flat_map.
    assert (Hen1 : match vars with [] => fix_ignores en | _ :: _ => en end = en).
    { destruct vars; [apply fix_ignores_id, env_good_noign; exact He | reflexivity]. }
    rewrite Hen1. inversion Hv as [|? ? Hvals Hv']; subst. cbn [snd] in Hvals.
    apply flat_map_ext_F. eapply Forall_impl; [|exact Hvals]. intros v Hval.
    rewrite IH.
    + rewrite map_map. apply map_ext. intros b.
      rewrite (subst_env_compose _ en key v Hval He), <- sigma_of_cons, <- app_assoc. cbn [app].
      apply final_authz_do_partial; [|exact Hps].
      intros p Hp. apply policy_sound_eff; auto.
    + split; [exact Hs|]. split; [apply sub_env_good; auto|]. split; [|exact Hv'].
      apply do_partial_clean; auto; [apply env_good_wf | apply env_good_noign]; exact He.
Qed.

Lemma do_batch_brute cancel vars en ps budget : batch_hyps vars en ps ->
  cancel = false \/ vals_nonempty vars ->
  do_batch cancel vars en [] ps budget = run cancel (map (brute en ps) (product vars)) budget.
Proof.
  intros H Hc. rewrite do_batch_run by exact Hc. rewrite leaves_brute by exact H. reflexivity.
Qed.

(* ========================================================================================== *)
(* 6. Headline theorems                                                                        *)
(* ========================================================================================== *)

Theorem do_batch_is_bruteforce : forall vars en ps, batch_hyps vars en ps ->
  let '(rs, _, st) := do_batch false vars en [] ps None in
  match st with
  | BOk => map Some rs = map (brute en ps) (product vars)
  | BInvalidPart => exists b, In b (product vars) /\ brute en ps b = None
  | _ => False
  end.
Proof.
  intros vars en ps H. rewrite (do_batch_brute false vars en ps None H (or_introl eq_refl)).
  destruct (run_unbounded (map (brute en ps) (product vars))) as (rs & st & -> & [[-> Hr]|[-> Hr]]).
  - exact Hr.
  - apply in_map_iff in Hr. destruct Hr as (b & Hb & Hin). eauto.
Qed.

Lemma final_authz_values en vals ps r : final_authz en vals ps = Some r -> br_values r = vals.
Proof.
  unfold final_authz. destruct (e_principal en); try discriminate. destruct (e_action en); try discriminate.
  destruct (e_resource en); try discriminate. destruct (e_context en); try discriminate.
  intros H; inversion H; reflexivity.
Qed.

Lemma map_some_values en ps : forall bs rs, map Some rs = map (brute en ps) bs -> map br_values rs = bs.
Proof.
  induction bs as [|b bs IH]; intros [|r rs]; cbn [map]; try discriminate; [reflexivity|].
  intros H. inversion H as [[H1 H2]]. f_equal; [|apply IH; exact H2].
  symmetry in H1. apply final_authz_values in H1. exact H1.
Qed.

Theorem batch_once_each : forall vars en ps, batch_hyps vars en ps ->
  let '(rs, _, st) := do_batch false vars en [] ps None in
  st = BOk -> List.length rs = List.length (product vars) /\ map br_values rs = product vars.
Proof.
  intros vars en ps H. pose proof (do_batch_is_bruteforce vars en ps H) as Hb.
  destruct (do_batch false vars en [] ps None) as [[rs b] st]. intros ->.
  split; [|eapply map_some_values; exact Hb].
  rewrite <- (map_length Some rs), Hb, map_length. reflexivity.
Qed.

(* when no substitution produces an invalid request part, all brute-force results exist *)
Lemma all_some {A B} (f : A -> option B) l : (forall x, In x l -> f x <> None) -> exists full, map f l = map Some full.
Proof.
  induction l as [|x l IH]; intros H.
  - exists []. reflexivity.
  - destruct IH as [full Hf]. { intros y Hy. apply H. right. exact Hy. }
    destruct (f x) as [r|] eqn:E; [|exfalso; eapply H; [left; reflexivity | exact E]].
    exists (r :: full). cbn [map]. rewrite E, Hf. reflexivity.
Qed.

Theorem batch_stops_on_failure : forall vars en ps k, batch_hyps vars en ps ->
  (forall b, In b (product vars) -> brute en ps b <> None) ->
  (k < List.length (product vars))%nat ->
  let '(full, _, _) := do_batch false vars en [] ps None in
  let '(rs, _, st) := do_batch false vars en [] ps (Some k) in
  st = BCallbackFailed /\ List.length rs = S k /\ rs = firstn (S k) full.
Proof.
  intros vars en ps k H Hsome Hk.
  rewrite !(do_batch_brute false vars en ps _ H (or_introl eq_refl)).
  destruct (all_some (brute en ps) (product vars) Hsome) as [full Hf]. rewrite Hf.
  assert (Hlen : List.length full = List.length (product vars)).
  { rewrite <- (map_length Some full), <- Hf, map_length. reflexivity. }
  rewrite run_all_some, run_fail by lia.
  split; [reflexivity|]. split; [|reflexivity]. rewrite firstn_length. lia.
Qed.

Lemma product_nonempty vars : product vars <> [] -> vals_nonempty vars.
Proof.
  induction vars as [|[key vals] vars IH]; intros H; [constructor|].
  cbn [product] in H. constructor.
  - cbn [snd]. intros ->. apply H. reflexivity.
  - apply IH. intros E. apply H. rewrite E. clear. induction vals as [|v vals IHv]; [reflexivity|]. cbn [flat_map map app]. exact IHv.
Qed.

(* cancel = true, budget k: the context is cancelled during the k-th callback (k = 0: before the first one).
   For k < |product| do_batch stops with BCancelled after exactly k results; for k = |product| > 0 every
   result is delivered and do_batch itself returns BOk with budget Some 0 (batch_authorize's [finish] then
   reports BCancelled). *)
Theorem batch_stops_on_cancel : forall vars en ps k, batch_hyps vars en ps ->
  (forall b, In b (product vars) -> brute en ps b <> None) ->
  (k <= List.length (product vars))%nat ->
  let '(full, _, _) := do_batch false vars en [] ps None in
  let '(rs, bud, st) := do_batch true vars en [] ps (Some k) in
  List.length rs = k /\ rs = firstn k full /\
  ((k < List.length (product vars))%nat -> st = BCancelled) /\
  (k = List.length (product vars) -> (0 < k)%nat -> st = BOk /\ bud = Some O).
Proof.
  intros vars en ps k H Hsome Hk.
  destruct k as [|k].
  - (* cancelled before the first callback *)
    destruct (do_batch false vars en [] ps None) as [[full b0] st0].
    assert (E : do_batch true vars en [] ps (Some O) = ([], Some O, BCancelled)).
    { destruct vars as [|[key vals] vars]; reflexivity. }
    rewrite E. split; [reflexivity|]. split; [reflexivity|]. split; [intros; reflexivity | intros _ Hlt; lia].
  - assert (Hne : vals_nonempty vars).
    { apply product_nonempty. intros E. rewrite E in Hk. cbn in Hk. lia. }
    rewrite (do_batch_brute false vars en ps _ H (or_introl eq_refl)).
    rewrite (do_batch_brute true vars en ps _ H (or_intror Hne)).
    destruct (all_some (brute en ps) (product vars) Hsome) as [full Hf]. rewrite Hf.
    assert (Hlen : List.length full = List.length (product vars)).
    { rewrite <- (map_length Some full), <- Hf, map_length. reflexivity. }
    rewrite run_all_some.
    destruct (S k <? List.length (product vars))%nat eqn:E.
    + apply Nat.ltb_lt in E. rewrite run_cancel by lia.
      split; [rewrite firstn_length; lia|]. split; [reflexivity|]. split; [reflexivity | intros; lia].
    + apply Nat.ltb_ge in E. assert (Ek : S k = List.length full) by lia. rewrite Ek, run_cancel_all.
      split; [reflexivity|]. split; [rewrite firstn_all; reflexivity|]. split; [intros; lia | split; reflexivity].
Qed.

(* ---- the entry point: the checks of Authorize do not change the picture ---- *)
Lemma product_empty vars : existsb (fun kv : str * list value => match snd kv with [] => true | _ => false end) vars = true ->
  product vars = [].
Proof.
  induction vars as [|[key vals] vars IH]; cbn [existsb snd product]; [discriminate|].
  destruct vals as [|v vals]; [reflexivity|]. cbn [orb]. intros H. rewrite (IH H).
  clear. generalize (v :: vals). intros l. induction l as [|x l IHl]; [reflexivity|]. cbn [flat_map map app]. exact IHl.
Qed.

Theorem batch_authorize_bruteforce : forall vars en ps, batch_hyps vars en ps ->
  let '(rs, st) := batch_authorize false vars en ps None in
  st = BOk -> map Some rs = map (brute en ps) (product vars).
Proof.
  intros vars en ps H. unfold batch_authorize.
  destruct (negb (forallb _ _)); [discriminate|].
  destruct (negb (forallb _ vars)); [discriminate|].
  destruct (existsb _ vars) eqn:Ee; [intros _; rewrite (product_empty _ Ee); reflexivity|].
  destruct H as (Hs & He & Hps & Hv).
  destruct vars as [|kv vars].
  - pose proof (final_authz_do_partial en (subst_env (sigma_of []) en)
                  (fun p Hp => policy_sound_eff en _ p Hs He Hp) [] ps Hps) as E.
    rewrite (subst_env_nil en (env_good_wf _ He)) in E.
    cbn [do_batch andb product map]. unfold brute.
    rewrite (fix_ignores_id en (env_good_noign _ He)), (subst_env_nil en (env_good_wf _ He)), E.
    destruct (final_authz en [] ps) as [r|]; [intros _; reflexivity | discriminate].
  - pose proof (do_batch_is_bruteforce (kv :: vars) en ps (conj Hs (conj He (conj Hps Hv)))) as Hb.
    destruct (do_batch false (kv :: vars) en [] ps None) as [[rs b] st].
    assert (Hfin : (match st, b with BOk, Some O => (rs, BOk) | _, _ => (rs, st) end) = (rs, st)).
    { destruct st; try reflexivity. destruct b as [[|]|]; reflexivity. }
    cbn [negb]. rewrite Hfin. intros ->. exact Hb.
Qed.

(* ========================================================================================== *)
(* Example: two unknowns (2 x 2 values), two policies                                          *)
(* ========================================================================================== *)
Local Open Scope Z_scope.

Definition bx_env : env :=
  {| e_store := []; e_principal := ex_var "p"; e_action := ex_action; e_resource := ex_photo "x";
     e_context := VRecord [(ex_n, ex_var "x")] |}.
Definition bx_vars : list (str * list value) :=
  [(s_of "p", [ex_user "a"; ex_user "b"]); (s_of "x", [VLong 1; VLong 2])].
(* permit(principal == User::"a", action, resource) when { context.n == 1 };
   forbid(principal, action, resource) when { context.n == 2 && principal == User::"a" }; *)
Definition bx_ps : list (str * policy) :=
  [(s_of "p0", {| p_effect := true; p_principal := SEq (s_of "User", s_of "a"); p_action := SAll; p_resource := SAll;
                  p_conds := [(true, EEq (EAccess (EVar VContext) ex_n) (ELit (VLong 1)))] |});
   (s_of "p1", {| p_effect := false; p_principal := SAll; p_action := SAll; p_resource := SAll;
                  p_conds := [(true, EAnd (EEq (EAccess (EVar VContext) ex_n) (ELit (VLong 2)))
                                          (EEq (EVar VPrincipal) (ELit (ex_user "a"))))] |})].

Example bx_hyps : batch_hyps bx_vars bx_env bx_ps.
Proof.
  split; [intros u ent H; discriminate|]. split; [intros x; destruct x; repeat split; reflexivity|]. split.
  - repeat constructor; cbn [snd p_conds expr_forall node_clean]; repeat split; try reflexivity.
  - repeat constructor; reflexivity.
Qed.

Example bx_batch :
  let '(rs, _, st) := do_batch false bx_vars bx_env [] bx_ps None in
  st = BOk /\
  map Some rs = map (brute bx_env bx_ps) (product bx_vars) /\
  map br_decision rs = [Allow; Deny; Deny; Deny] /\
  map br_reasons rs = [[s_of "p0"]; [s_of "p1"]; []; []] /\
  map br_values rs = product bx_vars.
Proof. vm_compute. repeat split. Qed.

Example bx_budget :
  (let '(rs, _, st) := do_batch false bx_vars bx_env [] bx_ps (Some 1%nat) in st = BCallbackFailed /\ List.length rs = 2%nat) /\
  (let '(rs, _, st) := do_batch true bx_vars bx_env [] bx_ps (Some 1%nat) in st = BCancelled /\ List.length rs = 1%nat).
Proof. vm_compute. repeat split. Qed.

(* Outside the proved fragment (unknowns INSIDE a set: context = {l: [?x, ?y]}, policy `when { context.l.contains(1) }`)
   the statement still holds on this instance: the restriction [tmpl_ok] is one of the proof (sequential vs
   simultaneous rebuilding of sets with mk_set), no counterexample is known. *)
Definition bx_env_set : env :=
  {| e_store := []; e_principal := ex_user "a"; e_action := ex_action; e_resource := ex_photo "x";
     e_context := VRecord [(s_of "l", VSet [ex_var "x"; ex_var "y"])] |}.
Definition bx_vars_set : list (str * list value) := [(s_of "x", [VLong 1; VLong 2]); (s_of "y", [VLong 1; VLong 2])].
Definition bx_ps_set : list (str * policy) :=
  [(s_of "p0", {| p_effect := true; p_principal := SAll; p_action := SAll; p_resource := SAll;
                  p_conds := [(true, EContains (EAccess (EVar VContext) (s_of "l")) (ELit (VLong 1)))] |})].
Example bx_set_nested :
  let '(rs, _, st) := do_batch false bx_vars_set bx_env_set [] bx_ps_set None in
  st = BOk /\ map Some rs = map (brute bx_env_set bx_ps_set) (product bx_vars_set) /\
  map br_decision rs = [Allow; Allow; Allow; Deny].
Proof. vm_compute. repeat split. Qed.

Print Assumptions do_batch_is_bruteforce.
Print Assumptions batch_once_each.
Print Assumptions batch_stops_on_failure.
Print Assumptions batch_stops_on_cancel.
Print Assumptions batch_authorize_bruteforce.
Print Assumptions partial_clean.
