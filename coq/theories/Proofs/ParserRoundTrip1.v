(* Parser round trip, part 1: printers are plain, integer literals, token algebra, continuation classes of tokens,
   big-step rules for the fuelled parser ("Ev P v r": with enough fuel P returns POk v r), the level structure
   (PL / LoopL / Beh) and the lifting lemma. *)
From Coq Require Import ZArith List Bool String Lia Arith.
Import ListNotations.
From Cedar Require Import Base.Int64 Base.Utf8 Base.Utf8Enc Lang.Value Impl.Like Lang.Expr Impl.Eval Impl.Text Impl.Decimal Impl.Duration Impl.Datetime
  Impl.Scanner Impl.Tokenizer Impl.Quote Impl.Parser Impl.Printer Lang.RoundTrip Generated.Tables.
From Cedar Require Import Proofs.QuoteProofs Proofs.ParserFuel Proofs.DecimalProofs.

(* ------------------------------------------------------------------------------------------------------------ *)
(* plain strings: what string_value_plain wants                                                                    *)
(* ------------------------------------------------------------------------------------------------------------ *)
Definition plain (c : Z) : Prop := (32 <= c < 127 /\ c <> 34 /\ c <> 92)%Z.

Lemma digits_plain : forall s, Forall (fun c => is_digit c = true) s -> Forall plain s.
Proof.
  intros s H. eapply Forall_impl; [|exact H]. intros c Hc. cbv beta in Hc.
  apply is_digit_range in Hc. unfold plain. lia.
Qed.

Lemma print_nat_all_digits : forall z, Forall (fun c => is_digit c = true) (print_nat z).
Proof. intros z. unfold print_nat. apply digits_of_digits. constructor. Qed.

Lemma print_nat_plain : forall z, Forall plain (print_nat z).
Proof. intros z. apply digits_plain, print_nat_all_digits. Qed.

Lemma repeat_plain : forall n, Forall plain (repeat 48%Z n).
Proof. induction n as [|n IH]; cbn [repeat]; constructor; [unfold plain; lia | exact IH]. Qed.

Lemma print_padded_plain : forall w z, Forall plain (print_padded w z).
Proof. intros w z. unfold print_padded. apply Forall_app. split; [apply repeat_plain | apply print_nat_plain]. Qed.

Lemma match48 : forall (A : Type) (Q : A -> Prop) (c : Z) (x y : A), Q x -> Q y -> Q (match c with 48%Z => x | _ => y end).
Proof.
  intros A Q c x y Hx Hy. destruct c as [|p|p]; auto.
  do 6 (try (destruct p as [p|p|]; auto)).
Qed.

Lemma trim_zeros_Forall : forall (P : Z -> Prop) n rs, Forall P rs -> Forall P (trim_zeros n rs).
Proof.
  intros P. induction n as [|n IH]; intros rs H; [destruct rs; exact H|].
  destruct rs as [|c rs']; [exact H|]. cbn [trim_zeros].
  apply match48; [|exact H]. apply IH. inversion H; assumption.
Qed.

Lemma Forall_rev' : forall (A : Type) (P : A -> Prop) l, Forall P l -> Forall P (rev l).
Proof. intros A P l H. apply Forall_forall. intros x Hx. apply in_rev in Hx. rewrite Forall_forall in H. auto. Qed.

Lemma plain_cons : forall c l, plain c -> Forall plain l -> Forall plain (c :: l).
Proof. intros; constructor; assumption. Qed.

Lemma print_decimal_plain : forall z, Forall plain (print_decimal z).
Proof.
  intros z. unfold print_decimal. apply Forall_rev', trim_zeros_Forall, Forall_rev'.
  destruct (z <? 0)%Z.
  - apply plain_cons; [unfold plain; lia|]. apply Forall_app. split; [apply print_nat_plain|].
    apply plain_cons; [unfold plain; lia | apply print_padded_plain].
  - apply Forall_app. split; [apply print_nat_plain|].
    apply plain_cons; [unfold plain; lia | apply print_padded_plain].
Qed.

Lemma print_duration_plain : forall z, Forall plain (print_duration z).
Proof.
  intros z. unfold print_duration.
  destruct (z =? 0)%Z; [repeat (apply plain_cons; [unfold plain; lia|]); constructor|].
  cbv zeta.
  assert (Hpart : forall q suffix, Forall plain suffix -> Forall plain (if (q >? 0)%Z then print_nat q ++ suffix else [])).
  { intros q suffix Hs. destruct (q >? 0)%Z; [|constructor]. apply Forall_app. split; [apply print_nat_plain | exact Hs]. }
  repeat (apply Forall_app; split).
  - destruct (z <? 0)%Z; [apply plain_cons; [unfold plain; lia|]|]; constructor.
  - apply Hpart. repeat (apply plain_cons; [unfold plain; lia|]); constructor.
  - apply Hpart. repeat (apply plain_cons; [unfold plain; lia|]); constructor.
  - apply Hpart. repeat (apply plain_cons; [unfold plain; lia|]); constructor.
  - apply Hpart. repeat (apply plain_cons; [unfold plain; lia|]); constructor.
  - apply Hpart. repeat (apply plain_cons; [unfold plain; lia|]); constructor.
Qed.

Lemma print_datetime_plain : forall z, Forall plain (print_datetime z).
Proof.
  intros z. unfold print_datetime. cbv zeta.
  destruct (civil_from_days (z / MillisPerDay)) as [[y m] d].
  apply Forall_app. split.
  - destruct ((0 <=? y)%Z && (y <=? 9999)%Z); [apply print_padded_plain|].
    apply plain_cons; [destruct (y <? 0)%Z; unfold plain; lia | apply print_padded_plain].
  - repeat (first [ apply plain_cons; [unfold plain; lia|]
                  | apply Forall_app; split; [apply print_padded_plain|]
                  | constructor ]).
Qed.

(* ------------------------------------------------------------------------------------------------------------ *)
(* integer literals                                                                                              *)
(* ------------------------------------------------------------------------------------------------------------ *)
Lemma digits_val_acc_fold : forall s acc v, digits_val_acc s acc = Some v ->
  fold_left (fun a c => (a * 10 + (c - 48))%Z) s acc = v.
Proof.
  induction s as [|c s IH]; intros acc v H; cbn [digits_val_acc fold_left] in *.
  - congruence.
  - destruct (is_digit c); [|discriminate]. apply IH. exact H.
Qed.

Lemma digits_val_print_nat : forall z, (0 <= z < 10 ^ 40)%Z -> digits_val (print_nat z) = z.
Proof.
  intros z Hz. unfold digits_val. apply digits_val_acc_fold.
  destruct (parse_digits_some _ _ (parse_print_nat z Hz)) as [_ H]. exact H.
Qed.

Lemma in64_small : forall z, in64b z = true -> (- 10 ^ 40 < z < 10 ^ 40)%Z.
Proof.
  intros z H. apply in64b_spec in H. unfold in64, min64, max64, two63 in H.
  assert (9223372036854775808 < 10 ^ 40)%Z by reflexivity. lia.
Qed.

Lemma int_value_pos : forall z, (0 <= z)%Z -> in64b z = true -> int_value false (print_nat z) = Some z.
Proof.
  intros z Hz Hi. unfold int_value. pose proof (in64_small z Hi).
  rewrite digits_val_print_nat by lia. rewrite Hi. reflexivity.
Qed.

Lemma int_value_neg : forall z, (z < 0)%Z -> in64b z = true -> int_value true (print_nat (- z)) = Some z.
Proof.
  intros z Hz Hi. unfold int_value. pose proof (in64_small z Hi).
  rewrite digits_val_print_nat by lia. rewrite Z.opp_involutive, Hi. reflexivity.
Qed.

(* ------------------------------------------------------------------------------------------------------------ *)
(* tokens                                                                                                        *)
(* ------------------------------------------------------------------------------------------------------------ *)
Definition O (s : string) : token := mk (TOperator, s_of s).
Definition K (s : string) : token := mk (TReserved, s_of s).
Definition I (s : string) : token := mk (TIdent, s_of s).
Definition Id (s : str) : token := mk (TIdent, s).
Definition St (s : str) : token := mk (TString, s).
Definition Nt (s : str) : token := mk (TInt, s).

Lemma toks_of_app : forall a b, toks_of (a ++ b) = toks_of a ++ toks_of b.
Proof. intros a b. unfold toks_of, toks. rewrite flat_map_app, map_app. reflexivity. Qed.
Lemma toks_of_nil : toks_of [] = [].
Proof. reflexivity. Qed.
Lemma toks_of_T : forall ty s l, toks_of (T ty s :: l) = mk (ty, s) :: toks_of l.
Proof. reflexivity. Qed.
Lemma toks_of_Sp : forall s l, toks_of (Sp s :: l) = toks_of l.
Proof. reflexivity. Qed.
Lemma toks_of_op : forall s l, toks_of (op s :: l) = O s :: toks_of l.
Proof. reflexivity. Qed.
Lemma toks_of_kw : forall s l, toks_of (kw s :: l) = K s :: toks_of l.
Proof. reflexivity. Qed.
Lemma toks_of_idt : forall s l, toks_of (idt s :: l) = I s :: toks_of l.
Proof. reflexivity. Qed.
Lemma toks_of_sp : forall l, toks_of (sp :: l) = toks_of l.
Proof. reflexivity. Qed.
Lemma toks_of_nl : forall l, toks_of (nl :: l) = toks_of l.
Proof. reflexivity. Qed.
Lemma toks_of_indent : forall l, toks_of (indent :: l) = toks_of l.
Proof. reflexivity. Qed.

Lemma adv_cons : forall t l, l <> [] -> adv (t :: l) = l.
Proof. intros t l H. destruct l; [congruence | reflexivity]. Qed.
Lemma peek_cons : forall t l, peek (t :: l) = t.
Proof. reflexivity. Qed.
Lemma app_ne_r : forall (A : Type) (a b : list A), b <> [] -> a ++ b <> [].
Proof. intros A a b H E. apply app_eq_nil in E. destruct E; contradiction. Qed.
Lemma cons_ne : forall (A : Type) (x : A) l, x :: l <> [].
Proof. intros; discriminate. Qed.

Ltac ne := solve [ repeat first [ assumption | apply cons_ne | apply app_ne_r ] ].

Lemma exact_cons : forall t l s, tx t s = true -> l <> [] -> exact (t :: l) s = Some l.
Proof. intros t l s H Hl. unfold exact. cbn [peek]. rewrite H, adv_cons by exact Hl. reflexivity. Qed.

Lemma tx_eq : forall t s, tx t s = true -> t_text t = s_of s.
Proof. intros t s H. unfold tx in H. apply str_eqb_eq in H. symmetry. exact H. Qed.

(* ------------------------------------------------------------------------------------------------------------ *)
(* continuation class of a token: which operator loop of the parser consumes it (0 = none)                         *)
(* ------------------------------------------------------------------------------------------------------------ *)
Definition cont_table : list (string * nat) :=
  [("||", 1); ("&&", 2); ("<", 3); ("<=", 3); (">", 3); (">=", 3); ("!=", 3); ("==", 3); ("in", 3); ("has", 3); ("like", 3); ("is", 3);
   ("+", 4); ("-", 4); ("*", 5); (".", 7); ("[", 7); ("(", 9); ("::", 9)]%string.

Definition contx (text : str) : nat :=
  match find (fun e => str_eqb (s_of (fst e)) text) cont_table with Some e => snd e | None => 0 end.
Definition cont (t : token) : nat := contx (t_text t).

Lemma cont_tx : forall t s, tx t s = true -> cont t = contx (s_of s).
Proof. intros t s H. unfold cont. rewrite (tx_eq _ _ H). reflexivity. Qed.

Lemma stop_cont : forall t, stop_tok t = true -> cont t = 0.
Proof.
  intros t H. unfold stop_tok in H. apply negb_true_iff in H.
  unfold cont, contx, cont_table. cbn [existsb] in H. unfold tx in H.
  cbn [find fst snd].
  repeat (apply orb_false_iff in H; destruct H as [H0 H]; rewrite H0; clear H0).
  reflexivity.
Qed.

(* tx t s = false from a bound on cont t in the context *)
Ltac txf :=
  match goal with
  | |- tx ?t ?s = false =>
    let E := fresh "E" in
    destruct (tx t s) eqn:E;
    [ exfalso; apply cont_tx in E;
      let n := eval vm_compute in (contx (s_of s)) in change (contx (s_of s)) with n in E; lia
    | reflexivity ]
  end.

(* cont of a closed token *)
Ltac contc :=
  cbn [peek];
  repeat match goal with
         | |- context [cont ?t] => let n := eval vm_compute in (cont t) in
                                   lazymatch n with 0%nat => idtac | S _ => idtac end; change (cont t) with n
         end;
  lia.

(* ------------------------------------------------------------------------------------------------------------ *)
(* "with enough fuel, P returns POk v r"                                                                          *)
(* ------------------------------------------------------------------------------------------------------------ *)
Definition Ev {A : Type} (P : nat -> pres A) (v : A) (r : list token) : Prop :=
  exists f0 : nat, forall f : nat, f0 <= f -> P f = POk v r.

Lemma ev_ret : forall (A : Type) (v : A) r, Ev (fun _ => POk v r) v r.
Proof. intros A v r. exists 0. intros f _. reflexivity. Qed.

Lemma ev_det : forall (A : Type) (P : nat -> pres A) v r v' r', Ev P v r -> Ev P v' r' -> v = v' /\ r = r'.
Proof.
  intros A P v r v' r' [f1 H1] [f2 H2].
  specialize (H1 (f1 + f2) ltac:(lia)). specialize (H2 (f1 + f2) ltac:(lia)).
  rewrite H1 in H2. inversion H2. split; reflexivity.
Qed.

Lemma ev_ret_inv : forall (A : Type) (v w : A) r r', Ev (fun _ => POk v r) w r' -> v = w /\ r = r'.
Proof. intros A v w r r' H. apply (ev_det _ (fun _ => POk v r)); [apply ev_ret | exact H]. Qed.

Lemma ev_ext : forall (A : Type) (P Q : nat -> pres A) v r, (forall f, P f = Q f) -> Ev P v r -> Ev Q v r.
Proof. intros A P Q v r H [f0 H0]. exists f0. intros f Hf. rewrite <- H. apply H0. exact Hf. Qed.

(* open all Ev hypotheses, choose a fuel above all of them plus one, and expose one constructor of the fuel *)
Ltac ev_go :=
  let rec collect acc :=
    lazymatch goal with
    | H : Ev _ _ _ |- _ => let f := fresh "f0" in destruct H as [f H]; collect (acc + f)%nat
    | _ => exists (S acc)
    end in
  collect 0%nat;
  let f := fresh "f" in let Hf := fresh "Hf" in
  intros f Hf; destruct f as [|f]; [exfalso; lia|].

(* ------------------------------------------------------------------------------------------------------------ *)
(* evaluating token tests                                                                                        *)
(* ------------------------------------------------------------------------------------------------------------ *)
Ltac tx_eval :=
  repeat match goal with
         | |- context [tx ?t ?k] =>
           let b := eval vm_compute in (tx t k) in
           lazymatch b with true => idtac | false => idtac end;
           change (tx t k) with b
         end.

Lemma ty_facts : forall s,
  (is_int (Id s) = false /\ is_string (Id s) = false /\ is_ident (Id s) = true /\ t_text (Id s) = s) /\
  (is_int (St s) = false /\ is_string (St s) = true /\ is_ident (St s) = false /\ t_text (St s) = s) /\
  (is_int (Nt s) = true /\ is_string (Nt s) = false /\ is_ident (Nt s) = false /\ t_text (Nt s) = s).
Proof. intros s. repeat split; reflexivity. Qed.
Lemma ty_facts2 : forall s,
  (is_int (O s) = false /\ is_string (O s) = false /\ is_ident (O s) = false /\ t_text (O s) = s_of s) /\
  (is_int (K s) = false /\ is_string (K s) = false /\ is_ident (K s) = false /\ t_text (K s) = s_of s) /\
  (is_int (I s) = false /\ is_string (I s) = false /\ is_ident (I s) = true /\ t_text (I s) = s_of s).
Proof. intros s. repeat split; reflexivity. Qed.

Lemma is_int_Id s : is_int (Id s) = false. Proof. reflexivity. Qed.
Lemma is_string_Id s : is_string (Id s) = false. Proof. reflexivity. Qed.
Lemma is_ident_Id s : is_ident (Id s) = true. Proof. reflexivity. Qed.
Lemma t_text_Id s : t_text (Id s) = s. Proof. reflexivity. Qed.
Lemma is_int_St s : is_int (St s) = false. Proof. reflexivity. Qed.
Lemma is_string_St s : is_string (St s) = true. Proof. reflexivity. Qed.
Lemma is_ident_St s : is_ident (St s) = false. Proof. reflexivity. Qed.
Lemma t_text_St s : t_text (St s) = s. Proof. reflexivity. Qed.
Lemma is_int_Nt s : is_int (Nt s) = true. Proof. reflexivity. Qed.
Lemma is_string_Nt s : is_string (Nt s) = false. Proof. reflexivity. Qed.
Lemma is_ident_Nt s : is_ident (Nt s) = false. Proof. reflexivity. Qed.
Lemma t_text_Nt s : t_text (Nt s) = s. Proof. reflexivity. Qed.
Lemma is_int_O s : is_int (O s) = false. Proof. reflexivity. Qed.
Lemma is_string_O s : is_string (O s) = false. Proof. reflexivity. Qed.
Lemma is_ident_O s : is_ident (O s) = false. Proof. reflexivity. Qed.
Lemma is_int_K s : is_int (K s) = false. Proof. reflexivity. Qed.
Lemma is_string_K s : is_string (K s) = false. Proof. reflexivity. Qed.
Lemma is_ident_K s : is_ident (K s) = false. Proof. reflexivity. Qed.
Lemma is_int_I s : is_int (I s) = false. Proof. reflexivity. Qed.
Lemma is_string_I s : is_string (I s) = false. Proof. reflexivity. Qed.
Lemma is_ident_I s : is_ident (I s) = true. Proof. reflexivity. Qed.
Lemma t_text_I s : t_text (I s) = s_of s. Proof. reflexivity. Qed.
#[export] Hint Rewrite is_int_Id is_string_Id is_ident_Id t_text_Id is_int_St is_string_St is_ident_St t_text_St
  is_int_Nt is_string_Nt is_ident_Nt t_text_Nt is_int_O is_string_O is_ident_O is_int_K is_string_K is_ident_K
  is_int_I is_string_I is_ident_I t_text_I : tokty.

Ltac tok_eval := cbv zeta; cbn [peek]; tx_eval; autorewrite with tokty; cbn [negb orb andb].

(* ------------------------------------------------------------------------------------------------------------ *)
(* the relation tail and the unary tail as functions of their own                                                  *)
(* ------------------------------------------------------------------------------------------------------------ *)
Definition rel_tail (f : nat) (lhs : expr) (r : list token) : pres expr :=
  let t := peek r in
  if tx t "has" then
    let r1 := adv r in
    let t1 := peek r1 in
    if is_ident t1 then p_has_chain f (EHas lhs (t_text t1)) (EAccess lhs (t_text t1)) (adv r1)
    else if is_string t1 then match string_value (t_text t1) with Some s => POk (EHas lhs s) (adv r1) | None => PErr end
    else PErr
  else if tx t "like" then
    let r1 := adv r in
    let t1 := peek r1 in
    if is_string t1 then match parse_pattern (trim_quotes (t_text t1)) with Some p => POk (ELike lhs p) (adv r1) | None => PErr end
    else PErr
  else if tx t "is" then
    match p_path f (adv r) with
    | POk ty r2 =>
      if tx (peek r2) "in" then
        match p_add f (adv r2) with POk b r3 => POk (EIsIn lhs ty b) r3 | PErr => PErr | PFuel => PFuel end
      else POk (EIs lhs ty) r2
    | PErr => PErr | PFuel => PFuel
    end
  else match relop t with
       | Some op => match p_add f (adv r) with POk rhs r2 => POk (op lhs rhs) r2 | PErr => PErr | PFuel => PFuel end
       | None => POk lhs r
       end.

Lemma p_relation_S' : forall f ts,
  p_relation (S f) ts = match p_add f ts with POk lhs r => rel_tail f lhs r | PErr => PErr | PFuel => PFuel end.
Proof. reflexivity. Qed.

Definition unary_tail (f : nat) (ops : list bool) (r : list token) : pres expr :=
  let tok := peek r in
  match rev ops with
  | true :: ops_rev' =>
    if is_int tok then
      match int_value true (t_text tok) with
      | Some i => POk (apply_ops (rev ops_rev') (ELit (VLong i))) (adv r)
      | None => PErr
      end
    else match p_member f r with POk e r2 => POk (apply_ops ops e) r2 | PErr => PErr | PFuel => PFuel end
  | _ => match p_member f r with POk e r2 => POk (apply_ops ops e) r2 | PErr => PErr | PFuel => PFuel end
  end.

Lemma p_unary_S' : forall f ts,
  p_unary (S f) ts = match unary_ops (S (List.length ts)) ts [] with None => PFuel | Some (ops, r) => unary_tail f ops r end.
Proof. reflexivity. Qed.

Lemma p_unary_prefix : forall f ts, has_non_op ts = true ->
  p_unary (S f) ts = unary_tail f (fst (ops_prefix ts)) (snd (ops_prefix ts)).
Proof.
  intros f ts H. rewrite p_unary_S'.
  rewrite (unary_ops_result ts [] (S (List.length ts))); [reflexivity | lia | right; exact H].
Qed.

(* ------------------------------------------------------------------------------------------------------------ *)
(* levels                                                                                                        *)
(* ------------------------------------------------------------------------------------------------------------ *)
Definition PL (L : nat) : nat -> list token -> pres expr :=
  match L with
  | 0 => p_expression | 1 => p_or | 2 => p_and | 3 => p_relation | 4 => p_add | 5 => p_mult | 6 => p_unary | 7 => p_member
  | _ => p_primary
  end.
Definition LoopL (L : nat) : nat -> expr -> list token -> pres expr :=
  match L with
  | 1 => p_or_loop | 2 => p_and_loop | 3 => rel_tail | 4 => p_add_loop | 5 => p_mult_loop | 7 => p_access_loop
  | _ => fun _ v r => POk v r
  end.
Definition bnd (L : nat) : nat := match L with 3 => 2 | _ => L end.

Definition Beh (L : nat) (X : list token) (v : expr) : Prop :=
  forall R w r, R <> [] -> cont (peek R) <= bnd L ->
    Ev (fun g => LoopL L g v R) w r -> Ev (fun f => PL L f (X ++ R)) w r.

(* a loop stops at a token of lower class *)
Lemma loop_stop : forall L v R, cont (peek R) < L \/ L = 0 -> Ev (fun g => LoopL L g v R) v R.
Proof.
  intros L v R H.
  destruct L as [|[|[|[|[|[|[|[|L]]]]]]]]; cbn [LoopL]; try apply ev_ret; (destruct H as [H|H]; [|discriminate H]).
  - exists 1. intros f Hf. destruct f as [|f]; [lia|]. rewrite p_or_loop_S.
    replace (tx (peek R) "||") with false by (symmetry; txf). reflexivity.
  - exists 1. intros f Hf. destruct f as [|f]; [lia|]. rewrite p_and_loop_S.
    replace (tx (peek R) "&&") with false by (symmetry; txf). reflexivity.
  - exists 1. intros f Hf. unfold rel_tail, relop. cbv zeta.
    replace (tx (peek R) "has") with false by (symmetry; txf).
    replace (tx (peek R) "like") with false by (symmetry; txf).
    replace (tx (peek R) "is") with false by (symmetry; txf).
    replace (tx (peek R) "<") with false by (symmetry; txf).
    replace (tx (peek R) "<=") with false by (symmetry; txf).
    replace (tx (peek R) ">") with false by (symmetry; txf).
    replace (tx (peek R) ">=") with false by (symmetry; txf).
    replace (tx (peek R) "!=") with false by (symmetry; txf).
    replace (tx (peek R) "==") with false by (symmetry; txf).
    replace (tx (peek R) "in") with false by (symmetry; txf).
    reflexivity.
  - exists 1. intros f Hf. destruct f as [|f]; [lia|]. rewrite p_add_loop_S. cbv zeta.
    replace (tx (peek R) "+") with false by (symmetry; txf).
    replace (tx (peek R) "-") with false by (symmetry; txf). reflexivity.
  - exists 1. intros f Hf. destruct f as [|f]; [lia|]. rewrite p_mult_loop_S.
    replace (tx (peek R) "*") with false by (symmetry; txf). reflexivity.
  - exists 1. intros f Hf. destruct f as [|f]; [lia|]. rewrite p_access_loop_S. cbv zeta.
    replace (tx (peek R) ".") with false by (symmetry; txf).
    replace (tx (peek R) "[") with false by (symmetry; txf). reflexivity.
Qed.

(* one level down: p_L = p_{L+1} followed by the level-L loop *)
Lemma ev_level : forall L ts v R w r, L <= 7 ->
  (L = 0 -> tx (peek ts) "if" = false) ->
  (L = 6 -> is_op (peek ts) = false) ->
  Ev (fun f => PL (S L) f ts) v R -> Ev (fun g => LoopL L g v R) w r -> Ev (fun f => PL L f ts) w r.
Proof.
  intros L ts v R w r HL Hif Hop H1 H2.
  destruct L as [|[|[|[|[|[|[|[|L]]]]]]]]; [| | | | | | | |lia]; cbn [PL LoopL] in *.
  - apply ev_ret_inv in H2. destruct H2 as [-> ->]. destruct H1 as [f1 H1].
    exists (S f1). intros f Hf. destruct f as [|f]; [lia|]. rewrite p_expression_S.
    rewrite (Hif eq_refl). apply H1. lia.
  - ev_go. rewrite p_or_S. rewrite H1 by lia. apply H2. lia.
  - ev_go. rewrite p_and_S. rewrite H1 by lia. apply H2. lia.
  - ev_go. rewrite p_relation_S'. rewrite H1 by lia. apply H2. lia.
  - ev_go. rewrite p_add_S. rewrite H1 by lia. apply H2. lia.
  - ev_go. rewrite p_mult_S. rewrite H1 by lia. apply H2. lia.
  - apply ev_ret_inv in H2. destruct H2 as [-> ->]. destruct H1 as [f1 H1].
    exists (S f1). intros f Hf. destruct f as [|f]; [lia|]. rewrite p_unary_S'.
    specialize (Hop eq_refl). unfold is_op in Hop. apply orb_false_iff in Hop. destruct Hop as [Hm Hb].
    cbn [unary_ops]. cbv zeta. rewrite Hm, Hb. unfold unary_tail. cbn [rev]. rewrite H1 by lia. reflexivity.
  - ev_go. rewrite p_member_S. rewrite H1 by lia. apply H2. lia.
Qed.

Lemma bnd_le : forall L, bnd L <= L.
Proof. intros L. destruct L as [|[|[|[|L]]]]; cbn; lia. Qed.

Lemma lift1 : forall L X h tl v, L <= 7 -> X = h :: tl ->
  (L = 0 -> tx h "if" = false) -> (L = 6 -> is_op h = false) ->
  Beh (S L) X v -> Beh L X v.
Proof.
  intros L X h tl v HL HX Hif Hop HB R w r HR Hc Hloop.
  pose proof (bnd_le L) as Hb.
  assert (Hc' : cont (peek R) <= bnd (S L)).
  { destruct L as [|[|[|[|L]]]]; cbn [bnd] in *; lia. }
  eapply ev_level; [exact HL | | | | exact Hloop].
  - intros E. subst X. cbn [app peek]. apply Hif. exact E.
  - intros E. subst X. cbn [app peek]. apply Hop. exact E.
  - apply HB; [exact HR | exact Hc' |]. apply loop_stop. left. lia.
Qed.

Lemma lift : forall d L X h tl v, L + d <= 8 -> X = h :: tl ->
  (L = 0 -> 0 < d -> tx h "if" = false) -> (L <= 6 -> 6 < L + d -> is_op h = false) ->
  Beh (L + d) X v -> Beh L X v.
Proof.
  induction d as [|d IH]; intros L X h tl v HL HX Hif Hop HB.
  - rewrite Nat.add_0_r in HB. exact HB.
  - apply (lift1 L X h tl v); [lia | exact HX | intros E; apply Hif; [exact E | lia] | |].
    + intros E. apply Hop; lia.
    + replace (L + S d) with (S L + d) in HB by lia.
      apply (IH (S L) X h tl v); [lia | exact HX | intros E; discriminate E | | exact HB].
      intros H1 H2. apply Hop; lia.
Qed.

(* value form *)
Lemma beh_val : forall L X v R, Beh L X v -> R <> [] -> cont (peek R) <= bnd L ->
  (cont (peek R) < L \/ L = 0 \/ L = 6 \/ 8 <= L) -> Ev (fun f => PL L f (X ++ R)) v R.
Proof.
  intros L X v R HB HR Hc Hs. apply HB; [exact HR | exact Hc |].
  destruct Hs as [Hs|[Hs|[Hs|Hs]]].
  - apply loop_stop. left. exact Hs.
  - apply loop_stop. right. exact Hs.
  - subst L. apply ev_ret.
  - do 8 (destruct L as [|L]; [lia|]). apply ev_ret.
Qed.

(* at the levels whose "loop" is no loop, behaviour is the value form *)
Lemma beh_of_val : forall L X v, (L = 0 \/ L = 3 \/ L = 6 \/ 8 <= L) ->
  (forall R, R <> [] -> cont (peek R) <= bnd L -> Ev (fun f => PL L f (X ++ R)) v R) -> Beh L X v.
Proof.
  intros L X v HL H R w r HR Hc Hloop.
  assert (Hst : Ev (fun g => LoopL L g v R) v R).
  { destruct HL as [HL|[HL|[HL|HL]]].
    - apply loop_stop. right. exact HL.
    - subst L. apply loop_stop. left. cbn [bnd] in Hc. lia.
    - subst L. apply ev_ret.
    - do 8 (destruct L as [|L]; [lia|]). apply ev_ret. }
  destruct (ev_det _ _ _ _ _ _ Hst Hloop) as [<- <-]. apply H; assumption.
Qed.

(* ------------------------------------------------------------------------------------------------------------ *)
(* big-step rules                                                                                                *)
(* ------------------------------------------------------------------------------------------------------------ *)
Lemma ev_expression_if : forall l c r1 r2 a r3 r4 b r5, l <> [] ->
  Ev (fun f => p_expression f l) c r1 -> exact r1 "then" = Some r2 ->
  Ev (fun f => p_expression f r2) a r3 -> exact r3 "else" = Some r4 ->
  Ev (fun f => p_expression f r4) b r5 ->
  Ev (fun f => p_expression f (K "if" :: l)) (EIf c a b) r5.
Proof.
  intros l c r1 r2 a r3 r4 b r5 Hl H1 E1 H2 E2 H3. ev_go.
  rewrite p_expression_S. tok_eval. rewrite adv_cons by exact Hl.
  rewrite H1 by lia. rewrite E1. rewrite H2 by lia. rewrite E2. rewrite H3 by lia. reflexivity.
Qed.

Lemma ev_or_loop : forall l rhs r1 lhs w r, l <> [] ->
  Ev (fun f => p_and f l) rhs r1 -> Ev (fun f => p_or_loop f (EOr lhs rhs) r1) w r ->
  Ev (fun f => p_or_loop f lhs (O "||" :: l)) w r.
Proof.
  intros l rhs r1 lhs w r Hl H1 H2. ev_go. rewrite p_or_loop_S. tok_eval. rewrite adv_cons by exact Hl.
  rewrite H1 by lia. apply H2. lia.
Qed.

Lemma ev_and_loop : forall l rhs r1 lhs w r, l <> [] ->
  Ev (fun f => p_relation f l) rhs r1 -> Ev (fun f => p_and_loop f (EAnd lhs rhs) r1) w r ->
  Ev (fun f => p_and_loop f lhs (O "&&" :: l)) w r.
Proof.
  intros l rhs r1 lhs w r Hl H1 H2. ev_go. rewrite p_and_loop_S. tok_eval. rewrite adv_cons by exact Hl.
  rewrite H1 by lia. apply H2. lia.
Qed.

Lemma ev_add_loop_plus : forall l rhs r1 lhs w r, l <> [] ->
  Ev (fun f => p_mult f l) rhs r1 -> Ev (fun f => p_add_loop f (EAdd lhs rhs) r1) w r ->
  Ev (fun f => p_add_loop f lhs (O "+" :: l)) w r.
Proof.
  intros l rhs r1 lhs w r Hl H1 H2. ev_go. rewrite p_add_loop_S. tok_eval. rewrite adv_cons by exact Hl.
  rewrite H1 by lia. apply H2. lia.
Qed.

Lemma ev_add_loop_minus : forall l rhs r1 lhs w r, l <> [] ->
  Ev (fun f => p_mult f l) rhs r1 -> Ev (fun f => p_add_loop f (ESub lhs rhs) r1) w r ->
  Ev (fun f => p_add_loop f lhs (O "-" :: l)) w r.
Proof.
  intros l rhs r1 lhs w r Hl H1 H2. ev_go. rewrite p_add_loop_S. tok_eval. rewrite adv_cons by exact Hl.
  rewrite H1 by lia. apply H2. lia.
Qed.

Lemma ev_mult_loop : forall l rhs r1 lhs w r, l <> [] ->
  Ev (fun f => p_unary f l) rhs r1 -> Ev (fun f => p_mult_loop f (EMul lhs rhs) r1) w r ->
  Ev (fun f => p_mult_loop f lhs (O "*" :: l)) w r.
Proof.
  intros l rhs r1 lhs w r Hl H1 H2. ev_go. rewrite p_mult_loop_S. tok_eval. rewrite adv_cons by exact Hl.
  rewrite H1 by lia. apply H2. lia.
Qed.

(* relation tails *)
Lemma ev_rel_op : forall t l opf lhs rhs r2,
  relop t = Some opf -> tx t "has" = false -> tx t "like" = false -> tx t "is" = false -> l <> [] ->
  Ev (fun f => p_add f l) rhs r2 -> Ev (fun f => rel_tail f lhs (t :: l)) (opf lhs rhs) r2.
Proof.
  intros t l opf lhs rhs r2 Hop H1 H2 H3 Hl H. ev_go. unfold rel_tail. cbv zeta. cbn [peek].
  rewrite H1, H2, H3, Hop. rewrite adv_cons by exact Hl. rewrite H by lia. reflexivity.
Qed.

Lemma ev_rel_has_ident : forall k R lhs, R <> [] -> tx (peek R) "." = false ->
  Ev (fun f => rel_tail f lhs (K "has" :: Id k :: R)) (EHas lhs k) R.
Proof.
  intros k R lhs HR Hdot. exists 1. intros f Hf. destruct f as [|f]; [lia|].
  unfold rel_tail. tok_eval. rewrite adv_cons by ne. tok_eval. rewrite adv_cons by exact HR.
  rewrite p_has_chain_S. rewrite Hdot. reflexivity.
Qed.

Lemma ev_rel_has_str : forall s k R lhs, string_value s = Some k -> R <> [] ->
  Ev (fun f => rel_tail f lhs (K "has" :: St s :: R)) (EHas lhs k) R.
Proof.
  intros s k R lhs Hs HR. exists 0. intros f Hf.
  unfold rel_tail. tok_eval. rewrite adv_cons by ne. tok_eval. rewrite adv_cons by exact HR.
  rewrite Hs. reflexivity.
Qed.

Lemma ev_rel_like : forall s p R lhs, parse_pattern (trim_quotes s) = Some p -> R <> [] ->
  Ev (fun f => rel_tail f lhs (K "like" :: St s :: R)) (ELike lhs p) R.
Proof.
  intros s p R lhs Hs HR. exists 0. intros f Hf.
  unfold rel_tail. tok_eval. rewrite adv_cons by ne. tok_eval. rewrite adv_cons by exact HR.
  rewrite Hs. reflexivity.
Qed.

Lemma ev_rel_is : forall l ty r2 lhs, l <> [] -> Ev (fun f => p_path f l) ty r2 -> tx (peek r2) "in" = false ->
  Ev (fun f => rel_tail f lhs (K "is" :: l)) (EIs lhs ty) r2.
Proof.
  intros l ty r2 lhs Hl H Hin. destruct H as [f0 H]. exists f0. intros f Hf.
  unfold rel_tail. tok_eval. rewrite adv_cons by exact Hl. rewrite H by lia. rewrite Hin. reflexivity.
Qed.

Lemma ev_rel_isin : forall l ty l2 b r3 lhs, l <> [] -> Ev (fun f => p_path f l) ty (K "in" :: l2) -> l2 <> [] ->
  Ev (fun f => p_add f l2) b r3 ->
  Ev (fun f => rel_tail f lhs (K "is" :: l)) (EIsIn lhs ty b) r3.
Proof.
  intros l ty l2 b r3 lhs Hl H Hl2 H2. destruct H as [f0 H]. destruct H2 as [f1 H2]. exists (f0 + f1). intros f Hf.
  unfold rel_tail. tok_eval. rewrite adv_cons by exact Hl. rewrite H by lia. tok_eval.
  rewrite adv_cons by exact Hl2. rewrite H2 by lia. reflexivity.
Qed.

(* access loop *)
Lemma ev_access_field : forall k R lhs w r, R <> [] -> tx (peek R) "(" = false ->
  Ev (fun f => p_access_loop f (EAccess lhs k) R) w r ->
  Ev (fun f => p_access_loop f lhs (O "." :: Id k :: R)) w r.
Proof.
  intros k R lhs w r HR Hp H. ev_go. rewrite p_access_loop_S. tok_eval.
  rewrite adv_cons by ne. tok_eval. rewrite adv_cons by exact HR. rewrite Hp. apply H. lia.
Qed.

Lemma ev_access_index : forall s k R lhs w r, string_value s = Some k -> R <> [] ->
  Ev (fun f => p_access_loop f (EAccess lhs k) R) w r ->
  Ev (fun f => p_access_loop f lhs (O "[" :: St s :: O "]" :: R)) w r.
Proof.
  intros s k R lhs w r Hs HR H. ev_go. rewrite p_access_loop_S. tok_eval.
  rewrite adv_cons by ne. tok_eval. rewrite Hs. rewrite adv_cons by ne.
  rewrite exact_cons by (reflexivity || exact HR). apply H. lia.
Qed.

Lemma ev_access_method : forall n l args R e lhs w r, l <> [] ->
  Ev (fun f => p_expressions f ")" l []) args (O ")" :: R) -> R <> [] ->
  method_call n lhs args = Some e ->
  Ev (fun f => p_access_loop f e R) w r ->
  Ev (fun f => p_access_loop f lhs (O "." :: Id n :: O "(" :: l)) w r.
Proof.
  intros n l args R e lhs w r Hl H1 HR Hm H2. ev_go. rewrite p_access_loop_S. tok_eval.
  rewrite adv_cons by ne. tok_eval. rewrite adv_cons by ne. tok_eval. rewrite adv_cons by exact Hl.
  rewrite H1 by lia. rewrite Hm. rewrite adv_cons by exact HR. apply H2. lia.
Qed.

(* primaries *)
Lemma ev_primary_int : forall s z R, int_value false s = Some z -> R <> [] ->
  Ev (fun f => p_primary f (Nt s :: R)) (ELit (VLong z)) R.
Proof.
  intros s z R Hs HR. exists 1. intros f Hf. destruct f as [|f]; [lia|].
  rewrite p_primary_S. tok_eval. rewrite Hs, adv_cons by exact HR. reflexivity.
Qed.

Lemma ev_primary_str : forall s k R, string_value s = Some k -> R <> [] ->
  Ev (fun f => p_primary f (St s :: R)) (ELit (VString k)) R.
Proof.
  intros s k R Hs HR. exists 1. intros f Hf. destruct f as [|f]; [lia|].
  rewrite p_primary_S. tok_eval. rewrite Hs, adv_cons by exact HR. reflexivity.
Qed.

Lemma ev_primary_true : forall R, R <> [] -> Ev (fun f => p_primary f (K "true" :: R)) (ELit (VBool true)) R.
Proof.
  intros R HR. exists 1. intros f Hf. destruct f as [|f]; [lia|].
  rewrite p_primary_S. tok_eval. rewrite adv_cons by exact HR. reflexivity.
Qed.

Lemma ev_primary_false : forall R, R <> [] -> Ev (fun f => p_primary f (K "false" :: R)) (ELit (VBool false)) R.
Proof.
  intros R HR. exists 1. intros f Hf. destruct f as [|f]; [lia|].
  rewrite p_primary_S. tok_eval. rewrite adv_cons by exact HR. reflexivity.
Qed.

Definition var_tok (x : var) : token :=
  match x with VPrincipal => I "principal" | VAction => I "action" | VResource => I "resource" | VContext => I "context" end.

Lemma ev_primary_var : forall x R, R <> [] -> tx (peek R) "::" = false -> tx (peek R) "(" = false ->
  Ev (fun f => p_primary f (var_tok x :: R)) (EVar x) R.
Proof.
  intros x R HR H1 H2. exists 1. intros f Hf. destruct f as [|f]; [lia|].
  rewrite p_primary_S. destruct x; cbn [var_tok]; tok_eval; rewrite adv_cons by exact HR; rewrite H1, H2; reflexivity.
Qed.

Lemma ev_primary_ident : forall s R w r, tx (Id s) "true" = false -> tx (Id s) "false" = false ->
  tx (peek R) "::" || tx (peek R) "(" = true -> R <> [] ->
  Ev (fun f => p_entity_or_extfun f s R) w r -> Ev (fun f => p_primary f (Id s :: R)) w r.
Proof.
  intros s R w r H1 H2 H3 HR H. ev_go. rewrite p_primary_S. tok_eval.
  rewrite H1, H2. rewrite adv_cons by exact HR. rewrite H3. apply H. lia.
Qed.

Lemma ev_primary_paren : forall l e r1 r2, l <> [] -> Ev (fun f => p_expression f l) e r1 -> exact r1 ")" = Some r2 ->
  Ev (fun f => p_primary f (O "(" :: l)) e r2.
Proof.
  intros l e r1 r2 Hl H E. ev_go. rewrite p_primary_S. tok_eval. rewrite adv_cons by exact Hl.
  rewrite H by lia. rewrite E. reflexivity.
Qed.

Lemma ev_primary_set : forall l es R, l <> [] -> Ev (fun f => p_expressions f "]" l []) es (O "]" :: R) -> R <> [] ->
  Ev (fun f => p_primary f (O "[" :: l)) (ESet es) R.
Proof.
  intros l es R Hl H HR. ev_go. rewrite p_primary_S. tok_eval. rewrite adv_cons by exact Hl.
  rewrite H by lia. rewrite adv_cons by exact HR. reflexivity.
Qed.

Lemma ev_primary_record : forall l w r, l <> [] -> Ev (fun f => p_record f l []) w r ->
  Ev (fun f => p_primary f (O "{" :: l)) w r.
Proof.
  intros l w r Hl H. ev_go. rewrite p_primary_S. tok_eval. rewrite adv_cons by exact Hl. apply H. lia.
Qed.

(* entity or extension function *)
Lemma ev_eoe_ident : forall pre c l w r, l <> [] ->
  Ev (fun f => p_entity_or_extfun f (pre ++ path_sep ++ c) l) w r ->
  Ev (fun f => p_entity_or_extfun f pre (O "::" :: Id c :: l)) w r.
Proof.
  intros pre c l w r Hl H. ev_go. rewrite p_entity_or_extfun_S. tok_eval.
  rewrite adv_cons by ne. tok_eval. rewrite adv_cons by exact Hl. apply H. lia.
Qed.

Lemma ev_eoe_str : forall pre s id R, string_value s = Some id -> R <> [] ->
  Ev (fun f => p_entity_or_extfun f pre (O "::" :: St s :: R)) (ELit (VEntity pre id)) R.
Proof.
  intros pre s id R Hs HR. exists 1. intros f Hf. destruct f as [|f]; [lia|].
  rewrite p_entity_or_extfun_S. tok_eval. rewrite adv_cons by ne. tok_eval. rewrite Hs.
  rewrite adv_cons by exact HR. reflexivity.
Qed.

Lemma ev_eoe_call : forall pre l args R ar, ext_lookup pre = Some (ar, false) -> l <> [] ->
  Ev (fun f => p_expressions f ")" l []) args (O ")" :: R) -> R <> [] ->
  Ev (fun f => p_entity_or_extfun f pre (O "(" :: l)) (ECall pre args) R.
Proof.
  intros pre l args R ar He Hl H HR. ev_go. rewrite p_entity_or_extfun_S. tok_eval. rewrite He.
  rewrite adv_cons by exact Hl. rewrite H by lia. rewrite adv_cons by exact HR. reflexivity.
Qed.

(* expression lists *)
Lemma ev_exprs_stop : forall close ts acc, tx (peek ts) close = true ->
  Ev (fun f => p_expressions f close ts acc) acc ts.
Proof.
  intros close ts acc H. exists 1. intros f Hf. destruct f as [|f]; [lia|].
  rewrite p_expressions_S. rewrite H. reflexivity.
Qed.

Lemma ev_exprs_comma : forall close ts e l acc w r, tx (peek ts) close = false ->
  Ev (fun f => p_expression f ts) e (O "," :: l) -> l <> [] ->
  Ev (fun f => p_expressions f close l (acc ++ [e])) w r ->
  Ev (fun f => p_expressions f close ts acc) w r.
Proof.
  intros close ts e l acc w r Hc H1 Hl H2. ev_go. rewrite p_expressions_S. rewrite Hc.
  rewrite H1 by lia. tok_eval. rewrite adv_cons by exact Hl. apply H2. lia.
Qed.

Lemma ev_exprs_last : forall close ts e r1 acc, tx (peek ts) close = false ->
  Ev (fun f => p_expression f ts) e r1 -> tx (peek r1) "," = false -> tx (peek r1) close = true ->
  Ev (fun f => p_expressions f close ts acc) (acc ++ [e]) r1.
Proof.
  intros close ts e r1 acc Hc H1 Hcm Hcl. destruct H1 as [f1 H1]. exists (S (S f1)). intros f Hf.
  destruct f as [|f]; [lia|]. rewrite p_expressions_S. rewrite Hc. rewrite H1 by lia. rewrite Hcm, Hcl.
  destruct f as [|f]; [lia|]. rewrite p_expressions_S. rewrite Hcl. reflexivity.
Qed.

(* records *)
Lemma ev_record_end : forall R acc, R <> [] -> Ev (fun f => p_record f (O "}" :: R) acc) (ERecord acc) R.
Proof.
  intros R acc HR. exists 1. intros f Hf. destruct f as [|f]; [lia|].
  rewrite p_record_S. tok_eval. rewrite adv_cons by exact HR. reflexivity.
Qed.

Lemma ev_record_comma : forall s k l v l2 acc w r, tx (St s) "}" = false -> string_value s = Some k -> l <> [] ->
  Ev (fun f => p_expression f l) v (O "," :: l2) -> key_mem k acc = false -> l2 <> [] ->
  Ev (fun f => p_record f l2 (acc ++ [(k, v)])) w r ->
  Ev (fun f => p_record f (St s :: O ":" :: l) acc) w r.
Proof.
  intros s k l v l2 acc w r Hb Hs Hl H1 Hk Hl2 H2. ev_go. rewrite p_record_S. cbv zeta. cbn [peek]. rewrite Hb.
  autorewrite with tokty. rewrite Hs. rewrite adv_cons by ne. rewrite exact_cons by (reflexivity || exact Hl).
  rewrite H1 by lia. rewrite Hk. tok_eval. rewrite adv_cons by exact Hl2. apply H2. lia.
Qed.

Lemma ev_record_last : forall s k l v R acc, tx (St s) "}" = false -> string_value s = Some k -> l <> [] ->
  Ev (fun f => p_expression f l) v (O "}" :: R) -> key_mem k acc = false -> R <> [] ->
  Ev (fun f => p_record f (St s :: O ":" :: l) acc) (ERecord (acc ++ [(k, v)])) R.
Proof.
  intros s k l v R acc Hb Hs Hl H1 Hk HR. destruct H1 as [f1 H1]. exists (S (S f1)). intros f Hf.
  destruct f as [|f]; [lia|]. rewrite p_record_S. cbv zeta. cbn [peek]. rewrite Hb.
  autorewrite with tokty. rewrite Hs. rewrite adv_cons by ne. rewrite exact_cons by (reflexivity || exact Hl).
  rewrite H1 by lia. rewrite Hk. tok_eval.
  destruct f as [|f]; [lia|]. rewrite p_record_S. tok_eval. rewrite adv_cons by exact HR. reflexivity.
Qed.

(* unary tails *)
Lemma ev_utail_member : forall ops r e r2,
  (forall ops', rev ops = true :: ops' -> is_int (peek r) = false) ->
  Ev (fun f => p_member f r) e r2 -> Ev (fun f => unary_tail f ops r) (apply_ops ops e) r2.
Proof.
  intros ops r e r2 Hc H. destruct H as [f0 H]. exists f0. intros f Hf. unfold unary_tail. cbv zeta.
  destruct (rev ops) as [|[|] ops'] eqn:E.
  - rewrite H by lia. reflexivity.
  - rewrite (Hc ops' eq_refl). rewrite H by lia. reflexivity.
  - rewrite H by lia. reflexivity.
Qed.

Lemma ev_utail_lit : forall pre s z R, int_value true s = Some z -> R <> [] ->
  Ev (fun f => unary_tail f (pre ++ [true]) (Nt s :: R)) (apply_ops pre (ELit (VLong z))) R.
Proof.
  intros pre s z R Hs HR. exists 0. intros f Hf. unfold unary_tail. cbv zeta. rewrite rev_app_distr. cbn [rev app].
  cbn [peek]. autorewrite with tokty. rewrite Hs. rewrite rev_involutive. rewrite adv_cons by exact HR. reflexivity.
Qed.

(* ------------------------------------------------------------------------------------------------------------ *)
(* paths                                                                                                         *)
(* ------------------------------------------------------------------------------------------------------------ *)
Lemma split_path_acc_cons : forall c r cur,
  split_path_acc (c :: r) cur =
  if (c =? 58)%Z then
    match r with
    | c2 :: r' => if (c2 =? 58)%Z then cur :: split_path_acc r' [] else split_path_acc r (cur ++ [c])
    | [] => split_path_acc r (cur ++ [c])
    end
  else split_path_acc r (cur ++ [c]).
Proof.
  intros c r cur. cbn [split_path_acc].
  destruct c as [|p|p]; try reflexivity.
  do 6 (destruct p as [p|p|]; try reflexivity).
  destruct r as [|c2 r']; [reflexivity|].
  destruct c2 as [|p|p]; try reflexivity.
  do 6 (destruct p as [p|p|]; try reflexivity).
Qed.

Lemma split_path_acc_ne : forall s cur, split_path_acc s cur <> [].
Proof.
  assert (H : forall s, (forall cur, split_path_acc s cur <> []) /\ (forall c cur, split_path_acc (c :: s) cur <> [])).
  { induction s as [|c s [IH1 IH2]].
    - split; [intros cur; discriminate|]. intros c cur. rewrite split_path_acc_cons. destruct (c =? 58)%Z; discriminate.
    - split; [intros cur; apply IH2|]. intros c' cur. rewrite split_path_acc_cons.
      destruct (c' =? 58)%Z; [|apply IH2]. destruct (c =? 58)%Z; [discriminate | apply IH2]. }
  intros s. apply H.
Qed.

Fixpoint join_path (cs : list str) : str :=
  match cs with
  | [] => []
  | c :: r => match r with [] => c | _ => c ++ path_sep ++ join_path r end
  end.

Lemma join_split_acc : forall s cur, join_path (split_path_acc s cur) = cur ++ s.
Proof.
  assert (H : forall s, (forall cur, join_path (split_path_acc s cur) = cur ++ s) /\
                        (forall c cur, join_path (split_path_acc (c :: s) cur) = cur ++ c :: s)).
  { induction s as [|c s [IH1 IH2]].
    - split; [intros cur; cbn; rewrite app_nil_r; reflexivity|]. intros c cur. rewrite split_path_acc_cons.
      destruct (c =? 58)%Z; reflexivity.
    - split; [intros cur; apply IH2|]. intros c' cur. rewrite split_path_acc_cons.
      destruct (Z.eqb_spec c' 58) as [->|N1].
      + destruct (Z.eqb_spec c 58) as [->|N2].
        * cbn [join_path]. destruct (split_path_acc s []) eqn:E; [exfalso; exact (split_path_acc_ne s [] E)|].
          rewrite <- E. rewrite IH1. reflexivity.
        * rewrite IH2. rewrite <- app_assoc. reflexivity.
      + rewrite IH2. rewrite <- app_assoc. reflexivity. }
  intros s. apply H.
Qed.

Lemma join_split : forall ty, join_path (split_path ty) = ty.
Proof. intros ty. unfold split_path. apply join_split_acc. Qed.

Lemma split_path_plain : forall s cur, Forall (fun c => c <> 58%Z) s -> split_path_acc s cur = [cur ++ s].
Proof.
  induction s as [|c s IH]; intros cur H.
  - cbn. rewrite app_nil_r. reflexivity.
  - inversion H as [|c' s' Hc Hs]; subst. rewrite split_path_acc_cons.
    destruct (Z.eqb_spec c 58) as [E|N]; [contradiction|]. rewrite IH by exact Hs. rewrite <- app_assoc. reflexivity.
Qed.

Definition jf (a c : str) : str := a ++ path_sep ++ c.

Lemma fold_jf_pre : forall r pre a, fold_left jf r (pre ++ a) = pre ++ fold_left jf r a.
Proof.
  induction r as [|c r IH]; intros pre a; [reflexivity|].
  cbn [fold_left]. unfold jf at 2 4. rewrite <- app_assoc. apply IH.
Qed.

Lemma fold_jf_join : forall r c, fold_left jf r c = join_path (c :: r).
Proof.
  induction r as [|c2 r IH]; intros c; [reflexivity|].
  cbn [fold_left]. change (jf c c2) with (c ++ (path_sep ++ c2)). rewrite !fold_jf_pre. rewrite IH. reflexivity.
Qed.

Fixpoint sep_toks (cs : list str) : list token :=
  match cs with [] => [] | c :: r => O "::" :: Id c :: sep_toks r end.

Lemma toks_path_items_of : forall r c, toks_of (path_items_of (c :: r)) = Id c :: sep_toks r.
Proof.
  induction r as [|c2 r IH]; intros c; [reflexivity|].
  change (path_items_of (c :: c2 :: r)) with (T TIdent c :: op "::" :: path_items_of (c2 :: r)).
  rewrite toks_of_T, toks_of_op, IH. reflexivity.
Qed.

Lemma ev_path_rest : forall r acc R, R <> [] -> tx (peek R) "::" = false ->
  Ev (fun f => path_rest f acc (sep_toks r ++ R)) (fold_left jf r acc) R.
Proof.
  induction r as [|c r IH]; intros acc R HR Hc.
  - exists 1. intros f Hf. destruct f as [|f]; [lia|]. cbn [sep_toks app path_rest fold_left]. rewrite Hc. reflexivity.
  - destruct (IH (jf acc c) R HR Hc) as [f0 H]. exists (S f0). intros f Hf. destruct f as [|f]; [lia|].
    cbn [sep_toks app path_rest fold_left]. tok_eval. rewrite adv_cons by ne. tok_eval. rewrite adv_cons by ne.
    apply H. lia.
Qed.

Lemma ev_p_path : forall c r R, R <> [] -> tx (peek R) "::" = false ->
  Ev (fun f => p_path f (Id c :: sep_toks r ++ R)) (join_path (c :: r)) R.
Proof.
  intros c r R HR Hc. destruct (ev_path_rest r c R HR Hc) as [f0 H]. exists f0. intros f Hf.
  unfold p_path. tok_eval. rewrite adv_cons by ne. rewrite <- fold_jf_join. apply H. exact Hf.
Qed.

Lemma ev_eoe_path : forall r pre s id R, string_value s = Some id -> R <> [] ->
  Ev (fun f => p_entity_or_extfun f pre (sep_toks r ++ O "::" :: St s :: R)) (ELit (VEntity (fold_left jf r pre) id)) R.
Proof.
  induction r as [|c r IH]; intros pre s id R Hs HR.
  - cbn [sep_toks app fold_left]. apply ev_eoe_str; assumption.
  - cbn [sep_toks app fold_left]. apply ev_eoe_ident; [ne|]. apply IH; assumption.
Qed.

(* ------------------------------------------------------------------------------------------------------------ *)
(* identifiers                                                                                                   *)
(* ------------------------------------------------------------------------------------------------------------ *)
Lemma can_ident_inv : forall s, can_ident s = true ->
  exists c r, s = c :: r /\ is_reserved s = false /\ is_ident_rune c true = true /\ forallb (fun x => is_ident_rune x false) r = true.
Proof.
  intros s H. destruct s as [|c r]; [discriminate|]. cbn [can_ident] in H.
  apply andb_true_iff in H. destruct H as [H H3]. apply andb_true_iff in H. destruct H as [H1 H2].
  apply negb_true_iff in H1. exists c, r. repeat split; assumption.
Qed.

Lemma ident_rune_not_colon : forall c b, is_ident_rune c b = true -> c <> 58%Z.
Proof.
  intros c b H E. subst c. destruct b; discriminate H.
Qed.

Lemma can_ident_no_colon : forall s, can_ident s = true -> Forall (fun c => c <> 58%Z) s.
Proof.
  intros s H. destruct (can_ident_inv s H) as (c & r & -> & _ & Hc & Hr).
  constructor; [eapply ident_rune_not_colon; exact Hc|].
  rewrite forallb_forall in Hr. apply Forall_forall. intros x Hx. eapply ident_rune_not_colon. apply Hr. exact Hx.
Qed.

Lemma split_path_ident : forall s, can_ident s = true -> split_path s = [s].
Proof. intros s H. unfold split_path. rewrite split_path_plain by (apply can_ident_no_colon; exact H). reflexivity. Qed.

(* an identifier token is none of the fixed tokens the parser tests for, unless that token is itself an
   identifier-shaped non-reserved word *)
Lemma tx_ident_first : forall s k c0 k', can_ident s = true -> s_of k = c0 :: k' -> is_ident_rune c0 true = false ->
  tx (Id s) k = false.
Proof.
  intros s k c0 k' H Hk Hc. destruct (can_ident_inv s H) as (c & r & -> & _ & Hc1 & _).
  unfold tx. rewrite t_text_Id, Hk. cbn [str_eqb].
  destruct (Z.eqb_spec c0 c) as [->|N]; [congruence | reflexivity].
Qed.

Lemma tx_ident_reserved : forall s k, can_ident s = true -> is_reserved (s_of k) = true -> tx (Id s) k = false.
Proof.
  intros s k H Hk. destruct (can_ident_inv s H) as (c & r & E & Hr & _ & _).
  unfold tx. rewrite t_text_Id. destruct (str_eqb (s_of k) s) eqn:Eq; [|reflexivity].
  apply str_eqb_eq in Eq. rewrite Eq in Hk. congruence.
Qed.

Lemma tx_string_tok : forall b k c0 k', s_of k = c0 :: k' -> c0 <> 34%Z -> tx (St (34%Z :: b)) k = false.
Proof.
  intros b k c0 k' Hk Hc. unfold tx. rewrite t_text_St, Hk. cbn [str_eqb].
  destruct (Z.eqb_spec c0 34) as [->|N]; [congruence | reflexivity].
Qed.

Lemma tx_int_tok : forall s k c0 k', s <> [] -> Forall (fun c => is_digit c = true) s -> s_of k = c0 :: k' -> is_digit c0 = false ->
  tx (Nt s) k = false.
Proof.
  intros s k c0 k' Hne Hd Hk Hc. destruct s as [|c r]; [congruence|]. inversion Hd as [|c' r' Hc' Hr']; subst.
  unfold tx. rewrite t_text_Nt, Hk. cbn [str_eqb].
  destruct (Z.eqb_spec c0 c) as [->|N]; [congruence | reflexivity].
Qed.

(* ext_lookup facts *)
Lemma ext_lookup_decimal : ext_lookup (s_of "decimal") = Some (1%Z, false). Proof. vm_compute. reflexivity. Qed.
Lemma ext_lookup_datetime : ext_lookup (s_of "datetime") = Some (1%Z, false). Proof. vm_compute. reflexivity. Qed.
Lemma ext_lookup_duration : ext_lookup (s_of "duration") = Some (1%Z, false). Proof. vm_compute. reflexivity. Qed.
Lemma ext_lookup_ip : ext_lookup (s_of "ip") = Some (1%Z, false). Proof. vm_compute. reflexivity. Qed.
