(* Proofs about the datetime codec model (Impl/Datetime.v): calendar conversions are mutually inverse,
   print/parse roundtrip on the accepted range, parse results are in range. *)
From Coq Require Import ZArith List Bool Lia.
Import ListNotations.
From Cedar Require Import Base.Int64 Lang.Value Impl.Text Generated.Tables Impl.Datetime.
Local Open Scope Z_scope.

Ltac dlia := Z.div_mod_to_equations; lia.

(* ------------------------------------------------------------------ *)
(* Ranges of integers built with a Z counter                           *)

Fixpoint zrange (n : nat) (start : Z) : list Z :=
  match n with O => [] | S n' => start :: zrange n' (start + 1) end.

Lemma zrange_In : forall n s z, s <= z < s + Z.of_nat n -> In z (zrange n s).
Proof.
  induction n as [|n IH]; intros s z Hz.
  - simpl in Hz. lia.
  - cbn [zrange]. destruct (Z.eq_dec s z) as [E|NE].
    + left; exact E.
    + right. apply IH. lia.
Qed.

(* ------------------------------------------------------------------ *)
(* Per-era parts of the two conversions                                *)

Definition doe_civil (doe : Z) : Z * Z * Z :=
  let yoe := (doe - doe / 1460 + doe / 36524 - doe / 146096) / 365 in
  let doy := doe - (365 * yoe + yoe / 4 - yoe / 100) in
  let mp := (5 * doy + 2) / 153 in
  let d := doy - (153 * mp + 2) / 5 + 1 in
  let m := if mp <? 10 then mp + 3 else mp - 9 in
  (yoe, m, d).

Definition civil_doe (yoe m d : Z) : Z :=
  let mp := (m + 9) mod 12 in
  let doy := (153 * mp + 2) / 5 + d - 1 in
  yoe * 365 + yoe / 4 - yoe / 100 + doy.

Lemma civil_from_days_eq : forall z,
  civil_from_days z =
  let era := (z + 719468) / 146097 in
  let doe := (z + 719468) - era * 146097 in
  let '(yoe, m, d) := doe_civil doe in
  (if m <=? 2 then yoe + era * 400 + 1 else yoe + era * 400, m, d).
Proof. intros z. reflexivity. Qed.

Lemma days_from_civil_eq : forall y m d,
  days_from_civil y m d =
  let y' := if m <=? 2 then y - 1 else y in
  let era := y' / 400 in
  era * 146097 + civil_doe (y' - era * 400) m d - 719468.
Proof. intros y m d. reflexivity. Qed.

Definition check_doe (doe : Z) : bool :=
  let '(yoe, m, d) := doe_civil doe in
  (0 <=? yoe) && (yoe <? 400) && (1 <=? m) && (m <=? 12) && (1 <=? d)
  && (d <=? days_in_month (if m <=? 2 then yoe + 1 else yoe) m)
  && (civil_doe yoe m d =? doe).

Lemma check_doe_all : forallb check_doe (zrange (Z.to_nat 146097) 0) = true.
Proof. vm_cast_no_check (eq_refl true). Qed.

Definition check_ymd (yoe m d : Z) : bool :=
  if d <=? days_in_month (if m <=? 2 then yoe + 1 else yoe) m then
    let doe := civil_doe yoe m d in
    (0 <=? doe) && (doe <? 146097) &&
    (let '(yoe2, m2, d2) := doe_civil doe in (yoe2 =? yoe) && (m2 =? m) && (d2 =? d))
  else true.

Lemma check_ymd_all :
  forallb (fun yoe => forallb (fun m => forallb (fun d => check_ymd yoe m d) (zrange 31 1)) (zrange 12 1))
          (zrange 400 0) = true.
Proof. vm_cast_no_check (eq_refl true). Qed.
Lemma civil_from_days_eq2 : forall z era doe yoe m d,
  era = (z + 719468) / 146097 -> doe = z + 719468 - era * 146097 -> doe_civil doe = (yoe, m, d) ->
  civil_from_days z = (if m <=? 2 then yoe + era * 400 + 1 else yoe + era * 400, m, d).
Proof.
  intros z era doe yoe m d He Hd E. rewrite civil_from_days_eq. cbv zeta.
  rewrite <- He, <- Hd, E. reflexivity.
Qed.

Lemma check_doe_ok : forall doe, 0 <= doe < 146097 -> check_doe doe = true.
Proof.
  intros doe H. pose proof check_doe_all as A. rewrite forallb_forall in A.
  apply A. apply zrange_In. rewrite Z2Nat.id; lia.
Qed.

Lemma check_ymd_ok : forall yoe m d, 0 <= yoe < 400 -> 1 <= m <= 12 -> 1 <= d <= 31 ->
  check_ymd yoe m d = true.
Proof.
  intros yoe m d Hy Hm Hd. pose proof check_ymd_all as A.
  rewrite forallb_forall in A. specialize (A yoe (zrange_In 400 0 yoe ltac:(lia))).
  rewrite forallb_forall in A. specialize (A m (zrange_In 12 1 m ltac:(lia))).
  rewrite forallb_forall in A. exact (A d (zrange_In 31 1 d ltac:(lia))).
Qed.

Lemma is_leap_period : forall y k, is_leap (y + k * 400) = is_leap y.
Proof.
  intros y k. unfold is_leap.
  replace ((y + k * 400) mod 4) with (y mod 4) by dlia.
  replace ((y + k * 400) mod 100) with (y mod 100) by dlia.
  replace ((y + k * 400) mod 400) with (y mod 400) by dlia.
  reflexivity.
Qed.

Lemma days_in_month_period : forall y k m, days_in_month (y + k * 400) m = days_in_month y m.
Proof. intros y k m. unfold days_in_month. rewrite is_leap_period. reflexivity. Qed.

Lemma days_in_month_le31 : forall y m, days_in_month y m <= 31.
Proof.
  intros y m. unfold days_in_month.
  destruct (m =? 2); [destruct (is_leap y); lia|].
  destruct ((m =? 4) || (m =? 6) || (m =? 9) || (m =? 11)); lia.
Qed.

Lemma check_doe_spec : forall doe yoe m d, 0 <= doe < 146097 -> doe_civil doe = (yoe, m, d) ->
  0 <= yoe < 400 /\ 1 <= m <= 12 /\ 1 <= d <= days_in_month (if m <=? 2 then yoe + 1 else yoe) m
  /\ civil_doe yoe m d = doe.
Proof.
  intros doe yoe m d H E. pose proof (check_doe_ok doe H) as C.
  unfold check_doe in C. rewrite E in C.
  repeat (apply andb_prop in C; destruct C as [C ?]). lia.
Qed.

Theorem civil_from_days_valid : forall z,
  let '(y, m, d) := civil_from_days z in 1 <= m <= 12 /\ 1 <= d <= days_in_month y m.
Proof.
  intros z.
  pose (era := (z + 719468) / 146097). pose (doe := z + 719468 - era * 146097).
  assert (Hdoe : 0 <= doe < 146097) by (subst doe era; dlia).
  destruct (doe_civil doe) as [[yoe m] d] eqn:E.
  rewrite (civil_from_days_eq2 z era doe yoe m d eq_refl eq_refl E).
  destruct (check_doe_spec doe yoe m d Hdoe E) as (Hy & Hm & Hd & _).
  split; [exact Hm|].
  destruct (m <=? 2).
  - replace (yoe + era * 400 + 1) with (yoe + 1 + era * 400) by ring.
    rewrite days_in_month_period. exact Hd.
  - rewrite days_in_month_period. exact Hd.
Qed.

Theorem civil_inverse : forall z,
  let '(y, m, d) := civil_from_days z in days_from_civil y m d = z.
Proof.
  intros z.
  pose (era := (z + 719468) / 146097). pose (doe := z + 719468 - era * 146097).
  assert (Hdoe : 0 <= doe < 146097) by (subst doe era; dlia).
  destruct (doe_civil doe) as [[yoe m] d] eqn:E.
  rewrite (civil_from_days_eq2 z era doe yoe m d eq_refl eq_refl E).
  destruct (check_doe_spec doe yoe m d Hdoe E) as (Hy & Hm & Hd & Hc).
  rewrite days_from_civil_eq. cbv zeta.
  assert (Hy' : (if m <=? 2 then (if m <=? 2 then yoe + era * 400 + 1 else yoe + era * 400) - 1
                 else (if m <=? 2 then yoe + era * 400 + 1 else yoe + era * 400)) = yoe + era * 400)
    by (destruct (m <=? 2); ring).
  rewrite Hy'.
  assert (He : (yoe + era * 400) / 400 = era) by dlia.
  rewrite He. replace (yoe + era * 400 - era * 400) with yoe by ring.
  rewrite Hc. subst doe. ring.
Qed.

Theorem days_from_civil_inverse : forall y m d,
  1 <= m <= 12 -> 1 <= d <= days_in_month y m ->
  civil_from_days (days_from_civil y m d) = (y, m, d).
Proof.
  intros y m d Hm Hd. rewrite days_from_civil_eq. cbv zeta.
  set (y' := if m <=? 2 then y - 1 else y). set (era := y' / 400). set (yoe := y' - era * 400).
  assert (Hyoe : 0 <= yoe < 400) by (subst yoe era; dlia).
  assert (Hy : y = (if m <=? 2 then yoe + 1 else yoe) + era * 400)
    by (subst yoe y'; destruct (m <=? 2); ring).
  assert (Hdim : days_in_month y m = days_in_month (if m <=? 2 then yoe + 1 else yoe) m)
    by (rewrite Hy at 1; apply days_in_month_period).
  pose proof (days_in_month_le31 y m) as H31.
  pose proof (check_ymd_ok yoe m d Hyoe Hm ltac:(lia)) as C.
  unfold check_ymd in C. rewrite <- Hdim in C.
  destruct (Z.leb_spec d (days_in_month y m)) as [_|Hbad]; [|lia].
  cbv zeta in C. set (doe := civil_doe yoe m d) in *.
  destruct (doe_civil doe) as [[yoe2 m2] d2] eqn:E.
  repeat (apply andb_prop in C; destruct C as [C ?]).
  assert (Hdoe : 0 <= doe < 146097) by lia.
  assert (yoe2 = yoe) by lia. assert (m2 = m) by lia. assert (d2 = d) by lia. subst yoe2 m2 d2.
  assert (He : era = (era * 146097 + doe - 719468 + 719468) / 146097)
    by (clear - Hdoe; clearbody doe era; dlia).
  rewrite (civil_from_days_eq2 _ era doe yoe m d He ltac:(ring) E).
  f_equal. f_equal. clear - Hy. destruct (m <=? 2); lia.
Qed.

(* ------------------------------------------------------------------ *)
(* Numerals                                                            *)

Lemma dt_digits_val_acc_app : forall s1 s2 a,
  digits_val_acc (s1 ++ s2) a =
  match digits_val_acc s1 a with Some v => digits_val_acc s2 v | None => None end.
Proof.
  induction s1 as [|c s1 IH]; intros s2 a.
  - reflexivity.
  - cbn [app digits_val_acc]. destruct (is_digit c); [apply IH|reflexivity].
Qed.

Definition all_digits (s : str) : Prop := Forall (fun c => is_digit c = true) s.

Lemma dt_digits_of_spec : forall fuel z acc, (1 <= fuel)%nat -> 0 <= z < 10 ^ Z.of_nat fuel ->
  exists ds, digits_of fuel z acc = ds ++ acc /\ all_digits ds /\ (1 <= length ds)%nat /\
    (forall k : nat, (1 <= k)%nat -> z < 10 ^ Z.of_nat k -> (length ds <= k)%nat) /\
    (forall a, digits_val_acc ds a = Some (a * 10 ^ Z.of_nat (length ds) + z)).
Proof.
  induction fuel as [|f IH]; intros z acc Hf Hz; [lia|].
  cbn [digits_of]. destruct (Z.ltb_spec z 10) as [Hlt|Hge].
  - exists [48 + z mod 10]. rewrite Z.mod_small by lia.
    split; [reflexivity|]. split.
    { constructor; [|constructor]. unfold is_digit. apply andb_true_intro. split; apply Z.leb_le; lia. }
    split; [cbn [length]; lia|]. split.
    { intros k Hk1 Hk. cbn [length]. lia. }
    intros a. cbn [digits_val_acc length].
    replace (is_digit (48 + z)) with true
      by (symmetry; unfold is_digit; apply andb_true_intro; split; apply Z.leb_le; lia).
    unfold digit_val. f_equal. change (10 ^ Z.of_nat 1) with 10. lia.
  - rewrite Nat2Z.inj_succ, Z.pow_succ_r in Hz by lia.
    assert (Hf1 : (1 <= f)%nat).
    { destruct f as [|f']; [|lia]. change (10 ^ Z.of_nat 0) with 1 in Hz. lia. }
    assert (Hq : 0 <= z / 10 < 10 ^ Z.of_nat f) by dlia.
    destruct (IH (z / 10) ((48 + z mod 10) :: acc) Hf1 Hq) as (ds & E & Hall & Hlen1 & Hlen & Hval).
    exists (ds ++ [48 + z mod 10]). split; [rewrite <- app_assoc; exact E|]. split.
    { apply Forall_app. split; [exact Hall|]. constructor; [|constructor].
      unfold is_digit. apply andb_true_intro. split; apply Z.leb_le; dlia. }
    rewrite app_length. cbn [length]. split; [lia|]. split.
    { intros k Hk1 Hk. destruct k as [|k]; [lia|].
      rewrite Nat2Z.inj_succ, Z.pow_succ_r in Hk by lia.
      assert (Hk' : z / 10 < 10 ^ Z.of_nat k) by dlia.
      assert (Hk2 : (1 <= k)%nat).
      { destruct k as [|k']; [|lia]. change (10 ^ Z.of_nat 0) with 1 in Hk. lia. }
      specialize (Hlen k Hk2 Hk'). lia. }
    intros a. rewrite dt_digits_val_acc_app, Hval. cbn [digits_val_acc].
    replace (is_digit (48 + z mod 10)) with true
      by (symmetry; unfold is_digit; apply andb_true_intro; split; apply Z.leb_le; dlia).
    unfold digit_val. f_equal.
    replace (Z.of_nat (length ds + 1)) with (Z.succ (Z.of_nat (length ds))) by lia.
    rewrite Z.pow_succ_r by lia.
    pose proof (Z.div_mod z 10 ltac:(lia)) as Hdm. nia.
Qed.

Lemma dt_repeat0_val : forall n, digits_val_acc (repeat 48 n) 0 = Some 0.
Proof. induction n as [|n IH]; [reflexivity|]. cbn [repeat digits_val_acc]. exact IH. Qed.

Lemma dt_parse_print_padded : forall w z, 0 <= z < 10 ^ (Z.of_nat w) -> (1 <= w <= 40)%nat ->
   length (print_padded w z) = w /\ parse_digits (print_padded w z) = Some z
   /\ Forall (fun c => is_digit c = true) (print_padded w z).
Proof.
  intros w z Hz Hw.
  assert (H40 : 0 <= z < 10 ^ Z.of_nat 40).
  { split; [lia|]. apply Z.lt_le_trans with (10 ^ Z.of_nat w); [lia|].
    apply Z.pow_le_mono_r; lia. }
  destruct (dt_digits_of_spec 40 z [] ltac:(lia) H40) as (ds & E & Hall & Hlen1 & Hlen & Hval).
  rewrite app_nil_r in E.
  unfold print_padded, print_nat. rewrite E.
  specialize (Hlen w ltac:(lia) ltac:(lia)).
  split; [rewrite app_length, repeat_length; lia|]. split.
  - assert (Hv : digits_val_acc (repeat 48 (w - length ds) ++ ds) 0 = Some z).
    { rewrite dt_digits_val_acc_app, dt_repeat0_val, Hval. f_equal; lia. }
    unfold parse_digits. destruct (repeat 48 (w - length ds) ++ ds) as [|c l] eqn:El; [|exact Hv].
    apply app_eq_nil in El. destruct El as [_ El]. rewrite El in Hlen1. cbn [length] in Hlen1. lia.
  - apply Forall_app. split; [|exact Hall].
    apply Forall_forall. intros c Hc. apply repeat_spec in Hc. subst c. reflexivity.
Qed.

Lemma dt_firstn_app_len : forall (l r : str), firstn (length l) (l ++ r) = l.
Proof. induction l as [|c l IH]; intros r; [reflexivity|]. cbn [length app firstn]. f_equal. apply IH. Qed.

Lemma dt_skipn_app_len : forall (l r : str), skipn (length l) (l ++ r) = r.
Proof. induction l as [|c l IH]; intros r; [reflexivity|]. cbn [length app skipn]. apply IH. Qed.

Lemma take_uint_padded : forall w z maxv rest,
  0 <= z < 10 ^ Z.of_nat w -> (1 <= w <= 40)%nat -> z <= maxv ->
  take_uint (print_padded w z ++ rest) w maxv = Some (z, rest).
Proof.
  intros w z maxv rest Hz Hw Hmax.
  destruct (dt_parse_print_padded w z Hz Hw) as (Hlen & Hp & _).
  unfold take_uint. revert Hlen Hp. generalize (print_padded w z). intros p Hlen Hp.
  clear Hz Hw. subst w. rewrite app_length.
  replace (Nat.ltb (length p + length rest) (length p)) with false by (symmetry; apply Nat.ltb_ge; lia).
  rewrite dt_firstn_app_len, dt_skipn_app_len, Hp.
  destruct (Z.gtb_spec z maxv) as [Hgt|_]; [lia|reflexivity].
Qed.

(* ------------------------------------------------------------------ *)
(* The parser, split after the year field                              *)

Definition parse_tail (year : Z) (s : str) : option Z :=
    s <- expect_char s 45 ;;
    p <- take_uint s 2 12 ;; let '(month, s) := p in
    s <- expect_char s 45 ;;
    p <- take_uint s 2 31 ;; let '(day, s) := p in
    if (month <? 1) || (day <? 1) || (day >? days_in_month year month) then None else
    let days := days_from_civil year month day in
    match s with
    | [] => let ms := days * MillisPerDay in if in_dt_range ms then Some ms else None
    | _ =>
      s <- expect_char s 84 ;;
      p <- take_uint s 2 23 ;; let '(hour, s) := p in
      s <- expect_char s 58 ;;
      p <- take_uint s 2 59 ;; let '(minute, s) := p in
      s <- expect_char s 58 ;;
      p <- take_uint s 2 59 ;; let '(second, s) := p in
      match s with
      | [] => None
      | _ =>
        p <- (match s with
              | 46 :: s' => take_uint s' 3 999
              | _ => Some (0, s) end) ;; let '(milli, s) := p in
        match s with
        | [] => None
        | z :: s' =>
          p <- (if z =? 90 then Some (0, s')
                else if (z =? 43) || (z =? 45) then
                  q <- take_uint s' 2 23 ;; let '(hh, s2) := q in
                  q <- take_uint s2 2 59 ;; let '(mm, s3) := q in
                  let off := (hh * MillisPerHour + mm * MillisPerMinute) in
                  Some (if z =? 45 then - off else off, s3)
                else None) ;; let '(offset, s) := p in
          match s with
          | _ :: _ => None
          | [] =>
            let ms := days * MillisPerDay + hour * MillisPerHour + minute * MillisPerMinute
                      + second * MillisPerSecond + milli - offset in
            if in_dt_range ms then Some ms else None
          end
        end
      end
    end.

Lemma parse_datetime_unfold : forall c rest,
  parse_datetime (c :: rest) =
  if c =? 43 then (p <- take_uint rest 9 999999999 ;; let '(ay, s) := p in parse_tail (ay * 1) s)
  else if c =? 45 then (p <- take_uint rest 9 999999999 ;; let '(ay, s) := p in parse_tail (ay * -1) s)
  else if is_digit c then (p <- take_uint (c :: rest) 4 9999 ;; let '(ay, s) := p in parse_tail (ay * 1) s)
  else None.
Proof.
  intros c rest. unfold parse_datetime.
  destruct (c =? 43); [reflexivity|]. destruct (c =? 45); [reflexivity|].
  destruct (is_digit c); reflexivity.
Qed.

(* ------------------------------------------------------------------ *)
(* Parsed values are in range                                          *)

Ltac dt_step H :=
  match type of H with
  | bind ?o _ = Some _ =>
      let E := fresh "E" in destruct o as [?|] eqn:E; [cbn [bind] in H | discriminate H]
  | (let '(_, _) := ?p in _) = Some _ => destruct p as [? ?]
  | (if ?b then _ else _) = Some _ => let Hb := fresh "Hb" in destruct b eqn:Hb
  | (match ?s with [] => _ | _ :: _ => _ end) = Some _ => destruct s as [|? ?]
  | None = Some _ => discriminate H
  end.

Lemma parse_tail_in_range : forall year s z, parse_tail year s = Some z -> in_dt_range z = true.
Proof.
  intros year s z H. unfold parse_tail in H.
  repeat dt_step H; cbv zeta in H; repeat dt_step H; inversion H; subst; assumption.
Qed.

Theorem datetime_parse_in_range : forall s z, parse_datetime s = Some z -> in_dt_range z = true.
Proof.
  intros s z H. destruct s as [|c rest]; [discriminate H|].
  rewrite parse_datetime_unfold in H.
  repeat dt_step H; eapply parse_tail_in_range; eassumption.
Qed.

(* ------------------------------------------------------------------ *)
(* Roundtrip                                                           *)

Lemma expect_char_cons : forall c s, expect_char (c :: s) c = Some s.
Proof. intros c s. unfold expect_char. rewrite Z.eqb_refl. reflexivity. Qed.

Lemma parse_tail_print : forall y m d hh mi ss ms total,
  1 <= m <= 12 -> 1 <= d <= days_in_month y m ->
  0 <= hh <= 23 -> 0 <= mi <= 59 -> 0 <= ss <= 59 -> 0 <= ms <= 999 ->
  total = days_from_civil y m d * MillisPerDay + hh * MillisPerHour + mi * MillisPerMinute
          + ss * MillisPerSecond + ms ->
  in_dt_range total = true ->
  parse_tail y (45 :: print_padded 2 m ++ 45 :: print_padded 2 d ++ 84 :: print_padded 2 hh
                ++ 58 :: print_padded 2 mi ++ 58 :: print_padded 2 ss ++ 46 :: print_padded 3 ms ++ [90])
  = Some total.
Proof.
  intros y m d hh mi ss ms total Hm Hd Hhh Hmi Hss Hms Htot Hr.
  pose proof (days_in_month_le31 y m) as H31.
  assert (Hchk : (m <? 1) || (d <? 1) || (d >? days_in_month y m) = false).
  { destruct (Z.ltb_spec m 1); [lia|]. destruct (Z.ltb_spec d 1); [lia|].
    destruct (Z.gtb_spec d (days_in_month y m)); [lia|]. reflexivity. }
  unfold parse_tail.
  rewrite expect_char_cons. cbn [bind].
  rewrite take_uint_padded by (try (change (10 ^ Z.of_nat 2) with 100); lia). cbn [bind].
  rewrite expect_char_cons. cbn [bind].
  rewrite take_uint_padded by (try (change (10 ^ Z.of_nat 2) with 100); lia). cbn [bind].
  rewrite Hchk.
  rewrite expect_char_cons. cbn [bind].
  rewrite take_uint_padded by (try (change (10 ^ Z.of_nat 2) with 100); lia). cbn [bind].
  rewrite expect_char_cons. cbn [bind].
  rewrite take_uint_padded by (try (change (10 ^ Z.of_nat 2) with 100); lia). cbn [bind].
  rewrite expect_char_cons. cbn [bind].
  rewrite take_uint_padded by (try (change (10 ^ Z.of_nat 2) with 100); lia). cbn [bind].
  rewrite take_uint_padded by (try (change (10 ^ Z.of_nat 3) with 1000); lia). cbn [bind].
  change (90 =? 90) with true. cbn [bind].
  replace (days_from_civil y m d * MillisPerDay + hh * MillisPerHour + mi * MillisPerMinute
           + ss * MillisPerSecond + ms - 0) with total by lia.
  rewrite Hr. reflexivity.
Qed.

Lemma print_datetime_eq : forall z y m d, civil_from_days (z / MillisPerDay) = (y, m, d) ->
  print_datetime z =
  (if (0 <=? y) && (y <=? 9999) then print_padded 4 y
   else (if y <? 0 then 45 else 43) :: print_padded 9 (Z.abs y))
  ++ 45 :: print_padded 2 m ++ 45 :: print_padded 2 d
  ++ 84 :: print_padded 2 (z mod MillisPerDay / MillisPerHour)
  ++ 58 :: print_padded 2 ((z mod MillisPerDay) mod MillisPerHour / MillisPerMinute)
  ++ 58 :: print_padded 2 ((z mod MillisPerDay) mod MillisPerMinute / MillisPerSecond)
  ++ 46 :: print_padded 3 ((z mod MillisPerDay) mod MillisPerSecond) ++ [90].
Proof. intros z y m d E. unfold print_datetime. cbv zeta. rewrite E. reflexivity. Qed.

Lemma civil_year_bound : forall days y m d,
  -106751991168 <= days <= 106751991167 -> civil_from_days days = (y, m, d) ->
  -999999999 <= y <= 999999999.
Proof.
  intros days y m d Hdays E.
  pose (era := (days + 719468) / 146097). pose (doe := days + 719468 - era * 146097).
  assert (Hdoe : 0 <= doe < 146097) by (subst doe era; dlia).
  destruct (doe_civil doe) as [[yoe m2] d2] eqn:E2.
  rewrite (civil_from_days_eq2 days era doe yoe m2 d2 eq_refl eq_refl E2) in E.
  destruct (check_doe_spec doe yoe m2 d2 Hdoe E2) as (Hy & _).
  assert (Hera : -800000 <= era <= 800000) by (subst era; dlia).
  injection E as Ey Em Ed. clear - Ey Hy Hera. destruct (m2 <=? 2); lia.
Qed.

Lemma parse_datetime_year4 : forall y rest, 0 <= y <= 9999 ->
  parse_datetime (print_padded 4 y ++ rest) = parse_tail y rest.
Proof.
  intros y rest Hy.
  assert (Hy' : 0 <= y < 10 ^ Z.of_nat 4) by (change (10 ^ Z.of_nat 4) with 10000; lia).
  destruct (dt_parse_print_padded 4 y Hy' ltac:(lia)) as (Hlen & _ & Hall).
  pose proof (take_uint_padded 4 y 9999 rest Hy' ltac:(lia) ltac:(lia)) as Ht.
  destruct (print_padded 4 y) as [|c tl] eqn:Ep; [discriminate Hlen|].
  inversion Hall as [|c' tl' Hc Htl]; subst c' tl'.
  rewrite <- app_comm_cons in *. rewrite parse_datetime_unfold, Hc, Ht.
  unfold is_digit in Hc. apply andb_prop in Hc. destruct Hc as [Hc1 Hc2].
  apply Z.leb_le in Hc1.
  destruct (Z.eqb_spec c 43) as [Hc43|_]; [lia|]. destruct (Z.eqb_spec c 45) as [Hc45|_]; [lia|].
  cbn [bind]. rewrite Z.mul_1_r. reflexivity.
Qed.

Lemma parse_datetime_year_neg : forall y rest, -999999999 <= y < 0 ->
  parse_datetime ((45 :: print_padded 9 (Z.abs y)) ++ rest) = parse_tail y rest.
Proof.
  intros y rest Hy. rewrite <- app_comm_cons, parse_datetime_unfold.
  change (45 =? 43) with false. change (45 =? 45) with true. cbv iota.
  rewrite take_uint_padded by (try (change (10 ^ Z.of_nat 9) with 1000000000); lia).
  cbn [bind]. replace (Z.abs y * -1) with y by lia. reflexivity.
Qed.

Lemma parse_datetime_year_pos : forall y rest, 9999 < y <= 999999999 ->
  parse_datetime ((43 :: print_padded 9 (Z.abs y)) ++ rest) = parse_tail y rest.
Proof.
  intros y rest Hy. rewrite <- app_comm_cons, parse_datetime_unfold.
  change (43 =? 43) with true. cbv iota.
  rewrite take_uint_padded by (try (change (10 ^ Z.of_nat 9) with 1000000000); lia).
  cbn [bind]. replace (Z.abs y * 1) with y by lia. reflexivity.
Qed.

Theorem datetime_roundtrip : forall z, in_dt_range z = true -> parse_datetime (print_datetime z) = Some z.
Proof.
  intros z Hr.
  assert (Hz : min64 + 86400000 <= z <= max64).
  { unfold in_dt_range, min_datetime_bound in Hr. apply andb_prop in Hr. destruct Hr as [H1 H2].
    apply Z.leb_le in H1. apply Z.leb_le in H2. lia. }
  destruct (civil_from_days (z / MillisPerDay)) as [[y m] d] eqn:E.
  pose proof (civil_from_days_valid (z / MillisPerDay)) as Hv. rewrite E in Hv. destruct Hv as [Hm Hd].
  pose proof (civil_inverse (z / MillisPerDay)) as Hi. rewrite E in Hi.
  assert (Hyb : -999999999 <= y <= 999999999).
  { apply (civil_year_bound (z / MillisPerDay) y m d); [|exact E].
    change MillisPerDay with 86400000. unfold min64, max64, two63 in Hz. dlia. }
  rewrite (print_datetime_eq z y m d E).
  assert (Htail : forall rest,
    rest = 45 :: print_padded 2 m ++ 45 :: print_padded 2 d
      ++ 84 :: print_padded 2 (z mod MillisPerDay / MillisPerHour)
      ++ 58 :: print_padded 2 ((z mod MillisPerDay) mod MillisPerHour / MillisPerMinute)
      ++ 58 :: print_padded 2 ((z mod MillisPerDay) mod MillisPerMinute / MillisPerSecond)
      ++ 46 :: print_padded 3 ((z mod MillisPerDay) mod MillisPerSecond) ++ [90] ->
    parse_tail y rest = Some z).
  { intros rest ->. apply parse_tail_print; try assumption; rewrite ?Hi;
    change MillisPerDay with 86400000; change MillisPerHour with 3600000;
    change MillisPerMinute with 60000; change MillisPerSecond with 1000; dlia. }
  destruct (Z.leb_spec 0 y) as [Hy0|Hy0]; cbn [andb].
  - destruct (Z.leb_spec y 9999) as [Hy1|Hy1].
    + rewrite parse_datetime_year4 by lia. apply Htail. reflexivity.
    + destruct (Z.ltb_spec y 0) as [Hy2|_]; [lia|].
      rewrite parse_datetime_year_pos by lia. apply Htail. reflexivity.
  - destruct (Z.ltb_spec y 0) as [_|Hy2]; [|lia].
    rewrite parse_datetime_year_neg by lia. apply Htail. reflexivity.
Qed.

(* ------------------------------------------------------------------ *)
(* Examples                                                            *)

From Coq Require Import String.

Example ex_print_epoch : print_datetime 0 = s_of "1970-01-01T00:00:00.000Z"%string.
Proof. vm_compute. reflexivity. Qed.
Example ex_print_minus1 : print_datetime (-1) = s_of "1969-12-31T23:59:59.999Z"%string.
Proof. vm_compute. reflexivity. Qed.
Example ex_print_max : print_datetime max64 = s_of "+292278994-08-17T07:12:55.807Z"%string.
Proof. vm_compute. reflexivity. Qed.
Example ex_print_min : print_datetime min64 = s_of "-292275055-05-16T16:47:04.192Z"%string.
Proof. vm_compute. reflexivity. Qed.
Example ex_roundtrip_max : parse_datetime (print_datetime max64) = Some max64.
Proof. vm_compute. reflexivity. Qed.
Example ex_roundtrip_minbound :
  parse_datetime (print_datetime (min64 + 86400000)) = Some (min64 + 86400000).
Proof. vm_compute. reflexivity. Qed.
(* known defect (F27): the smallest int64 datetimes print but do not parse back *)
Example ex_defect_min : parse_datetime (print_datetime min64) = None.
Proof. vm_compute. reflexivity. Qed.
Example ex_defect_below_bound : parse_datetime (print_datetime (min64 + 86399999)) = None.
Proof. vm_compute. reflexivity. Qed.
Example ex_parse_date_only : parse_datetime (s_of "2024-02-29"%string) = Some 1709164800000.
Proof. vm_compute. reflexivity. Qed.
Example ex_parse_bad_day : parse_datetime (s_of "2023-02-29"%string) = None.
Proof. vm_compute. reflexivity. Qed.
Example ex_parse_offset :
  parse_datetime (s_of "1970-01-01T01:00:00+0100"%string) = Some 0.
Proof. vm_compute. reflexivity. Qed.

Print Assumptions civil_from_days_valid.
Print Assumptions civil_inverse.
Print Assumptions days_from_civil_inverse.
Print Assumptions datetime_roundtrip.
Print Assumptions datetime_parse_in_range.
Print Assumptions dt_parse_print_padded.
