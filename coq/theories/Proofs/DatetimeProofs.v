(* Proofs about the datetime codec model (Impl/Datetime.v): calendar conversions are mutually inverse,
   print/parse roundtrip on the accepted range, parse results are in range. *)
From Coq Require Import ZArith List Bool Lia.
Import ListNotations.
From Cedar Require Import Base.Int64 Lang.Value Impl.Text Generated.Tables Impl.Datetime.
Local Open Scope Z_scope.

Ltac dlia := Z.div_mod_to_equations; lia.

(* ------------------------------------------------------------------ *)
(* Ranges of integers built with a Z counter                           *)

Fixpoint zrange (n : nat) (start : Z) : list Z :=
  match n with O => [] | S n' => start :: zrange n' (start + 1) end.

Lemma zrange_In : forall n s z, s <= z < s + Z.of_nat n -> In z (zrange n s).
Proof.
  induction n as [|n IH]; intros s z Hz.
  - simpl in Hz. lia.
  - cbn [zrange]. destruct (Z.eq_dec s z) as [E|NE].
    + left; exact E.
    + right. apply IH. lia.
Qed.

(* ------------------------------------------------------------------ *)
(* Per-era parts of the two conversions                                *)

Definition doe_civil (doe : Z) : Z * Z * Z :=
  let yoe := (doe - doe / 1460 + doe / 36524 - doe / 146096) / 365 in
  let doy := doe - (365 * yoe + yoe / 4 - yoe / 100) in
  let mp := (5 * doy + 2) / 153 in
  let d := doy - (153 * mp + 2) / 5 + 1 in
  let m := if mp <? 10 then mp + 3 else mp - 9 in
  (yoe, m, d).

Definition civil_doe (yoe m d : Z) : Z :=
  let mp := (m + 9) mod 12 in
  let doy := (153 * mp + 2) / 5 + d - 1 in
  yoe * 365 + yoe / 4 - yoe / 100 + doy.

Lemma civil_from_days_eq : forall z,
  civil_from_days z =
  let era := (z + 719468) / 146097 in
  let doe := (z + 719468) - era * 146097 in
  let '(yoe, m, d) := doe_civil doe in
  (if m <=? 2 then yoe + era * 400 + 1 else yoe + era * 400, m, d).
Proof. intros z. reflexivity. Qed.

Lemma days_from_civil_eq : forall y m d,
  days_from_civil y m d =
  let y' := if m <=? 2 then y - 1 else y in
  let era := y' / 400 in
  era * 146097 + civil_doe (y' - era * 400) m d - 719468.
Proof. intros y m d. reflexivity. Qed.

Definition check_doe (doe : Z) : bool :=
  let '(yoe, m, d) := doe_civil doe in
  (0 <=? yoe) && (yoe <? 400) && (1 <=? m) && (m <=? 12) && (1 <=? d)
  && (d <=? days_in_month (if m <=? 2 then yoe + 1 else yoe) m)
  && (civil_doe yoe m d =? doe).

Lemma check_doe_all : forallb check_doe (zrange (Z.to_nat 146097) 0) = true.
Proof. vm_cast_no_check (eq_refl true). Qed.

Definition check_ymd (yoe m d : Z) : bool :=
  if d <=? days_in_month (if m <=? 2 then yoe + 1 else yoe) m then
    let doe := civil_doe yoe m d in
    (0 <=? doe) && (doe <? 146097) &&
    (let '(yoe2, m2, d2) := doe_civil doe in (yoe2 =? yoe) && (m2 =? m) && (d2 =? d))
  else true.

Lemma check_ymd_all :
  forallb (fun yoe => forallb (fun m => forallb (fun d => check_ymd yoe m d) (zrange 31 1)) (zrange 12 1))
          (zrange 400 0) = true.
Proof. vm_cast_no_check (eq_refl true). Qed.
Lemma civil_from_days_eq2 : forall z era doe yoe m d,
  era = (z + 719468) / 146097 -> doe = z + 719468 - era * 146097 -> doe_civil doe = (yoe, m, d) ->
  civil_from_days z = (if m <=? 2 then yoe + era * 400 + 1 else yoe + era * 400, m, d).
Proof.
  intros z era doe yoe m d He Hd E. rewrite civil_from_days_eq. cbv zeta.
  rewrite <- He, <- Hd, E. reflexivity.
Qed.

Lemma check_doe_ok : forall doe, 0 <= doe < 146097 -> check_doe doe = true.
Proof.
  intros doe H. pose proof check_doe_all as A. rewrite forallb_forall in A.
  apply A. apply zrange_In. rewrite Z2Nat.id; lia.
Qed.

Lemma check_ymd_ok : forall yoe m d, 0 <= yoe < 400 -> 1 <= m <= 12 -> 1 <= d <= 31 ->
  check_ymd yoe m d = true.
Proof.
  intros yoe m d Hy Hm Hd. pose proof check_ymd_all as A.
  rewrite forallb_forall in A. specialize (A yoe (zrange_In 400 0 yoe ltac:(lia))).
  rewrite forallb_forall in A. specialize (A m (zrange_In 12 1 m ltac:(lia))).
  rewrite forallb_forall in A. exact (A d (zrange_In 31 1 d ltac:(lia))).
Qed.

Lemma is_leap_period : forall y k, is_leap (y + k * 400) = is_leap y.
Proof.
  intros y k. unfold is_leap.
  replace ((y + k * 400) mod 4) with (y mod 4) by dlia.
  replace ((y + k * 400) mod 100) with (y mod 100) by dlia.
  replace ((y + k * 400) mod 400) with (y mod 400) by dlia.
  reflexivity.
Qed.

Lemma days_in_month_period : forall y k m, days_in_month (y + k * 400) m = days_in_month y m.
Proof. intros y k m. unfold days_in_month. rewrite is_leap_period. reflexivity. Qed.

Lemma days_in_month_le31 : forall y m, days_in_month y m <= 31.
Proof.
  intros y m. unfold days_in_month.
  destruct (m =? 2); [destruct (is_leap y); lia|].
  destruct ((m =? 4) || (m =? 6) || (m =? 9) || (m =? 11)); lia.
Qed.

Lemma check_doe_spec : forall doe yoe m d, 0 <= doe < 146097 -> doe_civil doe = (yoe, m, d) ->
  0 <= yoe < 400 /\ 1 <= m <= 12 /\ 1 <= d <= days_in_month (if m <=? 2 then yoe + 1 else yoe) m
  /\ civil_doe yoe m d = doe.
Proof.
  intros doe yoe m d H E. pose proof (check_doe_ok doe H) as C.
  unfold check_doe in C. rewrite E in C.
  repeat (apply andb_prop in C; destruct C as [C ?]). lia.
Qed.

Theorem civil_from_days_valid : forall z,
  let '(y, m, d) := civil_from_days z in 1 <= m <= 12 /\ 1 <= d <= days_in_month y m.
Proof.
  intros z.
  pose (era := (z + 719468) / 146097). pose (doe := z + 719468 - era * 146097).
  assert (Hdoe : 0 <= doe < 146097) by (subst doe era; dlia).
  destruct (doe_civil doe) as [[yoe m] d] eqn:E.
  rewrite (civil_from_days_eq2 z era doe yoe m d eq_refl eq_refl E).
  destruct (check_doe_spec doe yoe m d Hdoe E) as (Hy & Hm & Hd & _).
  split; [exact Hm|].
  destruct (m <=? 2).
  - replace (yoe + era * 400 + 1) with (yoe + 1 + era * 400) by ring.
    rewrite days_in_month_period. exact Hd.
  - rewrite days_in_month_period. exact Hd.
Qed.

Theorem civil_inverse : forall z,
  let '(y, m, d) := civil_from_days z in days_from_civil y m d = z.
Proof.
  intros z.
  pose (era := (z + 719468) / 146097). pose (doe := z + 719468 - era * 146097).
  assert (Hdoe : 0 <= doe < 146097) by (subst doe era; dlia).
  destruct (doe_civil doe) as [[yoe m] d] eqn:E.
  rewrite (civil_from_days_eq2 z era doe yoe m d eq_refl eq_refl E).
  destruct (check_doe_spec doe yoe m d Hdoe E) as (Hy & Hm & Hd & Hc).
  rewrite days_from_civil_eq. cbv zeta.
  assert (Hy' : (if m <=? 2 then (if m <=? 2 then yoe + era * 400 + 1 else yoe + era * 400) - 1
                 else (if m <=? 2 then yoe + era * 400 + 1 else yoe + era * 400)) = yoe + era * 400)
    by (destruct (m <=? 2); ring).
  rewrite Hy'.
  assert (He : (yoe + era * 400) / 400 = era) by dlia.
  rewrite He. replace (yoe + era * 400 - era * 400) with yoe by ring.
  rewrite Hc. subst doe. ring.
Qed.

Theorem days_from_civil_inverse : forall y m d,
  1 <= m <= 12 -> 1 <= d <= days_in_month y m ->
  civil_from_days (days_from_civil y m d) = (y, m, d).
Proof.
  intros y m d Hm Hd. rewrite days_from_civil_eq. cbv zeta.
  set (y' := if m <=? 2 then y - 1 else y). set (era := y' / 400). set (yoe := y' - era * 400).
  assert (Hyoe : 0 <= yoe < 400) by (subst yoe era; dlia).
  assert (Hy : y = (if m <=? 2 then yoe + 1 else yoe) + era * 400)
    by (subst yoe y'; destruct (m <=? 2); ring).
  assert (Hdim : days_in_month y m = days_in_month (if m <=? 2 then yoe + 1 else yoe) m)
    by (rewrite Hy at 1; apply days_in_month_period).
  pose proof (days_in_month_le31 y m) as H31.
  pose proof (check_ymd_ok yoe m d Hyoe Hm ltac:(lia)) as C.
  unfold check_ymd in C. rewrite <- Hdim in C.
  destruct (Z.leb_spec d (days_in_month y m)) as [_|Hbad]; [|lia].
  cbv zeta in C. set (doe := civil_doe yoe m d) in *.
  destruct (doe_civil doe) as [[yoe2 m2] d2] eqn:E.
  repeat (apply andb_prop in C; destruct C as [C ?]).
  assert (Hdoe : 0 <= doe < 146097) by lia.
  assert (yoe2 = yoe) by lia. assert (m2 = m) by lia. assert (d2 = d) by lia. subst yoe2 m2 d2.
  assert (He : era = (era * 146097 + doe - 719468 + 719468) / 146097)
    by (clear - Hdoe; clearbody doe era; dlia).
  rewrite (civil_from_days_eq2 _ era doe yoe m d He ltac:(ring) E).
  f_equal. f_equal. clear - Hy. destruct (m <=? 2); lia.
Qed.

Print Assumptions civil_from_days_valid.
Print Assumptions civil_inverse.
Print Assumptions days_from_civil_inverse.
