(* String and pattern literals read back: unquote (escape s) = s.
   Models: Base/Utf8.v, Base/Utf8Enc.v, Impl/Quote.v, Impl/Like.v, Lang/RoundTrip.v (str_ok, pat_ok).
   The Unicode tables is_printable / is_gext are Section variables: every theorem holds for all of them.

   NOTE on hypotheses.  Bytes are modelled as unbounded Z.  decode_rune accepts a NEGATIVE "byte" b as the rune b
   (b <? 128), which is not a valid rune, so `valid_utf8 [-5] = true` but `encode_runes (runes [-5]) = [239;191;189]`.
   The statements about `runes s` therefore carry the extra hypothesis `nonneg s` (every byte is >= 0; bytes >= 245
   are already rejected by valid_utf8).  See the counterexamples at the end of the file. *)
From Coq Require Import ZArith List Bool Lia Arith.
Import ListNotations.
From Cedar Require Import Base.Utf8 Base.Utf8Enc Lang.Value Impl.Like Impl.Quote Lang.RoundTrip.
Local Open Scope Z_scope.

(* ------------------------------------------------------------------------------------------------------------ *)
(* tactics                                                                                                        *)
(* ------------------------------------------------------------------------------------------------------------ *)

(* decide one boolean integer test occurring in the goal, pruning impossible branches *)
Ltac dtest :=
  match goal with
  | |- context [?a <? ?b] => destruct (Z.ltb_spec a b); try lia
  | |- context [?a <=? ?b] => destruct (Z.leb_spec a b); try lia
  | |- context [?a =? ?b] => destruct (Z.eqb_spec a b); try lia
  end.

(* turn boolean facts in the context into Props *)
Ltac zb :=
  repeat match goal with
  | H : (_ && _) = true |- _ => apply andb_true_iff in H; destruct H
  | H : (_ <? _) = true |- _ => apply Z.ltb_lt in H
  | H : (_ <? _) = false |- _ => apply Z.ltb_ge in H
  | H : (_ <=? _) = true |- _ => apply Z.leb_le in H
  | H : (_ <=? _) = false |- _ => apply Z.leb_gt in H
  | H : (_ =? _) = true |- _ => apply Z.eqb_eq in H
  | H : (_ =? _) = false |- _ => apply Z.eqb_neq in H
  end.

Definition nonneg (s : list Z) : Prop := Forall (fun b => 0 <= b) s.

(* ------------------------------------------------------------------------------------------------------------ *)
(* UTF-8: decode after encode                                                                                     *)
(* ------------------------------------------------------------------------------------------------------------ *)

Lemma valid_rune_range : forall r, valid_rune r = true -> (0 <= r < 55296) \/ (57344 <= r <= 1114111).
Proof.
  intros r H. unfold valid_rune in H. apply orb_true_iff in H. destruct H as [H|H]; zb; lia.
Qed.

Lemma valid_rune_intro : forall r, (0 <= r < 55296) \/ (57344 <= r <= 1114111) -> valid_rune r = true.
Proof.
  intros r H. unfold valid_rune. apply orb_true_iff.
  destruct H as [H|H]; [left|right]; apply andb_true_iff; split;
    first [apply Z.leb_le | apply Z.ltb_lt]; lia.
Qed.

Lemma decode1 : forall b0 rest, b0 < 128 -> decode_rune (b0 :: rest) = (b0, 1%nat).
Proof. intros b0 rest H. unfold decode_rune. dtest. reflexivity. Qed.

Lemma decode2 : forall b0 b1 rest, 194 <= b0 < 224 -> 128 <= b1 <= 191 ->
  decode_rune (b0 :: b1 :: rest) = ((b0 - 192) * 64 + (b1 - 128), 2%nat).
Proof. intros b0 b1 rest H0 H1. unfold decode_rune, is_cont. repeat dtest. reflexivity. Qed.

Lemma decode3 : forall b0 b1 b2 rest, 224 <= b0 < 240 -> 128 <= b1 <= 191 -> 128 <= b2 <= 191 ->
  (b0 = 224 -> 160 <= b1) -> (b0 = 237 -> b1 <= 159) ->
  decode_rune (b0 :: b1 :: b2 :: rest) = ((b0 - 224) * 4096 + (b1 - 128) * 64 + (b2 - 128), 3%nat).
Proof.
  intros b0 b1 b2 rest H0 H1 H2 Hlo Hhi. unfold decode_rune, is_cont.
  destruct (Z.eqb_spec b0 224); destruct (Z.eqb_spec b0 237); repeat dtest; reflexivity.
Qed.

Lemma decode4 : forall b0 b1 b2 b3 rest, 240 <= b0 < 245 -> 128 <= b1 <= 191 -> 128 <= b2 <= 191 -> 128 <= b3 <= 191 ->
  (b0 = 240 -> 144 <= b1) -> (b0 = 244 -> b1 <= 143) ->
  decode_rune (b0 :: b1 :: b2 :: b3 :: rest)
  = ((b0 - 240) * 262144 + (b1 - 128) * 4096 + (b2 - 128) * 64 + (b3 - 128), 4%nat).
Proof.
  intros b0 b1 b2 b3 rest H0 H1 H2 H3 Hlo Hhi. unfold decode_rune, is_cont.
  destruct (Z.eqb_spec b0 240); destruct (Z.eqb_spec b0 244); repeat dtest; reflexivity.
Qed.

(* the shape of encode_rune on a valid rune, with the digits named *)
Lemma encode_rune_1 : forall r, 0 <= r < 128 -> encode_rune r = [r].
Proof.
  intros r H. unfold encode_rune. rewrite valid_rune_intro by lia. dtest. reflexivity.
Qed.

Lemma encode_rune_2 : forall r, 128 <= r < 2048 ->
  exists q m, r = 64 * q + m /\ 0 <= m < 64 /\ 2 <= q < 32 /\ encode_rune r = [192 + q; 128 + m].
Proof.
  intros r H. exists (r / 64), (r mod 64).
  pose proof (Z.div_mod r 64 ltac:(lia)) as Hdm. pose proof (Z.mod_pos_bound r 64 ltac:(lia)) as Hm.
  split; [exact Hdm|]. split; [exact Hm|]. split; [lia|].
  unfold encode_rune. rewrite valid_rune_intro by lia. repeat dtest. reflexivity.
Qed.

Lemma encode_rune_3 : forall r, 2048 <= r < 65536 -> valid_rune r = true ->
  exists a b m, r = 4096 * a + 64 * b + m /\ 0 <= m < 64 /\ 0 <= b < 64 /\ 0 <= a < 16 /\
    encode_rune r = [224 + a; 128 + b; 128 + m].
Proof.
  intros r H Hv. exists (r / 64 / 64), ((r / 64) mod 64), (r mod 64).
  pose proof (Z.div_mod r 64 ltac:(lia)) as Hdm. pose proof (Z.mod_pos_bound r 64 ltac:(lia)) as Hm.
  pose proof (Z.div_mod (r / 64) 64 ltac:(lia)) as Hdm2. pose proof (Z.mod_pos_bound (r / 64) 64 ltac:(lia)) as Hm2.
  assert (Hdd : r / 4096 = r / 64 / 64) by (rewrite Z.div_div by lia; reflexivity).
  split; [lia|]. split; [exact Hm|]. split; [exact Hm2|]. split; [lia|].
  unfold encode_rune. rewrite Hv. repeat dtest. rewrite Hdd. reflexivity.
Qed.

Lemma encode_rune_4 : forall r, 65536 <= r <= 1114111 ->
  exists a b c m, r = 262144 * a + 4096 * b + 64 * c + m /\ 0 <= m < 64 /\ 0 <= c < 64 /\ 0 <= b < 64 /\ 0 <= a < 5 /\
    encode_rune r = [240 + a; 128 + b; 128 + c; 128 + m].
Proof.
  intros r H. exists (r / 64 / 64 / 64), ((r / 64 / 64) mod 64), ((r / 64) mod 64), (r mod 64).
  pose proof (Z.div_mod r 64 ltac:(lia)) as Hdm. pose proof (Z.mod_pos_bound r 64 ltac:(lia)) as Hm.
  pose proof (Z.div_mod (r / 64) 64 ltac:(lia)) as Hdm2. pose proof (Z.mod_pos_bound (r / 64) 64 ltac:(lia)) as Hm2.
  pose proof (Z.div_mod (r / 64 / 64) 64 ltac:(lia)) as Hdm3.
  pose proof (Z.mod_pos_bound (r / 64 / 64) 64 ltac:(lia)) as Hm3.
  assert (Hdd : r / 4096 = r / 64 / 64) by (rewrite Z.div_div by lia; reflexivity).
  assert (Hddd : r / 262144 = r / 64 / 64 / 64) by (rewrite !Z.div_div by lia; reflexivity).
  split; [lia|]. split; [exact Hm|]. split; [exact Hm2|]. split; [exact Hm3|]. split; [lia|].
  unfold encode_rune. rewrite valid_rune_intro by lia. repeat dtest. rewrite Hdd, Hddd. reflexivity.
Qed.

Lemma decode_encode_rune : forall r rest, valid_rune r = true ->
  decode_rune (encode_rune r ++ rest) = (r, length (encode_rune r)).
Proof.
  intros r rest Hv. pose proof (valid_rune_range r Hv) as Hr.
  destruct (Z.ltb_spec r 128) as [H1|H1].
  { rewrite encode_rune_1 by lia. cbn [app length]. apply decode1. lia. }
  destruct (Z.ltb_spec r 2048) as [H2|H2].
  { destruct (encode_rune_2 r ltac:(lia)) as (q & m & Hq & Hm & Hqr & He). rewrite He. cbn [app length].
    rewrite decode2 by lia. f_equal. lia. }
  destruct (Z.ltb_spec r 65536) as [H3|H3].
  { destruct (encode_rune_3 r ltac:(lia) Hv) as (a & b & m & Hq & Hm & Hb & Ha & He). rewrite He. cbn [app length].
    rewrite decode3 by lia. f_equal. lia. }
  destruct (encode_rune_4 r ltac:(lia)) as (a & b & c & m & Hq & Hm & Hc & Hb & Ha & He). rewrite He. cbn [app length].
  rewrite decode4 by lia. f_equal. lia.
Qed.

Lemma encode_rune_length : forall r, valid_rune r = true ->
  (1 <= length (encode_rune r))%nat /\ ((length (encode_rune r) <= 1)%nat -> r < 128).
Proof.
  intros r Hv. pose proof (valid_rune_range r Hv) as Hr.
  destruct (Z.ltb_spec r 128) as [H1|H1].
  { rewrite encode_rune_1 by lia. cbn. lia. }
  destruct (Z.ltb_spec r 2048) as [H2|H2].
  { destruct (encode_rune_2 r ltac:(lia)) as (q & m & Hq & Hm & Hqr & He). rewrite He. cbn. lia. }
  destruct (Z.ltb_spec r 65536) as [H3|H3].
  { destruct (encode_rune_3 r ltac:(lia) Hv) as (a & b & m & Hq & Hm & Hb & Ha & He). rewrite He. cbn. lia. }
  destruct (encode_rune_4 r ltac:(lia)) as (a & b & c & m & Hq & Hm & Hc & Hb & Ha & He). rewrite He. cbn. lia.
Qed.

(* the bytes of an encoding: a single ASCII byte, or bytes >= 128 *)
Lemma encode_rune_bytes : forall r, valid_rune r = true ->
  (r < 128 /\ encode_rune r = [r]) \/ (128 <= r /\ Forall (fun b => 128 <= b) (encode_rune r)).
Proof.
  intros r Hv. pose proof (valid_rune_range r Hv) as Hr.
  destruct (Z.ltb_spec r 128) as [H1|H1].
  { left. split; [lia|]. apply encode_rune_1. lia. }
  right. split; [lia|].
  destruct (Z.ltb_spec r 2048) as [H2|H2].
  { destruct (encode_rune_2 r ltac:(lia)) as (q & m & Hq & Hm & Hqr & He). rewrite He.
    repeat constructor; lia. }
  destruct (Z.ltb_spec r 65536) as [H3|H3].
  { destruct (encode_rune_3 r ltac:(lia) Hv) as (a & b & m & Hq & Hm & Hb & Ha & He). rewrite He.
    repeat constructor; lia. }
  destruct (encode_rune_4 r ltac:(lia)) as (a & b & c & m & Hq & Hm & Hc & Hb & Ha & He). rewrite He.
  repeat constructor; lia.
Qed.

Lemma skipn_app_length : forall (A : Type) (l r : list A), skipn (length l) (l ++ r) = r.
Proof. intros A l r. induction l as [|x l IH]; [reflexivity|]. cbn. exact IH. Qed.

Lemma next_rune_encode : forall r rest, valid_rune r = true -> next_rune (encode_rune r ++ rest) = Some (r, rest).
Proof.
  intros r rest Hv. unfold next_rune. rewrite decode_encode_rune by exact Hv.
  rewrite skipn_app_length.
  destruct (encode_rune_length r Hv) as [_ Hl].
  destruct ((r =? rune_error) && Nat.leb (length (encode_rune r)) 1) eqn:E; [|reflexivity].
  apply andb_true_iff in E. destruct E as [E1 E2]. apply Z.eqb_eq in E1. apply Nat.leb_le in E2.
  specialize (Hl E2). unfold rune_error in E1. lia.
Qed.

(* ------------------------------------------------------------------------------------------------------------ *)
(* UTF-8: encode after decode                                                                                     *)
(* ------------------------------------------------------------------------------------------------------------ *)

Lemma enc2_inv : forall b0 b1, 194 <= b0 < 224 -> 128 <= b1 <= 191 ->
  let ch := (b0 - 192) * 64 + (b1 - 128) in valid_rune ch = true /\ encode_rune ch = [b0; b1].
Proof.
  intros b0 b1 H0 H1 ch.
  assert (Hch : 128 <= ch < 2048) by (unfold ch; lia).
  split; [apply valid_rune_intro; lia|].
  destruct (encode_rune_2 ch Hch) as (q & m & Hq & Hm & Hqr & He). rewrite He.
  assert (q = b0 - 192 /\ m = b1 - 128) as [-> ->] by (unfold ch in Hq; lia).
  f_equal; [lia|]. f_equal. lia.
Qed.

Lemma enc3_inv : forall b0 b1 b2, 224 <= b0 < 240 -> 128 <= b1 <= 191 -> 128 <= b2 <= 191 ->
  (b0 = 224 -> 160 <= b1) -> (b0 = 237 -> b1 <= 159) ->
  let ch := (b0 - 224) * 4096 + (b1 - 128) * 64 + (b2 - 128) in valid_rune ch = true /\ encode_rune ch = [b0; b1; b2].
Proof.
  intros b0 b1 b2 H0 H1 H2 Hlo Hhi ch.
  assert (Hch : 2048 <= ch < 65536) by (unfold ch; lia).
  assert (Hv : valid_rune ch = true) by (apply valid_rune_intro; unfold ch; lia).
  split; [exact Hv|].
  destruct (encode_rune_3 ch Hch Hv) as (a & b & m & Hq & Hm & Hb & Ha & He). rewrite He.
  assert (a = b0 - 224 /\ b = b1 - 128 /\ m = b2 - 128) as (-> & -> & ->) by (unfold ch in Hq; lia).
  f_equal; [lia|]. f_equal; [lia|]. f_equal. lia.
Qed.

Lemma enc4_inv : forall b0 b1 b2 b3, 240 <= b0 < 245 -> 128 <= b1 <= 191 -> 128 <= b2 <= 191 -> 128 <= b3 <= 191 ->
  (b0 = 240 -> 144 <= b1) -> (b0 = 244 -> b1 <= 143) ->
  let ch := (b0 - 240) * 262144 + (b1 - 128) * 4096 + (b2 - 128) * 64 + (b3 - 128) in
  valid_rune ch = true /\ encode_rune ch = [b0; b1; b2; b3].
Proof.
  intros b0 b1 b2 b3 H0 H1 H2 H3 Hlo Hhi ch.
  assert (Hch : 65536 <= ch <= 1114111) by (unfold ch; lia).
  split; [apply valid_rune_intro; lia|].
  destruct (encode_rune_4 ch Hch) as (a & b & c & m & Hq & Hm & Hc & Hb & Ha & He). rewrite He.
  assert (a = b0 - 240 /\ b = b1 - 128 /\ c = b2 - 128 /\ m = b3 - 128) as (-> & -> & -> & ->) by (unfold ch in Hq; lia).
  f_equal; [lia|]. f_equal; [lia|]. f_equal; [lia|]. f_equal. lia.
Qed.

Lemma decode_bad : forall ch w (P : Prop),
  (rune_error, 1%nat) = (ch, w) -> (ch =? rune_error) && Nat.leb w 1 = false -> P.
Proof.
  intros ch w P H Hc. inversion H; subst. cbn in Hc. discriminate.
Qed.

(* a successfully decoded rune is valid and the bytes consumed are its encoding *)
Lemma decode_rune_inv : forall s ch w, nonneg s -> decode_rune s = (ch, w) ->
  (ch =? rune_error) && Nat.leb w 1 = false ->
  valid_rune ch = true /\ exists rest, s = encode_rune ch ++ rest /\ w = length (encode_rune ch).
Proof.
  intros s ch w Hnn Hd Hc.
  destruct s as [|b0 s].
  { cbn in Hd. inversion Hd; subst. cbn in Hc. discriminate. }
  assert (Hb0 : 0 <= b0) by (inversion Hnn; assumption).
  unfold decode_rune in Hd.
  destruct (Z.ltb_spec b0 128) as [H1|H1].
  { inversion Hd; subst. split; [apply valid_rune_intro; lia|].
    exists s. rewrite encode_rune_1 by lia. split; reflexivity. }
  destruct (Z.ltb_spec b0 194) as [H2|H2]; [exact (decode_bad _ _ _ Hd Hc)|].
  destruct (Z.ltb_spec b0 224) as [H3|H3].
  { destruct s as [|b1 s]; [exact (decode_bad _ _ _ Hd Hc)|].
    destruct (is_cont b1) eqn:E1; [|exact (decode_bad _ _ _ Hd Hc)].
    unfold is_cont in E1. zb. inversion Hd; subst.
    destruct (enc2_inv b0 b1 ltac:(lia) ltac:(lia)) as [Hv He].
    split; [exact Hv|]. exists s. rewrite He. split; reflexivity. }
  destruct (Z.ltb_spec b0 240) as [H4|H4].
  { destruct s as [|b1 [|b2 s]]; try exact (decode_bad _ _ _ Hd Hc).
    cbv zeta in Hd.
    destruct (((if b0 =? 224 then 160 else 128) <=? b1) && (b1 <=? (if b0 =? 237 then 159 else 191)) && is_cont b2) eqn:E;
      [|exact (decode_bad _ _ _ Hd Hc)].
    unfold is_cont in E. zb. inversion Hd; subst.
    destruct (Z.eqb_spec b0 224) as [E224|E224]; destruct (Z.eqb_spec b0 237) as [E237|E237]; try lia;
      (destruct (enc3_inv b0 b1 b2) as [Hv He]; [lia|lia|lia|lia|lia|]);
    (split; [exact Hv|]; exists s; rewrite He; split; reflexivity). }
  destruct (Z.ltb_spec b0 245) as [H5|H5]; [|exact (decode_bad _ _ _ Hd Hc)].
  destruct s as [|b1 [|b2 [|b3 s]]]; try exact (decode_bad _ _ _ Hd Hc).
  cbv zeta in Hd.
  destruct (((if b0 =? 240 then 144 else 128) <=? b1) && (b1 <=? (if b0 =? 244 then 143 else 191)) && is_cont b2 && is_cont b3)
    eqn:E; [|exact (decode_bad _ _ _ Hd Hc)].
  unfold is_cont in E. zb. inversion Hd; subst.
  destruct (Z.eqb_spec b0 240) as [E240|E240]; destruct (Z.eqb_spec b0 244) as [E244|E244]; try lia;
    (destruct (enc4_inv b0 b1 b2 b3) as [Hv He]; [lia|lia|lia|lia|lia|lia|]);
  (split; [exact Hv|]; exists s; rewrite He; split; reflexivity).
Qed.

Lemma nonneg_app_r : forall a b, nonneg (a ++ b) -> nonneg b.
Proof. intros a b H. unfold nonneg in *. apply Forall_app in H. tauto. Qed.

Lemma runes_of_spec : forall fuel s, (length s <= fuel)%nat -> nonneg s -> valid_utf8_fuel fuel s = true ->
  encode_runes (runes_of fuel s) = s /\ Forall (fun r => valid_rune r = true) (runes_of fuel s).
Proof.
  induction fuel as [|f IH]; intros s Hl Hnn Hv.
  { destruct s as [|x s]; [|cbn in Hl; lia]. cbn. split; [reflexivity|constructor]. }
  destruct s as [|x s]; [cbn; split; [reflexivity|constructor]|].
  cbn [valid_utf8_fuel runes_of] in *.
  destruct (decode_rune (x :: s)) as [ch w] eqn:Hd.
  destruct ((ch =? rune_error) && Nat.leb w 1) eqn:Hc; [discriminate|].
  destruct (decode_rune_inv _ _ _ Hnn Hd Hc) as (Hvr & rest & Hs & Hw).
  destruct (encode_rune_length ch Hvr) as [Hlen _].
  rewrite Nat.max_l by lia.
  rewrite Hs in Hv |- *. rewrite Hw in Hv |- *. rewrite skipn_app_length in Hv |- *.
  assert (Hl' : (length rest <= f)%nat).
  { apply (f_equal (@length Z)) in Hs. rewrite app_length in Hs. cbn [length] in Hl, Hs. lia. }
  assert (Hnn' : nonneg rest) by (rewrite Hs in Hnn; exact (nonneg_app_r _ _ Hnn)).
  destruct (IH rest Hl' Hnn' Hv) as [IH1 IH2].
  split.
  - cbn [encode_runes flat_map]. fold (encode_runes (runes_of f rest)). rewrite IH1. reflexivity.
  - constructor; assumption.
Qed.

Lemma runes_encode : forall s, nonneg s -> valid_utf8 s = true -> encode_runes (runes s) = s.
Proof. intros s Hnn Hv. apply (runes_of_spec (length s) s (le_n _) Hnn Hv). Qed.

Lemma runes_valid : forall s, nonneg s -> valid_utf8 s = true -> Forall (fun r => valid_rune r = true) (runes s).
Proof. intros s Hnn Hv. apply (runes_of_spec (length s) s (le_n _) Hnn Hv). Qed.

(* ------------------------------------------------------------------------------------------------------------ *)
(* hexadecimal digits                                                                                             *)
(* ------------------------------------------------------------------------------------------------------------ *)

Lemma next_rune_ascii : forall c l, c < 128 -> next_rune (c :: l) = Some (c, l).
Proof.
  intros c l H. unfold next_rune. rewrite decode1 by lia. cbn [skipn].
  destruct (Z.eqb_spec c rune_error) as [E|E]; [unfold rune_error in E; lia|reflexivity].
Qed.

Lemma next_rune_nil : next_rune [] = None.
Proof. reflexivity. Qed.

Definition lowhex (c : Z) : Prop := (48 <= c <= 57) \/ (97 <= c <= 102).

Lemma lowhex_props : forall c, lowhex c ->
  c < 128 /\ (c =? 125) = false /\ is_hexd c = true /\ 0 <= digit_val c < 16 /\ c <> 42.
Proof.
  intros c H. unfold lowhex in H. unfold is_hexd, digit_val, is_dec.
  split; [lia|]. split; [apply Z.eqb_neq; lia|].
  destruct H as [H|H]; repeat dtest; cbn [andb orb]; (split; [reflexivity|]); lia.
Qed.

Definition hexc (d : Z) : Z := if d <? 10 then 48 + d else 87 + d.

Lemma hexc_spec : forall d, 0 <= d < 16 -> lowhex (hexc d) /\ digit_val (hexc d) = d.
Proof.
  intros d H. unfold hexc, lowhex, digit_val, is_dec.
  destruct (Z.ltb_spec d 10); repeat dtest; cbn [andb orb]; lia.
Qed.

(* value of a little-endian / big-endian digit string *)
Fixpoint valr (l : list Z) : Z := match l with [] => 0 | d :: l' => digit_val d + 16 * valr l' end.
Definition valL (res : Z) (ds : list Z) : Z := fold_left (fun a d => 16 * a + digit_val d) ds res.

Lemma hex_rev_spec : forall n fuel z, (1 <= n <= fuel)%nat -> 0 <= z < 16 ^ Z.of_nat n ->
  (1 <= length (hex_rev fuel z) <= n)%nat /\ Forall lowhex (hex_rev fuel z) /\ valr (hex_rev fuel z) = z.
Proof.
  induction n as [|n IH]; intros fuel z Hn Hz; [lia|].
  destruct fuel as [|f]; [lia|].
  cbn [hex_rev]. cbv zeta.
  change (if z mod 16 <? 10 then 48 + z mod 16 else 87 + z mod 16) with (hexc (z mod 16)).
  pose proof (Z.mod_pos_bound z 16 ltac:(lia)) as Hm.
  pose proof (Z.div_mod z 16 ltac:(lia)) as Hdm.
  destruct (hexc_spec (z mod 16) Hm) as [Hlow Hval].
  destruct (Z.ltb_spec z 16) as [Hs|Hs].
  - cbn [length valr]. split; [lia|]. split; [constructor; [exact Hlow|constructor]|].
    rewrite Hval. rewrite Z.mod_small by lia. lia.
  - rewrite Nat2Z.inj_succ, Z.pow_succ_r in Hz by lia.
    destruct n as [|n'].
    { change (16 ^ Z.of_nat 0) with 1 in Hz. lia. }
    assert (Hq : 0 <= z / 16 < 16 ^ Z.of_nat (S n')).
    { split; [apply Z.div_pos; lia|apply Z.div_lt_upper_bound; lia]. }
    destruct (IH f (z / 16) ltac:(lia) Hq) as (Hl & Hf & Hv).
    cbn [length valr]. split; [lia|]. split; [constructor; assumption|].
    rewrite Hval, Hv. lia.
Qed.

Lemma valL_snoc : forall res a d, valL res (a ++ [d]) = 16 * valL res a + digit_val d.
Proof. intros res a d. unfold valL. rewrite fold_left_app. reflexivity. Qed.

Lemma valL_rev : forall l, valL 0 (rev l) = valr l.
Proof.
  induction l as [|d l IH]; [reflexivity|].
  cbn [rev valr]. rewrite valL_snoc, IH. lia.
Qed.

Lemma hex_lower_spec : forall r, 0 <= r <= 1114111 ->
  (1 <= length (hex_lower r) <= 6)%nat /\ Forall lowhex (hex_lower r) /\ valL 0 (hex_lower r) = r.
Proof.
  intros r Hr. unfold hex_lower.
  assert (Hz : 0 <= r < 16 ^ Z.of_nat 6) by (change (16 ^ Z.of_nat 6) with 16777216; lia).
  destruct (hex_rev_spec 6 16 r ltac:(lia) Hz) as (Hl & Hf & Hv).
  rewrite rev_length, valL_rev. split; [exact Hl|]. split; [|exact Hv].
  apply Forall_rev. exact Hf.
Qed.

Lemma unicode_digits_spec : forall ds fuel rest res n, Forall lowhex ds -> (length ds < fuel)%nat ->
  unicode_digits fuel (ds ++ 125 :: rest) res n = Some (valL res ds, (n + length ds)%nat, rest).
Proof.
  induction ds as [|d ds IH]; intros fuel rest res n Hf Hl.
  - destruct fuel as [|f]; [cbn in Hl; lia|].
    cbn [app unicode_digits length]. rewrite next_rune_ascii by lia.
    change (125 =? 125) with true. cbv iota. rewrite Nat.add_0_r. reflexivity.
  - destruct fuel as [|f]; [cbn in Hl; lia|].
    inversion Hf as [|d' ds' Hd Hds]; subst.
    destruct (lowhex_props d Hd) as (H128 & H125 & Hhex & _).
    cbn [app unicode_digits length]. rewrite next_rune_ascii by lia.
    rewrite H125, Hhex. cbn [negb]. cbv iota.
    rewrite IH by (try assumption; cbn [length] in Hl; lia).
    rewrite Nat.add_succ_r. reflexivity.
Qed.

Lemma parse_unicode_escape_spec : forall r rest, valid_rune r = true ->
  parse_unicode_escape (123 :: hex_lower r ++ 125 :: rest) = Some (r, rest).
Proof.
  intros r rest Hv. pose proof (valid_rune_range r Hv) as Hr.
  destruct (hex_lower_spec r ltac:(lia)) as (Hl & Hf & Hval).
  unfold parse_unicode_escape. rewrite next_rune_ascii by lia.
  change (negb (123 =? 123)) with false. cbv iota.
  rewrite unicode_digits_spec by (try exact Hf; rewrite app_length; lia).
  rewrite Hval, Hv. cbn [Nat.add negb].
  destruct (Nat.eqb_spec (length (hex_lower r)) 0) as [E|E]; [lia|].
  destruct (Nat.ltb_spec 6 (length (hex_lower r))) as [E'|E']; [lia|].
  reflexivity.
Qed.

(* ------------------------------------------------------------------------------------------------------------ *)
(* one step of unquote                                                                                            *)
(* ------------------------------------------------------------------------------------------------------------ *)

Lemma unquote_plain : forall f b star acc ch b1, next_rune b = Some (ch, b1) -> ch <> 92 -> (star = false \/ ch <> 42) ->
  unquote_fuel (S f) b star acc = unquote_fuel f b1 star (acc ++ encode_rune ch).
Proof.
  intros f b star acc ch b1 Hn H92 Hs.
  destruct b as [|x b]; [rewrite next_rune_nil in Hn; discriminate|].
  cbn [unquote_fuel]. rewrite Hn.
  assert (E1 : star && (ch =? 42) = false).
  { destruct Hs as [->|Hs]; [reflexivity|]. apply andb_false_iff. right. apply Z.eqb_neq. exact Hs. }
  rewrite E1. apply Z.eqb_neq in H92. rewrite H92. reflexivity.
Qed.

Lemma unquote_bs : forall f e b2 star acc, e < 128 ->
  unquote_fuel (S f) (92 :: e :: b2) star acc =
    let lit (r : Z) := unquote_fuel f b2 star (acc ++ encode_rune r) in
    if e =? 110 then lit 10 else if e =? 114 then lit 13 else if e =? 116 then lit 9
    else if e =? 92 then lit 92 else if e =? 48 then lit 0 else if e =? 39 then lit 39 else if e =? 34 then lit 34
    else if e =? 120 then
      match parse_hex_escape b2 with Some (r, b3) => unquote_fuel f b3 star (acc ++ encode_rune r) | None => None end
    else if e =? 117 then
      match parse_unicode_escape b2 with Some (r, b3) => unquote_fuel f b3 star (acc ++ encode_rune r) | None => None end
    else if e =? 42 then (if star then lit 42 else None)
    else None.
Proof.
  intros f e b2 star acc He. cbn [unquote_fuel].
  rewrite next_rune_ascii by lia. cbv iota beta.
  rewrite next_rune_ascii by lia. cbv iota beta.
  destruct star; reflexivity.
Qed.

Lemma unquote_bs_u : forall f b2 star acc,
  unquote_fuel (S f) (92 :: 117 :: b2) star acc =
    match parse_unicode_escape b2 with Some (r, b3) => unquote_fuel f b3 star (acc ++ encode_rune r) | None => None end.
Proof. intros f b2 star acc. rewrite unquote_bs by lia. reflexivity. Qed.

(* the escaped text u stands for the rune r: unquote consumes exactly u, using one unit of fuel *)
Definition step_ok (star : bool) (u : list Z) (r : Z) : Prop :=
  u <> [] /\ forall f rest acc, unquote_fuel (S f) (u ++ rest) star acc = unquote_fuel f rest star (acc ++ encode_rune r).

Lemma step_named : forall star e r,
  In (e, r) [(110, 10); (114, 13); (116, 9); (92, 92); (48, 0); (39, 39); (34, 34)] -> step_ok star [92; e] r.
Proof.
  intros star e r Hin. split; [discriminate|]. intros f rest acc. cbn [app].
  cbn [In] in Hin.
  repeat (destruct Hin as [Hin|Hin]; [inversion Hin; subst; rewrite unquote_bs by lia; reflexivity|]).
  contradiction.
Qed.

Lemma step_bs_star : step_ok true [92; 42] 42.
Proof. split; [discriminate|]. intros f rest acc. cbn [app]. rewrite unquote_bs by lia. reflexivity. Qed.

Lemma step_u : forall star r, valid_rune r = true -> step_ok star (u_escape r) r.
Proof.
  intros star r Hv. split; [discriminate|]. intros f rest acc.
  unfold u_escape. cbn [app]. rewrite <- app_assoc. cbn [app].
  rewrite unquote_bs_u. rewrite parse_unicode_escape_spec by exact Hv. reflexivity.
Qed.

Lemma step_raw : forall star r, valid_rune r = true -> r <> 92 -> (star = false \/ r <> 42) -> step_ok star (encode_rune r) r.
Proof.
  intros star r Hv H92 Hs. split.
  { destruct (encode_rune_length r Hv) as [Hl _]. intro E. rewrite E in Hl. cbn in Hl. lia. }
  intros f rest acc. apply unquote_plain; [apply next_rune_encode; exact Hv|exact H92|exact Hs].
Qed.

(* iterating: a sequence of units *)
Lemma unquote_flat_map : forall star (esc : Z -> list Z) rs,
  Forall (fun r => step_ok star (esc r) r) rs ->
  forall f rest acc, (length rs <= f)%nat ->
  (forall f' acc', unquote_fuel (S f') rest star acc' = Some (acc', rest)) ->
  unquote_fuel (S f) (flat_map esc rs ++ rest) star acc = Some (acc ++ encode_runes rs, rest).
Proof.
  intros star esc rs Hall. induction Hall as [|r rs Hr Hrs IH]; intros f rest acc Hl Hterm.
  - cbn [flat_map app encode_runes]. rewrite app_nil_r. apply Hterm.
  - cbn [length] in Hl. destruct f as [|f]; [lia|].
    cbn [flat_map]. rewrite <- app_assoc. destruct Hr as [_ Hr]. rewrite Hr.
    rewrite IH by (try exact Hterm; lia).
    unfold encode_runes. cbn [flat_map]. rewrite app_assoc. reflexivity.
Qed.

Lemma flat_map_length_ge : forall star (esc : Z -> list Z) rs,
  Forall (fun r => step_ok star (esc r) r) rs -> (length rs <= length (flat_map esc rs))%nat.
Proof.
  intros star esc rs Hall. induction Hall as [|r rs Hr Hrs IH]; [cbn; lia|].
  cbn [flat_map length]. rewrite app_length. destruct Hr as [Hne _].
  destruct (esc r) as [|x u]; [contradiction|]. cbn [length]. lia.
Qed.

Lemma term_nil : forall star f acc, unquote_fuel (S f) [] star acc = Some (acc, []).
Proof. reflexivity. Qed.

Lemma term_star : forall t f acc, unquote_fuel (S f) (42 :: t) true acc = Some (acc, 42 :: t).
Proof. intros t f acc. cbn [unquote_fuel]. rewrite next_rune_ascii by lia. reflexivity. Qed.

Lemma unquote_units : forall star (esc : Z -> list Z) rs rest,
  Forall (fun r => step_ok star (esc r) r) rs ->
  (forall f' acc', unquote_fuel (S f') rest star acc' = Some (acc', rest)) ->
  unquote (flat_map esc rs ++ rest) star = Some (encode_runes rs, rest).
Proof.
  intros star esc rs rest Hall Hterm. unfold unquote.
  rewrite (unquote_flat_map star esc rs Hall _ rest [] ); [reflexivity| |exact Hterm].
  rewrite app_length. pose proof (flat_map_length_ge star esc rs Hall). lia.
Qed.

Lemma trim_quotes_quoted : forall body, trim_quotes ([34] ++ body ++ [34]) = body.
Proof.
  intros body. unfold trim_quotes. cbn [app]. rewrite rev_unit. rewrite rev_involutive. reflexivity.
Qed.

(* ------------------------------------------------------------------------------------------------------------ *)
(* strings                                                                                                        *)
(* ------------------------------------------------------------------------------------------------------------ *)

Section Escape.
  Variable is_printable : Z -> bool.
  Variable is_gext : Z -> bool.

  Lemma step_escape_rune : forall r b, valid_rune r = true -> step_ok false (escape_rune is_printable is_gext r b) r.
  Proof.
    intros r b Hv. unfold escape_rune.
    destruct (Z.eqb_spec r 0) as [->|N0]; [apply step_named; cbn; tauto|].
    destruct (Z.eqb_spec r 9) as [->|N9]; [apply step_named; cbn; tauto|].
    destruct (Z.eqb_spec r 13) as [->|N13]; [apply step_named; cbn; tauto|].
    destruct (Z.eqb_spec r 10) as [->|N10]; [apply step_named; cbn; tauto|].
    destruct (Z.eqb_spec r 92) as [->|N92]; [apply step_named; cbn; tauto|].
    destruct (Z.eqb_spec r 34) as [->|N34]; [apply step_named; cbn; tauto|].
    destruct (Z.eqb_spec r 39) as [->|N39]; [apply step_named; cbn; tauto|].
    destruct (b && is_gext r); [apply step_u; exact Hv|].
    destruct (is_printable r); [|apply step_u; exact Hv].
    apply step_raw; [exact Hv|exact N92|left; reflexivity].
  Qed.

  Theorem unquote_escape_runes : forall rs, Forall (fun r => valid_rune r = true) rs ->
    unquote (escape_runes is_printable is_gext rs) false = Some (encode_runes rs, []).
  Proof.
    intros rs Hall. destruct rs as [|r rs]; [reflexivity|].
    inversion Hall as [|r' rs' Hr Hrs]; subst.
    cbn [escape_runes].
    set (esc := fun x => escape_rune is_printable is_gext x false).
    assert (Hsteps : Forall (fun x => step_ok false (esc x) x) rs).
    { apply Forall_forall. intros x Hx. apply step_escape_rune. rewrite Forall_forall in Hrs. apply Hrs. exact Hx. }
    destruct (step_escape_rune r true Hr) as [Hne Hstep].
    unfold unquote. rewrite app_length.
    pose proof (flat_map_length_ge false esc rs Hsteps) as Hlen.
    destruct (length (escape_rune is_printable is_gext r true)) as [|k] eqn:Ek.
    { apply length_zero_iff_nil in Ek. contradiction. }
    cbn [Nat.add]. rewrite Hstep.
    remember (k + length (flat_map esc rs))%nat as n eqn:En.
    rewrite <- (app_nil_r (flat_map esc rs)).
    rewrite (unquote_flat_map false esc rs Hsteps); [reflexivity|lia|apply term_nil].
  Qed.

  Theorem string_value_quote : forall s, nonneg s -> valid_utf8 s = true ->
    string_value (quote_string is_printable is_gext s) = Some s.
  Proof.
    intros s Hnn Hv. unfold string_value, quote_string. rewrite trim_quotes_quoted.
    unfold escape_string. rewrite unquote_escape_runes by (apply runes_valid; assumption).
    rewrite runes_encode by assumption. reflexivity.
  Qed.
End Escape.

Theorem string_value_plain : forall s, Forall (fun c => 32 <= c < 127 /\ c <> 34 /\ c <> 92) s ->
  string_value ([34] ++ s ++ [34]) = Some s.
Proof.
  intros s Hs. unfold string_value. rewrite trim_quotes_quoted.
  assert (Hsteps : Forall (fun c => step_ok false ((fun x => [x]) c) c) s).
  { apply Forall_forall. intros c Hc. rewrite Forall_forall in Hs. specialize (Hs c Hc).
    rewrite <- (encode_rune_1 c) by lia.
    apply step_raw; [apply valid_rune_intro; lia|lia|left; reflexivity]. }
  assert (E1 : flat_map (fun x => [x]) s = s).
  { clear. induction s as [|x s IH]; [reflexivity|]. cbn [flat_map app]. rewrite IH. reflexivity. }
  assert (E2 : encode_runes s = s).
  { clear Hsteps E1. induction Hs as [|x s Hx Hs IH]; [reflexivity|].
    unfold encode_runes in *. cbn [flat_map]. rewrite IH. rewrite encode_rune_1 by lia. reflexivity. }
  pose proof (unquote_units false (fun x => [x]) s [] Hsteps (term_nil false)) as H.
  rewrite app_nil_r, E1, E2 in H. rewrite H. reflexivity.
Qed.

(* ------------------------------------------------------------------------------------------------------------ *)
(* patterns                                                                                                       *)
(* ------------------------------------------------------------------------------------------------------------ *)

Lemma escape_stars_app : forall a b, escape_stars (a ++ b) = escape_stars a ++ escape_stars b.
Proof. intros a b. unfold escape_stars. apply flat_map_app. Qed.

Lemma escape_stars_id : forall l, Forall (fun c => c <> 42) l -> escape_stars l = l.
Proof.
  intros l H. induction H as [|c l Hc Hl IH]; [reflexivity|].
  unfold escape_stars in *. cbn [flat_map]. rewrite IH.
  destruct (Z.eqb_spec c 42) as [E|E]; [contradiction|reflexivity].
Qed.

Lemma escape_stars_flat_map : forall (g : Z -> list Z) rs,
  escape_stars (flat_map g rs) = flat_map (fun r => escape_stars (g r)) rs.
Proof.
  intros g rs. induction rs as [|r rs IH]; [reflexivity|].
  cbn [flat_map]. rewrite escape_stars_app, IH. reflexivity.
Qed.

Lemma strip_stars_cons : forall f c b comps,
  strip_stars (S f) (c :: b) comps = if c =? 42 then strip_stars f b (comps ++ [None]) else (c :: b, comps).
Proof.
  intros f c b comps. destruct (Z.eqb_spec c 42) as [->|N]; [reflexivity|].
  destruct c as [|p|p]; try reflexivity.
  do 6 (destruct p as [p|p|]; try reflexivity).
  exfalso. apply N. reflexivity.
Qed.

Definition no_star_head (b : list Z) : Prop := b = [] \/ exists c t, b = c :: t /\ c <> 42.

Lemma strip_stars_stop : forall n b comps, no_star_head b -> strip_stars n b comps = (b, comps).
Proof.
  intros n b comps [->|(c & t & -> & Hc)].
  - destruct n; reflexivity.
  - destruct n; [reflexivity|]. rewrite strip_stars_cons.
    destruct (Z.eqb_spec c 42); [contradiction|reflexivity].
Qed.

Definition star_or_end (rest : list Z) : Prop := rest = [] \/ exists t, rest = 42 :: t.

Lemma star_or_end_term : forall rest, star_or_end rest ->
  forall f acc, unquote_fuel (S f) rest true acc = Some (acc, rest).
Proof. intros rest [->|(t & ->)] f acc; [apply term_nil|apply term_star]. Qed.

Lemma runes_nonempty : forall s, s <> [] -> runes s <> [].
Proof.
  intros s H. destruct s as [|x s]; [contradiction|].
  unfold runes. cbn [length runes_of]. destruct (decode_rune (x :: s)) as [ch w]. discriminate.
Qed.

Section Pattern.
  Variable is_printable : Z -> bool.
  Variable is_gext : Z -> bool.

  Definition pu (r : Z) : list Z := escape_stars (escape_rune is_printable is_gext r true).
  Definition pesc (l : list Z) : list Z := escape_stars (escape_char_all is_printable is_gext l).
  Definition ptext (c : pcomp) : list Z := (if fst c then [42] else []) ++ pesc (snd c).

  Lemma pesc_flat : forall l, pesc l = flat_map pu (runes l).
  Proof. intros l. unfold pesc, escape_char_all. rewrite escape_stars_flat_map. reflexivity. Qed.

  Lemma quote_pattern_eq : forall p, quote_pattern is_printable is_gext p = [34] ++ flat_map ptext p ++ [34].
  Proof. reflexivity. Qed.

  Lemma u_escape_no_star : forall r, valid_rune r = true -> escape_stars (u_escape r) = u_escape r.
  Proof.
    intros r Hv. apply escape_stars_id. pose proof (valid_rune_range r Hv) as Hr.
    destruct (hex_lower_spec r ltac:(lia)) as (_ & Hf & _).
    unfold u_escape. cbn [app]. constructor; [lia|]. constructor; [lia|]. constructor; [lia|].
    apply Forall_app. split.
    - eapply Forall_impl; [|exact Hf]. intros c Hc. apply (lowhex_props c Hc).
    - constructor; [lia|constructor].
  Qed.

  (* a unit of pattern text: consumed by unquote in star mode, and never begins with a star *)
  Lemma step_pu : forall r, valid_rune r = true ->
    step_ok true (pu r) r /\ exists c t, pu r = c :: t /\ c <> 42.
  Proof.
    intros r Hv. unfold pu, escape_rune.
    assert (Hnamed : forall e, In (e, r) [(110, 10); (114, 13); (116, 9); (92, 92); (48, 0); (39, 39); (34, 34)] ->
              step_ok true (escape_stars [92; e]) r /\ exists c t, escape_stars [92; e] = c :: t /\ c <> 42).
    { intros e Hin.
      assert (He : escape_stars [92; e] = [92; e]).
      { apply escape_stars_id. cbn [In] in Hin.
        repeat (destruct Hin as [Hin|Hin]; [inversion Hin; subst; repeat constructor; lia|]). contradiction. }
      rewrite He. split; [apply step_named; exact Hin|]. exists 92, [e]. split; [reflexivity|lia]. }
    assert (Hu : step_ok true (escape_stars (u_escape r)) r /\ exists c t, escape_stars (u_escape r) = c :: t /\ c <> 42).
    { rewrite u_escape_no_star by exact Hv. split; [apply step_u; exact Hv|].
      unfold u_escape. cbn [app]. eexists _, _. split; [reflexivity|lia]. }
    destruct (Z.eqb_spec r 0) as [->|N0]; [apply Hnamed; cbn; tauto|].
    destruct (Z.eqb_spec r 9) as [->|N9]; [apply Hnamed; cbn; tauto|].
    destruct (Z.eqb_spec r 13) as [->|N13]; [apply Hnamed; cbn; tauto|].
    destruct (Z.eqb_spec r 10) as [->|N10]; [apply Hnamed; cbn; tauto|].
    destruct (Z.eqb_spec r 92) as [->|N92]; [apply Hnamed; cbn; tauto|].
    destruct (Z.eqb_spec r 34) as [->|N34]; [apply Hnamed; cbn; tauto|].
    destruct (Z.eqb_spec r 39) as [->|N39]; [apply Hnamed; cbn; tauto|].
    destruct (true && is_gext r); [exact Hu|].
    destruct (is_printable r); [|exact Hu].
    destruct (Z.eqb_spec r 42) as [->|N42].
    { rewrite encode_rune_1 by lia. change (escape_stars [42]) with [92; 42].
      split; [apply step_bs_star|]. exists 92, [42]. split; [reflexivity|lia]. }
    assert (Hns : Forall (fun c => c <> 42) (encode_rune r)).
    { destruct (encode_rune_bytes r Hv) as [[_ E]|[_ Hb]].
      - rewrite E. constructor; [exact N42|constructor].
      - eapply Forall_impl; [|exact Hb]. intros c Hc. cbv beta in Hc. lia. }
    rewrite escape_stars_id by exact Hns.
    split; [apply step_raw; [exact Hv|exact N92|right; exact N42]|].
    destruct (encode_rune r) as [|c t] eqn:E.
    { destruct (encode_rune_length r Hv) as [Hl _]. rewrite E in Hl. cbn in Hl. lia. }
    exists c, t. split; [reflexivity|]. inversion Hns; assumption.
  Qed.

  Definition lit_ok (l : list Z) : Prop := nonneg l /\ valid_utf8 l = true.

  Lemma unquote_pesc : forall l rest, lit_ok l -> star_or_end rest -> unquote (pesc l ++ rest) true = Some (l, rest).
  Proof.
    intros l rest [Hnn Hv] Hrest. rewrite pesc_flat.
    rewrite (unquote_units true pu (runes l) rest).
    - rewrite runes_encode by assumption. reflexivity.
    - pose proof (runes_valid l Hnn Hv) as Hrv. eapply Forall_impl; [|exact Hrv].
      intros r Hr. cbv beta in Hr. apply (step_pu r Hr).
    - apply star_or_end_term. exact Hrest.
  Qed.

  Lemma pesc_nil : pesc [] = [].
  Proof. reflexivity. Qed.

  Lemma pesc_head : forall l, lit_ok l -> l <> [] -> exists c t, pesc l = c :: t /\ c <> 42.
  Proof.
    intros l [Hnn Hv] Hne. rewrite pesc_flat.
    pose proof (runes_valid l Hnn Hv) as Hrv. pose proof (runes_nonempty l Hne) as Hrn.
    destruct (runes l) as [|r rs]; [contradiction|].
    inversion Hrv as [|r' rs' Hr Hrs]; subst.
    destruct (step_pu r Hr) as [_ (c & t & E & Hc)].
    cbn [flat_map]. rewrite E. exists c, (t ++ flat_map pu rs). split; [reflexivity|exact Hc].
  Qed.

  Lemma body_head : forall l rest, lit_ok l -> (l <> [] \/ rest = []) -> no_star_head (pesc l ++ rest).
  Proof.
    intros l rest Hl H. destruct l as [|x l].
    - destruct H as [H| ->]; [contradiction|]. left. reflexivity.
    - destruct (pesc_head (x :: l) Hl ltac:(discriminate)) as (c & t & E & Hc).
      right. exists c, (t ++ rest). rewrite E. split; [reflexivity|exact Hc].
  Qed.

  (* one iteration of the ParsePattern loop *)
  Lemma pp_step : forall f w l rest comps, lit_ok l ->
    (w = true \/ l <> []) -> (l <> [] \/ rest = []) -> star_or_end rest ->
    parse_pattern_fuel (S f) ((if w then [42] else []) ++ pesc l ++ rest) comps
    = parse_pattern_fuel f rest (comps ++ (if w then [None] else []) ++ [Some l]).
  Proof.
    intros f w l rest comps Hl Hw Hlr Hrest.
    pose proof (body_head l rest Hl Hlr) as Hhead.
    destruct w.
    - cbn [app parse_pattern_fuel length].
      rewrite strip_stars_cons. change (42 =? 42) with true. cbv iota.
      rewrite strip_stars_stop by exact Hhead.
      rewrite unquote_pesc by assumption. rewrite <- app_assoc. reflexivity.
    - destruct Hw as [Hw|Hw]; [discriminate|].
      destruct (pesc_head l Hl Hw) as (c & t & E & Hc).
      cbn [app]. pose proof (unquote_pesc l rest Hl Hrest) as Hu.
      rewrite E in Hu, Hhead |- *. cbn [app] in Hu, Hhead |- *.
      cbn [parse_pattern_fuel]. rewrite strip_stars_stop by exact Hhead.
      rewrite Hu. reflexivity.
  Qed.

  Lemma pp_step_star : forall f l rest comps, lit_ok l -> (l <> [] \/ rest = []) -> star_or_end rest ->
    parse_pattern_fuel (S f) ([42] ++ pesc l ++ rest) comps = parse_pattern_fuel f rest (comps ++ [None] ++ [Some l]).
  Proof. intros f l rest comps Hl Hlr Hrest. apply (pp_step f true l rest comps Hl); [left; reflexivity|exact Hlr|exact Hrest]. Qed.

  Lemma pp_step_nostar : forall f l rest comps, lit_ok l -> l <> [] -> star_or_end rest ->
    parse_pattern_fuel (S f) (pesc l ++ rest) comps = parse_pattern_fuel f rest (comps ++ [Some l]).
  Proof.
    intros f l rest comps Hl Hne Hrest.
    apply (pp_step f false l rest comps Hl); [right; exact Hne|left; exact Hne|exact Hrest].
  Qed.

  Definition raw (p : pattern) : list (option str) :=
    flat_map (fun c : pcomp => (if fst c then [None] else []) ++ [Some (snd c)]) p.

  Definition lits_nonneg (p : pattern) : Prop := Forall (fun c : pcomp => nonneg (snd c)) p.

  Lemma flat_ptext_cons : forall w l r,
    flat_map ptext ((w, l) :: r) = (if w then [42] else []) ++ pesc l ++ flat_map ptext r.
  Proof. intros w l r. cbn [flat_map]. unfold ptext at 1. cbn [fst snd]. rewrite <- app_assoc. reflexivity. Qed.

  Lemma raw_cons : forall w l r, raw ((w, l) :: r) = (if w then [None] else []) ++ [Some l] ++ raw r.
  Proof. intros w l r. unfold raw. cbn [flat_map fst snd]. rewrite <- app_assoc. reflexivity. Qed.

  Lemma tail_text_shape : forall r, pat_tail_ok r = true -> star_or_end (flat_map ptext r).
  Proof.
    intros r H. destruct r as [|[w l] r]; [left; reflexivity|].
    cbn [pat_tail_ok] in H. destruct w; [|discriminate].
    right. rewrite flat_ptext_cons. cbn [app]. eexists. reflexivity.
  Qed.

  Lemma tail_text_length : forall r, pat_tail_ok r = true -> (length r <= length (flat_map ptext r))%nat.
  Proof.
    induction r as [|[w l] r IH]; intros H; [cbn; lia|].
    cbn [pat_tail_ok] in H. destruct w; [|discriminate].
    cbn [andb] in H. apply andb_true_iff in H. destruct H as [_ H].
    rewrite flat_ptext_cons. cbn [app length]. specialize (IH H). rewrite !app_length. lia.
  Qed.

  Lemma pp_loop : forall q f comps, pat_tail_ok q = true -> lits_nonneg q -> (length q <= f)%nat ->
    parse_pattern_fuel (S f) (flat_map ptext q) comps = Some (comps ++ raw q).
  Proof.
    induction q as [|[w l] r IH]; intros f comps Hq Hnn Hlen.
    - cbn. rewrite app_nil_r. reflexivity.
    - cbn [length] in Hlen. destruct f as [|f]; [lia|].
      inversion Hnn as [|c' r' Hnl Hnr]; subst. cbn [snd] in Hnl.
      cbn [pat_tail_ok] in Hq. destruct w; [|discriminate]. cbn [andb] in Hq.
      apply andb_true_iff in Hq. destruct Hq as [Hq Htail].
      apply andb_true_iff in Hq. destruct Hq as [Hstr Hshape].
      rewrite flat_ptext_cons.
      rewrite pp_step_star.
      + rewrite IH by (try assumption; lia). rewrite raw_cons. rewrite <- !app_assoc. reflexivity.
      + split; assumption.
      + destruct l as [|x l]; [|left; discriminate]. destruct r as [|c r]; [right; reflexivity|discriminate].
      + apply tail_text_shape. exact Htail.
  Qed.

  (* NewPattern is the identity on the raw component list of a well-formed pattern *)
  Lemma compile_rev_tail : forall q acc, pat_tail_ok q = true ->
    (acc = [] \/ exists w l acc', acc = (w, l) :: acc' /\ (negb w || negb (match l with [] => true | _ => false end)) = true) ->
    compile_rev (raw q) acc = rev q ++ acc.
  Proof.
    induction q as [|[w l] r IH]; intros acc Hq Hacc; [reflexivity|].
    cbn [pat_tail_ok] in Hq. destruct w; [|discriminate]. cbn [andb] in Hq.
    apply andb_true_iff in Hq. destruct Hq as [Hq Htail].
    apply andb_true_iff in Hq. destruct Hq as [_ Hshape].
    rewrite raw_cons. cbn [app].
    assert (E : compile_rev (None :: Some l :: raw r) acc = compile_rev (raw r) ((true, l) :: acc)).
    { destruct Hacc as [->|(w' & l' & acc' & -> & Hc)].
      - reflexivity.
      - cbn [compile_rev]. rewrite Hc. reflexivity. }
    rewrite E. cbn [rev]. rewrite <- app_assoc. cbn [app].
    destruct l as [|x l].
    - destruct r as [|c r]; [reflexivity|discriminate].
    - apply IH; [exact Htail|]. right. exists true, (x :: l), acc. split; reflexivity.
  Qed.

  Lemma compile_raw : forall p, pat_ok p = true -> compile_pattern (raw p) = p.
  Proof.
    intros p Hp. destruct p as [|[w l] r]; [discriminate|].
    cbn [pat_ok] in Hp. apply andb_true_iff in Hp. destruct Hp as [Hp Htail].
    apply andb_true_iff in Hp. destruct Hp as [Hstr Hshape].
    unfold compile_pattern. destruct w.
    - rewrite compile_rev_tail.
      + rewrite app_nil_r. apply rev_involutive.
      + cbn [pat_tail_ok andb]. rewrite Hstr, Htail.
        destruct l as [|x l]; [destruct r as [|c r]; [reflexivity|discriminate]|reflexivity].
      + left. reflexivity.
    - rewrite raw_cons. cbn [app compile_rev].
      rewrite compile_rev_tail.
      + rewrite <- (rev_involutive [(false, l)]). rewrite <- rev_app_distr. rewrite rev_involutive. reflexivity.
      + exact Htail.
      + right. exists false, l, []. split; reflexivity.
  Qed.

  Theorem parse_pattern_quote : forall p, lits_nonneg p -> pat_ok p = true ->
    parse_pattern (trim_quotes (quote_pattern is_printable is_gext p)) = Some p.
  Proof.
    intros p Hnn Hp. rewrite quote_pattern_eq, trim_quotes_quoted.
    pose proof (compile_raw p Hp) as Hcomp.
    destruct p as [|[w l] r]; [discriminate|].
    cbn [pat_ok] in Hp. apply andb_true_iff in Hp. destruct Hp as [Hp Htail].
    apply andb_true_iff in Hp. destruct Hp as [Hstr Hshape].
    inversion Hnn as [|c' r' Hnl Hnr]; subst. cbn [snd] in Hnl.
    assert (Hlit : lit_ok l) by (split; assumption).
    assert (Hraw : exists c cs, raw ((w, l) :: r) = c :: cs).
    { rewrite raw_cons. destruct w; cbn [app]; eexists _, _; reflexivity. }
    unfold parse_pattern.
    match goal with |- context [parse_pattern_fuel ?a ?b ?c] =>
      assert (Hgoal : parse_pattern_fuel a b c = Some (raw ((w, l) :: r)) \/ ((w, l) :: r = [(false, [])])) end.
    { destruct l as [|x l].
      - destruct r as [|c r]; [|destruct w; discriminate].
        destruct w; [|right; reflexivity]. left.
        apply (pp_loop [(true, [])] _ []); [reflexivity|exact Hnn|cbn; lia].
      - left. destruct w.
        + apply (pp_loop ((true, x :: l) :: r) _ []); [|exact Hnn|].
          * cbn [pat_tail_ok andb]. unfold str_ok in *. rewrite Hstr, Htail. reflexivity.
          * cbn [length flat_map]. rewrite app_length.
            pose proof (tail_text_length r Htail). lia.
        + rewrite flat_ptext_cons. cbn [app].
          rewrite pp_step_nostar.
          * destruct (pesc_head (x :: l) Hlit ltac:(discriminate)) as (c & t & E & _).
            rewrite E. cbn [app length].
            rewrite pp_loop; [reflexivity|exact Htail|exact Hnr|].
            rewrite app_length. pose proof (tail_text_length r Htail). lia.
          * exact Hlit.
          * discriminate.
          * apply tail_text_shape. exact Htail. }
    destruct Hgoal as [Hgoal|Hsingle].
    - rewrite Hgoal. destruct Hraw as (c & cs & Hraw). rewrite Hraw. cbv iota beta. rewrite <- Hraw. f_equal. exact Hcomp.
    - inversion Hsingle; subst. reflexivity.
  Qed.
End Pattern.

(* ------------------------------------------------------------------------------------------------------------ *)
(* corrected well-formedness predicates and corollaries                                                           *)
(* ------------------------------------------------------------------------------------------------------------ *)

(* str_ok / pat_ok of Lang/RoundTrip.v plus: every byte is non-negative *)
Definition str_ok' (s : str) : Prop := nonneg s /\ str_ok s = true.
Definition pat_ok' (p : pattern) : Prop := lits_nonneg p /\ pat_ok p = true.

Lemma bytes_nonneg : forall s, Forall (fun b => 0 <= b < 256) s -> nonneg s.
Proof. intros s H. unfold nonneg. eapply Forall_impl; [|exact H]. intros b Hb. cbv beta in Hb. lia. Qed.

Corollary string_value_quote' : forall is_printable is_gext s, str_ok' s ->
  string_value (quote_string is_printable is_gext s) = Some s.
Proof. intros ip ig s [Hnn Hv]. apply string_value_quote; assumption. Qed.

Corollary parse_pattern_quote' : forall is_printable is_gext p, pat_ok' p ->
  parse_pattern (trim_quotes (quote_pattern is_printable is_gext p)) = Some p.
Proof. intros ip ig p [Hnn Hp]. apply parse_pattern_quote; assumption. Qed.

(* ------------------------------------------------------------------------------------------------------------ *)
(* counterexamples: why `nonneg` is needed (bytes are unbounded Z in the model)                                   *)
(* ------------------------------------------------------------------------------------------------------------ *)

Example cex_runes_encode : valid_utf8 [-5] = true /\ encode_runes (runes [-5]) = [239; 191; 189].
Proof. vm_compute. split; reflexivity. Qed.

Example cex_runes_valid : valid_utf8 [-5] = true /\ runes [-5] = [-5] /\ valid_rune (-5) = false.
Proof. vm_compute. repeat split; reflexivity. Qed.

Example cex_string_value_quote_printable :
  valid_utf8 [-5] = true /\ string_value (quote_string (fun _ => true) (fun _ => false) [-5]) = Some [239; 191; 189].
Proof. vm_compute. split; reflexivity. Qed.

Example cex_string_value_quote_unprintable :
  valid_utf8 [-5] = true /\ string_value (quote_string (fun _ => false) (fun _ => false) [-5]) = Some [11].
Proof. vm_compute. split; reflexivity. Qed.

Example cex_parse_pattern_quote :
  pat_ok [(false, [-5])] = true /\
  parse_pattern (trim_quotes (quote_pattern (fun _ => false) (fun _ => false) [(false, [-5])])) = Some [(false, [11])].
Proof. vm_compute. split; reflexivity. Qed.

Print Assumptions decode_encode_rune.
Print Assumptions runes_encode.
Print Assumptions runes_valid.
Print Assumptions next_rune_encode.
Print Assumptions unquote_escape_runes.
Print Assumptions string_value_quote.
Print Assumptions string_value_plain.
Print Assumptions parse_pattern_quote.
Print Assumptions string_value_quote'.
Print Assumptions parse_pattern_quote'.
