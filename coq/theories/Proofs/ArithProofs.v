(* The regenerated int64 kernels detect overflow exactly. *)
From Coq Require Import ZArith Lia Bool.
From Cedar Require Import Base.Int64 Generated.Tables Generated.Kernels.
Local Open Scope Z_scope.

Lemma wrap64_cases z : - two64 <= z < two64 ->
  wrap64 z = if z <? min64 then z + two64 else if z >? max64 then z - two64 else z.
Proof.
  intros H. unfold wrap64, min64, max64 in *.
  destruct (z <? - two63) eqn:E1; [|destruct (z >? two63 - 1) eqn:E2].
  - apply Z.ltb_lt in E1.
    replace (z + two63) with ((z + two63 + two64) + (-1) * two64) by lia.
    rewrite Z.mod_add by discriminate. rewrite Z.mod_small; unfold two64, two63 in *; lia.
  - apply Z.ltb_ge in E1. apply Z.gtb_lt in E2.
    replace (z + two63) with ((z + two63 - two64) + 1 * two64) by lia.
    rewrite Z.mod_add by discriminate. rewrite Z.mod_small; unfold two64, two63 in *; lia.
  - apply Z.ltb_ge in E1. rewrite Z.gtb_ltb in E2. apply Z.ltb_ge in E2.
    rewrite Z.mod_small; unfold two64, two63 in *; lia.
Qed.

Ltac unf := unfold in64, in64b, min64, max64, two64, two63 in *.

(* decide every x <? y in the goal by lia *)
Ltac decide_ltb :=
  rewrite ?Z.gtb_ltb;
  repeat match goal with
  | |- context [?x <? ?y] =>
      first [ replace (x <? y) with true by (symmetry; apply Z.ltb_lt; unf; lia)
            | replace (x <? y) with false by (symmetry; apply Z.ltb_ge; unf; lia) ]
  end.

Theorem checked_add_spec a b : in64 a -> in64 b ->
  checkedAddI64 a b = (wrap64 (a + b), in64b (a + b)).
Proof.
  intros Ha Hb. unfold checkedAddI64.
  assert (Hr : - two64 <= a + b < two64) by (unf; lia).
  rewrite (wrap64_cases _ Hr).
  destruct (a + b <? min64) eqn:E1; [|destruct (a + b >? max64) eqn:E2];
    rewrite ?Z.gtb_ltb in *; rewrite ?Z.ltb_lt, ?Z.ltb_ge in *.
  - replace (in64b (a + b)) with false by (symmetry; apply in64b_false; unf; lia).
    decide_ltb. reflexivity.
  - replace (in64b (a + b)) with false by (symmetry; apply in64b_false; unf; lia).
    decide_ltb. reflexivity.
  - replace (in64b (a + b)) with true by (symmetry; apply in64b_spec; unf; lia).
    destruct (Z_lt_le_dec 0 b); decide_ltb; reflexivity.
Qed.

Theorem checked_sub_spec a b : in64 a -> in64 b ->
  checkedSubI64 a b = (wrap64 (a - b), in64b (a - b)).
Proof.
  intros Ha Hb. unfold checkedSubI64.
  assert (Hr : - two64 <= a - b < two64) by (unf; lia).
  rewrite (wrap64_cases _ Hr).
  destruct (a - b <? min64) eqn:E1; [|destruct (a - b >? max64) eqn:E2];
    rewrite ?Z.gtb_ltb in *; rewrite ?Z.ltb_lt, ?Z.ltb_ge in *.
  - replace (in64b (a - b)) with false by (symmetry; apply in64b_false; unf; lia).
    decide_ltb. reflexivity.
  - replace (in64b (a - b)) with false by (symmetry; apply in64b_false; unf; lia).
    decide_ltb. reflexivity.
  - replace (in64b (a - b)) with true by (symmetry; apply in64b_spec; unf; lia).
    destruct (Z_lt_le_dec b 0); decide_ltb; reflexivity.
Qed.

Theorem checked_neg_spec a : in64 a ->
  checkedNegI64 a = (if in64b (- a) then wrap64 (- a) else 0, in64b (- a)).
Proof.
  intros Ha. unfold checkedNegI64.
  destruct (a =? -9223372036854775808) eqn:E.
  - apply Z.eqb_eq in E. subst. reflexivity.
  - apply Z.eqb_neq in E.
    replace (in64b (- a)) with true by (symmetry; apply in64b_spec; unf; lia). reflexivity.
Qed.

(* Multiplication: the sign test plus the division test are together exact. *)
Theorem checked_mul_spec a b : in64 a -> in64 b ->
  snd (checkedMulI64 a b) = in64b (a * b) /\
  (in64b (a * b) = true -> fst (checkedMulI64 a b) = a * b).
Proof.
  intros Ha Hb. unfold checkedMulI64.
  destruct (a =? 0) eqn:Ea0; [apply Z.eqb_eq in Ea0; subst; cbn; split; [reflexivity|intros; lia]|].
  destruct (b =? 0) eqn:Eb0; [apply Z.eqb_eq in Eb0; subst; cbn; rewrite Z.mul_0_r; split; [reflexivity|reflexivity]|].
  apply Z.eqb_neq in Ea0, Eb0. cbn [orb].
  set (r := wrap64 (a * b)).
  destruct (in64b (a * b)) eqn:Ein.
  - (* in range: result is exact, both tests pass *)
    apply in64b_spec in Ein. assert (Hr : r = a * b) by (apply wrap64_id; auto).
    rewrite Hr.
    assert (Hs : Bool.eqb (a * b <? 0) (negb (Bool.eqb (a <? 0) (b <? 0))) = true).
    { destruct (a <? 0) eqn:E1; destruct (b <? 0) eqn:E2; rewrite ?Z.ltb_lt, ?Z.ltb_ge in *; cbn;
        [replace (a * b <? 0) with false by (symmetry; apply Z.ltb_ge; nia)
        |replace (a * b <? 0) with true by (symmetry; apply Z.ltb_lt; nia)
        |replace (a * b <? 0) with true by (symmetry; apply Z.ltb_lt; nia)
        |replace (a * b <? 0) with false by (symmetry; apply Z.ltb_ge; nia)]; reflexivity. }
    rewrite Hs. cbn [negb].
    assert (Hq : goquot (a * b) a = b).
    { unfold goquot. rewrite Z.mul_comm. rewrite Z.quot_mul by auto. apply wrap64_id; auto. }
    rewrite Hq, Z.eqb_refl. cbn. split; auto.
  - (* out of range: one of the tests fails *)
    split; [|discriminate].
    apply in64b_false in Ein.
    destruct (negb (Bool.eqb (r <? 0) (negb (Bool.eqb (a <? 0) (b <? 0))))) eqn:Es; [reflexivity|].
    destruct (negb (goquot r a =? b)) eqn:Eq; [reflexivity|]. exfalso.
    apply negb_false_iff in Es, Eq. apply Z.eqb_eq in Eq. apply eqb_prop in Es.
    (* r has the sign of a*b and r quot a = b, with r = a*b + k*2^64, k <> 0 *)
    destruct (wrap64_eq (a * b)) as [k Hk]. fold r in Hk.
    pose proof (wrap64_in (a * b)) as Hrin. fold r in Hrin.
    assert (k <> 0) by (intros ->; apply Ein; rewrite Z.mul_0_l, Z.add_0_r in Hk; rewrite <- Hk; auto).
    unfold goquot in Eq.
    (* r / a, as a truncated quotient, is in range unless r = min64 and a = -1 *)
    destruct (Z.eq_dec a (-1)) as [->|Ham1].
    { (* a = -1: a*b = -b is out of range only for b = min64; then r = min64, sign test fails *)
      assert (Hb' : b = min64) by (unf; lia). subst r. rewrite Hb' in Es.
      vm_compute in Es. discriminate. }
    assert (Hqin : in64 (Z.quot r a)).
    { pose proof (Z.quot_rem r a Ea0). pose proof (Z.rem_bound_abs r a Ea0).
      unf. destruct (Z_lt_le_dec a 0); destruct (Z_lt_le_dec r 0); nia. }
    rewrite wrap64_id in Eq by auto.
    pose proof (Z.quot_rem r a Ea0) as Hqr. rewrite Eq in Hqr.
    pose proof (Z.rem_bound_abs r a Ea0) as Hrem.
    (* r = a*b + rem, |rem| < |a|; also r = a*b + k*2^64 ; hence rem = k*2^64, impossible *)
    assert (Z.rem r a = k * two64) by lia.
    unf. nia.
Qed.

Theorem checked_mul_result a b : in64 a -> in64 b ->
  checkedMulI64 a b = (fst (checkedMulI64 a b), in64b (a * b)).
Proof.
  intros Ha Hb. destruct (checked_mul_spec a b Ha Hb) as [H _].
  destruct (checkedMulI64 a b); cbn in *; congruence.
Qed.

(* Duration unit conversions: truncated division, never overflowing *)
Theorem duration_to_days d : in64 d -> Duration_ToDays d = Z.quot d 86400000.
Proof.
  intros H. unfold Duration_ToDays, goquot. change MillisPerDay with 86400000.
  apply wrap64_id. pose proof (Z.quot_rem d 86400000 ltac:(discriminate)).
  pose proof (Z.rem_bound_abs d 86400000 ltac:(discriminate)). unf. lia.
Qed.
