(* The text form of an entity uid reads back: EntityUID.UnmarshalCedar (MarshalCedar u) = u   (Impl/UidText.v).
   - index_of (strings.Index) facts: a match is a prefix match at that offset, nothing matches before it, and
     for the concrete separator colon colon double-quote a type without the separator followed by the separator
     has its first match exactly at the end of the type (also for types ending in one or two colons);
   - parse_print_uid: the round trip, for every choice of the Unicode tables;
   - parse_uid_shape: what the parser accepts;
   - the hypothesis on the type cannot be dropped (vm_compute witness), and concrete examples. *)
From Coq Require Import ZArith List Bool Lia Arith.
Import ListNotations.
From Cedar Require Import Base.Utf8 Base.Utf8Enc Lang.Value Impl.Quote Impl.UidText Proofs.QuoteProofs.
Local Open Scope Z_scope.

(* ------------------------------------------------------------------------------------------------------------ *)
(* is_prefix / index_of                                                                                           *)
(* ------------------------------------------------------------------------------------------------------------ *)

Lemma skipn_add : forall (A : Type) (n m : nat) (l : list A), skipn (n + m) l = skipn m (skipn n l).
Proof.
  intros A n. induction n as [|n IH]; intros m l; [reflexivity|].
  destruct l as [|x l]; [cbn [Nat.add skipn]; rewrite skipn_nil; reflexivity|].
  cbn [Nat.add skipn]. apply IH.
Qed.

Lemma is_prefix_app : forall p rest, is_prefix p (p ++ rest) = true.
Proof.
  intros p rest. induction p as [|x p IH]; [reflexivity|].
  cbn [app is_prefix]. rewrite Z.eqb_refl, IH. reflexivity.
Qed.

Lemma is_prefix_split : forall p s, is_prefix p s = true -> s = p ++ skipn (length p) s.
Proof.
  intros p. induction p as [|x p IH]; intros s H; [reflexivity|].
  destruct s as [|y s]; [discriminate H|].
  cbn [is_prefix] in H. apply andb_true_iff in H. destruct H as [Hxy Hp].
  apply Z.eqb_eq in Hxy. subst y. cbn [length skipn app]. f_equal. apply IH. exact Hp.
Qed.

Lemma is_prefix_firstn : forall p n s, is_prefix p (firstn n s) = true -> is_prefix p s = true.
Proof.
  intros p. induction p as [|x p IH]; intros n s H; [reflexivity|].
  destruct n as [|n]; [discriminate H|].
  destruct s as [|y s]; [discriminate H|].
  cbn [firstn is_prefix] in *. apply andb_true_iff in H. destruct H as [Hxy Hp].
  rewrite Hxy. cbn [andb]. apply (IH n). exact Hp.
Qed.

Lemma index_of_unfold : forall p s,
  index_of p s = if is_prefix p s then Some O else
                 match s with [] => None | _ :: s' => option_map S (index_of p s') end.
Proof. intros p s. destruct s; reflexivity. Qed.

Lemma index_of_nil_s : forall x p, index_of (x :: p) [] = None.
Proof. reflexivity. Qed.

(* a match at n: the bytes before, the pattern, the bytes after *)
Lemma index_of_split : forall p s n, index_of p s = Some n ->
  s = firstn n s ++ p ++ skipn (n + length p) s.
Proof.
  intros p s. induction s as [|y s IH]; intros n H; rewrite index_of_unfold in H.
  - destruct (is_prefix p []) eqn:E; [|discriminate H]. inversion H; subst n.
    cbn [firstn app Nat.add]. apply is_prefix_split. exact E.
  - destruct (is_prefix p (y :: s)) eqn:E.
    + inversion H; subst n. cbn [firstn app Nat.add]. apply is_prefix_split. exact E.
    + destruct (index_of p s) as [m|] eqn:Em; [|discriminate H].
      cbn [option_map] in H. inversion H; subst n.
      cbn [firstn Nat.add skipn app]. f_equal. apply IH. reflexivity.
Qed.

(* nothing matches before the first match *)
Lemma index_of_firstn_none : forall x p s n, index_of (x :: p) s = Some n -> index_of (x :: p) (firstn n s) = None.
Proof.
  intros x p s. induction s as [|y s IH]; intros n H.
  - discriminate H.
  - rewrite index_of_unfold in H. destruct (is_prefix (x :: p) (y :: s)) eqn:E.
    + inversion H; subst n. reflexivity.
    + destruct (index_of (x :: p) s) as [m|] eqn:Em; [|discriminate H].
      cbn [option_map] in H. inversion H; subst n.
      cbn [firstn]. rewrite index_of_unfold.
      destruct (is_prefix (x :: p) (y :: firstn m s)) eqn:E'.
      * apply (is_prefix_firstn (x :: p) (S m) (y :: s)) in E'. congruence.
      * rewrite (IH m eq_refl). reflexivity.
Qed.

Lemma index_of_none_cons : forall p y s, index_of p (y :: s) = None ->
  is_prefix p (y :: s) = false /\ index_of p s = None.
Proof.
  intros p y s H. rewrite index_of_unfold in H.
  destruct (is_prefix p (y :: s)); [discriminate H|]. split; [reflexivity|].
  destruct (index_of p s); [discriminate H|reflexivity].
Qed.

(* the straddling cases: a type ending in one or two colons does not create an earlier match *)
Lemma uid_sep_no_straddle : forall t rest, is_prefix uid_sep t = false -> t <> [] ->
  is_prefix uid_sep (t ++ uid_sep ++ rest) = false.
Proof.
  intros t rest H Hne. unfold uid_sep in *.
  destruct t as [|a [|b [|c t]]]; [contradiction| | |].
  - cbn [app is_prefix]. destruct (58 =? a); reflexivity.
  - cbn [app is_prefix]. destruct (58 =? a); [|reflexivity]. destruct (58 =? b); reflexivity.
  - cbn [app is_prefix] in *. exact H.
Qed.

Lemma index_of_app : forall t rest, index_of uid_sep t = None ->
  index_of uid_sep (t ++ uid_sep ++ rest) = Some (length t).
Proof.
  intros t rest. induction t as [|y t IH]; intros H.
  - cbn [app length]. rewrite index_of_unfold. rewrite is_prefix_app. reflexivity.
  - apply index_of_none_cons in H. destruct H as [Hp Hi].
    rewrite index_of_unfold.
    rewrite (uid_sep_no_straddle (y :: t) rest Hp) by discriminate.
    cbn [app]. rewrite (IH Hi). reflexivity.
Qed.

(* ------------------------------------------------------------------------------------------------------------ *)
(* the round trip                                                                                                 *)
(* ------------------------------------------------------------------------------------------------------------ *)

(* what parse_uid does on   type :: QUOTE body QUOTE   once the separator is found at the end of the type *)
Lemma parse_uid_at : forall t body, t <> [] -> index_of uid_sep t = None ->
  parse_uid (t ++ [58; 58] ++ [34] ++ body ++ [34]) =
  match unquote body false with Some (id, _) => Some (t, id) | None => None end.
Proof.
  intros t body Hne Hi. unfold parse_uid.
  change (t ++ [58; 58] ++ [34] ++ body ++ [34]) with (t ++ uid_sep ++ (body ++ [34])).
  rewrite (index_of_app t (body ++ [34]) Hi).
  destruct (length t) as [|n] eqn:El.
  { apply length_zero_iff_nil in El. contradiction. }
  rewrite <- El.
  rewrite firstn_app, Nat.sub_diag, firstn_all. cbn [firstn]. rewrite app_nil_r.
  replace (skipn (length t + 2) (t ++ uid_sep ++ body ++ [34])) with (34 :: body ++ [34]).
  2:{ rewrite skipn_add. rewrite skipn_app, Nat.sub_diag, skipn_all. reflexivity. }
  rewrite rev_unit. rewrite rev_involutive. reflexivity.
Qed.

Section RoundTrip.
  Variable is_printable : Z -> bool.
  Variable is_gext : Z -> bool.

  Theorem parse_print_uid : forall u : uid, fst u <> [] -> index_of uid_sep (fst u) = None ->
    nonneg (snd u) -> valid_utf8 (snd u) = true ->
    parse_uid (print_uid is_printable is_gext u) = Some u.
  Proof.
    intros [t i] Hne Hi Hnn Hv. cbn [fst snd] in *.
    unfold print_uid, quote_string. cbn [fst snd].
    rewrite (parse_uid_at t (escape_string is_printable is_gext i) Hne Hi).
    unfold escape_string. rewrite unquote_escape_runes by (apply runes_valid; assumption).
    rewrite runes_encode by assumption. reflexivity.
  Qed.
End RoundTrip.

(* ------------------------------------------------------------------------------------------------------------ *)
(* the shape of what is accepted                                                                                  *)
(* ------------------------------------------------------------------------------------------------------------ *)

Lemma rev_eq_cons : forall (A : Type) (l : list A) x m, rev l = x :: m -> l = rev m ++ [x].
Proof.
  intros A l x m H. rewrite <- (rev_involutive l). rewrite H. reflexivity.
Qed.

Theorem parse_uid_shape : forall s t i, parse_uid s = Some (t, i) ->
  t <> [] /\ index_of uid_sep t = None /\
  exists q, s = t ++ [58; 58] ++ [34] ++ q ++ [34] /\ exists r, unquote q false = Some (i, r).
Proof.
  intros s t i H. unfold parse_uid in H.
  destruct (index_of uid_sep s) as [[|n]|] eqn:Ei; [discriminate H| |discriminate H].
  pose proof (index_of_split uid_sep s (S n) Ei) as Hs.
  pose proof (index_of_firstn_none 58 [58; 34] s (S n) Ei) as Hnone.
  fold uid_sep in Hnone.
  set (typ := firstn (S n) s) in *.
  set (tail := skipn (S n + length uid_sep) s) in *.
  assert (Hq : skipn (S n + 2) s = 34 :: tail).
  { assert (Hlen : length typ = S n).
    { unfold typ. apply firstn_length_le.
      destruct (le_lt_dec (S n) (length s)) as [Hle|Hlt]; [exact Hle|].
      exfalso. unfold typ in Hs. rewrite (firstn_all2 s) in Hs by lia.
      apply (f_equal (@length Z)) in Hs. rewrite app_length in Hs. cbn [uid_sep length app] in Hs. lia. }
    rewrite Hs at 1. rewrite <- Hlen. rewrite skipn_add.
    rewrite skipn_app, Nat.sub_diag, skipn_all. reflexivity. }
  rewrite Hq in H.
  destruct (rev tail) as [|c mid_rev] eqn:Er; [discriminate H|].
  assert (Hc : c = 34 /\ match unquote (rev mid_rev) false with Some (id, _) => Some (typ, id) | None => None end = Some (t, i)).
  { destruct c as [|c|c]; try discriminate H.
    do 6 (destruct c as [c|c|]; try discriminate H). split; [reflexivity|exact H]. }
  destruct Hc as [-> H'].
  apply rev_eq_cons in Er.
  destruct (unquote (rev mid_rev) false) as [[id r]|] eqn:Eu; [|discriminate H'].
  inversion H'; subst t i.
  split.
  { unfold typ. destruct s as [|y s']; [discriminate Ei|]. cbn [firstn]. discriminate. }
  split; [exact Hnone|].
  exists (rev mid_rev). split.
  - rewrite Hs at 1. rewrite Er. reflexivity.
  - exists r. exact Eu.
Qed.

(* the statement as asked *)
Theorem parse_uid_type_nonempty : forall s t i, parse_uid s = Some (t, i) ->
  t <> [] /\ index_of uid_sep t = None /\ exists q, s = t ++ [58; 58] ++ [34] ++ q ++ [34].
Proof.
  intros s t i H. destruct (parse_uid_shape s t i H) as [H1 [H2 [q [Hq _]]]].
  split; [exact H1|]. split; [exact H2|]. exists q. exact Hq.
Qed.

(* the parser and the round trip together: a string is accepted with result (t, i) exactly when it has this shape *)
Theorem parse_uid_iff : forall s t i,
  parse_uid s = Some (t, i) <->
  (t <> [] /\ index_of uid_sep t = None /\
   exists q, s = t ++ [58; 58] ++ [34] ++ q ++ [34] /\ exists r, unquote q false = Some (i, r)).
Proof.
  intros s t i. split; [apply parse_uid_shape|].
  intros [Hne [Hi [q [-> [r Hu]]]]]. rewrite (parse_uid_at t q Hne Hi). rewrite Hu. reflexivity.
Qed.

(* ------------------------------------------------------------------------------------------------------------ *)
(* concrete tables, the witness and the examples                                                                  *)
(* ------------------------------------------------------------------------------------------------------------ *)

Definition ex_printable (c : Z) : bool := (32 <=? c) && (c <? 127).
Definition ex_gext (c : Z) : bool := false.
Definition ex_print (u : uid) : str := print_uid ex_printable ex_gext u.

(* the hypothesis on the type cannot be dropped: writing Q for the double quote byte 34, the type  A::QB
   with id  x  prints as  A::QB::QxQ  and reads back as type A, id  B::Qx  (the unquoter accepts the bare double quote) *)
Example parse_uid_needs_hyp :
  let u : uid := ([65; 58; 58; 34; 66], [120]) in
  fst u <> [] /\ nonneg (snd u) /\ valid_utf8 (snd u) = true /\
  index_of uid_sep (fst u) = Some 1%nat /\
  ex_print u = [65; 58; 58; 34; 66; 58; 58; 34; 120; 34] /\
  parse_uid (ex_print u) = Some ([65], [66; 58; 58; 34; 120]) /\
  parse_uid (ex_print u) <> Some u.
Proof.
  cbv zeta. split; [discriminate|]. split; [repeat constructor; discriminate|].
  split; [vm_compute; reflexivity|]. split; [vm_compute; reflexivity|].
  split; [vm_compute; reflexivity|]. split; [vm_compute; reflexivity|].
  vm_compute. discriminate.
Qed.

(* an empty type is printed but not read back *)
Example parse_uid_empty_type : parse_uid (ex_print ([], [120])) = None.
Proof. vm_compute. reflexivity. Qed.

(* types ending in one or two colons are fine *)
Example ex_type_colon1 : parse_uid (ex_print ([65; 58], [120])) = Some ([65; 58], [120]).
Proof. vm_compute. reflexivity. Qed.
Example ex_type_colon2 : parse_uid (ex_print ([65; 58; 58], [120])) = Some ([65; 58; 58], [120]).
Proof. vm_compute. reflexivity. Qed.
Example ex_type_colon3 : parse_uid (ex_print ([58; 58; 58], [])) = Some ([58; 58; 58], []).
Proof. vm_compute. reflexivity. Qed.

Definition ty_User : str := [85; 115; 101; 114].
Definition ty_NS_T : str := [78; 83; 58; 58; 84].

Definition id_path : str := [67; 58; 92; 120; 92].        (* C:\x\ *)
Definition id_abs : str := [97; 92; 92].                  (* a\\ *)
Definition id_bsq : str := [92; 34].                      (* backslash quote *)
Definition id_qbs : str := [34; 92].                      (* quote backslash *)
Definition id_sep : str := [97; 58; 58; 34; 98].          (* a colon colon quote b *)
Definition id_empty : str := [].

Example ex_print_path : ex_print (ty_User, id_path) =
  [85; 115; 101; 114; 58; 58; 34; 67; 58; 92; 92; 120; 92; 92; 34].
Proof. vm_compute. reflexivity. Qed.
Example ex_print_sep : ex_print (ty_NS_T, id_sep) =
  [78; 83; 58; 58; 84; 58; 58; 34; 97; 58; 58; 92; 34; 98; 34].
Proof. vm_compute. reflexivity. Qed.

Example ex_User_path : parse_uid (ex_print (ty_User, id_path)) = Some (ty_User, id_path).
Proof. vm_compute. reflexivity. Qed.
Example ex_User_abs : parse_uid (ex_print (ty_User, id_abs)) = Some (ty_User, id_abs).
Proof. vm_compute. reflexivity. Qed.
Example ex_User_bsq : parse_uid (ex_print (ty_User, id_bsq)) = Some (ty_User, id_bsq).
Proof. vm_compute. reflexivity. Qed.
Example ex_User_qbs : parse_uid (ex_print (ty_User, id_qbs)) = Some (ty_User, id_qbs).
Proof. vm_compute. reflexivity. Qed.
Example ex_User_sep : parse_uid (ex_print (ty_User, id_sep)) = Some (ty_User, id_sep).
Proof. vm_compute. reflexivity. Qed.
Example ex_User_empty : parse_uid (ex_print (ty_User, id_empty)) = Some (ty_User, id_empty).
Proof. vm_compute. reflexivity. Qed.

Example ex_NS_T_path : parse_uid (ex_print (ty_NS_T, id_path)) = Some (ty_NS_T, id_path).
Proof. vm_compute. reflexivity. Qed.
Example ex_NS_T_abs : parse_uid (ex_print (ty_NS_T, id_abs)) = Some (ty_NS_T, id_abs).
Proof. vm_compute. reflexivity. Qed.
Example ex_NS_T_bsq : parse_uid (ex_print (ty_NS_T, id_bsq)) = Some (ty_NS_T, id_bsq).
Proof. vm_compute. reflexivity. Qed.
Example ex_NS_T_qbs : parse_uid (ex_print (ty_NS_T, id_qbs)) = Some (ty_NS_T, id_qbs).
Proof. vm_compute. reflexivity. Qed.
Example ex_NS_T_sep : parse_uid (ex_print (ty_NS_T, id_sep)) = Some (ty_NS_T, id_sep).
Proof. vm_compute. reflexivity. Qed.
Example ex_NS_T_empty : parse_uid (ex_print (ty_NS_T, id_empty)) = Some (ty_NS_T, id_empty).
Proof. vm_compute. reflexivity. Qed.

(* the parser is more liberal than the printer: a body with a bare double quote, or a non-printable byte, is accepted *)
Example ex_bare_quote : parse_uid [65; 58; 58; 34; 98; 34; 99; 34] = Some ([65], [98; 34; 99]).
Proof. vm_compute. reflexivity. Qed.

Print Assumptions index_of_app.
Print Assumptions parse_print_uid.
Print Assumptions parse_uid_shape.
Print Assumptions parse_uid_type_nonempty.
Print Assumptions parse_uid_iff.
Print Assumptions parse_uid_needs_hyp.
