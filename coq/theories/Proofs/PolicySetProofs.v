From Coq Require Import ZArith List Bool Permutation Sorted Lia.
Import ListNotations.
From Cedar Require Import Lang.Value Impl.Authorize Impl.PolicySet Proofs.AuthorizeProofs.
Local Open Scope Z_scope.

Definition uniq (s : pset) : Prop := NoDup (map fst s).

Lemma ps_del_get s k x : ps_get (ps_del s k) x = if str_eqb k x then None else ps_get s x.
Proof.
  induction s as [|[k' h] s IH]; cbn.
  - destruct (str_eqb k x); auto.
  - destruct (str_eqb k' k) eqn:E1.
    + apply str_eqb_eq in E1. subst k'. rewrite IH. destruct (str_eqb k x); auto.
    + cbn. destruct (str_eqb k' x) eqn:E2.
      * apply str_eqb_eq in E2. subst k'.
        destruct (str_eqb k x) eqn:E3; auto. apply str_eqb_eq in E3. subst k. rewrite str_eqb_refl in E1. discriminate.
      * apply IH.
Qed.

Lemma ps_del_notin s k : ~ In k (map fst (ps_del s k)).
Proof.
  induction s as [|[k' h] s IH]; cbn; auto.
  destruct (str_eqb k' k) eqn:E; auto. cbn. intros [H|H]; auto.
  subst k'. rewrite str_eqb_refl in E. discriminate.
Qed.

Lemma ps_del_incl s k x : In x (map fst (ps_del s k)) -> In x (map fst s).
Proof.
  induction s as [|[k' h] s IH]; cbn; auto.
  destruct (str_eqb k' k); cbn; intros H; [right; auto| destruct H; auto].
Qed.

Lemma ps_del_uniq s k : uniq s -> uniq (ps_del s k).
Proof.
  unfold uniq. induction s as [|[k' h] s IH]; cbn; intros H; auto.
  inversion H; subst. destruct (str_eqb k' k); auto. cbn. constructor; auto.
  intros Hin. apply H2. eapply ps_del_incl; eauto.
Qed.

Lemma ps_set_uniq s k h : uniq s -> uniq (ps_set s k h).
Proof. intros H. unfold ps_set, uniq. cbn. constructor; [apply ps_del_notin | apply ps_del_uniq; auto]. Qed.

(* --- refinement of the abstract map --- *)
Theorem add_refines s k h : forall x, abs (ps_set s k h) x = f_set (abs s) k h x.
Proof. intros x. unfold abs, ps_set, f_set. cbn. destruct (str_eqb k x) eqn:E; auto. rewrite ps_del_get, E. auto. Qed.

Theorem remove_refines s k : forall x, abs (ps_del s k) x = f_del (abs s) k x.
Proof. intros x. unfold abs, f_del. apply ps_del_get. Qed.

(* --- sorting --- *)
Lemma ins_sorted_perm kv l : Permutation (ins_sorted kv l) (kv :: l).
Proof.
  induction l as [|x l IH]; cbn; auto. destruct (str_ltb (fst x) (fst kv)); auto.
  eapply perm_trans; [apply perm_skip, IH | apply perm_swap].
Qed.

Lemma sort_by_id_perm s : Permutation (sort_by_id s) s.
Proof.
  induction s as [|x s IH]; cbn; auto. eapply perm_trans; [apply ins_sorted_perm | apply perm_skip, IH].
Qed.

Definition id_le (a b : str * handle) : Prop := str_ltb (fst b) (fst a) = false.

Lemma ins_sorted_hd kv l x : HdRel id_le x l -> id_le x kv -> HdRel id_le x (ins_sorted kv l).
Proof.
  destruct l as [|y l]; cbn; intros H1 H2; [constructor; auto|].
  destruct (str_ltb (fst y) (fst kv)); constructor; auto. inversion H1; auto.
Qed.

Lemma ins_sorted_sorted kv l : Sorted id_le l -> Sorted id_le (ins_sorted kv l).
Proof.
  induction l as [|x l IH]; cbn; intros H; [constructor; auto|].
  inversion H; subst.
  destruct (str_ltb (fst x) (fst kv)) eqn:E.
  - constructor; auto. apply ins_sorted_hd; auto. unfold id_le. apply str_ltb_asym; auto.
  - constructor; auto.
Qed.

Theorem sort_by_id_sorted s : Sorted id_le (sort_by_id s).
Proof. induction s as [|x s IH]; cbn; [constructor | apply ins_sorted_sorted; auto]. Qed.

Lemma perm_uniq (a b : pset) : Permutation a b -> uniq a -> uniq b.
Proof. unfold uniq. intros HP H. eapply Permutation_NoDup; [apply Permutation_map, HP | auto]. Qed.

Lemma ps_get_in s k h : uniq s -> (ps_get s k = Some h <-> In (k, h) s).
Proof.
  unfold uniq. induction s as [|[k' h'] s IH]; cbn; intros HU.
  - split; [discriminate | tauto].
  - inversion HU; subst. destruct (str_eqb k' k) eqn:E.
    + apply str_eqb_eq in E. subst k'. split.
      * intros H; inversion H; auto.
      * intros [H|H]; [inversion H; auto|]. exfalso. apply H1. apply (in_map fst) in H. auto.
    + rewrite IH by auto. split; auto. intros [H|H]; auto. inversion H; subst. rewrite str_eqb_refl in E. discriminate.
Qed.

(* sorting (and any permutation) does not change the map that is represented *)
Theorem sort_preserves_abs s : uniq s -> forall x, abs (sort_by_id s) x = abs s x.
Proof.
  intros HU x. unfold abs.
  assert (HU' : uniq (sort_by_id s)) by (eapply perm_uniq; [apply Permutation_sym, sort_by_id_perm | auto]).
  destruct (ps_get s x) as [h|] eqn:E.
  - apply ps_get_in; auto. apply ps_get_in in E; auto.
    eapply Permutation_in; [apply Permutation_sym, sort_by_id_perm | auto].
  - destruct (ps_get (sort_by_id s) x) as [h|] eqn:E2; auto.
    apply ps_get_in in E2; auto. apply (Permutation_in _ (sort_by_id_perm s)) in E2.
    apply ps_get_in in E2; auto. congruence.
Qed.

(* --- every reachable state has unique ids (it is a map) --- *)
Lemma number_from_fst i hs : map fst (number_from i hs) = map policy_id (seq i (List.length hs)).
Proof. revert i; induction hs as [|h hs IH]; intros i; cbn; auto. rewrite IH; auto. Qed.

Section History.
  Variable eff : handle -> effect.
  Variable ev : handle -> outcome.

  (* authorization depends only on the contents: any two representations of the same bindings agree *)
  Theorem authorize_contents_only s1 s2 : Permutation s1 s2 ->
    match authz eff ev s1, authz eff ev s2 with
    | RDecision d1 r1 e1, RDecision d2 r2 e2 => d1 = d2 /\ Permutation r1 r2 /\ Permutation e1 e2
    | _, _ => False
    end.
  Proof.
    intros HP. unfold authz.
    destruct (authorize_order_irrelevant _ (fun p : str * handle => eff (snd p)) (fun p => ev (snd p)) s1 s2 HP) as (Hd & Hr & He).
    split; auto. split; apply Permutation_map; auto.
  Qed.
End History.
