(* Proofs about Impl/SchemaResolve.v (C16): schema resolution terminates.
   - Kahn's check (cycle_free) yields a topological rank, hence acyclicity (kahn_sound)
   - resolve_type never runs out of the fuel the model hands out (any namespace, any names: the declaring namespace of a common type is
     recorded at registration, so the cycle check and the resolver look at the same edges)
   - visit (action DFS) and is_descendant terminate; is_descendant is correct
   - resolve_schema never answers VFuel *)
From Coq Require Import String ZArith List Bool Lia Relations Permutation.
Import ListNotations.
From Cedar Require Import Lang.Value Impl.Printer Impl.SchemaResolve.
Local Open Scope Z_scope.

(* ------------------------------------------------------------------ *)
(* Part B: Kahn's check gives a topological rank                        *)
(* ------------------------------------------------------------------ *)
Local Open Scope nat_scope.

Definition dep (d : decls) (a b : str) : Prop := In b (deps_of d a).

Lemma str_eqbP a b : reflect (a = b) (str_eqb a b).
Proof. destruct (str_eqb a b) eqn:E; constructor; [apply str_eqb_eq | apply str_eqb_neq]; exact E. Qed.

Lemma assoc_In {A} x (l : list (str * A)) v : assoc x l = Some v -> In (x, v) l.
Proof.
  induction l as [|[k w] r IH]; cbn [assoc]; [discriminate|].
  destruct (str_eqbP k x) as [->|Hne]; intros H.
  - inversion H; subst. left; reflexivity.
  - right. apply IH, H.
Qed.

Lemma In_assoc {A} x (l : list (str * A)) : In x (map fst l) -> exists v, assoc x l = Some v.
Proof.
  induction l as [|[k w] r IH]; cbn [assoc map fst In]; [tauto|].
  intros [->|H].
  - rewrite str_eqb_refl. eauto.
  - destruct (str_eqb k x); eauto.
Qed.

Lemma common_names_spec d a : In a (common_names d) <-> exists ct, common d a = Some ct.
Proof.
  unfold common_names, common. rewrite nodup_In. split.
  - intros H. apply In_assoc. rewrite map_rev, <- in_rev. exact H.
  - intros [ct H]. apply assoc_In in H. apply in_rev in H.
    apply (in_map fst) in H. exact H.
Qed.

Lemma common_In d a ct : common d a = Some ct -> In (a, ct) (d_commons d).
Proof. unfold common. intros H. apply assoc_In in H. apply in_rev in H. exact H. Qed.

Lemma dep_common d a b : dep d a b -> In a (common_names d) /\ In b (common_names d).
Proof.
  unfold dep, deps_of. destruct (common d a) as [[cns body]|] eqn:E; [|intros []].
  intros H. apply filter_In in H. destruct H as [_ H]. split; apply common_names_spec.
  - eauto.
  - destruct (common d b); [eauto | discriminate].
Qed.

Definition cnt (x : str) (l : list str) : nat := List.length (filter (str_eqb x) l).

Lemma cnt_app x l1 l2 : cnt x (l1 ++ l2) = cnt x l1 + cnt x l2.
Proof. unfold cnt. rewrite filter_app, app_length. reflexivity. Qed.

Lemma cnt_cons_eq x l : cnt x (x :: l) = S (cnt x l).
Proof. unfold cnt. cbn [filter]. rewrite str_eqb_refl. reflexivity. Qed.

Lemma cnt_cons_neq x y l : x <> y -> cnt x (y :: l) = cnt x l.
Proof. unfold cnt. cbn [filter]. intros H. destruct (str_eqbP x y); [contradiction | reflexivity]. Qed.

Lemma cnt_pos x l : In x l -> 1 <= cnt x l.
Proof.
  induction l as [|y l IH]; [intros []|]. intros [->|H].
  - rewrite cnt_cons_eq. lia.
  - destruct (str_eqbP x y) as [->|Hne]; [rewrite cnt_cons_eq; lia | rewrite cnt_cons_neq by exact Hne; auto].
Qed.

Lemma cnt_notin x l : ~ In x l -> cnt x l = 0.
Proof.
  induction l as [|y l IH]; [reflexivity|]. intros H.
  rewrite cnt_cons_neq; [apply IH|]; intros E; apply H; [right; exact E | left; symmetry; exact E].
Qed.

Definition degf (deg : list (str * nat)) (x : str) : nat := match assoc x deg with Some k => k | None => 0 end.
Definition dec1 (n : str) (deg : list (str * nat)) : list (str * nat) :=
  map (fun kv : str * nat => if str_eqb (fst kv) n then (fst kv, Nat.pred (snd kv)) else kv) deg.

Lemma assoc_dec1 x n deg : assoc x (dec1 n deg) = if str_eqb n x then option_map Nat.pred (assoc x deg) else assoc x deg.
Proof.
  induction deg as [|[k v] r IH]; cbn [dec1 map assoc fst snd].
  - destruct (str_eqb n x); reflexivity.
  - fold (dec1 n r). destruct (str_eqbP k n) as [->|Hkn]; cbn [assoc].
    + destruct (str_eqbP n x) as [->|Hnx]; [reflexivity | exact IH].
    + destruct (str_eqbP k x) as [->|Hkx].
      * destruct (str_eqbP n x) as [->|Hnx]; [congruence | reflexivity].
      * exact IH.
Qed.

Lemma degf_dec1 x n deg : degf (dec1 n deg) x = if str_eqb n x then Nat.pred (degf deg x) else degf deg x.
Proof. unfold degf. rewrite assoc_dec1. destruct (str_eqb n x), (assoc x deg); reflexivity. Qed.

Lemma NoDup_app_end {A} (l : list A) x : NoDup l -> ~ In x l -> NoDup (l ++ [x]).
Proof.
  intros Hn Hx. apply (Permutation_NoDup (Permutation_cons_append l x)). constructor; assumption.
Qed.

Lemma NoDup_app_l {A} (l l' : list A) : NoDup (l ++ l') -> NoDup l.
Proof.
  induction l as [|a l IH]; cbn [app]; intros H; [constructor|].
  inversion H as [|? ? Ha Hn]; subst. constructor; [|apply IH, Hn].
  intros X. apply Ha, in_or_app. left; exact X.
Qed.

Fixpoint pos (x : str) (l : list str) : nat :=
  match l with [] => 0 | c :: r => if str_eqb c x then 0 else S (pos x r) end.

Lemma pos_lt x l : In x l -> pos x l < List.length l.
Proof.
  induction l as [|c r IH]; [intros []|]. cbn [pos List.length]. intros H.
  destruct (str_eqbP c x) as [->|Hne]; [lia|]. destruct H as [H|H]; [contradiction|]. apply IH in H. lia.
Qed.

Section Kahn.
  Variable d : decls.
  Let N := common_names d.
  Let dp := deps_of d.

  Fixpoint topo (l : list str) : Prop :=
    match l with [] => True | b :: r => (forall a, dep d a b -> In a r) /\ topo r end.

  Lemma topo_pos l : NoDup l -> topo l -> forall a b, dep d a b -> In b l -> In a l /\ pos b l < pos a l.
  Proof.
    induction l as [|c r IH]; intros Hn Ht a b Hd Hb; [destruct Hb|].
    inversion Hn as [|? ? Hc Hn']; subst. destruct Ht as [Hc1 Ht].
    cbn [pos]. destruct (str_eqbP c b) as [->|Hcb].
    - pose proof (Hc1 a Hd) as Ha. split; [right; exact Ha|].
      destruct (str_eqbP b a) as [->|_]; [contradiction | lia].
    - destruct Hb as [Hb|Hb]; [contradiction|].
      destruct (IH Hn' Ht a b Hd Hb) as [Ha Hlt]. split; [right; exact Ha|].
      destruct (str_eqbP c a) as [->|_]; [contradiction | lia].
  Qed.

  Record Inv (rdone rest : list str) (deg : list (str * nat)) (queue rem : list str) : Prop := {
    I1 : NoDup (rdone ++ queue);
    I2 : forall x, In x (rdone ++ queue) -> degf deg x = 0 /\ In x N;
    I3 : forall a, In a N -> In a rdone \/ In a rest;
    I4 : forall x, cnt x (flat_map dp rest) + cnt x rem <= degf deg x;
    I5 : topo rdone;
    I8 : forall x, In x rem -> In x N }.

  Lemma dec_step rdone rest deg queue n r :
    Inv rdone rest deg queue (n :: r) ->
    Inv rdone rest (dec1 n deg) (match assoc n (dec1 n deg) with Some O => queue ++ [n] | _ => queue end) r.
  Proof.
    intros [H1 H2 H3 H4 H5 H8].
    assert (Hge : 1 <= degf deg n) by (specialize (H4 n); rewrite cnt_cons_eq in H4; lia).
    assert (Hq : let q' := match assoc n (dec1 n deg) with Some O => queue ++ [n] | _ => queue end in
                 q' = queue \/ (q' = queue ++ [n] /\ degf (dec1 n deg) n = 0)).
    { cbv zeta. unfold degf. destruct (assoc n (dec1 n deg)) as [[|k]|]; auto. }
    cbv zeta in Hq. set (q' := match assoc n (dec1 n deg) with Some O => queue ++ [n] | _ => queue end) in *.
    assert (Hle : forall x, degf (dec1 n deg) x <= degf deg x).
    { intros x. rewrite degf_dec1. destruct (str_eqb n x); lia. }
    assert (Hnot : ~ In n (rdone ++ queue)).
    { intros Hin. apply H2 in Hin. lia. }
    constructor.
    - destruct Hq as [->|[-> _]]; [exact H1|]. rewrite app_assoc. apply NoDup_app_end; assumption.
    - intros x Hx. destruct Hq as [Hq|[Hq Hz]]; rewrite Hq in Hx.
      + destruct (H2 x Hx) as [Hd Hn]. split; [|exact Hn]. specialize (Hle x). lia.
      + rewrite app_assoc in Hx. apply in_app_or in Hx. destruct Hx as [Hx|[<-|[]]].
        * destruct (H2 x Hx) as [Hd Hn]. split; [|exact Hn]. specialize (Hle x). lia.
        * split; [exact Hz | apply H8; left; reflexivity].
    - exact H3.
    - intros x. specialize (H4 x). rewrite degf_dec1. destruct (str_eqbP n x) as [<-|Hne].
      + rewrite cnt_cons_eq in H4. lia.
      + rewrite cnt_cons_neq in H4 by congruence. exact H4.
    - exact H5.
    - intros x Hx. apply H8. right; exact Hx.
  Qed.

  Lemma dec_all_inv rem : forall rdone rest deg queue, Inv rdone rest deg queue rem ->
    forall deg' q', dec_all rem deg queue = (deg', q') -> Inv rdone rest deg' q' [].
  Proof.
    induction rem as [|n r IH]; intros rdone rest deg queue HI deg' q' E.
    - cbn [dec_all] in E. inversion E; subst. exact HI.
    - cbn [dec_all] in E. apply (IH _ _ _ _ (dec_step _ _ _ _ _ _ HI) _ _ E).
  Qed.

  Lemma pop_inv rdone rest deg node q :
    Inv rdone rest deg (node :: q) [] -> exists rest', Inv (node :: rdone) rest' deg q (dp node).
  Proof.
    intros [H1 H2 H3 H4 H5 H8].
    destruct (H2 node) as [Hz HnN]; [apply in_or_app; right; left; reflexivity|].
    pose proof (NoDup_remove_1 _ _ _ H1) as Hnd1. pose proof (NoDup_remove_2 _ _ _ H1) as Hnd2.
    assert (Hnr : ~ In node rdone) by (intros X; apply Hnd2, in_or_app; left; exact X).
    destruct (H3 node HnN) as [X|Hrest]; [contradiction|].
    destruct (in_split _ _ Hrest) as (r1 & r2 & ->).
    exists (r1 ++ r2). constructor.
    - cbn [app]. constructor; assumption.
    - intros x Hx. apply H2. cbn [app] in Hx. apply in_or_app. destruct Hx as [<-|Hx]; [right; left; reflexivity|].
      apply in_app_or in Hx. destruct Hx; [left | right; right]; assumption.
    - intros a Ha. destruct (H3 a Ha) as [X|X]; [left; right; exact X|].
      apply in_app_or in X. destruct X as [X|[<-|X]].
      + right. apply in_or_app; left; exact X.
      + left; left; reflexivity.
      + right. apply in_or_app; right; exact X.
    - intros x. specialize (H4 x). rewrite flat_map_app in *. cbn [flat_map] in H4.
      rewrite !cnt_app in *. change (cnt x []) with 0 in H4. lia.
    - cbn [topo]. split; [|exact H5]. intros a Hd.
      destruct (dep_common _ _ _ Hd) as [HaN _]. destruct (H3 a HaN) as [X|X]; [exact X|]. exfalso.
      assert (Hin : In node (flat_map dp (r1 ++ node :: r2))) by (apply in_flat_map; exists a; split; assumption).
      apply cnt_pos in Hin. specialize (H4 node). lia.
    - intros x Hx. apply (dep_common d node x Hx).
  Qed.

  Lemma kahn_inv fuel : forall rdone rest deg queue, Inv rdone rest deg queue [] ->
    exists rdone', NoDup rdone' /\ (forall x, In x rdone' -> In x N) /\ topo rdone' /\
                   kahn fuel d deg queue (List.length rdone) = List.length rdone'.
  Proof.
    induction fuel as [|f IH]; intros rdone rest deg queue HI.
    - exists rdone. destruct HI as [H1 H2 _ _ H5 _]. repeat split.
      + apply NoDup_app_l in H1. exact H1.
      + intros x Hx. apply H2, in_or_app; left; exact Hx.
      + exact H5.
    - cbn [kahn]. destruct queue as [|node q].
      + exists rdone. destruct HI as [H1 H2 _ _ H5 _]. repeat split.
        * rewrite app_nil_r in H1. exact H1.
        * intros x Hx. apply H2, in_or_app; left; exact Hx.
        * exact H5.
      + destruct (pop_inv _ _ _ _ _ HI) as [rest' HI'].
        destruct (dec_all (deps_of d node) deg q) as [deg' q'] eqn:E.
        pose proof (dec_all_inv _ _ _ _ _ HI' _ _ E) as HI''.
        destruct (IH _ _ _ _ HI'') as (rdone' & Hx). exists rdone'. exact Hx.
  Qed.

  Lemma assoc_mapg (g : str -> nat) l x : In x l -> assoc x (map (fun n => (n, g n)) l) = Some (g x).
  Proof.
    induction l as [|c r IH]; [intros []|]. intros H. cbn [map assoc].
    destruct (str_eqbP c x) as [->|Hne]; [reflexivity|]. destruct H as [H|H]; [contradiction | auto].
  Qed.

  Lemma assoc_mapg_none (g : str -> nat) l x : ~ In x l -> assoc x (map (fun n => (n, g n)) l) = None.
  Proof.
    induction l as [|c r IH]; [reflexivity|]. intros H. cbn [map assoc].
    destruct (str_eqbP c x) as [->|Hne]; [exfalso; apply H; left; reflexivity|]. apply IH. intros X; apply H; right; exact X.
  Qed.

  Lemma queue0_eq (g : str -> nat) (p : str * nat -> bool) l :
    map fst (filter p (map (fun n => (n, g n)) l)) = filter (fun n => p (n, g n)) l.
  Proof.
    induction l as [|c r IH]; [reflexivity|]. cbn [map filter]. destruct (p (c, g c)); cbn [map fst]; rewrite IH; reflexivity.
  Qed.

  Lemma init_inv : Inv [] N (indeg0 d) (map fst (filter (fun kv : str * nat => Nat.eqb (snd kv) 0) (indeg0 d))) [].
  Proof.
    unfold indeg0. fold N. set (g := fun n => List.length (filter (str_eqb n) (flat_map (deps_of d) N))).
    rewrite (queue0_eq g). cbn [snd].
    constructor.
    - cbn [app]. apply NoDup_filter. apply NoDup_nodup.
    - cbn [app]. intros x Hx. apply filter_In in Hx. destruct Hx as [Hx Hz]. split; [|exact Hx].
      unfold degf. rewrite (assoc_mapg g) by exact Hx. apply Nat.eqb_eq in Hz. exact Hz.
    - intros a Ha. right; exact Ha.
    - intros x. cbn [cnt filter List.length]. rewrite Nat.add_0_r. unfold degf.
      destruct (in_dec (list_eq_dec Z.eq_dec) x N) as [Hx|Hx].
      + rewrite (assoc_mapg g) by exact Hx. unfold g, cnt, dp. lia.
      + rewrite cnt_notin; [lia|]. intros Hin. apply in_flat_map in Hin. destruct Hin as (a & _ & Ha).
        apply Hx. apply (dep_common d a x Ha).
    - exact I.
    - intros x [].
  Qed.

  Theorem kahn_rank : cycle_free d = true ->
    exists rank : str -> nat, (forall a, In a N -> rank a < List.length N) /\ (forall a b, dep d a b -> rank b < rank a).
  Proof.
    unfold cycle_free. intros H. apply Nat.eqb_eq in H.
    destruct (kahn_inv (S (List.length (common_names d) + List.length (flat_map (deps_of d) (common_names d)))) _ _ _ _ init_inv)
      as (rdone & Hnd & Hsub & Ht & Hk).
    cbn [List.length] in Hk. rewrite Hk in H. fold N in H.
    assert (Hall : incl N rdone).
    { apply NoDup_length_incl; [exact Hnd | lia | exact Hsub]. }
    exists (fun x => pos x rdone). split.
    - intros a Ha. rewrite <- H. apply pos_lt. apply Hall, Ha.
    - intros a b Hd. apply (topo_pos rdone Hnd Ht a b Hd). apply Hall. apply (dep_common d a b Hd).
  Qed.
End Kahn.

Theorem kahn_sound : forall d, cycle_free d = true -> forall n, In n (common_names d) -> ~ clos_trans _ (dep d) n n.
Proof.
  intros d H n _ Hc. destruct (kahn_rank d H) as (rank & _ & Hr).
  assert (G : forall a b, clos_trans _ (dep d) a b -> rank b < rank a).
  { intros a b X. induction X as [a b X | a b c _ IH1 _ IH2]; [apply Hr, X | lia]. }
  specialize (G n n Hc). lia.
Qed.

(* ------------------------------------------------------------------ *)
(* Part C: resolve_type never runs out of fuel                          *)
(* ------------------------------------------------------------------ *)

Section StyInd.
  Variable P : sty -> Prop.
  Hypothesis HString : P TyString.
  Hypothesis HLong : P TyLong.
  Hypothesis HBool : P TyBool.
  Hypothesis HExt : forall n, P (TyExt n).
  Hypothesis HSet : forall e, P e -> P (TySet e).
  Hypothesis HRec : forall fs, Forall (fun kv : str * (sty * bool) => P (fst (snd kv))) fs -> P (TyRec fs).
  Hypothesis HEnt : forall r, P (TyEnt r).
  Hypothesis HRef : forall r, P (TyRef r).
  Fixpoint sty_ind' (t : sty) : P t :=
    match t with
    | TyString => HString | TyLong => HLong | TyBool => HBool | TyExt n => HExt n
    | TySet e => HSet e (sty_ind' e)
    | TyRec fs => HRec fs ((fix go (l : list (str * (sty * bool))) : Forall (fun kv : str * (sty * bool) => P (fst (snd kv))) l :=
                             match l with
                             | [] => Forall_nil _
                             | kv :: r => Forall_cons kv (sty_ind' (fst (snd kv))) (go r)
                             end) fs)
    | TyEnt r => HEnt r
    | TyRef r => HRef r
    end.
End StyInd.

Definition resolve_fields (rec : sty -> rres rty) : list (str * (sty * bool)) -> rres (list (str * (rty * bool))) :=
  fix go (l : list (str * (sty * bool))) : rres (list (str * (rty * bool))) :=
    match l with
    | [] => ROk []
    | (k, (x, opt)) :: r => rbind (rec x) (fun rx => rbind (go r) (fun rr => ROk ((k, (rx, opt)) :: rr)))
    end.
Definition fields_size : list (str * (sty * bool)) -> nat :=
  fix go (l : list (str * (sty * bool))) : nat := match l with [] => 0 | (_, (x, _)) :: r => sty_size x + go r end.
Definition fields_refs : list (str * (sty * bool)) -> list str :=
  fix go (l : list (str * (sty * bool))) : list str := match l with [] => [] | (_, (x, _)) :: r => collect_refs x ++ go r end.

Lemma resolve_type_rec f d ns fs :
  resolve_type (S f) d ns (TyRec fs) = rbind (resolve_fields (resolve_type f d ns) fs) (fun rs => ROk (RRec rs)).
Proof. reflexivity. Qed.
Lemma sty_size_rec fs : sty_size (TyRec fs) = S (fields_size fs).
Proof. reflexivity. Qed.
Lemma collect_refs_rec fs : collect_refs (TyRec fs) = fields_refs fs.
Proof. reflexivity. Qed.

Lemma sty_size_pos t : 1 <= sty_size t.
Proof. destruct t; cbn [sty_size]; lia. Qed.

Lemma rbind_nofuel {A B} (x : rres A) (g : A -> rres B) : x <> RFuel -> (forall a, g a <> RFuel) -> rbind x g <> RFuel.
Proof. destruct x; cbn [rbind]; auto; discriminate. Qed.

(* the common type (recorded namespace, body) that resolve_type expands at [TyRef ref] in namespace [ns] *)
Definition expand (d : decls) (ns ref : str) : option (str * sty) :=
  if has_sep ref then
    match strip_prefix cedar_prefix ref with
    | Some _ => None
    | None => common d ref
    end
  else
    match (if is_nil_str ns then None else common d (ns ++ sep ++ ref)) with
    | Some c => Some c
    | None => if negb (is_nil_str ns) && is_entity d (ns ++ sep ++ ref) then None else common d ref
    end.

Lemma resolve_ref_some f d ns ref ns' ct :
  expand d ns ref = Some (ns', ct) -> resolve_type (S f) d ns (TyRef ref) = resolve_type f d ns' ct.
Proof.
  unfold expand. cbn [resolve_type].
  destruct (has_sep ref).
  - destruct (strip_prefix cedar_prefix ref); [discriminate|].
    destruct (common d ref) as [[cns c]|]; [|discriminate]. intros H; inversion H; subst; reflexivity.
  - destruct (if is_nil_str ns then None else common d (ns ++ sep ++ ref)) as [[cns c]|].
    + intros H; inversion H; subst; reflexivity.
    + destruct (negb (is_nil_str ns) && is_entity d (ns ++ sep ++ ref)); [discriminate|].
      destruct (common d ref) as [[cns c]|]; [|discriminate]. intros H; inversion H; subst; reflexivity.
Qed.

Lemma resolve_ref_none f d ns ref : expand d ns ref = None -> resolve_type (S f) d ns (TyRef ref) <> RFuel.
Proof.
  unfold expand. cbn [resolve_type].
  destruct (has_sep ref).
  - destruct (strip_prefix cedar_prefix ref) as [b|].
    + intros _. destruct (builtin b); discriminate.
    + destruct (common d ref) as [[cns c]|]; [discriminate|]. intros _. destruct (is_entity d ref); discriminate.
  - destruct (if is_nil_str ns then None else common d (ns ++ sep ++ ref)) as [[cns c]|]; [discriminate|].
    destruct (negb (is_nil_str ns) && is_entity d (ns ++ sep ++ ref)); [discriminate|].
    destruct (common d ref) as [[cns c]|]; [discriminate|]. intros _.
    destruct (is_entity d ref); [discriminate|]. destruct (builtin ref); discriminate.
Qed.

(* KEY consistency lemma: what resolve_type expands is what the cycle check looked at - for ANY namespace [ns] and any names *)
Lemma expand_dep d ns ref c : expand d ns ref = Some c -> common d (type_ref_path d ns ref) = Some c.
Proof.
  unfold expand, type_ref_path. destruct (has_sep ref) eqn:Hs.
  - destruct (strip_prefix cedar_prefix ref); [discriminate|]. auto.
  - destruct ns as [|z ns0].
    + cbn [is_nil_str negb andb]. auto.
    + cbn [is_nil_str negb andb]. destruct (common d ((z :: ns0) ++ sep ++ ref)) as [c0|] eqn:E.
      * intros H; inversion H; subst. exact E.
      * destruct (is_entity d ((z :: ns0) ++ sep ++ ref)); [discriminate|]. auto.
Qed.

(* a reference met in the body of common type [a], resolved in [a]'s recorded namespace, expands to a dependency of [a] *)
Lemma expand_in_deps d a cns body ref c :
  common d a = Some (cns, body) -> In ref (collect_refs body) -> expand d cns ref = Some c ->
  exists b, dep d a b /\ common d b = Some c.
Proof.
  intros Ha Hin He. pose proof (expand_dep _ _ _ _ He) as Hc.
  exists (type_ref_path d cns ref). split; [|exact Hc].
  unfold dep, deps_of. rewrite Ha. apply filter_In. split.
  - apply in_map. exact Hin.
  - rewrite Hc. reflexivity.
Qed.

Section Inner.
  Variable d : decls.
  Variable K : nat.

  Definition refs_ok (ns : str) (refs : list str) : Prop :=
    forall ref, In ref refs -> forall ns' ct, expand d ns ref = Some (ns', ct) ->
      forall f', K <= f' -> resolve_type f' d ns' ct <> RFuel.

  Lemma resolve_inner : forall t ns f, refs_ok ns (collect_refs t) -> sty_size t + K <= f -> resolve_type f d ns t <> RFuel.
  Proof.
    induction t as [ | | | n | e IHe | fs IHfs | r | r ] using sty_ind'; intros ns f Hrefs Hf;
      (destruct f as [|f]; [exfalso; pose proof (sty_size_pos TyString); cbn [sty_size] in Hf; lia|]).
    - cbn [resolve_type]. discriminate.
    - cbn [resolve_type]. discriminate.
    - cbn [resolve_type]. discriminate.
    - cbn [resolve_type]. discriminate.
    - cbn [resolve_type]. apply rbind_nofuel; [|intros; discriminate].
      apply IHe; [exact Hrefs | cbn [sty_size] in Hf; lia].
    - rewrite resolve_type_rec. apply rbind_nofuel; [|intros; discriminate].
      rewrite sty_size_rec in Hf. rewrite collect_refs_rec in Hrefs.
      assert (Hf' : fields_size fs + K <= f) by lia. clear Hf.
      induction IHfs as [|[k [x opt]] l Hx Hl IHl].
      + cbn [resolve_fields]. discriminate.
      + cbn [resolve_fields]. cbn [fst snd] in Hx. cbn [fields_size] in Hf'. cbn [fields_refs] in Hrefs.
        apply rbind_nofuel.
        * apply Hx; [|lia]. intros ref Hin. apply Hrefs, in_or_app. left; exact Hin.
        * intros rx. apply rbind_nofuel; [|intros; discriminate].
          apply IHl; [|lia]. intros ref Hin. apply Hrefs, in_or_app. right; exact Hin.
    - cbn [resolve_type]. destruct (resolve_entity_ref d ns r); discriminate.
    - destruct (expand d ns r) as [[ns' ct]|] eqn:E.
      + rewrite (resolve_ref_some _ _ _ _ _ _ E). apply (Hrefs r (or_introl eq_refl) ns' ct E). cbn [sty_size] in Hf. lia.
      + apply resolve_ref_none, E.
  Qed.
End Inner.

Definition total_size (d : decls) : nat := fold_right (fun c acc => sty_size (snd (snd c)) + acc) 0 (d_commons d).

Lemma common_size d a cns ct : common d a = Some (cns, ct) -> sty_size ct <= total_size d.
Proof.
  intros H. apply common_In in H. unfold total_size. induction (d_commons d) as [|c l IH]; [destruct H|].
  cbn [fold_right]. destruct H as [->|H]; [cbn [snd]; lia | specialize (IH H); lia].
Qed.

(* the body of a common type, resolved in its recorded namespace, needs at most (rank+1) * total_size steps *)
Lemma resolve_common d (rank : str -> nat) : (forall a b, dep d a b -> rank b < rank a) ->
  forall k a cns ct, common d a = Some (cns, ct) -> rank a < k ->
  forall f, k * total_size d <= f -> resolve_type f d cns ct <> RFuel.
Proof.
  intros Hr. induction k as [|k IH]; intros a cns ct Ha Hk f Hf; [lia|].
  apply (resolve_inner d (k * total_size d)).
  - intros ref Hin ns' ct' He f' Hf'.
    destruct (expand_in_deps _ _ _ _ _ _ Ha Hin He) as (b & Hd & Hb).
    apply (IH b ns' ct' Hb); [|exact Hf']. specialize (Hr a b Hd). lia.
  - pose proof (common_size _ _ _ _ Ha). rewrite Nat.mul_succ_l in Hf. lia.
Qed.

Lemma nodup_length_le {A} (dec : forall x y : A, {x = y} + {x <> y}) l : List.length (nodup dec l) <= List.length l.
Proof. induction l as [|a l IH]; [reflexivity|]. cbn [nodup List.length]. destruct (in_dec dec a l); cbn [List.length]; lia. Qed.

(* 2. no hypothesis on the namespace or on the names *)
Theorem resolve_type_terminates : forall d ns t, cycle_free d = true ->
  resolve_type (resolve_fuel d t) d ns t <> RFuel.
Proof.
  intros d ns t Hc. destruct (kahn_rank d Hc) as (rank & Hlt & Hr).
  apply (resolve_inner d (List.length (common_names d) * total_size d)).
  - intros ref Hin ns' ct He f' Hf'.
    pose proof (expand_dep _ _ _ _ He) as Hb.
    apply (resolve_common d rank Hr (List.length (common_names d)) _ ns' ct Hb); [|exact Hf'].
    apply Hlt. apply common_names_spec. eauto.
  - unfold resolve_fuel. fold (total_size d).
    assert (Hn : List.length (common_names d) <= List.length (d_commons d)).
    { unfold common_names. etransitivity; [apply nodup_length_le|]. rewrite map_length. lia. }
    nia.
Qed.

(* ------------------------------------------------------------------ *)
(* Part D: the action-hierarchy DFS terminates                          *)
(* ------------------------------------------------------------------ *)

Lemma filter_length_mono {A} (p p' : A -> bool) l :
  (forall x, In x l -> p' x = true -> p x = true) -> List.length (filter p' l) <= List.length (filter p l).
Proof.
  induction l as [|a l IH]; intros H; [reflexivity|]. cbn [filter].
  assert (IH' : List.length (filter p' l) <= List.length (filter p l)) by (apply IH; intros x Hx; apply H; right; exact Hx).
  destruct (p' a) eqn:E'.
  - rewrite (H a (or_introl eq_refl) E'). cbn [List.length]. lia.
  - destruct (p a); cbn [List.length]; lia.
Qed.

Lemma filter_length_strict {A} (p p' : A -> bool) l u :
  (forall x, In x l -> p' x = true -> p x = true) -> In u l -> p u = true -> p' u = false ->
  List.length (filter p' l) < List.length (filter p l).
Proof.
  induction l as [|a l IH]; intros H Hu Hp Hp'; [destruct Hu|]. cbn [filter].
  assert (Hm : List.length (filter p' l) <= List.length (filter p l)) by (apply filter_length_mono; intros x Hx; apply H; right; exact Hx).
  destruct Hu as [->|Hu].
  - rewrite Hp, Hp'. cbn [List.length]. lia.
  - assert (IH' : List.length (filter p' l) < List.length (filter p l)) by (apply IH; auto; intros x Hx; apply H; right; exact Hx).
    destruct (p' a) eqn:E'.
    + rewrite (H a (or_introl eq_refl) E'). cbn [List.length]. lia.
    + destruct (p a); cbn [List.length]; lia.
Qed.

Lemma filter_length_le {A} (p : A -> bool) l : List.length (filter p l) <= List.length l.
Proof. induction l as [|a l IH]; [reflexivity|]. cbn [filter]. destruct (p a); cbn [List.length]; lia. Qed.

Definition visit_go (rec : uid -> list (uid * nat) -> option (bool * list (uid * nat))) (u : uid) :
  list uid -> list (uid * nat) -> option (bool * list (uid * nat)) :=
  fix go (ps : list uid) (vis : list (uid * nat)) : option (bool * list (uid * nat)) :=
    match ps with
    | [] => Some (false, (u, 2) :: vis)
    | p :: r => match rec p vis with
                | None => None
                | Some (true, v) => Some (true, v)
                | Some (false, v) => go r v
                end
    end.

Lemma visit_S f parents u vis :
  visit (S f) parents u vis =
  match colour u vis with
  | 1 => Some (true, vis)
  | 2 => Some (false, vis)
  | _ => visit_go (visit f parents) u (parents u) ((u, 1) :: vis)
  end.
Proof. reflexivity. Qed.

Lemma colour_cons x u c v : colour x ((u, c) :: v) = if uid_eqb u x then c else colour x v.
Proof. unfold colour. cbn [find fst snd]. destruct (uid_eqb u x); reflexivity. Qed.

(* "treated as unvisited by visit" *)
Definition white (vis : list (uid * nat)) (x : uid) : bool :=
  match colour x vis with 1 => false | 2 => false | _ => true end.
Definition whites (universe : list uid) (vis : list (uid * nat)) : nat := List.length (filter (white vis) universe).
Definition vmono (v v' : list (uid * nat)) : Prop := forall x, white v' x = true -> white v x = true.

Lemma vmono_refl v : vmono v v.
Proof. intros x H; exact H. Qed.
Lemma vmono_trans a b c : vmono a b -> vmono b c -> vmono a c.
Proof. intros H1 H2 x H. apply H1, H2, H. Qed.
Lemma vmono_cons1 u v : vmono v ((u, 1) :: v).
Proof. intros x. unfold white. rewrite colour_cons. destruct (uid_eqb u x); [discriminate | auto]. Qed.
Lemma vmono_cons2 u v : vmono v ((u, 2) :: v).
Proof. intros x. unfold white. rewrite colour_cons. destruct (uid_eqb u x); [discriminate | auto]. Qed.
Lemma whites_mono universe v v' : vmono v v' -> whites universe v' <= whites universe v.
Proof. intros H. apply filter_length_mono. intros x _. apply H. Qed.

Section Visit.
  Variable parents : uid -> list uid.
  Variable universe : list uid.
  Hypothesis Hclosed : forall x, In x universe -> incl (parents x) universe.

  Lemma visit_term : forall fuel u vis, In u universe -> whites universe vis + 1 <= fuel ->
    exists b v', visit fuel parents u vis = Some (b, v') /\ vmono vis v'.
  Proof.
    induction fuel as [|f IH]; intros u vis Hu Hf; [lia|].
    rewrite visit_S.
    assert (Hgo : white vis u = true ->
                  exists b v', visit_go (visit f parents) u (parents u) ((u, 1) :: vis) = Some (b, v') /\ vmono vis v').
    { intros Hw.
      assert (Hlt : whites universe ((u, 1) :: vis) < whites universe vis).
      { apply (filter_length_strict _ _ _ u); auto.
        - intros x _. apply vmono_cons1.
        - unfold white. rewrite colour_cons, uid_eqb_refl. reflexivity. }
      assert (G : forall ps v, incl ps universe -> whites universe v + 1 <= f ->
                  exists b v', visit_go (visit f parents) u ps v = Some (b, v') /\ vmono v v').
      { induction ps as [|p r IHr]; intros v Hin Hv.
        - cbn [visit_go]. exists false, ((u, 2) :: v). split; [reflexivity | apply vmono_cons2].
        - cbn [visit_go]. destruct (IH p v (Hin p (or_introl eq_refl)) Hv) as (b1 & v1 & E1 & M1).
          rewrite E1. destruct b1.
          + exists true, v1. split; [reflexivity | exact M1].
          + destruct (IHr v1) as (b2 & v2 & E2 & M2).
            * intros x Hx. apply Hin. right; exact Hx.
            * pose proof (whites_mono universe _ _ M1). lia.
            * exists b2, v2. split; [exact E2 | eapply vmono_trans; eauto]. }
      destruct (G (parents u) ((u, 1) :: vis) (Hclosed u Hu) ltac:(lia)) as (b & v' & E & M).
      exists b, v'. split; [exact E | eapply vmono_trans; [apply vmono_cons1 | exact M]]. }
    unfold white in Hgo.
    destruct (colour u vis) as [|[|[|k]]].
    - apply Hgo; reflexivity.
    - exists true, vis. split; [reflexivity | apply vmono_refl].
    - exists false, vis. split; [reflexivity | apply vmono_refl].
    - apply Hgo; reflexivity.
  Qed.

  (* 4. enough fuel: one more than the number of nodes *)
  Theorem visit_terminates : forall u vis fuel, In u universe -> List.length universe + 1 <= fuel ->
    visit fuel parents u vis <> None.
  Proof.
    intros u vis fuel Hu Hf.
    destruct (visit_term fuel u vis Hu) as (b & v' & E & _).
    - pose proof (filter_length_le (white vis) universe). unfold whites. lia.
    - rewrite E. discriminate.
  Qed.
End Visit.

(* ------------------------------------------------------------------ *)
(* Part E: the validator's descendant search                            *)
(* ------------------------------------------------------------------ *)

Definition desc_go (rec : str -> list str -> option (bool * list str)) (anc : str) :
  list str -> list str -> option (bool * list str) :=
  fix go (ps : list str) (vis : list str) : option (bool * list str) :=
    match ps with
    | [] => Some (false, vis)
    | p :: r => if str_eqb p anc then Some (true, vis)
                else match rec p vis with
                     | None => None
                     | Some (true, v) => Some (true, v)
                     | Some (false, v) => go r v
                     end
    end.

Lemma is_desc_S f parents child anc visited :
  is_descendant (S f) parents child anc visited =
  if mem child visited then Some (false, visited)
  else desc_go (fun p v => is_descendant f parents p anc v) anc (parents child) (child :: visited).
Proof. reflexivity. Qed.

Lemma mem_In x l : mem x l = true <-> In x l.
Proof.
  unfold mem. rewrite existsb_exists. split.
  - intros (y & Hy & E). apply str_eqb_eq in E. subst. exact Hy.
  - intros H. exists x. split; [exact H | apply str_eqb_refl].
Qed.

Definition unvisited (types vis : list str) : nat := List.length (filter (fun x => negb (mem x vis)) types).

Lemma unvisited_mono types v v' : incl v v' -> unvisited types v' <= unvisited types v.
Proof.
  intros H. apply filter_length_mono. intros x _ Hx.
  destruct (mem x v) eqn:E; [|reflexivity]. apply mem_In in E. apply H in E. apply mem_In in E. rewrite E in Hx. discriminate.
Qed.

Section Desc.
  Variable parents : str -> list str.
  Variable anc : str.
  Let R (a p : str) : Prop := In p (parents a).

  Section Term.
    Variable types : list str.
    Hypothesis Hclosed : forall t, In t types -> incl (parents t) types.

    Lemma desc_term : forall fuel child vis, In child types -> unvisited types vis + 1 <= fuel ->
      exists b v', is_descendant fuel parents child anc vis = Some (b, v') /\ incl vis v'.
    Proof.
      induction fuel as [|f IH]; intros child vis Hc Hf; [lia|].
      rewrite is_desc_S. destruct (mem child vis) eqn:Em.
      - exists false, vis. split; [reflexivity | apply incl_refl].
      - assert (Hlt : unvisited types (child :: vis) < unvisited types vis).
        { apply (filter_length_strict _ _ _ child); auto.
          - intros x _ Hx. destruct (mem x vis) eqn:E; [|reflexivity].
            apply mem_In in E. assert (E' : mem x (child :: vis) = true) by (apply mem_In; right; exact E).
            rewrite E' in Hx. discriminate.
          - rewrite Em. reflexivity.
          - assert (E' : mem child (child :: vis) = true) by (apply mem_In; left; reflexivity). rewrite E'. reflexivity. }
        assert (G : forall ps v, incl ps types -> unvisited types v + 1 <= f ->
                    exists b v', desc_go (fun p v => is_descendant f parents p anc v) anc ps v = Some (b, v') /\ incl v v').
        { induction ps as [|p r IHr]; intros v Hin Hv.
          - cbn [desc_go]. exists false, v. split; [reflexivity | apply incl_refl].
          - cbn [desc_go]. destruct (str_eqb p anc).
            + exists true, v. split; [reflexivity | apply incl_refl].
            + destruct (IH p v (Hin p (or_introl eq_refl)) Hv) as (b1 & v1 & E1 & M1).
              rewrite E1. destruct b1.
              * exists true, v1. split; [reflexivity | exact M1].
              * destruct (IHr v1) as (b2 & v2 & E2 & M2).
                -- intros x Hx. apply Hin. right; exact Hx.
                -- pose proof (unvisited_mono types _ _ M1). lia.
                -- exists b2, v2. split; [exact E2 | eapply incl_tran; eauto]. }
        destruct (G (parents child) (child :: vis) (Hclosed child Hc) ltac:(lia)) as (b & v' & E & M).
        exists b, v'. split; [exact E|]. intros x Hx. apply M. right; exact Hx.
    Qed.
  End Term.

  (* soundness: true -> reachable by at least one parent step *)
  Lemma desc_sound : forall fuel child vis v', is_descendant fuel parents child anc vis = Some (true, v') ->
    clos_trans _ R child anc.
  Proof.
    induction fuel as [|f IH]; intros child vis v' H; [discriminate|].
    rewrite is_desc_S in H. destruct (mem child vis); [discriminate|].
    assert (G : forall ps v, incl ps (parents child) ->
                desc_go (fun p v => is_descendant f parents p anc v) anc ps v = Some (true, v') -> clos_trans _ R child anc).
    { induction ps as [|p r IHr]; intros v Hin Hg; cbn [desc_go] in Hg; [discriminate|].
      destruct (str_eqbP p anc) as [->|Hne].
      - apply t_step. apply Hin. left; reflexivity.
      - destruct (is_descendant f parents p anc v) as [[[|] v1]|] eqn:E; [| |discriminate].
        + inversion Hg; subst. apply t_trans with p; [apply t_step, Hin; left; reflexivity | apply (IH _ _ _ E)].
        + apply (IHr v1); [|exact Hg]. intros x Hx. apply Hin. right; exact Hx. }
    apply (G _ _ (incl_refl _) H).
  Qed.

  (* completeness: the nodes added to the visited list by a call answering false are fully explored *)
  Definition explored (V V' : list str) : Prop :=
    incl V V' /\ forall x, In x V' -> ~ In x V -> forall p, In p (parents x) -> p <> anc /\ In p V'.

  Lemma explored_refl V : explored V V.
  Proof. split; [apply incl_refl|]. intros x H1 H2. contradiction. Qed.

  Lemma explored_trans A B C : explored A B -> explored B C -> explored A C.
  Proof.
    intros [I1 E1] [I2 E2]. split; [eapply incl_tran; eauto|].
    intros x HxC HxA p Hp.
    destruct (in_dec (list_eq_dec Z.eq_dec) x B) as [HB|HB].
    - destruct (E1 x HB HxA p Hp) as [Hne Hin]. split; [exact Hne | apply I2, Hin].
    - apply (E2 x HxC HB p Hp).
  Qed.

  Lemma desc_false : forall fuel child V V', is_descendant fuel parents child anc V = Some (false, V') ->
    explored V V' /\ In child V'.
  Proof.
    induction fuel as [|f IH]; intros child V V' H; [discriminate|].
    rewrite is_desc_S in H. destruct (mem child V) eqn:Em.
    - inversion H; subst. split; [apply explored_refl | apply mem_In, Em].
    - assert (G : forall ps v, desc_go (fun p v => is_descendant f parents p anc v) anc ps v = Some (false, V') ->
                  explored v V' /\ forall p, In p ps -> p <> anc /\ In p V').
      { induction ps as [|p r IHr]; intros v Hg; cbn [desc_go] in Hg.
        - inversion Hg; subst. split; [apply explored_refl | intros p []].
        - destruct (str_eqbP p anc) as [->|Hne]; [discriminate|].
          destruct (is_descendant f parents p anc v) as [[[|] v1]|] eqn:E; [discriminate| |discriminate].
          destruct (IH _ _ _ E) as [Ex1 Hp1]. destruct (IHr _ Hg) as [Ex2 Hr].
          split; [eapply explored_trans; eauto|].
          intros q [<-|Hq]; [|apply Hr, Hq]. split; [exact Hne | apply (proj1 Ex2), Hp1]. }
      destruct (G _ _ H) as [[I1 E1] Hps].
      assert (Hc : In child V') by (apply I1; left; reflexivity).
      split; [|exact Hc]. split.
      + intros x Hx. apply I1. right; exact Hx.
      + intros x HxV' HxV p Hp.
        destruct (list_eq_dec Z.eq_dec x child) as [->|Hne].
        * apply Hps, Hp.
        * apply (E1 x HxV'); [|exact Hp]. intros [X|X]; [congruence | contradiction].
  Qed.

  Lemma desc_complete : forall fuel child V', is_descendant fuel parents child anc [] = Some (false, V') ->
    ~ clos_trans _ R child anc.
  Proof.
    intros fuel child V' H Hc. destruct (desc_false _ _ _ _ H) as [[_ E] Hin].
    assert (G : forall x y, clos_trans _ R x y -> In x V' -> In y V' /\ y <> anc).
    { intros x y X. induction X as [x y X | x y z _ IH1 _ IH2]; intros Hx.
      - destruct (E x Hx (fun F => F) y X) as [Hne Hy]. split; assumption.
      - apply IH2. apply (IH1 Hx). }
    destruct (G _ _ Hc Hin) as [_ Hne]. apply Hne; reflexivity.
  Qed.

  (* correctness for ANY fuel and any start: whenever the search answers (from an empty visited list), the answer is right *)
  Theorem is_descendant_correct_gen : forall fuel child b vis',
    is_descendant fuel parents child anc [] = Some (b, vis') -> (b = true <-> clos_trans _ R child anc).
  Proof.
    intros fuel child b vis' H. destruct b.
    - split; [intros _; apply (desc_sound _ _ _ _ H) | reflexivity].
    - split; [discriminate | intros Hc; exfalso; apply (desc_complete _ _ _ H Hc)].
  Qed.
End Desc.

(* 5. *)
Theorem is_descendant_terminates : forall parents types child anc, (forall t, incl (parents t) types) -> In child types ->
  is_descendant (S (List.length types)) parents child anc [] <> None.
Proof.
  intros parents types child anc Hcl Hc.
  destruct (desc_term parents anc types (fun t _ => Hcl t) (S (List.length types)) child [] Hc) as (b & v' & E & _).
  - pose proof (filter_length_le (fun x => negb (mem x [])) types). unfold unvisited. lia.
  - rewrite E. discriminate.
Qed.

Theorem is_descendant_correct : forall parents types child anc, (forall t, incl (parents t) types) -> In child types ->
  forall b vis', is_descendant (S (List.length types)) parents child anc [] = Some (b, vis') ->
  (b = true <-> clos_trans _ (fun a p => In p (parents a)) child anc).
Proof.
  intros parents types child anc _ _ b vis' H. apply (is_descendant_correct_gen parents anc _ _ _ _ H).
Qed.

(* ------------------------------------------------------------------ *)
(* Part F: the whole resolver                                           *)
(* ------------------------------------------------------------------ *)

Lemma all_ok_nofuel {A B} (f : A -> rres B) l : (forall x, In x l -> f x <> RFuel) -> all_ok f l <> RFuel.
Proof.
  induction l as [|a l IH]; intros H; cbn [all_ok fold_right]; [discriminate|].
  apply rbind_nofuel; [apply H; left; reflexivity|].
  intros y. apply rbind_nofuel; [|intros; discriminate].
  apply IH. intros x Hx. apply H. right; exact Hx.
Qed.

Lemma existsb_false {A} (f : A -> bool) l : existsb f l = false -> forall x, In x l -> f x = false.
Proof.
  induction l as [|a l IH]; intros H x Hx; [destruct Hx|]. cbn [existsb] in H. apply orb_false_iff in H.
  destruct H as [H1 H2]. destruct Hx as [<-|Hx]; [exact H1 | apply IH; assumption].
Qed.

Lemma action_dfs_terminates {X} (actions : list (uid * (list uid * X))) :
  let uids := map fst actions in
  let parents := fun u : uid => match find (fun kv : uid * (list uid * X) => uid_eqb (fst kv) u) (rev actions) with
                                | Some kv => fst (snd kv) | None => [] end in
  existsb (fun a : uid * (list uid * X) => existsb (fun p => negb (existsb (uid_eqb p) uids)) (fst (snd a))) actions = false ->
  fold_left (fun (st : option (bool * list (uid * nat))) (u : uid) =>
               match st with
               | None => None
               | Some (true, v) => Some (true, v)
               | Some (false, v) => visit (S (List.length actions) * S (List.length actions) + 2) parents u v
               end) uids (Some (false, [])) <> None.
Proof.
  intros uids parents Hex.
  assert (Hcl : forall x, In x uids -> incl (parents x) uids).
  { intros x _ p Hp. unfold parents in Hp.
    destruct (find (fun kv : uid * (list uid * X) => uid_eqb (fst kv) x) (rev actions)) as [kv|] eqn:E; [|destruct Hp].
    apply find_some in E. destruct E as [E _]. apply in_rev in E.
    pose proof (existsb_false _ _ Hex kv E) as H1. cbv beta in H1.
    pose proof (existsb_false _ _ H1 p Hp) as H2. cbv beta in H2.
    apply negb_false_iff in H2. apply existsb_exists in H2. destruct H2 as (y & Hy & Ey).
    apply uid_eqb_eq in Ey. subst. exact Hy. }
  assert (Hlen : List.length uids + 1 <= S (List.length actions) * S (List.length actions) + 2).
  { unfold uids. rewrite map_length. nia. }
  set (fuel := S (List.length actions) * S (List.length actions) + 2) in *.
  assert (G : forall l st, incl l uids -> st <> None ->
              fold_left (fun (st : option (bool * list (uid * nat))) (u : uid) =>
               match st with
               | None => None
               | Some (true, v) => Some (true, v)
               | Some (false, v) => visit fuel parents u v
               end) l st <> None).
  { induction l as [|u l IH]; intros st Hin Hst; cbn [fold_left]; [exact Hst|].
    apply IH; [intros x Hx; apply Hin; right; exact Hx|].
    destruct st as [[[|] v]|]; [discriminate | | congruence].
    apply (visit_terminates parents uids Hcl); [apply Hin; left; reflexivity | exact Hlen]. }
  apply G; [apply incl_refl | discriminate].
Qed.

(* 3. no hypothesis on the names *)
Theorem resolve_schema_terminates : forall s, resolve_schema s <> VFuel.
Proof.
  intros s. unfold resolve_schema.
  destruct (register s) as [d|]; [|discriminate].
  destruct (negb (shadowing_ok s)); [discriminate|].
  destruct (cycle_free d) eqn:Hc; cbn [negb]; [|discriminate].
  assert (Hrt : forall n t, In n s -> resolve_type (resolve_fuel d t) d (sn_name n) t <> RFuel).
  { intros n t _. apply resolve_type_terminates. exact Hc. }
  cbv zeta.
  match goal with
  | |- match ?E with ROk _ => _ | RErr => match ?A with ROk _ => _ | RErr => _ | RFuel => _ end | RFuel => _ end <> VFuel =>
      assert (HE : E <> RFuel); [| assert (HA : A <> RFuel); [| destruct E as [es| |]; [| |congruence]; destruct A as [acts| |]; try discriminate; try congruence]]
  end.
  - apply all_ok_nofuel. intros n Hn. apply all_ok_nofuel. intros e _.
    apply rbind_nofuel.
    { apply all_ok_nofuel. intros r _. destruct (resolve_entity_ref d (sn_name n) r); discriminate. }
    intros ps. apply rbind_nofuel.
    { destruct (se_shape e) as [fs|]; [|discriminate].
      apply rbind_nofuel; [apply Hrt, Hn|]. intros r; destruct r; discriminate. }
    intros sh. apply rbind_nofuel; [|intros; discriminate].
    destruct (se_tags e) as [t|]; [|discriminate].
    apply rbind_nofuel; [apply Hrt, Hn | intros; discriminate].
  - apply all_ok_nofuel. intros n Hn. apply all_ok_nofuel. intros a _.
    apply rbind_nofuel; [|intros; discriminate].
    destruct (sac_applies a) as [ap|]; [|discriminate].
    apply rbind_nofuel.
    { apply all_ok_nofuel. intros r _. destruct (resolve_entity_ref d (sn_name n) r); discriminate. }
    intros pr. apply rbind_nofuel.
    { apply all_ok_nofuel. intros r _. destruct (resolve_entity_ref d (sn_name n) r); discriminate. }
    intros rr. apply rbind_nofuel; [|intros; discriminate].
    destruct (sa_context ap) as [t|]; [|discriminate].
    apply rbind_nofuel; [apply Hrt, Hn|]. intros r; destruct r; discriminate.
  - match goal with |- (if ?c then _ else _) <> _ => destruct c eqn:Hex; [discriminate|] end.
    pose proof (action_dfs_terminates (concat acts) Hex) as Hdfs. cbv zeta in Hdfs.
    match goal with |- match ?F with Some _ => _ | None => _ end <> _ => destruct F as [[[|] v]|]; [discriminate | discriminate | congruence] end.
Qed.

(* The two schemas on which the previous model (namespace re-derived from the qualified path) and the previous Go code went wrong:
   (1) namespace "a", common type ":T" = ":T", used by an entity (registered path "a:::T"; Go used to overflow its stack);
   (2) namespace "a:", common type "T" = "T", used by an entity (registered path "a:::T"; the old model answered VFuel).
   With the declaring namespace recorded at registration both are rejected as cycles. *)
Definition ex_schema (ns ct : str) : s_schema :=
  [ {| sn_name := ns;
       sn_entities := [ {| se_name := s_of "E"; se_parents := []; se_shape := Some [(s_of "f", (TyRef ct, false))]; se_tags := None |} ];
       sn_enums := []; sn_commons := [(ct, TyRef ct)]; sn_actions := [] |} ].

Example ex1_registered : option_map d_commons (register (ex_schema (s_of "a") (s_of ":T"))) = Some [(s_of "a:::T", (s_of "a", TyRef (s_of ":T")))].
Proof. vm_compute. reflexivity. Qed.
Example ex1_not_cycle_free : option_map cycle_free (register (ex_schema (s_of "a") (s_of ":T"))) = Some false.
Proof. vm_compute. reflexivity. Qed.
Example ex1_rejected : resolve_schema (ex_schema (s_of "a") (s_of ":T")) = VErr.
Proof. vm_compute. reflexivity. Qed.
Example ex2_not_cycle_free : option_map cycle_free (register (ex_schema (s_of "a:") (s_of "T"))) = Some false.
Proof. vm_compute. reflexivity. Qed.
Example ex2_rejected : resolve_schema (ex_schema (s_of "a:") (s_of "T")) = VErr.
Proof. vm_compute. reflexivity. Qed.

Print Assumptions kahn_rank.
Print Assumptions kahn_sound.
Print Assumptions expand_dep.
Print Assumptions resolve_type_terminates.
Print Assumptions resolve_schema_terminates.
Print Assumptions action_dfs_terminates.
Print Assumptions visit_terminates.
Print Assumptions is_descendant_terminates.
Print Assumptions is_descendant_correct.
Print Assumptions is_descendant_correct_gen.
