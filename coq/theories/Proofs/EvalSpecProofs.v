(* The model of cedar-go's evaluator (Impl/Eval.v: eval) computes exactly what the declarative
   specification (Lang/Spec.v: seval) prescribes, on every input whose numbers fit in 64 bits.

   Headline theorems
     spec_in_one_reach       : the saturation of Spec.v is the reflexive-transitive closure of the parent relation
     eval_refines_spec       : env_ok en -> expr_ok e -> eval en e = seval en e
     eval_preserves_num_ok   : env_ok en -> expr_ok e -> eval en e = Ok v -> num_ok v
     eval_never_out_of_fuel  : no_fuel_node e -> eval en e <> Err EFuel
   (the last one needs the side condition: [EPartialError EFuel] evaluates to [Err EFuel] by definition,
    see [fuel_counterexample]). *)
From Coq Require Import ZArith List Bool String Lia Arith.
Import ListNotations.
From Cedar Require Import Base.Int64 Lang.Value Lang.Expr Impl.Like Impl.InSearch
  Impl.Decimal Impl.Duration Impl.Datetime Impl.IPAddr Generated.Tables Generated.Kernels
  Impl.Text Impl.Eval Lang.Spec.
From Cedar Require Proofs.LikeProofs.
From Cedar Require Import Proofs.ArithProofs Proofs.InSearchProofs Proofs.DecimalProofs Proofs.DurationProofs.
Local Open Scope Z_scope.
Local Notation length := List.length (only parsing).

(* ------------------------------------------------------------------ *)
(* 0. The side conditions                                              *)
(* ------------------------------------------------------------------ *)

Fixpoint num_ok (v : value) : bool :=
  match v with
  | VLong z => in64b z
  | VDecimal z => in64b z
  | VDatetime z => in64b z
  | VDuration z => in64b z
  | VSet l => forallb num_ok l
  | VRecord l => forallb (fun kv => num_ok (snd kv)) l
  | _ => true
  end.

Definition entity_ok (e : entity) : bool :=
  forallb (fun kv => num_ok (snd kv)) (e_attrs e) && forallb (fun kv => num_ok (snd kv)) (e_tags e).

Definition env_ok (en : env) : bool :=
  num_ok (e_principal en) && num_ok (e_action en) && num_ok (e_resource en) && num_ok (e_context en)
  && forallb (fun ue => entity_ok (snd ue)) (e_store en).

(* boolean version of LikeProofs.tailok / LikeProofs.wf: the shape produced by compile_pattern *)
Fixpoint tailokb (p : pattern) : bool :=
  match p with
  | [] => true
  | (w, l) :: p' => w && (is_nil p' || negb (is_nil l)) && tailokb p'
  end.

Definition wfb (p : pattern) : bool :=
  match p with
  | [] => true
  | (w, l) :: p' => (negb w || is_nil p' || negb (is_nil l)) && tailokb p'
  end.

Fixpoint expr_ok (e : expr) : bool :=
  match e with
  | ELit v => num_ok v
  | EVar _ => true
  | EAnd a b | EOr a b | EAdd a b | ESub a b | EMul a b | EEq a b | ENe a b
  | ELt a b | ELe a b | EGt a b | EGe a b | EIn a b
  | EContains a b | EContainsAll a b | EContainsAny a b
  | EGetTag a b | EHasTag a b => expr_ok a && expr_ok b
  | ENot a | ENeg a | EIsEmpty a | EAccess a _ | EHas a _ | EIs a _ => expr_ok a
  | ELike a p => expr_ok a && wfb p
  | EIsIn a _ b => expr_ok a && expr_ok b
  | EIf c t f => expr_ok c && expr_ok t && expr_ok f
  | ESet es => forallb expr_ok es
  | ERecord kvs => forallb (fun kv => expr_ok (snd kv)) kvs
  | ECall _ args => forallb expr_ok args
  | EPartialError _ => true
  end.

(* ------------------------------------------------------------------ *)
(* 1. The saturation of Spec.v is reflexive-transitive reachability    *)
(* ------------------------------------------------------------------ *)

Section Reach.
  Variable st : store.
  Local Notation edge_st := (edge uid (parents_of st)).

  Lemma umem_In u l : umem u l = true <-> In u l.
  Proof.
    unfold umem. rewrite existsb_exists. split.
    - intros [y [Hy He]]. apply uid_eqb_eq in He. subst y. exact Hy.
    - intros H. exists u. split; [exact H | apply uid_eqb_refl].
  Qed.

  Definition add_all (ps acc : list uid) : list uid :=
    fold_left (fun acc' p => if umem p acc' then acc' else acc' ++ [p]) ps acc.

  Lemma add_all_In x : forall ps acc, In x (add_all ps acc) <-> In x acc \/ In x ps.
  Proof.
    induction ps as [|p ps IH]; intros acc; cbn [add_all fold_left].
    - cbn [In]. tauto.
    - fold (add_all ps (if umem p acc then acc else acc ++ [p])). rewrite IH. cbn [In].
      destruct (umem p acc) eqn:E.
      + apply umem_In in E. split; [tauto|]. intros [H|[H|H]]; auto. subst p. auto.
      + rewrite in_app_iff. cbn [In]. tauto.
  Qed.

  Definition step_fun (acc : list uid) (u : uid) : list uid :=
    match lookup st u with Some e => add_all (e_parents e) acc | None => acc end.

  Lemma step_fun_In x acc u : In x (step_fun acc u) <-> In x acc \/ edge_st u x.
  Proof.
    unfold step_fun, edge, parents_of. destruct (lookup st u) as [e|]; cbn [option_map].
    - rewrite add_all_In. split.
      + intros [H|H]; [left; exact H | right; exists (e_parents e); split; [reflexivity | exact H]].
      + intros [H|[ps [Hps Hin]]]; [left; exact H|]. right. inversion Hps; subst ps. exact Hin.
    - split; [tauto|]. intros [H|[ps [Hps _]]]; [exact H | discriminate Hps].
  Qed.

  Lemma fold_step_In x : forall l acc,
    In x (fold_left step_fun l acc) <-> In x acc \/ exists u, In u l /\ edge_st u x.
  Proof.
    induction l as [|u l IH]; intros acc; cbn [fold_left].
    - split; [tauto|]. intros [H|[u [[] _]]]. exact H.
    - rewrite IH, step_fun_In. split.
      + intros [[H|H]|[u' [Hu' He]]].
        * left; exact H.
        * right; exists u; split; [left; reflexivity | exact H].
        * right; exists u'; split; [right; exact Hu' | exact He].
      + intros [H|[u' [[Hu'|Hu'] He]]].
        * left; left; exact H.
        * subst u'. left; right; exact He.
        * right; exists u'; split; assumption.
  Qed.

  Lemma step_closure_In x seen :
    In x (step_closure st seen) <-> In x seen \/ exists u, In u seen /\ edge_st u x.
  Proof. unfold step_closure. apply (fold_step_In x seen seen). Qed.

  (* walks: the list records the source of every edge (each of them a present entity) *)
  Inductive walk : uid -> list uid -> uid -> Prop :=
  | w_nil : forall a, walk a [] a
  | w_cons : forall a y l b, edge_st a y -> walk y l b -> walk a (a :: l) b.

  Lemma saturate_In : forall n seen x,
    In x (saturate n st seen) <-> exists a l, In a seen /\ walk a l x /\ (length l <= n)%nat.
  Proof.
    induction n as [|n IH]; intros seen x; cbn [saturate].
    - split.
      + intros H. exists x, []. split; [exact H|]. split; [constructor | apply le_n].
      + intros [a [l [Ha [Hw Hl]]]]. destruct l as [|z l]; [|cbn in Hl; lia].
        inversion Hw; subst. exact Ha.
    - rewrite IH. split.
      + intros [a' [l' [Ha' [Hw Hl]]]]. apply step_closure_In in Ha'. destruct Ha' as [Ha'|[u [Hu He]]].
        * exists a', l'. split; [exact Ha'|]. split; [exact Hw | lia].
        * exists u, (u :: l'). split; [exact Hu|]. split; [econstructor; eassumption | cbn [length]; lia].
      + intros [a [l [Ha [Hw Hl]]]]. inversion Hw as [a0|a0 y l0 b0 He Hw']; subst.
        * exists x, []. split; [apply step_closure_In; left; exact Ha|]. split; [constructor | cbn; lia].
        * exists y, l0. split; [apply step_closure_In; right; exists a; split; assumption|].
          split; [exact Hw' | cbn [length] in Hl; lia].
  Qed.

  Lemma reach_front a y b : edge_st a y -> reach_st st y b -> reach_st st a b.
  Proof.
    intros He Hr. induction Hr as [|y' z Hr IH He'].
    - eapply r_step; [apply r_refl | exact He].
    - eapply r_step; [exact IH | exact He'].
  Qed.

  Lemma walk_reach a l b : walk a l b -> reach_st st a b.
  Proof.
    intros H. induction H as [a|a y l b He Hw IH]; [apply r_refl|].
    eapply reach_front; eassumption.
  Qed.

  Lemma walk_snoc a l y z : walk a l y -> edge_st y z -> walk a (l ++ [y]) z.
  Proof.
    intros H He. induction H as [a|a y' l b He' Hw IH]; cbn [app].
    - econstructor; [exact He | constructor].
    - econstructor; [exact He' | apply IH; exact He].
  Qed.

  Lemma reach_walk a b : reach_st st a b -> exists l, walk a l b.
  Proof.
    intros H. induction H as [|y z Hr [l IH] He].
    - exists []. constructor.
    - exists (l ++ [y]). apply walk_snoc; assumption.
  Qed.

  Lemma walk_suffix a l2 b : forall l1 y, walk y (l1 ++ a :: l2) b -> walk a (a :: l2) b.
  Proof.
    induction l1 as [|z l1 IH]; intros y H; cbn [app] in H.
    - inversion H; subst. exact H.
    - inversion H as [|a0 y0 l0 b0 He Hw]; subst. eapply IH. exact Hw.
  Qed.

  Lemma NoDup_app_r (A : Type) (l1 l2 : list A) : NoDup (l1 ++ l2) -> NoDup l2.
  Proof.
    induction l1 as [|x l1 IH]; cbn [app]; intros H; [exact H|].
    inversion H; subst. apply IH. assumption.
  Qed.

  Lemma uid_eq_dec (a b : uid) : {a = b} + {a <> b}.
  Proof.
    destruct (uid_eqb a b) eqn:E.
    - left. apply uid_eqb_eq. exact E.
    - right. intros H. apply uid_eqb_eq in H. congruence.
  Qed.

  Lemma walk_simple a l b : walk a l b -> exists l', walk a l' b /\ NoDup l'.
  Proof.
    intros H. induction H as [a|a y l b He Hw [l' [Hw' Hnd]]].
    - exists []. split; constructor.
    - destruct (in_dec uid_eq_dec a l') as [Hin|Hnin].
      + apply in_split in Hin. destruct Hin as [l1 [l2 ->]].
        exists (a :: l2). split; [eapply walk_suffix; exact Hw' | eapply NoDup_app_r; exact Hnd].
      + exists (a :: l'). split; [econstructor; eassumption | constructor; assumption].
  Qed.

  Lemma walk_present a l b : walk a l b -> incl l (map fst st).
  Proof.
    intros H. induction H as [a|a y l b He Hw IH]; [intros x []|].
    intros x [<-|Hx]; [|apply IH; exact Hx].
    destruct He as [ps [Hps _]]. eapply parents_of_in_keys. exact Hps.
  Qed.

  Theorem spec_in_one_reach_st a b : spec_in_one st a b = true <-> reach_st st a b.
  Proof.
    unfold spec_in_one, ancestors_or_self. rewrite umem_In, saturate_In. split.
    - intros [a' [l [[<-|[]] [Hw _]]]]. eapply walk_reach. exact Hw.
    - intros H. apply reach_walk in H. destruct H as [l Hw].
      apply walk_simple in Hw. destruct Hw as [l' [Hw Hnd]].
      exists a, l'. split; [left; reflexivity|]. split; [exact Hw|].
      pose proof (NoDup_incl_length Hnd (walk_present _ _ _ Hw)) as Hlen.
      rewrite map_length in Hlen. lia.
  Qed.
End Reach.

Theorem spec_in_one_reach : forall st a b, spec_in_one st a b = true <-> reach_st st a b.
Proof. exact spec_in_one_reach_st. Qed.

(* ------------------------------------------------------------------ *)
(* 2. like: the greedy matcher against the specification matcher       *)
(* ------------------------------------------------------------------ *)

Module LP := Cedar.Proofs.LikeProofs.

Definition pelem_conv (e : LP.pelem) : pelem :=
  match e with LP.PStar => PStar | LP.PChar c => PChar c end.

Lemma spec_wmatch_star_unfold q s :
  wmatch (PStar :: q) s = wmatch q s || match s with [] => false | _ :: s' => wmatch (PStar :: q) s' end.
Proof. destruct s; reflexivity. Qed.

Lemma wmatch_conv : forall p s, LP.wmatch p s = wmatch (map pelem_conv p) s.
Proof.
  induction p as [|e p IH]; intros s.
  - reflexivity.
  - destruct e as [|c]; cbn [map pelem_conv].
    + induction s as [|x s IHs].
      * rewrite LP.wmatch_star_unfold, spec_wmatch_star_unfold, IH. reflexivity.
      * rewrite LP.wmatch_star_unfold, spec_wmatch_star_unfold, IH, IHs. reflexivity.
    + destruct s as [|x s]; cbn [LP.wmatch wmatch]; [reflexivity|]. rewrite IH. reflexivity.
Qed.

Lemma expand_conv : forall p, map pelem_conv (LP.expand p) = pattern_elems p.
Proof.
  induction p as [|[w lit] p IH]; [reflexivity|].
  unfold LP.expand, pattern_elems in *. cbn [flat_map fst snd]. rewrite !map_app, IH.
  f_equal. f_equal.
  - destruct w; reflexivity.
  - rewrite map_map. reflexivity.
Qed.

Lemma is_nil_true (A : Type) (l : list A) : is_nil l = true -> l = [].
Proof. destruct l; [reflexivity | discriminate]. Qed.

Lemma is_nil_false (A : Type) (l : list A) : negb (is_nil l) = true -> l <> [].
Proof. destruct l; [discriminate | intros _ H; discriminate H]. Qed.

Lemma tailokb_tailok : forall p, tailokb p = true -> LP.tailok p.
Proof.
  induction p as [|[w l] p IH]; cbn [tailokb LP.tailok]; [trivial|].
  intros H. apply andb_prop in H. destruct H as [H H3]. apply andb_prop in H. destruct H as [H1 H2].
  split; [exact H1|]. split; [|apply IH; exact H3].
  apply orb_prop in H2. destruct H2 as [H2|H2]; [left; apply is_nil_true; exact H2 | right; apply is_nil_false; exact H2].
Qed.

Lemma wfb_wf : forall p, wfb p = true -> LP.wf p.
Proof.
  intros [|[w l] p]; cbn [wfb LP.wf]; [trivial|].
  intros H. apply andb_prop in H. destruct H as [H1 H2].
  split; [|apply tailokb_tailok; exact H2].
  intros ->. cbn [negb orb] in H1.
  apply orb_prop in H1. destruct H1 as [H1|H1]; [left; apply is_nil_true; exact H1 | right; apply is_nil_false; exact H1].
Qed.

Lemma like_agree p s : wfb p = true -> go_match p s = wmatch (pattern_elems p) s.
Proof.
  intros H. rewrite (LP.go_match_wf p (wfb_wf p H)), wmatch_conv, expand_conv. reflexivity.
Qed.

(* every pattern built by NewPattern satisfies the side condition *)
Lemma tailok_tailokb : forall p, LP.tailok p -> tailokb p = true.
Proof.
  induction p as [|[w l] p IH]; cbn [tailokb LP.tailok]; [trivial|].
  intros [-> [H2 H3]]. rewrite (IH H3). cbn [andb]. rewrite andb_true_r.
  destruct H2 as [->|H2]; [reflexivity|]. destruct l; [congruence|]. apply orb_true_r.
Qed.

Lemma compile_pattern_wfb cs : wfb (compile_pattern cs) = true.
Proof.
  pose proof (LP.compile_pattern_wf cs) as H. destruct (compile_pattern cs) as [|[w l] p]; [reflexivity|].
  cbn [LP.wf wfb] in *. destruct H as [H1 H2]. rewrite (tailok_tailokb p H2), andb_true_r.
  destruct w; [|reflexivity]. cbn [negb orb]. destruct (H1 eq_refl) as [->|H]; [reflexivity|].
  destruct l; [congruence|]. apply orb_true_r.
Qed.

(* ------------------------------------------------------------------ *)
(* 3. results whose numbers are int64; agreement                       *)
(* ------------------------------------------------------------------ *)

Definition res_ok (r : res) : Prop := match r with Ok v => num_ok v = true | Err _ => True end.
Definition agree (r s : res) : Prop := r = s /\ res_ok r.

Ltac triv := split; [reflexivity | first [exact I | reflexivity | assumption]].
Ltac dres r :=
  let v := fresh "v" in let k := fresh "k" in
  destruct r as [v|k]; [destruct v; try triv | triv].

Lemma fits_agree (mk : Z -> value) r z :
  (forall x, num_ok (mk x) = in64b x) -> (in64 z -> r = z) ->
  agree (if in64b z then Ok (mk r) else Err EOverflow) (fits z mk).
Proof.
  intros Hmk Hr. unfold fits. destruct (in64b z) eqn:E; [|triv].
  rewrite (Hr (proj1 (in64b_spec z) E)). split; [reflexivity|]. cbn [res_ok]. rewrite Hmk. exact E.
Qed.

Lemma num_long z : num_ok (VLong z) = true -> in64 z.
Proof. apply in64b_spec. Qed.

Lemma arith_add_agree r1 r2 : res_ok r1 -> res_ok r2 ->
  agree (arith_eval r1 r2 checkedAddI64) (spec_arith r1 r2 Z.add).
Proof.
  intros O1 O2. unfold arith_eval, spec_arith. dres r1. dres r2.
  cbn [bindr sbind as_long]. apply num_long in O1, O2. rewrite (checked_add_spec _ _ O1 O2).
  apply (fits_agree VLong); [reflexivity | apply wrap64_id].
Qed.

Lemma arith_sub_agree r1 r2 : res_ok r1 -> res_ok r2 ->
  agree (arith_eval r1 r2 checkedSubI64) (spec_arith r1 r2 Z.sub).
Proof.
  intros O1 O2. unfold arith_eval, spec_arith. dres r1. dres r2.
  cbn [bindr sbind as_long]. apply num_long in O1, O2. rewrite (checked_sub_spec _ _ O1 O2).
  apply (fits_agree VLong); [reflexivity | apply wrap64_id].
Qed.

Lemma arith_mul_agree r1 r2 : res_ok r1 -> res_ok r2 ->
  agree (arith_eval r1 r2 checkedMulI64) (spec_arith r1 r2 Z.mul).
Proof.
  intros O1 O2. unfold arith_eval, spec_arith. dres r1. dres r2.
  cbn [bindr sbind as_long]. apply num_long in O1, O2. rewrite (checked_mul_result _ _ O1 O2).
  apply (fits_agree VLong); [reflexivity|]. intros H.
  apply (proj2 (checked_mul_spec _ _ O1 O2)). apply in64b_spec. exact H.
Qed.

Lemma neg_agree r1 : res_ok r1 ->
  agree (bindr r1 (fun v => as_long v (fun x =>
           let '(r, ok) := checkedNegI64 x in if ok then Ok (VLong r) else Err EOverflow)))
        (sbind r1 (fun v => match v with VLong x => fits (- x) VLong | _ => Err EType end)).
Proof.
  intros O1. dres r1. cbn [bindr sbind as_long]. apply num_long in O1. rewrite (checked_neg_spec _ O1).
  apply (fits_agree VLong); [reflexivity|]. intros H.
  apply in64b_spec in H. rewrite H. apply wrap64_id. apply in64b_spec. exact H.
Qed.

Lemma cmp_agree r1 r2 f g : (forall x y, f x y = g x y) -> agree (cmp_eval r1 r2 f) (spec_cmp r1 r2 g).
Proof.
  intros Hfg. unfold cmp_eval, spec_cmp.
  dres r1; dres r2; cbn; rewrite Hfg; triv.
Qed.

(* ------------------------------------------------------------------ *)
(* 4. datetime / duration primitives                                   *)
(* ------------------------------------------------------------------ *)

Lemma day_rem ms :
  (if gorem ms MillisPerDay <? 0 then wrap64 (gorem ms MillisPerDay + MillisPerDay) else gorem ms MillisPerDay)
  = ms mod MillisPerDay.
Proof.
  change MillisPerDay with 86400000. unfold gorem.
  pose proof (Z.rem_bound_abs ms 86400000 ltac:(discriminate)) as Hb.
  pose proof (Z.quot_rem' ms 86400000) as Hq.
  destruct (Z.rem ms 86400000 <? 0) eqn:E.
  - apply Z.ltb_lt in E. rewrite wrap64_id by (unf; lia).
    apply Z.mod_unique with (q := Z.quot ms 86400000 - 1); lia.
  - apply Z.ltb_ge in E. apply Z.mod_unique with (q := Z.quot ms 86400000); lia.
Qed.

Lemma day_mod_range ms : 0 <= ms mod MillisPerDay < 86400000.
Proof. change MillisPerDay with 86400000. apply Z.mod_pos_bound. reflexivity. Qed.

Lemma to_date_agree ms : in64 ms -> agree (to_date ms) (spec_to_date ms).
Proof.
  intros Hms. unfold to_date, spec_to_date. cbv zeta. rewrite day_rem.
  pose proof (day_mod_range ms) as Hr.
  rewrite (checked_sub_spec ms (ms mod MillisPerDay) Hms ltac:(unf; lia)).
  replace (ms / MillisPerDay * MillisPerDay) with (ms - ms mod MillisPerDay)
    by (pose proof (Z.div_mod ms MillisPerDay ltac:(discriminate)); lia).
  apply (fits_agree VDatetime); [reflexivity | apply wrap64_id].
Qed.

Lemma to_time_agree ms : agree (to_time ms) (spec_to_time ms).
Proof.
  unfold to_time, spec_to_time. cbv zeta. rewrite day_rem. split; [reflexivity|].
  pose proof (day_mod_range ms) as Hr. cbn [res_ok num_ok]. apply in64b_spec. unf. lia.
Qed.

Lemma goquot_id d c : in64 d -> 0 < c -> goquot d c = Z.quot d c /\ in64 (Z.quot d c).
Proof.
  intros Hd Hc. assert (H : in64 (Z.quot d c)).
  { pose proof (Z.quot_rem' d c) as Hq. pose proof (Z.rem_bound_abs d c ltac:(lia)) as Hb.
    unf. destruct (Z_lt_le_dec d 0); nia. }
  split; [apply wrap64_id; exact H | exact H].
Qed.

Lemma quot_agree r1 c c' : c = c' -> 0 < c -> res_ok r1 ->
  agree (bindr r1 (fun v => as_duration v (fun d => Ok (VLong (goquot d c)))))
        (sbind r1 (fun v => want_duration v (fun d => Ok (VLong (Z.quot d c'))))).
Proof.
  intros <- Hc O1. dres r1. cbn [bindr sbind as_duration want_duration].
  destruct (goquot_id z c (proj1 (in64b_spec z) O1) Hc) as [-> Hin].
  split; [reflexivity|]. cbn [res_ok num_ok]. apply in64b_spec. exact Hin.
Qed.

(* parse_datetime: every accepted text passes in_dt_range (proved here from the definition, so that this
   file does not depend on Proofs/DatetimeProofs.v) *)
Definition es_parse_tail (year : Z) (s : str) : option Z :=
    s <- expect_char s 45 ;;
    p <- take_uint s 2 12 ;; let '(month, s) := p in
    s <- expect_char s 45 ;;
    p <- take_uint s 2 31 ;; let '(day, s) := p in
    if (month <? 1) || (day <? 1) || (day >? days_in_month year month) then None else
    let days := days_from_civil year month day in
    match s with
    | [] => let ms := days * MillisPerDay in if in_dt_range ms then Some ms else None
    | _ =>
      s <- expect_char s 84 ;;
      p <- take_uint s 2 23 ;; let '(hour, s) := p in
      s <- expect_char s 58 ;;
      p <- take_uint s 2 59 ;; let '(minute, s) := p in
      s <- expect_char s 58 ;;
      p <- take_uint s 2 59 ;; let '(second, s) := p in
      match s with
      | [] => None
      | _ =>
        p <- (match s with
              | 46 :: s' => take_uint s' 3 999
              | _ => Some (0, s) end) ;; let '(milli, s) := p in
        match s with
        | [] => None
        | z :: s' =>
          p <- (if z =? 90 then Some (0, s')
                else if (z =? 43) || (z =? 45) then
                  q <- take_uint s' 2 23 ;; let '(hh, s2) := q in
                  q <- take_uint s2 2 59 ;; let '(mm, s3) := q in
                  let off := (hh * MillisPerHour + mm * MillisPerMinute) in
                  Some (if z =? 45 then - off else off, s3)
                else None) ;; let '(offset, s) := p in
          match s with
          | _ :: _ => None
          | [] =>
            let ms := days * MillisPerDay + hour * MillisPerHour + minute * MillisPerMinute
                      + second * MillisPerSecond + milli - offset in
            if in_dt_range ms then Some ms else None
          end
        end
      end
    end.

Lemma es_parse_datetime_unfold : forall c rest,
  parse_datetime (c :: rest) =
  if c =? 43 then (p <- take_uint rest 9 999999999 ;; let '(ay, s) := p in es_parse_tail (ay * 1) s)
  else if c =? 45 then (p <- take_uint rest 9 999999999 ;; let '(ay, s) := p in es_parse_tail (ay * -1) s)
  else if is_digit c then (p <- take_uint (c :: rest) 4 9999 ;; let '(ay, s) := p in es_parse_tail (ay * 1) s)
  else None.
Proof.
  intros c rest. unfold parse_datetime.
  destruct (c =? 43); [reflexivity|]. destruct (c =? 45); [reflexivity|].
  destruct (is_digit c); reflexivity.
Qed.

Ltac es_step H :=
  match type of H with
  | bind ?o _ = Some _ =>
      let E := fresh "E" in destruct o as [?|] eqn:E; [cbn [bind] in H | discriminate H]
  | (let '(_, _) := ?p in _) = Some _ => destruct p as [? ?]
  | (if ?b then _ else _) = Some _ => let Hb := fresh "Hb" in destruct b eqn:Hb
  | (match ?s with [] => _ | _ :: _ => _ end) = Some _ => destruct s as [|? ?]
  | None = Some _ => discriminate H
  end.

Lemma es_parse_tail_in_range : forall year s z, es_parse_tail year s = Some z -> in_dt_range z = true.
Proof.
  intros year s z H. unfold es_parse_tail in H.
  repeat es_step H; cbv zeta in H; repeat es_step H; inversion H; subst; assumption.
Qed.

Lemma parse_datetime_in64 : forall s z, parse_datetime s = Some z -> in64 z.
Proof.
  intros s z H. assert (Hr : in_dt_range z = true).
  { destruct s as [|c rest]; [discriminate H|].
    rewrite es_parse_datetime_unfold in H.
    repeat es_step H; eapply es_parse_tail_in_range; eassumption. }
  unfold in_dt_range, min_datetime_bound in Hr. apply andb_prop in Hr. destruct Hr as [H1 H2].
  apply Z.leb_le in H1, H2. unf. lia.
Qed.

(* ------------------------------------------------------------------ *)
(* 5. `in`: fuelled search = saturation                                *)
(* ------------------------------------------------------------------ *)

Lemma all_entities_eq : forall l, all_entities l = entities_of l.
Proof. induction l as [|v l IH]; [reflexivity|]. destruct v; cbn [all_entities entities_of]; try reflexivity; rewrite IH; reflexivity. Qed.

Lemma in_one_spec st a b : in_one st a b = Some (spec_in_one st a b).
Proof.
  destruct (eval_in_one_correct st a b) as [r [Hr Hiff]]. rewrite Hr. f_equal.
  apply LP.bool_eq_iff. rewrite Hiff. symmetry. apply spec_in_one_reach.
Qed.

Lemma in_set_spec st a bs : in_set st a bs = Some (spec_in_set st a bs).
Proof.
  destruct (eval_in_set_correct st a bs) as [r [Hr Hiff]]. rewrite Hr. f_equal.
  apply LP.bool_eq_iff. rewrite Hiff. unfold spec_in_set. rewrite existsb_exists.
  split; intros [b [Hb H]]; exists b; (split; [exact Hb|]); apply spec_in_one_reach; exact H.
Qed.

Lemma do_in_spec st u w : do_in st u w = spec_in st u w.
Proof.
  destruct w; try reflexivity; cbn [do_in spec_in].
  - rewrite in_one_spec. reflexivity.
  - rewrite all_entities_eq. destruct (entities_of l) as [us|]; [|reflexivity].
    rewrite in_set_spec. reflexivity.
Qed.

Lemma do_in_agree st u w : agree (do_in st u w) (spec_in st u w).
Proof.
  split; [apply do_in_spec|]. rewrite do_in_spec. destruct w; try exact I; cbn [spec_in].
  - reflexivity.
  - destruct (entities_of l); [reflexivity | exact I].
Qed.

(* ------------------------------------------------------------------ *)
(* 6. sets, records, attributes                                        *)
(* ------------------------------------------------------------------ *)

Definition fields_ok (l : list (str * value)) : bool := forallb (fun kv => num_ok (snd kv)) l.

Lemma dedup_In x : forall l acc, In x (dedup l acc) -> In x l \/ In x acc.
Proof.
  induction l as [|y l IH]; intros acc; cbn [dedup].
  - intros H. right. apply in_rev. exact H.
  - destruct (vmem y acc); intros H; apply IH in H; cbn [In] in *; tauto.
Qed.

Lemma mk_set_ok vs : forallb num_ok vs = true -> num_ok (mk_set vs) = true.
Proof.
  intros H. unfold mk_set. cbn [num_ok]. apply forallb_forall. intros x Hx.
  apply dedup_In in Hx. destruct Hx as [Hx|[]]. rewrite forallb_forall in H. apply H. exact Hx.
Qed.

Lemma seq_res_eq : forall rs, seq_res rs = sseq rs.
Proof.
  induction rs as [|r rs IH]; [reflexivity|]. destruct r; cbn [seq_res sseq]; [rewrite IH|]; reflexivity.
Qed.

Lemma seq_rec_eq : forall rs, seq_rec rs = sseq_rec rs.
Proof.
  induction rs as [|[k r] rs IH]; [reflexivity|]. destruct r; cbn [seq_rec sseq_rec]; [rewrite IH|]; reflexivity.
Qed.

Lemma seq_res_ok : forall rs, Forall res_ok rs ->
  match seq_res rs with inl e => res_ok e | inr vs => forallb num_ok vs = true end.
Proof.
  induction rs as [|r rs IH]; intros H; [reflexivity|].
  inversion H as [|r' rs' Hr Hrs]; subst. destruct r as [v|k]; cbn [seq_res]; [|exact I].
  specialize (IH Hrs). destruct (seq_res rs) as [e|vs]; [exact IH|].
  cbn [forallb]. cbn [res_ok] in Hr. rewrite Hr, IH. reflexivity.
Qed.

Lemma seq_rec_ok : forall rs, Forall (fun kr : str * res => res_ok (snd kr)) rs ->
  match seq_rec rs with inl e => res_ok e | inr fs => fields_ok fs = true end.
Proof.
  induction rs as [|[k r] rs IH]; intros H; [reflexivity|].
  inversion H as [|r' rs' Hr Hrs]; subst. destruct r as [v|e]; cbn [seq_rec]; [|exact I].
  specialize (IH Hrs). destruct (seq_rec rs) as [e|fs]; [exact IH|].
  unfold fields_ok in *. cbn [forallb snd]. cbn [res_ok snd] in Hr. rewrite Hr, IH. reflexivity.
Qed.

Lemma rec_insert_Forall (A : Type) (P : str * A -> Prop) k v : forall l,
  P (k, v) -> Forall P l -> Forall P (rec_insert k v l).
Proof.
  induction l as [|[k' v'] l IH]; intros Hkv Hl; cbn [rec_insert].
  - constructor; [exact Hkv | constructor].
  - inversion Hl as [|x l' Hx Hl']; subst.
    destruct (str_ltb k k'); [constructor; assumption|].
    destruct (str_eqb k k'); constructor; auto.
Qed.

Lemma rec_of_list_Forall (A : Type) (P : str * A -> Prop) : forall kvs,
  Forall P kvs -> Forall P (rec_of_list kvs).
Proof.
  intros kvs H. unfold rec_of_list.
  assert (G : forall acc, Forall P acc -> Forall P (fold_left (fun acc kv => rec_insert (fst kv) (snd kv) acc) kvs acc)).
  { induction H as [|[k v] kvs Hx Hkvs IH]; intros acc Hacc; cbn [fold_left]; [exact Hacc|].
    apply IH. apply rec_insert_Forall; assumption. }
  apply G. constructor.
Qed.

Lemma rec_get_ok k : forall l x, fields_ok l = true -> rec_get k l = Some x -> num_ok x = true.
Proof.
  induction l as [|[k' v] l IH]; intros x Hl Hg; cbn [rec_get] in Hg; [discriminate|].
  unfold fields_ok in Hl. cbn [forallb snd] in Hl. apply andb_prop in Hl. destruct Hl as [Hv Hl].
  destruct (str_eqb k k'); [inversion Hg; subst; exact Hv | apply IH; assumption].
Qed.

Definition store_ok (st : store) : Prop := forallb (fun ue : uid * entity => entity_ok (snd ue)) st = true.

Lemma lookup_ok : forall st u e, store_ok st -> lookup st u = Some e -> entity_ok e = true.
Proof.
  induction st as [|[k e'] st IH]; intros u e Hst Hl; cbn [lookup] in Hl; [discriminate|].
  unfold store_ok in Hst. cbn [forallb snd] in Hst. apply andb_prop in Hst. destruct Hst as [He Hst].
  destruct (uid_eqb k u); [inversion Hl; subst; exact He | eapply IH; eassumption].
Qed.

Lemma lookup_attrs_ok st u e : store_ok st -> lookup st u = Some e -> fields_ok (e_attrs e) = true.
Proof. intros Hst Hl. pose proof (lookup_ok st u e Hst Hl) as H. apply andb_prop in H. apply H. Qed.

Lemma lookup_tags_ok st u e : store_ok st -> lookup st u = Some e -> fields_ok (e_tags e) = true.
Proof. intros Hst Hl. pose proof (lookup_ok st u e Hst Hl) as H. apply andb_prop in H. apply H. Qed.

Lemma zero_uid_eq u : is_zero_uid u = unspecified u.
Proof. destruct u as [[|x t] [|y i]]; reflexivity. Qed.

Lemma get_attr_agree st v k : store_ok st -> num_ok v = true ->
  agree (get_attr st v k) (spec_get_attr st v k).
Proof.
  intros Hst Hv. destruct v; try triv; unfold get_attr, spec_get_attr.
  - rewrite <- zero_uid_eq. destruct (is_zero_uid (ty, id)); [triv|].
    destruct (lookup st (ty, id)) as [e|] eqn:El; [|triv].
    destruct (rec_get k (e_attrs e)) as [x|] eqn:Eg; [|triv].
    split; [reflexivity|]. eapply rec_get_ok; [eapply lookup_attrs_ok; eassumption | exact Eg].
  - destruct (rec_get k l) as [x|] eqn:Eg; [|triv].
    split; [reflexivity|]. eapply rec_get_ok; [exact Hv | exact Eg].
Qed.

Lemma has_attr_agree st v k : agree (has_attr st v k) (spec_has_attr st v k).
Proof.
  destruct v; try triv; unfold has_attr, spec_has_attr.
  destruct (lookup st (ty, id)); triv.
Qed.

(* ------------------------------------------------------------------ *)
(* 7. extension functions                                              *)
(* ------------------------------------------------------------------ *)

Lemma parse_agree (A : Type) (f : str -> option A) (mk : A -> value) r1 :
  (forall s x, f s = Some x -> num_ok (mk x) = true) ->
  agree (bindr r1 (fun v => as_string v (fun s => opt_res (f s) mk)))
        (sbind r1 (fun v => want_string v (fun s => sopt (f s) mk))).
Proof.
  intros Hf. dres r1. cbn [bindr sbind as_string want_string]. unfold opt_res, sopt.
  destruct (f s) as [x|] eqn:E; [|triv]. split; [reflexivity|]. eapply Hf. exact E.
Qed.

Lemma nth_res_ok rs n : Forall res_ok rs -> res_ok (nth_res rs n).
Proof.
  intros H. unfold nth_res. revert n. induction H as [|r rs Hr Hrs IH]; intros [|n]; cbn [nth]; auto; exact I.
Qed.

Lemma call_agree name rs : Forall res_ok rs -> agree (call_ext name rs) (spec_call name rs).
Proof.
  intros Hrs. unfold call_ext, spec_call.
  change (sext_lookup name) with (ext_lookup name).
  destruct (ext_lookup name) as [[ar fl]|]; [|triv].
  destruct (negb (Z.of_nat (length rs) =? ar)); [triv|].
  change snth with nth_res. change sname with name_is.
  pose proof (nth_res_ok rs 0 Hrs) as O0. pose proof (nth_res_ok rs 1 Hrs) as O1.
  cbv zeta. generalize dependent (nth_res rs 1). generalize dependent (nth_res rs 0). intros a0 O0 a1 O1.
  destruct (name_is name "datetime").
  { apply (parse_agree Z parse_datetime VDatetime). intros s x H. apply in64b_spec. eapply parse_datetime_in64. exact H. }
  destruct (name_is name "decimal").
  { apply (parse_agree Z parse_decimal VDecimal). intros s x H. apply in64b_spec. eapply decimal_parse_in_range. exact H. }
  destruct (name_is name "duration").
  { apply (parse_agree Z parse_duration VDuration). intros s x H. apply in64b_spec. eapply duration_parse_in_range. exact H. }
  destruct (name_is name "ip").
  { apply (parse_agree _ parse_ip). intros s x H. reflexivity. }
  destruct (name_is name "lessThan"). { dres a0. dres a1. }
  destruct (name_is name "lessThanOrEqual"). { dres a0. dres a1. }
  destruct (name_is name "greaterThan").
  { dres a0. dres a1. cbn [bindr sbind as_decimal want_decimal]. rewrite Z.gtb_ltb. triv. }
  destruct (name_is name "greaterThanOrEqual").
  { dres a0. dres a1. cbn [bindr sbind as_decimal want_decimal]. rewrite Z.geb_leb. triv. }
  destruct (name_is name "isIpv4"). { dres a0. }
  destruct (name_is name "isIpv6"). { dres a0. }
  destruct (name_is name "isLoopback"). { dres a0. }
  destruct (name_is name "isMulticast"). { dres a0. }
  destruct (name_is name "isInRange"). { dres a0. dres a1. }
  destruct (name_is name "toDate").
  { dres a0. cbn [bindr sbind as_datetime want_datetime]. apply to_date_agree. apply in64b_spec. exact O0. }
  destruct (name_is name "toTime").
  { dres a0. cbn [bindr sbind as_datetime want_datetime]. apply to_time_agree. }
  destruct (name_is name "toMilliseconds"). { dres a0. }
  destruct (name_is name "toSeconds"). { apply quot_agree; [reflexivity | reflexivity | exact O0]. }
  destruct (name_is name "toMinutes"). { apply quot_agree; [reflexivity | reflexivity | exact O0]. }
  destruct (name_is name "toHours"). { apply quot_agree; [reflexivity | reflexivity | exact O0]. }
  destruct (name_is name "toDays"). { apply quot_agree; [reflexivity | reflexivity | exact O0]. }
  destruct (name_is name "offset").
  { dres a0. dres a1. cbn [bindr sbind as_datetime want_datetime as_duration want_duration].
    cbn [res_ok num_ok] in O0, O1. apply in64b_spec in O0, O1. rewrite (checked_add_spec _ _ O0 O1).
    apply (fits_agree VDatetime); [reflexivity | apply wrap64_id]. }
  destruct (name_is name "durationSince").
  { dres a0. dres a1. cbn [bindr sbind as_datetime want_datetime].
    cbn [res_ok num_ok] in O0, O1. apply in64b_spec in O0, O1. rewrite (checked_sub_spec _ _ O0 O1).
    apply (fits_agree VDuration); [reflexivity | apply wrap64_id]. }
  triv.
Qed.

(* ------------------------------------------------------------------ *)
(* 8. the evaluator refines the specification                          *)
(* ------------------------------------------------------------------ *)

Section Main.
  Variable en : env.
  Hypothesis Hen : env_ok en = true.

  Lemma env_parts :
    num_ok (e_principal en) = true /\ num_ok (e_action en) = true /\ num_ok (e_resource en) = true /\
    num_ok (e_context en) = true /\ store_ok (e_store en).
  Proof.
    pose proof Hen as H. unfold env_ok in H.
    apply andb_prop in H. destruct H as [H H5]. apply andb_prop in H. destruct H as [H H4].
    apply andb_prop in H. destruct H as [H H3]. apply andb_prop in H. destruct H as [H1 H2].
    unfold store_ok. auto.
  Qed.

  Lemma env_store_ok : store_ok (e_store en).
  Proof. apply env_parts. Qed.

  Definition refines_at (e : expr) : Prop := expr_ok e = true -> agree (eval en e) (seval en e).

  Lemma map_good : forall es, Forall refines_at es -> forallb expr_ok es = true ->
    map (eval en) es = map (seval en) es /\ Forall res_ok (map (eval en) es).
  Proof.
    induction es as [|e es IH]; intros HF Hok; cbn [map]; [split; [reflexivity | constructor]|].
    inversion HF as [|e' es' He Hes]; subst. cbn [forallb] in Hok. apply andb_prop in Hok. destruct Hok as [Hoke Hokes].
    destruct (He Hoke) as [Ee Oe]. destruct (IH Hes Hokes) as [Ees Oes].
    split; [rewrite Ee, Ees; reflexivity | constructor; assumption].
  Qed.

  Lemma map_good_kv : forall kvs : list (str * expr), Forall (fun kv => refines_at (snd kv)) kvs ->
    forallb (fun kv => expr_ok (snd kv)) kvs = true ->
    map (fun kv => (fst kv, eval en (snd kv))) kvs = map (fun kv => (fst kv, seval en (snd kv))) kvs /\
    Forall (fun kr : str * res => res_ok (snd kr)) (map (fun kv => (fst kv, eval en (snd kv))) kvs).
  Proof.
    induction kvs as [|kv kvs IH]; intros HF Hok; cbn [map]; [split; [reflexivity | constructor]|].
    inversion HF as [|e' es' He Hes]; subst. cbn [forallb] in Hok. apply andb_prop in Hok. destruct Hok as [Hoke Hokes].
    destruct (He Hoke) as [Ee Oe]. destruct (IH Hes Hokes) as [Ees Oes].
    split; [rewrite Ee, Ees; reflexivity | constructor; assumption].
  Qed.

  Ltac two IHa IHb Hok :=
    cbn [expr_ok] in Hok; apply andb_prop in Hok;
    let Ha := fresh "Ha" in let Hb := fresh "Hb" in destruct Hok as [Ha Hb];
    let Ea := fresh "Ea" in let Oa := fresh "Oa" in let Eb := fresh "Eb" in let Ob := fresh "Ob" in
    destruct (IHa Ha) as [Ea Oa]; destruct (IHb Hb) as [Eb Ob];
    cbn [eval seval]; rewrite <- Ea, <- Eb; clear Ea Eb IHa IHb;
    revert Oa Ob;
    match goal with |- res_ok ?x -> res_ok ?y -> _ =>
      generalize x; let r1 := fresh "r1" in intros r1; generalize y; let r2 := fresh "r2" in intros r2 end.

  Ltac one IHa Hok :=
    cbn [expr_ok] in Hok;
    let Ea := fresh "Ea" in let Oa := fresh "Oa" in
    destruct (IHa Hok) as [Ea Oa];
    cbn [eval seval]; rewrite <- Ea; clear Ea IHa;
    revert Oa;
    match goal with |- res_ok ?x -> _ => generalize x; let r1 := fresh "r1" in intros r1 end.

  Theorem eval_good : forall e, refines_at e.
  Proof.
    induction e using expr_ind'; unfold refines_at in *; intros Hok.
    - (* ELit *) split; [reflexivity | exact Hok].
    - (* EVar *) split; [reflexivity|]. destruct x; cbn [eval var_value res_ok]; apply env_parts.
    - (* EAnd *) two IHe1 IHe2 Hok. intros O1 O2. dres r1. destruct b; [|triv]. dres r2.
    - (* EOr *) two IHe1 IHe2 Hok. intros O1 O2. dres r1. destruct b; [triv|]. dres r2.
    - (* ENot *) one IHe Hok. intros O1. dres r1.
    - (* ENeg *) one IHe Hok. apply neg_agree.
    - (* EAdd *) two IHe1 IHe2 Hok. apply arith_add_agree.
    - (* ESub *) two IHe1 IHe2 Hok. apply arith_sub_agree.
    - (* EMul *) two IHe1 IHe2 Hok. apply arith_mul_agree.
    - (* EEq *) two IHe1 IHe2 Hok. intros O1 O2. destruct r1; [|triv]. destruct r2; triv.
    - (* ENe *) two IHe1 IHe2 Hok. intros O1 O2. destruct r1; [|triv]. destruct r2; triv.
    - (* ELt *) two IHe1 IHe2 Hok. intros _ _. apply cmp_agree. reflexivity.
    - (* ELe *) two IHe1 IHe2 Hok. intros _ _. apply cmp_agree. reflexivity.
    - (* EGt *) two IHe1 IHe2 Hok. intros _ _. apply cmp_agree. intros x y. symmetry. apply Z.ltb_antisym.
    - (* EGe *) two IHe1 IHe2 Hok. intros _ _. apply cmp_agree. intros x y. symmetry. apply Z.leb_antisym.
    - (* EIn *) two IHe1 IHe2 Hok. intros O1 O2. dres r1. destruct r2; [|triv].
      cbn [bindr sbind as_entity want_entity]. apply do_in_agree.
    - (* EContains *) two IHe1 IHe2 Hok. intros O1 O2. dres r1. destruct r2; triv.
    - (* EContainsAll *) two IHe1 IHe2 Hok. intros O1 O2. dres r1. dres r2.
    - (* EContainsAny *) two IHe1 IHe2 Hok. intros O1 O2. dres r1. dres r2.
    - (* EIsEmpty *) one IHe Hok. intros O1. dres r1.
    - (* EAccess *) one IHe Hok. intros O1. destruct r1 as [v|]; [|triv].
      cbn [bindr sbind]. apply get_attr_agree; [exact env_store_ok | exact O1].
    - (* EHas *) one IHe Hok. intros O1. destruct r1 as [v|]; [|triv].
      cbn [bindr sbind]. apply has_attr_agree.
    - (* EGetTag *) two IHe1 IHe2 Hok. intros O1 O2. dres r1.
      cbn [bindr sbind as_entity want_entity]. rewrite <- zero_uid_eq.
      destruct (is_zero_uid (ty, id)); [triv|]. dres r2. cbn [bindr sbind as_string want_string].
      destruct (lookup (e_store en) (ty, id)) as [ent|] eqn:El; [|triv].
      destruct (rec_get s (e_tags ent)) as [x|] eqn:Eg; [|triv].
      split; [reflexivity|]. eapply rec_get_ok; [eapply lookup_tags_ok; [exact env_store_ok | exact El] | exact Eg].
    - (* EHasTag *) two IHe1 IHe2 Hok. intros O1 O2. dres r1. dres r2.
      cbn [bindr sbind as_entity want_entity as_string want_string].
      destruct (lookup (e_store en) (ty, id)); triv.
    - (* ELike *) cbn [expr_ok] in Hok. apply andb_prop in Hok. destruct Hok as [Hok Hp].
      one IHe Hok. intros O1. dres r1. cbn [bindr sbind as_string want_string].
      rewrite (like_agree p s Hp). triv.
    - (* EIs *) one IHe Hok. intros O1. dres r1.
    - (* EIsIn *) two IHe1 IHe2 Hok. intros O1 O2. dres r1.
      cbn [bindr sbind as_entity want_entity fst]. destruct (str_eqb ty0 ty); cbn [negb]; [|triv].
      destruct r2; [|triv]. cbn [bindr sbind]. apply do_in_agree.
    - (* EIf *) cbn [expr_ok] in Hok. apply andb_prop in Hok. destruct Hok as [Hok H3].
      apply andb_prop in Hok. destruct Hok as [H1 H2].
      destruct (IHe1 H1) as [E1 O1]. destruct (IHe2 H2) as [E2 O2]. destruct (IHe3 H3) as [E3 O3].
      cbn [eval seval]. rewrite <- E1, <- E2, <- E3. clear E1 E2 E3.
      destruct (eval en e1) as [v|]; [|triv]. destruct v; try triv.
      destruct b; (split; [reflexivity | assumption]).
    - (* ESet *) cbn [expr_ok] in Hok. destruct (map_good es H Hok) as [Em Om].
      cbn [eval seval]. rewrite <- Em. change sseq with seq_res. clear Em.
      pose proof (seq_res_ok _ Om) as Hs. destruct (seq_res (map (eval en) es)) as [e|vs].
      + split; [reflexivity | exact Hs].
      + split; [reflexivity | apply mk_set_ok; exact Hs].
    - (* ERecord *) cbn [expr_ok] in Hok. destruct (map_good_kv kvs H Hok) as [Em Om].
      cbn [eval seval]. rewrite <- Em. change sseq_rec with seq_rec. clear Em.
      apply rec_of_list_Forall in Om. pose proof (seq_rec_ok _ Om) as Hs.
      destruct (seq_rec _) as [e|fs]; split; try reflexivity; exact Hs.
    - (* ECall *) cbn [expr_ok] in Hok. destruct (map_good args H Hok) as [Em Om].
      cbn [eval seval]. rewrite <- Em. apply call_agree. exact Om.
    - (* EPartialError *) triv.
  Qed.
End Main.

Theorem eval_refines_spec : forall en e, env_ok en = true -> expr_ok e = true -> eval en e = seval en e.
Proof. intros en e Hen He. apply (eval_good en Hen e He). Qed.

Theorem eval_preserves_num_ok : forall en e v,
  env_ok en = true -> expr_ok e = true -> eval en e = Ok v -> num_ok v = true.
Proof.
  intros en e v Hen He Hv. destruct (eval_good en Hen e He) as [_ H]. rewrite Hv in H. exact H.
Qed.

(* ------------------------------------------------------------------ *)
(* 9. the evaluator never runs out of fuel                             *)
(* ------------------------------------------------------------------ *)

(* [EPartialError EFuel] evaluates to [Err EFuel] by definition of eval, so the statement needs the side
   condition that the expression does not contain that node (the translator never produces it: EFuel is the
   model's own error class, no Go error maps to it). *)
Definition not_fuel (k : errk) : bool := match k with EFuel => false | _ => true end.

Fixpoint no_fuel_node (e : expr) : bool :=
  match e with
  | ELit _ | EVar _ => true
  | EAnd a b | EOr a b | EAdd a b | ESub a b | EMul a b | EEq a b | ENe a b
  | ELt a b | ELe a b | EGt a b | EGe a b | EIn a b
  | EContains a b | EContainsAll a b | EContainsAny a b
  | EGetTag a b | EHasTag a b => no_fuel_node a && no_fuel_node b
  | ENot a | ENeg a | EIsEmpty a | EAccess a _ | EHas a _ | EIs a _ | ELike a _ => no_fuel_node a
  | EIsIn a _ b => no_fuel_node a && no_fuel_node b
  | EIf c t f => no_fuel_node c && no_fuel_node t && no_fuel_node f
  | ESet es => forallb no_fuel_node es
  | ERecord kvs => forallb (fun kv => no_fuel_node (snd kv)) kvs
  | ECall _ args => forallb no_fuel_node args
  | EPartialError k => not_fuel k
  end.

Example fuel_counterexample : forall en, eval en (EPartialError EFuel) = Err EFuel.
Proof. reflexivity. Qed.

Definition nf (r : res) : Prop := match r with Err EFuel => False | _ => True end.

Lemma nf_neq r : nf r -> r <> Err EFuel.
Proof. intros H E. subst r. exact H. Qed.

Ltac dnf r H :=
  let v := fresh "v" in let k := fresh "k" in
  destruct r as [v|k]; [destruct v; try exact I | exact H].

Lemma arith_nf r1 r2 op : nf r1 -> nf r2 -> nf (arith_eval r1 r2 op).
Proof.
  intros N1 N2. unfold arith_eval. dnf r1 N1. dnf r2 N2. cbn [bindr as_long].
  destruct (op z z0) as [r ok]. destruct ok; exact I.
Qed.

Lemma cmp_nf r1 r2 f : nf r1 -> nf r2 -> nf (cmp_eval r1 r2 f).
Proof. intros N1 N2. unfold cmp_eval. dnf r1 N1; dnf r2 N2. Qed.

Lemma do_in_nf st u w : nf (do_in st u w).
Proof.
  rewrite do_in_spec. destruct w; try exact I; cbn [spec_in].
  destruct (entities_of l); exact I.
Qed.

Lemma get_attr_nf st v k : nf (get_attr st v k).
Proof.
  destruct v; try exact I; unfold get_attr.
  - destruct (is_zero_uid (ty, id)); [exact I|]. destruct (lookup st (ty, id)) as [e|]; [|exact I].
    destruct (rec_get k (e_attrs e)); exact I.
  - destruct (rec_get k l); exact I.
Qed.

Lemma has_attr_nf st v k : nf (has_attr st v k).
Proof. destruct v; try exact I; unfold has_attr. destruct (lookup st (ty, id)); exact I. Qed.

Lemma seq_res_nf : forall rs, Forall nf rs -> match seq_res rs with inl e => nf e | inr _ => True end.
Proof.
  induction rs as [|r rs IH]; intros H; [exact I|]. inversion H as [|r' rs' Hr Hrs]; subst.
  destruct r as [v|k]; cbn [seq_res]; [|exact Hr]. specialize (IH Hrs). destruct (seq_res rs); [exact IH | exact I].
Qed.

Lemma seq_rec_nf : forall rs, Forall (fun kr : str * res => nf (snd kr)) rs ->
  match seq_rec rs with inl e => nf e | inr _ => True end.
Proof.
  induction rs as [|[k r] rs IH]; intros H; [exact I|]. inversion H as [|r' rs' Hr Hrs]; subst.
  destruct r as [v|e]; cbn [seq_rec]; [|exact Hr]. specialize (IH Hrs). destruct (seq_rec rs); [exact IH | exact I].
Qed.

Lemma nth_res_nf rs n : Forall nf rs -> nf (nth_res rs n).
Proof.
  intros H. unfold nth_res. revert n. induction H as [|r rs Hr Hrs IH]; intros [|n]; cbn [nth]; auto; exact I.
Qed.

Lemma opt_res_nf (A : Type) (o : option A) mk : nf (opt_res o mk).
Proof. destruct o; exact I. Qed.

Lemma call_nf name rs : Forall nf rs -> nf (call_ext name rs).
Proof.
  intros Hrs. unfold call_ext.
  destruct (ext_lookup name) as [[ar fl]|]; [|exact I].
  destruct (negb (Z.of_nat (length rs) =? ar)); [exact I|].
  pose proof (nth_res_nf rs 0 Hrs) as N0. pose proof (nth_res_nf rs 1 Hrs) as N1.
  cbv zeta. generalize dependent (nth_res rs 1). generalize dependent (nth_res rs 0). intros a0 N0 a1 N1.
  destruct (name_is name "datetime"). { dnf a0 N0. apply opt_res_nf. }
  destruct (name_is name "decimal"). { dnf a0 N0. apply opt_res_nf. }
  destruct (name_is name "duration"). { dnf a0 N0. apply opt_res_nf. }
  destruct (name_is name "ip"). { dnf a0 N0. apply opt_res_nf. }
  destruct (name_is name "lessThan"). { dnf a0 N0. dnf a1 N1. }
  destruct (name_is name "lessThanOrEqual"). { dnf a0 N0. dnf a1 N1. }
  destruct (name_is name "greaterThan"). { dnf a0 N0. dnf a1 N1. }
  destruct (name_is name "greaterThanOrEqual"). { dnf a0 N0. dnf a1 N1. }
  destruct (name_is name "isIpv4"). { dnf a0 N0. }
  destruct (name_is name "isIpv6"). { dnf a0 N0. }
  destruct (name_is name "isLoopback"). { dnf a0 N0. }
  destruct (name_is name "isMulticast"). { dnf a0 N0. }
  destruct (name_is name "isInRange"). { dnf a0 N0. dnf a1 N1. }
  destruct (name_is name "toDate").
  { dnf a0 N0. cbn [bindr as_datetime]. unfold to_date. cbv zeta.
    destruct (checkedSubI64 _ _) as [r ok]. destruct ok; exact I. }
  destruct (name_is name "toTime"). { dnf a0 N0. }
  destruct (name_is name "toMilliseconds"). { dnf a0 N0. }
  destruct (name_is name "toSeconds"). { dnf a0 N0. }
  destruct (name_is name "toMinutes"). { dnf a0 N0. }
  destruct (name_is name "toHours"). { dnf a0 N0. }
  destruct (name_is name "toDays"). { dnf a0 N0. }
  destruct (name_is name "offset").
  { dnf a0 N0. dnf a1 N1. cbn [bindr as_datetime as_duration].
    destruct (checkedAddI64 _ _) as [r ok]. destruct ok; exact I. }
  destruct (name_is name "durationSince").
  { dnf a0 N0. dnf a1 N1. cbn [bindr as_datetime].
    destruct (checkedSubI64 _ _) as [r ok]. destruct ok; exact I. }
  exact I.
Qed.

Section NoFuel.
  Variable en : env.

  Definition nfgood (e : expr) : Prop := no_fuel_node e = true -> nf (eval en e).

  Lemma map_nf : forall es, Forall nfgood es -> forallb no_fuel_node es = true -> Forall nf (map (eval en) es).
  Proof.
    induction es as [|e es IH]; intros HF Hok; cbn [map]; [constructor|].
    inversion HF as [|e' es' He Hes]; subst. cbn [forallb] in Hok. apply andb_prop in Hok. destruct Hok as [H1 H2].
    constructor; [apply He; exact H1 | apply IH; assumption].
  Qed.

  Lemma map_nf_kv : forall kvs : list (str * expr), Forall (fun kv => nfgood (snd kv)) kvs ->
    forallb (fun kv => no_fuel_node (snd kv)) kvs = true ->
    Forall (fun kr : str * res => nf (snd kr)) (map (fun kv => (fst kv, eval en (snd kv))) kvs).
  Proof.
    induction kvs as [|kv kvs IH]; intros HF Hok; cbn [map]; [constructor|].
    inversion HF as [|e' es' He Hes]; subst. cbn [forallb] in Hok. apply andb_prop in Hok. destruct Hok as [H1 H2].
    constructor; [apply He; exact H1 | apply IH; assumption].
  Qed.

  Ltac two IHa IHb Hok :=
    cbn [no_fuel_node] in Hok; apply andb_prop in Hok;
    let Ha := fresh "Ha" in let Hb := fresh "Hb" in destruct Hok as [Ha Hb];
    let Na := fresh "Na" in let Nb := fresh "Nb" in
    pose proof (IHa Ha) as Na; pose proof (IHb Hb) as Nb;
    cbn [eval]; clear IHa IHb;
    revert Na Nb;
    match goal with |- nf ?x -> nf ?y -> _ =>
      generalize x; let r1 := fresh "r1" in intros r1; generalize y; let r2 := fresh "r2" in intros r2 end;
    let N1 := fresh "N1" in let N2 := fresh "N2" in intros N1 N2.

  Ltac one IHa Hok :=
    cbn [no_fuel_node] in Hok;
    let Na := fresh "Na" in pose proof (IHa Hok) as Na;
    cbn [eval]; clear IHa;
    revert Na;
    match goal with |- nf ?x -> _ => generalize x; let r1 := fresh "r1" in intros r1 end;
    let N1 := fresh "N1" in intros N1.

  Theorem eval_nf : forall e, nfgood e.
  Proof.
    induction e using expr_ind'; unfold nfgood in *; intros Hok.
    - exact I.
    - exact I.
    - (* EAnd *) two IHe1 IHe2 Hok. dnf r1 N1. destruct b; [|exact I]. dnf r2 N2.
    - (* EOr *) two IHe1 IHe2 Hok. dnf r1 N1. destruct b; [exact I|]. dnf r2 N2.
    - (* ENot *) one IHe Hok. dnf r1 N1.
    - (* ENeg *) one IHe Hok. dnf r1 N1. cbn [bindr as_long]. destruct (checkedNegI64 z) as [r ok]. destruct ok; exact I.
    - two IHe1 IHe2 Hok. apply arith_nf; assumption.
    - two IHe1 IHe2 Hok. apply arith_nf; assumption.
    - two IHe1 IHe2 Hok. apply arith_nf; assumption.
    - (* EEq *) two IHe1 IHe2 Hok. destruct r1; [|exact N1]. destruct r2; [exact I | exact N2].
    - (* ENe *) two IHe1 IHe2 Hok. destruct r1; [|exact N1]. destruct r2; [exact I | exact N2].
    - two IHe1 IHe2 Hok. apply cmp_nf; assumption.
    - two IHe1 IHe2 Hok. apply cmp_nf; assumption.
    - two IHe1 IHe2 Hok. apply cmp_nf; assumption.
    - two IHe1 IHe2 Hok. apply cmp_nf; assumption.
    - (* EIn *) two IHe1 IHe2 Hok. dnf r1 N1. destruct r2; [|exact N2]. apply do_in_nf.
    - (* EContains *) two IHe1 IHe2 Hok. dnf r1 N1. destruct r2; [exact I | exact N2].
    - (* EContainsAll *) two IHe1 IHe2 Hok. dnf r1 N1. dnf r2 N2.
    - (* EContainsAny *) two IHe1 IHe2 Hok. dnf r1 N1. dnf r2 N2.
    - (* EIsEmpty *) one IHe Hok. dnf r1 N1.
    - (* EAccess *) one IHe Hok. destruct r1; [|exact N1]. apply get_attr_nf.
    - (* EHas *) one IHe Hok. destruct r1; [|exact N1]. apply has_attr_nf.
    - (* EGetTag *) two IHe1 IHe2 Hok. dnf r1 N1. cbn [bindr as_entity].
      destruct (is_zero_uid (ty, id)); [exact I|]. dnf r2 N2. cbn [bindr as_string].
      destruct (lookup (e_store en) (ty, id)) as [ent|]; [|exact I]. destruct (rec_get s (e_tags ent)); exact I.
    - (* EHasTag *) two IHe1 IHe2 Hok. dnf r1 N1. dnf r2 N2. cbn [bindr as_entity as_string].
      destruct (lookup (e_store en) (ty, id)); exact I.
    - (* ELike *) one IHe Hok. dnf r1 N1.
    - (* EIs *) one IHe Hok. dnf r1 N1.
    - (* EIsIn *) two IHe1 IHe2 Hok. dnf r1 N1. cbn [bindr as_entity].
      destruct (negb (str_eqb (fst (ty0, id)) ty)); [exact I|]. destruct r2; [|exact N2]. apply do_in_nf.
    - (* EIf *) cbn [no_fuel_node] in Hok. apply andb_prop in Hok. destruct Hok as [Hok H3].
      apply andb_prop in Hok. destruct Hok as [H1 H2].
      pose proof (IHe1 H1) as N1. pose proof (IHe2 H2) as N2. pose proof (IHe3 H3) as N3.
      cbn [eval]. destruct (eval en e1) as [v|]; [|exact N1]. destruct v; try exact I.
      destruct b; assumption.
    - (* ESet *) cbn [no_fuel_node] in Hok. pose proof (seq_res_nf _ (map_nf es H Hok)) as Hs.
      cbn [eval]. destruct (seq_res (map (eval en) es)); [exact Hs | exact I].
    - (* ERecord *) cbn [no_fuel_node] in Hok. pose proof (map_nf_kv kvs H Hok) as Hm.
      apply rec_of_list_Forall in Hm. pose proof (seq_rec_nf _ Hm) as Hs.
      cbn [eval]. destruct (seq_rec _); [exact Hs | exact I].
    - (* ECall *) cbn [no_fuel_node] in Hok. cbn [eval]. apply call_nf. apply map_nf; assumption.
    - (* EPartialError *) cbn [no_fuel_node] in Hok. cbn [eval]. destruct k; try exact I. discriminate Hok.
  Qed.
End NoFuel.

Theorem eval_never_out_of_fuel : forall en e, no_fuel_node e = true -> eval en e <> Err EFuel.
Proof. intros en e H. apply nf_neq. apply eval_nf. exact H. Qed.

(* ------------------------------------------------------------------ *)
(* 10. examples                                                        *)
(* ------------------------------------------------------------------ *)

Definition es_ent (ps : list uid) : entity := {| e_parents := ps; e_attrs := []; e_tags := [] |}.
Definition es_u (t i : string) : uid := (s_of t, s_of i).
Definition es_v (t i : string) : value := VEntity (s_of t) (s_of i).

(* alice -> devs -> eng -> all, plus an unrelated group; devs also points back to alice (a cycle) *)
Definition es_store : store :=
  [ (es_u "User" "alice", es_ent [es_u "Group" "devs"]);
    (es_u "Group" "devs", es_ent [es_u "Group" "eng"; es_u "User" "alice"]);
    (es_u "Group" "eng", es_ent [es_u "Group" "all"]);
    (es_u "Group" "all", es_ent []);
    (es_u "Group" "ops", es_ent [es_u "Group" "all"]) ].

Definition es_env : env :=
  {| e_store := es_store; e_principal := es_v "User" "alice"; e_action := es_v "Action" "view";
     e_resource := es_v "Doc" "d1"; e_context := VRecord [] |}.

(* if 3 * 4 < 13 then 9223372036854775807 + 1 else false : the addition overflows on both sides *)
Definition ex_overflow : expr :=
  EIf (ELt (EMul (ELit (VLong 3)) (ELit (VLong 4))) (ELit (VLong 13)))
      (EAdd (ELit (VLong 9223372036854775807)) (ELit (VLong 1)))
      (ELit (VBool false)).

Example ex_overflow_agree :
  eval es_env ex_overflow = Err EOverflow /\ seval es_env ex_overflow = Err EOverflow /\
  env_ok es_env = true /\ expr_ok ex_overflow = true.
Proof. vm_compute. auto. Qed.

(* the same with 9223372036854775807 + (-1): both give the exact sum *)
Example ex_no_overflow_agree :
  let e := EAdd (ELit (VLong 9223372036854775807)) (ENeg (ELit (VLong 1))) in
  eval es_env e = Ok (VLong 9223372036854775806) /\ seval es_env e = Ok (VLong 9223372036854775806).
Proof. vm_compute. auto. Qed.

(* principal in Group::"all" (three levels up), principal in Group::"ops" (unrelated),
   principal in [Group::"ops", Group::"eng"] *)
Example ex_in_agree :
  let e1 := EIn (EVar VPrincipal) (ELit (es_v "Group" "all")) in
  let e2 := EIn (EVar VPrincipal) (ELit (es_v "Group" "ops")) in
  let e3 := EIn (EVar VPrincipal) (ESet [ELit (es_v "Group" "ops"); ELit (es_v "Group" "eng")]) in
  eval es_env e1 = Ok (VBool true) /\ seval es_env e1 = Ok (VBool true) /\
  eval es_env e2 = Ok (VBool false) /\ seval es_env e2 = Ok (VBool false) /\
  eval es_env e3 = Ok (VBool true) /\ seval es_env e3 = Ok (VBool true).
Proof. vm_compute. repeat split. Qed.

Print Assumptions spec_in_one_reach.
Print Assumptions eval_refines_spec.
Print Assumptions eval_preserves_num_ok.
Print Assumptions eval_never_out_of_fuel.
Print Assumptions compile_pattern_wfb.
