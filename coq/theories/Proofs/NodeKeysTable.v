(* The policy-JSON decoder's key table is the one the code declares.

   Generated/Tables.v carries, read off the code by the translator on every run:
   - `node_json_field_keys`: the JSON keys in the struct tags of the typed fields of nodeJSON (internal/json/json.go);
   - `node_json_tonode_keys`: the keys of the fields in the order the switch of nodeJSON.ToNode (internal/json/json_unmarshal.go)
     examines them - the order that decides which member wins when an object carries several.
   Impl/PolicyJson.node_keys is the list the model's decoder (and every C09 theorem about it) uses.  A key renamed, added or dropped
   in the struct, or two cases of the switch exchanged, breaks one of these theorems before any input is drawn. *)
From Coq Require Import List String Bool.
From Cedar Require Import Generated.Tables Impl.PolicyJson.
Import ListNotations.

Theorem node_keys_are_tonode_order : node_keys = node_json_tonode_keys.
Proof. vm_compute. reflexivity. Qed.

Definition subset_b (a b : list string) : bool := forallb (fun k => existsb (String.eqb k) b) a.

Lemma subset_b_In a b : subset_b a b = true -> forall k, In k a -> In k b.
Proof.
  unfold subset_b. intros H k Hk. rewrite forallb_forall in H. specialize (H k Hk).
  apply existsb_exists in H. destruct H as [x [Hx He]]. apply String.eqb_eq in He. subst x. exact Hx.
Qed.

(* every typed field of the struct is examined by ToNode and ToNode examines nothing else: the same keys, each once *)
Theorem node_keys_are_the_declared_fields :
  (forall k, In k node_keys <-> In k node_json_field_keys) /\ List.length node_keys = List.length node_json_field_keys.
Proof.
  split; [|vm_compute; reflexivity].
  intros k. split; apply subset_b_In; vm_compute; reflexivity.
Qed.

Print Assumptions node_keys_are_tonode_order.
Print Assumptions node_keys_are_the_declared_fields.
