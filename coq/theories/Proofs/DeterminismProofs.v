(* Determinism: the results of the modelled evaluator and authorizer do not depend on the ORDER in
   which Go happens to iterate its maps.

   In the model every Go map shows up as a list whose order is an arbitrary "schedule":
     - the entity store  [store = list (uid * entity)]  (a Go map uid -> Entity, keys unique),
     - each entity's parent set [e_parents : list uid],
     - the field map of a record literal [ERecord kvs],
     - the policy list given to [authorize].
   Determinism = invariance under permutation of these lists.  For stores we prove the stronger
   statement that evaluation only depends on the *denotation* of the store ([store_equiv]: same keys,
   pointwise the same attributes/tags and the same SET of parents); a permutation of a key-unique
   store has the same denotation ([perm_store_equiv]). *)
From Coq Require Import ZArith List Bool Permutation Lia.
Import ListNotations.
From Cedar Require Import Lang.Value Lang.Expr Impl.InSearch Impl.Eval Impl.Authorize Impl.Batch
  Proofs.ValueProofs Proofs.InSearchProofs Proofs.AuthorizeProofs.

(* ------------------------------------------------------------------------------------------ *)
(* Definitions                                                                                  *)
(* ------------------------------------------------------------------------------------------ *)

(* two stores denote the same Go map: same keys (each once), pointwise the same attrs/tags and the
   same SET of parents *)
Definition entity_equiv (e1 e2 : entity) : Prop :=
  e_attrs e1 = e_attrs e2 /\ e_tags e1 = e_tags e2 /\ (forall u, In u (e_parents e1) <-> In u (e_parents e2)).
Definition store_equiv (s1 s2 : store) : Prop :=
  forall u, match lookup s1 u, lookup s2 u with
            | Some e1, Some e2 => entity_equiv e1 e2
            | None, None => True
            | _, _ => False end.
Definition env_equiv (a b : env) : Prop :=
  store_equiv (e_store a) (e_store b) /\ e_principal a = e_principal b /\ e_action a = e_action b /\
  e_resource a = e_resource b /\ e_context a = e_context b.

Lemma entity_equiv_refl e : entity_equiv e e.
Proof. unfold entity_equiv. split; [reflexivity|]. split; [reflexivity|]. intros u; tauto. Qed.

Lemma entity_equiv_sym e1 e2 : entity_equiv e1 e2 -> entity_equiv e2 e1.
Proof.
  intros [Ha [Ht Hp]]. split; [symmetry; exact Ha|]. split; [symmetry; exact Ht|].
  intros u. symmetry. apply Hp.
Qed.

Lemma entity_equiv_trans e1 e2 e3 : entity_equiv e1 e2 -> entity_equiv e2 e3 -> entity_equiv e1 e3.
Proof.
  intros [Ha [Ht Hp]] [Ha' [Ht' Hp']]. split; [congruence|]. split; [congruence|].
  intros u. rewrite Hp. apply Hp'.
Qed.

Lemma store_equiv_refl s : store_equiv s s.
Proof. intros u. destruct (lookup s u) as [e|]; [apply entity_equiv_refl | exact I]. Qed.

Lemma store_equiv_sym s1 s2 : store_equiv s1 s2 -> store_equiv s2 s1.
Proof.
  intros H u. specialize (H u). destruct (lookup s1 u) as [e1|], (lookup s2 u) as [e2|]; auto.
  apply entity_equiv_sym. exact H.
Qed.

Lemma store_equiv_trans s1 s2 s3 : store_equiv s1 s2 -> store_equiv s2 s3 -> store_equiv s1 s3.
Proof.
  intros H12 H23 u. specialize (H12 u). specialize (H23 u).
  destruct (lookup s1 u) as [e1|], (lookup s2 u) as [e2|], (lookup s3 u) as [e3|]; auto;
    try contradiction.
  eapply entity_equiv_trans; eauto.
Qed.

Lemma env_equiv_refl en : env_equiv en en.
Proof. unfold env_equiv. split; [apply store_equiv_refl|]. auto. Qed.

Lemma env_equiv_sym a b : env_equiv a b -> env_equiv b a.
Proof.
  intros [Hs [Hp [Ha [Hr Hc]]]]. split; [apply store_equiv_sym; exact Hs|]. auto.
Qed.

(* ------------------------------------------------------------------------------------------ *)
(* Permuting a key-unique store does not change its denotation                                  *)
(* ------------------------------------------------------------------------------------------ *)

Lemma lookup_In (s : store) u e : lookup s u = Some e -> In (u, e) s.
Proof.
  induction s as [|[k e'] s IH]; cbn [lookup]; [discriminate|].
  destruct (uid_eqb k u) eqn:E.
  - apply uid_eqb_eq in E. subst k. intros H. inversion H; subst. left. reflexivity.
  - intros H. right. apply IH. exact H.
Qed.

Lemma In_lookup (s : store) u e : NoDup (map fst s) -> In (u, e) s -> lookup s u = Some e.
Proof.
  induction s as [|[k e'] s IH]; intros Hnd Hin; [destruct Hin|].
  cbn [map fst] in Hnd. inversion Hnd as [|x l Hnotin Hnd']; subst.
  cbn [lookup]. destruct Hin as [Heq|Hin].
  - inversion Heq; subst. rewrite uid_eqb_refl. reflexivity.
  - destruct (uid_eqb k u) eqn:E.
    + apply uid_eqb_eq in E. subst k. exfalso. apply Hnotin.
      change u with (fst (u, e)). apply in_map. exact Hin.
    + apply IH; assumption.
Qed.

Lemma perm_lookup (s1 s2 : store) : NoDup (map fst s1) -> Permutation s1 s2 ->
  forall u, lookup s1 u = lookup s2 u.
Proof.
  intros Hnd HP u.
  assert (Hnd2 : NoDup (map fst s2)).
  { eapply Permutation_NoDup; [apply Permutation_map; exact HP | exact Hnd]. }
  destruct (lookup s1 u) as [e1|] eqn:E1.
  - symmetry. apply In_lookup; [exact Hnd2|].
    eapply Permutation_in; [exact HP|]. apply lookup_In. exact E1.
  - destruct (lookup s2 u) as [e2|] eqn:E2; [|reflexivity].
    exfalso. apply lookup_In in E2.
    assert (Hin : In (u, e2) s1) by (eapply Permutation_in; [apply Permutation_sym; exact HP | exact E2]).
    rewrite (In_lookup s1 u e2 Hnd Hin) in E1. discriminate.
Qed.

Theorem perm_store_equiv : forall s1 s2, NoDup (map fst s1) -> Permutation s1 s2 -> store_equiv s1 s2.
Proof.
  intros s1 s2 Hnd HP u. rewrite <- (perm_lookup s1 s2 Hnd HP u).
  destruct (lookup s1 u) as [e|]; [apply entity_equiv_refl | exact I].
Qed.

(* the schedule of each parent set may change too: permuting (or duplicating in) the parent lists *)
Definition perm_parents (e1 e2 : entity) : Prop :=
  e_attrs e1 = e_attrs e2 /\ e_tags e1 = e_tags e2 /\ Permutation (e_parents e1) (e_parents e2).

Lemma perm_parents_equiv e1 e2 : perm_parents e1 e2 -> entity_equiv e1 e2.
Proof.
  intros [Ha [Ht HP]]. split; [exact Ha|]. split; [exact Ht|]. intros u. split; intros H.
  - eapply Permutation_in; [exact HP | exact H].
  - eapply Permutation_in; [apply Permutation_sym; exact HP | exact H].
Qed.

Lemma lookup_Forall2 (s1 s2 : store) :
  Forall2 (fun x y => fst x = fst y /\ entity_equiv (snd x) (snd y)) s1 s2 -> store_equiv s1 s2.
Proof.
  induction 1 as [|[k1 e1] [k2 e2] s1 s2 [Hk He] HF IH]; intros u; cbn [lookup]; [exact I|].
  cbn [fst snd] in Hk, He. subst k2. destruct (uid_eqb k1 u); [exact He | apply IH].
Qed.

(* general form: reorder the store AND reorder every parent list *)
Theorem reschedule_store_equiv : forall s1 s1' s2,
  NoDup (map fst s1) -> Permutation s1 s1' ->
  Forall2 (fun x y => fst x = fst y /\ perm_parents (snd x) (snd y)) s1' s2 ->
  store_equiv s1 s2.
Proof.
  intros s1 s1' s2 Hnd HP HF. apply store_equiv_trans with s1'.
  - apply perm_store_equiv; assumption.
  - apply lookup_Forall2. clear HP Hnd.
    induction HF as [|x y l1 l2 [Hk Hp] HF IH]; constructor; [|exact IH].
    split; [exact Hk | apply perm_parents_equiv; exact Hp].
Qed.

(* ------------------------------------------------------------------------------------------ *)
(* The ancestor search                                                                          *)
(* ------------------------------------------------------------------------------------------ *)

Lemma edge_equiv s1 s2 x y : store_equiv s1 s2 ->
  edge uid (parents_of s1) x y -> edge uid (parents_of s2) x y.
Proof.
  intros HS [ps [Hps Hin]]. specialize (HS x). unfold parents_of in Hps.
  destruct (lookup s1 x) as [e1|]; [|discriminate]. cbn [option_map] in Hps.
  inversion Hps; subst ps.
  destruct (lookup s2 x) as [e2|] eqn:E2; [|contradiction].
  destruct HS as [_ [_ Hp]]. exists (e_parents e2). split; [|apply Hp; exact Hin].
  unfold parents_of. rewrite E2. reflexivity.
Qed.

Lemma reach_equiv_1 s1 s2 a b : store_equiv s1 s2 -> reach_st s1 a b -> reach_st s2 a b.
Proof.
  intros HS Hr. unfold reach_st in *. induction Hr as [|y z Hy IH Hyz].
  - apply r_refl.
  - apply r_step with y; [exact IH|]. eapply edge_equiv; eauto.
Qed.

Lemma reach_equiv s1 s2 a b : store_equiv s1 s2 -> (reach_st s1 a b <-> reach_st s2 a b).
Proof.
  intros HS. split; apply reach_equiv_1; [exact HS | apply store_equiv_sym; exact HS].
Qed.

Lemma bool_same_truth (r1 r2 : bool) (Q : Prop) : (r1 = true <-> Q) -> (r2 = true <-> Q) -> r1 = r2.
Proof.
  intros H1 H2. destruct r1, r2; auto.
  - symmetry. apply H2. apply H1. reflexivity.
  - apply H1. apply H2. reflexivity.
Qed.

Theorem in_one_store_invariant : forall s1 s2 a b, store_equiv s1 s2 -> in_one s1 a b = in_one s2 a b.
Proof.
  intros s1 s2 a b HS.
  destruct (eval_in_one_correct s1 a b) as [r1 [E1 H1]].
  destruct (eval_in_one_correct s2 a b) as [r2 [E2 H2]].
  rewrite E1, E2. f_equal. apply (bool_same_truth r1 r2 (reach_st s2 a b)); [|exact H2].
  rewrite H1. apply reach_equiv. exact HS.
Qed.

Theorem in_set_invariant : forall s1 s2 a bs1 bs2, store_equiv s1 s2 -> (forall u, In u bs1 <-> In u bs2) ->
   in_set s1 a bs1 = in_set s2 a bs2.
Proof.
  intros s1 s2 a bs1 bs2 HS HB.
  destruct (eval_in_set_correct s1 a bs1) as [r1 [E1 H1]].
  destruct (eval_in_set_correct s2 a bs2) as [r2 [E2 H2]].
  rewrite E1, E2. f_equal.
  apply (bool_same_truth r1 r2 (exists b, In b bs2 /\ reach_st s2 a b)); [|exact H2].
  rewrite H1. split; intros [b [Hin Hr]]; exists b.
  - split; [apply HB; exact Hin | apply (reach_equiv s1 s2 a b HS); exact Hr].
  - split; [apply HB; exact Hin | apply (reach_equiv s1 s2 a b HS); exact Hr].
Qed.

(* ------------------------------------------------------------------------------------------ *)
(* The evaluator                                                                                *)
(* ------------------------------------------------------------------------------------------ *)

Lemma bindr_ext r f g : (forall v, f v = g v) -> bindr r f = bindr r g.
Proof. intros H. destruct r as [v|k]; cbn [bindr]; [apply H | reflexivity]. Qed.

Lemma as_entity_ext v f g : (forall u, f u = g u) -> as_entity v f = as_entity v g.
Proof. intros H. destruct v; cbn [as_entity]; try reflexivity. apply H. Qed.

Lemma as_string_ext v f g : (forall s, f s = g s) -> as_string v f = as_string v g.
Proof. intros H. destruct v; cbn [as_string]; try reflexivity. apply H. Qed.

Lemma do_in_invariant s1 s2 u w : store_equiv s1 s2 -> do_in s1 u w = do_in s2 u w.
Proof.
  intros HS. destruct w; cbn [do_in]; try reflexivity.
  - rewrite (in_one_store_invariant s1 s2 u (ty, id) HS). reflexivity.
  - destruct (all_entities l) as [us|]; [|reflexivity].
    rewrite (in_set_invariant s1 s2 u us us HS); [reflexivity|]. intros x; tauto.
Qed.

Lemma get_attr_invariant s1 s2 v k : store_equiv s1 s2 -> get_attr s1 v k = get_attr s2 v k.
Proof.
  intros HS. destruct v; cbn [get_attr]; try reflexivity.
  destruct (is_zero_uid (ty, id)); [reflexivity|].
  specialize (HS (ty, id)).
  destruct (lookup s1 (ty, id)) as [e1|], (lookup s2 (ty, id)) as [e2|]; try contradiction; [|reflexivity].
  destruct HS as [Ha _]. rewrite Ha. reflexivity.
Qed.

Lemma has_attr_invariant s1 s2 v k : store_equiv s1 s2 -> has_attr s1 v k = has_attr s2 v k.
Proof.
  intros HS. destruct v; cbn [has_attr]; try reflexivity.
  specialize (HS (ty, id)).
  destruct (lookup s1 (ty, id)) as [e1|], (lookup s2 (ty, id)) as [e2|]; try contradiction; [|reflexivity].
  destruct HS as [Ha _]. rewrite Ha. reflexivity.
Qed.

Lemma get_tag_invariant s1 s2 u t : store_equiv s1 s2 ->
  match lookup s1 u with
  | None => Err EEntity
  | Some ent => match rec_get t (e_tags ent) with Some x => Ok x | None => Err ETag end
  end =
  match lookup s2 u with
  | None => Err EEntity
  | Some ent => match rec_get t (e_tags ent) with Some x => Ok x | None => Err ETag end
  end.
Proof.
  intros HS. specialize (HS u).
  destruct (lookup s1 u) as [e1|], (lookup s2 u) as [e2|]; try contradiction; [|reflexivity].
  destruct HS as [_ [Ht _]]. rewrite Ht. reflexivity.
Qed.

Lemma has_tag_invariant s1 s2 u t : store_equiv s1 s2 ->
  match lookup s1 u with
  | None => vbool false
  | Some ent => vbool (match rec_get t (e_tags ent) with Some _ => true | None => false end)
  end =
  match lookup s2 u with
  | None => vbool false
  | Some ent => vbool (match rec_get t (e_tags ent) with Some _ => true | None => false end)
  end.
Proof.
  intros HS. specialize (HS u).
  destruct (lookup s1 u) as [e1|], (lookup s2 u) as [e2|]; try contradiction; [|reflexivity].
  destruct HS as [_ [Ht _]]. rewrite Ht. reflexivity.
Qed.

Lemma var_value_invariant en1 en2 x : env_equiv en1 en2 -> var_value en1 x = var_value en2 x.
Proof. intros [_ [Hp [Ha [Hr Hc]]]]. destruct x; cbn [var_value]; assumption. Qed.

Lemma map_Forall_ext {A B} (f g : A -> B) (P : A -> Prop) l :
  (forall x, P x -> f x = g x) -> Forall P l -> map f l = map g l.
Proof.
  intros H HF. induction HF as [|x l Hx HF IH]; cbn [map]; [reflexivity|].
  rewrite (H x Hx), IH. reflexivity.
Qed.

(* value AND which error surfaces: the whole result, for every expression *)
Theorem eval_store_invariant : forall en1 en2 e, env_equiv en1 en2 -> eval en1 e = eval en2 e.
Proof.
  intros en1 en2 e HE. pose proof HE as [HS _].
  induction e as
    [ v | x | a b IHa IHb | a b IHa IHb | a IHa | a IHa | a b IHa IHb | a b IHa IHb | a b IHa IHb
    | a b IHa IHb | a b IHa IHb | a b IHa IHb | a b IHa IHb | a b IHa IHb | a b IHa IHb
    | a b IHa IHb | a b IHa IHb | a b IHa IHb | a b IHa IHb | a IHa | a k IHa | a k IHa
    | a b IHa IHb | a b IHa IHb | a p IHa | a ty IHa | a ty b IHa IHb | c t f IHc IHt IHf
    | es IHes | kvs IHkvs | n args IHargs | k ] using expr_ind';
    cbn [eval]; rewrite ?IHa, ?IHb, ?IHc, ?IHt, ?IHf;
    try (match goal with |- ?l = ?r => constr_eq l r; reflexivity end).
  - (* EVar *) rewrite (var_value_invariant en1 en2 x HE). reflexivity.
  - (* EIn *)
    apply bindr_ext; intros v. apply as_entity_ext; intros u. apply bindr_ext; intros w.
    apply do_in_invariant. exact HS.
  - (* EAccess *) apply bindr_ext; intros v. apply get_attr_invariant. exact HS.
  - (* EHas *) apply bindr_ext; intros v. apply has_attr_invariant. exact HS.
  - (* EGetTag *)
    apply bindr_ext; intros v. apply as_entity_ext; intros u.
    destruct (is_zero_uid u); [reflexivity|].
    apply bindr_ext; intros w. apply as_string_ext; intros s. apply get_tag_invariant. exact HS.
  - (* EHasTag *)
    apply bindr_ext; intros v. apply as_entity_ext; intros u.
    apply bindr_ext; intros w. apply as_string_ext; intros s. apply has_tag_invariant. exact HS.
  - (* EIsIn *)
    apply bindr_ext; intros v. apply as_entity_ext; intros u.
    destruct (negb (str_eqb (fst u) ty)); [reflexivity|].
    apply bindr_ext; intros w. apply do_in_invariant. exact HS.
  - (* ESet *)
    rewrite (map_Forall_ext (eval en1) (eval en2) _ es (fun x Hx => Hx) IHes). reflexivity.
  - (* ERecord *)
    rewrite (map_Forall_ext (fun kv : str * expr => (fst kv, eval en1 (snd kv)))
                            (fun kv : str * expr => (fst kv, eval en2 (snd kv)))
                            (fun kv => eval en1 (snd kv) = eval en2 (snd kv)) kvs).
    + reflexivity.
    + intros kv Hkv. rewrite Hkv. reflexivity.
    + exact IHkvs.
  - (* ECall *)
    rewrite (map_Forall_ext (eval en1) (eval en2) _ args (fun x Hx => Hx) IHargs). reflexivity.
Qed.

Theorem policy_outcome_invariant : forall en1 en2 p, env_equiv en1 en2 ->
   bool_eval en1 (policy_to_expr p) = bool_eval en2 (policy_to_expr p).
Proof.
  intros en1 en2 p HE. unfold bool_eval. rewrite (eval_store_invariant en1 en2 _ HE). reflexivity.
Qed.

(* the usual reading: reorder the store (keys unique), keep the request *)
Corollary eval_store_permutation : forall st1 st2 pr ac rs cx e,
  NoDup (map fst st1) -> Permutation st1 st2 ->
  eval {| e_store := st1; e_principal := pr; e_action := ac; e_resource := rs; e_context := cx |} e =
  eval {| e_store := st2; e_principal := pr; e_action := ac; e_resource := rs; e_context := cx |} e.
Proof.
  intros st1 st2 pr ac rs cx e Hnd HP. apply eval_store_invariant.
  unfold env_equiv; cbn. split; [apply perm_store_equiv; assumption|]. auto.
Qed.

(* ------------------------------------------------------------------------------------------ *)
(* The authorizer: neither the store schedule nor the policy schedule matters                    *)
(* ------------------------------------------------------------------------------------------ *)

Lemma authorize_ext {P} (eff : P -> effect) (ev1 ev2 : P -> outcome) ps :
  (forall p, ev1 p = ev2 p) -> authorize P eff ev1 ps = authorize P eff ev2 ps.
Proof.
  intros H. unfold authorize, loop.
  assert (HL : forall a, fold_left (step P eff ev1) ps a = fold_left (step P eff ev2) ps a).
  { induction ps as [|p ps IH]; intros a; cbn [fold_left]; [reflexivity|].
    rewrite IH. f_equal. unfold step. rewrite H. reflexivity. }
  rewrite HL. reflexivity.
Qed.

Definition policy_eff (ip : str * policy) : effect := if p_effect (snd ip) then Permit else Forbid.
Definition policy_ev (en : env) (ip : str * policy) : outcome :=
  outcome_of (bool_eval en (policy_to_expr (snd ip))).

Theorem authorize_deterministic : forall en1 en2 (ps1 ps2 : list (str * policy)),
  env_equiv en1 en2 -> Permutation ps1 ps2 ->
  let r1 := authorize _ policy_eff (policy_ev en1) ps1 in
  let r2 := authorize _ policy_eff (policy_ev en2) ps2 in
  dec r1 = dec r2 /\ Permutation (reasons r1) (reasons r2) /\ Permutation (errs r1) (errs r2).
Proof.
  intros en1 en2 ps1 ps2 HE HP. cbv zeta.
  rewrite (authorize_ext policy_eff (policy_ev en1) (policy_ev en2) ps1).
  - apply authorize_order_irrelevant. exact HP.
  - intros p. unfold policy_ev. rewrite (policy_outcome_invariant en1 en2 (snd p) HE). reflexivity.
Qed.

(* ------------------------------------------------------------------------------------------ *)
(* Record literals: the order in which the field map is iterated does not matter                *)
(* ------------------------------------------------------------------------------------------ *)

(* two strictly sorted association lists with the same [rec_get] are equal *)
Lemma sorted_rec_ext {A} : forall (l m : list (str * A)),
  keys_sorted l = true -> keys_sorted m = true ->
  (forall k, rec_get k l = rec_get k m) -> l = m.
Proof.
  induction l as [|[k1 x] l IH]; intros [|[k2 y] m] Hsl Hsm H.
  - reflexivity.
  - specialize (H k2). cbn [rec_get] in H. rewrite str_eqb_refl in H. discriminate.
  - specialize (H k1). cbn [rec_get] in H. rewrite str_eqb_refl in H. discriminate.
  - pose proof Hsl as Hsl0. pose proof Hsm as Hsm0.
    apply keys_sorted_cons in Hsl. destruct Hsl as [Hl1 Hsl].
    apply keys_sorted_cons in Hsm. destruct Hsm as [Hl2 Hsm].
    assert (Hk : k1 = k2).
    { destruct (str_ltb k1 k2) eqn:E1.
      { exfalso. pose proof (rec_get_lb k1 ((k2, y) :: m) Hsm0 E1) as Hn.
        specialize (H k1). rewrite Hn in H. cbn [rec_get] in H.
        rewrite str_eqb_refl in H. discriminate. }
      destruct (str_ltb k2 k1) eqn:E2.
      { exfalso. pose proof (rec_get_lb k2 ((k1, x) :: l) Hsl0 E2) as Hn.
        specialize (H k2). rewrite Hn in H. cbn [rec_get] in H.
        rewrite str_eqb_refl in H. discriminate. }
      apply str_ltb_total; assumption. }
    subst k2. pose proof (H k1) as H1. cbn [rec_get] in H1. rewrite str_eqb_refl in H1.
    inversion H1; subst y. f_equal. apply IH; [assumption | assumption |].
    intros k. destruct (str_eqb k k1) eqn:E.
    + apply str_eqb_eq in E. subst k.
      rewrite (rec_get_lb k1 l Hsl Hl1), (rec_get_lb k1 m Hsm Hl2). reflexivity.
    + specialize (H k). cbn [rec_get] in H. rewrite E in H. exact H.
Qed.

Lemma rec_get_In {A} (l : list (str * A)) k v : rec_get k l = Some v -> In (k, v) l.
Proof.
  induction l as [|[k' v'] l IH]; cbn [rec_get]; [discriminate|].
  destruct (str_eqb k k') eqn:E.
  - apply str_eqb_eq in E. subst k'. intros H. inversion H; subst. left. reflexivity.
  - intros H. right. apply IH. exact H.
Qed.

Lemma In_rec_get {A} (l : list (str * A)) k v : NoDup (map fst l) -> In (k, v) l -> rec_get k l = Some v.
Proof.
  induction l as [|[k' v'] l IH]; intros Hnd Hin; [destruct Hin|].
  cbn [map fst] in Hnd. inversion Hnd as [|x0 l0 Hnotin Hnd']; subst.
  cbn [rec_get]. destruct Hin as [Heq|Hin].
  - inversion Heq; subst. rewrite str_eqb_refl. reflexivity.
  - destruct (str_eqb k k') eqn:E.
    + apply str_eqb_eq in E. subst k'. exfalso. apply Hnotin.
      change k with (fst (k, v)). apply in_map. exact Hin.
    + apply IH; assumption.
Qed.

Lemma perm_rec_get {A} (l1 l2 : list (str * A)) : NoDup (map fst l1) -> Permutation l1 l2 ->
  forall k, rec_get k l1 = rec_get k l2.
Proof.
  intros Hnd HP k.
  assert (Hnd2 : NoDup (map fst l2)).
  { eapply Permutation_NoDup; [apply Permutation_map; exact HP | exact Hnd]. }
  destruct (rec_get k l1) as [v1|] eqn:E1.
  - symmetry. apply In_rec_get; [exact Hnd2|].
    eapply Permutation_in; [exact HP|]. apply rec_get_In. exact E1.
  - destruct (rec_get k l2) as [v2|] eqn:E2; [|reflexivity].
    exfalso. apply rec_get_In in E2.
    assert (Hin : In (k, v2) l1) by (eapply Permutation_in; [apply Permutation_sym; exact HP | exact E2]).
    rewrite (In_rec_get l1 k v2 Hnd Hin) in E1. discriminate.
Qed.

(* the canonical (sorted) form of a key-unique association list does not depend on its order *)
Theorem rec_of_list_perm {A} : forall (l1 l2 : list (str * A)),
  NoDup (map fst l1) -> Permutation l1 l2 -> rec_of_list l1 = rec_of_list l2.
Proof.
  intros l1 l2 Hnd HP. apply sorted_rec_ext; try apply rec_of_list_sorted_gen.
  intros k. rewrite !rec_of_list_get_gen.
  apply perm_rec_get.
  - eapply Permutation_NoDup; [apply Permutation_map; apply Permutation_rev | exact Hnd].
  - eapply perm_trans; [apply Permutation_sym; apply Permutation_rev|].
    eapply perm_trans; [exact HP | apply Permutation_rev].
Qed.

Theorem record_fields_order_irrelevant : forall (kvs1 kvs2 : list (str * expr)), NoDup (map fst kvs1) -> Permutation kvs1 kvs2 ->
   forall en, eval en (ERecord kvs1) = eval en (ERecord kvs2).
Proof.
  intros kvs1 kvs2 Hnd HP en. cbn [eval].
  rewrite (rec_of_list_perm (map (fun kv : str * expr => (fst kv, eval en (snd kv))) kvs1)
                            (map (fun kv : str * expr => (fst kv, eval en (snd kv))) kvs2)).
  - reflexivity.
  - rewrite map_map. cbn [fst]. exact Hnd.
  - apply Permutation_map. exact HP.
Qed.

(* ------------------------------------------------------------------------------------------ *)
(* Examples                                                                                     *)
(* ------------------------------------------------------------------------------------------ *)

Definition dx_uid (n : Z) : uid := ([69%Z], [n]).            (* E::"<n>" *)
Definition dx_ent (ps : list Z) (a : Z) : entity :=
  {| e_parents := map dx_uid ps; e_attrs := [([97%Z], VLong a)]; e_tags := [([116%Z], VLong (a + 1))] |}.

(* 0 -> {1, 2}, 1 -> {3}, 2 -> {3, 0} (cycle), 3 -> {9 (absent)}, 4 -> {} *)
Definition dx_store : store :=
  [ (dx_uid 0, dx_ent [1; 2] 10); (dx_uid 1, dx_ent [3] 11); (dx_uid 2, dx_ent [3; 0] 12);
    (dx_uid 3, dx_ent [9] 13); (dx_uid 4, dx_ent [] 14) ]%Z.

(* another schedule: the store reversed AND every parent list reversed *)
Definition dx_store' : store :=
  map (fun ke => (fst ke, {| e_parents := rev (e_parents (snd ke)); e_attrs := e_attrs (snd ke);
                             e_tags := e_tags (snd ke) |})) (rev dx_store).

Definition dx_env (st : store) : env :=
  {| e_store := st; e_principal := VEntity [69%Z] [0%Z]; e_action := VEntity [65%Z] [1%Z];
     e_resource := VEntity [69%Z] [4%Z]; e_context := VRecord [] |}.

Definition dx_ent_lit (n : Z) : expr := ELit (VEntity [69%Z] [n]).

Definition dx_exprs : list expr :=
  [ EIn (EVar VPrincipal) (dx_ent_lit 9);
    EIn (EVar VPrincipal) (dx_ent_lit 4);
    EIn (dx_ent_lit 3) (dx_ent_lit 0);
    EIn (EVar VPrincipal) (ESet [dx_ent_lit 7; dx_ent_lit 3]);
    EIn (EVar VResource) (ESet [dx_ent_lit 7; dx_ent_lit 3]);
    EIn (EVar VPrincipal) (ESet [dx_ent_lit 7; ELit (VLong 1)]);
    EAccess (dx_ent_lit 2) [97%Z];
    EAccess (dx_ent_lit 2) [98%Z];
    EAccess (dx_ent_lit 8) [97%Z];
    EHas (dx_ent_lit 3) [97%Z];
    EGetTag (dx_ent_lit 1) (ELit (VString [116%Z]));
    EHasTag (dx_ent_lit 8) (ELit (VString [116%Z]));
    EIsIn (EVar VPrincipal) [69%Z] (dx_ent_lit 3);
    ERecord [([98%Z], EAccess (dx_ent_lit 0) [97%Z]); ([97%Z], EIn (dx_ent_lit 2) (dx_ent_lit 1))] ]%Z.

Example dx_reversal_same :
  map (eval (dx_env dx_store)) dx_exprs = map (eval (dx_env (rev dx_store))) dx_exprs /\
  map (eval (dx_env dx_store)) dx_exprs = map (eval (dx_env dx_store')) dx_exprs /\
  map (eval (dx_env dx_store)) dx_exprs =
    [ Ok (VBool true); Ok (VBool false); Ok (VBool false); Ok (VBool true); Ok (VBool false); Err EType;
      Ok (VLong 12); Err EAttr; Err EEntity; Ok (VBool true); Ok (VLong 12); Ok (VBool false);
      Ok (VBool true); Ok (VRecord [([97%Z], VBool true); ([98%Z], VLong 10)]) ]%Z.
Proof. vm_compute. repeat split; reflexivity. Qed.

(* the same fact obtained from the theorems rather than by computation *)
Example dx_reversal_by_theorem : forall e, eval (dx_env dx_store) e = eval (dx_env (rev dx_store)) e.
Proof.
  intros e. apply eval_store_invariant. unfold env_equiv, dx_env; cbn [e_store e_principal e_action e_resource e_context].
  split; [|auto]. apply perm_store_equiv; [|apply Permutation_rev].
  vm_compute. repeat constructor; cbn; intuition discriminate.
Qed.

Example dx_record_order : forall en,
  eval en (ERecord [([98%Z], ELit (VLong 2)); ([97%Z], ELit (VLong 1)); ([99%Z], ELit (VLong 3))]%Z) =
  eval en (ERecord [([99%Z], ELit (VLong 3)); ([98%Z], ELit (VLong 2)); ([97%Z], ELit (VLong 1))]%Z).
Proof. intros en. vm_compute. reflexivity. Qed.

Print Assumptions perm_store_equiv.
Print Assumptions reschedule_store_equiv.
Print Assumptions in_one_store_invariant.
Print Assumptions in_set_invariant.
Print Assumptions eval_store_invariant.
Print Assumptions policy_outcome_invariant.
Print Assumptions eval_store_permutation.
Print Assumptions authorize_deterministic.
Print Assumptions rec_of_list_perm.
Print Assumptions record_fields_order_irrelevant.
