(* C15 at proof level: STRICT-MODE SOUNDNESS of the expression type checker (Impl/TypeCheck.v, model of x/exp/schema/validate) with
   respect to the evaluator (Impl/Eval.v), in the vocabulary of Lang/TypeSound.v.  Lemmas: Proofs/TypeSoundLemmas.v (must be compiled
   first: lub subsumption, injectivity of capability keys, completeness of the schema-level descendant search and of the action-graph
   search, attribute / tag lookup, extension calls).

   MAIN THEOREM (full expression language, every operator):
     Theorem typeof_sound_strict : forall sch tv e, schema_wf sch -> tenv_wf sch tv -> agraph_wf sch -> action_declared sch tv -> keys_small e = true ->
       forall caps t caps', typeof true sch tv e caps = TOk t caps' ->
       forall en, env_ok sch tv en -> actions_conform sch (e_store en) -> store_types_known sch (e_store en) -> caps_hold en caps ->
         match eval en e with
         | Ok v => vtyped v t /\ (v = VBool true -> caps_hold en caps')
         | Err k => allowed_error k = true           (* entity not in the store, overflow, extension error *)
         end.
   i.e. `sound_at sch true tv e` of Lang/TypeSound.v, where "conforming environment" additionally contains the two facts the Go entity
   validator checks and entity_ok does not state (actions_conform, store_types_known), for schemas with a well-formed action graph
   (agraph_wf), request environments whose action is a declared action (action_declared) and expressions with attribute names below
   10^39 bytes (keys_small).  agraph_wf, action_declared, actions_conform and store_types_known are used by the `in` case only
   (both of its rules: the type-level one and the action-hierarchy one for operands that denote actions).  Also proved:
     typeof_sound_strict_in_free : schema_wf sch -> tenv_wf sch tv -> in_free_small e = true -> sound_at sch true tv e
        (literally sound_at, no extra store / action hypothesis, for expressions without `in`; `is .. in` is allowed),
     typeof_strict_WT   : every type typeof produces has pairwise distinct record keys at every depth,
     typeof_true_caps   : an expression typed True establishes its capabilities whether or not it is evaluated
                          (needed for `a || b` with b : True, whose capabilities are returned although b may not run),
     permissive_unsound : the permissive-mode counterexample (F29), by vm_compute,
     strict_needs_action_conformance : without actions_conform the strict-mode statement is false (a store that env_ok admits and
                          validateActionEntity rejects; concrete witness below, with a proof that it violates actions_conform),
     strict_needs_action_declared : without action_declared it is false too (`action in action` is typed False when the request
                          action is not in ts_actions; model-level only: Go enumerates request environments from schema.Actions).

   HYPOTHESES (definitions in TypeSoundLemmas.v):
   - schema_wf sch := entity_of sch [] = None /\
                      forall n te, entity_of sch n = Some te ->
                        (forall k t q, alookup k (te_shape te) = Some (t, q) -> WT t) /\ (forall tt, te_tags te = Some tt -> WT tt)
       where WT t = the keys of every record type inside t (at any depth) are pairwise distinct.  (The empty name is not a declared
       entity type: otherwise `x.attr` on the zero UID fails with EUnspecified.  No condition on entity lubs, on CNever/CTrue/CFalse
       inside schema types, on duplicate declarations, on enums.)
   - tenv_wf sch tv := WT (CRec (tv_context tv)).      (Nothing about the principal / resource / action types.)
   - keys_small e: every attribute name k in an access `a.k` inside e is shorter than 10^39 bytes.  MODEL ARTIFACT: cap_key prints the
       length of k with Text.print_nat, which keeps 40 digits; with that bound cap_key is injective (cap_key_inj: one side small, the
       other side arbitrary), beyond it two different paths can in principle get the same key.  Go's strconv.Quote has no such limit.
   - action_declared sch tv := umem (tv_action tv) (ts_actions sch) = true.
   - agraph_wf sch :=
       (forall u, In u (ts_actions sch) <-> In u (map fst (ts_agraph sch))) /\
       (forall a ps, In (a, ps) (ts_agraph sch) -> is_action_type (fst a) = true /\ forall p, In p ps -> In p (map fst (ts_agraph sch))) /\
       (forall n, is_action_type n = true -> entity_of sch n = None /\ smem n (ts_enums sch) = false) /\
       (forall n te p, entity_of sch n = Some te -> In p (te_parents te) -> is_action_type p = false)
       (d, first conjunct) ts_actions and the keys of ts_agraph are the same set;
       (a) declared actions have action entity types and their listed parents are declared actions (resolveActions / qualifyActionType,
       validateActionMembership); (b) an action entity type is neither declared nor enumerated (Cedar reserves the name Action; Go's
       Validator.Entity tests isActionEntity first, so for such a name entity_ok and the Go code would disagree anyway); (c) no
       declared entity type has an action entity type as a parent type.  (b), (c) keep type-level paths and action-graph paths apart:
       any_descendant accepts one or the other, not a concatenation.
   - actions_conform sch st := forall u e, lookup st u = Some e -> is_action_type (fst u) = true -> entity_of sch (fst u) = None ->
                                  smem (fst u) (ts_enums sch) = false ->
                                  exists ps, aparents sch u = Some ps /\ forall p, In p (e_parents e) -> aclosure sch u p
       with aclosure sch = clos_trans of (aedge sch u p := exists ps, aparents sch u = Some ps /\ In p ps): what validateActionEntity
       checks (the action is declared; its parents are the transitive closure of its declared groups - only "are in" is used).
   - store_types_known sch st := forall u e, lookup st u = Some e ->
                                  entity_of sch (fst u) <> None \/ smem (fst u) (ts_enums sch) = true \/ is_action_type (fst u) = true
       (Validator.Entity: "entity type not found in schema").

   FINDINGS made on the way (all fixed in the Go code and the model by now; the proofs are for the fixed model):
   - hasTag on a non-singleton entity lub was typed False as soon as ONE member type had no tags;
   - `in` with an enum-typed left operand was typed False although enum entities with parents were accepted by the entity validator;
   - `in` with an action-typed left operand that does not syntactically denote an action was typed False whenever the type names
     differ, although action groups may live in another namespace (fixed: isActionTypeDescendant; is_action_ty_desc_complete here);
   - (found by the coordinator) `action in Action::"grp"` was typed True from the schema although it is false when the action entity
     is missing from the store; now Bool, reflexive membership stays True (P_in: reach is reflexive; areach_complete for False).
   No operator is excluded. *)
From Coq Require Import ZArith List Bool String Lia Relations Arith.
Import ListNotations.
From Cedar Require Import Base.Int64 Lang.Value Impl.Like Lang.Expr Impl.InSearch Impl.Eval Impl.TypeCheck Lang.TypeSound
  Impl.Decimal Impl.Duration Impl.Datetime Impl.IPAddr Generated.Tables Generated.Kernels
  Proofs.ValueProofs Proofs.InSearchProofs Proofs.TypeSoundLemmas.
Local Open Scope Z_scope.

(* ------------------------------------------------------------------ *)
(* The sub-language                                                     *)
(* ------------------------------------------------------------------ *)
(* [core ai e]: - every attribute name used in an access `a.k` is shorter than 10^39 bytes (the model's capability keys print the
                   length with Text.print_nat, which truncates beyond 40 digits),
                 - if [ai = false], e contains no `in` (the `is ... in` form is always allowed).
   keys_small = core true, in_free_small = core false (end of file). *)
Fixpoint core (ai : bool) (e : expr) : bool :=
  let fix go (l : list expr) : bool := match l with [] => true | x :: r => core ai x && go r end in
  let fix gokv (l : list (str * expr)) : bool := match l with [] => true | (_, x) :: r => core ai x && gokv r end in
  match e with
  | ELit _ | EVar _ | EPartialError _ => true
  | EIn a b => ai && core ai a && core ai b
  | EAnd a b | EOr a b | EEq a b | ENe a b | ELt a b | ELe a b | EGt a b | EGe a b | EAdd a b | ESub a b | EMul a b
  | EContains a b | EContainsAll a b | EContainsAny a b | EGetTag a b | EHasTag a b => core ai a && core ai b
  | EAccess a k => short_key k && core ai a
  | ENeg a | ENot a | EIsEmpty a | EHas a _ | ELike a _ | EIs a _ => core ai a
  | EIsIn a _ b => core ai a && core ai b
  | EIf c t f => core ai c && core ai t && core ai f
  | ESet es => go es
  | ERecord kvs => gokv kvs
  | ECall _ args => go args
  end.

Lemma core_set ai es : core ai (ESet es) = forallb (core ai) es.
Proof. induction es as [|x r IH]; [reflexivity|]. cbn [forallb]. rewrite <- IH. reflexivity. Qed.
Lemma core_call ai n es : core ai (ECall n es) = forallb (core ai) es.
Proof. induction es as [|x r IH]; [reflexivity|]. cbn [forallb]. rewrite <- IH. reflexivity. Qed.
Lemma core_record ai kvs : core ai (ERecord kvs) = forallb (fun kv => core ai (snd kv)) kvs.
Proof. induction kvs as [|[k x] r IH]; [reflexivity|]. cbn [forallb snd]. rewrite <- IH. reflexivity. Qed.

Lemma core_short_path ai a : core ai a = true -> short_path a = true.
Proof.
  induction a; intros H; try reflexivity.
  cbn [core short_path] in *. apply andb_true_iff in H. destruct H as [H1 H2]. rewrite H1. cbn [andb]. auto.
Qed.

(* ------------------------------------------------------------------ *)
(* The inner loops of typeof, named                                     *)
(* ------------------------------------------------------------------ *)
Definition rec_go (tf : expr -> tres) (caps : list cap) : list (str * expr) -> attrs -> tres :=
  fix go (l : list (str * expr)) (acc : attrs) : tres :=
    match l with
    | [] => TOk (CRec acc) caps
    | (k, x) :: r =>
        match tf x with
        | TOk t _ => go r ((k, (t, true)) :: filter (fun kv : str * (cty * bool) => negb (str_eqb (fst kv) k)) acc)
        | TErr => match go r acc with TUnk => TUnk | _ => TErr end
        | TUnk => TUnk
        end
    end.

Definition set_go (tf : expr -> tres) (caps : list cap) : list expr -> cty -> bool -> tres :=
  fix go (l : list expr) (acc : cty) (bad : bool) : tres :=
    match l with
    | [] => if bad then TErr else TOk (CSet acc) caps
    | x :: r =>
        match tf x with
        | TOk t _ =>
            if bad then go r acc true else
            if negb (strict_ent_lub_ok true acc t) then go r acc true else
            match lub' true acc t with Some u => go r u false | None => go r acc true end
        | TErr => go r acc true
        | TUnk => TUnk
        end
    end.

Definition call_go (tf : expr -> tres) (caps : list cap) (ret : cty) (lit_problem : bool) : list expr -> list cty -> bool -> tres :=
  fix go (l : list expr) (tys : list cty) (bad : bool) : tres :=
    match l, tys with
    | x :: r, ty :: tr =>
        match tf x with
        | TOk t _ => go r tr (bad || negb (arg_subtype t ty))
        | TErr => go r tr true
        | TUnk => TUnk
        end
    | _, _ => if bad || lit_problem then TErr else TOk ret caps
    end.

Section Main.
  Variable sch : tschema.
  Variable tv : tenv.
  Hypothesis Hwf : schema_wf sch.
  Hypothesis Htv : tenv_wf sch tv.
  Variable ai : bool.
  (* what the `in` case needs beyond env_ok: the hypotheses on the store, and that the request environment's action is a declared
     action (request environments are enumerated from the schema's actions) *)
  Definition in_env_hyps (st : store) : Prop := in_hyps sch st /\ umem (tv_action tv) (ts_actions sch) = true.

  Local Notation T := (typeof true sch tv).

  Lemma typeof_record kvs caps : T (ERecord kvs) caps = rec_go (fun x => T x caps) caps kvs [].
  Proof. reflexivity. Qed.
  Lemma typeof_set x es caps : T (ESet (x :: es)) caps = set_go (fun x => T x caps) caps (x :: es) CNever false.
  Proof. reflexivity. Qed.
  Lemma typeof_call name args caps :
    T (ECall name args) caps =
    match ext_sig name with
    | None => TErr
    | Some (ctor, argtys, ret) =>
        if negb (Nat.eqb (List.length args) (List.length argtys)) then
          (if existsb (fun x => match T x caps with TUnk => true | _ => false end) args then TUnk else TErr)
        else
          call_go (fun x => T x caps) caps ret
            (ctor && match args with
                     | [ELit (VString s)] => negb (ext_literal_ok name s)
                     | [ELit _] => false
                     | [_] => true
                     | _ => false
                     end) args argtys false
    end.
  Proof. reflexivity. Qed.

  Definition res_sound (en : env) (t : cty) (caps' : list cap) (r : res) : Prop :=
    match r with
    | Ok v => vtyped v t /\ (v = VBool true -> caps_hold en caps')
    | Err k => allowed_error k = true
    end.

  Definition P (e : expr) : Prop :=
    core ai e = true ->
    forall caps t caps', T e caps = TOk t caps' ->
      WT t /\
      forall en, env_ok sch tv en -> (ai = true -> in_env_hyps (e_store en)) -> caps_hold en caps ->
        res_sound en t caps' (eval en e) /\ ((t = CTrue \/ t = CNever) -> caps_hold en caps').

  Lemma res_sound_ok en t c r : res_sound en t c r -> res_ok r t.
  Proof. destruct r; cbn; tauto. Qed.

  Lemma simple en t caps r : caps_hold en caps -> res_ok r t ->
    res_sound en t caps r /\ ((t = CTrue \/ t = CNever) -> caps_hold en caps).
  Proof. intros Hc Hr. split; [|auto]. destruct r; cbn in *; auto. Qed.

  Lemma type_of_value_sound v t : type_of_value sch v = Some t -> vtyped v t /\ WT t.
  Proof.
    destruct v; cbn [type_of_value]; try discriminate; try (intros H; inversion H; subst; split; [constructor | exact I]; fail).
    - destruct b; intros H; inversion H; subst; split; try constructor; exact I.
    - unfold type_of_uid. cbn [fst].
      destruct (known_entity_type sch ty); [intros H; inversion H; subst; split; [constructor; left; reflexivity | exact I]|].
      match goal with |- (if ?c then _ else _) = _ -> _ => destruct c end; [|discriminate].
      intros H; inversion H; subst; split; [constructor; left; reflexivity | exact I].
  Qed.

  Lemma P_lit v : P (ELit v).
  Proof.
    intros _ caps t caps' H. cbn [typeof] in H.
    destruct (type_of_value sch v) as [t0|] eqn:E; [|discriminate]. inversion H; subst.
    destruct (type_of_value_sound _ _ E) as [Hv Hw]. split; [exact Hw|].
    intros en _ _ Hc. apply simple; [exact Hc | exact Hv].
  Qed.

  Lemma P_var x : P (EVar x).
  Proof.
    intros _ caps t caps' H.
    destruct x; cbn [typeof] in H; inversion H; subst; (split; [try exact I; try (exact Htv)|]);
      intros en (Hst & Hp & Ha & Hr & Hc) _ Hcaps; apply simple; auto; cbn [eval var_value res_ok]; auto.
    rewrite Ha. constructor. left. reflexivity.
  Qed.

  Lemma P_perr k : P (EPartialError k).
  Proof. intros _ caps t caps' H. cbn [typeof] in H. discriminate. Qed.
  Lemma vbi w t : vtyped w t -> is_bool_ty t = true -> exists b, w = VBool b.
  Proof. intros H1 H2. eapply vtyped_bool_inv; eauto. Qed.

  Lemma caps_app en a b : caps_hold en a -> caps_hold en b -> caps_hold en (a ++ b).
  Proof. intros Ha Hb. unfold caps_hold. apply Forall_app. auto. Qed.

  Lemma P_and a b : P a -> P b -> P (EAnd a b).
  Proof.
    intros IHa IHb Hcore caps t caps' H. cbn [core] in Hcore. apply andb_true_iff in Hcore. destruct Hcore as [Hca Hcb].
    cbn [typeof] in H.
    destruct (T a caps) as [lt lcaps| |] eqn:Ha; try discriminate.
    destruct (IHa Hca _ _ _ Ha) as [Hwa Hsa].
    destruct lt; try discriminate; cbn [is_bool_ty negb] in H.
    - (* CTrue *)
      destruct (T b (lcaps ++ caps)) as [rt rcaps| |] eqn:Hb; try discriminate.
      destruct (IHb Hcb _ _ _ Hb) as [Hwb Hsb].
      destruct rt; try discriminate; cbn [is_bool_ty negb] in H; inversion H; subst; (split; [exact I|]);
      intros en Hen Hpo Hcaps; destruct (Hsa en Hen Hpo Hcaps) as [Hra HAa];
      specialize (HAa (or_introl eq_refl));
      destruct (Hsb en Hen Hpo (caps_app _ _ _ HAa Hcaps)) as [Hrb HAb];
      (split; [|exact HAb]); cbn [eval];
      (destruct (eval en a) as [v|k]; cbn [res_sound bindr] in *; [|assumption]);
      destruct Hra as [Hv _]; apply vtyped_true_inv in Hv; subst v; cbn [as_bool negb];
      (destruct (eval en b) as [w|k]; cbn [res_sound bindr] in *; [|assumption]);
      destruct Hrb as [Hw Hcw]; destruct (vbi w _ Hw eq_refl) as [x ->]; cbn [as_bool res_sound]; auto.
    - (* CFalse *)
      destruct (refs_ok sch b); inversion H; subst. split; [exact I|].
      intros en Hen Hpo Hcaps; destruct (Hsa en Hen Hpo Hcaps) as [Hra _]. apply simple; [exact Hcaps|]. cbn [eval].
      destruct (eval en a) as [v|k]; cbn [res_sound bindr res_ok] in *; [|assumption].
      destruct Hra as [Hv _]; apply vtyped_false_inv in Hv; subst v; cbn [as_bool negb]. constructor.
    - (* CBool *)
      destruct (T b (lcaps ++ caps)) as [rt rcaps| |] eqn:Hb; try discriminate.
      destruct (IHb Hcb _ _ _ Hb) as [Hwb Hsb].
      destruct rt; try discriminate; cbn [is_bool_ty negb] in H; inversion H; subst; (split; [exact I|]);
      intros en Hen Hpo Hcaps; destruct (Hsa en Hen Hpo Hcaps) as [Hra _];
      (split; [|intros [E|E]; discriminate]); cbn [eval];
      (destruct (eval en a) as [v|k]; cbn [res_sound bindr] in *; [|assumption]);
      destruct Hra as [Hv Hcv]; destruct (vbi v _ Hv eq_refl) as [[|] ->]; cbn [as_bool negb];
      try (split; [constructor | intros E; discriminate]);
      specialize (Hcv eq_refl); destruct (Hsb en Hen Hpo (caps_app _ _ _ Hcv Hcaps)) as [Hrb _];
      (destruct (eval en b) as [w|k]; cbn [res_sound bindr] in *; [|assumption]);
      destruct Hrb as [Hw Hcw]; destruct (vbi w _ Hw eq_refl) as [y ->]; cbn [as_bool];
      (split; [first [exact Hw | constructor] | exact Hcw]).
  Qed.

  Lemma caps_inter_l en a b : caps_hold en a -> caps_hold en (cap_inter a b).
  Proof.
    unfold caps_hold, cap_inter. intros H. rewrite Forall_forall in *. intros c Hc. apply filter_In in Hc. apply H, Hc.
  Qed.

  Lemma cap_eqb_eq c d : cap_eqb c d = true -> c = d.
  Proof.
    destruct c as [[k1 a1] b1], d as [[k2 a2] b2]. unfold cap_eqb. cbn [fst snd]. intros H.
    apply andb_true_iff in H. destruct H as [H H3]. apply andb_true_iff in H. destruct H as [H1 H2].
    apply str_eqb_eq in H1. apply str_eqb_eq in H2. apply Bool.eqb_prop in H3. subst. reflexivity.
  Qed.

  Lemma cap_has_In cs c : cap_has cs c = true -> In c cs.
  Proof.
    unfold cap_has. intros H. apply existsb_exists in H. destruct H as (d & Hd & E). apply cap_eqb_eq in E. subst. exact Hd.
  Qed.

  Lemma caps_inter_r en a b : caps_hold en b -> caps_hold en (cap_inter a b).
  Proof.
    unfold caps_hold, cap_inter. intros H. rewrite Forall_forall in *. intros c Hc. apply filter_In in Hc.
    destruct Hc as [_ Hc]. apply H, cap_has_In, Hc.
  Qed.

  Lemma P_or a b : P a -> P b -> P (EOr a b).
  Proof.
    intros IHa IHb Hcore caps t caps' H. cbn [core] in Hcore. apply andb_true_iff in Hcore. destruct Hcore as [Hca Hcb].
    cbn [typeof] in H.
    destruct (T a caps) as [lt lcaps| |] eqn:Ha; try discriminate.
    destruct (IHa Hca _ _ _ Ha) as [Hwa Hsa].
    destruct lt; try discriminate; cbn [is_bool_ty negb] in H.
    - (* CTrue *)
      destruct (refs_ok sch b); inversion H; subst. split; [exact I|].
      intros en Hen Hpo Hcaps; destruct (Hsa en Hen Hpo Hcaps) as [Hra HAa]. specialize (HAa (or_introl eq_refl)).
      split; [|intros _; exact HAa]. cbn [eval].
      destruct (eval en a) as [v|k]; cbn [res_sound bindr] in *; [|assumption].
      destruct Hra as [Hv _]; apply vtyped_true_inv in Hv; subst v; cbn [as_bool]. split; [constructor | auto].
    - (* CFalse *)
      destruct (T b caps) as [rt rcaps| |] eqn:Hb; try discriminate.
      destruct (IHb Hcb _ _ _ Hb) as [Hwb Hsb].
      destruct rt; try discriminate; cbn [is_bool_ty negb] in H; inversion H; subst; (split; [exact I|]);
      intros en Hen Hpo Hcaps; destruct (Hsa en Hen Hpo Hcaps) as [Hra _];
      destruct (Hsb en Hen Hpo Hcaps) as [Hrb HAb];
      (split; [|exact HAb]); cbn [eval];
      (destruct (eval en a) as [v|k]; cbn [res_sound bindr] in *; [|assumption]);
      destruct Hra as [Hv _]; apply vtyped_false_inv in Hv; subst v; cbn [as_bool];
      (destruct (eval en b) as [w|k]; cbn [res_sound bindr] in *; [|assumption]);
      destruct Hrb as [Hw Hcw]; destruct (vbi w _ Hw eq_refl) as [x ->]; cbn [as_bool res_sound]; auto.
    - (* CBool *)
      destruct (T b caps) as [rt rcaps| |] eqn:Hb; try discriminate.
      destruct (IHb Hcb _ _ _ Hb) as [Hwb Hsb].
      destruct rt; try discriminate; cbn [is_bool_ty negb] in H; inversion H; subst; (split; [exact I|]);
      intros en Hen Hpo Hcaps; destruct (Hsa en Hen Hpo Hcaps) as [Hra _];
      destruct (Hsb en Hen Hpo Hcaps) as [Hrb HAb].
      + (* rt = CTrue *)
        split; [|intros _; apply HAb; left; reflexivity]. cbn [eval].
        destruct (eval en a) as [v|k]; cbn [res_sound bindr] in *; [|assumption].
        destruct Hra as [Hv Hcv]; destruct (vbi v _ Hv eq_refl) as [[|] ->]; cbn [as_bool].
        * split; [constructor | intros _; apply HAb; left; reflexivity].
        * destruct (eval en b) as [w|k]; cbn [res_sound bindr] in *; [|assumption].
          destruct Hrb as [Hw Hcw]. apply vtyped_true_inv in Hw. subst w. cbn [as_bool]. split; [constructor | exact Hcw].
      + (* rt = CFalse *)
        split; [|intros [E|E]; discriminate]. cbn [eval].
        destruct (eval en a) as [v|k]; cbn [res_sound bindr] in *; [|assumption].
        destruct Hra as [Hv Hcv]; destruct (vbi v _ Hv eq_refl) as [[|] ->]; cbn [as_bool].
        * split; [constructor | exact Hcv].
        * destruct (eval en b) as [w|k]; cbn [res_sound bindr] in *; [|assumption].
          destruct Hrb as [Hw Hcw]. apply vtyped_false_inv in Hw. subst w. cbn [as_bool]. split; [constructor | intros E; discriminate].
      + (* rt = CBool *)
        split; [|intros [E|E]; discriminate]. cbn [eval].
        destruct (eval en a) as [v|k]; cbn [res_sound bindr] in *; [|assumption].
        destruct Hra as [Hv Hcv]; destruct (vbi v _ Hv eq_refl) as [[|] ->]; cbn [as_bool].
        * split; [constructor | intros _; apply caps_inter_l; auto].
        * destruct (eval en b) as [w|k]; cbn [res_sound bindr] in *; [|assumption].
          destruct Hrb as [Hw Hcw]. destruct (vbi w _ Hw eq_refl) as [y ->]. cbn [as_bool].
          split; [constructor | intros E; apply caps_inter_r; auto].
  Qed.

  Lemma P_not a : P a -> P (ENot a).
  Proof.
    intros IHa Hca caps t caps' H. cbn [core] in Hca. cbn [typeof] in H.
    destruct (T a caps) as [lt lcaps| |] eqn:Ha; try discriminate.
    destruct (IHa Hca _ _ _ Ha) as [Hwa Hsa].
    destruct lt; try discriminate; inversion H; subst; (split; [exact I|]);
      intros en Hen Hpo Hcaps; destruct (Hsa en Hen Hpo Hcaps) as [Hra _]; apply simple; auto; cbn [eval];
      (destruct (eval en a) as [v|k]; cbn [res_sound bindr res_ok] in *; [|assumption]);
      destruct Hra as [Hv _]; destruct (vbi v _ Hv eq_refl) as [x ->]; cbn [as_bool vbool];
      inversion Hv; subst; constructor.
  Qed.
  Lemma res_sound_sub en t t' c c' r : res_sound en t c r -> sub t t' -> (caps_hold en c -> caps_hold en c') -> res_sound en t' c' r.
  Proof. destruct r; cbn [res_sound]; [|auto]. intros [Hv Hc] Hs Hcc. split; [apply Hs, Hv | auto]. Qed.

  Lemma P_if c e1 e2 : P c -> P e1 -> P e2 -> P (EIf c e1 e2).
  Proof.
    intros IHc IH1 IH2 Hcore caps t caps' H. cbn [core] in Hcore. apply andb_true_iff in Hcore. destruct Hcore as [Hcore Hc2].
    apply andb_true_iff in Hcore. destruct Hcore as [Hcc Hc1].
    cbn [typeof] in H.
    destruct (T c caps) as [ct ccaps| |] eqn:Hc; try discriminate.
    destruct (IHc Hcc _ _ _ Hc) as [Hwc Hsc].
    destruct ct; try discriminate; cbn [is_bool_ty negb] in H.
    - (* CTrue *)
      destruct (refs_ok sch e2); [|discriminate].
      destruct (IH1 Hc1 _ _ _ H) as [Hw1 Hs1]. split; [exact Hw1|].
      intros en Hen Hpo Hcaps. destruct (Hsc en Hen Hpo Hcaps) as [Hrc HAc]. specialize (HAc (or_introl eq_refl)).
      destruct (Hs1 en Hen Hpo (caps_app _ _ _ HAc Hcaps)) as [Hr1 HA1]. split; [|exact HA1]. cbn [eval].
      destruct (eval en c) as [v|k]; cbn [res_sound bindr] in *; [|assumption].
      destruct Hrc as [Hv _]; apply vtyped_true_inv in Hv; subst v; cbn [as_bool]. exact Hr1.
    - (* CFalse *)
      destruct (refs_ok sch e1); [|discriminate].
      destruct (IH2 Hc2 _ _ _ H) as [Hw2 Hs2]. split; [exact Hw2|].
      intros en Hen Hpo Hcaps. destruct (Hsc en Hen Hpo Hcaps) as [Hrc _].
      destruct (Hs2 en Hen Hpo Hcaps) as [Hr2 HA2]. split; [|exact HA2]. cbn [eval].
      destruct (eval en c) as [v|k]; cbn [res_sound bindr] in *; [|assumption].
      destruct Hrc as [Hv _]; apply vtyped_false_inv in Hv; subst v; cbn [as_bool]. exact Hr2.
    - (* CBool *)
      destruct (T e1 (ccaps ++ caps)) as [tt tc| |] eqn:H1; destruct (T e2 caps) as [ft fc| |] eqn:H2; try discriminate.
      destruct (negb (strict_ent_lub_ok true tt ft)); [discriminate|].
      destruct (lub' true tt ft) as [r|] eqn:El; [|discriminate]. inversion H; subst. clear H.
      destruct (IH1 Hc1 _ _ _ H1) as [Hw1 Hs1]. destruct (IH2 Hc2 _ _ _ H2) as [Hw2 Hs2].
      destruct (lub'_sub _ _ _ El Hw1 Hw2) as (Hwr & S1 & S2). split; [exact Hwr|].
      intros en Hen Hpo Hcaps. destruct (Hsc en Hen Hpo Hcaps) as [Hrc _].
      destruct (Hs2 en Hen Hpo Hcaps) as [Hr2 HA2]. split.
      + cbn [eval]. destruct (eval en c) as [v|k]; cbn [res_sound bindr] in *; [|assumption].
        destruct Hrc as [Hv Hcv]; destruct (vbi v _ Hv eq_refl) as [[|] ->]; cbn [as_bool].
        * destruct (Hs1 en Hen Hpo (caps_app _ _ _ (Hcv eq_refl) Hcaps)) as [Hr1 _].
          eapply res_sound_sub; [exact Hr1 | exact S1 | apply caps_inter_l].
        * eapply res_sound_sub; [exact Hr2 | exact S2 | apply caps_inter_r].
      + intros Ht. apply caps_inter_r. apply HA2. unfold lub' in El. eapply lub_true_never; eauto.
  Qed.
  (* ---------------- binary operators typed with `both` ---------------- *)
  Ltac bin_intro IHa IHb a b :=
    let Hcore := fresh "Hcore" in
    intros Hcore caps t caps' H; cbn [core] in Hcore; apply andb_true_iff in Hcore; destruct Hcore as [Hca Hcb];
    cbn [typeof] in H;
    destruct (T a caps) as [ta ca| |] eqn:Ha; destruct (T b caps) as [tb cb| |] eqn:Hb; try discriminate;
    destruct (IHa Hca _ _ _ Ha) as [Hwa Hsa]; destruct (IHb Hcb _ _ _ Hb) as [Hwb Hsb].

  Ltac bin_env Hsa Hsb :=
    intros en Hen Hpo Hcaps;
    let Hra := fresh "Hra" in let Hrb := fresh "Hrb" in
    destruct (Hsa en Hen Hpo Hcaps) as [Hra _]; destruct (Hsb en Hen Hpo Hcaps) as [Hrb _];
    apply res_sound_ok in Hra; apply res_sound_ok in Hrb; apply simple; [exact Hcaps|]; cbn [eval].

  Lemma arith_sound r1 r2 op : res_ok r1 CLong -> res_ok r2 CLong -> res_ok (arith_eval r1 r2 op) CLong.
  Proof.
    intros H1 H2. unfold arith_eval. destruct r1 as [v|k]; cbn [bindr res_ok] in *; [|assumption].
    destruct (vtyped_long_inv _ H1) as [x ->]. cbn [as_long].
    destruct r2 as [w|k]; cbn [bindr res_ok] in *; [|assumption].
    destruct (vtyped_long_inv _ H2) as [y ->]. cbn [as_long].
    destruct (op x y) as [r [|]]; cbn [res_ok]; [constructor | reflexivity].
  Qed.

  Lemma P_add a b : P a -> P b -> P (EAdd a b).
  Proof.
    intros IHa IHb. bin_intro IHa IHb a b. destruct ta; try discriminate; destruct tb; try discriminate. inversion H; subst.
    split; [exact I|]. bin_env Hsa Hsb. apply arith_sound; assumption.
  Qed.
  Lemma P_sub a b : P a -> P b -> P (ESub a b).
  Proof.
    intros IHa IHb. bin_intro IHa IHb a b. destruct ta; try discriminate; destruct tb; try discriminate. inversion H; subst.
    split; [exact I|]. bin_env Hsa Hsb. apply arith_sound; assumption.
  Qed.
  Lemma P_mul a b : P a -> P b -> P (EMul a b).
  Proof.
    intros IHa IHb. bin_intro IHa IHb a b. destruct ta; try discriminate; destruct tb; try discriminate. inversion H; subst.
    split; [exact I|]. bin_env Hsa Hsb. apply arith_sound; assumption.
  Qed.

  Lemma P_neg a : P a -> P (ENeg a).
  Proof.
    intros IHa Hca caps t caps' H. cbn [core] in Hca. cbn [typeof] in H.
    destruct (T a caps) as [ta ca| |] eqn:Ha; try discriminate.
    destruct (IHa Hca _ _ _ Ha) as [Hwa Hsa].
    destruct ta; try discriminate. inversion H; subst. split; [exact I|].
    intros en Hen Hpo Hcaps. destruct (Hsa en Hen Hpo Hcaps) as [Hra _]. apply res_sound_ok in Hra. apply simple; [exact Hcaps|]. cbn [eval].
    destruct (eval en a) as [v|k]; cbn [bindr res_ok] in *; [|assumption].
    destruct (vtyped_long_inv _ Hra) as [x ->]. cbn [as_long].
    destruct (checkedNegI64 x) as [r [|]]; cbn [res_ok]; [constructor | reflexivity].
  Qed.

  Lemma cmp_sound ta tb r1 r2 f :
    TypeCheck.comparable ta && TypeCheck.comparable tb && same_comparable ta tb = true ->
    res_ok r1 ta -> res_ok r2 tb -> res_ok (cmp_eval r1 r2 f) CBool.
  Proof.
    intros Hc H1 H2. apply andb_true_iff in Hc. destruct Hc as [Hc Hs]. apply andb_true_iff in Hc. destruct Hc as [Hca Hcb].
    unfold cmp_eval.
    destruct ta as [| | | | | | | | |na]; try discriminate; destruct tb as [| | | | | | | | |nb]; try discriminate.
    - destruct r1 as [v|k]; cbn [bindr res_ok] in *; [|assumption]. destruct (vtyped_long_inv _ H1) as [x ->]. cbn [Eval.comparable negb].
      destruct r2 as [w|k]; cbn [bindr res_ok] in *; [|assumption]. destruct (vtyped_long_inv _ H2) as [y ->]. cbn. constructor.
    - cbn [same_comparable] in Hs. apply str_eqb_eq in Hs. subst nb. cbn [TypeCheck.comparable] in Hca.
      apply orb_true_iff in Hca. destruct Hca as [E|E]; apply str_eqb_eq in E; subst na.
      + destruct r1 as [v|k]; cbn [bindr res_ok] in *; [|assumption]. destruct (vtyped_datetime_inv _ H1) as [x ->]. cbn [Eval.comparable negb].
        destruct r2 as [w|k]; cbn [bindr res_ok] in *; [|assumption]. destruct (vtyped_datetime_inv _ H2) as [y ->]. cbn. constructor.
      + destruct r1 as [v|k]; cbn [bindr res_ok] in *; [|assumption]. destruct (vtyped_duration_inv _ H1) as [x ->]. cbn [Eval.comparable negb].
        destruct r2 as [w|k]; cbn [bindr res_ok] in *; [|assumption]. destruct (vtyped_duration_inv _ H2) as [y ->]. cbn. constructor.
  Qed.

  Ltac cmp_case IHa IHb a b :=
    bin_intro IHa IHb a b;
    match goal with H : (if ?c then _ else _) = TOk _ _ |- _ => destruct c eqn:Hcmp; [|discriminate]; inversion H; subst end;
    split; [exact I|];
    match goal with Hsa : context [eval _ a], Hsb : context [eval _ b] |- _ => bin_env Hsa Hsb end; eapply cmp_sound; eauto.

  Lemma P_lt a b : P a -> P b -> P (ELt a b).
  Proof. intros IHa IHb. cmp_case IHa IHb a b. Qed.
  Lemma P_le a b : P a -> P b -> P (ELe a b).
  Proof. intros IHa IHb. cmp_case IHa IHb a b. Qed.
  Lemma P_gt a b : P a -> P b -> P (EGt a b).
  Proof. intros IHa IHb. cmp_case IHa IHb a b. Qed.
  Lemma P_ge a b : P a -> P b -> P (EGe a b).
  Proof. intros IHa IHb. cmp_case IHa IHb a b. Qed.
  (* ---------------- equality ---------------- *)
  Definition eq_body (a b : expr) (ta tb : cty) (negated : bool) (caps : list cap) : tres :=
    let sing (r : bool) := TOk (if xorb r negated then CTrue else CFalse) caps in
    match a, b with
    | EVar x, EVar y => if str_eqb (var_name x) (var_name y) then sing true else
                        if types_disjoint ta tb then sing false else
                        if true && negb (match lub' true ta tb with Some _ => true | None => false end) then TErr else TOk CBool caps
    | _, _ =>
      match lit_eq a b with
      | Some r => sing r
      | None =>
        if types_disjoint ta tb then sing false
        else if true && negb (match lub' true ta tb with Some _ => true | None => false end) then TErr else TOk CBool caps
      end
    end.

  Definition eq_known (a b : expr) (ta tb : cty) (r : bool) : Prop :=
    (exists x, a = EVar x /\ b = EVar x /\ r = true) \/
    (types_disjoint ta tb = true /\ r = false) \/
    (exists x y, a = ELit x /\ b = ELit y /\ r = veq x y).

  Lemma var_name_eq x y : str_eqb (var_name x) (var_name y) = true -> x = y.
  Proof. destruct x, y; vm_compute; intros H; try discriminate; reflexivity. Qed.

  Lemma eq_body_inv a b ta tb neg caps t caps' : eq_body a b ta tb neg caps = TOk t caps' ->
    caps' = caps /\ (t = CBool \/ exists r, eq_known a b ta tb r /\ t = if xorb r neg then CTrue else CFalse).
  Proof.
    assert (Hdef : (if types_disjoint ta tb then TOk (if xorb false neg then CTrue else CFalse) caps
                    else if true && negb (match lub' true ta tb with Some _ => true | None => false end) then TErr else TOk CBool caps) = TOk t caps' ->
                   caps' = caps /\ (t = CBool \/ exists r, eq_known a b ta tb r /\ t = if xorb r neg then CTrue else CFalse)).
    { destruct (types_disjoint ta tb) eqn:Ed.
      - intros H; inversion H; subst. split; [reflexivity|]. right. exists false. split; [right; left; auto | reflexivity].
      - destruct (true && negb (match lub' true ta tb with Some _ => true | None => false end)); [discriminate|].
        intros H; inversion H; subst. auto. }
    unfold eq_body.
    destruct a; try exact Hdef.
    - (* ELit *) destruct b; try exact Hdef. cbn [lit_eq]. intros H; inversion H; subst. split; [reflexivity|]. right.
      eexists. split; [right; right; eauto | reflexivity].
    - (* EVar *) destruct b; try exact Hdef. cbn [lit_eq].
      destruct (str_eqb (var_name x) (var_name x0)) eqn:Ev; [|exact Hdef].
      apply var_name_eq in Ev. subst. intros H; inversion H; subst. split; [reflexivity|]. right.
      exists true. split; [left; eauto | reflexivity].
  Qed.

  Lemma veq_disjoint ta tb v w : types_disjoint ta tb = true -> vtyped v ta -> vtyped w tb -> veq v w = false.
  Proof.
    intros Hd Hv Hw. destruct ta as [| | | | | | | |la|]; try discriminate. destruct tb as [| | | | | | | |lb|]; try discriminate.
    destruct (vtyped_ent_inv _ _ Hv) as (t1 & i1 & -> & H1). destruct (vtyped_ent_inv _ _ Hw) as (t2 & i2 & -> & H2).
    cbn [veq]. destruct (str_eqb t1 t2) eqn:E; [|reflexivity]. exfalso. apply str_eqb_eq in E. subst t2.
    cbn [types_disjoint] in Hd. unfold lubs_disjoint, lubs_related in Hd. apply negb_true_iff in Hd.
    pose proof (existsb_false_all _ _ Hd _ H1) as Hf. cbv beta in Hf. apply smem_In in H2. congruence.
  Qed.

  Lemma eq_known_sound a b ta tb r en v w : eq_known a b ta tb r -> eval en a = Ok v -> eval en b = Ok w ->
    vtyped v ta -> vtyped w tb -> veq v w = r.
  Proof.
    intros [(x & -> & -> & ->) | [[Hd ->] | (x & y & -> & -> & ->)]] Ea Eb Hv Hw.
    - rewrite Ea in Eb. inversion Eb; subst. apply veq_refl.
    - eapply veq_disjoint; eauto.
    - cbn [eval] in *. inversion Ea; inversion Eb; subst. reflexivity.
  Qed.

  Lemma P_eq a b : P a -> P b -> P (EEq a b).
  Proof.
    intros IHa IHb. bin_intro IHa IHb a b. change (eq_body a b ta tb false caps = TOk t caps') in H.
    apply eq_body_inv in H. destruct H as [-> Ht].
    split; [destruct Ht as [->|(r & _ & ->)]; [exact I | destruct (xorb r false); exact I]|].
    bin_env Hsa Hsb.
    destruct (eval en a) as [v|k] eqn:Ea; cbn [bindr res_ok] in *; [|assumption].
    destruct (eval en b) as [w|k] eqn:Eb; cbn [bindr res_ok] in *; [|assumption].
    unfold vbool. destruct Ht as [->|(r & Hk & ->)]; [constructor|].
    rewrite (eq_known_sound _ _ _ _ _ _ _ _ Hk Ea Eb Hra Hrb). destruct r; constructor.
  Qed.

  Lemma P_ne a b : P a -> P b -> P (ENe a b).
  Proof.
    intros IHa IHb. bin_intro IHa IHb a b. change (eq_body a b ta tb true caps = TOk t caps') in H.
    apply eq_body_inv in H. destruct H as [-> Ht].
    split; [destruct Ht as [->|(r & _ & ->)]; [exact I | destruct (xorb r true); exact I]|].
    bin_env Hsa Hsb.
    destruct (eval en a) as [v|k] eqn:Ea; cbn [bindr res_ok] in *; [|assumption].
    destruct (eval en b) as [w|k] eqn:Eb; cbn [bindr res_ok] in *; [|assumption].
    unfold vbool. destruct Ht as [->|(r & Hk & ->)]; [constructor|].
    rewrite (eq_known_sound _ _ _ _ _ _ _ _ Hk Ea Eb Hra Hrb). destruct r; constructor.
  Qed.

  (* ---------------- sets, like, is ---------------- *)
  Lemma P_contains a b : P a -> P b -> P (EContains a b).
  Proof.
    intros IHa IHb. bin_intro IHa IHb a b. destruct ta as [| | | | | |el| | |]; try discriminate.
    assert (Ht : t = CBool /\ caps' = caps).
    { destruct el; try (inversion H; auto; fail);
        match type of H with (if ?c then _ else _) = _ => destruct c; [discriminate | inversion H; auto] end. }
    destruct Ht as [-> ->]. split; [exact I|]. bin_env Hsa Hsb.
    destruct (eval en a) as [v|k]; cbn [bindr res_ok] in *; [|assumption].
    destruct (vtyped_set_inv' _ _ Hra) as (l & -> & _). cbn [as_set].
    destruct (eval en b) as [w|k]; cbn [bindr res_ok] in *; [|assumption]. constructor.
  Qed.

  Lemma P_contains_all a b : P a -> P b -> P (EContainsAll a b).
  Proof.
    intros IHa IHb. bin_intro IHa IHb a b.
    destruct ta as [| | | | | |el| | |]; try discriminate; destruct tb as [| | | | | |er| | |]; try discriminate.
    match type of H with (if ?c then _ else _) = TOk _ _ => destruct c; [discriminate|]; inversion H; subst end.
    split; [exact I|]. bin_env Hsa Hsb.
    destruct (eval en a) as [v|k]; cbn [bindr res_ok] in *; [|assumption].
    destruct (vtyped_set_inv' _ _ Hra) as (l & -> & _). cbn [as_set].
    destruct (eval en b) as [w|k]; cbn [bindr res_ok] in *; [|assumption].
    destruct (vtyped_set_inv' _ _ Hrb) as (m & -> & _). cbn [as_set]. constructor.
  Qed.
  Lemma P_contains_any a b : P a -> P b -> P (EContainsAny a b).
  Proof.
    intros IHa IHb. bin_intro IHa IHb a b.
    destruct ta as [| | | | | |el| | |]; try discriminate; destruct tb as [| | | | | |er| | |]; try discriminate.
    match type of H with (if ?c then _ else _) = TOk _ _ => destruct c; [discriminate|]; inversion H; subst end.
    split; [exact I|]. bin_env Hsa Hsb.
    destruct (eval en a) as [v|k]; cbn [bindr res_ok] in *; [|assumption].
    destruct (vtyped_set_inv' _ _ Hra) as (l & -> & _). cbn [as_set].
    destruct (eval en b) as [w|k]; cbn [bindr res_ok] in *; [|assumption].
    destruct (vtyped_set_inv' _ _ Hrb) as (m & -> & _). cbn [as_set]. constructor.
  Qed.

  Ltac un_intro IHa a :=
    intros Hca caps t caps' H; cbn [core] in Hca; cbn [typeof] in H;
    destruct (T a caps) as [ta ca| |] eqn:Ha; try discriminate;
    destruct (IHa Hca _ _ _ Ha) as [Hwa Hsa].
  Ltac un_env Hsa :=
    intros en Hen Hpo Hcaps;
    let Hra := fresh "Hra" in
    destruct (Hsa en Hen Hpo Hcaps) as [Hra _]; apply res_sound_ok in Hra; apply simple; [exact Hcaps|]; cbn [eval].

  Lemma P_is_empty a : P a -> P (EIsEmpty a).
  Proof.
    intros IHa. un_intro IHa a. destruct ta as [| | | | | |el| | |]; try discriminate. inversion H; subst. split; [exact I|].
    un_env Hsa. destruct (eval en a) as [v|k]; cbn [bindr res_ok] in *; [|assumption].
    destruct (vtyped_set_inv' _ _ Hra) as (l & -> & _). cbn [as_set]. constructor.
  Qed.

  Lemma P_like a p : P a -> P (ELike a p).
  Proof.
    intros IHa. un_intro IHa a. destruct ta; try discriminate. inversion H; subst. split; [exact I|].
    un_env Hsa. destruct (eval en a) as [v|k]; cbn [bindr res_ok] in *; [|assumption].
    destruct (vtyped_string_inv _ Hra) as (s & ->). cbn [as_string]. constructor.
  Qed.

  Lemma P_is a ty : P a -> P (EIs a ty).
  Proof.
    intros IHa. un_intro IHa a. destruct ta as [| | | | | | | |l|]; try discriminate.
    destruct (smem ty l) eqn:Em; cbn [negb] in H.
    - assert (Ht : caps' = caps /\ (t = CBool \/ (t = CTrue /\ l = [ty]))).
      { destruct l as [|x [|y l]]; inversion H; subst; auto. split; [reflexivity|]. right. split; [reflexivity|].
        apply smem_In in Em. destruct Em as [->|[]]. reflexivity. }
      destruct Ht as [-> Ht]. split; [destruct Ht as [->|[-> _]]; exact I|].
      un_env Hsa. destruct (eval en a) as [v|k]; cbn [bindr res_ok] in *; [|assumption].
      destruct (vtyped_ent_inv _ _ Hra) as (t0 & i & -> & Hin). cbn [as_entity fst]. unfold vbool.
      destruct Ht as [->|[-> ->]]; [constructor|]. destruct Hin as [->|[]]. rewrite str_eqb_refl. constructor.
    - inversion H; subst. split; [exact I|].
      un_env Hsa. destruct (eval en a) as [v|k]; cbn [bindr res_ok] in *; [|assumption].
      destruct (vtyped_ent_inv _ _ Hra) as (t0 & i & -> & Hin). cbn [as_entity fst]. unfold vbool.
      destruct (str_eqb t0 ty) eqn:E; [|constructor]. apply str_eqb_eq in E. subst t0. apply smem_In in Hin. congruence.
  Qed.
  (* ---------------- in, is-in ---------------- *)
  Definition in_general (ll : list str) (tb : cty) (caps : list cap) : tres :=
    match (match tb with CEnt x => Some x | CSet (CEnt x) => Some x | _ => None end) with
    | Some r => if any_descendant sch ll r then TOk CBool caps else TOk CFalse caps
    | None => TOk CBool caps
    end.

  (* the action-hierarchy rule: operands that denote actions / entity literals *)
  Definition elem_uid (x : expr) : option uid :=
    match action_euid sch tv x with
    | Some u => Some u
    | None => match x with ELit (VEntity t i) => Some (t, i) | _ => None end
    end.
  Definition euids_go : list expr -> option (list uid) :=
    fix go (l : list expr) : option (list uid) :=
      match l with
      | [] => Some []
      | x :: r => match elem_uid x with
                  | Some u => match go r with Some us => Some (u :: us) | None => None end
                  | None => None
                  end
      end.
  Lemma action_euids_eq e :
    action_euids sch tv e =
    match action_euid sch tv e with
    | Some u => Some [u]
    | None => match e with ESet [] => None | ESet els => euids_go els | _ => None end
    end.
  Proof. reflexivity. Qed.

  Lemma action_euid_eval en x u : env_ok sch tv en -> action_euid sch tv x = Some u -> eval en x = Ok (ent_of u).
  Proof.
    intros (_ & _ & Ha & _) H. destruct x as [v|x| | | | | | | | | | | | | | | | | | | | | | | | | | | | | |]; try discriminate.
    - destruct v; try discriminate. cbn [action_euid] in H. destruct (umem (ty, id) (ts_actions sch)); [|discriminate]. inversion H; subst. reflexivity.
    - destruct x; try discriminate. cbn [action_euid] in H. inversion H; subst. cbn [eval var_value]. rewrite Ha. reflexivity.
  Qed.

  Lemma action_euid_declared x u : umem (tv_action tv) (ts_actions sch) = true -> action_euid sch tv x = Some u -> In u (ts_actions sch).
  Proof.
    intros Hact H. apply (umem_In). destruct x as [v|x| | | | | | | | | | | | | | | | | | | | | | | | | | | | | |]; try discriminate.
    - destruct v; try discriminate. cbn [action_euid] in H. destruct (umem (ty, id) (ts_actions sch)) eqn:E; [|discriminate]. inversion H; subst. exact E.
    - destruct x; try discriminate. cbn [action_euid] in H. inversion H; subst. exact Hact.
  Qed.

  Lemma elem_uid_eval en x u : env_ok sch tv en -> elem_uid x = Some u -> eval en x = Ok (ent_of u).
  Proof.
    intros Hen H. unfold elem_uid in H. destruct (action_euid sch tv x) as [u'|] eqn:E.
    - inversion H; subst. eapply action_euid_eval; eauto.
    - destruct x as [v| | | | | | | | | | | | | | | | | | | | | | | | | | | | | | |]; try discriminate. destruct v; try discriminate. inversion H; subst. reflexivity.
  Qed.

  Lemma euids_go_eval en : env_ok sch tv en -> forall els rs, euids_go els = Some rs -> seq_res (map (eval en) els) = inr (map ent_of rs).
  Proof.
    intros Hen. induction els as [|x r IH]; intros rs H; cbn [euids_go] in H.
    - inversion H; subst. reflexivity.
    - destruct (elem_uid x) as [u|] eqn:Ex; [|discriminate]. fold euids_go in H. destruct (euids_go r) as [us|]; [|discriminate].
      inversion H; subst. cbn [map seq_res]. rewrite (elem_uid_eval en x u Hen Ex), (IH us eq_refl). reflexivity.
  Qed.

  (* evaluation of `l in b` when b is such an expression *)
  Lemma action_euids_eval en st l b rs : env_ok sch tv en -> action_euids sch tv b = Some rs ->
    exists w r, eval en b = Ok w /\ do_in st l w = Ok (VBool r) /\ (r = true <-> exists x, In x rs /\ reach_st st l x).
  Proof.
    intros Hen H. rewrite action_euids_eq in H. destruct (action_euid sch tv b) as [u|] eqn:Eb.
    - inversion H; subst. destruct (do_in_uids_single st l u) as (r & Hr & Hiff). exists (ent_of u), r.
      split; [eapply action_euid_eval; eauto|]. split; [exact Hr|]. rewrite Hiff. split.
      + intros Hx. exists u. split; [left; reflexivity | exact Hx].
      + intros (x & [<-|[]] & Hx). exact Hx.
    - destruct b as [| | | | | | | | | | | | | | | | | | | | | | | | | | | |els| | |]; try discriminate.
      destruct els as [|x0 els]; [discriminate|].
      destruct (do_in_uids_set st l rs) as (r & Hr & Hiff). exists (mk_set (map ent_of rs)), r.
      split; [|split; assumption]. cbn [eval]. rewrite (euids_go_eval en Hen _ _ H). reflexivity.
  Qed.

  Lemma in_general_sound a b ll tb ca cb caps t caps' :
    P a -> P b -> core ai a = true -> core ai b = true -> ai = true ->
    T a caps = TOk (CEnt ll) ca -> T b caps = TOk tb cb -> is_ent_or_set_of_ent tb = true ->
    in_general ll tb caps = TOk t caps' ->
    WT t /\
    forall en, env_ok sch tv en -> (ai = true -> in_env_hyps (e_store en)) -> caps_hold en caps ->
      res_sound en t caps' (eval en (EIn a b)) /\ ((t = CTrue \/ t = CNever) -> caps_hold en caps').
  Proof.
    intros IHa IHb Hca Hcb Hai Ha Hb Hrt H.
    destruct (IHa Hca _ _ _ Ha) as [Hwa Hsa]. destruct (IHb Hcb _ _ _ Hb) as [Hwb Hsb].
    assert (Ht : caps' = caps /\ (t = CBool \/ (t = CFalse /\ exists r, (tb = CEnt r \/ tb = CSet (CEnt r)) /\ any_descendant sch ll r = false))).
    { unfold in_general in H. destruct tb as [| | | | | |e| |r|]; try discriminate.
      - destruct e as [| | | | | | | |r|]; try discriminate; try (inversion H; subst; auto; fail).
        destruct (any_descendant sch ll r) eqn:Ead; inversion H; subst; auto. split; [reflexivity|]. right. split; [reflexivity|]. exists r. auto.
      - destruct (any_descendant sch ll r) eqn:Ead; inversion H; subst; auto. split; [reflexivity|]. right. split; [reflexivity|]. exists r. auto. }
    destruct Ht as [-> Ht]. split; [destruct Ht as [->|[-> _]]; exact I|].
    bin_env Hsa Hsb.
    destruct (eval en a) as [v|k]; cbn [bindr res_ok] in *; [|assumption].
    destruct (vtyped_ent_inv _ _ Hra) as (t0 & i & -> & Hin). cbn [as_entity].
    destruct (eval en b) as [w|k]; cbn [bindr res_ok] in *; [|assumption].
    destruct Ht as [->|(-> & r & Hr & Had)].
    - destruct (do_in_total (e_store en) (t0, i) w tb Hrt Hrb) as [x ->]. constructor.
    - destruct Hen as (Hst & _). rewrite (do_in_false sch (e_store en) t0 i w ll tb r Hst (proj1 (Hpo Hai)) Hin Hr Hrb Had). constructor.
  Qed.

  Lemma P_in a b : P a -> P b -> P (EIn a b).
  Proof.
    intros IHa IHb Hcore caps t caps' H. cbn [core] in Hcore. apply andb_true_iff in Hcore. destruct Hcore as [Hcore Hcb].
    apply andb_true_iff in Hcore. destruct Hcore as [Hai Hca].
    cbn [typeof] in H.
    destruct (T a caps) as [ta ca| |] eqn:Ha; destruct (T b caps) as [tb cb| |] eqn:Hb; try discriminate.
    destruct ta as [| | | | | | | |ll|]; try discriminate. cbn [is_ent_ty andb] in H.
    destruct (is_ent_or_set_of_ent tb) eqn:Hrt; [|discriminate]. cbn [negb] in H.
    destruct (action_euid sch tv a) as [l|] eqn:Ela; [|eapply in_general_sound; eauto].
    destruct (action_euids sch tv b) as [rs|] eqn:Erb; [|eapply in_general_sound; eauto].
    (* decided from the action hierarchy *)
    set (ra := filter (fun u => umem u (ts_actions sch)) rs) in *.
    assert (Ht : caps' = caps /\
                 ((t = CTrue /\ In l rs) \/ t = CBool \/
                  (t = CFalse /\ forall x, In x rs -> In x (ts_actions sch) -> x <> l /\
                     (umem l (ts_actions sch) = true -> fst (areach sch (S (List.length (ts_agraph sch))) l x []) = false)))).
    { assert (Hra : forall x, In x ra <-> In x rs /\ In x (ts_actions sch)).
      { intros x. unfold ra. rewrite filter_In, umem_In. reflexivity. }
      destruct ra as [|r0 ra'] eqn:Era.
      - inversion H; subst. split; [reflexivity|]. right. right. split; [reflexivity|]. intros x Hx Hxa. exfalso. apply (proj2 (Hra x)); auto.
      - rewrite <- Era in *. destruct (umem l ra) eqn:Eu.
        + inversion H; subst. split; [reflexivity|]. left. split; [reflexivity|]. apply umem_In in Eu. apply Hra in Eu. tauto.
        + destruct (action_below sch l ra) eqn:Eab; inversion H; subst; (split; [reflexivity|]); [right; left; reflexivity|].
          right. right. split; [reflexivity|]. intros x Hx Hxa.
          assert (Hxr : In x ra) by (apply Hra; auto).
          assert (Hne : x <> l) by (intros ->; apply umem_In in Hxr; congruence).
          split; [exact Hne|]. unfold action_below in Eab. pose proof (existsb_false_all _ _ Eab _ Hxr) as Hf. cbv beta in Hf.
          assert (E1 : uid_eqb l x = false) by (destruct (uid_eqb l x) eqn:E; [apply uid_eqb_eq in E; congruence | reflexivity]).
          intros E2. rewrite E1, E2 in Hf. cbn [negb andb] in Hf. exact Hf. }
    destruct Ht as [-> Ht]. clear H. split; [destruct Ht as [[-> _]|[->|[-> _]]]; exact I|].
    intros en Hen Hpo Hcaps. apply simple; [exact Hcaps|]. cbn [eval].
    rewrite (action_euid_eval en a l Hen Ela). cbn [bindr ent_of as_entity].
    destruct (action_euids_eval en (e_store en) (fst l, snd l) b rs Hen Erb) as (w & r & Ew & Hdo & Hiff).
    rewrite Ew. cbn [bindr]. rewrite Hdo. cbn [res_ok].
    assert (Hl : (fst l, snd l) = l) by (destruct l; reflexivity). rewrite Hl in Hiff.
    destruct Ht as [[-> Hin]|[->|[-> Hno]]]; [|constructor|].
    - assert (r = true) by (apply Hiff; exists l; split; [exact Hin | constructor]). subst r. constructor.
    - destruct r; [|constructor]. exfalso. destruct (proj1 Hiff eq_refl) as (x & Hx & Hr).
      destruct Hen as (Hst & _). destruct (Hpo Hai) as [Hih Hact]. pose proof (action_euid_declared a l Hact Ela) as Hla.
      destruct (reach_action sch (e_store en) l x Hst Hih Hla Hr) as [<-|[Hcl Hxa]].
      + destruct (Hno l Hx Hla) as [Hne _]. congruence.
      + destruct (Hno x Hx Hxa) as [_ Hf]. specialize (Hf (proj2 (umem_In _ _) Hla)). rewrite (areach_complete sch l x Hcl) in Hf. discriminate.
  Qed.

  Lemma P_is_in a ty b : P a -> P b -> P (EIsIn a ty b).
  Proof.
    intros IHa IHb. bin_intro IHa IHb a b.
    destruct (is_ent_ty ta) eqn:Hta; [|discriminate]. destruct (is_ent_or_set_of_ent tb) eqn:Hrt; [|discriminate].
    inversion H; subst. split; [exact I|]. bin_env Hsa Hsb.
    destruct ta as [| | | | | | | |ll|]; try discriminate.
    destruct (eval en a) as [v|k]; cbn [bindr res_ok] in *; [|assumption].
    destruct (vtyped_ent_inv _ _ Hra) as (t0 & i & -> & Hin). cbn [as_entity fst].
    destruct (str_eqb t0 ty); cbn [negb]; [|constructor].
    destruct (eval en b) as [w|k]; cbn [bindr res_ok] in *; [|assumption].
    destruct (do_in_total (e_store en) (t0, i) w tb Hrt Hrb) as [x ->]. constructor.
  Qed.

  (* ---------------- attribute access, has ---------------- *)
  Lemma caps_hold_In en caps c : caps_hold en caps -> In c caps -> cap_holds en c.
  Proof. unfold caps_hold. rewrite Forall_forall. auto. Qed.

  Lemma P_access a k : P a -> P (EAccess a k).
  Proof.
    intros IHa Hcore caps t caps' H. cbn [core] in Hcore. apply andb_true_iff in Hcore. destruct Hcore as [Hk Hca].
    cbn [typeof] in H.
    destruct (T a caps) as [ta ca| |] eqn:Ha; try discriminate.
    destruct (IHa Hca _ _ _ Ha) as [Hwa Hsa].
    destruct (is_ent_or_rec ta) eqn:Hta; [|discriminate]. cbn [negb] in H.
    destruct (lookup_attr true sch ta k) as [[at_ req]|] eqn:El; [|discriminate].
    assert (Ht : t = at_ /\ caps' = caps /\ (req = true \/ exists key, cap_key a = Some key /\ In (key, k, false) caps)).
    { destruct req; [inversion H; auto|].
      destruct (cap_key a) as [key|]; [|discriminate]. destruct (cap_has caps (key, k, false)) eqn:Ec; [|discriminate].
      inversion H; subst. split; [reflexivity|]. split; [reflexivity|]. right. exists key. split; [reflexivity | apply cap_has_In, Ec]. }
    destruct Ht as (-> & -> & Hreq). split; [eapply lookup_attr_WT; eauto|].
    intros en Hen Hpo Hcaps. destruct (Hsa en Hen Hpo Hcaps) as [Hra _]. apply res_sound_ok in Hra. apply simple; [exact Hcaps|]. cbn [eval].
    destruct (eval en a) as [v|kk] eqn:Ea; cbn [bindr res_ok] in *; [|assumption].
    destruct Hen as (Hst & _).
    pose proof (get_attr_typed sch Hwf (e_store en) v ta k at_ req Hst Hra El) as G.
    destruct (get_attr (e_store en) v k) as [x|[]]; cbn [res_ok]; try assumption; try reflexivity; try contradiction.
    exfalso. destruct G as [-> Hf]. destruct Hreq as [E|(key & Hkey & Hin)]; [discriminate|].
    pose proof (caps_hold_In _ _ _ Hcaps Hin a Hkey v Ea) as Hc. cbn [snd fst] in Hc. congruence.
  Qed.

  Lemma has_ty_cases t k : has_result_type sch t k = CTrue \/ has_result_type sch t k = CFalse \/ has_result_type sch t k = CBool.
  Proof.
    destruct t as [| | | | | | |attrs0|l0|]; cbn [has_result_type]; auto.
    - destruct (alookup k attrs0) as [[? [|]]|]; auto.
    - match goal with |- context [if ?c then _ else _] => destruct c end; auto.
  Qed.

  Lemma P_has a k : P a -> P (EHas a k).
  Proof.
    intros IHa Hca caps t caps' H. cbn [core] in Hca. cbn [typeof] in H.
    destruct (T a caps) as [ta ca| |] eqn:Ha; try discriminate.
    destruct (IHa Hca _ _ _ Ha) as [Hwa Hsa].
    destruct (is_ent_or_rec ta) eqn:Hta; [|discriminate]. cbn [negb] in H.
    assert (HWT : WT t).
    { destruct (cap_key a) as [key0|]; inversion H; subst; destruct (has_ty_cases ta k) as [E|[E|E]]; rewrite E; try exact I.
      destruct (cap_has caps (key0, k, false)); exact I. }
    split; [exact HWT|].
    intros en Hen Hpo Hcaps. destruct (Hsa en Hen Hpo Hcaps) as [Hra _]. apply res_sound_ok in Hra.
    destruct Hen as (Hst & _).
    assert (Hev : forall v, eval en a = Ok v -> exists x, has_attr (e_store en) v k = Ok (VBool x) /\ vtyped (VBool x) (has_result_type sch ta k)).
    { intros v Ev. rewrite Ev in Hra. cbn [res_ok] in Hra. apply (has_attr_typed sch); auto. }
    destruct (cap_key a) as [key|] eqn:Hkey.
    - inversion H; subst t caps'. clear H.
      (* the new capability holds as soon as `has` is true on every value of a *)
      assert (Hnew : (forall v, eval en a = Ok v -> has_attr (e_store en) v k = Ok (VBool true)) -> caps_hold en ((key, k, false) :: caps)).
      { intros Hall. constructor; [|exact Hcaps]. intros base Hb v Ev. cbn [fst snd] in *.
        assert (base = a) by (eapply cap_key_inj; eauto using core_short_path). subst base. apply Hall, Ev. }
      destruct (cap_has caps (key, k, false)) eqn:Ec.
      + (* the capability is already there *)
        assert (Hold : forall v, eval en a = Ok v -> has_attr (e_store en) v k = Ok (VBool true)).
        { intros v Ev. apply (caps_hold_In _ _ _ Hcaps (cap_has_In _ _ Ec) a Hkey v Ev). }
        split; [|intros _; apply Hnew, Hold]. cbn [eval].
        destruct (eval en a) as [v|kk] eqn:Ea; cbn [bindr res_sound res_ok] in *; [|assumption].
        rewrite (Hold v eq_refl). split; [|intros _; apply Hnew, Hold].
        destruct (has_ty_cases ta k) as [E|[E|E]]; rewrite E; try constructor.
        destruct (Hev v eq_refl) as (x & Hx & Hxt). rewrite (Hold v eq_refl) in Hx. inversion Hx; subst x. rewrite E in Hxt. exact Hxt.
      + pose proof (has_ty_cases ta k) as Hcases. set (rt := has_result_type sch ta k) in *.
        assert (Hrt : (match rt with CBool => CBool | _ => rt end) = rt) by (destruct rt; reflexivity).
        rewrite Hrt in *. split.
        * cbn [eval]. destruct (eval en a) as [v|kk] eqn:Ea; cbn [bindr res_sound res_ok] in *; [|assumption].
          destruct (Hev v eq_refl) as (x & Hx & Hxt). rewrite Hx. split; [exact Hxt|].
          intros Ex. inversion Ex; subst x. apply Hnew. intros v' Ev'. inversion Ev'; subst v'. exact Hx.
        * intros [E|E]; [|destruct Hcases as [E'|[E'|E']]; congruence].
          apply Hnew. intros v Ev. destruct (Hev v Ev) as (x & Hx & Hxt). rewrite E in Hxt. apply vtyped_true_inv in Hxt. congruence.
    - inversion H; subst t caps'. apply simple; [exact Hcaps|]. cbn [eval].
      destruct (eval en a) as [v|kk] eqn:Ea; cbn [bindr res_ok] in *; [|assumption].
      destruct (Hev v eq_refl) as (x & Hx & Hxt). rewrite Hx. exact Hxt.
  Qed.
  (* ---------------- tags ---------------- *)
  Lemma hastag_caps_inv a b caps t caps' :
    match cap_key a, b with
    | Some key, ELit (VString s) => (match s with [] => TOk CBool caps | _ => TOk CBool ((key, s, true) :: caps) end)
    | _, _ => TOk CBool caps
    end = TOk t caps' ->
    t = CBool /\ (caps' = caps \/ exists key s, cap_key a = Some key /\ b = ELit (VString s) /\ caps' = (key, s, true) :: caps).
  Proof.
    destruct (cap_key a) as [key|]; [|intros H; inversion H; auto].
    destruct b; try (intros H; inversion H; auto; fail).
    destruct v; try (intros H; inversion H; auto; fail).
    destruct s; intros H; inversion H; subst; auto. split; [reflexivity|]. right. eauto.
  Qed.

  Lemma P_has_tag a b : P a -> P b -> P (EHasTag a b).
  Proof.
    intros IHa IHb. bin_intro IHa IHb a b.
    destruct ta as [| | | | | | | |l|]; try discriminate. destruct tb; try discriminate.
    destruct (entity_has_tags sch l) eqn:Eh; cbn [negb] in H.
    - apply hastag_caps_inv in H. destruct H as [-> Hc']. split; [exact I|].
      intros en Hen Hpo Hcaps. destruct (Hsa en Hen Hpo Hcaps) as [Hra _]. destruct (Hsb en Hen Hpo Hcaps) as [Hrb _].
      apply res_sound_ok in Hra. apply res_sound_ok in Hrb.
      split; [|intros [E|E]; discriminate]. cbn [eval].
      destruct (eval en a) as [v|k] eqn:Ea; cbn [bindr res_ok res_sound] in *; [|assumption].
      destruct (vtyped_ent_inv _ _ Hra) as (t0 & i & -> & Hin). cbn [as_entity].
      destruct (eval en b) as [w|k] eqn:Eb; cbn [bindr res_ok res_sound] in *; [|assumption].
      destruct (vtyped_string_inv _ Hrb) as (s' & ->). cbn [as_string]. unfold vbool.
      destruct Hc' as [->|(key & s & Hkey & -> & ->)].
      + destruct (lookup (e_store en) (t0, i)); (split; [constructor | auto]).
      + cbn [eval] in Eb. inversion Eb; subst s'.
        destruct (lookup (e_store en) (t0, i)) as [ent|] eqn:El; [|split; [constructor | discriminate]].
        split; [constructor|]. intros Et. constructor; [|exact Hcaps].
        intros base Hbase v Ev. cbn [fst snd] in *.
        assert (base = a) by (eapply cap_key_inj; eauto using core_short_path). subst base.
        rewrite Ea in Ev. inversion Ev; subst v. exists t0, i, ent. split; [reflexivity|]. split; [exact El|].
        destruct (rec_get s (e_tags ent)); [discriminate | inversion Et].
    - inversion H; subst. split; [exact I|]. bin_env Hsa Hsb.
      destruct (eval en a) as [v|k] eqn:Ea; cbn [bindr res_ok] in *; [|assumption].
      destruct (vtyped_ent_inv _ _ Hra) as (t0 & i & -> & Hin). cbn [as_entity].
      destruct (eval en b) as [w|k] eqn:Eb; cbn [bindr res_ok] in *; [|assumption].
      destruct (vtyped_string_inv _ Hrb) as (s' & ->). cbn [as_string]. unfold vbool.
      destruct (lookup (e_store en) (t0, i)) as [ent|] eqn:El; [|constructor].
      destruct Hen as (Hst & _). rewrite (has_tags_false sch (e_store en) l t0 i ent s' Hst Hin Eh El). constructor.
  Qed.

  Lemma gettag_inv a b caps tagt t caps' :
    match cap_key a, b with
    | Some key, ELit (VString s) => (match s with [] => TErr | _ => if cap_has caps (key, s, true) then TOk tagt caps else TErr end)
    | _, _ => TErr
    end = TOk t caps' ->
    exists key s, cap_key a = Some key /\ b = ELit (VString s) /\ In (key, s, true) caps /\ t = tagt /\ caps' = caps.
  Proof.
    intros H. destruct (cap_key a) as [key|]; [|discriminate].
    destruct b; try discriminate. destruct v; try discriminate. destruct s as [|c s]; [discriminate|].
    match type of H with (if ?cc then _ else _) = _ => destruct cc eqn:Ec end; [|discriminate].
    inversion H; subst. exists key, (c :: s). repeat split; auto. apply cap_has_In, Ec.
  Qed.

  Lemma P_get_tag a b : P a -> P b -> P (EGetTag a b).
  Proof.
    intros IHa IHb. bin_intro IHa IHb a b.
    destruct ta as [| | | | | | | |l|]; try discriminate. destruct tb; try discriminate.
    destruct (entity_tag_type true sch l) as [tagt|] eqn:Et; [|discriminate].
    apply gettag_inv in H. destruct H as (key & s & Hkey & -> & Hin & -> & ->).
    split; [eapply tag_type_WT; eauto|]. bin_env Hsa Hsb.
    destruct (eval en a) as [v|k] eqn:Ea; cbn [bindr res_ok] in *; [|assumption].
    pose proof (caps_hold_In _ _ _ Hcaps Hin a Hkey v Ea) as Hc. cbn [fst snd] in Hc.
    destruct Hc as (t0 & i & ent & -> & El & Htag). cbn [as_entity].
    destruct (vtyped_ent_inv _ _ Hra) as (t1 & i1 & E & Hin1). inversion E; subst t1 i1.
    destruct (rec_get s (e_tags ent)) as [x|] eqn:Eg; [|congruence].
    destruct Hen as (Hst & _).
    destruct (get_tag_typed sch Hwf (e_store en) l t0 i ent s x tagt Hst Hin1 Et El Eg) as [Hx Hz].
    rewrite Hz. cbn [bindr as_string]. rewrite El, Eg. exact Hx.
  Qed.
  (* ---------------- set literals ---------------- *)
  Lemma res_ok_sub r t u : res_ok r t -> sub t u -> res_ok r u.
  Proof. destruct r; cbn [res_ok]; auto. Qed.

  Lemma set_go_spec caps : forall l acc bad t caps',
    Forall P l -> forallb (core ai) l = true -> WT acc ->
    set_go (fun x => T x caps) caps l acc bad = TOk t caps' ->
    bad = false /\ caps' = caps /\ exists u, t = CSet u /\ WT u /\ sub acc u /\
      Forall (fun x => forall en, env_ok sch tv en -> (ai = true -> in_env_hyps (e_store en)) -> caps_hold en caps -> res_ok (eval en x) u) l.
  Proof.
    induction l as [|x r IH]; intros acc bad t caps' HP Hc Hw H.
    - cbn [set_go] in H. destruct bad; [discriminate|]. inversion H; subst. split; [reflexivity|]. split; [reflexivity|].
      exists acc. repeat split; auto. intros v Hv; exact Hv.
    - cbn [set_go] in H. fold (set_go (fun x => T x caps) caps) in H.
      inversion HP as [|? ? HPx HPr]; subst. cbn [forallb] in Hc. apply andb_true_iff in Hc. destruct Hc as [Hcx Hcr].
      destruct (T x caps) as [tx cx| |] eqn:Hx; [| |discriminate].
      + destruct (HPx Hcx _ _ _ Hx) as [Hwx Hsx].
        destruct bad; [destruct (IH _ _ _ _ HPr Hcr Hw H) as [E _]; discriminate|].
        destruct (negb (strict_ent_lub_ok true acc tx)); [destruct (IH _ _ _ _ HPr Hcr Hw H) as [E _]; discriminate|].
        destruct (lub' true acc tx) as [u0|] eqn:El; [|destruct (IH _ _ _ _ HPr Hcr Hw H) as [E _]; discriminate].
        destruct (lub'_sub _ _ _ El Hw Hwx) as (Hwu & S1 & S2).
        destruct (IH _ _ _ _ HPr Hcr Hwu H) as (_ & -> & u & -> & Hwu' & S3 & Hall).
        split; [reflexivity|]. split; [reflexivity|]. exists u. repeat split; auto.
        * eapply sub_trans; eauto.
        * constructor; [|exact Hall]. intros en Hen Hpo Hcaps. destruct (Hsx en Hen Hpo Hcaps) as [Hr _].
          apply res_sound_ok in Hr. eapply res_ok_sub; [exact Hr|]. eapply sub_trans; eauto.
      + destruct (IH _ _ _ _ HPr Hcr Hw H) as [E _]; discriminate.
  Qed.

  Lemma seq_res_spec u rs : Forall (fun r => res_ok r u) rs ->
    match seq_res rs with
    | inl e => exists k, e = Err k /\ allowed_error k = true
    | inr vs => Forall (fun v => vtyped v u) vs
    end.
  Proof.
    induction rs as [|r rs IH]; intros H; cbn [seq_res]; [constructor|].
    inversion H as [|? ? Hr Hrs]; subst. destruct r as [v|k]; cbn [res_ok] in Hr.
    - specialize (IH Hrs). destruct (seq_res rs); [exact IH | constructor; assumption].
    - exists k. auto.
  Qed.

  Lemma P_set es : Forall P es -> P (ESet es).
  Proof.
    intros HP Hcore caps t caps' H. rewrite core_set in Hcore.
    destruct es as [|x es]; [cbn [typeof] in H; discriminate|].
    rewrite typeof_set in H. apply set_go_spec in H; auto; [|exact I].
    destruct H as (_ & -> & u & -> & Hwu & _ & Hall). split; [exact Hwu|].
    intros en Hen Hpo Hcaps. apply simple; [exact Hcaps|]. cbn [eval].
    assert (HF : Forall (fun r => res_ok r u) (map (eval en) (x :: es))).
    { apply Forall_map. eapply Forall_impl; [|exact Hall]. cbv beta. intros y Hy. apply Hy; auto. }
    pose proof (seq_res_spec u _ HF) as Hs.
    destruct (seq_res (map (eval en) (x :: es))) as [e|vs].
    - destruct Hs as (k & -> & Hk). exact Hk.
    - cbn [res_ok]. unfold mk_set. constructor. rewrite Forall_forall in *. intros v Hv.
      destruct (dedup_incl _ _ _ Hv) as [Hin|[]]. apply Hs, Hin.
  Qed.

  (* ---------------- record literals ---------------- *)
  Lemma alookup_filter_ne (acc : attrs) k0 k : k <> k0 ->
    alookup k (filter (fun kv : str * (cty * bool) => negb (str_eqb (fst kv) k0)) acc) = alookup k acc.
  Proof.
    intros Hne. induction acc as [|[k1 v1] acc IH]; [reflexivity|]. cbn [filter fst].
    destruct (str_eqb k1 k0) eqn:E; cbn [negb alookup].
    - apply str_eqb_eq in E. subst k1. destruct (str_eqb k0 k) eqn:E2; [apply str_eqb_eq in E2; congruence | exact IH].
    - rewrite IH. reflexivity.
  Qed.

  Lemma WT_rec_step (acc : attrs) k0 tx : WT (CRec acc) -> WT tx ->
    WT (CRec ((k0, (tx, true)) :: filter (fun kv : str * (cty * bool) => negb (str_eqb (fst kv) k0)) acc)).
  Proof.
    intros Hw Hx. apply WT_rec in Hw. destruct Hw as [Hnd Hall]. apply WT_rec. cbn [map fst]. split.
    - constructor.
      + intros Hin. apply in_map_iff in Hin. destruct Hin as ([k1 v1] & E & Hin). cbn [fst] in E. subst k1.
        apply filter_In in Hin. destruct Hin as [_ Hf]. cbn [fst] in Hf. rewrite str_eqb_refl in Hf. discriminate.
      + clear Hall. induction acc as [|[k1 v1] acc IH]; [constructor|]. cbn [map fst] in Hnd. inversion Hnd as [|? ? Hn1 Hn2]; subst.
        cbn [filter fst]. destruct (negb (str_eqb k1 k0)); [|apply IH, Hn2].
        cbn [map fst]. constructor; [|apply IH, Hn2]. intros Hin. apply Hn1.
        apply in_map_iff in Hin. destruct Hin as (kv & E & Hin). apply filter_In in Hin. apply in_map_iff. exists kv. tauto.
    - constructor; [exact Hx|]. rewrite Forall_forall in *. intros kv Hkv. apply filter_In in Hkv. apply Hall, Hkv.
  Qed.

  Lemma rec_go_spec caps : forall l acc t caps',
    Forall (fun kv => P (snd kv)) l -> forallb (fun kv => core ai (snd kv)) l = true -> WT (CRec acc) ->
    rec_go (fun x => T x caps) caps l acc = TOk t caps' ->
    caps' = caps /\ exists accf, t = CRec accf /\ WT (CRec accf) /\
      (forall k, alookup k accf = match rec_get k (rev l) with
                                  | Some x => match T x caps with TOk tx _ => Some (tx, true) | _ => None end
                                  | None => alookup k acc
                                  end) /\
      Forall (fun kv => exists tx cx, T (snd kv) caps = TOk tx cx) l.
  Proof.
    induction l as [|[k0 x] r IH]; intros acc t caps' HP Hc Hw H.
    - cbn [rec_go] in H. inversion H; subst. split; [reflexivity|]. exists acc.
      split; [reflexivity|]. split; [exact Hw|]. split; [intros k; reflexivity | constructor].
    - cbn [rec_go] in H. fold (rec_go (fun x => T x caps) caps) in H.
      inversion HP as [|? ? HPx HPr]; subst. cbn [snd] in HPx. cbn [forallb snd] in Hc. apply andb_true_iff in Hc. destruct Hc as [Hcx Hcr].
      destruct (T x caps) as [tx cx| |] eqn:Hx; [| |discriminate].
      + destruct (HPx Hcx _ _ _ Hx) as [Hwx _].
        destruct (IH _ _ _ HPr Hcr (WT_rec_step acc k0 tx Hw Hwx) H) as (-> & accf & -> & Hwf' & Hlk & Hall).
        split; [reflexivity|]. exists accf. split; [reflexivity|]. split; [exact Hwf'|]. split.
        * intros k. rewrite Hlk. cbn [rev]. rewrite rec_get_app. destruct (rec_get k (rev r)); [reflexivity|].
          cbn [rec_get alookup]. rewrite (str_eqb_sym k0 k). destruct (str_eqb k k0) eqn:E.
          -- rewrite Hx. reflexivity.
          -- apply alookup_filter_ne. apply str_eqb_neq, E.
        * constructor; [cbn [snd]; eauto | exact Hall].
      + destruct (rec_go (fun x => T x caps) caps r acc); discriminate.
  Qed.

  Lemma sorted_In_get {A} (l : list (str * A)) k v : keys_sorted l = true -> In (k, v) l -> rec_get k l = Some v.
  Proof.
    induction l as [|[k1 v1] l IH]; intros Hs Hin; [destruct Hin|].
    apply keys_sorted_cons in Hs. destruct Hs as [Hlb Hs]. cbn [rec_get].
    destruct Hin as [E|Hin]; [inversion E; subst; rewrite str_eqb_refl; reflexivity|].
    destruct (str_eqb k k1) eqn:E; [|apply IH; assumption].
    exfalso. apply str_eqb_eq in E. subst k1. pose proof (rec_get_lb k l Hs Hlb) as Hn.
    assert (Hk : rec_get k l <> None) by (apply rec_get_keys, in_map_iff; exists (k, v); auto). congruence.
  Qed.

  Lemma rec_get_map {A B} (f : A -> B) (l : list (str * A)) k :
    rec_get k (map (fun kv => (fst kv, f (snd kv))) l) = option_map f (rec_get k l).
  Proof. induction l as [|[k1 v1] l IH]; [reflexivity|]. cbn [map rec_get fst snd]. destruct (str_eqb k k1); auto. Qed.

  Lemma seq_rec_spec (rs : list (str * res)) :
    match seq_rec rs with
    | inl e => exists k kk, In (k, Err kk) rs /\ e = Err kk
    | inr fields => rs = map (fun kv => (fst kv, Ok (snd kv))) fields
    end.
  Proof.
    induction rs as [|[k [v|kk]] rs IH]; cbn [seq_rec]; [reflexivity| |].
    - destruct (seq_rec rs) as [e|fields].
      + destruct IH as (k' & kk & Hin & ->). exists k', kk. split; [right; exact Hin | reflexivity].
      + cbn [map fst snd]. rewrite <- IH. reflexivity.
    - exists k, kk. split; [left; reflexivity | reflexivity].
  Qed.

  Lemma P_record kvs : Forall (fun kv => P (snd kv)) kvs -> P (ERecord kvs).
  Proof.
    intros HP Hcore caps t caps' H. rewrite core_record in Hcore. rewrite typeof_record in H.
    apply rec_go_spec in H; auto; [|apply WT_rec; split; constructor].
    destruct H as (-> & accf & -> & Hwf' & Hlk & Hall). split; [exact Hwf'|].
    intros en Hen Hpo Hcaps. apply simple; [exact Hcaps|]. cbn [eval].
    set (rs := rec_of_list (map (fun kv : str * expr => (fst kv, eval en (snd kv))) kvs)).
    assert (Hsorted : keys_sorted rs = true) by apply rec_of_list_sorted_gen.
    (* every field of rs is the value of the last expression bound to its key, whose type is recorded in accf *)
    assert (Hget : forall k, rec_get k rs = option_map (eval en) (rec_get k (rev kvs))).
    { intros k. unfold rs. rewrite rec_of_list_get_gen, <- map_rev. apply rec_get_map. }
    assert (Hfield : forall k r, In (k, r) rs -> exists x tx cx, In (k, x) kvs /\ r = eval en x /\ T x caps = TOk tx cx /\
                                                    alookup k accf = Some (tx, true) /\ res_ok r tx).
    { intros k r Hin. pose proof (sorted_In_get _ _ _ Hsorted Hin) as Hg. rewrite Hget in Hg.
      destruct (rec_get k (rev kvs)) as [x|] eqn:Ex; [|discriminate]. cbn [option_map] in Hg. inversion Hg; subst r.
      assert (Hinx : In (k, x) kvs) by (apply in_rev; apply rec_get_In; exact Ex).
      rewrite Forall_forall in Hall. destruct (Hall _ Hinx) as (tx & cx & Hx). cbn [snd] in Hx.
      exists x, tx, cx. repeat split; auto.
      - rewrite Hlk, Ex, Hx. reflexivity.
      - rewrite Forall_forall in HP. rewrite forallb_forall in Hcore.
        destruct (HP _ Hinx (Hcore _ Hinx) _ _ _ Hx) as [_ Hs]. destruct (Hs en Hen Hpo Hcaps) as [Hr _].
        apply res_sound_ok in Hr. exact Hr. }
    pose proof (seq_rec_spec rs) as Hseq. destruct (seq_rec rs) as [e|fields].
    - destruct Hseq as (k & kk & Hin & ->). destruct (Hfield _ _ Hin) as (x & tx & cx & _ & _ & _ & _ & Hr). exact Hr.
    - cbn [res_ok]. constructor.
      + rewrite Forall_forall. intros [k v] Hkv.
        assert (Hin : In (k, Ok v) rs) by (rewrite Hseq; apply in_map_iff; exists (k, v); auto).
        destruct (Hfield _ _ Hin) as (x & tx & cx & _ & _ & _ & Hl & Hr). exists tx, true. cbn [fst snd]. auto.
      + intros k t' Hl. rewrite Hlk in Hl. destruct (rec_get k (rev kvs)) as [x|] eqn:Ex; [|discriminate].
        pose proof (Hget k) as Hg. rewrite Ex in Hg. cbn [option_map] in Hg. rewrite Hseq in Hg.
        rewrite (rec_get_map (fun v => Ok v)) in Hg. destruct (rec_get k fields) as [v|]; [eauto | discriminate].
  Qed.
  (* ---------------- extension calls ---------------- *)
  Lemma call_go_spec caps ret lp : forall l tys bad t caps',
    Forall P l -> forallb (core ai) l = true -> List.length l = List.length tys ->
    call_go (fun x => T x caps) caps ret lp l tys bad = TOk t caps' ->
    bad = false /\ lp = false /\ t = ret /\ caps' = caps /\
    Forall2 (fun x ty => forall en, env_ok sch tv en -> (ai = true -> in_env_hyps (e_store en)) -> caps_hold en caps -> res_ok (eval en x) ty) l tys.
  Proof.
    induction l as [|x r IH]; intros tys bad t caps' HP Hc Hlen H.
    - destruct tys; [|discriminate]. cbn [call_go] in H. destruct bad; [discriminate|]. destruct lp; [discriminate|].
      cbn in H. inversion H; subst. repeat split; auto.
    - destruct tys as [|ty tr]; [discriminate|]. cbn [List.length] in Hlen. inversion Hlen as [Hlen'].
      cbn [call_go] in H. fold (call_go (fun x => T x caps) caps ret lp) in H.
      inversion HP as [|? ? HPx HPr]; subst. cbn [forallb] in Hc. apply andb_true_iff in Hc. destruct Hc as [Hcx Hcr].
      destruct (T x caps) as [tx cx| |] eqn:Hx; [| |discriminate].
      + destruct (IH _ _ _ _ HPr Hcr Hlen' H) as (Hb & -> & -> & -> & Hall).
        apply orb_false_iff in Hb. destruct Hb as [-> Hsub]. apply negb_false_iff in Hsub. apply arg_subtype_eq in Hsub. subst tx.
        repeat split; auto. constructor; [|exact Hall].
        intros en Hen Hpo Hcaps. destruct (HPx Hcx _ _ _ Hx) as [_ Hs]. destruct (Hs en Hen Hpo Hcaps) as [Hr _].
        apply res_sound_ok in Hr. exact Hr.
      + destruct (IH _ _ _ _ HPr Hcr Hlen' H) as (Hb & _). discriminate.
  Qed.

  Lemma ext_sig_ctor name argtys ret : ext_sig name = Some (true, argtys, ret) -> argtys = [CString].
  Proof.
    intros H. unfold ext_sig in H.
    repeat (nm_case H; cbn [orb] in H; cbv iota in H; [ inversion H; reflexivity | ]); try discriminate.
    all: inversion H.
  Qed.

  Lemma Forall2_map_l {A B C} (R : B -> C -> Prop) (f : A -> B) l m : Forall2 (fun x y => R (f x) y) l m -> Forall2 R (map f l) m.
  Proof. induction 1; cbn [map]; constructor; auto. Qed.

  Lemma P_call name args : Forall P args -> P (ECall name args).
  Proof.
    intros HP Hcore caps t caps' H. rewrite core_call in Hcore. rewrite typeof_call in H.
    destruct (ext_sig name) as [[[ctor argtys] ret]|] eqn:Hsig; [|discriminate].
    destruct (Nat.eqb (List.length args) (List.length argtys)) eqn:Hlen; cbn [negb] in H.
    2: { destruct (existsb _ args); discriminate. }
    apply Nat.eqb_eq in Hlen.
    apply call_go_spec in H; auto. destruct H as (_ & Hlp & -> & -> & Hall).
    assert (Hw : WT ret).
    { clear - Hsig. unfold ext_sig in Hsig.
      repeat (nm_case Hsig; cbn [orb] in Hsig; cbv iota in Hsig; [ inversion Hsig; exact I | ]); discriminate. }
    split; [exact Hw|].
    intros en Hen Hpo Hcaps. apply simple; [exact Hcaps|]. cbn [eval].
    apply (call_ext_sound name ctor argtys ret); [exact Hsig | |].
    - apply Forall2_map_l. clear - Hall Hen Hpo Hcaps. induction Hall as [|x ty r tr Hx Hr IHr]; constructor; [apply Hx; auto | exact IHr].
    - intros ->. pose proof (ext_sig_ctor _ _ _ Hsig) as ->. cbn [andb] in Hlp.
      inversion Hall as [|x ty r tr Hx Hr]; subst. inversion Hr; subst. specialize (Hx en Hen Hpo Hcaps).
      destruct x; try discriminate. cbn [eval map] in *. cbn [res_ok] in Hx.
      destruct (vtyped_string_inv _ Hx) as (s & ->). exists s. split; [reflexivity|]. apply negb_false_iff in Hlp. exact Hlp.
  Qed.

  (* ---------------- the induction ---------------- *)
  Theorem typeof_sound_all : forall e, P e.
  Proof.
    induction e using expr_ind'.
    - apply P_lit.
    - apply P_var.
    - apply P_and; assumption.
    - apply P_or; assumption.
    - apply P_not; assumption.
    - apply P_neg; assumption.
    - apply P_add; assumption.
    - apply P_sub; assumption.
    - apply P_mul; assumption.
    - apply P_eq; assumption.
    - apply P_ne; assumption.
    - apply P_lt; assumption.
    - apply P_le; assumption.
    - apply P_gt; assumption.
    - apply P_ge; assumption.
    - apply P_in; assumption.
    - apply P_contains; assumption.
    - apply P_contains_all; assumption.
    - apply P_contains_any; assumption.
    - apply P_is_empty; assumption.
    - apply P_access; assumption.
    - apply P_has; assumption.
    - apply P_get_tag; assumption.
    - apply P_has_tag; assumption.
    - apply P_like; assumption.
    - apply P_is; assumption.
    - apply P_is_in; assumption.
    - apply P_if; assumption.
    - apply P_set; assumption.
    - apply P_record; assumption.
    - apply P_call; assumption.
    - apply P_perr.
  Qed.
End Main.

(* ------------------------------------------------------------------ *)
(* Headline statements                                                  *)
(* ------------------------------------------------------------------ *)
(* the request environment's action is one of the schema's declared actions (Go enumerates request environments from schema.Actions) *)
Definition action_declared (sch : tschema) (tv : tenv) : Prop := umem (tv_action tv) (ts_actions sch) = true.

(* every attribute name used in an access `a.k` inside e is shorter than 10^39 bytes *)
Definition keys_small (e : expr) : bool := core true e.

(* typeof only produces types whose record keys are pairwise distinct *)
Theorem typeof_strict_WT : forall sch tv e, schema_wf sch -> tenv_wf sch tv -> keys_small e = true ->
  forall caps t caps', typeof true sch tv e caps = TOk t caps' -> WT t.
Proof. intros sch tv e Hs Ht Hc caps t caps' H. exact (proj1 (typeof_sound_all sch tv Hs Ht true e Hc caps t caps' H)). Qed.

(* MAIN THEOREM: the full language, in every conforming environment (env_ok, plus what the Go validator checks about action entities
   and unknown entity types and entity_ok does not say: actions_conform, store_types_known) *)
Theorem typeof_sound_strict : forall sch tv e, schema_wf sch -> tenv_wf sch tv -> agraph_wf sch -> action_declared sch tv -> keys_small e = true ->
  forall caps t caps', typeof true sch tv e caps = TOk t caps' ->
  forall en, env_ok sch tv en -> actions_conform sch (e_store en) -> store_types_known sch (e_store en) -> caps_hold en caps ->
    match eval en e with
    | Ok v => vtyped v t /\ (v = VBool true -> caps_hold en caps')
    | Err k => allowed_error k = true
    end.
Proof.
  intros sch tv e Hs Ht Hg Hd Hc caps t caps' H en Hen Hac Hk Hcaps.
  destruct (typeof_sound_all sch tv Hs Ht true e Hc caps t caps' H) as [_ Hsound].
  destruct (Hsound en Hen (fun _ => conj (conj Hg (conj Hac Hk)) Hd) Hcaps) as [Hr _]. exact Hr.
Qed.

(* the stronger capability fact the induction carries: an expression typed True (or Never) establishes its capabilities in every
   conforming environment, whether or not it is evaluated (this is what `a || b` with b : True relies on) *)
Theorem typeof_true_caps : forall sch tv e, schema_wf sch -> tenv_wf sch tv -> agraph_wf sch -> action_declared sch tv -> keys_small e = true ->
  forall caps t caps', typeof true sch tv e caps = TOk t caps' -> (t = CTrue \/ t = CNever) ->
  forall en, env_ok sch tv en -> actions_conform sch (e_store en) -> store_types_known sch (e_store en) -> caps_hold en caps ->
    caps_hold en caps'.
Proof.
  intros sch tv e Hs Ht Hg Hd Hc caps t caps' H Htt en Hen Hac Hk Hcaps.
  destruct (typeof_sound_all sch tv Hs Ht true e Hc caps t caps' H) as [_ Hsound].
  destruct (Hsound en Hen (fun _ => conj (conj Hg (conj Hac Hk)) Hd) Hcaps) as [_ Hr]. exact (Hr Htt).
Qed.

(* the statement of the task, literally (sound_at of Lang/TypeSound.v), for expressions without `in` (`is .. in` is allowed) *)
Definition in_free_small (e : expr) : bool := core false e.

Theorem typeof_sound_strict_in_free : forall sch tv e, schema_wf sch -> tenv_wf sch tv -> in_free_small e = true -> sound_at sch true tv e.
Proof.
  intros sch tv e Hs Ht Hc caps t caps' H en Hen Hcaps.
  destruct (typeof_sound_all sch tv Hs Ht false e Hc caps t caps' H) as [_ Hsound].
  destruct (Hsound en Hen (fun E => match Bool.diff_false_true E with end) Hcaps) as [Hr _]. exact Hr.
Qed.

(* ------------------------------------------------------------------ *)
(* Counterexamples                                                      *)
(* ------------------------------------------------------------------ *)
Definition S_ (x : string) : str := s_of x.
Definition mkent (ps : list str) (sh : list (str * (cty * bool))) (tg : option cty) : tentity :=
  {| te_parents := ps; te_shape := sh; te_tags := tg |}.
Definition ill_typed : expr := EGt (EAdd (ELit (VLong 1)) (ELit (VString (S_ "x")))) (ELit (VLong 0)).

Lemma store_ok_nil sch : store_ok sch [].
Proof. intros u e H. discriminate. Qed.

Lemma vtyped_rec1 k v t : vtyped v t -> vtyped (VRecord [(k, v)]) (CRec [(k, (t, true))]).
Proof.
  intros Hv. constructor.
  - constructor; [|constructor]. exists t, true. cbn [fst snd alookup]. rewrite str_eqb_refl. auto.
  - intros k' t' H. cbn [alookup] in H. destruct (str_eqb k k') eqn:E; [|discriminate]. apply str_eqb_eq in E. subst k'.
    exists v. cbn [rec_get]. rewrite str_eqb_refl. reflexivity.
Qed.

(* 1. permissive mode is not sound (F29): the lub of {k: Long} and {k: String} drops k, so `has k` is typed False *)
Definition sch_p : tschema := {| ts_entities := [(S_ "U", mkent [] [] None)]; ts_enums := []; ts_actions := []; ts_agraph := [] |}.
Definition tv_p : tenv := {| tv_principal := S_ "U"; tv_action := (S_ "Action", S_ "view"); tv_resource := S_ "U"; tv_context := [(S_ "c", (CBool, true))] |}.
Definition e_p : expr :=
  EIf (EHas (EIf (EAccess (EVar VContext) (S_ "c")) (ERecord [(S_ "k", ELit (VLong 1))]) (ERecord [(S_ "k", ELit (VString (S_ "s")))])) (S_ "k"))
      ill_typed (ELit (VBool true)).
Definition en_p : env := {| e_store := []; e_principal := VEntity (S_ "U") (S_ "1"); e_action := VEntity (S_ "Action") (S_ "view");
                            e_resource := VEntity (S_ "U") (S_ "2"); e_context := VRecord [(S_ "c", VBool true)] |}.

Example permissive_unsound : exists sch tv e t caps en,
  typeof false sch tv e [] = TOk t caps /\ env_ok sch tv en /\ (exists k, eval en e = Err k /\ allowed_error k = false).
Proof.
  exists sch_p, tv_p, e_p, CTrue, [], en_p. split; [vm_compute; reflexivity|]. split.
  - split; [apply store_ok_nil|]. split; [constructor; left; reflexivity|]. split; [reflexivity|].
    split; [constructor; left; reflexivity|]. apply vtyped_rec1. constructor.
  - exists EType. split; vm_compute; reflexivity.
Qed.

(* 2. strict mode: the conformance hypothesis actions_conform cannot be dropped: env_ok alone (entity_ok says nothing about the parents
   of an action entity) admits a store that Go's validateActionEntity rejects - Action::"view" has no declared groups but a parent
   G::"g" - and there `(if true then action else action) in G::"g"`, typed False, is true. *)
Definition sch_a : tschema := {| ts_entities := [(S_ "G", mkent [] [] None)]; ts_enums := []; ts_actions := [(S_ "Action", S_ "view")];
                             ts_agraph := [((S_ "Action", S_ "view"), [])] |}.
Definition tv_a : tenv := {| tv_principal := S_ "G"; tv_action := (S_ "Action", S_ "view"); tv_resource := S_ "G"; tv_context := [] |}.
Definition e_a : expr :=
  EIf (EIn (EIf (ELit (VBool true)) (EVar VAction) (EVar VAction)) (ELit (VEntity (S_ "G") (S_ "g")))) ill_typed (ELit (VBool true)).
Definition st_a : store := [((S_ "Action", S_ "view"), {| e_parents := [(S_ "G", S_ "g")]; e_attrs := []; e_tags := [] |})].
Definition en_a : env := {| e_store := st_a; e_principal := VEntity (S_ "G") (S_ "1"); e_action := VEntity (S_ "Action") (S_ "view");
                            e_resource := VEntity (S_ "G") (S_ "2"); e_context := VRecord [] |}.

Example strict_needs_action_conformance : exists sch tv e t caps en,
  schema_wf sch /\ tenv_wf sch tv /\ agraph_wf sch /\ action_declared sch tv /\ keys_small e = true /\
  typeof true sch tv e [] = TOk t caps /\ env_ok sch tv en /\ store_types_known sch (e_store en) /\
  ~ actions_conform sch (e_store en) /\
  (exists k, eval en e = Err k /\ allowed_error k = false).
Proof.
  exists sch_a, tv_a, e_a, CTrue, [], en_a. split; [|split; [|split; [|split; [|split; [|split; [|split; [|split; [|split]]]]]]]].
  - split; [reflexivity|]. intros n te H. unfold entity_of, sch_a in H. cbn [ts_entities alookup] in H.
    destruct (str_eqb (S_ "G") n); [|discriminate]. inversion H; subst te. split; [intros k t q E; discriminate | intros tt E; discriminate].
  - unfold tenv_wf. apply WT_rec. split; constructor.
  - split; [|split; [|split]].
    + intros u. cbn. tauto.
    + intros a ps [H|[]]. inversion H; subst. split; [reflexivity | intros p []].
    + intros n Hn. unfold entity_of, sch_a. cbn [ts_entities ts_enums alookup smem existsb].
      destruct (str_eqb (S_ "G") n) eqn:E; [|auto]. apply str_eqb_eq in E. subst n. vm_compute in Hn. discriminate.
    + intros n te p H Hp. unfold entity_of, sch_a in H. cbn [ts_entities alookup] in H.
      destruct (str_eqb (S_ "G") n); [|discriminate]. inversion H; subst te. destruct Hp.
  - reflexivity.
  - reflexivity.
  - vm_compute. reflexivity.
  - split; [|split; [constructor; left; reflexivity | split; [reflexivity | split; [constructor; left; reflexivity|]]]].
    + intros u e H. unfold en_a, st_a in H. cbn [e_store lookup] in H.
      match type of H with context [uid_eqb ?x ?y] => destruct (uid_eqb x y) eqn:E end; [|discriminate]. apply uid_eqb_eq in E. subst u. inversion H; subst e.
      unfold entity_ok. cbn [fst]. split; [reflexivity|]. split; [reflexivity|]. intros Hs. vm_compute in Hs. discriminate.
    + constructor; [constructor|]. intros k t E. discriminate.
  - intros u e H. unfold en_a, st_a in H. cbn [e_store lookup] in H.
    match type of H with context [uid_eqb ?x ?y] => destruct (uid_eqb x y) eqn:E end; [|discriminate]. apply uid_eqb_eq in E. subst u.
    right. right. reflexivity.
  - intros Hac. destruct (Hac (S_ "Action", S_ "view") _ eq_refl eq_refl eq_refl eq_refl) as (ps & _ & Hcl).
    specialize (Hcl (S_ "G", S_ "g") (or_introl eq_refl)). destruct (aclosure_first _ _ _ Hcl) as (z & qs & Hq & Hz).
    vm_compute in Hq. inversion Hq; subst qs. destruct Hz.
  - exists EType. split; vm_compute; reflexivity.
Qed.

(* 3. strict mode: action_declared cannot be dropped either (a model-level remark: Go builds request environments from the schema's
   actions).  With an undeclared request action, `action in action` is typed False (no right-hand uid is a declared action). *)
Definition e_d : expr := EIf (EIn (EVar VAction) (EVar VAction)) ill_typed (ELit (VBool true)).
Definition en_d : env := {| e_store := []; e_principal := VEntity (S_ "U") (S_ "1"); e_action := VEntity (S_ "Action") (S_ "view");
                            e_resource := VEntity (S_ "U") (S_ "2"); e_context := VRecord [(S_ "c", VBool true)] |}.
Example strict_needs_action_declared : exists sch tv e t caps en,
  typeof true sch tv e [] = TOk t caps /\ env_ok sch tv en /\ ~ action_declared sch tv /\
  (exists k, eval en e = Err k /\ allowed_error k = false).
Proof.
  exists sch_p, tv_p, e_d, CTrue, [], en_d. split; [vm_compute; reflexivity|]. split; [|split].
  - split; [apply store_ok_nil|]. split; [constructor; left; reflexivity|]. split; [reflexivity|].
    split; [constructor; left; reflexivity|]. apply vtyped_rec1. constructor.
  - unfold action_declared. vm_compute. discriminate.
  - exists EType. split; vm_compute; reflexivity.
Qed.

Print Assumptions typeof_sound_strict.
Print Assumptions typeof_true_caps.
Print Assumptions typeof_strict_WT.
Print Assumptions typeof_sound_strict_in_free.
Print Assumptions permissive_unsound.
Print Assumptions strict_needs_action_conformance.
Print Assumptions strict_needs_action_declared.
