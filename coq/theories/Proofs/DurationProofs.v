(* Proofs about the model of cedar-go's duration codec (Impl/Duration.v):
   - duration_roundtrip      : parse_duration (print_duration z) = Some z for every int64 z
   - duration_parse_in_range : every accepted text denotes an int64
   - duration_parse_value    : exactness of the parser on every text of the grammar
                               -?([0-9]+d)?([0-9]+h)?([0-9]+m)?([0-9]+s)?([0-9]+ms)?
                               (the result is the mathematical value if it fits in int64, and an error otherwise) *)
From Coq Require Import String ZArith List Bool Lia.
Import ListNotations.
From Cedar Require Import Base.Int64 Lang.Value Impl.Text Generated.Tables Impl.Duration.
Local Open Scope Z_scope.

(* ------------------------------------------------------------------ *)
(* Constants                                                           *)
(* ------------------------------------------------------------------ *)

Lemma dur_MillisPerSecond : MillisPerSecond = 1000.
Proof. reflexivity. Qed.
Lemma dur_MillisPerMinute : MillisPerMinute = 60000.
Proof. reflexivity. Qed.
Lemma dur_MillisPerHour : MillisPerHour = 3600000.
Proof. reflexivity. Qed.
Lemma dur_MillisPerDay : MillisPerDay = 86400000.
Proof. reflexivity. Qed.

Lemma dur_unit_millis_0 : unit_millis 0 = 86400000.
Proof. reflexivity. Qed.
Lemma dur_unit_millis_1 : unit_millis 1 = 3600000.
Proof. reflexivity. Qed.
Lemma dur_unit_millis_2 : unit_millis 2 = 60000.
Proof. reflexivity. Qed.
Lemma dur_unit_millis_3 : unit_millis 3 = 1000.
Proof. reflexivity. Qed.
Lemma dur_unit_millis_4 : unit_millis 4 = 1.
Proof. reflexivity. Qed.

Lemma dur_unit_millis_pos u : 0 < unit_millis u.
Proof.
  unfold unit_millis.
  rewrite dur_MillisPerDay, dur_MillisPerHour, dur_MillisPerMinute, dur_MillisPerSecond.
  destruct (u =? 0); [lia|]. destruct (u =? 1); [lia|].
  destruct (u =? 2); [lia|]. destruct (u =? 3); lia.
Qed.

(* ------------------------------------------------------------------ *)
(* Boolean / truncated-division helpers                                *)
(* ------------------------------------------------------------------ *)

Lemma dur_geb_false a b : a < b -> (a >=? b) = false.
Proof. intros H. rewrite Z.geb_leb. apply Z.leb_gt. exact H. Qed.

Lemma dur_ltb_false a b : b <= a -> (a <? b) = false.
Proof. intros H. apply Z.ltb_ge. exact H. Qed.

Lemma dur_le_quot_nonneg a b w : 0 <= a -> 0 < b -> (w <= Z.quot a b <-> w * b <= a).
Proof.
  intros Ha Hb. rewrite Z.quot_div_nonneg by lia.
  pose proof (Z.div_mod a b ltac:(lia)) as E.
  pose proof (Z.mod_pos_bound a b Hb) as M.
  split; intros H; nia.
Qed.

Lemma dur_quot_nonpos_le a b w : a <= 0 -> 0 < b -> (Z.quot a b <= w <-> a <= w * b).
Proof.
  intros Ha Hb.
  assert (Hq : Z.quot a b = - ((- a) / b)).
  { rewrite <- Z.quot_div_nonneg by lia. rewrite Z.quot_opp_l by lia. lia. }
  rewrite Hq.
  pose proof (Z.div_mod (- a) b ltac:(lia)) as E.
  pose proof (Z.mod_pos_bound (- a) b Hb) as M.
  split; intros H; nia.
Qed.

Lemma dur_gtb_quot a b w : 0 <= a -> 0 < b -> (w >? Z.quot a b) = negb (w * b <=? a).
Proof.
  intros Ha Hb. destruct (dur_le_quot_nonneg a b w Ha Hb) as [H1 H2].
  rewrite Z.gtb_ltb.
  destruct (Z.ltb_spec (Z.quot a b) w) as [L|L], (Z.leb_spec (w * b) a) as [M|M];
    cbn [negb]; try reflexivity; exfalso; lia.
Qed.

Lemma dur_ltb_quot a b w : a <= 0 -> 0 < b -> (w <? Z.quot a b) = negb (a <=? w * b).
Proof.
  intros Ha Hb. destruct (dur_quot_nonpos_le a b w Ha Hb) as [H1 H2].
  destruct (Z.ltb_spec w (Z.quot a b)) as [L|L], (Z.leb_spec a (w * b)) as [M|M];
    cbn [negb]; try reflexivity; exfalso; lia.
Qed.

Ltac dur_bool :=
  repeat match goal with
  | |- context [Z.leb ?a ?b] => destruct (Z.leb_spec a b)
  | |- context [Z.ltb ?a ?b] => destruct (Z.ltb_spec a b)
  end;
  cbn [negb andb orb];
  try reflexivity;
  try (exfalso; unfold in64, min64, max64, two63 in *; lia).

(* ------------------------------------------------------------------ *)
(* Digits and numerals (local copies, prefixed dur_)                   *)
(* ------------------------------------------------------------------ *)

Definition dur_digits (ds : str) : Prop := Forall (fun c => is_digit c = true) ds.
Definition dur_good (ds : str) : Prop := ds <> [] /\ dur_digits ds.

(* value of a digit string read most significant digit first, starting from w *)
Definition dur_dacc (ds : str) (w : Z) : Z := fold_left (fun a c => a * 10 + digit_val c) ds w.

Lemma dur_digit_range c : is_digit c = true -> 0 <= digit_val c <= 9.
Proof. unfold is_digit, digit_val. rewrite andb_true_iff, !Z.leb_le. lia. Qed.

Lemma dur_dacc_cons c ds w : dur_dacc (c :: ds) w = dur_dacc ds (w * 10 + digit_val c).
Proof. reflexivity. Qed.

Lemma dur_dacc_mono ds : dur_digits ds -> forall w, 0 <= w -> w <= dur_dacc ds w.
Proof.
  intros Hds. induction Hds as [|c ds Hc Hds IH]; intros w Hw.
  - cbn [dur_dacc fold_left]. lia.
  - rewrite dur_dacc_cons. pose proof (dur_digit_range c Hc) as Hd.
    specialize (IH (w * 10 + digit_val c) ltac:(lia)). lia.
Qed.

Lemma dur_dacc_nonneg ds : dur_digits ds -> 0 <= dur_dacc ds 0.
Proof. intros H. apply (dur_dacc_mono ds H 0). lia. Qed.

(* agreement with the model's own digit-string evaluator *)
Lemma dur_digits_val_acc ds : dur_digits ds -> forall w, digits_val_acc ds w = Some (dur_dacc ds w).
Proof.
  intros Hds. induction Hds as [|c ds Hc Hds IH]; intros w.
  - reflexivity.
  - cbn [digits_val_acc]. rewrite Hc. rewrite IH. reflexivity.
Qed.

Lemma dur_parse_digits ds : dur_good ds -> parse_digits ds = Some (dur_dacc ds 0).
Proof.
  intros [Hne Hds]. destruct ds as [|c ds]; [congruence|].
  unfold parse_digits. apply dur_digits_val_acc. exact Hds.
Qed.

Lemma dur_digits_of_app f : forall z acc, digits_of f z acc = digits_of f z [] ++ acc.
Proof.
  induction f as [|f IH]; intros z acc.
  - reflexivity.
  - cbn [digits_of]. destruct (z <? 10).
    + reflexivity.
    + rewrite (IH (z / 10) ((48 + z mod 10) :: acc)).
      rewrite (IH (z / 10) [48 + z mod 10]).
      rewrite <- app_assoc. reflexivity.
Qed.

Lemma dur_digits_of_digits f : forall z acc, dur_digits acc -> dur_digits (digits_of f z acc).
Proof.
  induction f as [|f IH]; intros z acc Hacc.
  - exact Hacc.
  - assert (Hd : dur_digits ((48 + z mod 10) :: acc)).
    { constructor; [|exact Hacc].
      pose proof (Z.mod_pos_bound z 10 ltac:(lia)) as M.
      unfold is_digit. rewrite andb_true_iff, !Z.leb_le. lia. }
    cbn [digits_of]. destruct (z <? 10).
    + exact Hd.
    + apply IH. exact Hd.
Qed.

Lemma dur_digits_of_nonempty f z acc : digits_of (S f) z acc <> [].
Proof.
  cbn [digits_of]. destruct (z <? 10).
  - discriminate.
  - rewrite dur_digits_of_app. intros H. apply app_eq_nil in H. destruct H as [_ H]. discriminate.
Qed.

Lemma dur_digits_of_val f : forall z acc, 0 <= z < 10 ^ Z.of_nat f ->
  dur_dacc (digits_of f z acc) 0 = dur_dacc acc z.
Proof.
  induction f as [|f IH]; intros z acc Hz.
  - change (10 ^ Z.of_nat 0) with 1 in Hz. assert (z = 0) by lia. subst z. reflexivity.
  - rewrite Nat2Z.inj_succ, Z.pow_succ_r in Hz by lia.
    pose proof (Z.div_mod z 10 ltac:(lia)) as E.
    pose proof (Z.mod_pos_bound z 10 ltac:(lia)) as M.
    cbn [digits_of]. destruct (Z.ltb_spec z 10) as [L|L].
    + rewrite dur_dacc_cons. unfold digit_val. f_equal.
      rewrite Z.mod_small by lia. lia.
    + rewrite IH.
      * rewrite dur_dacc_cons. unfold digit_val. f_equal. lia.
      * split; [apply Z.div_pos; lia|]. apply Z.div_lt_upper_bound; lia.
Qed.

Definition dur_nat_bound : Z := 10000000000000000000000000000000000000000.   (* 10^40 *)

Lemma dur_print_nat_good z : dur_good (print_nat z).
Proof.
  unfold print_nat. split.
  - apply dur_digits_of_nonempty.
  - apply dur_digits_of_digits. constructor.
Qed.

Lemma dur_print_nat_val z : 0 <= z < dur_nat_bound -> dur_dacc (print_nat z) 0 = z.
Proof.
  intros Hz. unfold print_nat. rewrite dur_digits_of_val.
  - reflexivity.
  - change (10 ^ Z.of_nat 40) with dur_nat_bound. exact Hz.
Qed.

(* ------------------------------------------------------------------ *)
(* One-step unfolding of the parser loop                               *)
(* ------------------------------------------------------------------ *)

Definition dur_starts115 (s : str) : bool := match s with 115 :: _ => true | _ => false end.

(* the arithmetic part of the unit step *)
Definition dur_unit_tail (neg : bool) (s' : str) (is_ms : bool) (u total value : Z) : option Z :=
  let millis := unit_millis u in
  if (value >? Z.quot max64 millis) || (value <? Z.quot min64 millis) then None else
  let product := value * millis in
  if (negb neg && (total >? max64 - product)) || (neg && (total <? min64 - product)) then None
  else dur_loop neg s' is_ms (u + 1) (total + product) 0 false.

Lemma dur_loop_cons neg c s' skip unitI total value hasValue :
  dur_loop neg (c :: s') skip unitI total value hasValue =
    if skip then dur_loop neg s' false unitI total value hasValue else
    if unitI >=? 5 then None
    else if is_digit c then
      if neg then
        if value <? Z.quot (min64 + digit_val c) 10 then None
        else dur_loop neg s' false unitI total (value * 10 - digit_val c) true
      else
        if value >? Z.quot (max64 - digit_val c) 10 then None
        else dur_loop neg s' false unitI total (value * 10 + digit_val c) true
    else if (c =? 100) || (c =? 104) || (c =? 109) || (c =? 115) then
      if negb hasValue then None else
      let is_ms := (c =? 109) && dur_starts115 s' in
      let u := if is_ms then 4 else if c =? 100 then 0 else if c =? 104 then 1 else if c =? 109 then 2 else 3 in
      if u <? unitI then None else dur_unit_tail neg s' is_ms u total value
    else None.
Proof.
  destruct skip; [reflexivity|].
  cbn [dur_loop].
  destruct (unitI >=? 5); [destruct hasValue; reflexivity|].
  reflexivity.
Qed.

Lemma dur_loop_nil neg skip unitI total value hasValue :
  dur_loop neg [] skip unitI total value hasValue = if hasValue then None else Some total.
Proof. reflexivity. Qed.

Lemma dur_starts115_neq c r : c <> 115 -> dur_starts115 (c :: r) = false.
Proof.
  intros Hc. unfold dur_starts115.
  destruct c as [|p|p]; try reflexivity.
  do 7 (try (destruct p as [p|p|]; try reflexivity)).
  congruence.
Qed.

Lemma dur_starts115_digit c r : is_digit c = true -> dur_starts115 (c :: r) = false.
Proof.
  intros Hc. apply dur_starts115_neq.
  unfold is_digit in Hc. rewrite andb_true_iff, !Z.leb_le in Hc. lia.
Qed.

(* ------------------------------------------------------------------ *)
(* The digit phase                                                     *)
(* ------------------------------------------------------------------ *)

Definition dur_sgn (neg : bool) : Z := if neg then -1 else 1.

Lemma dur_loop_digit neg c s' ui total w hv :
  is_digit c = true -> ui < 5 -> 0 <= w ->
  dur_loop neg (c :: s') false ui total (dur_sgn neg * w) hv =
  if in64b (dur_sgn neg * (w * 10 + digit_val c))
  then dur_loop neg s' false ui total (dur_sgn neg * (w * 10 + digit_val c)) true else None.
Proof.
  intros Hc Hui Hw. pose proof (dur_digit_range c Hc) as Hd.
  rewrite dur_loop_cons. rewrite (dur_geb_false ui 5 Hui), Hc.
  destruct neg; unfold dur_sgn; cbv beta iota.
  - rewrite dur_ltb_quot by (unfold min64, two63; lia).
    replace (-1 * w * 10 - digit_val c) with (-1 * (w * 10 + digit_val c)) by lia.
    unfold in64b. dur_bool.
  - rewrite dur_gtb_quot by (unfold max64, two63; lia).
    replace (1 * w * 10 + digit_val c) with (1 * (w * 10 + digit_val c)) by lia.
    unfold in64b. dur_bool.
Qed.

(* consuming further digits when a value is already being accumulated *)
Lemma dur_digits_phase neg rest ui total :
  ui < 5 -> forall ds, dur_digits ds -> forall w, 0 <= w -> in64 (dur_sgn neg * w) ->
  dur_loop neg (ds ++ rest) false ui total (dur_sgn neg * w) true =
  if in64b (dur_sgn neg * dur_dacc ds w)
  then dur_loop neg rest false ui total (dur_sgn neg * dur_dacc ds w) true else None.
Proof.
  intros Hui ds Hds. induction Hds as [|c ds Hc Hds IH]; intros w Hw Hin.
  - cbn [app dur_dacc fold_left]. apply in64b_spec in Hin. rewrite Hin. reflexivity.
  - pose proof (dur_digit_range c Hc) as Hd.
    change ((c :: ds) ++ rest) with (c :: (ds ++ rest)).
    rewrite dur_loop_digit by assumption. rewrite dur_dacc_cons.
    destruct (in64b (dur_sgn neg * (w * 10 + digit_val c))) eqn:E.
    + apply in64b_spec in E. apply IH; [lia|exact E].
    + apply in64b_false in E.
      pose proof (dur_dacc_mono ds Hds (w * 10 + digit_val c) ltac:(lia)) as Hm.
      assert (F : in64b (dur_sgn neg * dur_dacc ds (w * 10 + digit_val c)) = false).
      { apply in64b_false. intros G. apply E.
        unfold in64, min64, max64, two63 in *. destruct neg; unfold dur_sgn in *; lia. }
      rewrite F. reflexivity.
Qed.

(* consuming a whole non-empty numeral from a fresh state *)
Lemma dur_numeral_phase neg rest ui total ds hv :
  ui < 5 -> dur_good ds ->
  dur_loop neg (ds ++ rest) false ui total 0 hv =
  if in64b (dur_sgn neg * dur_dacc ds 0)
  then dur_loop neg rest false ui total (dur_sgn neg * dur_dacc ds 0) true else None.
Proof.
  intros Hui [Hne Hds]. destruct ds as [|c ds]; [congruence|].
  inversion Hds as [|c' ds' Hc Hds' Heq]; subst.
  pose proof (dur_digit_range c Hc) as Hd.
  change ((c :: ds) ++ rest) with (c :: (ds ++ rest)).
  replace 0 with (dur_sgn neg * 0) at 1 by lia.
  rewrite dur_loop_digit by (assumption || lia).
  rewrite dur_dacc_cons.
  destruct (in64b (dur_sgn neg * (0 * 10 + digit_val c))) eqn:E.
  - apply in64b_spec in E. apply dur_digits_phase; [assumption|assumption|lia|exact E].
  - apply in64b_false in E. exfalso. apply E.
    unfold in64, min64, max64, two63. destruct neg; unfold dur_sgn; lia.
Qed.

(* ------------------------------------------------------------------ *)
(* The unit phase                                                      *)
(* ------------------------------------------------------------------ *)

Lemma dur_unit_tail_spec neg s' is_ms u total w :
  0 <= w -> in64 total -> 0 <= dur_sgn neg * total ->
  dur_unit_tail neg s' is_ms u total (dur_sgn neg * w) =
  if in64b (total + dur_sgn neg * w * unit_millis u)
  then dur_loop neg s' is_ms (u + 1) (total + dur_sgn neg * w * unit_millis u) 0 false else None.
Proof.
  intros Hw Ht Hs. unfold dur_unit_tail. cbv zeta.
  pose proof (dur_unit_millis_pos u) as Hm. set (m := unit_millis u) in *.
  rewrite dur_gtb_quot by (unfold max64, two63; lia).
  rewrite dur_ltb_quot by (unfold min64, two63; lia).
  assert (Hp : 0 <= dur_sgn neg * (dur_sgn neg * w * m)) by (destruct neg; unfold dur_sgn; nia).
  set (p := dur_sgn neg * w * m) in *. clearbody p.
  unfold in64b. rewrite !Z.gtb_ltb.
  destruct neg; unfold dur_sgn in *; cbn [negb andb orb]; dur_bool.
Qed.

Definition dur_unit_char (u : Z) : Z :=
  if u =? 0 then 100 else if u =? 1 then 104 else if u =? 2 then 109 else if u =? 3 then 115 else 109.
Definition dur_suffix (u : Z) : str := dur_unit_char u :: (if u =? 4 then [115] else []).

Lemma dur_unit_phase neg u ui total w rest :
  0 <= u < 5 -> ui <= u -> dur_starts115 rest = false ->
  0 <= w -> in64 total -> 0 <= dur_sgn neg * total ->
  dur_loop neg (dur_suffix u ++ rest) false ui total (dur_sgn neg * w) true =
  if in64b (total + dur_sgn neg * w * unit_millis u)
  then dur_loop neg rest false (u + 1) (total + dur_sgn neg * w * unit_millis u) 0 false else None.
Proof.
  intros Hu Hui H115 Hw Ht Hs.
  assert (Hcases : u = 0 \/ u = 1 \/ u = 2 \/ u = 3 \/ u = 4) by lia.
  destruct Hcases as [-> | [-> | [-> | [-> | ->]]]].
  - change (dur_suffix 0 ++ rest) with (100 :: rest).
    rewrite dur_loop_cons. rewrite (dur_geb_false ui 5) by lia.
    change (is_digit 100) with false.
    cbn [Z.eqb Pos.eqb orb andb negb].
    rewrite (dur_ltb_false 0 ui) by lia.
    apply dur_unit_tail_spec; assumption.
  - change (dur_suffix 1 ++ rest) with (104 :: rest).
    rewrite dur_loop_cons. rewrite (dur_geb_false ui 5) by lia.
    change (is_digit 104) with false.
    cbn [Z.eqb Pos.eqb orb andb negb].
    rewrite (dur_ltb_false 1 ui) by lia.
    apply dur_unit_tail_spec; assumption.
  - change (dur_suffix 2 ++ rest) with (109 :: rest).
    rewrite dur_loop_cons. rewrite (dur_geb_false ui 5) by lia.
    change (is_digit 109) with false. rewrite H115.
    cbn [Z.eqb Pos.eqb orb andb negb].
    rewrite (dur_ltb_false 2 ui) by lia.
    apply dur_unit_tail_spec; assumption.
  - change (dur_suffix 3 ++ rest) with (115 :: rest).
    rewrite dur_loop_cons. rewrite (dur_geb_false ui 5) by lia.
    change (is_digit 115) with false.
    cbn [Z.eqb Pos.eqb orb andb negb].
    rewrite (dur_ltb_false 3 ui) by lia.
    apply dur_unit_tail_spec; assumption.
  - change (dur_suffix 4 ++ rest) with (109 :: 115 :: rest).
    rewrite dur_loop_cons. rewrite (dur_geb_false ui 5) by lia.
    change (is_digit 109) with false.
    change (dur_starts115 (115 :: rest)) with true.
    cbn [Z.eqb Pos.eqb orb andb negb].
    rewrite (dur_ltb_false 4 ui) by lia.
    rewrite dur_unit_tail_spec by assumption.
    rewrite dur_loop_cons. reflexivity.
Qed.

(* numeral followed by its unit *)
Lemma dur_item_step neg u ui total ds rest :
  0 <= u < 5 -> ui <= u -> dur_good ds -> dur_starts115 rest = false ->
  in64 total -> 0 <= dur_sgn neg * total ->
  dur_loop neg (ds ++ dur_suffix u ++ rest) false ui total 0 false =
  if in64b (total + dur_sgn neg * dur_dacc ds 0 * unit_millis u)
  then dur_loop neg rest false (u + 1) (total + dur_sgn neg * dur_dacc ds 0 * unit_millis u) 0 false
  else None.
Proof.
  intros Hu Hui Hgood H115 Ht Hs.
  rewrite dur_numeral_phase by (assumption || lia).
  pose proof (dur_dacc_nonneg ds (proj2 Hgood)) as Hq.
  destruct (in64b (dur_sgn neg * dur_dacc ds 0)) eqn:E.
  - apply dur_unit_phase; assumption.
  - apply in64b_false in E.
    pose proof (dur_unit_millis_pos u) as Hm.
    assert (Hqm : dur_dacc ds 0 <= dur_dacc ds 0 * unit_millis u) by nia.
    set (q := dur_dacc ds 0) in *. set (p := q * unit_millis u) in *.
    assert (F : in64b (total + dur_sgn neg * q * unit_millis u) = false).
    { apply in64b_false. intros G. apply E.
      replace (dur_sgn neg * q * unit_millis u) with (dur_sgn neg * p) in G by (unfold p; ring).
      unfold in64, min64, max64, two63 in *. destruct neg; unfold dur_sgn in *; lia. }
    rewrite F. reflexivity.
Qed.

(* ------------------------------------------------------------------ *)
(* Texts of the grammar, as lists of (unit index, digit string)        *)
(* ------------------------------------------------------------------ *)

Fixpoint dur_render (l : list (Z * str)) : str :=
  match l with
  | [] => []
  | (u, ds) :: l' => ds ++ dur_suffix u ++ dur_render l'
  end.

Fixpoint dur_sum (l : list (Z * str)) : Z :=
  match l with
  | [] => 0
  | (u, ds) :: l' => dur_dacc ds 0 * unit_millis u + dur_sum l'
  end.

(* units strictly increasing, starting at ui, all below 5; numerals well formed *)
Fixpoint dur_chain (ui : Z) (l : list (Z * str)) : Prop :=
  match l with
  | [] => True
  | (u, ds) :: l' => (0 <= u /\ ui <= u < 5) /\ dur_good ds /\ dur_chain (u + 1) l'
  end.

Lemma dur_chain_weaken l : forall ui ui', ui' <= ui -> dur_chain ui l -> dur_chain ui' l.
Proof.
  destruct l as [|[u ds] l']; intros ui ui' Hle H.
  - exact I.
  - cbn [dur_chain] in *. destruct H as [H1 [H2 H3]].
    split; [lia|]. split; assumption.
Qed.

Lemma dur_sum_nonneg l : forall ui, dur_chain ui l -> 0 <= dur_sum l.
Proof.
  induction l as [|[u ds] l' IH]; intros ui H.
  - cbn [dur_sum]. lia.
  - cbn [dur_chain dur_sum] in *. destruct H as [H1 [[_ H2] H3]].
    pose proof (dur_dacc_nonneg ds H2) as Hq. pose proof (dur_unit_millis_pos u) as Hm.
    specialize (IH _ H3). nia.
Qed.

Lemma dur_render_shape l ui : dur_chain ui l -> l <> [] ->
  exists c x tl, dur_render l = c :: x :: tl /\ is_digit c = true.
Proof.
  destruct l as [|[u ds] l']; intros H Hne; [congruence|].
  cbn [dur_chain] in H. destruct H as [_ [[Hds1 Hds2] _]].
  destruct ds as [|c ds]; [congruence|].
  inversion Hds2 as [|c' ds' Hc Hds' Heq]; subst.
  cbn [dur_render]. unfold dur_suffix.
  destruct ds as [|x ds].
  - exists c, (dur_unit_char u). eexists. split; [reflexivity|exact Hc].
  - exists c, x. eexists. split; [reflexivity|exact Hc].
Qed.

Lemma dur_render_no115 l ui : dur_chain ui l -> dur_starts115 (dur_render l) = false.
Proof.
  intros H. destruct l as [|p l'] eqn:El; [reflexivity|].
  destruct (dur_render_shape (p :: l') ui H ltac:(discriminate)) as [c [x [tl [E Hc]]]].
  rewrite E. apply dur_starts115_digit. exact Hc.
Qed.

(* exactness of the loop on every such text *)
Theorem dur_loop_render neg : forall l ui total,
  dur_chain ui l -> in64 total -> 0 <= dur_sgn neg * total ->
  dur_loop neg (dur_render l) false ui total 0 false =
  if in64b (total + dur_sgn neg * dur_sum l) then Some (total + dur_sgn neg * dur_sum l) else None.
Proof.
  induction l as [|[u ds] l' IH]; intros ui total Hch Ht Hs.
  - cbn [dur_render dur_sum]. rewrite dur_loop_nil.
    replace (total + dur_sgn neg * 0) with total by lia.
    apply in64b_spec in Ht. rewrite Ht. reflexivity.
  - cbn [dur_chain] in Hch. destruct Hch as [[Hu0 Hu] [Hgood Hch]].
    cbn [dur_render dur_sum].
    rewrite dur_item_step; try assumption; try lia;
      [|apply (dur_render_no115 l' (u + 1)); exact Hch].
    pose proof (dur_dacc_nonneg ds (proj2 Hgood)) as Hq.
    pose proof (dur_unit_millis_pos u) as Hm.
    pose proof (dur_sum_nonneg l' _ Hch) as Hsum.
    set (q := dur_dacc ds 0) in *. set (m := unit_millis u) in *.
    assert (Hp : 0 <= q * m) by nia.
    replace (dur_sgn neg * q * m) with (dur_sgn neg * (q * m)) by ring.
    replace (dur_sgn neg * (q * m + dur_sum l')) with (dur_sgn neg * (q * m) + dur_sgn neg * dur_sum l') by ring.
    set (p := q * m) in *. clearbody p. set (r := dur_sum l') in *.
    destruct (in64b (total + dur_sgn neg * p)) eqn:E.
    + apply in64b_spec in E. rewrite IH.
      * replace (total + dur_sgn neg * p + dur_sgn neg * r) with (total + (dur_sgn neg * p + dur_sgn neg * r)) by ring.
        reflexivity.
      * exact Hch.
      * exact E.
      * destruct neg; unfold dur_sgn in *; lia.
    + apply in64b_false in E.
      assert (F : in64b (total + (dur_sgn neg * p + dur_sgn neg * r)) = false).
      { apply in64b_false. intros G. apply E.
        unfold in64, min64, max64, two63 in *. destruct neg; unfold dur_sgn in *; lia. }
      rewrite F. reflexivity.
Qed.

(* ------------------------------------------------------------------ *)
(* parse_duration on the two shapes of input                           *)
(* ------------------------------------------------------------------ *)

Lemma dur_parse_neg x tl :
  parse_duration (45 :: x :: tl) = dur_loop true (x :: tl) false 0 0 0 false.
Proof. reflexivity. Qed.

Lemma dur_parse_pos c x tl : c <> 45 ->
  parse_duration (c :: x :: tl) = dur_loop false (c :: x :: tl) false 0 0 0 false.
Proof.
  intros Hc. unfold parse_duration.
  destruct c as [|p|p]; try reflexivity.
  do 6 (try (destruct p as [p|p|]; try reflexivity)).
  congruence.
Qed.

Lemma dur_parse_cases c x tl :
  parse_duration (c :: x :: tl) =
  if c =? 45 then dur_loop true (x :: tl) false 0 0 0 false
  else dur_loop false (c :: x :: tl) false 0 0 0 false.
Proof.
  destruct (Z.eqb_spec c 45) as [->|Hne].
  - apply dur_parse_neg.
  - apply dur_parse_pos. exact Hne.
Qed.

Definition dur_sign (neg : bool) : str := if neg then [45] else [].

(* exactness of parse_duration on list-described texts *)
Theorem dur_parse_render neg l :
  dur_chain 0 l -> l <> [] ->
  parse_duration (dur_sign neg ++ dur_render l) =
  if in64b (dur_sgn neg * dur_sum l) then Some (dur_sgn neg * dur_sum l) else None.
Proof.
  intros Hch Hne.
  destruct (dur_render_shape l 0 Hch Hne) as [c [x [tl [E Hc]]]].
  assert (Hloop := dur_loop_render neg l 0 0 Hch ltac:(unfold in64, min64, max64, two63; lia) ltac:(lia)).
  replace (0 + dur_sgn neg * dur_sum l) with (dur_sgn neg * dur_sum l) in Hloop by lia.
  rewrite <- Hloop. rewrite E.
  destruct neg; unfold dur_sign.
  - change ([45] ++ c :: x :: tl) with (45 :: c :: x :: tl). apply dur_parse_neg.
  - change ([] ++ c :: x :: tl) with (c :: x :: tl). apply dur_parse_pos.
    unfold is_digit in Hc. rewrite andb_true_iff, !Z.leb_le in Hc. lia.
Qed.

(* ------------------------------------------------------------------ *)
(* The five optional quantities                                        *)
(* ------------------------------------------------------------------ *)

Definition dur_part (o : option str) (suffix : str) : str :=
  match o with Some ds => ds ++ suffix | None => [] end.

(* -?([0-9]+d)?([0-9]+h)?([0-9]+m)?([0-9]+s)?([0-9]+ms)? ; Some ds = the unit is present with numeral ds *)
Definition dur_text (neg : bool) (d h m s ms : option str) : str :=
  dur_sign neg ++
  dur_part d [100] ++ dur_part h [104] ++ dur_part m [109] ++ dur_part s [115] ++ dur_part ms [109; 115].

Definition dur_qty (o : option str) : Z := match o with Some ds => dur_dacc ds 0 | None => 0 end.
Definition dur_ok (o : option str) : Prop := match o with Some ds => dur_good ds | None => True end.

Definition dur_opt (u : Z) (o : option str) : list (Z * str) :=
  match o with Some ds => [(u, ds)] | None => [] end.
Definition dur_items (d h m s ms : option str) : list (Z * str) :=
  dur_opt 0 d ++ dur_opt 1 h ++ dur_opt 2 m ++ dur_opt 3 s ++ dur_opt 4 ms.

Definition dur_total (neg : bool) (d h m s ms : option str) : Z :=
  dur_sgn neg * (dur_qty d * 86400000 + dur_qty h * 3600000 + dur_qty m * 60000 + dur_qty s * 1000 + dur_qty ms).

Lemma dur_text_render neg d h m s ms :
  dur_text neg d h m s ms = dur_sign neg ++ dur_render (dur_items d h m s ms).
Proof.
  unfold dur_text, dur_items. f_equal.
  destruct d as [d|], h as [h|], m as [m|], s as [s|], ms as [ms|];
    cbn [dur_part dur_opt dur_render app]; rewrite <- ?app_assoc; reflexivity.
Qed.

Lemma dur_items_chain d h m s ms :
  dur_ok d -> dur_ok h -> dur_ok m -> dur_ok s -> dur_ok ms -> dur_chain 0 (dur_items d h m s ms).
Proof.
  unfold dur_items.
  destruct d as [d|], h as [h|], m as [m|], s as [s|], ms as [ms|];
    cbn [dur_ok dur_opt dur_chain app]; intros Hd Hh Hm Hs Hms;
    repeat match goal with |- _ /\ _ => split end; try assumption; try lia; try exact I.
Qed.

Lemma dur_items_sum d h m s ms :
  dur_sum (dur_items d h m s ms) =
  dur_qty d * 86400000 + dur_qty h * 3600000 + dur_qty m * 60000 + dur_qty s * 1000 + dur_qty ms.
Proof.
  unfold dur_items.
  destruct d as [d|], h as [h|], m as [m|], s as [s|], ms as [ms|];
    cbn [dur_qty dur_opt dur_sum app];
    rewrite ?dur_unit_millis_0, ?dur_unit_millis_1, ?dur_unit_millis_2, ?dur_unit_millis_3, ?dur_unit_millis_4;
    lia.
Qed.

(* Exactness of ParseDuration: on a text of the grammar with at least one unit present, the result is the
   mathematical value sign * (d*86400000 + h*3600000 + m*60000 + s*1000 + ms) when that value is an int64,
   and an error otherwise.  Numerals are arbitrary non-empty digit strings (leading zeros allowed). *)
Theorem duration_parse_value : forall neg d h m s ms,
  dur_ok d -> dur_ok h -> dur_ok m -> dur_ok s -> dur_ok ms ->
  dur_items d h m s ms <> [] ->
  parse_duration (dur_text neg d h m s ms) =
  if in64b (dur_total neg d h m s ms) then Some (dur_total neg d h m s ms) else None.
Proof.
  intros neg d h m s ms Hd Hh Hm Hs Hms Hne.
  rewrite dur_text_render. unfold dur_total. rewrite <- dur_items_sum.
  apply dur_parse_render.
  - apply dur_items_chain; assumption.
  - exact Hne.
Qed.

(* the same with the numerals printed canonically from their quantities *)
Definition dur_zqty (o : option Z) : Z := match o with Some q => q | None => 0 end.
Definition dur_zok (o : option Z) : Prop := match o with Some q => 0 <= q < dur_nat_bound | None => True end.

Theorem duration_parse_value_nat : forall neg (d h m s ms : option Z),
  dur_zok d -> dur_zok h -> dur_zok m -> dur_zok s -> dur_zok ms ->
  (d <> None \/ h <> None \/ m <> None \/ s <> None \/ ms <> None) ->
  let total := dur_sgn neg * (dur_zqty d * 86400000 + dur_zqty h * 3600000 + dur_zqty m * 60000
                              + dur_zqty s * 1000 + dur_zqty ms) in
  parse_duration (dur_text neg (option_map print_nat d) (option_map print_nat h) (option_map print_nat m)
                               (option_map print_nat s) (option_map print_nat ms)) =
  if in64b total then Some total else None.
Proof.
  intros neg d h m s ms Hd Hh Hm Hs Hms Hne total.
  assert (Hok : forall o, dur_zok o -> dur_ok (option_map print_nat o)).
  { intros [q|] H; cbn [option_map dur_ok]; [apply dur_print_nat_good|exact I]. }
  assert (Hq : forall o, dur_zok o -> dur_qty (option_map print_nat o) = dur_zqty o).
  { intros [q|] H; cbn [option_map dur_qty dur_zqty]; [apply dur_print_nat_val; exact H|reflexivity]. }
  rewrite duration_parse_value; try (apply Hok; assumption).
  - unfold dur_total. rewrite !Hq by assumption. reflexivity.
  - unfold dur_items.
    destruct d as [d|]; [discriminate|]. destruct h as [h|]; [discriminate|].
    destruct m as [m|]; [discriminate|]. destruct s as [s|]; [discriminate|].
    destruct ms as [ms|]; [discriminate|].
    exfalso. destruct Hne as [H|[H|[H|[H|H]]]]; congruence.
Qed.

(* ------------------------------------------------------------------ *)
(* Round trip                                                          *)
(* ------------------------------------------------------------------ *)

Definition dur_qopt (q : Z) : option str := if q >? 0 then Some (print_nat q) else None.

Lemma dur_part_qopt q suffix :
  dur_part (dur_qopt q) suffix = if q >? 0 then print_nat q ++ suffix else [].
Proof. unfold dur_qopt. destruct (q >? 0); reflexivity. Qed.

Lemma dur_qopt_ok q : dur_ok (dur_qopt q).
Proof. unfold dur_qopt. destruct (q >? 0); cbn [dur_ok]; [apply dur_print_nat_good|exact I]. Qed.

Lemma dur_qopt_qty q : 0 <= q < dur_nat_bound -> dur_qty (dur_qopt q) = q.
Proof.
  intros Hq. unfold dur_qopt. rewrite Z.gtb_ltb. destruct (Z.ltb_spec 0 q) as [L|L]; cbn [dur_qty].
  - apply dur_print_nat_val. exact Hq.
  - lia.
Qed.

Lemma dur_qopt_none q : 0 <= q -> dur_qopt q = None -> q = 0.
Proof.
  intros Hq. unfold dur_qopt. rewrite Z.gtb_ltb. destruct (Z.ltb_spec 0 q) as [L|L]; [discriminate|].
  intros _. lia.
Qed.

Theorem duration_roundtrip : forall z, in64 z -> parse_duration (print_duration z) = Some z.
Proof.
  intros z Hz.
  destruct (Z.eqb_spec z 0) as [->|Hnz]; [reflexivity|].
  set (a := Z.abs z).
  set (days := a / 86400000). set (r1 := a mod 86400000).
  set (hours := r1 / 3600000). set (r2 := r1 mod 3600000).
  set (minutes := r2 / 60000). set (r3 := r2 mod 60000).
  set (seconds := r3 / 1000). set (r4 := r3 mod 1000).
  assert (Hprint : print_duration z =
    dur_text (z <? 0) (dur_qopt days) (dur_qopt hours) (dur_qopt minutes) (dur_qopt seconds) (dur_qopt r4)).
  { unfold print_duration, dur_text, dur_sign.
    rewrite dur_MillisPerDay, dur_MillisPerHour, dur_MillisPerMinute, dur_MillisPerSecond.
    rewrite !dur_part_qopt.
    destruct (Z.eqb_spec z 0) as [H0|_]; [contradiction|]. reflexivity. }
  pose proof (Z.div_mod a 86400000 ltac:(lia)) as E1.
  pose proof (Z.mod_pos_bound a 86400000 ltac:(lia)) as M1.
  pose proof (Z.div_mod r1 3600000 ltac:(lia)) as E2.
  pose proof (Z.mod_pos_bound r1 3600000 ltac:(lia)) as M2.
  pose proof (Z.div_mod r2 60000 ltac:(lia)) as E3.
  pose proof (Z.mod_pos_bound r2 60000 ltac:(lia)) as M3.
  pose proof (Z.div_mod r3 1000 ltac:(lia)) as E4.
  pose proof (Z.mod_pos_bound r3 1000 ltac:(lia)) as M4.
  fold days r1 in E1, M1. fold hours r2 in E2, M2. fold minutes r3 in E3, M3. fold seconds r4 in E4, M4.
  assert (Ha : 0 < a <= 9223372036854775808).
  { unfold a. unfold in64, min64, max64, two63 in Hz. lia. }
  assert (Bd : 0 <= days < dur_nat_bound) by (unfold dur_nat_bound; lia).
  assert (Bh : 0 <= hours < dur_nat_bound) by (unfold dur_nat_bound; lia).
  assert (Bm : 0 <= minutes < dur_nat_bound) by (unfold dur_nat_bound; lia).
  assert (Bs : 0 <= seconds < dur_nat_bound) by (unfold dur_nat_bound; lia).
  assert (Br : 0 <= r4 < dur_nat_bound) by (unfold dur_nat_bound; lia).
  rewrite Hprint.
  rewrite duration_parse_value; try apply dur_qopt_ok.
  - unfold dur_total. rewrite !dur_qopt_qty by assumption.
    assert (Hval : dur_sgn (z <? 0) * (days * 86400000 + hours * 3600000 + minutes * 60000 + seconds * 1000 + r4) = z).
    { unfold dur_sgn. destruct (Z.ltb_spec z 0) as [L|L]; unfold a in *; lia. }
    rewrite Hval. apply in64b_spec in Hz. rewrite Hz. reflexivity.
  - unfold dur_items. intros Hnil.
    destruct (dur_qopt days) eqn:Qd; [discriminate|].
    destruct (dur_qopt hours) eqn:Qh; [discriminate|].
    destruct (dur_qopt minutes) eqn:Qm; [discriminate|].
    destruct (dur_qopt seconds) eqn:Qs; [discriminate|].
    destruct (dur_qopt r4) eqn:Qr; [discriminate|].
    apply dur_qopt_none in Qd, Qh, Qm, Qs, Qr; lia.
Qed.

(* ------------------------------------------------------------------ *)
(* Range of accepted values                                            *)
(* ------------------------------------------------------------------ *)

Lemma dur_loop_range : forall s neg skip u total v hv z,
  in64 total -> 0 <= dur_sgn neg * total -> 0 <= dur_sgn neg * v ->
  dur_loop neg s skip u total v hv = Some z -> in64 z.
Proof.
  induction s as [|c s IH]; intros neg skip u total v hv z Ht Hs Hv H.
  - rewrite dur_loop_nil in H. destruct hv; [discriminate|]. injection H as <-. exact Ht.
  - rewrite dur_loop_cons in H.
    destruct skip; [eapply IH; eassumption|].
    destruct (u >=? 5); [discriminate|].
    destruct (is_digit c) eqn:Hc.
    + pose proof (dur_digit_range c Hc) as Hd.
      destruct neg.
      * destruct (v <? Z.quot (min64 + digit_val c) 10); [discriminate|].
        eapply IH; [exact Ht|exact Hs| |exact H]. unfold dur_sgn in *. lia.
      * destruct (v >? Z.quot (max64 - digit_val c) 10); [discriminate|].
        eapply IH; [exact Ht|exact Hs| |exact H]. unfold dur_sgn in *. lia.
    + destruct ((c =? 100) || (c =? 104) || (c =? 109) || (c =? 115)); [|discriminate].
      destruct (negb hv); [discriminate|].
      cbv zeta in H.
      set (is_ms := (c =? 109) && dur_starts115 s) in H.
      set (u' := if is_ms then 4 else if c =? 100 then 0 else if c =? 104 then 1 else if c =? 109 then 2 else 3) in H.
      destruct (u' <? u); [discriminate|].
      unfold dur_unit_tail in H. cbv zeta in H.
      pose proof (dur_unit_millis_pos u') as Hm. set (m := unit_millis u') in *.
      destruct ((v >? Z.quot max64 m) || (v <? Z.quot min64 m)); [discriminate|].
      assert (Hp : 0 <= dur_sgn neg * (v * m)) by (destruct neg; unfold dur_sgn in *; nia).
      set (p := v * m) in *. clearbody p.
      destruct ((negb neg && (total >? max64 - p)) || (neg && (total <? min64 - p))) eqn:E; [discriminate|].
      eapply IH; [ | | |exact H].
      * rewrite Z.gtb_ltb in E. unfold in64 in *.
        destruct neg; unfold dur_sgn in *; cbn [negb andb orb] in E.
        -- destruct (Z.ltb_spec total (min64 - p)); [discriminate|]. unfold min64, max64, two63 in *. lia.
        -- rewrite orb_false_r in E.
           destruct (Z.ltb_spec (max64 - p) total); [discriminate|]. unfold min64, max64, two63 in *. lia.
      * destruct neg; unfold dur_sgn in *; lia.
      * lia.
Qed.

Theorem duration_parse_in_range : forall s z, parse_duration s = Some z -> in64 z.
Proof.
  intros s z H.
  destruct s as [|c [|x tl]].
  - change (parse_duration []) with (@None Z) in H. discriminate H.
  - assert (E : parse_duration [c] = None).
    { unfold parse_duration. destruct c as [|p|p]; try reflexivity.
      do 6 (try (destruct p as [p|p|]; try reflexivity)). }
    rewrite E in H. discriminate H.
  - rewrite dur_parse_cases in H.
    assert (H0 : in64 0) by (unfold in64, min64, max64, two63; lia).
    destruct (c =? 45).
    + eapply (dur_loop_range _ true); [exact H0| | |exact H]; unfold dur_sgn; lia.
    + eapply (dur_loop_range _ false); [exact H0| | |exact H]; unfold dur_sgn; lia.
Qed.

(* a consequence: texts whose mathematical value does not fit are rejected, and accepted ones are exact *)
Corollary duration_parse_value_some : forall neg d h m s ms z,
  dur_ok d -> dur_ok h -> dur_ok m -> dur_ok s -> dur_ok ms ->
  parse_duration (dur_text neg d h m s ms) = Some z -> z = dur_total neg d h m s ms.
Proof.
  intros neg d h m s ms z Hd Hh Hm Hs Hms H.
  destruct (dur_items d h m s ms) as [|p l] eqn:E.
  - exfalso. unfold dur_items in E.
    destruct d; [discriminate|]. destruct h; [discriminate|]. destruct m; [discriminate|].
    destruct s; [discriminate|]. destruct ms; [discriminate|].
    destruct neg; discriminate.
  - rewrite duration_parse_value in H; try assumption; [|rewrite E; discriminate].
    destruct (in64b (dur_total neg d h m s ms)); [|discriminate]. injection H as <-. reflexivity.
Qed.

(* ------------------------------------------------------------------ *)
(* Examples                                                            *)
(* ------------------------------------------------------------------ *)

Example dur_ex_print_min64 : print_duration min64 = s_of "-106751991167d7h12m55s808ms".
Proof. vm_compute. reflexivity. Qed.
Example dur_ex_print_max64 : print_duration max64 = s_of "106751991167d7h12m55s807ms".
Proof. vm_compute. reflexivity. Qed.
Example dur_ex_roundtrip_min64 : parse_duration (print_duration min64) = Some min64.
Proof. vm_compute. reflexivity. Qed.
Example dur_ex_roundtrip_max64 : parse_duration (print_duration max64) = Some max64.
Proof. vm_compute. reflexivity. Qed.
Example dur_ex_zero : print_duration 0 = s_of "0ms".
Proof. vm_compute. reflexivity. Qed.
Example dur_ex_order : parse_duration (s_of "1h1d") = None.
Proof. vm_compute. reflexivity. Qed.
Example dur_ex_twice : parse_duration (s_of "1d1d") = None.
Proof. vm_compute. reflexivity. Qed.
Example dur_ex_overflow : parse_duration (s_of "9223372036854775808ms") = None.
Proof. vm_compute. reflexivity. Qed.
Example dur_ex_neg_min : parse_duration (s_of "-9223372036854775808ms") = Some min64.
Proof. vm_compute. reflexivity. Qed.
Example dur_ex_neg_overflow : parse_duration (s_of "-9223372036854775809ms") = None.
Proof. vm_compute. reflexivity. Qed.
Example dur_ex_all : parse_duration (s_of "1d2h3m4s5ms") = Some 93784005.
Proof. vm_compute. reflexivity. Qed.
Example dur_ex_m_then_s : parse_duration (s_of "1m1s") = Some 61000.
Proof. vm_compute. reflexivity. Qed.
Example dur_ex_ms_then_s : parse_duration (s_of "1ms1s") = None.
Proof. vm_compute. reflexivity. Qed.
Example dur_ex_leading_zeros : parse_duration (s_of "007s") = Some 7000.
Proof. vm_compute. reflexivity. Qed.
Example dur_ex_bare_sign : parse_duration (s_of "-") = None.
Proof. vm_compute. reflexivity. Qed.
Example dur_ex_no_unit : parse_duration (s_of "12") = None.
Proof. vm_compute. reflexivity. Qed.

Print Assumptions duration_roundtrip.
Print Assumptions duration_parse_in_range.
Print Assumptions duration_parse_value.
Print Assumptions duration_parse_value_nat.
