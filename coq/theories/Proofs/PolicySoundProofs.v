(* Policy-level soundness of Validator.Policy (Impl/ValidatePolicy.v) in strict mode, on top of typeof_sound_strict
   (Proofs/TypeSoundProofs.v): a policy the validator accepts cannot fail with a type error (or any error other than a missing entity,
   an overflow, an extension error) in a request / store that conforms to the schema, and evaluates to a Boolean otherwise.

   MAIN THEOREM
     Theorem validate_policy_sound : forall sch acts p,
        schema_wf sch -> agraph_wf sch -> acts_wf sch acts -> policy_keys_small p = true ->
        validate_policy true sch acts p = true ->
        forall en tv, request_env sch acts tv -> env_ok sch tv en -> actions_conform sch (e_store en) -> store_types_known sch (e_store en) ->
          match eval en (policy_to_expr p) with
          | Ok v => exists b, v = VBool b
          | Err k => allowed_error k = true
          end.
   and the authorizer's view validate_policy_bool_eval (bool_eval never sees a type error).

   HYPOTHESES (schema_wf, agraph_wf, actions_conform, store_types_known, keys_small: TypeSoundLemmas.v / TypeSoundProofs.v)
   - acts_wf sch acts := (forall u, In u (map fst acts) <-> In u (ts_actions sch)) /\
                         (forall u ps rs ctx, In (u, Some (ps, rs, ctx)) acts -> WT (CRec ctx))
       the model's three views of resolved.Schema.Actions (acts, ts_actions, the keys of ts_agraph - the latter by agraph_wf) list the
       same actions; every context record type has pairwise distinct keys at every depth (a Go map / resolved record type).
   - request_env sch acts tv := (exists ps rs ctx, applies_of acts (tv_action tv) = Some (Some (ps, rs, ctx)) /\
                                   In (tv_principal tv) ps /\ In (tv_resource tv) rs /\ tv_context tv = ctx) /\
                                known_ty sch (tv_principal tv) = true /\ known_ty sch (tv_resource tv) = true
       what Validator.Request checks of a request besides the values (env_ok): the action is declared, the principal / resource
       types are in its appliesTo lists, the context has the declared type, and both types are known (isKnownEntityType: a declared
       or enumerated entity type).  request_env implies In tv (gen_envs acts) (request_env_gen).
   - policy_keys_small p: keys_small of every condition body (attribute names below 10^39 bytes, see TypeSoundProofs.v).

   STRUCTURE.  policy_to_expr p = s1 && (s2 && (... && (c1 && ...))) with the scope tests first.  Every scope test evaluates to a
   Boolean on entity-valued variables (scope_good).  If the request's environment passes filterEnvsForPolicy (env_matches), every
   condition was type checked in it and typeof_sound_strict applies; if it does not, the scope test responsible for that evaluates
   to FALSE (entity_scope_sound / action_scope_sound: type mismatch for == / is, no type-level path for `in` by reach_types and
   is_descendant_ty_complete, no action-graph path by reach_action and areach_complete), so the conditions are never evaluated.
   Permissive mode: not sound (F29, TypeSoundProofs.permissive_unsound); additionally validate_policy false skips the conditions
   when the action application check fails - no theorem. *)
From Coq Require Import ZArith List Bool String Lia Relations Arith.
Import ListNotations.
From Cedar Require Import Base.Int64 Lang.Value Impl.Like Lang.Expr Impl.InSearch Impl.Eval Impl.TypeCheck Impl.ValidatePolicy Lang.TypeSound
  Proofs.ValueProofs Proofs.InSearchProofs Proofs.TypeSoundLemmas Proofs.TypeSoundProofs.
Local Open Scope Z_scope.

(* ------------------------------------------------------------------ *)
(* Hypotheses                                                           *)
(* ------------------------------------------------------------------ *)
Definition acts_wf (sch : tschema) (acts : list (uid * applies)) : Prop :=
  (forall u, In u (map fst acts) <-> In u (ts_actions sch)) /\
  (forall u ps rs ctx, In (u, Some (ps, rs, ctx)) acts -> WT (CRec ctx)).

Definition request_env (sch : tschema) (acts : list (uid * applies)) (tv : tenv) : Prop :=
  (exists ps rs ctx, applies_of acts (tv_action tv) = Some (Some (ps, rs, ctx)) /\
                     In (tv_principal tv) ps /\ In (tv_resource tv) rs /\ tv_context tv = ctx) /\
  known_ty sch (tv_principal tv) = true /\ known_ty sch (tv_resource tv) = true.

Definition policy_keys_small (p : policy) : bool := forallb (fun c : bool * expr => keys_small (snd c)) (p_conds p).

(* ------------------------------------------------------------------ *)
(* and_all                                                              *)
(* ------------------------------------------------------------------ *)
Definition good (r : res) : Prop :=
  match r with Ok v => exists b, v = VBool b | Err k => allowed_error k = true end.

Section Chain.
  Variable en : env.
  Fixpoint chain (l : list expr) : Prop :=
    match l with
    | [] => True
    | x :: r => good (eval en x) /\ (eval en x = Ok (VBool true) -> chain r)
    end.

  Lemma and_all_good : forall es e, chain (e :: es) -> good (eval en (and_all e es)).
  Proof.
    induction es as [|e' es IH]; intros e [Hg Hc]; cbn [and_all]; [exact Hg|].
    cbn [eval]. destruct (eval en e) as [v|k]; cbn [good bindr] in *; [|exact Hg].
    destruct Hg as [[|] ->]; cbn [as_bool negb good]; [|eauto].
    specialize (IH e' (Hc eq_refl)). destruct (eval en (and_all e' es)) as [w|k]; cbn [good bindr] in *; [|exact IH].
    destruct IH as [b ->]. cbn [as_bool good]. eauto.
  Qed.

  Lemma chain_app l1 l2 : Forall (fun x => good (eval en x)) l1 ->
    (Forall (fun x => good (eval en x)) l2 \/ exists x, In x l1 /\ eval en x = Ok (VBool false)) -> chain (l1 ++ l2).
  Proof.
    induction l1 as [|x r IH]; intros H1 H2; cbn [app].
    - destruct H2 as [H2|(x & [] & _)]. induction H2 as [|y l Hy _ IHl]; cbn [chain]; auto.
    - inversion H1 as [|? ? Hx Hr]; subst. cbn [chain]. split; [exact Hx|]. intros Et. apply IH; [exact Hr|].
      destruct H2 as [H2|(y & [<-|Hy] & Ey)]; [left; exact H2 | congruence | right; eauto].
  Qed.
End Chain.

(* ------------------------------------------------------------------ *)
(* Scope tests                                                          *)
(* ------------------------------------------------------------------ *)
Section Scopes.
  Variable sch : tschema.
  Variable acts : list (uid * applies).
  Variable en : env.
  Hypothesis Hst : store_ok sch (e_store en).
  Hypothesis Hin : in_hyps sch (e_store en).
  Local Notation st := (e_store en).

  Lemma ent_of_eta u : VEntity (fst u) (snd u) = ent_of u.
  Proof. reflexivity. Qed.

  Lemma do_in_ent l u : exists r, do_in st l (VEntity (fst u) (snd u)) = Ok (VBool r) /\ (r = true <-> reach_st st l u).
  Proof. apply do_in_uids_single. Qed.

  Lemma do_in_set l us : exists r, do_in st l (mk_set (map (fun u : str * str => VEntity (fst u) (snd u)) us)) = Ok (VBool r) /\
                                   (r = true <-> exists x, In x us /\ reach_st st l x).
  Proof. apply (do_in_uids_set st l us). Qed.

  (* every scope test on an entity-valued variable yields a Boolean *)
  Lemma scope_good x s ty i : var_value en x = VEntity ty i -> good (eval en (scope_expr x s)).
  Proof.
    intros Hx. destruct s as [|u|u|us|t|t u]; cbn [scope_expr eval bindr]; rewrite ?Hx; cbn [as_entity bindr good vbool]; unfold vbool; eauto.
    - destruct (do_in_ent (ty, i) u) as (r & -> & _). cbn; eauto.
    - destruct (do_in_set (ty, i) us) as (r & -> & _). cbn; eauto.
    - cbn [fst]. destruct (negb (str_eqb ty t)); [cbn; eauto|]. destruct (do_in_ent (ty, i) u) as (r & -> & _). cbn; eauto.
  Qed.

  (* an entity of a known type outside types_in (fst u) is not below u *)
  Lemma not_below ty i u : known_ty sch ty = true -> smem ty (types_in sch (fst u)) = false -> ~ reach_st st (ty, i) u.
  Proof.
    intros Hk Hs Hr. assert (Hn : ~ In ty (types_in sch (fst u))) by (intros X; apply smem_In in X; congruence).
    apply Hn. unfold types_in.
    destruct (reach_types sch st (ty, i) u Hst Hin Hr) as [<-|[H|H]]; cbn [fst] in *.
    - left; reflexivity.
    - right. apply filter_In. split; [|apply is_descendant_ty_complete, H].
      destruct (tedge_first _ _ _ H) as (w & Hw). eapply tparents_declared; eauto.
    - exfalso. destruct Hin as (Hw & _). destruct (aclosure_first _ _ _ H) as (z & Hz).
      pose proof (akey_action sch (ty, i) Hw (aedge_key _ _ _ Hz)) as Ha. cbn [fst] in Ha.
      destruct Hw as (_ & _ & Hb & _). destruct (Hb _ Ha) as [He Hs']. unfold known_ty in Hk. rewrite He, Hs' in Hk. discriminate.
  Qed.

  (* principal / resource scope: a request whose type is outside the computed constraint fails the test *)
  Lemma entity_scope_sound x s ty i ot l : var_value en x = VEntity ty i -> known_ty sch ty = true ->
    entity_scope sch s = (ot, true) -> ot = Some l -> smem ty l = false -> eval en (scope_expr x s) = Ok (VBool false).
  Proof.
    intros Hx Hk Hs -> Hm.
    destruct s as [|u|u|us|t|t u]; cbn [entity_scope] in Hs; try (inversion Hs; fail).
    - destruct (scope_entity sch u); inversion Hs; subst l. cbn [scope_expr eval bindr]. rewrite Hx. unfold vbool. cbn [veq].
      destruct (str_eqb ty (fst u)) eqn:E; [|reflexivity]. apply str_eqb_eq in E. subst ty. cbn [smem existsb] in Hm. rewrite str_eqb_refl in Hm. discriminate.
    - destruct (scope_entity sch u); inversion Hs; subst l. cbn [scope_expr eval bindr]. rewrite Hx. cbn [as_entity bindr].
      destruct (do_in_ent (ty, i) u) as (r & -> & Hiff). destruct r; [|reflexivity]. exfalso.
      apply (not_below ty i u Hk Hm). apply Hiff. reflexivity.
    - destruct (scope_type sch t); inversion Hs; subst l. cbn [scope_expr eval bindr]. rewrite Hx. cbn [as_entity bindr fst]. unfold vbool.
      destruct (str_eqb ty t) eqn:E; [|reflexivity]. apply str_eqb_eq in E. subst ty. cbn [smem existsb] in Hm. rewrite str_eqb_refl in Hm. discriminate.
    - destruct (negb (scope_type sch t)); [inversion Hs|]. destruct (negb (scope_entity sch u)); [inversion Hs|].
      cbn [scope_expr eval bindr]. rewrite Hx. cbn [as_entity bindr fst]. unfold vbool.
      destruct (str_eqb ty t) eqn:E; cbn [negb]; [|reflexivity]. apply str_eqb_eq in E. subst ty.
      destruct (smem t (types_in sch (fst u))) eqn:Et; inversion Hs; subst l.
      + cbn [smem existsb] in Hm. rewrite str_eqb_refl in Hm. discriminate.
      + destruct (do_in_ent (t, i) u) as (r & -> & Hiff). destruct r; [|reflexivity]. exfalso.
        apply (not_below t i u Hk Et). apply Hiff. reflexivity.
  Qed.

  (* action scope *)
  Hypothesis Hacts : forall u, In u (map fst acts) <-> In u (ts_actions sch).

  Lemma not_in_group act u : In act (ts_actions sch) -> umem act (actions_in_set sch acts [u]) = false -> ~ reach_st st act u.
  Proof.
    intros Ha Hm Hr. assert (Hn : ~ In act (actions_in_set sch acts [u])) by (intros X; apply umem_In in X; congruence).
    apply Hn. unfold actions_in_set. cbn [flat_map]. rewrite app_nil_r.
    destruct (reach_action sch st act u Hst Hin Ha Hr) as [<-|[Hcl _]]; [left; reflexivity|].
    destruct (uid_dec u act) as [->|Hne]; [left; reflexivity|]. right. apply filter_In. split; [apply Hacts, Ha|].
    rewrite (areach_complete sch act u Hcl).
    destruct (uid_eqb act u) eqn:E; [apply uid_eqb_eq in E; congruence | reflexivity].
  Qed.

  Lemma actions_in_set_In a us u : In u us -> umem a (actions_in_set sch acts us) = false -> umem a (actions_in_set sch acts [u]) = false.
  Proof.
    intros Hu Hm. destruct (umem a (actions_in_set sch acts [u])) eqn:E; [|reflexivity]. apply umem_In in E.
    assert (X : In a (actions_in_set sch acts us)).
    { unfold actions_in_set in *. apply in_flat_map. exists u. split; [exact Hu|]. cbn [flat_map] in E. rewrite app_nil_r in E. exact E. }
    apply umem_In in X. congruence.
  Qed.

  Lemma action_scope_sound s act oa l : var_value en VAction = ent_of act -> In act (ts_actions sch) ->
    action_scope sch acts s = (oa, true) -> oa = Some l -> umem act l = false -> eval en (scope_expr VAction s) = Ok (VBool false).
  Proof.
    intros Hx Ha Hs -> Hm. assert (Hact : (fst act, snd act) = act) by (destruct act; reflexivity).
    destruct s as [|u|u|us|t|t u]; cbn [action_scope] in Hs; inversion Hs; subst l.
    - cbn [scope_expr eval bindr]. rewrite Hx. unfold vbool, ent_of. cbn [veq].
      destruct (str_eqb (fst act) (fst u) && str_eqb (snd act) (snd u)) eqn:E; [|reflexivity].
      apply andb_true_iff in E. destruct E as [E1 E2]. apply str_eqb_eq in E1. apply str_eqb_eq in E2.
      assert (act = u) by (destruct act, u; cbn in *; subst; reflexivity). subst u.
      cbn [umem existsb] in Hm. rewrite uid_eqb_refl in Hm. discriminate.
    - cbn [scope_expr eval bindr]. rewrite Hx. unfold ent_of. cbn [as_entity bindr]. rewrite Hact.
      destruct (do_in_ent act u) as (r & -> & Hiff). destruct r; [|reflexivity]. exfalso.
      apply (not_in_group act u Ha Hm). apply Hiff. reflexivity.
    - cbn [scope_expr eval bindr]. rewrite Hx. unfold ent_of. cbn [as_entity bindr]. rewrite Hact.
      destruct (do_in_set act us) as (r & -> & Hiff). destruct r; [|reflexivity]. exfalso.
      destruct (proj1 Hiff eq_refl) as (u & Hu & Hr).
      apply (not_in_group act u Ha (actions_in_set_In act us u Hu Hm) Hr).
  Qed.
End Scopes.

(* ------------------------------------------------------------------ *)
(* The theorem                                                          *)
(* ------------------------------------------------------------------ *)
Lemma applies_of_In acts u ap : applies_of acts u = Some ap -> In (u, ap) acts.
Proof.
  unfold applies_of. induction acts as [|[a ap'] r IH]; [discriminate|].
  destruct (uid_eqb a u) eqn:E.
  - apply uid_eqb_eq in E. subst a. intros H. inversion H; subst. left; reflexivity.
  - intros H. right. apply IH, H.
Qed.

Lemma request_env_gen sch acts tv : request_env sch acts tv -> In tv (gen_envs acts).
Proof.
  intros ((ps & rs & ctx & Ha & Hp & Hr & Hc) & _). apply applies_of_In in Ha.
  unfold gen_envs. apply in_flat_map. exists (tv_action tv, Some (ps, rs, ctx)). split; [exact Ha|]. cbn [snd fst].
  apply in_flat_map. exists (tv_principal tv). split; [exact Hp|]. apply in_map_iff. exists (tv_resource tv). split; [|exact Hr].
  destruct tv; cbn in *; subst; reflexivity.
Qed.

Lemma good_not en e : good (eval en e) -> good (eval en (ENot e)).
Proof. cbn [eval]. destruct (eval en e) as [v|k]; cbn [good bindr]; [|auto]. intros [b ->]. cbn. eauto. Qed.

Theorem validate_policy_sound : forall sch acts p,
  schema_wf sch -> agraph_wf sch -> acts_wf sch acts -> policy_keys_small p = true ->
  validate_policy true sch acts p = true ->
  forall en tv, request_env sch acts tv -> env_ok sch tv en -> actions_conform sch (e_store en) -> store_types_known sch (e_store en) ->
    match eval en (policy_to_expr p) with
    | Ok v => exists b, v = VBool b
    | Err k => allowed_error k = true
    end.
Proof.
  intros sch acts p Hwf Hg (Hacts & Hctx) Hks Hv en tv Hreq Hen Hac Hkn.
  change (good (eval en (policy_to_expr p))).
  pose proof Hen as (Hst & Hprin & Hact & Hres & _).
  assert (Hih : in_hyps sch (e_store en)) by (split; [exact Hg | split; assumption]).
  destruct Hreq as (Happ & Hkp & Hkr). pose proof (request_env_gen sch acts tv (conj Happ (conj Hkp Hkr))) as Hgen.
  destruct Happ as (ps & rs & ctx & Hap & Hpin & Hrin & Hcx).
  assert (Hadecl : In (tv_action tv) (ts_actions sch)).
  { apply Hacts. apply applies_of_In in Hap. apply in_map_iff. exists (tv_action tv, Some (ps, rs, ctx)). auto. }
  destruct (vtyped_ent_inv _ _ Hprin) as (tp & ip & Ep & [<-|[]]). destruct (vtyped_ent_inv _ _ Hres) as (tr & ir & Er & [<-|[]]).
  (* the validator's verdict *)
  unfold validate_policy in Hv.
  destruct (entity_scope sch (p_principal p)) as [pt pok] eqn:Esp. destruct (action_scope sch acts (p_action p)) as [au aok] eqn:Esa.
  destruct (entity_scope sch (p_resource p)) as [rt rok] eqn:Esr. cbn [andb] in Hv.
  apply andb_true_iff in Hv. destruct Hv as [Hv Hcok]. apply andb_true_iff in Hv. destruct Hv as [Hv _].
  apply andb_true_iff in Hv. destruct Hv as [Hv _]. apply andb_true_iff in Hv. destruct Hv as [Hv ->].
  apply andb_true_iff in Hv. destruct Hv as [-> ->].
  (* the nodes *)
  unfold policy_to_expr, policy_nodes.
  set (conds := map (fun c : bool * expr => if fst c then snd c else ENot (snd c)) (p_conds p)).
  assert (Hconds : env_matches pt rt au tv = true -> Forall (fun x => good (eval en x)) conds).
  { intros Hm. assert (Hin : In tv (filter (env_matches pt rt au) (gen_envs acts))) by (apply filter_In; auto).
    assert (Hok : conds_ok true sch (filter (env_matches pt rt au) (gen_envs acts)) (p_conds p) = true).
    { destruct (filter (env_matches pt rt au) (gen_envs acts)) as [|e0 envs]; [destruct Hin|].
      destruct (p_conds p); [reflexivity | exact Hcok]. }
    unfold conds. apply Forall_map. rewrite Forall_forall. intros [k body] Hc. cbn [fst snd].
    unfold conds_ok in Hok. rewrite forallb_forall in Hok. specialize (Hok _ Hc). rewrite forallb_forall in Hok. specialize (Hok _ Hin).
    cbn [snd] in Hok. destruct (typeof true sch tv body []) as [t caps'| |] eqn:Ety; try discriminate.
    unfold policy_keys_small in Hks. rewrite forallb_forall in Hks. specialize (Hks _ Hc). cbn [snd] in Hks.
    assert (Htv : tenv_wf sch tv).
    { unfold tenv_wf. rewrite Hcx. apply applies_of_In in Hap. eapply Hctx; eauto. }
    assert (Hd : action_declared sch tv) by (apply umem_In, Hadecl).
    pose proof (typeof_sound_strict sch tv body Hwf Htv Hg Hd Hks [] t caps' Ety en Hen Hac Hkn (Forall_nil _)) as Hs.
    assert (Hb : good (eval en body)).
    { destruct (eval en body) as [v|kk]; cbn [good]; [|exact Hs]. destruct Hs as [Hvt _].
      eapply vtyped_bool_inv; [|exact Hvt]. destruct t; try discriminate; reflexivity. }
    destruct k; [exact Hb | apply good_not, Hb]. }
  assert (Hpv : var_value en VPrincipal = VEntity (tv_principal tv) ip) by exact Ep.
  assert (Hrv : var_value en VResource = VEntity (tv_resource tv) ir) by exact Er.
  assert (Hav : var_value en VAction = ent_of (tv_action tv)) by exact Hact.
  destruct (is_all (p_principal p) && is_all (p_action p) && is_all (p_resource p)) eqn:Eall.
  - (* no scope constraint *)
    apply andb_true_iff in Eall. destruct Eall as [Eall E3]. apply andb_true_iff in Eall. destruct Eall as [E1 E2].
    destruct (p_principal p); try discriminate. destruct (p_action p); try discriminate. destruct (p_resource p); try discriminate.
    cbn in Esp, Esa, Esr. inversion Esp; inversion Esa; inversion Esr; subst.
    cbn [app].
    apply and_all_good. apply (chain_app en [ELit (VBool true)] conds).
    + constructor; [cbn; eauto | constructor].
    + left. apply Hconds. reflexivity.
  - set (sp := if is_all (p_principal p) then [] else [scope_expr VPrincipal (p_principal p)]).
    set (sa := if is_all (p_action p) then [] else [scope_expr VAction (p_action p)]).
    set (sr := if is_all (p_resource p) then [] else [scope_expr VResource (p_resource p)]).
    assert (Hgood : Forall (fun x => good (eval en x)) (sp ++ sa ++ sr)).
    { apply Forall_app. split; [|apply Forall_app; split].
      - unfold sp. destruct (is_all (p_principal p)); constructor; [|constructor]. eapply scope_good; eauto.
      - unfold sa. destruct (is_all (p_action p)); constructor; [|constructor]. eapply scope_good; eauto.
      - unfold sr. destruct (is_all (p_resource p)); constructor; [|constructor]. eapply scope_good; eauto. }
    assert (Hchain : chain en ((sp ++ sa ++ sr) ++ conds)).
    { apply chain_app; [exact Hgood|].
      destruct (env_matches pt rt au tv) eqn:Em; [left; apply Hconds; reflexivity | right].
      unfold env_matches in Em. apply andb_false_iff in Em. destruct Em as [Em|Em]; [apply andb_false_iff in Em; destruct Em as [Em|Em]|].
      - destruct pt as [l|]; [|discriminate].
        exists (scope_expr VPrincipal (p_principal p)). split.
        + apply in_or_app. left. unfold sp. destruct (p_principal p); cbn in Esp |- *; try (left; reflexivity). inversion Esp.
        + eapply (entity_scope_sound sch en Hst Hih); eauto.
      - destruct rt as [l|]; [|discriminate].
        exists (scope_expr VResource (p_resource p)). split.
        + apply in_or_app. right. apply in_or_app. right. unfold sr. destruct (p_resource p); cbn in Esr |- *; try (left; reflexivity). inversion Esr.
        + eapply (entity_scope_sound sch en Hst Hih); eauto.
      - destruct au as [l|]; [|discriminate]. assert (Hm : umem (tv_action tv) l = false) by (destruct l; [reflexivity | exact Em]).
        exists (scope_expr VAction (p_action p)). split.
        + apply in_or_app. right. apply in_or_app. left. unfold sa. destruct (p_action p); cbn in Esa |- *; try (left; reflexivity). inversion Esa.
        + eapply (action_scope_sound sch acts en Hst Hih Hacts); eauto. }
    rewrite <- !app_assoc in Hchain. rewrite <- !app_assoc.
    destruct (sp ++ sa ++ sr ++ conds) as [|e0 es] eqn:El.
    + cbn. eauto.
    + apply and_all_good. exact Hchain.
Qed.

(* the authorizer's view: BoolEvaler never reports a type error on a validated policy *)
Corollary validate_policy_bool_eval : forall sch acts p,
  schema_wf sch -> agraph_wf sch -> acts_wf sch acts -> policy_keys_small p = true ->
  validate_policy true sch acts p = true ->
  forall en tv, request_env sch acts tv -> env_ok sch tv en -> actions_conform sch (e_store en) -> store_types_known sch (e_store en) ->
    match bool_eval en (policy_to_expr p) with
    | Ok v => exists b, v = VBool b
    | Err k => allowed_error k = true
    end.
Proof.
  intros sch acts p H1 H2 H3 H4 H5 en tv H6 H7 H8 H9.
  pose proof (validate_policy_sound sch acts p H1 H2 H3 H4 H5 en tv H6 H7 H8 H9) as H.
  unfold bool_eval. destruct (eval en (policy_to_expr p)) as [v|k]; cbn [bindr]; [|exact H].
  destruct H as [b ->]. cbn. eauto.
Qed.

Print Assumptions validate_policy_sound.
Print Assumptions validate_policy_bool_eval.
