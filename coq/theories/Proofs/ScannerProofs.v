(* Proofs/ScannerProofs.v — the buffered scanner (Impl.Scanner) refines the reader-free cursor (Lang.Cursor):
   for every read schedule without reader failures and every bufLen >= 4 the two run in lock step.
   Also: totality of next() (fuel = remaining schedule length + 2), monotonicity of the schedule and of the
   error flag, and "a failing read sets the error flag". *)
From Coq Require Import ZArith List Bool Lia Arith.
Import ListNotations.
From Cedar Require Import Base.Utf8 Impl.Scanner Impl.Tokenizer Lang.Cursor.

(* ------------------------------------------------------------------------------------------------ *)
(* list lemmas                                                                                       *)
(* ------------------------------------------------------------------------------------------------ *)
Section ListLemmas.
  Context {A : Type}.

  Lemma skipn_skipn' : forall (a b : nat) (l : list A), skipn a (skipn b l) = skipn (b + a) l.
  Proof.
    intros a b; induction b as [|b IH]; intros l.
    - reflexivity.
    - destruct l as [|x l]; cbn [skipn plus].
      + apply skipn_nil.
      + apply IH.
  Qed.

  Lemma firstn_plus : forall (n m : nat) (l : list A), firstn (n + m) l = firstn n l ++ firstn m (skipn n l).
  Proof.
    intros n; induction n as [|n IH]; intros m l.
    - reflexivity.
    - destruct l as [|x l]; cbn [plus firstn skipn app].
      + now rewrite firstn_nil.
      + f_equal. apply IH.
  Qed.

  Lemma nth_skipn_hd : forall (n : nat) (l : list A) (d x : A) (xs : list A),
      skipn n l = x :: xs -> nth n l d = x.
  Proof.
    intros n; induction n as [|n IH]; intros l d x xs H.
    - cbn [skipn] in H. subst l. reflexivity.
    - destruct l as [|y l]; cbn [skipn] in H; [discriminate|].
      cbn [nth]. eapply IH; eauto.
  Qed.

  Lemma nth_in_skipn : forall (n : nat) (l : list A) (d : A),
      n < length l -> exists xs, skipn n l = nth n l d :: xs.
  Proof.
    intros n; induction n as [|n IH]; intros l d H.
    - destruct l as [|y l]; cbn [length] in H; [lia|]. exists l. reflexivity.
    - destruct l as [|y l]; cbn [length] in H; [lia|].
      cbn [skipn nth]. apply IH. lia.
  Qed.

  Lemma firstn_app_le : forall (n : nat) (l1 l2 : list A), n <= length l1 -> firstn n (l1 ++ l2) = firstn n l1.
  Proof.
    intros n l1 l2 H. rewrite firstn_app.
    replace (n - length l1) with 0 by lia. cbn [firstn]. apply app_nil_r.
  Qed.

  (* shortening both sides of "collected = source slice" by k trailing bytes *)
  Lemma firstn_trim : forall (X B C : list A) (n m k : nat),
      X ++ firstn n B = firstn m C -> n <= length B -> m <= length C -> k <= n ->
      X ++ firstn (n - k) B = firstn (m - k) C.
  Proof.
    intros X B C n m k H Hn Hm Hk.
    assert (Hlen : length X + n = m).
    { apply (f_equal (@length A)) in H. rewrite app_length, !firstn_length in H. lia. }
    assert (H1 : firstn (m - k) (firstn m C) = firstn (m - k) C).
    { rewrite firstn_firstn. f_equal. lia. }
    rewrite <- H1, <- H.
    replace (m - k) with (length X + (n - k)) by lia.
    rewrite firstn_app_2. f_equal. rewrite firstn_firstn. f_equal. lia.
  Qed.
End ListLemmas.

(* ------------------------------------------------------------------------------------------------ *)
(* utf8 lemmas (no range assumption on the bytes)                                                    *)
(* ------------------------------------------------------------------------------------------------ *)
Local Ltac lead_byte b0 :=
  destruct (Z.ltb_spec b0 128); destruct (Z.ltb_spec b0 194); destruct (Z.ltb_spec b0 224);
  destruct (Z.ltb_spec b0 240); destruct (Z.ltb_spec b0 245); try (exfalso; lia).

Local Ltac bool_atoms :=
  repeat (match goal with
          | |- context [Z.leb ?a ?b] => destruct (Z.leb a b) eqn:?
          | |- context [is_cont ?a] => destruct (is_cont a) eqn:?
          end; cbn [andb orb negb]).

Lemma decode_rune_ge4 : forall (b0 b1 b2 b3 : Z) (l r : list Z),
    decode_rune ((b0 :: b1 :: b2 :: b3 :: l) ++ r) = decode_rune (b0 :: b1 :: b2 :: b3 :: l).
Proof. intros. reflexivity. Qed.

Lemma decode_rune_app_long : forall (w r : list Z), 4 <= length w -> decode_rune (w ++ r) = decode_rune w.
Proof.
  intros w r H. destruct w as [|b0 [|b1 [|b2 [|b3 l]]]]; cbn [length] in H; try lia.
  apply decode_rune_ge4.
Qed.

Lemma decode_rune_app_full : forall (w r : list Z), full_rune w = true -> decode_rune (w ++ r) = decode_rune w.
Proof.
  intros w r H. destruct w as [|b0 [|b1 [|b2 [|b3 l]]]].
  - discriminate.
  - revert H. cbn [app]. unfold full_rune, decode_rune. lead_byte b0; cbn [negb]; intros Hf; try discriminate; reflexivity.
  - revert H. cbn [app]. unfold full_rune, decode_rune. lead_byte b0; cbn [negb]; try reflexivity.
    + bool_atoms; intros Hf; try discriminate; destruct r; reflexivity.
    + bool_atoms; intros Hf; try discriminate; destruct r as [|r0 [|r1 r]]; reflexivity.
  - revert H. cbn [app]. unfold full_rune, decode_rune. lead_byte b0; cbn [negb]; try reflexivity.
    bool_atoms; intros Hf; try discriminate; destruct r; reflexivity.
  - apply decode_rune_ge4.
Qed.

Lemma decode_rune_width : forall (x : Z) (xs : list Z) (ch : Z) (w : nat),
    decode_rune (x :: xs) = (ch, w) -> 1 <= w /\ w <= S (length xs).
Proof.
  intros x xs ch w. unfold decode_rune. lead_byte x.
  - intros Hdec; inversion Hdec; subst; cbn [length]; lia.
  - intros Hdec; inversion Hdec; subst; cbn [length]; lia.
  - destruct xs as [|b1 xs]; [intros Hdec; inversion Hdec; subst; cbn [length]; lia|].
    bool_atoms; intros Hdec; inversion Hdec; subst; cbn [length]; lia.
  - destruct xs as [|b1 [|b2 xs]]; try (intros Hdec; inversion Hdec; subst; cbn [length]; lia).
    bool_atoms; intros Hdec; inversion Hdec; subst; cbn [length]; lia.
  - destruct xs as [|b1 [|b2 [|b3 xs]]]; try (intros Hdec; inversion Hdec; subst; cbn [length]; lia).
    bool_atoms; intros Hdec; inversion Hdec; subst; cbn [length]; lia.
  - intros Hdec; inversion Hdec; subst; cbn [length]; lia.
Qed.

(* a rune decoded from a non-ASCII leading byte is never NUL or newline (it is U+FFFD or >= 0x80) *)
Lemma decode_rune_ge128 : forall (x : Z) (xs : list Z) (ch : Z) (w : nat),
    (x <? 128)%Z = false -> decode_rune (x :: xs) = (ch, w) -> (128 <= ch)%Z.
Proof.
  intros x xs ch w Hx. apply Z.ltb_ge in Hx. unfold decode_rune, rune_error, is_cont. lead_byte x.
  - intros Hdec; inversion Hdec; subst; lia.
  - destruct xs as [|b1 xs]; [intros Hdec; inversion Hdec; subst; lia|].
    destruct (Z.leb_spec 128 b1); destruct (Z.leb_spec b1 191); cbn [andb]; intros Hdec; inversion Hdec; subst; lia.
  - destruct xs as [|b1 [|b2 xs]]; try (intros Hdec; inversion Hdec; subst; lia).
    destruct (Z.eqb_spec x 224); destruct (Z.eqb_spec x 237);
      repeat match goal with |- context [Z.leb ?a ?b] => destruct (Z.leb_spec a b); cbn [andb] end;
      intros Hdec; inversion Hdec; subst; lia.
  - destruct xs as [|b1 [|b2 [|b3 xs]]]; try (intros Hdec; inversion Hdec; subst; lia).
    destruct (Z.eqb_spec x 240); destruct (Z.eqb_spec x 244);
      repeat match goal with |- context [Z.leb ?a ?b] => destruct (Z.leb_spec a b); cbn [andb] end;
      intros Hdec; inversion Hdec; subst; lia.
  - intros Hdec; inversion Hdec; subst; lia.
Qed.

Lemma full_rune_nil : full_rune [] = false.
Proof. reflexivity. Qed.

Lemma full_rune_ascii : forall x xs, (x <? 128)%Z = true -> full_rune (x :: xs) = true.
Proof.
  intros x xs H. apply Z.ltb_lt in H. unfold full_rune.
  destruct (Z.ltb_spec x 194); [reflexivity|lia].
Qed.

Local Opaque decode_rune full_rune.

(* ------------------------------------------------------------------------------------------------ *)
(* the reader                                                                                        *)
(* ------------------------------------------------------------------------------------------------ *)
Definition no_fail (r : reader) : Prop := forall n f, In (n, f) (r_sched r) -> f = false.

(* facts that hold for every reader, failing or not *)
Lemma read_sched_le : forall r cap data err r',
    read r cap = (data, err, r') -> length (r_sched r') <= length (r_sched r).
Proof.
  intros r cap data err r'. unfold read.
  destruct (r_sched r) as [|[n f] sch] eqn:Hs.
  - destruct (r_rest r) as [|x rest].
    + intros H; inversion H; subst; cbn [r_sched length]; lia.
    + match goal with |- context [if ?c then _ else _] => destruct c end;
        intros H; inversion H; subst; cbn [r_sched length]; lia.
  - destruct f.
    + destruct (r_fail_mode r); intros H; inversion H; subst; rewrite ?Hs; cbn [r_sched length]; lia.
    + destruct (r_rest r) as [|x rest].
      * intros H; inversion H; subst; cbn [r_sched length]; lia.
      * match goal with |- context [if ?c then _ else _] => destruct c end;
          intros H; inversion H; subst; cbn [r_sched length]; lia.
Qed.

(* a successful read (err = nil) consumes a schedule entry, or the schedule is exhausted and the read
   fills the whole capacity or drains the reader *)
Lemma read_continue : forall r cap data r',
    read r cap = (data, None, r') ->
    r_rest r <> [] /\
    (length (r_sched r') + 1 <= length (r_sched r) \/
     (r_sched r = [] /\ r_sched r' = [] /\ (r_rest r' = [] \/ length data = cap))).
Proof.
  intros r cap data r'. unfold read.
  destruct (r_sched r) as [|[n f] sch] eqn:Hs.
  - destruct (r_rest r) as [|x rest] eqn:Hr; [intros H; inversion H|].
    match goal with |- context [if ?c then _ else _] => destruct c end; intros H; inversion H; subst.
    split; [discriminate|]. right. cbn [r_sched r_rest]. repeat split.
    rewrite Nat.min_id.
    destruct (Nat.le_gt_cases cap (length (x :: rest))) as [Hle|Hgt]; cbn [length] in *.
    + right. rewrite Nat.min_l by lia. rewrite firstn_length. cbn [length]. lia.
    + left. rewrite Nat.min_r by lia. apply (skipn_all (x :: rest)).
  - destruct f; [destruct (r_fail_mode r); intros H; inversion H|].
    destruct (r_rest r) as [|x rest] eqn:Hr; [intros H; inversion H|].
    match goal with |- context [if ?c then _ else _] => destruct c end; intros H; inversion H; subst.
    split; [discriminate|]. left. cbn [r_sched length]. lia.
Qed.

(* a failing step reports the failure, whatever the failure mode (it may deliver data with it: FOnceData) *)
Lemma read_fail : forall r cap n sch,
    r_sched r = (n, true) :: sch -> exists data r', read r cap = (data, Some RFail, r').
Proof.
  intros r cap n sch H. unfold read. rewrite H.
  destruct (r_fail_mode r); do 2 eexists; reflexivity.
Qed.

(* the sticky mode: no data, the reader is unchanged *)
Lemma read_fail_sticky : forall r cap n sch,
    r_sched r = (n, true) :: sch -> r_fail_mode r = FSticky -> read r cap = ([], Some RFail, r).
Proof. intros r cap n sch H Hm. unfold read. rewrite H, Hm. reflexivity. Qed.

(* reads of a reader that never fails *)
Lemma read_no_fail : forall r cap data err r',
    no_fail r -> read r cap = (data, err, r') ->
    r_rest r = data ++ r_rest r' /\ length data <= cap /\ no_fail r' /\
    (err = None \/ (err = Some REOF /\ r_rest r' = [])).
Proof.
  intros r cap data err r' Hnf. unfold read.
  assert (Hnf' : forall n f sch rest, r_sched r = (n, f) :: sch ->
                 no_fail {| r_rest := rest; r_sched := sch; r_eof_with_data := r_eof_with_data r; r_fail_mode := r_fail_mode r |}).
  { intros n f sch rest Hs n0 f0 Hin. cbn [r_sched] in Hin. apply (Hnf n0). rewrite Hs. right. exact Hin. }
  assert (Hnf0 : forall rest, no_fail {| r_rest := rest; r_sched := []; r_eof_with_data := r_eof_with_data r; r_fail_mode := r_fail_mode r |}).
  { intros rest n0 f0 Hin. cbn [r_sched] in Hin. contradiction. }
  destruct (r_sched r) as [|[n f] sch] eqn:Hs.
  - destruct (r_rest r) as [|x rest].
    + intros H; inversion H; subst. cbn [r_rest length app]. repeat split; auto. lia.
    + match goal with |- context [if ?c then _ else _] => destruct c eqn:Hc end; intros H; inversion H; subst.
      * cbn [r_rest]. rewrite app_nil_r. repeat split; auto.
        apply andb_prop in Hc. destruct Hc as [Hc _]. apply andb_prop in Hc. destruct Hc as [Hc _].
        apply Nat.eqb_eq in Hc. cbn [length] in *. lia.
      * cbn [r_rest]. rewrite firstn_skipn. repeat split; auto.
        rewrite firstn_length. lia.
  - assert (f = false) by (apply (Hnf n); rewrite Hs; left; reflexivity). subst f.
    specialize (Hnf' n false sch).
    destruct (r_rest r) as [|x rest].
    + intros H; inversion H; subst. cbn [r_rest length app]. repeat split; auto. lia.
    + match goal with |- context [if ?c then _ else _] => destruct c eqn:Hc end; intros H; inversion H; subst.
      * cbn [r_rest]. rewrite app_nil_r. repeat split; auto.
        apply andb_prop in Hc. destruct Hc as [Hc _]. apply andb_prop in Hc. destruct Hc as [Hc _].
        apply Nat.eqb_eq in Hc. cbn [length] in *. lia.
      * cbn [r_rest]. rewrite firstn_skipn. repeat split; auto.
        rewrite firstn_length. lia.
Qed.

(* ------------------------------------------------------------------------------------------------ *)
(* the scanner: a structured view of refill_step and next                                            *)
(* ------------------------------------------------------------------------------------------------ *)
(* the state after one read inside the refill loop *)
Definition rs1 (s : scanner) (data : list Z) (rd' : reader) : scanner :=
  {| s_buf := window s ++ data; s_pos := 0; s_off := (s_off s + Z.of_nat (s_pos s))%Z; s_line := s_line s; s_col := s_col s;
     s_lastLineLen := s_lastLineLen s; s_lastCharLen := s_lastCharLen s;
     s_tokBuf := match s_tokPos s with
                 | Some tp => s_tokBuf s ++ firstn (s_pos s - tp) (skipn tp (s_buf s))
                 | None => s_tokBuf s end;
     s_tokPos := match s_tokPos s with Some _ => Some 0 | None => None end;
     s_tokEnd := s_tokEnd s; s_err := s_err s; s_rd := rd' |}.

(* the state in which next() returns EOF *)
Definition eof_state (s2 : scanner) : scanner :=
  {| s_buf := []; s_pos := 0; s_off := s_off s2; s_line := s_line s2;
     s_col := if Nat.ltb 0 (s_lastCharLen s2) then (s_col s2 + 1)%Z else s_col s2;
     s_lastLineLen := s_lastLineLen s2; s_lastCharLen := 0; s_tokBuf := s_tokBuf s2; s_tokPos := s_tokPos s2;
     s_tokEnd := s_tokEnd s2; s_err := s_err s2; s_rd := s_rd s2 |}.

Lemma refill_step_unfold : forall b s data err rd',
    read (s_rd s) (b - length (window s)) = (data, err, rd') ->
    refill_step b s =
    match err with
    | None => (rs1 s data rd', Continue)
    | Some e =>
        let s2 := match e with RFail => set_err (rs1 s data rd') | REOF => rs1 s data rd' end in
        match window s ++ data with
        | [] => (eof_state s2, ReturnEOF)
        | _ => (s2, Break)
        end
    end.
Proof.
  intros b s data err rd' H. unfold refill_step. rewrite H. destruct err as [[|]|]; reflexivity.
Qed.

Definition ascii_step (s : scanner) (x : Z) : scanner :=
  if (x =? 0)%Z then set_err (advance s x 1) else advance s x 1.

Definition bad_step (s1 : scanner) : scanner :=
  {| s_buf := s_buf s1; s_pos := s_pos s1 + 1; s_off := s_off s1; s_line := s_line s1; s_col := (s_col s1 + 1)%Z;
     s_lastLineLen := s_lastLineLen s1; s_lastCharLen := 1; s_tokBuf := s_tokBuf s1; s_tokPos := s_tokPos s1;
     s_tokEnd := s_tokEnd s1; s_err := s_err s1; s_rd := s_rd s1 |}.

(* what next() does once the refill loop has ended without EOF *)
Definition finish (s1 : scanner) : scanner * Z :=
  if (byte_at s1 <? 128)%Z then (ascii_step s1 (byte_at s1), byte_at s1)
  else
    let '(ch, width) := decode_rune (window s1) in
    if (ch =? rune_error)%Z && Nat.eqb width 1 then (set_err (bad_step s1), ch) else (advance s1 ch width, ch).

Lemma next_unfold : forall fuel b s,
    next fuel b s =
    if (byte_at s <? 128)%Z then Some (ascii_step s (byte_at s), byte_at s)
    else match refill fuel b s with
         | None => None
         | Some (s1, true) => Some (s1, rune_eof)
         | Some (s1, false) => Some (finish s1)
         end.
Proof.
  intros fuel b s. unfold next, finish, ascii_step.
  destruct (byte_at s <? 128)%Z; [reflexivity|].
  destruct (refill fuel b s) as [[s1 [|]]|]; try reflexivity.
  destruct (byte_at s1 <? 128)%Z; [reflexivity|].
  destruct (decode_rune (window s1)) as [ch w].
  destruct ((ch =? rune_error)%Z && Nat.eqb w 1); reflexivity.
Qed.

(* ------------------------------------------------------------------------------------------------ *)
(* facts that hold for every reader (failing or not): error flag sticky, schedule shrinks, totality   *)
(* ------------------------------------------------------------------------------------------------ *)
Lemma ascii_step_rd : forall s x, s_rd (ascii_step s x) = s_rd s.
Proof. intros s x. unfold ascii_step. destruct (x =? 0)%Z; reflexivity. Qed.

Lemma ascii_step_err : forall s x, s_err s = true -> s_err (ascii_step s x) = true.
Proof. intros s x H. unfold ascii_step. destruct (x =? 0)%Z; cbn; auto. Qed.

Lemma finish_rd : forall s1, s_rd (fst (finish s1)) = s_rd s1.
Proof.
  intros s1. unfold finish. destruct (byte_at s1 <? 128)%Z; [apply ascii_step_rd|].
  destruct (decode_rune (window s1)) as [ch w].
  destruct ((ch =? rune_error)%Z && Nat.eqb w 1); reflexivity.
Qed.

Lemma finish_err : forall s1, s_err s1 = true -> s_err (fst (finish s1)) = true.
Proof.
  intros s1 H. unfold finish. destruct (byte_at s1 <? 128)%Z; [apply ascii_step_err; exact H|].
  destruct (decode_rune (window s1)) as [ch w].
  destruct ((ch =? rune_error)%Z && Nat.eqb w 1); cbn; auto.
Qed.

Lemma refill_step_gen : forall b s s' out,
    refill_step b s = (s', out) ->
    (s_err s = true -> s_err s' = true) /\ length (r_sched (s_rd s')) <= length (r_sched (s_rd s)).
Proof.
  intros b s s' out.
  destruct (read (s_rd s) (b - length (window s))) as [[data err] rd'] eqn:Hrd.
  rewrite (refill_step_unfold _ _ _ _ _ Hrd). apply read_sched_le in Hrd.
  destruct err as [[|]|]; cbn zeta; try destruct (window s ++ data);
    intros H; inversion H; subst; cbn; auto.
Qed.

Lemma refill_gen : forall b fuel s s1 eof,
    refill fuel b s = Some (s1, eof) ->
    (s_err s = true -> s_err s1 = true) /\ length (r_sched (s_rd s1)) <= length (r_sched (s_rd s)).
Proof.
  intros b fuel; induction fuel as [|f IH]; intros s s1 eof; cbn [refill]; [discriminate|].
  destruct (need_refill s).
  - destruct (refill_step b s) as [s' out] eqn:Hst. apply refill_step_gen in Hst. destruct Hst as [He Hl].
    destruct out.
    + intros H. apply IH in H. destruct H as [He' Hl']. split; [auto|lia].
    + intros H; inversion H; subst; auto.
    + intros H; inversion H; subst; auto.
  - intros H; inversion H; subst; auto.
Qed.

Lemma next_err_mono : forall fuel b s s' ch, next fuel b s = Some (s', ch) -> s_err s = true -> s_err s' = true.
Proof.
  intros fuel b s s' ch. rewrite next_unfold.
  destruct (byte_at s <? 128)%Z.
  - intros H He; inversion H; subst. apply ascii_step_err; exact He.
  - destruct (refill fuel b s) as [[s1 [|]]|] eqn:Hrf; [| |discriminate];
      apply refill_gen in Hrf; destruct Hrf as [Hrf _].
    + intros H He; inversion H; subst; auto.
    + pose proof (finish_err s1) as Hfe. destruct (finish s1) as [sf chf].
      intros H He; inversion H; subst. cbn [fst] in Hfe. auto.
Qed.

Lemma next_sched_le : forall fuel b s s' ch,
    next fuel b s = Some (s', ch) -> length (r_sched (s_rd s')) <= length (r_sched (s_rd s)).
Proof.
  intros fuel b s s' ch. rewrite next_unfold.
  destruct (byte_at s <? 128)%Z.
  - intros H; inversion H; subst. rewrite ascii_step_rd. lia.
  - destruct (refill fuel b s) as [[s1 [|]]|] eqn:Hrf; [| |discriminate];
      apply refill_gen in Hrf; destruct Hrf as [_ Hrf].
    + intros H; inversion H; subst; auto.
    + pose proof (finish_rd s1) as Hfr. destruct (finish s1) as [sf chf].
      intros H; inversion H; subst. cbn [fst] in Hfr. rewrite Hfr. exact Hrf.
Qed.

Lemma token_start_sched : forall s, s_rd (token_start s) = s_rd s.
Proof. reflexivity. Qed.
Lemma token_stop_sched : forall s, s_rd (token_stop s) = s_rd s.
Proof. reflexivity. Qed.
Lemma set_err_sched : forall s, s_rd (set_err s) = s_rd s.
Proof. reflexivity. Qed.

(* the refill loop is only entered on a non-ASCII lookahead byte (or at the end of the buffer) *)
Lemma need_refill_not_ascii : forall s, need_refill s = true -> (byte_at s <? 128)%Z = false.
Proof.
  intros s H. destruct (byte_at s <? 128)%Z eqn:Hb; [|reflexivity].
  unfold need_refill in H. apply andb_prop in H. destruct H as [_ H].
  unfold byte_at, window in *.
  destruct (Nat.lt_ge_cases (s_pos s) (length (s_buf s))) as [Hlt|Hge].
  - destruct (nth_in_skipn (s_pos s) (s_buf s) 128%Z Hlt) as [xs Hxs].
    rewrite Hxs, (full_rune_ascii _ _ Hb) in H. discriminate.
  - rewrite nth_overflow in Hb by lia. discriminate.
Qed.

(* a failing read sets the error flag: if next() has to consult the reader (need_refill) and the reader's next
   step fails, the error flag is set *)
Lemma next_fail_sets_err_need : forall fuel b s s' ch,
    next fuel b s = Some (s', ch) ->
    (exists n sched', r_sched (s_rd s) = (n, true) :: sched') ->
    need_refill s = true -> s_err s' = true.
Proof.
  intros fuel b s s' ch Hn [n [sch Hs]] Hneed.
  rewrite next_unfold, (need_refill_not_ascii _ Hneed) in Hn.
  assert (Hrf : forall s1 eof, refill fuel b s = Some (s1, eof) -> s_err s1 = true).
  { intros s1 eof. destruct fuel as [|f]; cbn [refill]; [discriminate|]. rewrite Hneed.
    destruct (read_fail (s_rd s) (b - length (window s)) _ _ Hs) as [data [rd' Hrd]].
    rewrite (refill_step_unfold _ _ _ _ _ Hrd). cbn zeta.
    destruct (window s ++ data); intros H; inversion H; subst; reflexivity. }
  destruct (refill fuel b s) as [[s1 [|]]|] eqn:Hr; [| |discriminate].
  - inversion Hn; subst. eapply Hrf; reflexivity.
  - pose proof (finish_err s1) as Hfe. destruct (finish s1) as [sf chf].
    inversion Hn; subst. cbn [fst] in Hfe. apply Hfe. eapply Hrf; reflexivity.
Qed.

(* the requested shape (hypotheses 4 <= b and byte_at s >= 128 are not needed), plus need_refill s = true *)
Lemma next_fail_sets_err : forall fuel b s s' ch,
    4 <= b -> next fuel b s = Some (s', ch) ->
    (exists n sched', r_sched (s_rd s) = (n, true) :: sched') -> (byte_at s >= 128)%Z ->
    need_refill s = true -> s_err s' = true.
Proof. intros fuel b s s' ch _ Hn Hs _ Hneed. eapply next_fail_sets_err_need; eauto. Qed.

(* totality *)
Lemma need_refill_window : forall s, need_refill s = true -> length (window s) < 4.
Proof.
  intros s H. unfold need_refill in H. apply andb_prop in H. destruct H as [H _].
  apply Nat.ltb_lt in H. unfold window. rewrite skipn_length. lia.
Qed.

Lemma refill_step_continue : forall b s s',
    4 <= b -> need_refill s = true -> refill_step b s = (s', Continue) ->
    r_rest (s_rd s) <> [] /\
    (length (r_sched (s_rd s')) + 1 <= length (r_sched (s_rd s)) \/
     (r_sched (s_rd s) = [] /\ r_sched (s_rd s') = [] /\ (r_rest (s_rd s') = [] \/ need_refill s' = false))).
Proof.
  intros b s s' Hb Hneed.
  destruct (read (s_rd s) (b - length (window s))) as [[data err] rd'] eqn:Hrd.
  rewrite (refill_step_unfold _ _ _ _ _ Hrd).
  destruct err as [[|]|]; cbn zeta; try (destruct (window s ++ data); discriminate).
  intros H; inversion H; subst. cbn [rs1 s_rd].
  apply read_continue in Hrd. destruct Hrd as [Hne [Hd|[H1 [H2 H3]]]]; split; auto.
  right. repeat split; auto. destruct H3 as [H3|H3]; [left; exact H3|right].
  unfold need_refill. cbn [rs1 s_buf s_pos]. rewrite app_length, H3.
  apply need_refill_window in Hneed.
  replace (Nat.ltb (length (window s) + (b - length (window s))) (0 + 4)) with false; [reflexivity|].
  symmetry. apply Nat.ltb_ge. lia.
Qed.

Definition refill_measure (s : scanner) : nat :=
  if need_refill s then length (r_sched (s_rd s)) + match r_rest (s_rd s) with [] => 1 | _ => 2 end else 1.

Lemma refill_total_measure : forall b fuel s, 4 <= b -> refill_measure s <= fuel -> refill fuel b s <> None.
Proof.
  intros b fuel; induction fuel as [|f IH]; intros s Hb Hm.
  - unfold refill_measure in Hm. destruct (need_refill s); [destruct (r_rest (s_rd s))|]; lia.
  - cbn [refill]. destruct (need_refill s) eqn:Hneed; [|discriminate].
    destruct (refill_step b s) as [s' out] eqn:Hst. destruct out; try discriminate.
    apply IH; [exact Hb|].
    apply refill_step_continue in Hst; auto. destruct Hst as [Hne Hcases].
    unfold refill_measure in Hm. rewrite Hneed in Hm.
    destruct (r_rest (s_rd s)) as [|x rest] eqn:Hrest; [congruence|].
    unfold refill_measure.
    destruct Hcases as [Hd|[H1 [H2 [H3|H3]]]].
    + destruct (need_refill s'); [destruct (r_rest (s_rd s'))|]; lia.
    + rewrite H2, H3. rewrite H1 in Hm. cbn [length] in *. destruct (need_refill s'); lia.
    + rewrite H3. rewrite H1 in Hm. cbn [length] in *. lia.
Qed.

Lemma refill_total : forall b fuel s,
    4 <= b -> length (r_sched (s_rd s)) + 2 <= fuel -> refill fuel b s <> None.
Proof.
  intros b fuel s Hb Hf. apply refill_total_measure; [exact Hb|].
  unfold refill_measure. destruct (need_refill s); [destruct (r_rest (s_rd s))|]; lia.
Qed.

(* totality of next() for ANY reader (even a failing one) and any scanner state *)
Lemma next_total_gen : forall b fuel s,
    4 <= b -> length (r_sched (s_rd s)) + 2 <= fuel -> next fuel b s <> None.
Proof.
  intros b fuel s Hb Hf. rewrite next_unfold.
  destruct (byte_at s <? 128)%Z; [discriminate|].
  pose proof (refill_total b fuel s Hb Hf) as Ht.
  destruct (refill fuel b s) as [[s1 [|]]|]; [discriminate|discriminate|congruence].
Qed.

(* ------------------------------------------------------------------------------------------------ *)
(* the simulation relation                                                                           *)
(* ------------------------------------------------------------------------------------------------ *)
(* token-text bookkeeping: the bytes collected so far (tokBuf + the buffer from tokPos up to the read
   position) are exactly the source bytes from the token start up to the cursor index *)
Definition tok_rel (s : scanner) (c : cursor) : Prop :=
  match s_tokPos s, c_tok c with
  | None, None => True
  | Some tp, Some t =>
      tp <= s_pos s /\ t + c_lastCharLen c <= c_idx c /\
      s_tokBuf s ++ firstn (s_pos s - tp) (skipn tp (s_buf s)) = firstn (c_idx c - t) (skipn t (c_src c))
  | _, _ => False
  end.

(* the invariant that also holds in the middle of the refill loop (where srcPos = 0 < lastCharLen is possible) *)
Record winv (b : nat) (s : scanner) (c : cursor) : Prop := {
  wi_b : 4 <= b;
  wi_nofail : no_fail (s_rd s);
  wi_off : (0 <= s_off s)%Z;
  wi_idx : Z.of_nat (c_idx c) = (s_off s + Z.of_nat (s_pos s))%Z;
  wi_skip : skipn (c_idx c) (c_src c) = window s ++ r_rest (s_rd s);
  wi_idx_le : c_idx c <= length (c_src c);
  wi_pos_le : s_pos s <= length (s_buf s);
  wi_buf_le : length (s_buf s) <= b;
  wi_line : s_line s = c_line c;
  wi_col : s_col s = c_col c;
  wi_lll : s_lastLineLen s = c_lastLineLen c;
  wi_lcl : s_lastCharLen s = c_lastCharLen c;
  wi_err : s_err s = c_err c;
  wi_clcl : c_lastCharLen c <= c_idx c;
  wi_tok : tok_rel s c;
}.

(* the relation at the boundaries of next(): additionally the last character is still in the buffer *)
Record sim (b : nat) (s : scanner) (c : cursor) : Prop := {
  sim_w : winv b s c;
  sim_lcl : s_lastCharLen s <= s_pos s;
  sim_tp : forall tp, s_tokPos s = Some tp -> tp + s_lastCharLen s <= s_pos s;
  sim_last : firstn (s_lastCharLen s) (skipn (s_pos s - s_lastCharLen s) (s_buf s)) =
             firstn (s_lastCharLen s) (skipn (c_idx c - s_lastCharLen s) (c_src c));
}.

Lemma sim_init : forall bufLen r, 4 <= bufLen -> no_fail r -> sim bufLen (init r) (c_init (r_rest r)).
Proof.
  intros b r Hb Hnf. split; [split|..]; cbn; auto; try lia.
  - intros tp H; discriminate.
Qed.

Lemma sim_err : forall b s c, sim b s c -> s_err s = c_err c.
Proof. intros b s c [W _ _ _]. apply (wi_err _ _ _ W). Qed.

Lemma sim_token_stop : forall b s c, sim b s c -> sim b (token_stop s) (c_token_stop c).
Proof.
  intros b s c [W H1 H2 H3]. destruct W.
  split; [split|..]; cbn; auto.
  intros tp H; discriminate.
Qed.

Lemma sim_set_err : forall b s c, sim b s c -> sim b (set_err s) (c_set_err c).
Proof.
  intros b s c [W H1 H2 H3]. destruct W.
  split; [split|..]; cbn; auto.
Qed.

Lemma sim_token_start : forall b s c, sim b s c -> sim b (token_start s) (c_token_start c).
Proof.
  intros b s c [W H1 H2 H3]. destruct W.
  split; [split|..]; cbn; auto.
  - unfold tok_rel. cbn. rewrite <- wi_lcl0. repeat split; try lia.
    replace (s_pos s - (s_pos s - s_lastCharLen s)) with (s_lastCharLen s) by lia.
    replace (c_idx c - (c_idx c - s_lastCharLen s)) with (s_lastCharLen s) by lia.
    exact H3.
  - intros tp H; inversion H; subst. lia.
Qed.

Lemma sim_position : forall b s c, sim b s c -> token_position s = c_token_position c.
Proof.
  intros b s c [W H1 H2 H3]. destruct W.
  unfold token_position, c_token_position.
  rewrite wi_line0, wi_col0, wi_lll0, <- wi_lcl0.
  replace (s_off s + Z.of_nat (s_pos s - s_lastCharLen s))%Z with (Z.of_nat (c_idx c - s_lastCharLen s)) by lia.
  reflexivity.
Qed.

Lemma sim_text : forall b s c, sim b s c -> token_text s = c_token_text c.
Proof.
  intros b s c [W H1 H2 H3]. destruct W.
  unfold token_text, c_token_text. unfold tok_rel in wi_tok0.
  destruct (s_tokPos s) as [tp|] eqn:Htp; destruct (c_tok c) as [t|]; try contradiction; [|reflexivity].
  destruct wi_tok0 as [Ha [Hb He]]. specialize (H2 tp eq_refl).
  rewrite <- wi_lcl0 in *.
  replace (s_pos s - s_lastCharLen s - tp) with (s_pos s - tp - s_lastCharLen s) by lia.
  replace (c_idx c - s_lastCharLen s - t) with (c_idx c - t - s_lastCharLen s) by lia.
  apply firstn_trim; auto.
  - rewrite skipn_length. lia.
  - rewrite skipn_length. lia.
  - lia.
Qed.

(* ------------------------------------------------------------------------------------------------ *)
(* consuming one character of width w from the buffer                                                *)
(* ------------------------------------------------------------------------------------------------ *)
Lemma step_sim : forall b s c w s' c',
    winv b s c -> 1 <= w -> w <= length (window s) ->
    s_buf s' = s_buf s -> s_pos s' = s_pos s + w -> s_off s' = s_off s -> s_lastCharLen s' = w ->
    s_tokBuf s' = s_tokBuf s -> s_tokPos s' = s_tokPos s -> s_rd s' = s_rd s ->
    c_src c' = c_src c -> c_idx c' = c_idx c + w -> c_lastCharLen c' = w -> c_tok c' = c_tok c ->
    s_line s' = c_line c' -> s_col s' = c_col c' -> s_lastLineLen s' = c_lastLineLen c' -> s_err s' = c_err c' ->
    sim b s' c'.
Proof.
  intros b s c w s' c' W Hw1 Hw2 Ebuf Epos Eoff Elcl Etb Etp Erd Esrc Eidx Eclcl Etok Eline Ecol Elll Eerr.
  destruct W. unfold window in *.
  assert (Hwl : s_pos s + w <= length (s_buf s)) by (rewrite skipn_length in Hw2; lia).
  assert (Hlast : firstn w (skipn (s_pos s) (s_buf s)) = firstn w (skipn (c_idx c) (c_src c))).
  { rewrite wi_skip0. symmetry. apply firstn_app_le. exact Hw2. }
  assert (Hil : c_idx c + w <= length (c_src c)).
  { apply (f_equal (@length Z)) in wi_skip0. rewrite app_length, !skipn_length in wi_skip0. lia. }
  split; [split|..].
  - exact wi_b0.
  - rewrite Erd. exact wi_nofail0.
  - rewrite Eoff. exact wi_off0.
  - rewrite Eidx, Eoff, Epos. lia.
  - unfold window. rewrite Esrc, Eidx, Ebuf, Epos, Erd.
    rewrite <- (skipn_skipn' w (c_idx c)), wi_skip0, skipn_app, skipn_skipn'.
    replace (w - length (skipn (s_pos s) (s_buf s))) with 0 by lia. reflexivity.
  - rewrite Esrc, Eidx. exact Hil.
  - rewrite Ebuf, Epos. exact Hwl.
  - rewrite Ebuf. exact wi_buf_le0.
  - exact Eline.
  - exact Ecol.
  - exact Elll.
  - rewrite Elcl, Eclcl. reflexivity.
  - exact Eerr.
  - rewrite Eclcl, Eidx. lia.
  - unfold tok_rel in *. rewrite Etp, Etok, Epos, Eidx, Eclcl, Etb, Ebuf, Esrc.
    destruct (s_tokPos s) as [tp|]; destruct (c_tok c) as [t|]; try contradiction; [|exact I].
    destruct wi_tok0 as [Ha [Hb He]]. repeat split; try lia.
    replace (s_pos s + w - tp) with ((s_pos s - tp) + w) by lia.
    replace (c_idx c + w - t) with ((c_idx c - t) + w) by lia.
    rewrite !firstn_plus, !skipn_skipn'.
    replace (tp + (s_pos s - tp)) with (s_pos s) by lia.
    replace (t + (c_idx c - t)) with (c_idx c) by lia.
    rewrite app_assoc, He, Hlast. reflexivity.
  - rewrite Elcl, Epos. lia.
  - intros tp Htp. rewrite Elcl, Epos. rewrite Etp in Htp.
    unfold tok_rel in wi_tok0. rewrite Htp in wi_tok0.
    destruct (c_tok c) as [t|]; [|contradiction]. lia.
  - rewrite Elcl, Epos, Eidx, Ebuf, Esrc.
    replace (s_pos s + w - w) with (s_pos s) by lia.
    replace (c_idx c + w - w) with (c_idx c) by lia. exact Hlast.
Qed.

Local Ltac fields :=
  cbn [s_buf s_pos s_off s_line s_col s_lastLineLen s_lastCharLen s_tokBuf s_tokPos s_tokEnd s_err s_rd
       c_src c_idx c_line c_col c_lastLineLen c_lastCharLen c_tok c_err
       advance set_err c_set_err bad_step].

Lemma byte_at_window : forall s x xs, window s = x :: xs -> byte_at s = x.
Proof. intros s x xs H. unfold byte_at. eapply nth_skipn_hd. exact H. Qed.

Lemma byte_at_ascii : forall s, (byte_at s <? 128)%Z = true -> exists xs, window s = byte_at s :: xs.
Proof.
  intros s H. unfold byte_at, window in *.
  destruct (Nat.lt_ge_cases (s_pos s) (length (s_buf s))) as [Hlt|Hge].
  - apply nth_in_skipn. exact Hlt.
  - rewrite nth_overflow in H by lia. discriminate.
Qed.

(* the ASCII path of next() *)
Lemma ascii_sim : forall b s c x xs,
    winv b s c -> window s = x :: xs -> (x <? 128)%Z = true ->
    exists c', c_next c = (c', x) /\ sim b (ascii_step s x) c'.
Proof.
  intros b s c x xs W Hw Hx.
  assert (H128 : (128 <=? x)%Z = false) by (apply Z.ltb_lt in Hx; apply Z.leb_gt; exact Hx).
  unfold c_next. rewrite (wi_skip _ _ _ W), Hw. cbn [app]. rewrite Hx. cbn zeta beta iota.
  rewrite H128. cbn [andb orb negb].
  eexists; split; [reflexivity|].
  unfold ascii_step.
  destruct (x =? 0)%Z;
    (apply step_sim with (s := s) (c := c) (w := 1); fields; try reflexivity; try exact W; try lia;
     [ rewrite Hw; cbn [length]; lia
     | rewrite ?andb_true_r, ?(wi_line _ _ _ W), ?(wi_col _ _ _ W), ?(wi_lll _ _ _ W), ?(wi_err _ _ _ W);
       reflexivity .. ]).
Qed.

(* the multi-byte / invalid-byte path of next(), after the refill loop *)
Lemma finish_sim : forall b s1 c s' ch,
    winv b s1 c -> window s1 <> [] ->
    decode_rune (window s1 ++ r_rest (s_rd s1)) = decode_rune (window s1) ->
    finish s1 = (s', ch) ->
    exists c', c_next c = (c', ch) /\ sim b s' c'.
Proof.
  intros b s1 c s' ch W Hne Happ.
  destruct (window s1) as [|x xs] eqn:Hw; [congruence|clear Hne].
  unfold finish. rewrite (byte_at_window _ _ _ Hw).
  destruct (x <? 128)%Z eqn:Hx.
  { intros H; inversion H; subst. eapply ascii_sim; eauto. }
  rewrite Hw.
  destruct (decode_rune (x :: xs)) as [ch0 w] eqn:Hd.
  assert (H128 : (128 <=? x)%Z = true) by (apply Z.ltb_ge in Hx; apply Z.leb_le; exact Hx).
  pose proof (decode_rune_width _ _ _ _ Hd) as [Hw1 Hw2].
  pose proof (decode_rune_ge128 _ _ _ _ Hx Hd) as Hch.
  assert (Hch0 : (ch0 =? 0)%Z = false) by (apply Z.eqb_neq; lia).
  assert (Hch10 : (ch0 =? 10)%Z = false) by (apply Z.eqb_neq; lia).
  assert (Hwl : w <= length (window s1)) by (rewrite Hw; cbn [length]; lia).
  unfold c_next. rewrite (wi_skip _ _ _ W), Hw.
  change ((x :: xs) ++ r_rest (s_rd s1)) with (x :: xs ++ r_rest (s_rd s1)) in *.
  cbn beta iota. rewrite Hx, Happ. cbn zeta beta iota.
  rewrite H128, Hch0, Hch10. cbn [andb orb negb].
  destruct ((ch0 =? rune_error)%Z && Nat.eqb w 1) eqn:Hinv; cbn [andb orb negb];
    intros H; inversion H; subst; eexists; (split; [reflexivity|]).
  - apply andb_prop in Hinv. destruct Hinv as [_ Hinv]. apply Nat.eqb_eq in Hinv. subst w.
    apply step_sim with (s := s1) (c := c) (w := 1); fields; try reflexivity; try exact W; try lia;
      rewrite ?(wi_line _ _ _ W), ?(wi_col _ _ _ W), ?(wi_lll _ _ _ W), ?(wi_err _ _ _ W); reflexivity.
  - apply step_sim with (s := s1) (c := c) (w := w); fields; try reflexivity; try exact W; try lia;
      rewrite ?Hch10, ?(wi_line _ _ _ W), ?(wi_col _ _ _ W), ?(wi_lll _ _ _ W), ?(wi_err _ _ _ W); reflexivity.
Qed.

(* ------------------------------------------------------------------------------------------------ *)
(* the refill loop                                                                                   *)
(* ------------------------------------------------------------------------------------------------ *)
Lemma winv_rs1 : forall b s c data rd',
    winv b s c -> r_rest (s_rd s) = data ++ r_rest rd' -> length data <= b - length (window s) -> no_fail rd' ->
    winv b (rs1 s data rd') c.
Proof.
  intros b s c data rd' W Hrest Hlen Hnf. destruct W.
  assert (Hwl : length (window s) <= b) by (unfold window; rewrite skipn_length; lia).
  split; cbn [rs1 s_buf s_pos s_off s_line s_col s_lastLineLen s_lastCharLen s_err s_rd]; auto; try lia.
  - unfold window at 1. cbn [rs1 s_buf s_pos skipn]. rewrite wi_skip0, Hrest. apply app_assoc.
  - rewrite app_length. lia.
  - unfold tok_rel in *. cbn [rs1 s_buf s_pos s_tokBuf s_tokPos].
    destruct (s_tokPos s) as [tp|]; destruct (c_tok c) as [t|]; try contradiction; [|exact I].
    destruct wi_tok0 as [Ha [Hb He]]. repeat split; try lia.
    cbn [Nat.sub firstn]. rewrite app_nil_r. exact He.
Qed.

Lemma eof_sim : forall b s1 c,
    winv b s1 c -> s_buf s1 = [] -> r_rest (s_rd s1) = [] ->
    exists c', c_next c = (c', rune_eof) /\ sim b (eof_state s1) c'.
Proof.
  intros b s1 c W Hbuf Hrest.
  assert (Hpos : s_pos s1 = 0) by (pose proof (wi_pos_le _ _ _ W) as Hp; rewrite Hbuf in Hp; cbn [length] in Hp; lia).
  pose proof (wi_skip _ _ _ W) as Hskip. unfold window in Hskip. rewrite Hbuf, Hrest, skipn_nil in Hskip. cbn [app] in Hskip.
  unfold c_next. rewrite Hskip. eexists; split; [reflexivity|].
  destruct W.
  split; [split|..];
    cbn [eof_state s_buf s_pos s_off s_line s_col s_lastLineLen s_lastCharLen s_tokBuf s_tokPos s_err s_rd
         c_src c_idx c_line c_col c_lastLineLen c_lastCharLen c_tok c_err length]; auto; try lia.
  - unfold window. cbn [eof_state s_buf s_pos s_rd skipn app]. rewrite Hrest. exact Hskip.
  - rewrite wi_lcl0, wi_col0. reflexivity.
  - unfold tok_rel in *.
    cbn [eof_state s_buf s_pos s_tokBuf s_tokPos c_src c_idx c_lastCharLen c_tok].
    destruct (s_tokPos s1) as [tp|]; destruct (c_tok c) as [t|]; try contradiction; [|exact I].
    destruct wi_tok0 as [Ha [Hb He]]. repeat split; try lia.
    rewrite Hpos in He. cbn [Nat.sub firstn] in *. exact He.
  - intros tp Htp. unfold tok_rel in wi_tok0. rewrite Htp in wi_tok0.
    destruct (c_tok c) as [t|]; [|contradiction]. lia.
Qed.

Lemma refill_step_sim : forall b s c s' out,
    winv b s c -> refill_step b s = (s', out) ->
    match out with
    | Continue => winv b s' c
    | Break => winv b s' c /\ r_rest (s_rd s') = [] /\ window s' <> []
    | ReturnEOF => exists c', c_next c = (c', rune_eof) /\ sim b s' c'
    end.
Proof.
  intros b s c s' out W.
  destruct (read (s_rd s) (b - length (window s))) as [[data err] rd'] eqn:Hrd.
  rewrite (refill_step_unfold _ _ _ _ _ Hrd).
  apply (read_no_fail _ _ _ _ _ (wi_nofail _ _ _ W)) in Hrd.
  destruct Hrd as [Hrest [Hlen [Hnf Herr]]].
  pose proof (winv_rs1 _ _ _ _ _ W Hrest Hlen Hnf) as W1.
  destruct Herr as [Herr|[Herr Hnil]]; subst err.
  - intros H; inversion H; subst. exact W1.
  - cbn zeta. destruct (window s ++ data) as [|y ys] eqn:Hbuf; intros H; inversion H; subst.
    + apply eof_sim; auto.
    + split; [exact W1|]. split; [exact Hnil|]. unfold window. cbn [rs1 s_buf s_pos skipn]. rewrite Hbuf. discriminate.
Qed.

Lemma no_need_refill_decode : forall s r,
    need_refill s = false -> window s <> [] /\ decode_rune (window s ++ r) = decode_rune (window s).
Proof.
  intros s r H. unfold need_refill in H. apply andb_false_iff in H. destruct H as [H|H].
  - apply Nat.ltb_ge in H.
    assert (Hl : 4 <= length (window s)) by (unfold window; rewrite skipn_length; lia).
    split; [|apply decode_rune_app_long; exact Hl].
    intros Hn. rewrite Hn in Hl. cbn [length] in Hl. lia.
  - apply negb_false_iff in H. split; [|apply decode_rune_app_full; exact H].
    intros Hn. rewrite Hn, full_rune_nil in H. discriminate.
Qed.

Lemma refill_sim : forall b c fuel s s1 eof,
    winv b s c -> refill fuel b s = Some (s1, eof) ->
    if eof then exists c', c_next c = (c', rune_eof) /\ sim b s1 c'
    else winv b s1 c /\ window s1 <> [] /\
         decode_rune (window s1 ++ r_rest (s_rd s1)) = decode_rune (window s1).
Proof.
  intros b c fuel; induction fuel as [|f IH]; intros s s1 eof W; cbn [refill]; [discriminate|].
  destruct (need_refill s) eqn:Hneed.
  - destruct (refill_step b s) as [s' out] eqn:Hst.
    pose proof (refill_step_sim _ _ _ _ _ W Hst) as Hs.
    destruct out.
    + intros H. eapply IH; eauto.
    + intros H; inversion H; subst. destruct Hs as [W' [Hnil Hne]].
      split; [exact W'|]. split; [exact Hne|]. rewrite Hnil, app_nil_r. reflexivity.
    + intros H; inversion H; subst. exact Hs.
  - intros H; inversion H; subst.
    destruct (no_need_refill_decode s1 (r_rest (s_rd s1)) Hneed) as [Hne Hd]. auto.
Qed.

(* ------------------------------------------------------------------------------------------------ *)
(* next() is in lock step with c_next                                                                *)
(* ------------------------------------------------------------------------------------------------ *)
Lemma sim_next : forall bufLen fuel s c s' ch,
    sim bufLen s c -> next fuel bufLen s = Some (s', ch) ->
    exists c', c_next c = (c', ch) /\ sim bufLen s' c'.
Proof.
  intros b fuel s c s' ch [W _ _ _]. rewrite next_unfold.
  destruct (byte_at s <? 128)%Z eqn:Hb.
  - destruct (byte_at_ascii _ Hb) as [xs Hw].
    intros H; inversion H; subst. eapply ascii_sim; eauto.
  - destruct (refill fuel b s) as [[s1 eof]|] eqn:Hrf; [|discriminate].
    pose proof (refill_sim _ _ _ _ _ _ W Hrf) as Hs.
    destruct eof.
    + intros H; inversion H; subst. exact Hs.
    + destruct Hs as [W1 [Hne Hd]]. destruct (finish s1) as [sf chf] eqn:Hfin.
      intros H; inversion H; subst. eapply finish_sim; eauto.
Qed.

Lemma next_total : forall bufLen fuel s c,
    sim bufLen s c -> length (r_sched (s_rd s)) + 2 <= fuel -> next fuel bufLen s <> None.
Proof.
  intros b fuel s c [W _ _ _] Hf. apply next_total_gen; [exact (wi_b _ _ _ W)|exact Hf].
Qed.

(* ------------------------------------------------------------------------------------------------ *)
(* the original form of next_fail_sets_err (without need_refill) does not hold: a complete multi-byte *)
(* character already in the buffer is consumed without consulting the (failing) reader               *)
(* ------------------------------------------------------------------------------------------------ *)
Definition cex_scanner : scanner :=
  {| s_buf := [195; 169]%Z; s_pos := 0; s_off := 0%Z; s_line := 1%Z; s_col := 0%Z; s_lastLineLen := 0%Z; s_lastCharLen := 0;
     s_tokBuf := []; s_tokPos := None; s_tokEnd := 0; s_err := false;
     s_rd := {| r_rest := []; r_sched := [(1, true)]; r_eof_with_data := false; r_fail_mode := FSticky |} |}.

Lemma next_fail_sets_err_original_false :
  exists fuel b s s' ch,
    4 <= b /\ next fuel b s = Some (s', ch) /\
    (exists n sched', r_sched (s_rd s) = (n, true) :: sched') /\ (byte_at s >= 128)%Z /\ s_err s' = false.
Proof.
  exists 3, 4, cex_scanner.
  eexists; eexists. split; [lia|]. split; [vm_compute; reflexivity|].
  split; [exists 1, []; reflexivity|]. split; [vm_compute; discriminate|reflexivity].
Qed.

Print Assumptions sim_init.
Print Assumptions sim_next.
Print Assumptions sim_token_start.
Print Assumptions sim_token_stop.
Print Assumptions sim_set_err.
Print Assumptions sim_position.
Print Assumptions sim_text.
Print Assumptions sim_err.
Print Assumptions next_total.
Print Assumptions next_total_gen.
Print Assumptions next_sched_le.
Print Assumptions next_err_mono.
Print Assumptions next_fail_sets_err.
Print Assumptions next_fail_sets_err_need.
Print Assumptions need_refill_not_ascii.
Print Assumptions next_fail_sets_err_original_false.
