(* C20 over HISTORIES: a policy set refines a plain id -> policy map along every sequence of operations,
   and the document loader numbers the policies policy0, policy1, .. in document order.

   Model: Impl/PolicySet.v (pset, step, run).  Per-step lemmas: Proofs/PolicySetProofs.v.

   Remark on the shape of the specification.  The abstract state is a total function  fmap = str -> option handle.
   The operation OCedarRoundTrip renumbers the id-sorted enumeration of the map; that enumeration cannot be COMPUTED
   from a Coq function str -> option handle, so "the map after the operation" is given as a RELATION
       spec_next f o f'
   which is (proved below) functional up to pointwise equality, invariant under pointwise equality of both maps,
   and total on every map that has an enumeration.  No functional extensionality is used anywhere. *)
From Coq Require Import ZArith List Bool Permutation Sorted Lia String Arith FinFun.
Import ListNotations.
From Cedar Require Import Lang.Value Impl.Authorize Impl.PolicySet Proofs.AuthorizeProofs Proofs.PolicySetProofs.
Local Open Scope Z_scope.

(* ------------------------------------------------------------------------------------------------ *)
(* 0. pointwise equality of maps                                                                    *)
(* ------------------------------------------------------------------------------------------------ *)
Definition feq (f g : fmap) : Prop := forall x, f x = g x.

Lemma feq_refl f : feq f f.
Proof. intros x; reflexivity. Qed.
Lemma feq_sym f g : feq f g -> feq g f.
Proof. intros H x; symmetry; apply H. Qed.
Lemma feq_trans f g h : feq f g -> feq g h -> feq f h.
Proof. intros H1 H2 x; rewrite H1; apply H2. Qed.

Lemma f_set_ext f g k h : feq f g -> feq (f_set f k h) (f_set g k h).
Proof. intros H x. unfold f_set. destruct (str_eqb k x); auto. Qed.
Lemma f_del_ext f g k : feq f g -> feq (f_del f k) (f_del g k).
Proof. intros H x. unfold f_del. destruct (str_eqb k x); auto. Qed.

(* ------------------------------------------------------------------------------------------------ *)
(* 1. the strictly id-sorted enumeration of a map                                                   *)
(* ------------------------------------------------------------------------------------------------ *)
Definition id_lt (a b : str * handle) : Prop := str_ltb (fst a) (fst b) = true.

Definition bindings_of (f : fmap) (l : list (str * handle)) : Prop :=
  StronglySorted id_lt l /\ forall k h, In (k, h) l <-> f k = Some h.

Lemma id_lt_irrefl a : ~ id_lt a a.
Proof. unfold id_lt. rewrite str_ltb_irrefl. discriminate. Qed.

Lemma id_lt_asym a b : id_lt a b -> id_lt b a -> False.
Proof. unfold id_lt. intros H1 H2. apply str_ltb_asym in H1. congruence. Qed.

Lemma id_lt_trans a b c : id_lt a b -> id_lt b c -> id_lt a c.
Proof. unfold id_lt. apply str_ltb_trans. Qed.

Lemma ssorted_unique l1 : forall l2,
  StronglySorted id_lt l1 -> StronglySorted id_lt l2 -> (forall x, In x l1 <-> In x l2) -> l1 = l2.
Proof.
  induction l1 as [|a l1 IH]; intros l2 H1 H2 HI.
  - destruct l2 as [|b l2]; auto. exfalso. apply (proj2 (HI b)). left; auto.
  - destruct l2 as [|b l2].
    { exfalso. apply (proj1 (HI a)). left; auto. }
    inversion H1 as [|a' l1' HS1 HF1]; subst. inversion H2 as [|b' l2' HS2 HF2]; subst.
    rewrite Forall_forall in HF1, HF2.
    assert (Hab : a = b).
    { destruct (proj1 (HI a) (or_introl eq_refl)) as [E|E]; auto.
      destruct (proj2 (HI b) (or_introl eq_refl)) as [E'|E']; auto.
      exfalso. apply (id_lt_asym a b); auto. }
    subst b. f_equal. apply IH; auto. intros x; split; intros Hx.
    + destruct (proj1 (HI x) (or_intror Hx)) as [E|E]; auto.
      subst x. exfalso. apply (id_lt_irrefl a); auto.
    + destruct (proj2 (HI x) (or_intror Hx)) as [E|E]; auto.
      subst x. exfalso. apply (id_lt_irrefl a); auto.
Qed.

Lemma bindings_of_ext f g l : feq f g -> bindings_of f l -> bindings_of g l.
Proof. intros H [HS HI]. split; auto. intros k h. rewrite HI, H. tauto. Qed.

(* the enumeration is unique (also across pointwise-equal maps) *)
Theorem bindings_unique f l1 l2 : bindings_of f l1 -> bindings_of f l2 -> l1 = l2.
Proof.
  intros [HS1 HI1] [HS2 HI2]. apply ssorted_unique; auto.
  intros [k h]. rewrite HI1, HI2. tauto.
Qed.

Corollary bindings_unique_ext f g l1 l2 : feq f g -> bindings_of f l1 -> bindings_of g l2 -> l1 = l2.
Proof. intros H H1 H2. eapply bindings_unique; [eapply bindings_of_ext; eauto | auto]. Qed.

Lemma ssorted_keys_nodup l : StronglySorted id_lt l -> NoDup (map fst l).
Proof.
  induction 1 as [|a l HS IH HF]; cbn; constructor; auto.
  intros Hin. apply in_map_iff in Hin. destruct Hin as (x & Hx & Hin).
  rewrite Forall_forall in HF. specialize (HF x Hin). unfold id_lt in HF.
  rewrite Hx, str_ltb_irrefl in HF. discriminate.
Qed.

(* the enumeration is sorted for the non-strict order used by PolicySetProofs too *)
Lemma ssorted_id_le l : StronglySorted id_lt l -> Sorted id_le l.
Proof.
  intros H. apply StronglySorted_Sorted in H. induction H as [|a l HS IH HH]; constructor; auto.
  destruct HH as [|b l Hab]; constructor. unfold id_le. apply str_ltb_asym. exact Hab.
Qed.

(* --- sort_by_id of a set with unique ids IS that enumeration --- *)
Lemma ins_sorted_ssorted kv l :
  StronglySorted id_lt l -> ~ In (fst kv) (map fst l) -> StronglySorted id_lt (ins_sorted kv l).
Proof.
  induction l as [|x l IH]; cbn [ins_sorted]; intros HS Hn.
  - constructor; constructor.
  - inversion HS as [|x' l' HS' HF]; subst.
    destruct (str_ltb (fst x) (fst kv)) eqn:E.
    + constructor.
      * apply IH; auto. intros Hin. apply Hn. right. exact Hin.
      * rewrite Forall_forall in *. intros y Hy.
        apply (Permutation_in _ (ins_sorted_perm kv l)) in Hy. destruct Hy as [Hy|Hy]; [subst y; exact E | auto].
    + assert (Hlt : id_lt kv x).
      { unfold id_lt. destruct (str_ltb (fst kv) (fst x)) eqn:E2; auto.
        exfalso. apply Hn. left. apply str_ltb_total; auto. }
      constructor; auto. constructor; auto.
      rewrite Forall_forall in *. intros y Hy. eapply id_lt_trans; eauto.
Qed.

Lemma sort_by_id_ssorted s : uniq s -> StronglySorted id_lt (sort_by_id s).
Proof.
  unfold uniq. induction s as [|x s IH]; cbn; intros HU; [constructor|].
  inversion HU as [|a l Hn HU']; subst. apply ins_sorted_ssorted; auto.
  intros Hin. apply Hn. eapply Permutation_in; [apply Permutation_map, sort_by_id_perm | exact Hin].
Qed.

Theorem sort_bindings s : uniq s -> bindings_of (abs s) (sort_by_id s).
Proof.
  intros HU. split; [apply sort_by_id_ssorted; auto|].
  intros k h. unfold abs. rewrite ps_get_in by auto. split; intros H.
  - eapply Permutation_in; [apply sort_by_id_perm | exact H].
  - eapply Permutation_in; [apply Permutation_sym, sort_by_id_perm | exact H].
Qed.

(* any enumeration (in any order) of a map *)
Definition enum_of (f : fmap) (l : list (str * handle)) : Prop :=
  NoDup (map fst l) /\ forall k h, In (k, h) l <-> f k = Some h.

Lemma enum_of_ext f g l : feq f g -> enum_of f l -> enum_of g l.
Proof. intros H [HN HI]. split; auto. intros k h. rewrite HI, H. tauto. Qed.

Lemma bindings_enum f l : bindings_of f l -> enum_of f l.
Proof. intros [HS HI]. split; auto. apply ssorted_keys_nodup; auto. Qed.

Lemma uniq_enum s : uniq s -> enum_of (abs s) s.
Proof. intros HU. split; [exact HU|]. intros k h. unfold abs. rewrite ps_get_in by auto. tauto. Qed.

Lemma enum_perm f l1 l2 : enum_of f l1 -> enum_of f l2 -> Permutation l1 l2.
Proof.
  intros [HN1 HI1] [HN2 HI2]. apply NoDup_Permutation.
  - eapply NoDup_map_inv; eauto.
  - eapply NoDup_map_inv; eauto.
  - intros [k h]. rewrite HI1, HI2. tauto.
Qed.

(* ------------------------------------------------------------------------------------------------ *)
(* 3a. policy<i>: the decimal numeral                                                               *)
(* ------------------------------------------------------------------------------------------------ *)
Lemma digits_nat_spec : forall fuel n acc, (n < fuel)%nat ->
  exists ds, digits_nat fuel n acc = ds ++ acc /\ ds <> [] /\ Forall (fun c => 48 <= c <= 57) ds /\
             (n = 0%nat -> ds = [48]) /\ (n <> 0%nat -> hd 0 ds <> 48) /\
             Z.of_nat n = fold_left (fun a c => a * 10 + (c - 48)) ds 0.
Proof.
  induction fuel as [|f IH]; intros n acc Hn; [lia|].
  cbn [digits_nat].
  pose proof (Nat.div_mod n 10 ltac:(lia)) as Hdm.
  pose proof (Nat.mod_upper_bound n 10 ltac:(lia)) as Hm.
  destruct (Nat.ltb n 10) eqn:E.
  - apply Nat.ltb_lt in E. rewrite Nat.mod_small by auto. exists [48 + Z.of_nat n].
    split; [reflexivity|]. split; [discriminate|].
    split; [constructor; [lia|constructor]|].
    split; [intros ->; reflexivity|].
    split; [cbn [hd]; lia|]. cbn [fold_left]. lia.
  - apply Nat.ltb_ge in E.
    remember (48 + Z.of_nat (n mod 10)) as d eqn:Hd.
    assert (Hq : (n / 10 < f)%nat).
    { assert (n / 10 < n)%nat by (apply Nat.div_lt; lia). lia. }
    assert (Hq0 : (n / 10)%nat <> 0%nat).
    { intros H0. apply Nat.div_small_iff in H0; lia. }
    destruct (IH (n / 10)%nat (d :: acc) Hq) as (ds & H1 & H2 & H3 & H4 & H5 & H6).
    exists (ds ++ [d]). rewrite H1, <- app_assoc.
    split; [reflexivity|].
    split; [destruct ds; discriminate|].
    split; [apply Forall_app; split; auto; constructor; [lia|constructor]|].
    split; [intros Hn0; lia|].
    split.
    + intros _. destruct ds as [|c ds]; [congruence|]. cbn [app hd]. cbn [hd] in H5. apply H5. exact Hq0.
    + rewrite fold_left_app. cbn [fold_left]. rewrite <- H6. lia.
Qed.

Theorem policy_id_digits : forall i, exists ds,
  policy_id i = s_of "policy"%string ++ ds /\ ds <> [] /\ Forall (fun c => 48 <= c <= 57) ds /\
  (ds = [48] \/ hd 0 ds <> 48) /\
  Z.of_nat i = fold_left (fun acc c => acc * 10 + (c - 48)) ds 0.
Proof.
  intros i. destruct (digits_nat_spec (S i) i [] ltac:(lia)) as (ds & H1 & H2 & H3 & H4 & H5 & H6).
  rewrite app_nil_r in H1. exists ds. unfold policy_id. rewrite H1.
  split; [reflexivity|]. split; auto. split; auto. split; auto.
  destruct (Nat.eq_dec i 0) as [E|E]; [left|right]; auto.
Qed.

Theorem policy_id_inj : forall i j, policy_id i = policy_id j -> i = j.
Proof.
  intros i j H.
  destruct (policy_id_digits i) as (di & Hi & _ & _ & _ & Vi).
  destruct (policy_id_digits j) as (dj & Hj & _ & _ & _ & Vj).
  rewrite Hi, Hj in H. apply app_inv_head in H. subst dj. lia.
Qed.

(* ------------------------------------------------------------------------------------------------ *)
(* 3b. the loader                                                                                   *)
(* ------------------------------------------------------------------------------------------------ *)
Lemma number_from_uniq k hs : uniq (number_from k hs).
Proof.
  unfold uniq. rewrite number_from_fst. apply Injective_map_NoDup; [|apply seq_NoDup].
  intros a b. apply policy_id_inj.
Qed.

Lemma number_from_get_ge hs : forall k i, (k <= i)%nat ->
  ps_get (number_from k hs) (policy_id i) = nth_error hs (i - k).
Proof.
  induction hs as [|h hs IH]; intros k i Hk; cbn [number_from ps_get].
  - destruct (i - k)%nat; reflexivity.
  - destruct (str_eqb (policy_id k) (policy_id i)) eqn:E.
    + apply str_eqb_eq, policy_id_inj in E. subst i. rewrite Nat.sub_diag. reflexivity.
    + assert (Hne : k <> i) by (intros ->; rewrite str_eqb_refl in E; discriminate).
      rewrite IH by lia. replace (i - k)%nat with (S (i - S k)) by lia. reflexivity.
Qed.

Lemma number_from_get_inv hs : forall k x h, ps_get (number_from k hs) x = Some h ->
  exists i, x = policy_id (k + i) /\ nth_error hs i = Some h.
Proof.
  induction hs as [|h0 hs IH]; intros k x h; cbn [number_from ps_get]; [discriminate|].
  destruct (str_eqb (policy_id k) x) eqn:E.
  - intros H. inversion H; subst h0. apply str_eqb_eq in E. exists 0%nat.
    rewrite Nat.add_0_r. split; auto.
  - intros H. destruct (IH (S k) x h H) as (i & Hx & Hi). exists (S i).
    replace (k + S i)%nat with (S k + i)%nat by lia. split; auto.
Qed.

(* document order: the i-th policy of the document gets the id policy<i>; no other ids *)
Theorem loader_ids : forall hs,
  uniq (number_from 0 hs) /\
  (forall i, ps_get (number_from 0 hs) (policy_id i) = nth_error hs i) /\
  (forall k h, ps_get (number_from 0 hs) k = Some h -> exists i, k = policy_id i /\ nth_error hs i = Some h).
Proof.
  intros hs. split; [apply number_from_uniq|]. split.
  - intros i. rewrite number_from_get_ge by lia. rewrite Nat.sub_0_r. reflexivity.
  - intros k h H. apply number_from_get_inv in H. exact H.
Qed.

(* the map "policy<i> |-> i-th element of hs", as a predicate on maps (it does not mention number_from) *)
Definition doc_map (hs : list handle) (f' : fmap) : Prop :=
  forall x h, f' x = Some h <-> exists i, x = policy_id i /\ nth_error hs i = Some h.

Lemma doc_map_ext hs f g : feq f g -> doc_map hs f -> doc_map hs g.
Proof. intros H HD x h. rewrite <- H. apply HD. Qed.

Lemma doc_map_functional hs f g : doc_map hs f -> doc_map hs g -> feq f g.
Proof.
  intros Hf Hg x. destruct (f x) as [h|] eqn:E.
  - symmetry. apply Hg. apply Hf. exact E.
  - destruct (g x) as [h|] eqn:E2; auto. apply Hg, Hf in E2. congruence.
Qed.

(* characterisation of the loader's result (item 3 of the task) *)
Theorem number_from_doc_map hs : doc_map hs (abs (number_from 0 hs)).
Proof.
  destruct (loader_ids hs) as (_ & H1 & H2). intros x h. unfold abs. split.
  - apply H2.
  - intros (i & -> & Hi). rewrite H1. exact Hi.
Qed.

(* ------------------------------------------------------------------------------------------------ *)
(* 1. the specification of one step on the abstract map                                             *)
(* ------------------------------------------------------------------------------------------------ *)
Definition load_map (bs : list (str * handle)) : fmap :=
  fold_left (fun g kv => f_set g (fst kv) (snd kv)) bs f_empty.

(* spec_next f o f' : f' is the map after operation o on the map f *)
Definition spec_next (f : fmap) (o : op) (f' : fmap) : Prop :=
  match o with
  | OAdd k h => feq f' (f_set f k h)
  | ORemove k => feq f' (f_del f k)
  | OFromDoc hs => doc_map hs f'
  | OLoadJson bs => feq f' (load_map bs)
  | OCedarRoundTrip => exists l, bindings_of f l /\ doc_map (map snd l) f'
  | OGet _ | OAll | OMapMutate _ _ | OMarshalCedar | OJsonRoundTrip | OAuthorize => feq f' f
  end.

Lemma spec_next_ext f g f' g' o : feq f g -> feq f' g' -> spec_next f o f' -> spec_next g o g'.
Proof.
  intros H H'. destruct o; cbn [spec_next]; intros HS;
    try (eapply feq_trans; [apply feq_sym, H' | eapply feq_trans; [exact HS | exact H]]).
  - eapply feq_trans; [apply feq_sym, H'|]. eapply feq_trans; [exact HS | apply f_set_ext, H].
  - eapply feq_trans; [apply feq_sym, H'|]. eapply feq_trans; [exact HS | apply f_del_ext, H].
  - destruct HS as (l & Hl & Hd). exists l. split; [eapply bindings_of_ext; eauto | eapply doc_map_ext; eauto].
  - eapply doc_map_ext; eauto.
  - eapply feq_trans; [apply feq_sym, H' | exact HS].
Qed.

(* the next map is determined (pointwise) *)
Lemma spec_next_functional f o f1 f2 : spec_next f o f1 -> spec_next f o f2 -> feq f1 f2.
Proof.
  destruct o; cbn [spec_next]; intros H1 H2;
    try (eapply feq_trans; [exact H1 | apply feq_sym, H2]).
  - destruct H1 as (l1 & Hl1 & Hd1). destruct H2 as (l2 & Hl2 & Hd2).
    rewrite (bindings_unique _ _ _ Hl1 Hl2) in Hd1. eapply doc_map_functional; eauto.
  - eapply doc_map_functional; eauto.
Qed.

(* .. and exists whenever the map has an enumeration: given the enumeration the next map is computable *)
Definition spec_next_fn (l : list (str * handle)) (f : fmap) (o : op) : fmap :=
  match o with
  | OAdd k h => f_set f k h
  | ORemove k => f_del f k
  | OFromDoc hs => abs (number_from 0 hs)
  | OLoadJson bs => load_map bs
  | OCedarRoundTrip => abs (number_from 0 (map snd l))
  | _ => f
  end.

Lemma spec_next_total f l o : bindings_of f l -> spec_next f o (spec_next_fn l f o).
Proof.
  intros Hl. destruct o; cbn [spec_next spec_next_fn]; try apply feq_refl.
  - exists l. split; auto. apply number_from_doc_map.
  - apply number_from_doc_map.
Qed.

Section Spec.
  Variable eff : handle -> effect.
  Variable ev : handle -> outcome.

  (* decisions are compared with the id lists read as sets (see the comment at [out]) *)
  Definition decision_sim (r1 r2 : out) : Prop :=
    match r1, r2 with
    | RDecision d1 a1 e1, RDecision d2 a2 e2 => d1 = d2 /\ Permutation a1 a2 /\ Permutation e1 e2
    | _, _ => False
    end.

  (* spec_out f o r : r is the answer the map model predicts for operation o on the map f *)
  Definition spec_out (f : fmap) (o : op) (r : out) : Prop :=
    match o with
    | OAdd k h => r = RBool (match f k with None => true | Some _ => false end)
    | ORemove k => r = RBool (match f k with None => false | Some _ => true end)
    | OGet k => r = RGet (f k)
    | OAll | OMapMutate _ _ | OJsonRoundTrip => exists l, bindings_of f l /\ r = RBindings l
    | OMarshalCedar => exists l, bindings_of f l /\ r = RList (map snd l)
    | OCedarRoundTrip | OFromDoc _ | OLoadJson _ =>
        exists f' l, spec_next f o f' /\ bindings_of f' l /\ r = RBindings l
    | OAuthorize =>
        (exists l, enum_of f l) /\ forall l, enum_of f l -> decision_sim r (authz eff ev l)
    end.

  Lemma spec_out_ext f g o r : feq f g -> spec_out f o r -> spec_out g o r.
  Proof.
    intros H. destruct o; cbn [spec_out].
    - rewrite (H k). auto.
    - rewrite (H k). auto.
    - rewrite (H k). auto.
    - intros (l & Hl & Hr). exists l. split; auto. eapply bindings_of_ext; eauto.
    - intros (l & Hl & Hr). exists l. split; auto. eapply bindings_of_ext; eauto.
    - intros (l & Hl & Hr). exists l. split; auto. eapply bindings_of_ext; eauto.
    - intros (l & Hl & Hr). exists l. split; auto. eapply bindings_of_ext; eauto.
    - intros (f' & l & Hn & Hl & Hr). exists f', l. split; auto.
      eapply (spec_next_ext f g f' f' OCedarRoundTrip); eauto. apply feq_refl.
    - intros (f' & l & Hn & Hl & Hr). exists f', l. split; [exact Hn | split; assumption].
    - intros (f' & l & Hn & Hl & Hr). exists f', l. split; [exact Hn | split; assumption].
    - intros [(l & Hl) HA]. split.
      + exists l. eapply enum_of_ext; eauto.
      + intros l' Hl'. apply HA. eapply enum_of_ext; [apply feq_sym, H | exact Hl'].
  Qed.

  Lemma decision_sim_trans_r r a b : decision_sim r a -> decision_sim r b -> decision_sim a b.
  Proof.
    destruct r, a, b; cbn; try tauto. intros (-> & P1 & P2) (-> & P3 & P4).
    split; auto. split; (eapply perm_trans; [apply Permutation_sym|]; eauto).
  Qed.

  (* the prediction is unique: equal outputs, decisions up to the order of the id lists *)
  Theorem spec_out_functional f o r1 r2 : spec_out f o r1 -> spec_out f o r2 ->
    r1 = r2 \/ (o = OAuthorize /\ exists r, decision_sim r1 r /\ decision_sim r2 r).
  Proof.
    destruct o; cbn [spec_out].
    - intros -> ->; auto.
    - intros -> ->; auto.
    - intros -> ->; auto.
    - intros (l1 & H1 & ->) (l2 & H2 & ->). rewrite (bindings_unique _ _ _ H1 H2). auto.
    - intros (l1 & H1 & ->) (l2 & H2 & ->). rewrite (bindings_unique _ _ _ H1 H2). auto.
    - intros (l1 & H1 & ->) (l2 & H2 & ->). rewrite (bindings_unique _ _ _ H1 H2). auto.
    - intros (l1 & H1 & ->) (l2 & H2 & ->). rewrite (bindings_unique _ _ _ H1 H2). auto.
    - intros (f1 & l1 & N1 & H1 & ->) (f2 & l2 & N2 & H2 & ->). left. f_equal.
      apply (bindings_unique_ext f1 f2 l1 l2); [exact (spec_next_functional _ _ _ _ N1 N2) | exact H1 | exact H2].
    - intros (f1 & l1 & N1 & H1 & ->) (f2 & l2 & N2 & H2 & ->). left. f_equal.
      apply (bindings_unique_ext f1 f2 l1 l2); [exact (spec_next_functional _ _ _ _ N1 N2) | exact H1 | exact H2].
    - intros (f1 & l1 & N1 & H1 & ->) (f2 & l2 & N2 & H2 & ->). left. f_equal.
      apply (bindings_unique_ext f1 f2 l1 l2); [exact (spec_next_functional _ _ _ _ N1 N2) | exact H1 | exact H2].
    - intros [(l & Hl) HA1] [_ HA2]. right. split; auto. exists (authz eff ev l). split; auto.
  Qed.

  (* the decision itself is a function of the contents only *)
  Theorem authorize_spec_decision f r : spec_out f OAuthorize r ->
    exists d ids errs, r = RDecision d ids errs /\
      (d = Allow <->
         (exists k h, f k = Some h /\ eff h = Permit /\ ev h = OTrue) /\
         ~ (exists k h, f k = Some h /\ eff h = Forbid /\ ev h = OTrue)).
  Proof.
    cbn [spec_out]. intros [(l & Hl) HA]. specialize (HA l Hl).
    destruct r as [| | | |d ids es]; cbn in HA; try tauto.
    exists d, ids, es. split; auto. unfold authz in HA. cbn in HA. destruct HA as (Hd & _ & _).
    rewrite Hd, decision_spec. destruct Hl as [_ HI]. split; intros [HP HF]; split.
    - destruct HP as ([k h] & Hin & He & Hv). exists k, h. cbn in *. rewrite <- HI. auto.
    - intros (k & h & Hk & He & Hv). apply HF. exists (k, h). rewrite HI. auto.
    - destruct HP as (k & h & Hk & He & Hv). exists (k, h). rewrite HI. auto.
    - intros ([k h] & Hin & He & Hv). apply HF. exists k, h. cbn in *. rewrite <- HI. auto.
  Qed.

  (* ---------------------------------------------------------------------------------------------- *)
  (* 2. refinement: one step, then histories                                                        *)
  (* ---------------------------------------------------------------------------------------------- *)
  Lemma load_refines bs : forall s f, uniq s -> feq (abs s) f ->
    uniq (fold_left (fun acc kv => ps_set acc (fst kv) (snd kv)) bs s) /\
    feq (abs (fold_left (fun acc kv => ps_set acc (fst kv) (snd kv)) bs s))
        (fold_left (fun g kv => f_set g (fst kv) (snd kv)) bs f).
  Proof.
    induction bs as [|[k h] bs IH]; intros s f HU HF; cbn [fold_left fst snd]; [split; auto|].
    apply IH; [apply ps_set_uniq; auto|].
    intros x. rewrite add_refines. apply f_set_ext. exact HF.
  Qed.

  Theorem step_refines s o : uniq s ->
    let '(s', r) := step eff ev s o in
    uniq s' /\ spec_next (abs s) o (abs s') /\ spec_out (abs s) o r.
  Proof.
    intros HU. destruct o; cbn [step spec_next spec_out].
    - (* OAdd *) split; [apply ps_set_uniq; auto|]. split; [intros x; apply add_refines | reflexivity].
    - (* ORemove *) split; [apply ps_del_uniq; auto|]. split; [intros x; apply remove_refines | reflexivity].
    - (* OGet *) split; auto. split; [apply feq_refl | reflexivity].
    - (* OAll *) split; auto. split; [apply feq_refl|]. exists (sort_by_id s). split; auto. apply sort_bindings; auto.
    - (* OMapMutate *) split; auto. split; [apply feq_refl|]. exists (sort_by_id s). split; auto. apply sort_bindings; auto.
    - (* OMarshalCedar *) split; auto. split; [apply feq_refl|]. exists (sort_by_id s). split; auto. apply sort_bindings; auto.
    - (* OJsonRoundTrip *) split; auto. split; [apply feq_refl|]. exists (sort_by_id s). split; auto. apply sort_bindings; auto.
    - (* OCedarRoundTrip *)
      assert (HN : exists l, bindings_of (abs s) l /\ doc_map (map snd l) (abs (number_from 0 (map snd (sort_by_id s))))).
      { exists (sort_by_id s). split; [apply sort_bindings; auto | apply number_from_doc_map]. }
      split; [apply number_from_uniq|]. split; [exact HN|].
      exists (abs (number_from 0 (map snd (sort_by_id s)))), (sort_by_id (number_from 0 (map snd (sort_by_id s)))).
      split; [exact HN|]. split; auto. apply sort_bindings, number_from_uniq.
    - (* OFromDoc *)
      split; [apply number_from_uniq|]. split; [apply number_from_doc_map|].
      exists (abs (number_from 0 hs)), (sort_by_id (number_from 0 hs)).
      split; [apply number_from_doc_map|]. split; auto. apply sort_bindings, number_from_uniq.
    - (* OLoadJson *)
      destruct (load_refines bs [] f_empty) as [HU' HF']; [constructor | apply feq_refl |].
      split; [exact HU'|]. split; [exact HF'|].
      eexists; eexists. split; [exact HF'|]. split; [apply sort_bindings; exact HU' | reflexivity].
    - (* OAuthorize *)
      split; auto. split; [apply feq_refl|]. split.
      + exists s. apply uniq_enum; auto.
      + intros l Hl. pose proof (enum_perm _ _ _ (uniq_enum s HU) Hl) as HP.
        pose proof (authorize_contents_only eff ev s l HP) as HA. unfold decision_sim.
        unfold authz in *. exact HA.
  Qed.

  (* the same with the computable next map: the enumeration handed to spec_next_fn is the sorted current set *)
  Corollary step_refines_fn s o : uniq s ->
    forall x, abs (fst (step eff ev s o)) x = spec_next_fn (sort_by_id s) (abs s) o x.
  Proof.
    intros HU. pose proof (step_refines s o HU) as HS. destruct (step eff ev s o) as [s' r]. cbn [fst].
    destruct HS as (_ & HN & _).
    exact (spec_next_functional _ _ _ _ HN (spec_next_total (abs s) (sort_by_id s) o (sort_bindings s HU))).
  Qed.

  (* histories *)
  Fixpoint history_ok (f : fmap) (ops : list op) (rs : list out) : Prop :=
    match ops, rs with
    | [], [] => True
    | o :: ops', r :: rs' => spec_out f o r /\ exists f', spec_next f o f' /\ history_ok f' ops' rs'
    | _, _ => False
    end.

  Lemma history_ok_ext ops : forall f g rs, feq f g -> history_ok f ops rs -> history_ok g ops rs.
  Proof.
    induction ops as [|o ops IH]; intros f g rs H; destruct rs as [|r rs]; cbn [history_ok]; auto.
    intros [HO (f' & HN & HH)]. split; [eapply spec_out_ext; eauto|].
    exists f'. split; auto. eapply spec_next_ext; eauto. apply feq_refl.
  Qed.

  (* the existential in history_ok is harmless: EVERY next map works *)
  Lemma history_ok_all_next f o ops r rs :
    history_ok f (o :: ops) (r :: rs) -> forall f', spec_next f o f' -> history_ok f' ops rs.
  Proof.
    cbn [history_ok]. intros [_ (f1 & HN & HH)] f' HN'.
    apply (history_ok_ext ops f1 f' rs); [exact (spec_next_functional _ _ _ _ HN HN') | exact HH].
  Qed.

  Lemma history_ok_length ops : forall f rs, history_ok f ops rs -> List.length rs = List.length ops.
  Proof.
    induction ops as [|o ops IH]; intros f rs; destruct rs as [|r rs]; cbn [history_ok]; try tauto.
    intros [_ (f' & _ & HH)]. cbn. f_equal. eapply IH; eauto.
  Qed.

  Theorem run_refines : forall ops s, uniq s -> history_ok (abs s) ops (run eff ev s ops).
  Proof.
    induction ops as [|o ops IH]; intros s HU; cbn [run history_ok]; auto.
    pose proof (step_refines s o HU) as HS. destruct (step eff ev s o) as [s' r].
    destruct HS as (HU' & HN & HO). cbn [history_ok]. split; auto.
    exists (abs s'). split; auto.
  Qed.

  (* the state reached after a history, and the abstract map reached *)
  Definition run_state (s : pset) (ops : list op) : pset := fold_left (fun s o => fst (step eff ev s o)) ops s.

  Fixpoint spec_run (f : fmap) (ops : list op) (f' : fmap) : Prop :=
    match ops with
    | [] => feq f' f
    | o :: ops' => exists g, spec_next f o g /\ spec_run g ops' f'
    end.

  Theorem run_state_refines : forall ops s, uniq s ->
    uniq (run_state s ops) /\ spec_run (abs s) ops (abs (run_state s ops)).
  Proof.
    induction ops as [|o ops IH]; intros s HU; cbn [run_state fold_left spec_run].
    - split; auto. apply feq_refl.
    - pose proof (step_refines s o HU) as HS. destruct (step eff ev s o) as [s' r]. cbn [fst].
      destruct HS as (HU' & HN & _). destruct (IH s' HU') as [HU'' HR]. split; auto.
      exists (abs s'). split; auto.
  Qed.

  Lemma spec_run_functional ops : forall f g f' g', feq f g -> spec_run f ops f' -> spec_run g ops g' -> feq f' g'.
  Proof.
    induction ops as [|o ops IH]; intros f g f' g' H; cbn [spec_run].
    - intros H1 H2. eapply feq_trans; [exact H1|]. eapply feq_trans; [exact H | apply feq_sym, H2].
    - intros (f1 & N1 & R1) (g1 & N2 & R2). eapply (IH f1 g1); eauto.
      eapply spec_next_functional; [exact N1|]. eapply spec_next_ext; [apply feq_sym, H | apply feq_refl | exact N2].
  Qed.

  (* from the empty set every history is predicted by the map model, and every reachable state is a map *)
  Corollary history_from_empty ops :
    history_ok f_empty ops (run eff ev [] ops) /\
    uniq (run_state [] ops) /\ spec_run f_empty ops (abs (run_state [] ops)).
  Proof.
    assert (HU : uniq []) by constructor.
    split; [apply (run_refines ops [] HU)|]. apply (run_state_refines ops [] HU).
  Qed.

  (* lookups after a history: determined by the abstract run, whatever representation was reached *)
  Corollary lookup_after_history ops s1 s2 : uniq s1 -> uniq s2 -> feq (abs s1) (abs s2) ->
    forall k, ps_get (run_state s1 ops) k = ps_get (run_state s2 ops) k.
  Proof.
    intros H1 H2 HE k. destruct (run_state_refines ops s1 H1) as [_ R1]. destruct (run_state_refines ops s2 H2) as [_ R2].
    apply (spec_run_functional ops _ _ _ _ HE R1 R2).
  Qed.

  (* 3c. the Cedar round trip renumbers the id-sorted policies policy0, policy1, .. *)
  Theorem cedar_roundtrip_renumbers s : uniq s ->
    let l := sort_by_id s in
    let '(s', r) := step eff ev s OCedarRoundTrip in
    bindings_of (abs s) l /\
    uniq s' /\
    (forall i, ps_get s' (policy_id i) = nth_error (map snd l) i) /\
    (forall k h, ps_get s' k = Some h -> exists i, k = policy_id i /\ nth_error (map snd l) i = Some h) /\
    List.length s' = List.length s /\
    r = RBindings (sort_by_id s').
  Proof.
    intros HU. cbn [step]. destruct (loader_ids (map snd (sort_by_id s))) as (H1 & H2 & H3).
    split; [apply sort_bindings; auto|]. split; auto. split; auto. split; auto. split; auto.
    rewrite <- (map_length fst (number_from _ _)), number_from_fst, map_length, seq_length, map_length.
    apply Permutation_length, sort_by_id_perm.
  Qed.
End Spec.

(* ------------------------------------------------------------------------------------------------ *)
(* 4. examples                                                                                      *)
(* ------------------------------------------------------------------------------------------------ *)
Example policy_id_0 : policy_id 0 = [112; 111; 108; 105; 99; 121; 48].
Proof. vm_compute. reflexivity. Qed.
Example policy_id_10 : policy_id 10 = [112; 111; 108; 105; 99; 121; 49; 48].
Proof. vm_compute. reflexivity. Qed.
Example policy_id_123 : policy_id 123 = [112; 111; 108; 105; 99; 121; 49; 50; 51].
Proof. vm_compute. reflexivity. Qed.
Example policy_id_names : policy_id 0 = s_of "policy0"%string /\ policy_id 10 = s_of "policy10"%string /\
                          policy_id 123 = s_of "policy123"%string.
Proof. vm_compute. auto. Qed.

Definition ex_eff (h : handle) : effect := if h =? 9 then Forbid else Permit.
Definition ex_ev (h : handle) : outcome := if h =? 8 then OFalse else OTrue.

(* add, add, replace, marshal ("policy10" < "policy2" bytewise), remove, fromdoc, authorize, loadjson (replaces), all *)
Example history_example :
  run ex_eff ex_ev []
    [ OAdd (s_of "policy2"%string) 1;
      OAdd (s_of "policy10"%string) 2;
      OAdd (s_of "policy2"%string) 3;
      OMarshalCedar;
      ORemove (s_of "policy2"%string);
      OAll;
      OFromDoc [7; 8; 9];
      OAuthorize;
      OLoadJson [(s_of "b"%string, 5); (s_of "a"%string, 6); (s_of "b"%string, 4)];
      OGet (s_of "policy0"%string);
      OMarshalCedar ]
  = [ RBool true;
      RBool true;
      RBool false;
      RList [2; 3];
      RBool true;
      RBindings [(s_of "policy10"%string, 2)];
      RBindings [(s_of "policy0"%string, 7); (s_of "policy1"%string, 8); (s_of "policy2"%string, 9)];
      RDecision Deny [s_of "policy2"%string] [];
      RBindings [(s_of "a"%string, 6); (s_of "b"%string, 4)];
      RGet None;
      RList [6; 4] ].
Proof. vm_compute. reflexivity. Qed.

(* the Cedar round trip renumbers in id order: policy10 (handle 2) sorts before policy2 (handle 3) *)
Example roundtrip_example :
  run ex_eff ex_ev [] [ OAdd (s_of "policy2"%string) 3; OAdd (s_of "policy10"%string) 2; OCedarRoundTrip; OGet (s_of "policy0"%string) ]
  = [ RBool true; RBool true; RBindings [(s_of "policy0"%string, 2); (s_of "policy1"%string, 3)]; RGet (Some 2) ].
Proof. vm_compute. reflexivity. Qed.

Print Assumptions bindings_unique.
Print Assumptions spec_next_functional.
Print Assumptions spec_next_total.
Print Assumptions spec_out_ext.
Print Assumptions spec_out_functional.
Print Assumptions authorize_spec_decision.
Print Assumptions step_refines.
Print Assumptions step_refines_fn.
Print Assumptions run_refines.
Print Assumptions run_state_refines.
Print Assumptions history_from_empty.
Print Assumptions lookup_after_history.
Print Assumptions policy_id_digits.
Print Assumptions policy_id_inj.
Print Assumptions loader_ids.
Print Assumptions number_from_doc_map.
Print Assumptions cedar_roundtrip_renumbers.
