(* Proofs about Impl/SchemaText.v, part 1 of 2: the lexer.
   [rd s] is what parser.readToken does on the unread input [s]; this file gives the rewrite rules for [rd] on everything the
   printer emits: blanks, punctuation, identifier-shaped words, quoted strings (quote_cedar). *)
From Coq Require Import String.
From Coq Require Import ZArith List Bool Lia Arith.
Import ListNotations.
From Cedar Require Import Base.Utf8 Base.Utf8Enc Lang.Value Impl.Tokenizer Impl.Quote Impl.PolicyJson Impl.SchemaJson Impl.SchemaText.
From Cedar Require Import Proofs.QuoteProofs.
Local Open Scope Z_scope.

(* ------------------------------------------------------------------------------------------ *)
(* lx_peek / lx_advance                                                                        *)
(* ------------------------------------------------------------------------------------------ *)
Lemma st_decode_width_pos : forall b s, (1 <= snd (decode_rune (b :: s)))%nat.
Proof.
  intros b s. unfold decode_rune. cbv zeta.
  repeat match goal with
         | |- context [if ?c then _ else _] => destruct c
         | |- context [match ?l with [] => _ | _ :: _ => _ end] => destruct l
         end; cbn [snd]; lia.
Qed.

Lemma lx_advance_lt : forall b s, (length (lx_advance (b :: s)) < length (b :: s))%nat.
Proof.
  intros b s. unfold lx_advance, lx_width. rewrite skipn_length.
  pose proof (st_decode_width_pos b s). cbn [length] in *. lia.
Qed.

Lemma lx_advance_le : forall s, (length (lx_advance s) <= length s)%nat.
Proof. intros s. unfold lx_advance. rewrite skipn_length. lia. Qed.

Lemma lx_peek_ascii : forall c s, c < 128 -> lx_peek (c :: s) = c.
Proof. intros c s H. unfold lx_peek. rewrite decode1 by exact H. reflexivity. Qed.
Lemma lx_width_ascii : forall c s, c < 128 -> lx_width (c :: s) = 1%nat.
Proof. intros c s H. unfold lx_width. rewrite decode1 by exact H. reflexivity. Qed.
Lemma lx_advance_ascii : forall c s, c < 128 -> lx_advance (c :: s) = s.
Proof. intros c s H. unfold lx_advance. rewrite lx_width_ascii by exact H. reflexivity. Qed.

(* ------------------------------------------------------------------------------------------ *)
(* the lexer's loops do not depend on the fuel once there is more of it than input               *)
(* ------------------------------------------------------------------------------------------ *)
Lemma skip_line_fuel : forall f1 f2 s, (length s < f1)%nat -> (length s < f2)%nat -> skip_line f1 s = skip_line f2 s.
Proof.
  induction f1 as [|f1 IH]; intros f2 s H1 H2; [lia|]. destruct f2 as [|f2]; [lia|].
  cbn [skip_line]. destruct s as [|b s]; [reflexivity|].
  destruct (lx_peek (b :: s) =? 10); [reflexivity|].
  pose proof (lx_advance_lt b s). apply IH; lia.
Qed.

Lemma skip_line_len : forall f s s', skip_line f s = LOk s' -> (length s' <= length s)%nat.
Proof.
  induction f as [|f IH]; intros s s' H; [discriminate|].
  cbn [skip_line] in H. destruct s as [|b s]; [inversion H; subst; lia|].
  destruct (lx_peek (b :: s) =? 10); [inversion H; subst; lia|].
  apply IH in H. pose proof (lx_advance_lt b s). lia.
Qed.

Lemma skip_block_fuel : forall f1 f2 s, (length s < f1)%nat -> (length s < f2)%nat -> skip_block f1 s = skip_block f2 s.
Proof.
  induction f1 as [|f1 IH]; intros f2 s H1 H2; [lia|]. destruct f2 as [|f2]; [lia|].
  cbn [skip_block]. destruct s as [|b s]; [reflexivity|].
  destruct ((lx_peek (b :: s) =? 42) && byte1_is (b :: s) 47); [reflexivity|].
  pose proof (lx_advance_lt b s). apply IH; lia.
Qed.

Lemma skip_block_len : forall f s s', skip_block f s = LOk s' -> (length s' < length s)%nat.
Proof.
  induction f as [|f IH]; intros s s' H; [discriminate|].
  cbn [skip_block] in H. destruct s as [|b s]; [discriminate|].
  pose proof (lx_advance_lt b s) as Hlt.
  destruct ((lx_peek (b :: s) =? 42) && byte1_is (b :: s) 47).
  - inversion H; subst. pose proof (lx_advance_le (lx_advance (b :: s))). lia.
  - apply IH in H. lia.
Qed.

Lemma skip_ws_fuel : forall f1 f2 s, (length s < f1)%nat -> (length s < f2)%nat -> skip_ws f1 s = skip_ws f2 s.
Proof.
  induction f1 as [|f1 IH]; intros f2 s H1 H2; [lia|]. destruct f2 as [|f2]; [lia|].
  cbn [skip_ws]. destruct s as [|b s]; [reflexivity|]. cbv zeta.
  pose proof (lx_advance_lt b s) as Hlt. pose proof (lx_advance_le (lx_advance (b :: s))) as Hle.
  destruct (is_space (lx_peek (b :: s))); [apply IH; lia|].
  destruct ((lx_peek (b :: s) =? 47) && byte1_is (b :: s) 47).
  { rewrite (skip_line_fuel (S f1) (S f2)) by lia.
    destruct (skip_line (S f2) (lx_advance (lx_advance (b :: s)))) as [s'| |] eqn:E; try reflexivity.
    apply skip_line_len in E. apply IH; lia. }
  destruct ((lx_peek (b :: s) =? 47) && byte1_is (b :: s) 42); [|reflexivity].
  rewrite (skip_block_fuel (S f1) (S f2)) by lia.
  destruct (skip_block (S f2) (lx_advance (lx_advance (b :: s)))) as [s'| |] eqn:E; try reflexivity.
  apply skip_block_len in E. apply IH; lia.
Qed.

Lemma skip_ws_len : forall f s s', skip_ws f s = LOk s' -> (length s' <= length s)%nat.
Proof.
  induction f as [|f IH]; intros s s' H; [discriminate|].
  cbn [skip_ws] in H. destruct s as [|b s]; [inversion H; subst; lia|]. cbv zeta in H.
  pose proof (lx_advance_lt b s) as Hlt. pose proof (lx_advance_le (lx_advance (b :: s))) as Hle.
  destruct (is_space (lx_peek (b :: s))); [apply IH in H; lia|].
  destruct ((lx_peek (b :: s) =? 47) && byte1_is (b :: s) 47).
  { destruct (skip_line (S f) (lx_advance (lx_advance (b :: s)))) as [s1| |] eqn:E; try discriminate.
    apply skip_line_len in E. apply IH in H. lia. }
  destruct ((lx_peek (b :: s) =? 47) && byte1_is (b :: s) 42); [|inversion H; subst; lia].
  destruct (skip_block (S f) (lx_advance (lx_advance (b :: s)))) as [s1| |] eqn:E; try discriminate.
  apply skip_block_len in E. apply IH in H. lia.
Qed.

Lemma scan_ident_loop_fuel : forall f1 f2 start n s, (length s < f1)%nat -> (length s < f2)%nat ->
  scan_ident_loop f1 start n s = scan_ident_loop f2 start n s.
Proof.
  induction f1 as [|f1 IH]; intros f2 start n s H1 H2; [lia|]. destruct f2 as [|f2]; [lia|].
  cbn [scan_ident_loop]. destruct s as [|b s]; [reflexivity|].
  destruct (is_ident_continue (lx_peek (b :: s))); [|reflexivity].
  pose proof (lx_advance_lt b s). apply IH; lia.
Qed.

Lemma scan_string_loop_fuel : forall f1 f2 start n s, (length s < f1)%nat -> (length s < f2)%nat ->
  scan_string_loop f1 start n s = scan_string_loop f2 start n s.
Proof.
  induction f1 as [|f1 IH]; intros f2 start n s H1 H2; [lia|]. destruct f2 as [|f2]; [lia|].
  cbn [scan_string_loop]. destruct s as [|b s]; [reflexivity|]. cbv zeta.
  pose proof (lx_advance_lt b s) as Hlt.
  destruct (lx_peek (b :: s) =? 34); [reflexivity|].
  destruct (lx_peek (b :: s) =? 10); [reflexivity|].
  destruct (lx_peek (b :: s) =? 92).
  - destruct (lx_advance (b :: s)) as [|b' s'] eqn:E; [reflexivity|].
    pose proof (lx_advance_lt b' s'). apply IH; lia.
  - apply IH; lia.
Qed.

Lemma lex_next_fuel_eq : forall f1 f2 s, (length s < f1)%nat -> (length s < f2)%nat -> lex_next_fuel f1 s = lex_next_fuel f2 s.
Proof.
  intros f1 f2 s H1 H2. unfold lex_next_fuel. rewrite (skip_ws_fuel f1 f2 s H1 H2).
  destruct (skip_ws f2 s) as [s'| |] eqn:E; try reflexivity.
  apply skip_ws_len in E. destruct s' as [|b s']; [reflexivity|]. cbv zeta.
  pose proof (lx_advance_lt b s') as Hlt.
  unfold scan_ident, scan_string. cbv zeta.
  rewrite (scan_ident_loop_fuel f1 f2) by lia.
  rewrite (scan_string_loop_fuel f1 f2) by lia.
  reflexivity.
Qed.

(* ------------------------------------------------------------------------------------------ *)
(* rd: parser.readToken as a function of the unread input                                      *)
(* ------------------------------------------------------------------------------------------ *)
Definition MkSt (t : stok) (s : str) : pst := {| p_tok := t; p_src := s |}.

Definition rd (s : str) : spres pst :=
  match lex_next s with
  | LOk (t, s') => SOk (MkSt t s')
  | LErr => SErr
  | LFuel => SFuel
  end.

Lemma read_token_rd : forall st, read_token st = rd (p_src st).
Proof. reflexivity. Qed.

Lemma rd_nil : rd [] = SOk (MkSt (mk_tok KEOF []) []).
Proof. reflexivity. Qed.

(* blanks *)
Lemma lex_next_blank : forall c s, c < 128 -> is_space c = true -> lex_next (c :: s) = lex_next s.
Proof.
  intros c s Hc Hsp. unfold lex_next. cbn [length].
  transitivity (lex_next_fuel (S (S (length s))) s); [|apply lex_next_fuel_eq; lia].
  unfold lex_next_fuel.
  assert (E : skip_ws (S (S (length s))) (c :: s) = skip_ws (S (S (length s))) s).
  { transitivity (skip_ws (S (length s)) s); [|apply skip_ws_fuel; lia].
    cbn [skip_ws]. cbv zeta. rewrite lx_peek_ascii, Hsp, lx_advance_ascii by exact Hc. reflexivity. }
  rewrite E. reflexivity.
Qed.

Lemma rd_blank : forall c s, c < 128 -> is_space c = true -> rd (c :: s) = rd s.
Proof. intros c s Hc Hsp. unfold rd. rewrite lex_next_blank by assumption. reflexivity. Qed.

Lemma rd_sp : forall s, rd (32 :: s) = rd s. Proof. intros s. apply rd_blank; [lia|reflexivity]. Qed.
Lemma rd_nl : forall s, rd (10 :: s) = rd s. Proof. intros s. apply rd_blank; [lia|reflexivity]. Qed.
Lemma rd_tab : forall s, rd (9 :: s) = rd s. Proof. intros s. apply rd_blank; [lia|reflexivity]. Qed.
Lemma rd_tabs : forall n s, rd (tabs n ++ s) = rd s.
Proof. induction n as [|n IH]; intros s; [reflexivity|]. unfold tabs in *. cbn [repeat app]. rewrite rd_tab. apply IH. Qed.

(* punctuation *)
Lemma rd_at : forall s, rd (64 :: s) = SOk (MkSt (mk_tok KAt [64]) s). Proof. reflexivity. Qed.
Lemma rd_lbrace : forall s, rd (123 :: s) = SOk (MkSt (mk_tok KLBrace [123]) s). Proof. reflexivity. Qed.
Lemma rd_rbrace : forall s, rd (125 :: s) = SOk (MkSt (mk_tok KRBrace [125]) s). Proof. reflexivity. Qed.
Lemma rd_lbracket : forall s, rd (91 :: s) = SOk (MkSt (mk_tok KLBracket [91]) s). Proof. reflexivity. Qed.
Lemma rd_rbracket : forall s, rd (93 :: s) = SOk (MkSt (mk_tok KRBracket [93]) s). Proof. reflexivity. Qed.
Lemma rd_langle : forall s, rd (60 :: s) = SOk (MkSt (mk_tok KLAngle [60]) s). Proof. reflexivity. Qed.
Lemma rd_rangle : forall s, rd (62 :: s) = SOk (MkSt (mk_tok KRAngle [62]) s). Proof. reflexivity. Qed.
Lemma rd_lparen : forall s, rd (40 :: s) = SOk (MkSt (mk_tok KLParen [40]) s). Proof. reflexivity. Qed.
Lemma rd_rparen : forall s, rd (41 :: s) = SOk (MkSt (mk_tok KRParen [41]) s). Proof. reflexivity. Qed.
Lemma rd_comma : forall s, rd (44 :: s) = SOk (MkSt (mk_tok KComma [44]) s). Proof. reflexivity. Qed.
Lemma rd_semi : forall s, rd (59 :: s) = SOk (MkSt (mk_tok KSemicolon [59]) s). Proof. reflexivity. Qed.
Lemma rd_question : forall s, rd (63 :: s) = SOk (MkSt (mk_tok KQuestion [63]) s). Proof. reflexivity. Qed.
Lemma rd_equals : forall s, rd (61 :: s) = SOk (MkSt (mk_tok KEquals [61]) s). Proof. reflexivity. Qed.
Lemma rd_colon_sp : forall s, rd (58 :: 32 :: s) = SOk (MkSt (mk_tok KColon [58]) (32 :: s)). Proof. reflexivity. Qed.
Lemma rd_dcolon : forall s, rd (58 :: 58 :: s) = SOk (MkSt (mk_tok KDoubleColon [58; 58]) s). Proof. reflexivity. Qed.

(* ------------------------------------------------------------------------------------------ *)
(* identifier-shaped words                                                                     *)
(* ------------------------------------------------------------------------------------------ *)
Definition word (w : str) : bool :=
  match w with [] => false | c :: r => is_ident_start c && forallb is_ident_continue r end.
(* the unread input after a word: the end, or an ASCII byte that cannot continue an identifier *)
Definition stopb (s : str) : bool :=
  match s with [] => true | b :: _ => (b <? 128) && negb (is_ident_continue b) end.

Lemma ident_continue_range : forall c, is_ident_continue c = true -> 48 <= c <= 122.
Proof.
  intros c H. unfold is_ident_continue, is_ident_start in H.
  repeat (apply orb_true_iff in H; destruct H as [H|H]); zb; lia.
Qed.

Lemma ident_start_continue : forall c, is_ident_start c = true -> is_ident_continue c = true.
Proof. intros c H. unfold is_ident_continue. rewrite H. reflexivity. Qed.

Lemma ident_start_range : forall c, is_ident_start c = true -> 65 <= c <= 122.
Proof.
  intros c H. unfold is_ident_start in H.
  repeat (apply orb_true_iff in H; destruct H as [H|H]); zb; lia.
Qed.

Lemma firstn_app_len : forall (A : Type) (pre r : list A), firstn (length pre) (pre ++ r) = pre.
Proof. intros A pre r. induction pre as [|x pre IH]; [reflexivity|]. cbn. rewrite IH. reflexivity. Qed.

Lemma scan_ident_run : forall w pre s fuel, forallb is_ident_continue w = true -> stopb s = true ->
  (length (w ++ s) < fuel)%nat ->
  scan_ident_loop fuel (pre ++ w ++ s) (length pre) (w ++ s) = LOk (pre ++ w, s).
Proof.
  induction w as [|b w IH]; intros pre s fuel Hw Hs Hf.
  - destruct fuel as [|f]; [lia|]. cbn [app scan_ident_loop]. rewrite app_nil_r. destruct s as [|c s].
    + rewrite app_nil_r, firstn_all. reflexivity.
    + cbn [stopb] in Hs. apply andb_true_iff in Hs. destruct Hs as [Hc Hn]. apply Z.ltb_lt in Hc.
      apply negb_true_iff in Hn. rewrite lx_peek_ascii, Hn by exact Hc. rewrite firstn_app_len. reflexivity.
  - destruct fuel as [|f]; [lia|]. cbn [forallb] in Hw. apply andb_true_iff in Hw. destruct Hw as [Hb Hw].
    pose proof (ident_continue_range b Hb) as Hr.
    cbn [app scan_ident_loop]. rewrite lx_peek_ascii, Hb, lx_width_ascii, lx_advance_ascii by lia.
    specialize (IH (pre ++ [b]) s f Hw Hs).
    replace (length (pre ++ [b])) with (length pre + 1)%nat in IH by (rewrite app_length; reflexivity).
    rewrite <- !app_assoc in IH. cbn [app] in IH. apply IH. cbn [app length] in Hf. lia.
Qed.

Lemma rd_word : forall w s, word w = true -> stopb s = true ->
  rd (w ++ s) = SOk (MkSt (mk_tok (if is_reserved w then KReserved else KIdent) w) s).
Proof.
  intros [|c w] s Hw Hs; [discriminate|]. cbn [word] in Hw. apply andb_true_iff in Hw. destruct Hw as [Hc Hw].
  pose proof (ident_start_range c Hc) as Hr.
  unfold rd, lex_next. cbn [app length]. unfold lex_next_fuel. cbn [skip_ws]. cbv zeta.
  rewrite lx_peek_ascii by lia.
  assert (E1 : is_space c = false).
  { unfold is_space. repeat (apply orb_false_iff; split); apply Z.eqb_neq; lia. }
  assert (E2 : (c =? 47) = false) by (apply Z.eqb_neq; lia).
  rewrite E1, E2. cbn [andb]. cbv zeta. rewrite lx_peek_ascii by lia. rewrite Hc.
  unfold scan_ident. rewrite lx_width_ascii, lx_advance_ascii by lia.
  pose proof (scan_ident_run w [c] s (S (S (length (w ++ s)))) Hw Hs ltac:(lia)) as H.
  cbn [app length] in H. rewrite H. reflexivity.
Qed.

(* ------------------------------------------------------------------------------------------ *)
(* quoted strings                                                                              *)
(* ------------------------------------------------------------------------------------------ *)
(* Go strings are byte strings: the model's integers must not be negative (decode_rune reads a negative "byte" as an ASCII rune) *)
Definition utf8_ok (s : str) : bool := forallb (fun b => 0 <=? b) s && valid_utf8 s.

Lemma utf8_ok_nonneg : forall s, utf8_ok s = true -> nonneg s.
Proof.
  intros s H. unfold utf8_ok in H. apply andb_true_iff in H. destruct H as [H _]. rewrite forallb_forall in H.
  apply Forall_forall. intros x Hx. apply Z.leb_le. apply H. exact Hx.
Qed.
Lemma utf8_ok_valid : forall s, utf8_ok s = true -> valid_utf8 s = true.
Proof. intros s H. unfold utf8_ok in H. apply andb_true_iff in H. tauto. Qed.

Definition plainc (c : Z) : Prop := c < 128 /\ c <> 34 /\ c <> 10 /\ c <> 92.
Inductive qunit : str -> Prop :=
| qu_plain : forall c, plainc c -> qunit [c]
| qu_esc : forall e tl, e < 128 -> Forall plainc tl -> qunit (92 :: e :: tl).

Lemma scan_plain_run : forall l pre s fuel, Forall plainc l -> (length (l ++ s) < fuel)%nat ->
  scan_string_loop fuel (pre ++ l ++ s) (length pre) (l ++ s) = scan_string_loop fuel ((pre ++ l) ++ s) (length (pre ++ l)) s.
Proof.
  induction l as [|b l IH]; intros pre s fuel Hl Hf.
  - cbn [app]. rewrite app_nil_r. reflexivity.
  - destruct fuel as [|f]; [lia|]. inversion Hl as [|b' l' Hb Hl']; subst. destruct Hb as (Hb1 & Hb2 & Hb3 & Hb4).
    cbn [app length] in Hf.
    transitivity (scan_string_loop f ((pre ++ [b]) ++ l ++ s) (length (pre ++ [b])) (l ++ s)).
    + cbn [app scan_string_loop]. cbv zeta. rewrite lx_peek_ascii by exact Hb1.
      apply Z.eqb_neq in Hb2, Hb3, Hb4. rewrite Hb2, Hb3, Hb4.
      rewrite lx_width_ascii, lx_advance_ascii by exact Hb1.
      rewrite app_length. cbn [length]. rewrite <- app_assoc. reflexivity.
    + rewrite IH by (try assumption; lia). rewrite <- !app_assoc. cbn [app].
      apply scan_string_loop_fuel; rewrite app_length in Hf; lia.
Qed.

Lemma scan_unit : forall u, qunit u -> forall pre s fuel, (length (u ++ s) < fuel)%nat ->
  scan_string_loop fuel (pre ++ u ++ s) (length pre) (u ++ s) = scan_string_loop fuel ((pre ++ u) ++ s) (length (pre ++ u)) s.
Proof.
  intros u Hu. destruct Hu as [c Hc|e tl He Htl]; intros pre s fuel Hf.
  - apply (scan_plain_run [c]); [constructor; [exact Hc|constructor]|exact Hf].
  - destruct fuel as [|f]; [lia|]. cbn [app length] in Hf.
    transitivity (scan_string_loop f ((pre ++ [92; e]) ++ tl ++ s) (length (pre ++ [92; e])) (tl ++ s)).
    + cbn [app scan_string_loop]. cbv zeta. rewrite lx_peek_ascii by lia.
      change (92 =? 34) with false. change (92 =? 10) with false. change (92 =? 92) with true. cbv iota.
      rewrite lx_width_ascii, lx_advance_ascii by lia.
      rewrite lx_width_ascii, lx_advance_ascii by lia.
      rewrite app_length. cbn [length]. rewrite <- app_assoc. cbn [app].
      replace (length pre + 1 + 1)%nat with (length pre + 2)%nat by lia. reflexivity.
    + rewrite scan_plain_run by (try assumption; lia). rewrite <- !app_assoc. cbn [app].
      apply scan_string_loop_fuel; rewrite app_length in Hf; lia.
Qed.

Lemma scan_units : forall (esc : Z -> str) rs, Forall (fun r => qunit (esc r)) rs ->
  forall pre rest fuel, (length (flat_map esc rs ++ 34%Z :: rest) < fuel)%nat ->
  scan_string_loop fuel (pre ++ flat_map esc rs ++ 34 :: rest) (length pre) (flat_map esc rs ++ 34 :: rest)
  = match unquote (pre ++ flat_map esc rs) false with Some (u, _) => LOk (u, rest) | None => LErr end.
Proof.
  intros esc rs Hall. induction Hall as [|r rs Hr Hrs IH]; intros pre rest fuel Hf.
  - cbn [flat_map app] in *. destruct fuel as [|f]; [lia|]. cbn [scan_string_loop]. cbv zeta.
    rewrite lx_peek_ascii by lia. change (34 =? 34) with true. cbv iota.
    rewrite firstn_app_len, app_nil_r, lx_advance_ascii by lia. reflexivity.
  - cbn [flat_map] in *. rewrite <- app_assoc in Hf |- *.
    rewrite scan_unit by assumption.
    rewrite IH.
    + rewrite <- !app_assoc. reflexivity.
    + rewrite app_length in Hf. lia.
Qed.

Lemma lowhex_plain : forall c, lowhex c -> plainc c.
Proof. intros c H. unfold lowhex in H. unfold plainc. lia. Qed.

Lemma quote_cedar_rune_unit : forall r, valid_rune r = true ->
  qunit (quote_cedar_rune r) /\ step_ok false (quote_cedar_rune r) r.
Proof.
  intros r Hv. pose proof (valid_rune_range r Hv) as Hr. unfold quote_cedar_rune.
  assert (Hp : forall e, e < 128 -> qunit [92; e]) by (intros e He; apply qu_esc; [exact He|constructor]).
  destruct (Z.eqb_spec r 34) as [->|N34]; [split; [apply Hp; lia|apply step_named; cbn; tauto]|].
  destruct (Z.eqb_spec r 92) as [->|N92]; [split; [apply Hp; lia|apply step_named; cbn; tauto]|].
  destruct (Z.eqb_spec r 10) as [->|N10]; [split; [apply Hp; lia|apply step_named; cbn; tauto]|].
  destruct (Z.eqb_spec r 13) as [->|N13]; [split; [apply Hp; lia|apply step_named; cbn; tauto]|].
  destruct (Z.eqb_spec r 9) as [->|N9]; [split; [apply Hp; lia|apply step_named; cbn; tauto]|].
  destruct (Z.eqb_spec r 0) as [->|N0]; [split; [apply Hp; lia|apply step_named; cbn; tauto]|].
  destruct ((32 <=? r) && (r <? 127)) eqn:E.
  - zb. split; [apply qu_plain; unfold plainc; lia|].
    rewrite <- (encode_rune_1 r) by lia. apply step_raw; [exact Hv|exact N92|left; reflexivity].
  - split; [|apply (step_u false r Hv)].
    destruct (hex_lower_spec r ltac:(lia)) as (_ & Hf & _).
    apply qu_esc; [lia|]. cbn [app]. constructor; [unfold plainc; lia|].
    apply Forall_app. split.
    + eapply Forall_impl; [|exact Hf]. exact lowhex_plain.
    + constructor; [unfold plainc; lia|constructor].
Qed.

Lemma unquote_quote_cedar_body : forall v, utf8_ok v = true ->
  unquote (flat_map quote_cedar_rune (runes v)) false = Some (v, []).
Proof.
  intros v Hv. pose proof (utf8_ok_nonneg v Hv) as Hnn. pose proof (utf8_ok_valid v Hv) as Hu.
  pose proof (runes_valid v Hnn Hu) as Hrv.
  pose proof (unquote_units false quote_cedar_rune (runes v) []) as H.
  rewrite app_nil_r in H. rewrite H.
  - rewrite runes_encode by assumption. reflexivity.
  - eapply Forall_impl; [|exact Hrv]. intros r Hr. apply (quote_cedar_rune_unit r Hr).
  - apply term_nil.
Qed.

Lemma rd_string : forall v s, utf8_ok v = true -> rd (quote_cedar v ++ s) = SOk (MkSt (mk_tok KString v) s).
Proof.
  intros v s Hv. pose proof (utf8_ok_nonneg v Hv) as Hnn. pose proof (utf8_ok_valid v Hv) as Hu.
  pose proof (runes_valid v Hnn Hu) as Hrv.
  unfold quote_cedar. rewrite <- !app_assoc. cbn [app].
  unfold rd, lex_next. cbn [length]. unfold lex_next_fuel. cbn [skip_ws]. cbv zeta.
  rewrite lx_peek_ascii by lia.
  change (is_space 34) with false. change (34 =? 47) with false. cbn [andb]. cbv iota.
  change (is_ident_start 34) with false. change (34 =? 34) with true. cbv iota.
  unfold scan_string. cbv zeta. rewrite lx_advance_ascii by lia.
  pose proof (scan_units quote_cedar_rune (runes v)) as H.
  specialize (H ltac:(eapply Forall_impl; [|exact Hrv]; intros r Hr; apply (quote_cedar_rune_unit r Hr))).
  specialize (H [] s (S (S (length (flat_map quote_cedar_rune (runes v) ++ 34 :: s)))) ltac:(lia)).
  cbn [app length] in H. rewrite H. rewrite unquote_quote_cedar_body by exact Hv. reflexivity.
Qed.

(* ------------------------------------------------------------------------------------------ *)
(* isValidIdent at the byte level                                                              *)
(* ------------------------------------------------------------------------------------------ *)
Lemma decode_small : forall b t ch w, decode_rune (b :: t) = (ch, w) -> 0 <= ch < 128 -> ch = b /\ w = 1%nat.
Proof.
  intros b t ch w H Hch. unfold decode_rune in H. cbv zeta in H.
  destruct (Z.ltb_spec b 128) as [Hb|Hb]; [inversion H; subst; split; reflexivity|].
  exfalso.
  repeat match type of H with
         | context [if ?c then _ else _] => destruct c eqn:?
         | context [match ?l with [] => _ | _ :: _ => _ end] => destruct l
         end; inversion H; subst; unfold rune_error, is_cont in *; zb; try lia.
Qed.

Lemma runes_of_ident : forall f s, (length s <= f)%nat -> forallb is_ident_continue (runes_of f s) = true -> runes_of f s = s.
Proof.
  induction f as [|f IH]; intros s Hl H.
  - destruct s; [reflexivity|cbn in Hl; lia].
  - destruct s as [|b t]; [reflexivity|]. cbn [runes_of] in *.
    destruct (decode_rune (b :: t)) as [ch w] eqn:E. cbn [forallb] in H. apply andb_true_iff in H. destruct H as [Hc H].
    pose proof (ident_continue_range ch Hc) as Hr.
    destruct (decode_small b t ch w E ltac:(lia)) as [-> ->]. cbn [Nat.max skipn] in *.
    rewrite IH; [reflexivity| cbn [length] in Hl; lia | exact H].
Qed.

Lemma valid_ident_word : forall s, is_valid_ident s = true -> word s = true /\ is_reserved s = false.
Proof.
  intros s H. unfold is_valid_ident in H. destruct (runes s) as [|r rs] eqn:E; [discriminate|].
  apply andb_true_iff in H. destruct H as [H Hres]. apply andb_true_iff in H. destruct H as [Hr Hrs].
  apply negb_true_iff in Hres. split; [|exact Hres].
  assert (Hs : runes s = s).
  { unfold runes in *. apply runes_of_ident; [lia|]. rewrite E. cbn [forallb]. rewrite (ident_start_continue r Hr), Hrs. reflexivity. }
  rewrite Hs in E. subst s. cbn [word]. rewrite Hr, Hrs. reflexivity.
Qed.

(* ------------------------------------------------------------------------------------------ *)
(* strings.Split(path, "::") and its inverse                                                   *)
(* ------------------------------------------------------------------------------------------ *)
Definition dcs (cs : list str) : str := flat_map (fun c => dcolon ++ c) cs.

Lemma split_dcolon_spec : forall n s cur, (length s <= n)%nat ->
  exists c cs, split_dcolon s cur = c :: cs /\ c ++ dcs cs = cur ++ s.
Proof.
  induction n as [|n IH]; intros s cur Hl.
  - destruct s; [|cbn in Hl; lia]. exists cur, []. split; reflexivity.
  - destruct s as [|c r]; [exists cur, []; split; reflexivity|].
    destruct r as [|c2 r2].
    + cbn [split_dcolon]. exists (cur ++ [c]), []. split; [reflexivity|]. cbn [dcs flat_map]. rewrite !app_nil_r. reflexivity.
    + cbn [length] in Hl. cbn [split_dcolon]. destruct ((c =? 58) && (c2 =? 58)) eqn:E.
      * apply andb_true_iff in E. destruct E as [E1 E2]. apply Z.eqb_eq in E1, E2. subst c c2.
        destruct (IH r2 [] ltac:(lia)) as (c' & cs' & Hs & Hj). exists cur, (c' :: cs'). split; [rewrite Hs; reflexivity|].
        cbn [dcs flat_map]. fold (dcs cs'). rewrite <- app_assoc, Hj. reflexivity.
      * destruct (IH (c2 :: r2) (cur ++ [c]) ltac:(cbn [length]; lia)) as (c' & cs' & Hs & Hj).
        exists c', cs'. split; [exact Hs|]. rewrite Hj, <- app_assoc. reflexivity.
Qed.

Definition comps (r : str) : list str := split_dcolon r [].

Lemma comps_spec : forall r, exists c cs, comps r = c :: cs /\ c ++ dcs cs = r.
Proof. intros r. apply (split_dcolon_spec (length r) r [] (le_n _)). Qed.

(* ------------------------------------------------------------------------------------------ *)
(* the kind of the current token                                                               *)
(* ------------------------------------------------------------------------------------------ *)
Definition tk (st : pst) : ttype := k_type (p_tok st).

Lemma is_no : forall st K ks, In (tk st) ks -> forallb (fun k => negb (ttype_beq k K)) ks = true -> is st K = false.
Proof.
  intros st K ks Hin Hall. rewrite forallb_forall in Hall. specialize (Hall _ Hin). apply negb_true_iff in Hall. exact Hall.
Qed.

Lemma is_yes : forall st K, tk st = K -> is st K = true.
Proof. intros st K <-. unfold is, tk. destruct (k_type (p_tok st)); reflexivity. Qed.

Lemma rd_kw : forall (w : string) ty s, word (s_of w) = true -> (if is_reserved (s_of w) then KReserved else KIdent) = ty ->
  stopb s = true -> rd (s_of w ++ s) = SOk (MkSt (mk_tok ty (s_of w)) s).
Proof. intros w ty s Hw <- Hs. apply rd_word; assumption. Qed.
