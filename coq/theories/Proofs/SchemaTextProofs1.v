(* Proofs about Impl/SchemaText.v, part 1 of 2: the lexer, and totality of the parser.
   [rd s] is what parser.readToken does on the unread input [s]; this file gives the rewrite rules for [rd] on everything the
   printer emits: blanks, punctuation, identifier-shaped words, quoted strings (quote_cedar); the byte-level reading of
   isValidIdent and strings.Split(_, "::"); and, at the end,
     parse_schema_total : forall src, parse_schema src <> SFuel
   (the lexer never runs out of fuel and every token but EOF consumes input; every re-entry of a recursive parser function is
   preceded by the consumption of a token, up to a constant). *)
From Coq Require Import String.
From Coq Require Import ZArith List Bool Lia Arith.
Import ListNotations.
From Cedar Require Import Base.Utf8 Base.Utf8Enc Lang.Value Impl.Tokenizer Impl.Quote Impl.PolicyJson Impl.SchemaJson Impl.SchemaText.
From Cedar Require Import Proofs.QuoteProofs.
Local Open Scope Z_scope.

(* ------------------------------------------------------------------------------------------ *)
(* lx_peek / lx_advance                                                                        *)
(* ------------------------------------------------------------------------------------------ *)
Lemma st_decode_width_pos : forall b s, (1 <= snd (decode_rune (b :: s)))%nat.
Proof.
  intros b s. unfold decode_rune. cbv zeta.
  repeat match goal with
         | |- context [if ?c then _ else _] => destruct c
         | |- context [match ?l with [] => _ | _ :: _ => _ end] => destruct l
         end; cbn [snd]; lia.
Qed.

Lemma lx_advance_lt : forall b s, (length (lx_advance (b :: s)) < length (b :: s))%nat.
Proof.
  intros b s. unfold lx_advance, lx_width. rewrite skipn_length.
  pose proof (st_decode_width_pos b s). cbn [length] in *. lia.
Qed.

Lemma lx_advance_le : forall s, (length (lx_advance s) <= length s)%nat.
Proof. intros s. unfold lx_advance. rewrite skipn_length. lia. Qed.

Lemma lx_peek_ascii : forall c s, c < 128 -> lx_peek (c :: s) = c.
Proof. intros c s H. unfold lx_peek. rewrite decode1 by exact H. reflexivity. Qed.
Lemma lx_width_ascii : forall c s, c < 128 -> lx_width (c :: s) = 1%nat.
Proof. intros c s H. unfold lx_width. rewrite decode1 by exact H. reflexivity. Qed.
Lemma lx_advance_ascii : forall c s, c < 128 -> lx_advance (c :: s) = s.
Proof. intros c s H. unfold lx_advance. rewrite lx_width_ascii by exact H. reflexivity. Qed.

(* ------------------------------------------------------------------------------------------ *)
(* the lexer's loops do not depend on the fuel once there is more of it than input               *)
(* ------------------------------------------------------------------------------------------ *)
Lemma skip_line_fuel : forall f1 f2 s, (length s < f1)%nat -> (length s < f2)%nat -> skip_line f1 s = skip_line f2 s.
Proof.
  induction f1 as [|f1 IH]; intros f2 s H1 H2; [lia|]. destruct f2 as [|f2]; [lia|].
  cbn [skip_line]. destruct s as [|b s]; [reflexivity|].
  destruct (lx_peek (b :: s) =? 10); [reflexivity|].
  pose proof (lx_advance_lt b s). apply IH; lia.
Qed.

Lemma skip_line_len : forall f s s', skip_line f s = LOk s' -> (length s' <= length s)%nat.
Proof.
  induction f as [|f IH]; intros s s' H; [discriminate|].
  cbn [skip_line] in H. destruct s as [|b s]; [inversion H; subst; lia|].
  destruct (lx_peek (b :: s) =? 10); [inversion H; subst; lia|].
  apply IH in H. pose proof (lx_advance_lt b s). lia.
Qed.

Lemma skip_block_fuel : forall f1 f2 s, (length s < f1)%nat -> (length s < f2)%nat -> skip_block f1 s = skip_block f2 s.
Proof.
  induction f1 as [|f1 IH]; intros f2 s H1 H2; [lia|]. destruct f2 as [|f2]; [lia|].
  cbn [skip_block]. destruct s as [|b s]; [reflexivity|].
  destruct ((lx_peek (b :: s) =? 42) && byte1_is (b :: s) 47); [reflexivity|].
  pose proof (lx_advance_lt b s). apply IH; lia.
Qed.

Lemma skip_block_len : forall f s s', skip_block f s = LOk s' -> (length s' < length s)%nat.
Proof.
  induction f as [|f IH]; intros s s' H; [discriminate|].
  cbn [skip_block] in H. destruct s as [|b s]; [discriminate|].
  pose proof (lx_advance_lt b s) as Hlt.
  destruct ((lx_peek (b :: s) =? 42) && byte1_is (b :: s) 47).
  - inversion H; subst. pose proof (lx_advance_le (lx_advance (b :: s))). lia.
  - apply IH in H. lia.
Qed.

Lemma skip_ws_fuel : forall f1 f2 s, (length s < f1)%nat -> (length s < f2)%nat -> skip_ws f1 s = skip_ws f2 s.
Proof.
  induction f1 as [|f1 IH]; intros f2 s H1 H2; [lia|]. destruct f2 as [|f2]; [lia|].
  cbn [skip_ws]. destruct s as [|b s]; [reflexivity|]. cbv zeta.
  pose proof (lx_advance_lt b s) as Hlt. pose proof (lx_advance_le (lx_advance (b :: s))) as Hle.
  destruct (is_space (lx_peek (b :: s))); [apply IH; lia|].
  destruct ((lx_peek (b :: s) =? 47) && byte1_is (b :: s) 47).
  { rewrite (skip_line_fuel (S f1) (S f2)) by lia.
    destruct (skip_line (S f2) (lx_advance (lx_advance (b :: s)))) as [s'| |] eqn:E; try reflexivity.
    apply skip_line_len in E. apply IH; lia. }
  destruct ((lx_peek (b :: s) =? 47) && byte1_is (b :: s) 42); [|reflexivity].
  rewrite (skip_block_fuel (S f1) (S f2)) by lia.
  destruct (skip_block (S f2) (lx_advance (lx_advance (b :: s)))) as [s'| |] eqn:E; try reflexivity.
  apply skip_block_len in E. apply IH; lia.
Qed.

Lemma skip_ws_len : forall f s s', skip_ws f s = LOk s' -> (length s' <= length s)%nat.
Proof.
  induction f as [|f IH]; intros s s' H; [discriminate|].
  cbn [skip_ws] in H. destruct s as [|b s]; [inversion H; subst; lia|]. cbv zeta in H.
  pose proof (lx_advance_lt b s) as Hlt. pose proof (lx_advance_le (lx_advance (b :: s))) as Hle.
  destruct (is_space (lx_peek (b :: s))); [apply IH in H; lia|].
  destruct ((lx_peek (b :: s) =? 47) && byte1_is (b :: s) 47).
  { destruct (skip_line (S f) (lx_advance (lx_advance (b :: s)))) as [s1| |] eqn:E; try discriminate.
    apply skip_line_len in E. apply IH in H. lia. }
  destruct ((lx_peek (b :: s) =? 47) && byte1_is (b :: s) 42); [|inversion H; subst; lia].
  destruct (skip_block (S f) (lx_advance (lx_advance (b :: s)))) as [s1| |] eqn:E; try discriminate.
  apply skip_block_len in E. apply IH in H. lia.
Qed.

Lemma scan_ident_loop_fuel : forall f1 f2 start n s, (length s < f1)%nat -> (length s < f2)%nat ->
  scan_ident_loop f1 start n s = scan_ident_loop f2 start n s.
Proof.
  induction f1 as [|f1 IH]; intros f2 start n s H1 H2; [lia|]. destruct f2 as [|f2]; [lia|].
  cbn [scan_ident_loop]. destruct s as [|b s]; [reflexivity|].
  destruct (is_ident_continue (lx_peek (b :: s))); [|reflexivity].
  pose proof (lx_advance_lt b s). apply IH; lia.
Qed.

Lemma scan_string_loop_fuel : forall f1 f2 start n s, (length s < f1)%nat -> (length s < f2)%nat ->
  scan_string_loop f1 start n s = scan_string_loop f2 start n s.
Proof.
  induction f1 as [|f1 IH]; intros f2 start n s H1 H2; [lia|]. destruct f2 as [|f2]; [lia|].
  cbn [scan_string_loop]. destruct s as [|b s]; [reflexivity|]. cbv zeta.
  pose proof (lx_advance_lt b s) as Hlt.
  destruct (lx_peek (b :: s) =? 34); [reflexivity|].
  destruct (lx_peek (b :: s) =? 10); [reflexivity|].
  destruct (lx_peek (b :: s) =? 92).
  - destruct (lx_advance (b :: s)) as [|b' s'] eqn:E; [reflexivity|].
    pose proof (lx_advance_lt b' s'). apply IH; lia.
  - apply IH; lia.
Qed.

Lemma lex_next_fuel_eq : forall f1 f2 s, (length s < f1)%nat -> (length s < f2)%nat -> lex_next_fuel f1 s = lex_next_fuel f2 s.
Proof.
  intros f1 f2 s H1 H2. unfold lex_next_fuel. rewrite (skip_ws_fuel f1 f2 s H1 H2).
  destruct (skip_ws f2 s) as [s'| |] eqn:E; try reflexivity.
  apply skip_ws_len in E. destruct s' as [|b s']; [reflexivity|]. cbv zeta.
  pose proof (lx_advance_lt b s') as Hlt.
  unfold scan_ident, scan_string. cbv zeta.
  rewrite (scan_ident_loop_fuel f1 f2) by lia.
  rewrite (scan_string_loop_fuel f1 f2) by lia.
  reflexivity.
Qed.

(* ------------------------------------------------------------------------------------------ *)
(* rd: parser.readToken as a function of the unread input                                      *)
(* ------------------------------------------------------------------------------------------ *)
Definition MkSt (t : stok) (s : str) : pst := {| p_tok := t; p_src := s |}.

Definition rd (s : str) : spres pst :=
  match lex_next s with
  | LOk (t, s') => SOk (MkSt t s')
  | LErr => SErr
  | LFuel => SFuel
  end.

Lemma read_token_rd : forall st, read_token st = rd (p_src st).
Proof. reflexivity. Qed.

Lemma rd_nil : rd [] = SOk (MkSt (mk_tok KEOF []) []).
Proof. reflexivity. Qed.

(* blanks *)
Lemma lex_next_blank : forall c s, c < 128 -> is_space c = true -> lex_next (c :: s) = lex_next s.
Proof.
  intros c s Hc Hsp. unfold lex_next. cbn [length].
  transitivity (lex_next_fuel (S (S (length s))) s); [|apply lex_next_fuel_eq; lia].
  unfold lex_next_fuel.
  assert (E : skip_ws (S (S (length s))) (c :: s) = skip_ws (S (S (length s))) s).
  { transitivity (skip_ws (S (length s)) s); [|apply skip_ws_fuel; lia].
    cbn [skip_ws]. cbv zeta. rewrite lx_peek_ascii, Hsp, lx_advance_ascii by exact Hc. reflexivity. }
  rewrite E. reflexivity.
Qed.

Lemma rd_blank : forall c s, c < 128 -> is_space c = true -> rd (c :: s) = rd s.
Proof. intros c s Hc Hsp. unfold rd. rewrite lex_next_blank by assumption. reflexivity. Qed.

Lemma rd_sp : forall s, rd (32 :: s) = rd s. Proof. intros s. apply rd_blank; [lia|reflexivity]. Qed.
Lemma rd_nl : forall s, rd (10 :: s) = rd s. Proof. intros s. apply rd_blank; [lia|reflexivity]. Qed.
Lemma rd_tab : forall s, rd (9 :: s) = rd s. Proof. intros s. apply rd_blank; [lia|reflexivity]. Qed.
Lemma rd_tabs : forall n s, rd (tabs n ++ s) = rd s.
Proof. induction n as [|n IH]; intros s; [reflexivity|]. unfold tabs in *. cbn [repeat app]. rewrite rd_tab. apply IH. Qed.

(* punctuation *)
Lemma rd_at : forall s, rd (64 :: s) = SOk (MkSt (mk_tok KAt [64]) s). Proof. reflexivity. Qed.
Lemma rd_lbrace : forall s, rd (123 :: s) = SOk (MkSt (mk_tok KLBrace [123]) s). Proof. reflexivity. Qed.
Lemma rd_rbrace : forall s, rd (125 :: s) = SOk (MkSt (mk_tok KRBrace [125]) s). Proof. reflexivity. Qed.
Lemma rd_lbracket : forall s, rd (91 :: s) = SOk (MkSt (mk_tok KLBracket [91]) s). Proof. reflexivity. Qed.
Lemma rd_rbracket : forall s, rd (93 :: s) = SOk (MkSt (mk_tok KRBracket [93]) s). Proof. reflexivity. Qed.
Lemma rd_langle : forall s, rd (60 :: s) = SOk (MkSt (mk_tok KLAngle [60]) s). Proof. reflexivity. Qed.
Lemma rd_rangle : forall s, rd (62 :: s) = SOk (MkSt (mk_tok KRAngle [62]) s). Proof. reflexivity. Qed.
Lemma rd_lparen : forall s, rd (40 :: s) = SOk (MkSt (mk_tok KLParen [40]) s). Proof. reflexivity. Qed.
Lemma rd_rparen : forall s, rd (41 :: s) = SOk (MkSt (mk_tok KRParen [41]) s). Proof. reflexivity. Qed.
Lemma rd_comma : forall s, rd (44 :: s) = SOk (MkSt (mk_tok KComma [44]) s). Proof. reflexivity. Qed.
Lemma rd_semi : forall s, rd (59 :: s) = SOk (MkSt (mk_tok KSemicolon [59]) s). Proof. reflexivity. Qed.
Lemma rd_question : forall s, rd (63 :: s) = SOk (MkSt (mk_tok KQuestion [63]) s). Proof. reflexivity. Qed.
Lemma rd_equals : forall s, rd (61 :: s) = SOk (MkSt (mk_tok KEquals [61]) s). Proof. reflexivity. Qed.
Lemma rd_colon_sp : forall s, rd (58 :: 32 :: s) = SOk (MkSt (mk_tok KColon [58]) (32 :: s)). Proof. reflexivity. Qed.
Lemma rd_dcolon : forall s, rd (58 :: 58 :: s) = SOk (MkSt (mk_tok KDoubleColon [58; 58]) s). Proof. reflexivity. Qed.

(* ------------------------------------------------------------------------------------------ *)
(* identifier-shaped words                                                                     *)
(* ------------------------------------------------------------------------------------------ *)
Definition word (w : str) : bool :=
  match w with [] => false | c :: r => is_ident_start c && forallb is_ident_continue r end.
(* the unread input after a word: the end, or an ASCII byte that cannot continue an identifier *)
Definition stopb (s : str) : bool :=
  match s with [] => true | b :: _ => (b <? 128) && negb (is_ident_continue b) end.

Lemma ident_continue_range : forall c, is_ident_continue c = true -> 48 <= c <= 122.
Proof.
  intros c H. unfold is_ident_continue, is_ident_start in H.
  repeat (apply orb_true_iff in H; destruct H as [H|H]); zb; lia.
Qed.

Lemma ident_start_continue : forall c, is_ident_start c = true -> is_ident_continue c = true.
Proof. intros c H. unfold is_ident_continue. rewrite H. reflexivity. Qed.

Lemma ident_start_range : forall c, is_ident_start c = true -> 65 <= c <= 122.
Proof.
  intros c H. unfold is_ident_start in H.
  repeat (apply orb_true_iff in H; destruct H as [H|H]); zb; lia.
Qed.

Lemma firstn_app_len : forall (A : Type) (pre r : list A), firstn (length pre) (pre ++ r) = pre.
Proof. intros A pre r. induction pre as [|x pre IH]; [reflexivity|]. cbn. rewrite IH. reflexivity. Qed.

Lemma scan_ident_run : forall w pre s fuel, forallb is_ident_continue w = true -> stopb s = true ->
  (length (w ++ s) < fuel)%nat ->
  scan_ident_loop fuel (pre ++ w ++ s) (length pre) (w ++ s) = LOk (pre ++ w, s).
Proof.
  induction w as [|b w IH]; intros pre s fuel Hw Hs Hf.
  - destruct fuel as [|f]; [lia|]. cbn [app scan_ident_loop]. rewrite app_nil_r. destruct s as [|c s].
    + rewrite app_nil_r, firstn_all. reflexivity.
    + cbn [stopb] in Hs. apply andb_true_iff in Hs. destruct Hs as [Hc Hn]. apply Z.ltb_lt in Hc.
      apply negb_true_iff in Hn. rewrite lx_peek_ascii, Hn by exact Hc. rewrite firstn_app_len. reflexivity.
  - destruct fuel as [|f]; [lia|]. cbn [forallb] in Hw. apply andb_true_iff in Hw. destruct Hw as [Hb Hw].
    pose proof (ident_continue_range b Hb) as Hr.
    cbn [app scan_ident_loop]. rewrite lx_peek_ascii, Hb, lx_width_ascii, lx_advance_ascii by lia.
    specialize (IH (pre ++ [b]) s f Hw Hs).
    replace (length (pre ++ [b])) with (length pre + 1)%nat in IH by (rewrite app_length; reflexivity).
    rewrite <- !app_assoc in IH. cbn [app] in IH. apply IH. cbn [app length] in Hf. lia.
Qed.

Lemma rd_word : forall w s, word w = true -> stopb s = true ->
  rd (w ++ s) = SOk (MkSt (mk_tok (if is_reserved w then KReserved else KIdent) w) s).
Proof.
  intros [|c w] s Hw Hs; [discriminate|]. cbn [word] in Hw. apply andb_true_iff in Hw. destruct Hw as [Hc Hw].
  pose proof (ident_start_range c Hc) as Hr.
  unfold rd, lex_next. cbn [app length]. unfold lex_next_fuel. cbn [skip_ws]. cbv zeta.
  rewrite lx_peek_ascii by lia.
  assert (E1 : is_space c = false).
  { unfold is_space. repeat (apply orb_false_iff; split); apply Z.eqb_neq; lia. }
  assert (E2 : (c =? 47) = false) by (apply Z.eqb_neq; lia).
  rewrite E1, E2. cbn [andb]. cbv zeta. rewrite lx_peek_ascii by lia. rewrite Hc.
  unfold scan_ident. rewrite lx_width_ascii, lx_advance_ascii by lia.
  pose proof (scan_ident_run w [c] s (S (S (length (w ++ s)))) Hw Hs ltac:(lia)) as H.
  cbn [app length] in H. rewrite H. reflexivity.
Qed.

(* ------------------------------------------------------------------------------------------ *)
(* quoted strings                                                                              *)
(* ------------------------------------------------------------------------------------------ *)
(* Go strings are byte strings: the model's integers must not be negative (decode_rune reads a negative "byte" as an ASCII rune) *)
Definition utf8_ok (s : str) : bool := forallb (fun b => 0 <=? b) s && valid_utf8 s.

Lemma utf8_ok_nonneg : forall s, utf8_ok s = true -> nonneg s.
Proof.
  intros s H. unfold utf8_ok in H. apply andb_true_iff in H. destruct H as [H _]. rewrite forallb_forall in H.
  apply Forall_forall. intros x Hx. apply Z.leb_le. apply H. exact Hx.
Qed.
Lemma utf8_ok_valid : forall s, utf8_ok s = true -> valid_utf8 s = true.
Proof. intros s H. unfold utf8_ok in H. apply andb_true_iff in H. tauto. Qed.

Definition plainc (c : Z) : Prop := c < 128 /\ c <> 34 /\ c <> 10 /\ c <> 92.
Inductive qunit : str -> Prop :=
| qu_plain : forall c, plainc c -> qunit [c]
| qu_esc : forall e tl, e < 128 -> Forall plainc tl -> qunit (92 :: e :: tl).

Lemma scan_plain_run : forall l pre s fuel, Forall plainc l -> (length (l ++ s) < fuel)%nat ->
  scan_string_loop fuel (pre ++ l ++ s) (length pre) (l ++ s) = scan_string_loop fuel ((pre ++ l) ++ s) (length (pre ++ l)) s.
Proof.
  induction l as [|b l IH]; intros pre s fuel Hl Hf.
  - cbn [app]. rewrite app_nil_r. reflexivity.
  - destruct fuel as [|f]; [lia|]. inversion Hl as [|b' l' Hb Hl']; subst. destruct Hb as (Hb1 & Hb2 & Hb3 & Hb4).
    cbn [app length] in Hf.
    transitivity (scan_string_loop f ((pre ++ [b]) ++ l ++ s) (length (pre ++ [b])) (l ++ s)).
    + cbn [app scan_string_loop]. cbv zeta. rewrite lx_peek_ascii by exact Hb1.
      apply Z.eqb_neq in Hb2, Hb3, Hb4. rewrite Hb2, Hb3, Hb4.
      rewrite lx_width_ascii, lx_advance_ascii by exact Hb1.
      rewrite app_length. cbn [length]. rewrite <- app_assoc. reflexivity.
    + rewrite IH by (try assumption; lia). rewrite <- !app_assoc. cbn [app].
      apply scan_string_loop_fuel; rewrite app_length in Hf; lia.
Qed.

Lemma scan_unit : forall u, qunit u -> forall pre s fuel, (length (u ++ s) < fuel)%nat ->
  scan_string_loop fuel (pre ++ u ++ s) (length pre) (u ++ s) = scan_string_loop fuel ((pre ++ u) ++ s) (length (pre ++ u)) s.
Proof.
  intros u Hu. destruct Hu as [c Hc|e tl He Htl]; intros pre s fuel Hf.
  - apply (scan_plain_run [c]); [constructor; [exact Hc|constructor]|exact Hf].
  - destruct fuel as [|f]; [lia|]. cbn [app length] in Hf.
    transitivity (scan_string_loop f ((pre ++ [92; e]) ++ tl ++ s) (length (pre ++ [92; e])) (tl ++ s)).
    + cbn [app scan_string_loop]. cbv zeta. rewrite lx_peek_ascii by lia.
      change (92 =? 34) with false. change (92 =? 10) with false. change (92 =? 92) with true. cbv iota.
      rewrite lx_width_ascii, lx_advance_ascii by lia.
      rewrite lx_width_ascii, lx_advance_ascii by lia.
      rewrite app_length. cbn [length]. rewrite <- app_assoc. cbn [app].
      replace (length pre + 1 + 1)%nat with (length pre + 2)%nat by lia. reflexivity.
    + rewrite scan_plain_run by (try assumption; lia). rewrite <- !app_assoc. cbn [app].
      apply scan_string_loop_fuel; rewrite app_length in Hf; lia.
Qed.

Lemma scan_units : forall (esc : Z -> str) rs, Forall (fun r => qunit (esc r)) rs ->
  forall pre rest fuel, (length (flat_map esc rs ++ 34%Z :: rest) < fuel)%nat ->
  scan_string_loop fuel (pre ++ flat_map esc rs ++ 34 :: rest) (length pre) (flat_map esc rs ++ 34 :: rest)
  = match unquote (pre ++ flat_map esc rs) false with Some (u, _) => LOk (u, rest) | None => LErr end.
Proof.
  intros esc rs Hall. induction Hall as [|r rs Hr Hrs IH]; intros pre rest fuel Hf.
  - cbn [flat_map app] in *. destruct fuel as [|f]; [lia|]. cbn [scan_string_loop]. cbv zeta.
    rewrite lx_peek_ascii by lia. change (34 =? 34) with true. cbv iota.
    rewrite firstn_app_len, app_nil_r, lx_advance_ascii by lia. reflexivity.
  - cbn [flat_map] in *. rewrite <- app_assoc in Hf |- *.
    rewrite scan_unit by assumption.
    rewrite IH.
    + rewrite <- !app_assoc. reflexivity.
    + rewrite app_length in Hf. lia.
Qed.

Lemma lowhex_plain : forall c, lowhex c -> plainc c.
Proof. intros c H. unfold lowhex in H. unfold plainc. lia. Qed.

Lemma quote_cedar_rune_unit : forall r, valid_rune r = true ->
  qunit (quote_cedar_rune r) /\ step_ok false (quote_cedar_rune r) r.
Proof.
  intros r Hv. pose proof (valid_rune_range r Hv) as Hr. unfold quote_cedar_rune.
  assert (Hp : forall e, e < 128 -> qunit [92; e]) by (intros e He; apply qu_esc; [exact He|constructor]).
  destruct (Z.eqb_spec r 34) as [->|N34]; [split; [apply Hp; lia|apply step_named; cbn; tauto]|].
  destruct (Z.eqb_spec r 92) as [->|N92]; [split; [apply Hp; lia|apply step_named; cbn; tauto]|].
  destruct (Z.eqb_spec r 10) as [->|N10]; [split; [apply Hp; lia|apply step_named; cbn; tauto]|].
  destruct (Z.eqb_spec r 13) as [->|N13]; [split; [apply Hp; lia|apply step_named; cbn; tauto]|].
  destruct (Z.eqb_spec r 9) as [->|N9]; [split; [apply Hp; lia|apply step_named; cbn; tauto]|].
  destruct (Z.eqb_spec r 0) as [->|N0]; [split; [apply Hp; lia|apply step_named; cbn; tauto]|].
  destruct ((32 <=? r) && (r <? 127)) eqn:E.
  - zb. split; [apply qu_plain; unfold plainc; lia|].
    rewrite <- (encode_rune_1 r) by lia. apply step_raw; [exact Hv|exact N92|left; reflexivity].
  - split; [|apply (step_u false r Hv)].
    destruct (hex_lower_spec r ltac:(lia)) as (_ & Hf & _).
    apply qu_esc; [lia|]. cbn [app]. constructor; [unfold plainc; lia|].
    apply Forall_app. split.
    + eapply Forall_impl; [|exact Hf]. exact lowhex_plain.
    + constructor; [unfold plainc; lia|constructor].
Qed.

Lemma unquote_quote_cedar_body : forall v, utf8_ok v = true ->
  unquote (flat_map quote_cedar_rune (runes v)) false = Some (v, []).
Proof.
  intros v Hv. pose proof (utf8_ok_nonneg v Hv) as Hnn. pose proof (utf8_ok_valid v Hv) as Hu.
  pose proof (runes_valid v Hnn Hu) as Hrv.
  pose proof (unquote_units false quote_cedar_rune (runes v) []) as H.
  rewrite app_nil_r in H. rewrite H.
  - rewrite runes_encode by assumption. reflexivity.
  - eapply Forall_impl; [|exact Hrv]. intros r Hr. apply (quote_cedar_rune_unit r Hr).
  - apply term_nil.
Qed.

Lemma rd_string : forall v s, utf8_ok v = true -> rd (quote_cedar v ++ s) = SOk (MkSt (mk_tok KString v) s).
Proof.
  intros v s Hv. pose proof (utf8_ok_nonneg v Hv) as Hnn. pose proof (utf8_ok_valid v Hv) as Hu.
  pose proof (runes_valid v Hnn Hu) as Hrv.
  unfold quote_cedar. rewrite <- !app_assoc. cbn [app].
  unfold rd, lex_next. cbn [length]. unfold lex_next_fuel. cbn [skip_ws]. cbv zeta.
  rewrite lx_peek_ascii by lia.
  change (is_space 34) with false. change (34 =? 47) with false. cbn [andb]. cbv iota.
  change (is_ident_start 34) with false. change (34 =? 34) with true. cbv iota.
  unfold scan_string. cbv zeta. rewrite lx_advance_ascii by lia.
  pose proof (scan_units quote_cedar_rune (runes v)) as H.
  specialize (H ltac:(eapply Forall_impl; [|exact Hrv]; intros r Hr; apply (quote_cedar_rune_unit r Hr))).
  specialize (H [] s (S (S (length (flat_map quote_cedar_rune (runes v) ++ 34 :: s)))) ltac:(lia)).
  cbn [app length] in H. rewrite H. rewrite unquote_quote_cedar_body by exact Hv. reflexivity.
Qed.

(* ------------------------------------------------------------------------------------------ *)
(* isValidIdent at the byte level                                                              *)
(* ------------------------------------------------------------------------------------------ *)
Lemma decode_small : forall b t ch w, decode_rune (b :: t) = (ch, w) -> 0 <= ch < 128 -> ch = b /\ w = 1%nat.
Proof.
  intros b t ch w H Hch. unfold decode_rune in H. cbv zeta in H.
  destruct (Z.ltb_spec b 128) as [Hb|Hb]; [inversion H; subst; split; reflexivity|].
  exfalso.
  repeat match type of H with
         | context [if ?c then _ else _] => destruct c eqn:?
         | context [match ?l with [] => _ | _ :: _ => _ end] => destruct l
         end; inversion H; subst; unfold rune_error, is_cont in *; zb; try lia.
Qed.

Lemma runes_of_ident : forall f s, (length s <= f)%nat -> forallb is_ident_continue (runes_of f s) = true -> runes_of f s = s.
Proof.
  induction f as [|f IH]; intros s Hl H.
  - destruct s; [reflexivity|cbn in Hl; lia].
  - destruct s as [|b t]; [reflexivity|]. cbn [runes_of] in *.
    destruct (decode_rune (b :: t)) as [ch w] eqn:E. cbn [forallb] in H. apply andb_true_iff in H. destruct H as [Hc H].
    pose proof (ident_continue_range ch Hc) as Hr.
    destruct (decode_small b t ch w E ltac:(lia)) as [-> ->]. cbn [Nat.max skipn] in *.
    rewrite IH; [reflexivity| cbn [length] in Hl; lia | exact H].
Qed.

Lemma valid_ident_word : forall s, is_valid_ident s = true -> word s = true /\ is_reserved s = false.
Proof.
  intros s H. unfold is_valid_ident in H. destruct (runes s) as [|r rs] eqn:E; [discriminate|].
  apply andb_true_iff in H. destruct H as [H Hres]. apply andb_true_iff in H. destruct H as [Hr Hrs].
  apply negb_true_iff in Hres. split; [|exact Hres].
  assert (Hs : runes s = s).
  { unfold runes in *. apply runes_of_ident; [lia|]. rewrite E. cbn [forallb]. rewrite (ident_start_continue r Hr), Hrs. reflexivity. }
  rewrite Hs in E. subst s. cbn [word]. rewrite Hr, Hrs. reflexivity.
Qed.

(* ------------------------------------------------------------------------------------------ *)
(* strings.Split(path, "::") and its inverse                                                   *)
(* ------------------------------------------------------------------------------------------ *)
Definition dcs (cs : list str) : str := flat_map (fun c => dcolon ++ c) cs.

Lemma split_dcolon_spec : forall n s cur, (length s <= n)%nat ->
  exists c cs, split_dcolon s cur = c :: cs /\ c ++ dcs cs = cur ++ s.
Proof.
  induction n as [|n IH]; intros s cur Hl.
  - destruct s; [|cbn in Hl; lia]. exists cur, []. split; reflexivity.
  - destruct s as [|c r]; [exists cur, []; split; reflexivity|].
    destruct r as [|c2 r2].
    + cbn [split_dcolon]. exists (cur ++ [c]), []. split; [reflexivity|]. cbn [dcs flat_map]. rewrite !app_nil_r. reflexivity.
    + cbn [length] in Hl. cbn [split_dcolon]. destruct ((c =? 58) && (c2 =? 58)) eqn:E.
      * apply andb_true_iff in E. destruct E as [E1 E2]. apply Z.eqb_eq in E1, E2. subst c c2.
        destruct (IH r2 [] ltac:(lia)) as (c' & cs' & Hs & Hj). exists cur, (c' :: cs'). split; [rewrite Hs; reflexivity|].
        cbn [dcs flat_map]. fold (dcs cs'). rewrite <- app_assoc, Hj. reflexivity.
      * destruct (IH (c2 :: r2) (cur ++ [c]) ltac:(cbn [length]; lia)) as (c' & cs' & Hs & Hj).
        exists c', cs'. split; [exact Hs|]. rewrite Hj, <- app_assoc. reflexivity.
Qed.

Definition comps (r : str) : list str := split_dcolon r [].

Lemma comps_spec : forall r, exists c cs, comps r = c :: cs /\ c ++ dcs cs = r.
Proof. intros r. apply (split_dcolon_spec (length r) r [] (le_n _)). Qed.

(* ------------------------------------------------------------------------------------------ *)
(* the kind of the current token                                                               *)
(* ------------------------------------------------------------------------------------------ *)
Definition tk (st : pst) : ttype := k_type (p_tok st).

Lemma is_no : forall st K ks, In (tk st) ks -> forallb (fun k => negb (ttype_beq k K)) ks = true -> is st K = false.
Proof.
  intros st K ks Hin Hall. rewrite forallb_forall in Hall. specialize (Hall _ Hin). apply negb_true_iff in Hall. exact Hall.
Qed.

Lemma is_yes : forall st K, tk st = K -> is st K = true.
Proof. intros st K <-. unfold is, tk. destruct (k_type (p_tok st)); reflexivity. Qed.

Lemma rd_kw : forall (w : string) ty s, word (s_of w) = true -> (if is_reserved (s_of w) then KReserved else KIdent) = ty ->
  stopb s = true -> rd (s_of w ++ s) = SOk (MkSt (mk_tok ty (s_of w)) s).
Proof. intros w ty s Hw <- Hs. apply rd_word; assumption. Qed.

(* ------------------------------------------------------------------------------------------ *)
(* The lexer never runs out of fuel, and every token but EOF consumes input                    *)
(* ------------------------------------------------------------------------------------------ *)
Lemma skip_line_nofuel : forall f s, (length s < f)%nat -> skip_line f s <> LFuel.
Proof.
  induction f as [|f IH]; intros s H; [lia|]. cbn [skip_line]. destruct s as [|b s]; [discriminate|].
  destruct (lx_peek (b :: s) =? 10); [discriminate|]. pose proof (lx_advance_lt b s). apply IH. lia.
Qed.

Lemma skip_block_nofuel : forall f s, (length s < f)%nat -> skip_block f s <> LFuel.
Proof.
  induction f as [|f IH]; intros s H; [lia|]. cbn [skip_block]. destruct s as [|b s]; [discriminate|].
  destruct ((lx_peek (b :: s) =? 42) && byte1_is (b :: s) 47); [discriminate|]. pose proof (lx_advance_lt b s). apply IH. lia.
Qed.

Lemma skip_ws_nofuel : forall f s, (length s < f)%nat -> skip_ws f s <> LFuel.
Proof.
  induction f as [|f IH]; intros s H; [lia|]. cbn [skip_ws]. destruct s as [|b s]; [discriminate|]. cbv zeta.
  pose proof (lx_advance_lt b s) as Hlt. pose proof (lx_advance_le (lx_advance (b :: s))) as Hle.
  destruct (is_space (lx_peek (b :: s))); [apply IH; lia|].
  destruct ((lx_peek (b :: s) =? 47) && byte1_is (b :: s) 47).
  { destruct (skip_line (S f) (lx_advance (lx_advance (b :: s)))) as [s'| |] eqn:E; [|discriminate|].
    - apply skip_line_len in E. apply IH. lia.
    - exfalso. revert E. apply skip_line_nofuel. lia. }
  destruct ((lx_peek (b :: s) =? 47) && byte1_is (b :: s) 42); [|discriminate].
  destruct (skip_block (S f) (lx_advance (lx_advance (b :: s)))) as [s'| |] eqn:E; [|discriminate|].
  - apply skip_block_len in E. apply IH. lia.
  - exfalso. revert E. apply skip_block_nofuel. lia.
Qed.

Lemma scan_ident_loop_spec : forall f start n s, (length s < f)%nat ->
  match scan_ident_loop f start n s with LOk (_, s') => (length s' <= length s)%nat | LErr => True | LFuel => False end.
Proof.
  induction f as [|f IH]; intros start n s H; [lia|]. cbn [scan_ident_loop]. destruct s as [|b s]; [cbn; lia|].
  destruct (is_ident_continue (lx_peek (b :: s))); [|lia].
  pose proof (lx_advance_lt b s) as Hlt. specialize (IH start (n + lx_width (b :: s))%nat (lx_advance (b :: s)) ltac:(lia)).
  destruct (scan_ident_loop f start (n + lx_width (b :: s)) (lx_advance (b :: s))) as [[t s']| |]; [lia|exact I|exact IH].
Qed.

Lemma scan_string_loop_spec : forall f start n s, (length s < f)%nat ->
  match scan_string_loop f start n s with LOk (_, s') => (length s' <= length s)%nat | LErr => True | LFuel => False end.
Proof.
  induction f as [|f IH]; intros start n s H; [lia|]. cbn [scan_string_loop]. destruct s as [|b s]; [exact I|]. cbv zeta.
  pose proof (lx_advance_lt b s) as Hlt.
  destruct (lx_peek (b :: s) =? 34).
  { destruct (unquote (firstn n start) false) as [[u r]|]; [lia|exact I]. }
  destruct (lx_peek (b :: s) =? 10); [exact I|].
  destruct (lx_peek (b :: s) =? 92).
  - destruct (lx_advance (b :: s)) as [|b' s'] eqn:E; [exact I|]. pose proof (lx_advance_lt b' s') as Hlt'.
    match goal with |- match scan_string_loop f ?a ?b ?c with _ => _ end => specialize (IH a b c ltac:(lia)); destruct (scan_string_loop f a b c) as [[t s2]| |] end;
      [lia|exact I|exact IH].
  - match goal with |- match scan_string_loop f ?a ?b ?c with _ => _ end => specialize (IH a b c ltac:(lia)); destruct (scan_string_loop f a b c) as [[t s2]| |] end;
      [lia|exact I|exact IH].
Qed.

Lemma lex_next_spec : forall s,
  match lex_next s with
  | LOk (t, s') => (length s' <= length s)%nat /\ (k_type t <> KEOF -> (length s' < length s)%nat)
  | LErr => True
  | LFuel => False
  end.
Proof.
  intros s. unfold lex_next, lex_next_fuel.
  destruct (skip_ws (S (length s)) s) as [s1| |] eqn:E; [|exact I|exfalso; revert E; apply skip_ws_nofuel; lia].
  apply skip_ws_len in E. destruct s1 as [|b s1]; [cbn; split; [lia|intros H; congruence]|]. cbv zeta.
  pose proof (lx_advance_lt b s1) as Hlt. pose proof (lx_advance_le (lx_advance (b :: s1))) as Hle.
  destruct (is_ident_start (lx_peek (b :: s1))).
  { unfold scan_ident. pose proof (scan_ident_loop_spec (S (length s)) (b :: s1) (lx_width (b :: s1)) (lx_advance (b :: s1)) ltac:(lia)) as H.
    destruct (scan_ident_loop _ _ _ _) as [[t s']| |]; [split; [lia|intros _; lia]|exact I|exact H]. }
  destruct (lx_peek (b :: s1) =? 34).
  { unfold scan_string. cbv zeta.
    pose proof (scan_string_loop_spec (S (length s)) (lx_advance (b :: s1)) 0 (lx_advance (b :: s1)) ltac:(lia)) as H.
    destruct (scan_string_loop _ _ _ _) as [[t s']| |]; [split; [lia|intros _; lia]|exact I|exact H]. }
  repeat match goal with |- match (if ?c then _ else _) with _ => _ end => destruct c end; try exact I; cbn [k_type mk_tok]; split; try lia; intros _; lia.
Qed.

(* ------------------------------------------------------------------------------------------ *)
(* The parser never runs out of fuel                                                           *)
(* ------------------------------------------------------------------------------------------ *)
(* what is left to read: the unread bytes, plus one for a current token that is not EOF *)
Definition msr (st : pst) : nat := (length (p_src st) + (if is st KEOF then 0 else 1))%nat.

Definition Gp (st : pst) (k : nat) (r : spres pst) : Prop :=
  match r with SFuel => False | SOk st' => (msr st' + k <= msr st)%nat | _ => True end.
Definition G {A : Type} (st : pst) (k : nat) (r : spres (A * pst)) : Prop :=
  match r with SFuel => False | SOk (_, st') => (msr st' + k <= msr st)%nat | _ => True end.

Lemma T_read : forall st, Gp st (if is st KEOF then 0 else 1) (read_token st).
Proof.
  intros st. unfold Gp, read_token. pose proof (lex_next_spec (p_src st)) as H.
  destruct (lex_next (p_src st)) as [[t s']| |]; [|exact I|exact H]. destruct H as [H1 H2].
  unfold msr. cbn [p_src p_tok]. unfold is at 1. cbn [p_tok].
  destruct (ttype_beq (k_type t) KEOF) eqn:E.
  - destruct (is st KEOF); lia.
  - assert (Hne : k_type t <> KEOF) by (intros Hk; rewrite Hk in E; discriminate). specialize (H2 Hne). destruct (is st KEOF); lia.
Qed.

Lemma is_tk_eq : forall st K, is st K = true -> k_type (p_tok st) = K.
Proof. intros st K H. unfold is in H. destruct (k_type (p_tok st)), K; try discriminate; reflexivity. Qed.

Lemma not_eof : forall st K, is st K = true -> K <> KEOF -> is st KEOF = false.
Proof. intros st K H Hne. apply is_tk_eq in H. unfold is. rewrite H. destruct K; try reflexivity. contradiction. Qed.

Local Notation "x <- e ;; f" := (sbind e (fun x => f)) (at level 61, e at next level, right associativity).
Local Notation "' p <- e ;; f" := (sbind e (fun p => f)) (at level 61, p pattern, e at next level, right associativity).

(* use a fact [H : G st k (call)] or [Gp st k (call)] about a call occurring in the goal: case on its result *)
Ltac head_call X := match X with sbind ?e _ => head_call e | _ => X end.
Ltac use H n :=
  let F := fresh "F" in
  pose proof H as F;
  match goal with
  | |- G _ _ ?X => let e := head_call X in
      (match type of F with
       | G ?s ?k _ => change (G s k e) in F; revert F; destruct e as [[? n]| | |]
       | Gp ?s ?k _ => change (Gp s k e) in F; revert F; destruct e as [n| | |]
       end)
  | |- Gp _ _ ?X => let e := head_call X in
      (match type of F with
       | G ?s ?k _ => change (G s k e) in F; revert F; destruct e as [[? n]| | |]
       | Gp ?s ?k _ => change (Gp s k e) in F; revert F; destruct e as [n| | |]
       end)
  end; cbn [G Gp sbind]; intros F; try exact I; try contradiction.
(* [is st KEOF = false] from a positive test on the current token *)
Ltac eofc st :=
  match goal with
  | H : is st KEOF = false |- _ => idtac
  | H : is st ?K = true |- _ => assert (is st KEOF = false) by (apply (not_eof st K H); discriminate)
  end.
(* read a token from a state known not to be at EOF *)
Ltac rdne st n :=
  eofc st;
  let F := fresh "F" in
  pose proof (T_read st) as F;
  match goal with H : is st KEOF = false |- _ => rewrite H in F end;
  revert F; destruct (read_token st) as [n| | |]; cbn [Gp sbind]; intros F; try exact I; try contradiction.
Ltac fin := cbn [G Gp]; first [exact I | lia].

Lemma T_expect : forall K st, K <> KEOF -> Gp st 1 (expect K st).
Proof.
  intros K st HK. unfold expect. destruct (is st K) eqn:E; [|exact I].
  assert (is st KEOF = false) by (apply (not_eof st K E); exact HK). rdne st st1. fin.
Qed.

Lemma T_opt_comma : forall st, Gp st 0 (opt_comma st).
Proof. intros st. unfold opt_comma. destruct (is st KComma) eqn:E; [rdne st st1; fin|fin]. Qed.

Lemma or_not_eof : forall st K1 K2, is st K1 || is st K2 = true -> K1 <> KEOF -> K2 <> KEOF -> is st KEOF = false.
Proof. intros st K1 K2 H H1 H2. apply orb_true_iff in H. destruct H as [H|H]; [exact (not_eof st K1 H H1)|exact (not_eof st K2 H H2)]. Qed.

Lemma T_annots : forall fuel acc st, (2 * msr st + 1 <= fuel)%nat -> G st 0 (parse_annotations fuel acc st).
Proof.
  induction fuel as [|f IH]; intros acc st Hf; [lia|]. cbn [parse_annotations].
  destruct (is st KAt) eqn:EAt; cbn [negb]; [|fin]. rdne st st1.
  destruct (is st1 KIdent || is st1 KReserved) eqn:E1; cbn [negb]; [|fin].
  assert (is st1 KEOF = false) by (apply (or_not_eof st1 _ _ E1); discriminate). rdne st1 st2.
  destruct (is st2 KLParen) eqn:E2.
  - rdne st2 st3. destruct (is st3 KString) eqn:E3; cbn [negb]; [|fin]. rdne st3 st4.
    use (T_expect KRParen st4 ltac:(discriminate)) st5. destruct (has_key (txt st1) acc); [fin|].
    use (IH (rec_insert (txt st1) (txt st3) acc) st5 ltac:(lia)) st6. fin.
  - cbn [sbind]. destruct (has_key (txt st1) acc); [fin|]. use (IH (rec_insert (txt st1) [] acc) st2 ltac:(lia)) st3. fin.
Qed.

Lemma T_path_rest : forall fuel path st, (2 * msr st + 1 <= fuel)%nat -> G st 0 (path_rest fuel path st).
Proof.
  induction fuel as [|f IH]; intros path st Hf; [lia|]. cbn [path_rest].
  destruct (is st KDoubleColon) eqn:E; cbn [negb]; [|fin]. rdne st st1.
  destruct (is st1 KIdent) eqn:E1; cbn [negb]; [|fin]. rdne st1 st2.
  use (IH (path ++ dcolon ++ txt st1) st2 ltac:(lia)) st3. fin.
Qed.

Lemma pso_not_eof : forall st, path_start_ok st = true -> is st KEOF = false.
Proof.
  intros st H. unfold path_start_ok in H. apply orb_true_iff in H. destruct H as [H|H]; [exact (not_eof st _ H ltac:(discriminate))|].
  apply andb_true_iff in H. destruct H as [H _]. exact (not_eof st _ H ltac:(discriminate)).
Qed.

Lemma T_parse_path : forall fuel st, (2 * msr st + 1 <= fuel)%nat -> G st 1 (parse_path fuel st).
Proof.
  intros fuel st Hf. unfold parse_path. destruct (path_start_ok st) eqn:E; cbn [negb]; [|fin].
  pose proof (pso_not_eof st E). rdne st st1. use (T_path_rest fuel (txt st) st1 ltac:(lia)) st2. fin.
Qed.

Lemma T_path_ref_rest : forall fuel path st, (2 * msr st + 1 <= fuel)%nat -> G st 0 (path_ref_rest fuel path st).
Proof.
  induction fuel as [|f IH]; intros path st Hf; [lia|]. cbn [path_ref_rest].
  destruct (is st KDoubleColon) eqn:E; cbn [negb]; [|fin]. rdne st st1.
  destruct (is st1 KString) eqn:E1; [rdne st1 st2; fin|].
  destruct (is st1 KIdent) eqn:E2; cbn [negb]; [|fin]. rdne st1 st2.
  use (IH (path ++ dcolon ++ txt st1) st2 ltac:(lia)) st3. fin.
Qed.

Lemma T_parse_path_for_ref : forall fuel st, (2 * msr st + 1 <= fuel)%nat -> G st 1 (parse_path_for_ref fuel st).
Proof.
  intros fuel st Hf. unfold parse_path_for_ref. destruct (path_start_ok st) eqn:E; cbn [negb]; [|fin].
  pose proof (pso_not_eof st E). rdne st st1. use (T_path_ref_rest fuel (txt st) st1 ltac:(lia)) st2. fin.
Qed.

Lemma T_idents_rest : forall fuel acc st, (2 * msr st + 1 <= fuel)%nat -> G st 0 (idents_rest fuel acc st).
Proof.
  induction fuel as [|f IH]; intros acc st Hf; [lia|]. cbn [idents_rest].
  destruct (is st KComma) eqn:E; cbn [negb]; [|fin]. rdne st st1.
  destruct (is st1 KIdent) eqn:E1; cbn [negb]; [|fin]. rdne st1 st2.
  use (IH (acc ++ [txt st1]) st2 ltac:(lia)) st3. fin.
Qed.

Lemma T_parse_idents : forall fuel st, (2 * msr st + 1 <= fuel)%nat -> G st 1 (parse_idents fuel st).
Proof.
  intros fuel st Hf. unfold parse_idents. destruct (is st KIdent) eqn:E; cbn [negb]; [|fin].
  rdne st st1. use (T_idents_rest fuel [txt st] st1 ltac:(lia)) st2. fin.
Qed.

Lemma T_parse_name : forall st, G st 1 (parse_name st).
Proof.
  intros st. unfold parse_name. destruct (is st KIdent || is st KReserved && kw st "__cedar" || is st KString) eqn:E; [|fin].
  assert (is st KEOF = false).
  { apply orb_true_iff in E. destruct E as [E|E]; [|exact (not_eof st _ E ltac:(discriminate))]. apply pso_not_eof. exact E. }
  rdne st st1. fin.
Qed.

Lemma T_names_rest : forall fuel acc st, (2 * msr st + 1 <= fuel)%nat -> G st 0 (names_rest fuel acc st).
Proof.
  induction fuel as [|f IH]; intros acc st Hf; [lia|]. cbn [names_rest].
  destruct (is st KComma) eqn:E; cbn [negb]; [|fin]. rdne st st1. use (T_parse_name st1) st2.
  match goal with |- G _ _ (names_rest f (acc ++ [?x]) st2) => use (IH (acc ++ [x]) st2 ltac:(lia)) st3 end. fin.
Qed.

Lemma T_parse_names : forall fuel st, (2 * msr st + 1 <= fuel)%nat -> G st 1 (parse_names fuel st).
Proof.
  intros fuel st Hf. unfold parse_names. use (T_parse_name st) st1.
  match goal with |- G _ _ (names_rest fuel ?a st1) => use (T_names_rest fuel a st1 ltac:(lia)) st2 end. fin.
Qed.

Lemma T_etl : forall fuel acc st, (2 * msr st + 2 <= fuel)%nat -> G st 0 (entity_types_loop fuel acc st).
Proof.
  induction fuel as [|f IH]; intros acc st Hf; [lia|]. cbn [entity_types_loop].
  destruct (is st KRBracket) eqn:E; [rdne st st1; fin|].
  use (T_parse_path f st ltac:(lia)) st1.
  destruct (is st1 KComma) eqn:E1.
  - rdne st1 st2. match goal with |- G _ _ (entity_types_loop f ?a st2) => use (IH a st2 ltac:(lia)) st3 end. fin.
  - destruct (is st1 KRBracket); cbn [negb]; [|fin].
    match goal with |- G _ _ (entity_types_loop f ?a st1) => use (IH a st1 ltac:(lia)) st3 end. fin.
Qed.

Lemma T_parse_entity_types : forall fuel st, (2 * msr st + 2 <= fuel)%nat -> G st 1 (parse_entity_types fuel st).
Proof.
  intros fuel st Hf. unfold parse_entity_types. destruct (is st KLBracket) eqn:E.
  - rdne st st1. use (T_etl fuel [] st1 ltac:(lia)) st2. fin.
  - use (T_parse_path fuel st ltac:(lia)) st1. fin.
Qed.

Lemma T_parse_qual_name : forall fuel st, (2 * msr st + 1 <= fuel)%nat -> G st 1 (parse_qual_name fuel st).
Proof.
  intros fuel st Hf. unfold parse_qual_name. destruct (is st KString) eqn:E; [rdne st st1; fin|].
  pose proof (T_parse_path_for_ref fuel st Hf) as F. revert F.
  destruct (parse_path_for_ref fuel st) as [[[[path s] q] st1]| | |]; cbn [G sbind]; intros F; try exact I; try contradiction.
  destruct q; fin.
Qed.

Lemma T_apl : forall fuel acc st, (2 * msr st + 2 <= fuel)%nat -> G st 0 (action_parents_loop fuel acc st).
Proof.
  induction fuel as [|f IH]; intros acc st Hf; [lia|]. cbn [action_parents_loop].
  destruct (is st KRBracket) eqn:E; [rdne st st1; fin|].
  use (T_parse_qual_name f st ltac:(lia)) st1.
  destruct (is st1 KComma) eqn:E1.
  - rdne st1 st2. match goal with |- G _ _ (action_parents_loop f ?a st2) => use (IH a st2 ltac:(lia)) st3 end. fin.
  - destruct (is st1 KRBracket); cbn [negb]; [|fin].
    match goal with |- G _ _ (action_parents_loop f ?a st1) => use (IH a st1 ltac:(lia)) st3 end. fin.
Qed.

Lemma T_parse_action_parents : forall fuel st, (2 * msr st + 2 <= fuel)%nat -> G st 1 (parse_action_parents fuel st).
Proof.
  intros fuel st Hf. unfold parse_action_parents. destruct (is st KLBracket) eqn:E.
  - rdne st st1. use (T_apl fuel [] st1 ltac:(lia)) st2. fin.
  - use (T_parse_qual_name fuel st ltac:(lia)) st1. fin.
Qed.

Lemma T_types : forall fuel,
  (forall st, (2 * msr st + 2 <= fuel)%nat -> G st 1 (parse_type fuel st))
  /\ (forall st, (2 * msr st + 1 <= fuel)%nat -> G st 1 (parse_record_type fuel st))
  /\ (forall rec st, (2 * msr st + 2 <= fuel)%nat -> G st 0 (record_loop fuel rec st)).
Proof.
  induction fuel as [|f [IHt [IHr IHl]]]; [repeat split; intros; lia|]. repeat split.
  - intros st Hf. cbn [parse_type]. destruct (is st KLBrace) eqn:E.
    { use (IHr st ltac:(lia)) st1. fin. }
    destruct (is st KIdent && kw st "Set") eqn:E1.
    + apply andb_true_iff in E1. destruct E1 as [E1 _]. rdne st st1.
      use (T_expect KLAngle st1 ltac:(discriminate)) st2. use (IHt st2 ltac:(lia)) st3.
      use (T_expect KRAngle st3 ltac:(discriminate)) st4. fin.
    + use (T_parse_path f st ltac:(lia)) st1. fin.
  - intros st Hf. cbn [parse_record_type]. use (T_expect KLBrace st ltac:(discriminate)) st1. use (IHl [] st1 ltac:(lia)) st2. fin.
  - intros rec st Hf. cbn [record_loop]. destruct (is st KRBrace) eqn:E; [rdne st st1; fin|].
    destruct (is st KEOF) eqn:E0; [fin|].
    use (T_annots f [] st ltac:(lia)) st1. use (T_parse_name st1) st2.
    destruct (is st2 KQuestion) eqn:E2.
    + rdne st2 st3. use (T_expect KColon st3 ltac:(discriminate)) st4. use (IHt st4 ltac:(lia)) st5. use (T_opt_comma st5) st6.
      match goal with |- G _ _ (record_loop f ?r st6) => use (IHl r st6 ltac:(lia)) st7 end. fin.
    + cbn [sbind]. use (T_expect KColon st2 ltac:(discriminate)) st4. use (IHt st4 ltac:(lia)) st5. use (T_opt_comma st5) st6.
      match goal with |- G _ _ (record_loop f ?r st6) => use (IHl r st6 ltac:(lia)) st7 end. fin.
Qed.

Lemma T_parse_type : forall fuel st, (2 * msr st + 2 <= fuel)%nat -> G st 1 (parse_type fuel st).
Proof. intros fuel. apply (T_types fuel). Qed.
Lemma T_parse_record_type : forall fuel st, (2 * msr st + 1 <= fuel)%nat -> G st 1 (parse_record_type fuel st).
Proof. intros fuel. apply (T_types fuel). Qed.

Lemma T_applies_loop : forall fuel pr rs cx st, (2 * msr st + 1 <= fuel)%nat -> G st 0 (applies_loop fuel pr rs cx st).
Proof.
  induction fuel as [|f IH]; intros pr rs cx st Hf; [lia|]. cbn [applies_loop].
  destruct (is st KRBrace) eqn:E.
  { destruct pr; [|fin]. destruct rs; [|fin]. rdne st st1. fin. }
  destruct (is st KEOF) eqn:E0; [fin|]. destruct (is st KIdent) eqn:E1; cbn [negb]; [|fin].
  destruct (kw st "principal").
  { destruct pr; [fin|]. rdne st st1. use (T_expect KColon st1 ltac:(discriminate)) st2. use (T_parse_entity_types f st2 ltac:(lia)) st3.
    match goal with |- G _ _ (match ?l with [] => _ | _ :: _ => _ end) => destruct l end; [fin|].
    use (T_opt_comma st3) st4. match goal with |- G _ _ (applies_loop f ?a ?b ?c st4) => use (IH a b c st4 ltac:(lia)) st5 end. fin. }
  destruct (kw st "resource").
  { destruct rs; [fin|]. rdne st st1. use (T_expect KColon st1 ltac:(discriminate)) st2. use (T_parse_entity_types f st2 ltac:(lia)) st3.
    match goal with |- G _ _ (match ?l with [] => _ | _ :: _ => _ end) => destruct l end; [fin|].
    use (T_opt_comma st3) st4. match goal with |- G _ _ (applies_loop f ?a ?b ?c st4) => use (IH a b c st4 ltac:(lia)) st5 end. fin. }
  destruct (kw st "context"); [|fin].
  destruct cx; [fin|]. rdne st st1. use (T_expect KColon st1 ltac:(discriminate)) st2. use (T_parse_type f st2 ltac:(lia)) st3.
  use (T_opt_comma st3) st4. match goal with |- G _ _ (applies_loop f ?a ?b ?c st4) => use (IH a b c st4 ltac:(lia)) st5 end. fin.
Qed.

Lemma T_parse_applies_to : forall fuel st, (2 * msr st + 1 <= fuel)%nat -> G st 1 (parse_applies_to fuel st).
Proof.
  intros fuel st Hf. unfold parse_applies_to. use (T_expect KLBrace st ltac:(discriminate)) st1.
  use (T_applies_loop fuel None None None st1 ltac:(lia)) st2. fin.
Qed.

Lemma T_enum_values_loop : forall fuel acc st, (2 * msr st + 1 <= fuel)%nat -> G st 0 (enum_values_loop fuel acc st).
Proof.
  induction fuel as [|f IH]; intros acc st Hf; [lia|]. cbn [enum_values_loop].
  destruct (is st KRBracket) eqn:E; [rdne st st1; fin|].
  destruct (is st KString) eqn:E1; cbn [negb]; [|fin]. rdne st st1.
  destruct (is st1 KComma) eqn:E2.
  - rdne st1 st2. use (IH (acc ++ [txt st]) st2 ltac:(lia)) st3. fin.
  - destruct (is st1 KRBracket); cbn [negb]; [|fin]. use (IH (acc ++ [txt st]) st1 ltac:(lia)) st3. fin.
Qed.

Lemma T_parse_enum_entity : forall fuel an names n st, (2 * msr st + 1 <= fuel)%nat -> G st 1 (parse_enum_entity fuel an names n st).
Proof.
  intros fuel an names n st Hf. unfold parse_enum_entity. use (T_expect KLBracket st ltac:(discriminate)) st1.
  use (T_enum_values_loop fuel [] st1 ltac:(lia)) st2. use (T_expect KSemicolon st2 ltac:(discriminate)) st3.
  match goal with |- G _ _ (match ?x with Some _ => _ | None => _ end) => destruct x end; fin.
Qed.

Lemma T_parse_entity : forall fuel an n st, (2 * msr st + 2 <= fuel)%nat -> G st 1 (parse_entity fuel an n st).
Proof.
  intros fuel an n st Hf. unfold parse_entity. use (T_parse_idents fuel st ltac:(lia)) st1.
  destruct (is st1 KIdent && kw st1 "enum") eqn:E.
  { apply andb_true_iff in E. destruct E as [E _]. rdne st1 st2. use (T_parse_enum_entity fuel an l n st2 ltac:(lia)) st3. fin. }
  assert (H2 : forall (k : (list str * pst) -> spres (x_ns * pst)),
               (forall ps st2, (msr st2 <= msr st1)%nat -> G st 1 (k (ps, st2))) ->
               G st 1 (sbind (if is st1 KReserved && kw st1 "in" then st2 <- read_token st1;; parse_entity_types fuel st2 else SOk ([], st1)) k)).
  { intros k Hk. destruct (is st1 KReserved && kw st1 "in") eqn:E1.
    - apply andb_true_iff in E1. destruct E1 as [E1 _]. rdne st1 st2. use (T_parse_entity_types fuel st2 ltac:(lia)) st3. apply Hk. lia.
    - cbn [sbind]. apply Hk. lia. }
  apply H2. clear H2. intros ps st2 H2.
  assert (H3 : forall (k : (option xrec * pst) -> spres (x_ns * pst)),
               (forall sh st3, (msr st3 <= msr st2)%nat -> G st 1 (k (sh, st3))) ->
               G st 1 (sbind (if is st2 KEquals then st3 <- read_token st2;; ' (fs, st4) <- parse_record_type fuel st3;; SOk (Some fs, st4)
                              else if is st2 KLBrace then ' (fs, st4) <- parse_record_type fuel st2;; SOk (Some fs, st4) else SOk (None, st2)) k)).
  { intros k Hk. destruct (is st2 KEquals) eqn:E1.
    - rdne st2 st3. use (T_parse_record_type fuel st3 ltac:(lia)) st4. apply Hk. lia.
    - destruct (is st2 KLBrace) eqn:E2.
      + use (T_parse_record_type fuel st2 ltac:(lia)) st4. apply Hk. lia.
      + cbn [sbind]. apply Hk. lia. }
  apply H3. clear H3. intros sh st3 H3.
  assert (H4 : forall (k : (option xty * pst) -> spres (x_ns * pst)),
               (forall tg st4, (msr st4 <= msr st3)%nat -> G st 1 (k (tg, st4))) ->
               G st 1 (sbind (if is st3 KIdent && kw st3 "tags" then st4 <- read_token st3;; ' (t, st5) <- parse_type fuel st4;; SOk (Some t, st5)
                              else SOk (None, st3)) k)).
  { intros k Hk. destruct (is st3 KIdent && kw st3 "tags") eqn:E1.
    - apply andb_true_iff in E1. destruct E1 as [E1 _]. rdne st3 st4. use (T_parse_type fuel st4 ltac:(lia)) st5. apply Hk. lia.
    - cbn [sbind]. apply Hk. lia. }
  apply H4. clear H4. intros tg st4 H4.
  use (T_expect KSemicolon st4 ltac:(discriminate)) st5.
  match goal with |- G _ _ (match ?x with Some _ => _ | None => _ end) => destruct x end; fin.
Qed.

Lemma T_parse_action : forall fuel an n st, (2 * msr st + 2 <= fuel)%nat -> G st 1 (parse_action fuel an n st).
Proof.
  intros fuel an n st Hf. unfold parse_action. use (T_parse_names fuel st ltac:(lia)) st1.
  assert (H2 : forall (k : (list (str * str) * pst) -> spres (x_ns * pst)),
               (forall ps st2, (msr st2 <= msr st1)%nat -> G st 1 (k (ps, st2))) ->
               G st 1 (sbind (if is st1 KReserved && kw st1 "in" then st2 <- read_token st1;; parse_action_parents fuel st2 else SOk ([], st1)) k)).
  { intros k Hk. destruct (is st1 KReserved && kw st1 "in") eqn:E1.
    - apply andb_true_iff in E1. destruct E1 as [E1 _]. rdne st1 st2. use (T_parse_action_parents fuel st2 ltac:(lia)) st3. apply Hk. lia.
    - cbn [sbind]. apply Hk. lia. }
  apply H2. clear H2. intros ps st2 H2.
  assert (H3 : forall (k : (option x_applies * pst) -> spres (x_ns * pst)),
               (forall ap st3, (msr st3 <= msr st2)%nat -> G st 1 (k (ap, st3))) ->
               G st 1 (sbind (if is st2 KIdent && kw st2 "appliesTo" then st3 <- read_token st2;; ' (at_, st4) <- parse_applies_to fuel st3;; SOk (Some at_, st4)
                              else SOk (None, st2)) k)).
  { intros k Hk. destruct (is st2 KIdent && kw st2 "appliesTo") eqn:E1.
    - apply andb_true_iff in E1. destruct E1 as [E1 _]. rdne st2 st3. use (T_parse_applies_to fuel st3 ltac:(lia)) st4. apply Hk. lia.
    - cbn [sbind]. apply Hk. lia. }
  apply H3. clear H3. intros ap st3 H3.
  assert (H4 : forall (k : pst -> spres (x_ns * pst)),
               (forall st4, (msr st4 <= msr st3)%nat -> G st 1 (k st4)) ->
               G st 1 (sbind (if is st3 KIdent && kw st3 "attributes" then st4 <- read_token st3;; st5 <- expect KLBrace st4;; expect KRBrace st5 else SOk st3) k)).
  { intros k Hk. destruct (is st3 KIdent && kw st3 "attributes") eqn:E1.
    - apply andb_true_iff in E1. destruct E1 as [E1 _]. rdne st3 st4. use (T_expect KLBrace st4 ltac:(discriminate)) st5.
      use (T_expect KRBrace st5 ltac:(discriminate)) st6. apply Hk. lia.
    - cbn [sbind]. apply Hk. lia. }
  apply H4. clear H4. intros st4 H4.
  use (T_expect KSemicolon st4 ltac:(discriminate)) st5.
  match goal with |- G _ _ (match ?x with Some _ => _ | None => _ end) => destruct x end; fin.
Qed.

Lemma T_parse_type_decl : forall fuel an n st, (2 * msr st + 2 <= fuel)%nat -> G st 1 (parse_type_decl fuel an n st).
Proof.
  intros fuel an n st Hf. unfold parse_type_decl. destruct (is st KIdent) eqn:E; cbn [negb]; [|fin].
  destruct (is_reserved_type_name (txt st)); [fin|]. rdne st st1. use (T_expect KEquals st1 ltac:(discriminate)) st2.
  use (T_parse_type fuel st2 ltac:(lia)) st3. use (T_expect KSemicolon st3 ltac:(discriminate)) st4.
  destruct (has_key (txt st) (xs_commons n)); fin.
Qed.

Lemma T_parse_decl : forall fuel an n st, (2 * msr st + 2 <= fuel)%nat -> G st 1 (parse_decl fuel an n st).
Proof.
  intros fuel an n st Hf. unfold parse_decl. destruct (is st KIdent) eqn:E; cbn [negb]; [|fin].
  destruct (kw st "entity"); [rdne st st1; use (T_parse_entity fuel an n st1 ltac:(lia)) st2; fin|].
  destruct (kw st "action"); [rdne st st1; use (T_parse_action fuel an n st1 ltac:(lia)) st2; fin|].
  destruct (kw st "type"); [rdne st st1; use (T_parse_type_decl fuel an n st1 ltac:(lia)) st2; fin|fin].
Qed.

Lemma T_namespace_loop : forall fuel inner st, (2 * msr st + 3 <= fuel)%nat -> G st 0 (namespace_loop fuel inner st).
Proof.
  induction fuel as [|f IH]; intros inner st Hf; [lia|]. cbn [namespace_loop].
  destruct (is st KRBrace) eqn:E; [rdne st st1; fin|]. destruct (is st KEOF) eqn:E0; [fin|].
  use (T_annots f [] st ltac:(lia)) st1.
  match goal with |- G _ _ (sbind (parse_decl f ?a inner st1) _) => use (T_parse_decl f a inner st1 ltac:(lia)) st2 end.
  match goal with |- G _ _ (namespace_loop f ?i st2) => use (IH i st2 ltac:(lia)) st3 end. fin.
Qed.

Lemma T_parse_namespace : forall fuel an st, (2 * msr st + 3 <= fuel)%nat -> G st 1 (parse_namespace fuel an st).
Proof.
  intros fuel an st Hf. unfold parse_namespace. use (T_parse_path fuel st ltac:(lia)) st1.
  match goal with |- G _ _ (if ?c then _ else _) => destruct c end; [fin|].
  use (T_expect KLBrace st1 ltac:(discriminate)) st2. use (T_namespace_loop fuel empty_ns st2 ltac:(lia)) st3. fin.
Qed.

Definition Gs (r : spres x_schema) : Prop := match r with SFuel => False | _ => True end.

Lemma T_schema_loop : forall fuel bare nss st, (2 * msr st + 3 <= fuel)%nat -> Gs (schema_loop fuel bare nss st).
Proof.
  induction fuel as [|f IH]; intros bare nss st Hf; [lia|]. cbn [schema_loop].
  destruct (is st KEOF) eqn:E0; [exact I|].
  pose proof (T_annots f [] st ltac:(lia)) as F. revert F.
  destruct (parse_annotations f [] st) as [[an st1]| | |]; cbn [G sbind]; intros F; try exact I; try contradiction.
  destruct (is st1 KIdent && kw st1 "namespace") eqn:E1.
  - apply andb_true_iff in E1. destruct E1 as [E1 _].
    pose proof (T_read st1) as F1. rewrite (not_eof st1 _ E1 ltac:(discriminate)) in F1. revert F1.
    destruct (read_token st1) as [st2| | |]; cbn [Gp sbind]; intros F1; try exact I; try contradiction.
    pose proof (T_parse_namespace f an st2 ltac:(lia)) as F2. revert F2.
    destruct (parse_namespace f an st2) as [[[name ns] st3]| | |]; cbn [G sbind]; intros F2; try exact I; try contradiction.
    destruct (has_key name nss); [exact I|]. apply IH. lia.
  - pose proof (T_parse_decl f an bare st1 ltac:(lia)) as F2. revert F2.
    destruct (parse_decl f an bare st1) as [[bare' st2]| | |]; cbn [G sbind]; intros F2; try exact I; try contradiction.
    apply IH. lia.
Qed.

(* C10 for the schema text parser: the fuel handed out by ParseSchema is always enough *)
Theorem parse_schema_total : forall src, parse_schema src <> SFuel.
Proof.
  intros src. unfold parse_schema.
  pose proof (T_read {| p_tok := mk_tok KEOF []; p_src := src |}) as F. revert F.
  destruct (read_token {| p_tok := mk_tok KEOF []; p_src := src |}) as [st| | |]; cbn [Gp sbind]; intros F; try discriminate; try contradiction.
  unfold msr at 2 in F. cbn [p_src p_tok is k_type mk_tok ttype_beq] in F.
  pose proof (T_schema_loop (parse_schema_fuel (length src)) empty_ns [] st ltac:(unfold parse_schema_fuel; lia)) as H.
  intros E. rewrite E in H. exact H.
Qed.


Print Assumptions parse_schema_total.
