(* x/exp/batch (Impl/Batch.v): the batch authorizer delivers exactly the brute-force results, WITHOUT the
   restriction [tmpl_ok] of Proofs/BatchProofs.v: unknowns (variable marker entities) may occur anywhere in a
   request part, including inside sets, sets of records, sets of sets.

   What had to be added to BatchProofs.  [brute] substitutes all variables at once ([subst_env (sigma_of b)]);
   [do_batch] substitutes them one at a time, and [clone_sub] rebuilds every set with [mk_set] after each single
   substitution.  For a set this is
        mk_set (map f (members (mk_set (map g l))))     versus     mk_set (map (f o g) l).
   In the model [mk_set l = VSet (dedup l [])] keeps the FIRST occurrence of every [veq]-class, in list order (the
   Go NewSet also keeps the first inserted representative of a class; the slot layout of the hash table is not
   part of [value]).  So the two sides are LITERALLY equal as soon as f maps veq values to veq values
   ([dd_map_dd] / [mk_set_map_dedup]): an element dropped by the inner dedup is veq to an earlier one, hence its
   image is veq to an earlier image and would be dropped by the outer dedup anyway.  Substitution respects veq on
   well-formed values ([subst_veq]), which gives [subst_compose_full]: no "up to veq" weakening is needed, the
   [br_request] components are equal on the nose, and no counterexample exists in this model (see the examples
   at the end: two unknowns in one set receiving veq-but-not-identical values, sets of sets, sets of records).

   Hypotheses [batch_hyps' vars en ps]: store clean; every request part is well-formed and contains no ignore
   marker ([Q2], i.e. [tq] minus [tmpl_ok]); every policy [policy_clean]; every candidate value [val_ok]. *)
From Coq Require Import ZArith List Bool Lia Arith String.
Import ListNotations.
From Cedar Require Import Base.Int64 Lang.Value Lang.Expr Impl.Like Impl.InSearch Impl.Eval Impl.Partial
  Impl.Authorize Impl.Batch Proofs.ValueProofs Proofs.AuthorizeProofs Proofs.PartialProofs Proofs.BatchProofs.

(* ========================================================================================== *)
(* 1. dedup after a veq-compatible map absorbs an inner dedup                                  *)
(* ========================================================================================== *)

(* the members kept by dedup, without the accumulator prefix *)
Fixpoint dd (l acc : list value) : list value :=
  match l with
  | [] => []
  | x :: l' => if vmem x acc then dd l' acc else x :: dd l' (x :: acc)
  end.

Lemma dedup_dd : forall l acc, dedup l acc = rev acc ++ dd l acc.
Proof.
  induction l as [|x l IH]; intros acc; cbn [dedup dd].
  - rewrite app_nil_r. reflexivity.
  - destruct (vmem x acc); rewrite IH; [reflexivity|]. cbn [rev]. rewrite <- app_assoc. reflexivity.
Qed.

Lemma dedup_nil_dd l : dedup l [] = dd l [].
Proof. rewrite dedup_dd. reflexivity. Qed.

Section DedupMap.
  Variable f : value -> value.
  Variable P : value -> Prop.
  Hypothesis f_veq : forall x a, P x -> P a -> veq x a = true -> veq (f x) (f a) = true.

  Lemma dd_map_dd : forall l A B, Forall P l -> Forall P A ->
    (forall a, In a A -> vmem (f a) B = true) ->
    dd (map f (dd l A)) B = dd (map f l) B.
  Proof.
    induction l as [|x l IH]; intros A B Hl HA Hinv; [reflexivity|].
    inversion Hl as [|? ? Hx Hl']; subst. cbn [dd map].
    destruct (vmem x A) eqn:ExA.
    - apply vmem_true_iff in ExA. destruct ExA as (a & Ha & Rxa).
      assert (Hfx : vmem (f x) B = true).
      { pose proof (Hinv a Ha) as Hb. apply vmem_true_iff in Hb. destruct Hb as (b & Hb & Rab).
        apply vmem_true_iff. exists b. split; [exact Hb|].
        eapply veq_trans_nowf; [|exact Rab]. apply f_veq; auto. rewrite Forall_forall in HA. auto. }
      rewrite Hfx. apply IH; auto.
    - cbn [map dd]. destruct (vmem (f x) B) eqn:EfB.
      + apply IH; auto. intros a [<-|Ha]; auto.
      + f_equal. apply IH; auto. intros a [<-|Ha].
        * rewrite vmem_cons, veq_refl. reflexivity.
        * rewrite vmem_cons, (Hinv a Ha). apply orb_true_r.
  Qed.

  Lemma mk_set_map_dedup l : Forall P l -> mk_set (map f (dedup l [])) = mk_set (map f l).
  Proof.
    intros Hl. unfold mk_set. rewrite !dedup_nil_dd. apply (f_equal VSet).
    apply dd_map_dd; auto; try (intros a []).
  Qed.
End DedupMap.

(* ========================================================================================== *)
(* 2. Substitution: preserves well-formedness / absence of ignore markers, respects veq        *)
(* ========================================================================================== *)

Lemma val_ok_wf v : val_ok v -> wf_value v = true.
Proof. intros [_ H]. exact H. Qed.

Lemma subst_wf s : sigma_ok s -> forall v, wf_value v = true -> wf_value (subst_val s v) = true.
Proof.
  intros Hs. apply (value_ind' (fun v => wf_value v = true -> wf_value (subst_val s v) = true)); try (intros; assumption).
  - intros t i _. cbn [subst_val]. destruct (str_eqb t variable_type); [|reflexivity].
    destruct (s i) as [w|] eqn:E; [|reflexivity]. apply val_ok_wf. eapply Hs. exact E.
  - intros l IH Hw. cbn [subst_val]. apply mk_set_wf. apply wf_set_inv in Hw. destruct Hw as [_ Hw].
    rewrite Forall_forall in *. intros y Hy. apply in_map_iff in Hy. destruct Hy as (x & <- & Hx). auto.
  - intros l IH Hw. cbn [subst_val]. apply wf_rec_inv in Hw. destruct Hw as [Hk Hw].
    rewrite wf_value_record. apply andb_true_iff. split.
    + rewrite <- Hk. apply keys_sorted_ext. rewrite map_map. cbn [fst]. reflexivity.
    + apply forallb_forall. intros kv Hkv. apply in_map_iff in Hkv. destruct Hkv as (kv0 & <- & Hkv0).
      cbn [snd]. rewrite Forall_forall in *. apply IH; auto.
Qed.

Lemma subst_noign s : sigma_ok s -> forall v, has_marker is_ignore v = false -> has_marker is_ignore (subst_val s v) = false.
Proof.
  intros Hs. apply (value_ind' (fun v => has_marker is_ignore v = false -> has_marker is_ignore (subst_val s v) = false));
    try (intros; assumption).
  - intros t i H. cbn [subst_val]. destruct (str_eqb t variable_type); [|exact H].
    destruct (s i) as [w|] eqn:E; [|exact H]. destruct (Hs i w E) as [Hm _]. apply marker_free_inv in Hm. tauto.
  - intros l IH H. cbn [subst_val]. apply (h_mkset _ (hered_nm is_ignore)).
    rewrite has_marker_set, existsb_false_Forall in H.
    rewrite Forall_forall in *. intros y Hy. apply in_map_iff in Hy. destruct Hy as (x & <- & Hx). auto.
  - intros l IH H. cbn [subst_val]. rewrite has_marker_record, existsb_false_Forall in *.
    rewrite Forall_forall in *. intros kv Hkv. apply in_map_iff in Hkv. destruct Hkv as (kv0 & <- & Hkv0).
    cbn [snd]. apply IH; auto.
Qed.

Lemma subst_Q2 s : sigma_ok s -> forall v, Q2 v -> Q2 (subst_val s v).
Proof. intros Hs v [Hw Hi]. split; [apply subst_wf | apply subst_noign]; auto. Qed.

(* substitution maps veq values to veq values (well-formed arguments) *)
Lemma subst_veq s : sigma_ok s -> forall x, wf_value x = true -> forall y, wf_value y = true ->
  veq x y = true -> veq (subst_val s x) (subst_val s y) = true.
Proof.
  intros Hs.
  apply (value_ind' (fun x => wf_value x = true -> forall y, wf_value y = true ->
                              veq x y = true -> veq (subst_val s x) (subst_val s y) = true));
    try (intros; match goal with H : veq ?a ?b = true |- _ => apply atomic_veq_l in H; [subst; apply veq_refl | exact I] end).
  - (* sets *)
    intros l1 IH Hw1 y Hw2 Hxy. destruct (veq_set_l_inv _ _ Hxy) as [l2 ->].
    assert (Hyx : veq (VSet l2) (VSet l1) = true) by (rewrite veq_sym; auto).
    pose proof (wf_set_inv _ Hw1) as [_ Hm1]. pose proof (wf_set_inv _ Hw2) as [_ Hm2].
    apply veq_set_iff in Hxy. destruct Hxy as [_ S12]. apply veq_set_iff in Hyx. destruct Hyx as [_ S21].
    rewrite Forall_forall in IH.
    assert (W1 : Forall (fun v => wf_value v = true) (map (subst_val s) l1)).
    { rewrite Forall_forall. intros z Hz. apply in_map_iff in Hz. destruct Hz as (a & <- & Ha). apply subst_wf; auto. }
    assert (W2 : Forall (fun v => wf_value v = true) (map (subst_val s) l2)).
    { rewrite Forall_forall. intros z Hz. apply in_map_iff in Hz. destruct Hz as (a & <- & Ha). apply subst_wf; auto. }
    cbn [subst_val]. apply mk_set_order_irrelevant; auto.
    intros z Hz.
    destruct (vmem z (map (subst_val s) l1)) eqn:E1; symmetry.
    + apply vmem_true_iff in E1. destruct E1 as (fa & Hfa & Rz). apply in_map_iff in Hfa. destruct Hfa as (a & <- & Ha).
      destruct (S12 a Ha) as (b & Hb & Rab). apply vmem_true_iff. exists (subst_val s b). split; [apply in_map; exact Hb|].
      eapply veq_trans_nowf; [exact Rz|]. apply IH; auto.
    + destruct (vmem z (map (subst_val s) l2)) eqn:E2; [|reflexivity]. rewrite <- E1. symmetry.
      apply vmem_true_iff in E2. destruct E2 as (fb & Hfb & Rz). apply in_map_iff in Hfb. destruct Hfb as (b & <- & Hb).
      destruct (S21 b Hb) as (a & Ha & Rba). apply vmem_true_iff. exists (subst_val s a). split; [apply in_map; exact Ha|].
      eapply veq_trans_nowf; [exact Rz|].
      rewrite veq_sym by (apply subst_wf; auto). apply IH; auto. rewrite veq_sym; auto.
  - (* records *)
    intros l1 IH Hw1 y Hw2 Hxy. destruct (veq_rec_l_inv _ _ Hxy) as [l2 ->].
    pose proof (wf_rec_inv _ Hw1) as [_ Hm1]. pose proof (wf_rec_inv _ Hw2) as [_ Hm2].
    cbn [subst_val]. rewrite veq_record in *. clear Hw1 Hw2.
    revert l2 Hm2 Hxy. induction IH as [|[k x] l1 Hx _ IHl]; intros [|[k' y] l2] Hm2; cbn [rec_eqb map]; try discriminate; auto.
    cbn [fst snd] in *. rewrite !andb_true_iff. intros [[Hk Rxy] Hr].
    inversion Hm1 as [|? ? Hwx Hm1']; subst. inversion Hm2 as [|? ? Hwy Hm2']; subst. cbn [snd] in *.
    repeat split; auto.
Qed.

(* ========================================================================================== *)
(* 3. Sequential substitution = simultaneous substitution, for every well-formed template      *)
(* ========================================================================================== *)

Lemma subst_compose_full s k v : val_ok v -> sigma_ok s -> forall r, wf_value r = true ->
  subst_val s (subst_val (single k v) r) = subst_val (cons_sigma k v s) r.
Proof.
  intros Hv Hs.
  apply (value_ind' (fun r => wf_value r = true -> subst_val s (subst_val (single k v) r) = subst_val (cons_sigma k v s) r));
    try (intros; reflexivity).
  - intros t i _. cbn [subst_val]. unfold single, cons_sigma.
    destruct (str_eqb t variable_type) eqn:Et.
    + destruct (str_eqb i k); [apply subst_val_ok; exact Hv|]. cbn [subst_val]. rewrite Et. reflexivity.
    + cbn [subst_val]. rewrite Et. reflexivity.
  - intros l IH Hw. apply wf_set_inv in Hw. destruct Hw as [_ Hm].
    cbn [subst_val]. unfold mk_set at 1. cbn [subst_val].
    rewrite (mk_set_map_dedup (subst_val s) (fun x => wf_value x = true)).
    + rewrite map_map. f_equal. apply map_ext_in. intros x Hx. rewrite Forall_forall in IH. apply IH; auto.
    + intros x a Hx Ha. apply subst_veq; auto.
    + rewrite Forall_forall. intros z Hz. apply in_map_iff in Hz. destruct Hz as (a & <- & Ha).
      apply subst_wf; auto. apply single_ok; exact Hv.
  - intros l IH Hw. apply wf_rec_inv in Hw. destruct Hw as [_ Hm].
    cbn [subst_val]. f_equal. rewrite map_map. cbn [fst snd].
    apply map_ext_in. intros kv Hkv. f_equal. rewrite Forall_forall in *. apply IH; auto.
Qed.

(* ---- environments ---- *)
Definition env_good' (en : env) : Prop := forall x, Q2 (var_value en x).

Lemma env_good'_wf en : env_good' en -> env_wf en.
Proof. intros H x. apply (H x). Qed.
Lemma env_good'_noign en : env_good' en -> no_ignore en.
Proof. intros H x. apply (H x). Qed.

(* the old hypothesis implies the new one *)
Lemma env_good_good' en : env_good en -> env_good' en.
Proof. intros H x. destruct (H x) as (Hw & _ & Hi). split; assumption. Qed.

Lemma subst_env_good' s en : sigma_ok s -> env_good' en -> env_good' (subst_env s en).
Proof. intros Hs H x. rewrite var_value_subst. apply subst_Q2; auto. Qed.

Lemma sub_env_good' en k v : val_ok v -> env_good' en -> env_good' (sub_env en k v).
Proof. intros Hv H. rewrite sub_env_subst. apply subst_env_good'; auto. apply single_ok; auto. Qed.

Lemma subst_env_compose_full s en k v : val_ok v -> sigma_ok s -> env_good' en ->
  subst_env s (sub_env en k v) = subst_env (cons_sigma k v s) en.
Proof.
  intros Hv Hs H. rewrite sub_env_subst. unfold subst_env. cbn [e_store e_principal e_action e_resource e_context].
  pose proof (subst_compose_full s k v Hv Hs _ (proj1 (H VPrincipal))) as E1.
  pose proof (subst_compose_full s k v Hv Hs _ (proj1 (H VAction))) as E2.
  pose proof (subst_compose_full s k v Hv Hs _ (proj1 (H VResource))) as E3.
  pose proof (subst_compose_full s k v Hv Hs _ (proj1 (H VContext))) as E4.
  cbn [var_value] in E1, E2, E3, E4. rewrite E1, E2, E3, E4. reflexivity.
Qed.

(* ========================================================================================== *)
(* 4. The leaves of the enumeration are the brute-force results                                *)
(* ========================================================================================== *)

(* batch_hyps minus tmpl_ok *)
Definition batch_hyps' (vars : list (str * list value)) (en : env) (ps : list (str * policy)) : Prop :=
  store_clean en /\ env_good' en /\
  Forall (fun ip => policy_clean (snd ip)) ps /\
  Forall (fun kv => Forall val_ok (snd kv)) vars.

Lemma batch_hyps_hyps' vars en ps : batch_hyps vars en ps -> batch_hyps' vars en ps.
Proof. intros (Hs & He & Hps & Hv). split; [exact Hs|]. split; [apply env_good_good'; exact He|]. split; assumption. Qed.

Lemma policy_sound_eff' en s p : store_clean en -> env_good' en -> policy_clean p ->
  match partial_policy en p with
  | Some r => sat (subst_env s en) r = sat (subst_env s en) p /\ p_effect r = p_effect p
  | None => sat (subst_env s en) p = false
  end.
Proof.
  intros Hs He Hp.
  pose proof (partial_policy_sound_gen en s p Hs (env_good'_wf _ He) Hp (env_good'_noign _ He)) as H.
  destruct (partial_policy en p) as [r|] eqn:E; [|exact H]. split; [exact H|].
  apply (partial_policy_clean en Hs (env_good'_wf _ He) (env_good'_noign _ He) p r Hp E).
Qed.

Lemma sigma_of_ok b : Forall (fun kv => val_ok (snd kv)) b -> sigma_ok (sigma_of b).
Proof. intros H i w E. unfold sigma_of in E. eapply (rec_get_Forall val_ok); eauto. Qed.

Lemma product_ok : forall vars, Forall (fun kv => Forall val_ok (snd kv)) vars ->
  forall b, In b (product vars) -> Forall (fun kv => val_ok (snd kv)) b.
Proof.
  induction vars as [|[key vals] vars IH]; intros Hv b Hb.
  - cbn [product] in Hb. destruct Hb as [<-|[]]. constructor.
  - inversion Hv as [|? ? Hvals Hv']; subst. cbn [snd] in Hvals.
    cbn [product] in Hb. apply in_flat_map in Hb. destruct Hb as (v & Hin & Hb).
    apply in_map_iff in Hb. destruct Hb as (rest & <- & Hrest).
    constructor; [|apply IH; auto]. cbn [snd]. rewrite Forall_forall in Hvals. auto.
Qed.

Lemma leaves_brute_full : forall vars en values ps, batch_hyps' vars en ps ->
  leaves vars en values ps =
  map (fun b => final_authz (subst_env (sigma_of b) en) (values ++ b) ps) (product vars).
Proof.
  induction vars as [|[key vals] vars IH]; intros en values ps (Hs & He & Hps & Hv).
  - cbn [leaves product map]. rewrite subst_env_nil by (apply env_good'_wf; exact He). rewrite app_nil_r. reflexivity.
  - cbn [leaves product]. rewrite map_flat_map.
    assert (Hen1 : match vars with [] => fix_ignores en | _ :: _ => en end = en).
    { destruct vars; [apply fix_ignores_id, env_good'_noign; exact He | reflexivity]. }
    rewrite Hen1. inversion Hv as [|? ? Hvals Hv']; subst. cbn [snd] in Hvals.
    apply flat_map_ext_F. eapply Forall_impl; [|exact Hvals]. intros v Hval.
    rewrite IH.
    + rewrite map_map. apply map_ext_in. intros b Hb.
      assert (Hsb : sigma_ok (sigma_of b)) by (apply sigma_of_ok; eapply product_ok; eauto).
      rewrite (subst_env_compose_full _ en key v Hval Hsb He), <- sigma_of_cons, <- app_assoc. cbn [app].
      apply final_authz_do_partial; [|exact Hps].
      intros p Hp. apply policy_sound_eff'; auto.
    + split; [exact Hs|]. split; [apply sub_env_good'; auto|]. split; [|exact Hv'].
      apply do_partial_clean; auto; [apply env_good'_wf | apply env_good'_noign]; exact He.
Qed.

Lemma do_batch_brute_full cancel vars en ps budget : batch_hyps' vars en ps ->
  cancel = false \/ vals_nonempty vars ->
  do_batch cancel vars en [] ps budget = run cancel (map (brute en ps) (product vars)) budget.
Proof.
  intros H Hc. rewrite do_batch_run by exact Hc. rewrite leaves_brute_full by exact H. reflexivity.
Qed.

(* ========================================================================================== *)
(* 5. Headline theorems                                                                        *)
(* ========================================================================================== *)

Theorem do_batch_is_bruteforce_full : forall vars en ps, batch_hyps' vars en ps ->
  let '(rs, _, st) := do_batch false vars en [] ps None in
  match st with
  | BOk => map Some rs = map (brute en ps) (product vars)
  | BInvalidPart => exists b, In b (product vars) /\ brute en ps b = None
  | _ => False
  end.
Proof.
  intros vars en ps H. rewrite (do_batch_brute_full false vars en ps None H (or_introl eq_refl)).
  destruct (run_unbounded (map (brute en ps) (product vars))) as (rs & st & -> & [[-> Hr]|[-> Hr]]).
  - exact Hr.
  - apply in_map_iff in Hr. destruct Hr as (b & Hb & Hin). eauto.
Qed.

Theorem batch_once_each_full : forall vars en ps, batch_hyps' vars en ps ->
  let '(rs, _, st) := do_batch false vars en [] ps None in
  st = BOk -> List.length rs = List.length (product vars) /\ map br_values rs = product vars.
Proof.
  intros vars en ps H. pose proof (do_batch_is_bruteforce_full vars en ps H) as Hb.
  destruct (do_batch false vars en [] ps None) as [[rs b] st]. intros ->.
  split; [|eapply map_some_values; exact Hb].
  rewrite <- (map_length Some rs), Hb, map_length. reflexivity.
Qed.

Theorem batch_stops_on_failure_full : forall vars en ps k, batch_hyps' vars en ps ->
  (forall b, In b (product vars) -> brute en ps b <> None) ->
  (k < List.length (product vars))%nat ->
  let '(full, _, _) := do_batch false vars en [] ps None in
  let '(rs, _, st) := do_batch false vars en [] ps (Some k) in
  st = BCallbackFailed /\ List.length rs = S k /\ rs = firstn (S k) full.
Proof.
  intros vars en ps k H Hsome Hk.
  rewrite !(do_batch_brute_full false vars en ps _ H (or_introl eq_refl)).
  destruct (all_some (brute en ps) (product vars) Hsome) as [full Hf]. rewrite Hf.
  assert (Hlen : List.length full = List.length (product vars)).
  { rewrite <- (map_length Some full), <- Hf, map_length. reflexivity. }
  rewrite run_all_some, run_fail by lia.
  split; [reflexivity|]. split; [|reflexivity]. rewrite firstn_length. lia.
Qed.

Theorem batch_stops_on_cancel_full : forall vars en ps k, batch_hyps' vars en ps ->
  (forall b, In b (product vars) -> brute en ps b <> None) ->
  (k <= List.length (product vars))%nat ->
  let '(full, _, _) := do_batch false vars en [] ps None in
  let '(rs, bud, st) := do_batch true vars en [] ps (Some k) in
  List.length rs = k /\ rs = firstn k full /\
  ((k < List.length (product vars))%nat -> st = BCancelled) /\
  (k = List.length (product vars) -> (0 < k)%nat -> st = BOk /\ bud = Some O).
Proof.
  intros vars en ps k H Hsome Hk.
  destruct k as [|k].
  - destruct (do_batch false vars en [] ps None) as [[full b0] st0].
    assert (E : do_batch true vars en [] ps (Some O) = ([], Some O, BCancelled)).
    { destruct vars as [|[key vals] vars]; reflexivity. }
    rewrite E. split; [reflexivity|]. split; [reflexivity|]. split; [intros; reflexivity | intros _ Hlt; lia].
  - assert (Hne : vals_nonempty vars).
    { apply product_nonempty. intros E. rewrite E in Hk. cbn in Hk. lia. }
    rewrite (do_batch_brute_full false vars en ps _ H (or_introl eq_refl)).
    rewrite (do_batch_brute_full true vars en ps _ H (or_intror Hne)).
    destruct (all_some (brute en ps) (product vars) Hsome) as [full Hf]. rewrite Hf.
    assert (Hlen : List.length full = List.length (product vars)).
    { rewrite <- (map_length Some full), <- Hf, map_length. reflexivity. }
    rewrite run_all_some.
    destruct (S k <? List.length (product vars))%nat eqn:E.
    + apply Nat.ltb_lt in E. rewrite run_cancel by lia.
      split; [rewrite firstn_length; lia|]. split; [reflexivity|]. split; [reflexivity | intros; lia].
    + apply Nat.ltb_ge in E. assert (Ek : S k = List.length full) by lia. rewrite Ek, run_cancel_all.
      split; [reflexivity|]. split; [rewrite firstn_all; reflexivity|]. split; [intros; lia | split; reflexivity].
Qed.

Theorem batch_authorize_bruteforce_full : forall vars en ps, batch_hyps' vars en ps ->
  let '(rs, st) := batch_authorize false vars en ps None in
  st = BOk -> map Some rs = map (brute en ps) (product vars).
Proof.
  intros vars en ps H. unfold batch_authorize.
  destruct (negb (forallb _ _)); [discriminate|].
  destruct (negb (forallb _ vars)); [discriminate|].
  destruct (existsb _ vars) eqn:Ee; [intros _; rewrite (product_empty _ Ee); reflexivity|].
  destruct H as (Hs & He & Hps & Hv).
  destruct vars as [|kv vars].
  - pose proof (final_authz_do_partial en (subst_env (sigma_of []) en)
                  (fun p Hp => policy_sound_eff' en _ p Hs He Hp) [] ps Hps) as E.
    rewrite (subst_env_nil en (env_good'_wf _ He)) in E.
    cbn [do_batch andb product map]. unfold brute.
    rewrite (fix_ignores_id en (env_good'_noign _ He)), (subst_env_nil en (env_good'_wf _ He)), E.
    destruct (final_authz en [] ps) as [r|]; [intros _; reflexivity | discriminate].
  - pose proof (do_batch_is_bruteforce_full (kv :: vars) en ps (conj Hs (conj He (conj Hps Hv)))) as Hb.
    destruct (do_batch false (kv :: vars) en [] ps None) as [[rs b] st].
    assert (Hfin : (match st, b with BOk, Some O => (rs, BOk) | _, _ => (rs, st) end) = (rs, st)).
    { destruct st; try reflexivity. destruct b as [[|]|]; reflexivity. }
    cbn [negb]. rewrite Hfin. intros ->. exact Hb.
Qed.

(* the theorems of BatchProofs are instances *)
Corollary do_batch_is_bruteforce_from_full : forall vars en ps, batch_hyps vars en ps ->
  let '(rs, _, st) := do_batch false vars en [] ps None in
  match st with
  | BOk => map Some rs = map (brute en ps) (product vars)
  | BInvalidPart => exists b, In b (product vars) /\ brute en ps b = None
  | _ => False
  end.
Proof. intros vars en ps H. apply do_batch_is_bruteforce_full, batch_hyps_hyps'; exact H. Qed.

(* ========================================================================================== *)
(* 6. Examples outside the fragment of BatchProofs (unknowns inside sets)                      *)
(* ========================================================================================== *)
Local Open Scope Z_scope.

(* the instance of BatchProofs.bx_set_nested: not covered by batch_hyps, covered by batch_hyps' *)
Example bx_set_not_tmpl_ok : tmpl_ok (e_context bx_env_set) = false.
Proof. reflexivity. Qed.

Example bx_set_hyps' : batch_hyps' bx_vars_set bx_env_set bx_ps_set.
Proof.
  split; [intros u ent H; discriminate|]. split; [intros x; destruct x; split; reflexivity|]. split.
  - repeat constructor; cbn [snd p_conds expr_forall node_clean]; repeat split; try reflexivity.
  - repeat constructor; reflexivity.
Qed.

(* context = { l: [?x, ?y],  m: [[?x, 1], [?y, 1]],  r: [{a: ?x}, {a: ?y}] }
   x in { 1, [1,2] },  y in { 1, [2,1] }: for (x,y) = (1,1) and ([1,2],[2,1]) the two unknowns of each set receive
   veq values (in the second case veq but NOT identical), so every set collapses to one member; the
   representative kept is the first one on both sides. *)
Definition fx_env : env :=
  {| e_store := []; e_principal := ex_user "a"; e_action := ex_action; e_resource := ex_photo "x";
     e_context := VRecord [(s_of "l", VSet [ex_var "x"; ex_var "y"]);
                           (s_of "m", VSet [VSet [ex_var "x"; VLong 1]; VSet [ex_var "y"; VLong 1]]);
                           (s_of "r", VSet [VRecord [(s_of "a", ex_var "x")]; VRecord [(s_of "a", ex_var "y")]])] |}.
Definition fx_vars : list (str * list value) :=
  [(s_of "x", [VLong 1; VSet [VLong 1; VLong 2]]); (s_of "y", [VLong 1; VSet [VLong 2; VLong 1]])].
(* permit when { context.l.contains(1) };  forbid when { context.r.contains({a: [2,1]}) } *)
Definition fx_ps : list (str * policy) :=
  [(s_of "p0", {| p_effect := true; p_principal := SAll; p_action := SAll; p_resource := SAll;
                  p_conds := [(true, EContains (EAccess (EVar VContext) (s_of "l")) (ELit (VLong 1)))] |});
   (s_of "p1", {| p_effect := false; p_principal := SAll; p_action := SAll; p_resource := SAll;
                  p_conds := [(true, EContains (EAccess (EVar VContext) (s_of "r"))
                                               (ELit (VRecord [(s_of "a", VSet [VLong 2; VLong 1])])))] |})].

Example fx_hyps' : batch_hyps' fx_vars fx_env fx_ps.
Proof.
  split; [intros u ent H; discriminate|]. split; [intros x; destruct x; split; reflexivity|]. split.
  - repeat constructor; cbn [snd p_conds expr_forall node_clean]; repeat split; try reflexivity.
  - repeat constructor; reflexivity.
Qed.

Example fx_not_tmpl_ok : tmpl_ok (e_context fx_env) = false.
Proof. reflexivity. Qed.

(* by computation: literally the brute-force results, requests included *)
Example fx_batch :
  let '(rs, _, st) := do_batch false fx_vars fx_env [] fx_ps None in
  st = BOk /\
  map Some rs = map (brute fx_env fx_ps) (product fx_vars) /\
  map br_decision rs = [Allow; Deny; Deny; Deny] /\
  map br_reasons rs = [[s_of "p0"]; [s_of "p1"]; [s_of "p1"]; [s_of "p1"]] /\
  map br_values rs = product fx_vars.
Proof. vm_compute. repeat split. Qed.

(* the request of the last leaf (x = [1,2], y = [2,1]): each set has collapsed to its first member *)
Example fx_last_request :
  let '(rs, _, _) := do_batch false fx_vars fx_env [] fx_ps None in
  map (fun r => snd (br_request r)) (skipn 3 rs) =
  [VRecord [(s_of "l", VSet [VSet [VLong 1; VLong 2]]);
            (s_of "m", VSet [VSet [VSet [VLong 1; VLong 2]; VLong 1]]);
            (s_of "r", VSet [VRecord [(s_of "a", VSet [VLong 1; VLong 2])]])]].
Proof. vm_compute. reflexivity. Qed.

(* and as an instance of the theorem *)
Example fx_batch_thm :
  let '(rs, _, st) := do_batch false fx_vars fx_env [] fx_ps None in
  match st with
  | BOk => map Some rs = map (brute fx_env fx_ps) (product fx_vars)
  | BInvalidPart => exists b, In b (product fx_vars) /\ brute fx_env fx_ps b = None
  | _ => False
  end.
Proof. exact (do_batch_is_bruteforce_full fx_vars fx_env fx_ps fx_hyps'). Qed.

Print Assumptions subst_veq.
Print Assumptions subst_compose_full.
Print Assumptions do_batch_is_bruteforce_full.
Print Assumptions batch_once_each_full.
Print Assumptions batch_stops_on_failure_full.
Print Assumptions batch_stops_on_cancel_full.
Print Assumptions batch_authorize_bruteforce_full.
