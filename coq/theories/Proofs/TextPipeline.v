(* The whole text pipeline in one statement: MarshalCedar bytes (Printer.render), read through ANY chunking of a non-failing reader by
   the buffered scanner (Impl/Scanner.v + Impl/Tokenizer.v), parsed by Impl/Parser.v, give back the policies in text normal form.
   Composition of C18 (scanner over every schedule = cursor specification), LexRender (lexing the rendered bytes yields the printer's
   tokens) and ParserRoundTrip (the parser reads the tokens back). *)
From Coq Require Import ZArith List Bool Lia Arith.
Import ListNotations.
From Cedar Require Import Lang.Value Impl.Like Lang.Expr Impl.Scanner Impl.Tokenizer Lang.Cursor Impl.Quote Impl.Parser Impl.Printer Lang.RoundTrip
  Proofs.ScannerProofs Proofs.CursorProofs Proofs.ScannerFailure Proofs.C18Proofs Proofs.LexRender.
Local Open Scope Z_scope.

Section Pipeline.
  Variables (is_printable is_gext : Z -> bool) (set_order : list value -> list nat) (print_ip : bool -> Z -> Z -> str) (extra : expr -> bool).
  Hypothesis print_ip_plain : forall v6 a p, Forall (fun c => 32 <= c < 127 /\ c <> 34 /\ c <> 92) (print_ip v6 a p).

  Theorem streamed_text_roundtrip : forall sep ps, all_ws sep ->
    Forall (fun ap => policy_ok set_order (fst ap) (snd ap) = true) ps ->
    exists f0, forall f b r, (f0 <= f)%nat -> (4 <= b)%nat -> no_fail r -> (List.length (r_sched r) + 2 <= f)%nat ->
      r_rest r = render (doc_items is_printable is_gext set_order print_ip extra sep ps) ->
      exists ts, tokenize f b r = Some (Some ts) /\
        exists res last, p_policies f ts [] = POk res [last] /\ t_type last = TEOF /\
          map (fun pp => (pp_annots pp, pp_policy pp)) res = map (fun ap => (fst ap, norm_policy set_order print_ip (snd ap))) ps.
  Proof.
    intros sep ps Hsep Hok.
    destruct (text_roundtrip_document_gen is_printable is_gext set_order print_ip extra print_ip_plain sep ps Hsep Hok) as [f1 H1].
    exists (f1 + S (List.length (render (doc_items is_printable is_gext set_order print_ip extra sep ps))))%nat.
    intros f b r Hf Hb Hnf Hs Hr.
    destruct (H1 f ltac:(lia)) as (ts & Etok & Hparse).
    exists ts. split; [|exact Hparse].
    destruct (tokenize f b r) as [res|] eqn:E.
    - pose proof (tokenize_refines_spec f b r res Hb Hnf E) as Hspec. rewrite Hr, Etok in Hspec. congruence.
    - exfalso. refine (tokenize_total_gen b r f Hb _ Hs E). rewrite Hr. lia.
  Qed.
End Pipeline.

Print Assumptions streamed_text_roundtrip.
