(* Proofs/CursorProofs.v — the specification tokenizer [spec_tokenize] (Lang/Cursor.v: the control flow of Impl/Tokenizer.v
   over the reader-free cursor) reports exact byte offsets, exact token texts, exact line/column positions, produces
   tokens in strictly increasing non-overlapping order, ends with exactly one EOF token, and terminates with fuel
   [length src + 1]. *)
From Coq Require Import ZArith List Bool Lia.
Import ListNotations.
From Cedar Require Import Base.Utf8 Lang.Value Impl.Scanner Impl.Tokenizer Lang.Cursor.
Local Open Scope Z_scope.

(* ------------------------------------------------------------------------------------------------------------- *)
(* 1. Decoding one character                                                                                      *)
(* ------------------------------------------------------------------------------------------------------------- *)

(* the (character, width) pair both [c_next] and [line_col] compute for a non-empty rest [b :: r] *)
Definition dec1 (b : Z) (r : list Z) : Z * nat := if b <? 128 then (b, 1%nat) else decode_rune (b :: r).

Lemma dec1_width : forall b r ch w, dec1 b r = (ch, w) -> (1 <= w <= S (length r))%nat.
Proof.
  intros b r ch w H. unfold dec1, decode_rune in H.
  repeat match type of H with
         | context [if ?c then _ else _] => destruct c
         | context [match ?l with [] => _ | _ :: _ => _ end] => destruct l
         end; inversion H; subst; cbn [length]; lia.
Qed.

Lemma skipn_nil_length : forall (A : Type) n (l : list A), skipn n l = [] -> (length l <= n)%nat.
Proof.
  intros A n l H. pose proof (skipn_length n l) as HL. rewrite H in HL. cbn [length] in HL. lia.
Qed.

Lemma skipn_add : forall (A : Type) w p (l : list A), skipn p (skipn w l) = skipn (w + p) l.
Proof.
  intros A w. induction w as [|w IH]; intros p l; [reflexivity|].
  destruct l as [|x l]; [destruct p; reflexivity|]. cbn [skipn Nat.add]. apply IH.
Qed.

Lemma skipn_cons_length : forall (A : Type) n (l : list A) b r, skipn n l = b :: r -> (n + S (length r) = length l)%nat.
Proof.
  intros A n l b r H. pose proof (skipn_length n l) as HL. rewrite H in HL. cbn [length] in HL. lia.
Qed.

(* ------------------------------------------------------------------------------------------------------------- *)
(* 2. [walk s p l0 c0 l c]: consuming exactly [p] bytes of [s] as whole characters, starting at line/column       *)
(*    (l0, c0), ends at line/column (l, c).  This is [line_col] as a relation.                                    *)
(* ------------------------------------------------------------------------------------------------------------- *)

Inductive walk : list Z -> nat -> Z -> Z -> Z -> Z -> Prop :=
| walk_0 : forall s l c, walk s 0 l c l c
| walk_S : forall s b r ch w p l0 c0 l c,
    s = b :: r -> dec1 b r = (ch, w) ->
    walk (skipn w s) p (if ch =? 10 then l0 + 1 else l0) (if ch =? 10 then 1 else c0 + 1) l c ->
    walk s (w + p) l0 c0 l c.

Lemma walk_line_col : forall s p l0 c0 l c, walk s p l0 c0 l c ->
  forall fuel, (p <= fuel)%nat -> line_col fuel s p l0 c0 = (l, c).
Proof.
  intros s p l0 c0 l c H. induction H as [s l c | s b r ch w p l0 c0 l c Hs Hd Hw IH]; intros fuel Hf.
  - destruct fuel; reflexivity.
  - pose proof (dec1_width _ _ _ _ Hd) as Hwd. subst s.
    destruct fuel as [|f]; [lia|].
    cbn [line_col]. destruct (w + p)%nat as [|n] eqn:Hn; [lia|].
    change (if b <? 128 then (b, 1%nat) else decode_rune (b :: r)) with (dec1 b r). rewrite Hd.
    replace (Nat.max w 1) with w by lia.
    replace (S n - w)%nat with p by lia.
    destruct (ch =? 10); apply IH; lia.
Qed.

Lemma walk_snoc : forall s p l0 c0 l c, walk s p l0 c0 l c ->
  forall b r ch w, skipn p s = b :: r -> dec1 b r = (ch, w) ->
  walk s (p + w) l0 c0 (if ch =? 10 then l + 1 else l) (if ch =? 10 then 1 else c + 1).
Proof.
  intros s p l0 c0 l c H. induction H as [s l c | s b0 r0 ch0 w0 p l0 c0 l c Hs Hd Hw IH]; intros b r ch w Hsk Hdec.
  - cbn [skipn] in Hsk. replace (0 + w)%nat with (w + 0)%nat by lia.
    eapply walk_S; [exact Hsk | exact Hdec | apply walk_0].
  - replace (w0 + p + w)%nat with (w0 + (p + w))%nat by lia.
    eapply walk_S; [exact Hs | exact Hd |].
    eapply IH; [|exact Hdec]. rewrite skipn_add. exact Hsk.
Qed.

Lemma walk_col_pos : forall s p l0 c0 l c, walk s p l0 c0 l c -> 1 <= c0 -> 1 <= c.
Proof.
  intros s p l0 c0 l c H. induction H as [s l c | s b r ch w p l0 c0 l c Hs Hd Hw IH]; intros Hc; [exact Hc|].
  apply IH. destruct (ch =? 10); lia.
Qed.

Lemma walk_position_of : forall src p l c, walk src p 1 1 l c -> (p <= length src)%nat -> position_of src p = (l, c).
Proof. intros src p l c H Hp. unfold position_of. apply walk_line_col; [exact H | lia]. Qed.

(* ------------------------------------------------------------------------------------------------------------- *)
(* 3. The cursor invariant                                                                                        *)
(* ------------------------------------------------------------------------------------------------------------- *)

(* byte offset at which the lookahead character (the one [c_next] returned last) starts *)
Definition pos (c : cursor) : nat := (c_idx c - c_lastCharLen c)%nat.

(* [cinv src c ch]: [c] is a cursor over [src] whose lookahead character is [ch]:
   - either [ch] is the character decoded at byte [pos c] (width [c_lastCharLen c] > 0), and the line/column fields
     are the bookkeeping of [c_next] for the exact line/column (l, cl) of [pos c];
   - or the end of the source was reached ([ch = rune_eof], width 0). *)
Definition cinv (src : list Z) (c : cursor) (ch : Z) : Prop :=
  c_src c = src /\ (c_idx c <= length src)%nat /\ (c_lastCharLen c <= c_idx c)%nat /\
  exists l cl, walk src (pos c) 1 1 l cl /\
    ((exists b r, (0 < c_lastCharLen c)%nat /\ skipn (pos c) src = b :: r /\ dec1 b r = (ch, c_lastCharLen c) /\
        (if ch =? 10 then c_line c = l + 1 /\ c_col c = 0 /\ c_lastLineLen c = cl
         else c_line c = l /\ c_col c = cl))
     \/ (c_lastCharLen c = 0%nat /\ c_idx c = length src /\ ch = rune_eof /\
         ((c_line c = l /\ c_col c = cl) \/ (src = [] /\ c_col c = 0)))).

(* "[s'] is not behind [s] and collects the same token" *)
Definition le_cur (s s' : cursor) : Prop := (pos s <= pos s')%nat /\ c_tok s' = c_tok s.

Lemma le_cur_refl : forall s, le_cur s s.
Proof. intros s; split; [lia | reflexivity]. Qed.

Lemma le_cur_trans : forall a b c, le_cur a b -> le_cur b c -> le_cur a c.
Proof. intros a b c [H1 H2] [H3 H4]. split; [lia | congruence]. Qed.

Lemma cinv_set_err : forall src c ch, cinv src c ch -> cinv src (c_set_err c) ch.
Proof. intros src c ch H. exact H. Qed.

Lemma le_cur_set_err : forall c, le_cur c (c_set_err c).
Proof. intros c. split; [unfold pos; cbn; lia | reflexivity]. Qed.

Lemma cinv_token_start : forall src c ch, cinv src c ch -> cinv src (c_token_start c) ch.
Proof. intros src c ch H. exact H. Qed.

Lemma cinv_token_stop : forall src c ch, cinv src c ch -> cinv src (c_token_stop c) ch.
Proof. intros src c ch H. exact H. Qed.

Lemma cinv_pos_le : forall src c ch, cinv src c ch -> (pos c <= length src)%nat.
Proof. intros src c ch (_ & H & _). unfold pos. lia. Qed.

Lemma cinv_not_eof : forall src c ch, cinv src c ch -> ch <> rune_eof -> (0 < c_lastCharLen c)%nat.
Proof.
  intros src c ch (_ & _ & _ & l & cl & _ & [(b & r & H & _) | (_ & _ & H & _)]) Hne; [exact H | contradiction].
Qed.

(* the first character *)
Lemma c_next_init : forall src, cinv src (fst (c_next (c_init src))) (snd (c_next (c_init src))).
Proof.
  intros src. unfold c_next. cbn [c_init c_idx c_src skipn].
  destruct src as [|b r].
  - cbn. unfold cinv, pos. cbn. repeat split; try lia.
    exists 1, 1. split; [apply walk_0|]. right. repeat split. right. split; reflexivity.
  - change (if b <? 128 then (b, 1%nat) else decode_rune (b :: r)) with (dec1 b r).
    destruct (dec1 b r) as [ch w] eqn:Hd. pose proof (dec1_width _ _ _ _ Hd) as Hw.
    assert (HI : forall e, cinv (b :: r)
       {| c_src := b :: r; c_idx := 0 + w; c_line := if (ch =? 10) && negb ((128 <=? b) && (ch =? rune_error) && Nat.eqb w 1) then 1 + 1 else 1;
          c_col := if (ch =? 10) && negb ((128 <=? b) && (ch =? rune_error) && Nat.eqb w 1) then 0 else 0 + 1;
          c_lastLineLen := if (ch =? 10) && negb ((128 <=? b) && (ch =? rune_error) && Nat.eqb w 1) then 0 + 1 else 0;
          c_lastCharLen := w; c_tok := None; c_err := e |} ch).
    { intros e. unfold cinv, pos. cbn [c_src c_idx c_line c_col c_lastLineLen c_lastCharLen length].
      split; [reflexivity|]. split; [lia|]. split; [lia|].
      exists 1, 1. replace (0 + w - w)%nat with 0%nat by lia. split; [apply walk_0|]. left.
      exists b, r. split; [lia|]. split; [reflexivity|]. split; [exact Hd|].
      destruct (ch =? 10) eqn:Hnl.
      - assert (Hre : (ch =? rune_error) = false) by (apply Z.eqb_eq in Hnl; subst ch; reflexivity).
        rewrite Hre, andb_false_r. cbn. repeat split.
      - cbn. split; reflexivity. }
    cbn [c_init c_idx c_src c_line c_col c_lastLineLen c_lastCharLen c_tok c_err].
    destruct ((128 <=? b) && (ch =? rune_error) && Nat.eqb w 1 || (ch =? 0)); cbn [fst snd]; apply HI.
Qed.

(* every later character *)
Lemma c_next_spec : forall src c ch, cinv src c ch ->
  cinv src (fst (c_next c)) (snd (c_next c)) /\ le_cur c (fst (c_next c)) /\
  (ch <> rune_eof -> (pos c < pos (fst (c_next c)))%nat).
Proof.
  intros src c ch (Hsrc & Hidx & Hlcl & l & cl & Hwalk & Hst).
  (* line/column of the next unread byte *)
  assert (Hnext : (0 < c_lastCharLen c)%nat ->
            walk src (c_idx c) 1 1 (c_line c) (c_col c + 1)).
  { intros Hpos. destruct Hst as [(b & r & _ & Hsk & Hd & Hlc) | (H0 & _)]; [|lia].
    pose proof (walk_snoc _ _ _ _ _ _ Hwalk _ _ _ _ Hsk Hd) as HW.
    replace (pos c + c_lastCharLen c)%nat with (c_idx c) in HW by (unfold pos; lia).
    destruct (ch =? 10).
    - destruct Hlc as (-> & -> & _). exact HW.
    - destruct Hlc as (-> & ->). exact HW. }
  unfold c_next. rewrite Hsrc.
  destruct (skipn (c_idx c) src) as [|b r] eqn:Hsk.
  - (* end of the source *)
    pose proof (skipn_nil_length _ _ _ Hsk) as Hlen.
    cbn [fst snd]. unfold cinv, le_cur, pos.
    cbn [c_src c_idx c_line c_col c_lastLineLen c_lastCharLen c_tok].
    replace (c_idx c - 0)%nat with (c_idx c) by lia.
    split; [|split; [split; [lia | reflexivity] |]].
    + split; [reflexivity|]. split; [exact Hidx|]. split; [lia|].
      destruct Hst as [(b & r & Hpos & _) | (H0 & Hend & Heof & Hlc)].
      * exists (c_line c), (c_col c + 1). split; [apply Hnext; exact Hpos|].
        right. split; [reflexivity|]. split; [lia|]. split; [reflexivity|]. left.
        destruct (Nat.ltb_spec 0 (c_lastCharLen c)); [split; reflexivity | lia].
      * exists l, cl. split; [unfold pos in Hwalk; rewrite H0 in Hwalk; replace (c_idx c - 0)%nat with (c_idx c) in Hwalk by lia; exact Hwalk|].
        right. split; [reflexivity|]. split; [exact Hend|]. split; [reflexivity|].
        rewrite H0. cbn. exact Hlc.
    + intros Hne. destruct Hst as [(b & r & Hpos & _) | (_ & _ & Heof & _)]; [lia | contradiction].
  - (* a character *)
    change (if b <? 128 then (b, 1%nat) else decode_rune (b :: r)) with (dec1 b r).
    destruct (dec1 b r) as [ch' w] eqn:Hd. pose proof (dec1_width _ _ _ _ Hd) as Hw.
    pose proof (skipn_cons_length _ _ _ _ _ Hsk) as Hlen.
    assert (Hpos : (0 < c_lastCharLen c)%nat).
    { destruct Hst as [(b0 & r0 & Hpos & _) | (_ & Hend & _)]; [exact Hpos | lia]. }
    specialize (Hnext Hpos).
    set (nl := (ch' =? 10) && negb ((128 <=? b) && (ch' =? rune_error) && Nat.eqb w 1)).
    assert (Hnl : nl = (ch' =? 10)).
    { unfold nl. destruct (ch' =? 10) eqn:E; [|reflexivity].
      apply Z.eqb_eq in E. subst ch'. change (10 =? rune_error) with false. rewrite andb_false_r. reflexivity. }
    assert (HI : forall e,
       cinv src {| c_src := src; c_idx := c_idx c + w; c_line := if nl then c_line c + 1 else c_line c;
          c_col := if nl then 0 else c_col c + 1;
          c_lastLineLen := if nl then c_col c + 1 else c_lastLineLen c;
          c_lastCharLen := w; c_tok := c_tok c; c_err := e |} ch').
    { intros e. unfold cinv, pos. cbn [c_src c_idx c_line c_col c_lastLineLen c_lastCharLen].
      split; [reflexivity|]. split; [lia|]. split; [lia|].
      exists (c_line c), (c_col c + 1). replace (c_idx c + w - w)%nat with (c_idx c) by lia.
      split; [exact Hnext|]. left. exists b, r. split; [lia|]. split; [exact Hsk|]. split; [exact Hd|].
      rewrite Hnl. destruct (ch' =? 10); repeat split. }
    assert (HL : forall e, (pos c < pos {| c_src := src; c_idx := c_idx c + w; c_line := if nl then c_line c + 1 else c_line c;
          c_col := if nl then 0 else c_col c + 1;
          c_lastLineLen := if nl then c_col c + 1 else c_lastLineLen c;
          c_lastCharLen := w; c_tok := c_tok c; c_err := e |})%nat).
    { intros e. unfold pos. cbn [c_idx c_lastCharLen]. lia. }
    destruct ((128 <=? b) && (ch' =? rune_error) && Nat.eqb w 1 || (ch' =? 0)); cbn [fst snd].
    + split; [apply (HI true)|]. split; [split; [apply Nat.lt_le_incl, (HL true) | reflexivity]|]. intros _. apply (HL true).
    + split; [apply HI|]. split; [split; [apply Nat.lt_le_incl, HL | reflexivity]|]. intros _. apply HL.
Qed.

(* ------------------------------------------------------------------------------------------------------------- *)
(* 4. The scan helpers of Impl/Tokenizer.v, instantiated at the cursor                                            *)
(* ------------------------------------------------------------------------------------------------------------- *)

Definition nxt (c : cursor) : option (cursor * Z) := Some (c_next c).

Lemma nxt_spec : forall src s ch s' ch', cinv src s ch -> c_next s = (s', ch') ->
  cinv src s' ch' /\ le_cur s s' /\ (ch <> rune_eof -> (pos s < pos s')%nat).
Proof. intros src s ch s' ch' Hi E. pose proof (c_next_spec _ _ _ Hi) as H. rewrite E in H. exact H. Qed.

Ltac lc := unfold le_cur in *; intuition (try lia; try congruence).

Section Helpers.
  Variable src : list Z.

  Lemma sw_spec : forall p fuel s ch s' ch', cinv src s ch -> scan_while cursor nxt fuel p s ch = Some (s', ch') ->
    cinv src s' ch' /\ le_cur s s' /\ p ch' = false /\ (p ch = true -> ch <> rune_eof -> (pos s < pos s')%nat).
  Proof.
    intros p fuel. induction fuel as [|f IH]; intros s ch s' ch' Hi H; [discriminate|].
    cbn [scan_while] in H. destruct (p ch) eqn:Hp.
    - unfold nxt in H. destruct (c_next s) as [s1 c1] eqn:E1.
      destruct (nxt_spec _ _ _ _ _ Hi E1) as (Hi1 & Hle1 & Hlt1).
      destruct (IH _ _ _ _ Hi1 H) as (Hi' & Hle' & Hp' & _).
      split; [exact Hi'|]. split; [lc|]. split; [exact Hp'|]. intros _ Hne. specialize (Hlt1 Hne). lc.
    - injection H as <- <-. split; [exact Hi|]. split; [apply le_cur_refl|]. split; [exact Hp|]. discriminate.
  Qed.

  Lemma shex_spec : forall n maxd s ch k s' ch' k', cinv src s ch ->
    scan_hex cursor nxt n maxd s ch k = Some (s', ch', k') -> cinv src s' ch' /\ le_cur s s'.
  Proof.
    induction n as [|n IH]; intros maxd s ch k s' ch' k' Hi H; cbn [scan_hex] in H.
    - injection H as <- <- <-. split; [exact Hi | apply le_cur_refl].
    - destruct (Nat.ltb k maxd && is_hex ch).
      + unfold nxt in H. destruct (c_next s) as [s1 c1] eqn:E1.
        destruct (nxt_spec _ _ _ _ _ Hi E1) as (Hi1 & Hle1 & _).
        destruct (IH _ _ _ _ _ _ _ Hi1 H) as (Hi' & Hle'). split; [exact Hi' | lc].
      + injection H as <- <- <-. split; [exact Hi | apply le_cur_refl].
  Qed.

  Lemma sesc_spec : forall s ch s' ch', cinv src s ch -> scan_escape cursor nxt c_set_err s = Some (s', ch') ->
    cinv src s' ch' /\ le_cur s s' /\ (ch <> rune_eof -> (pos s < pos s')%nat).
  Proof.
    intros s ch s' ch' Hi H. unfold scan_escape, nxt in H.
    destruct (c_next s) as [s1 c1] eqn:E1. destruct (nxt_spec _ _ _ _ _ Hi E1) as (Hi1 & Hle1 & Hlt1).
    assert (G : forall x, cinv src x ch' /\ le_cur s1 x ->
                cinv src x ch' /\ le_cur s x /\ (ch <> rune_eof -> (pos s < pos x)%nat)).
    { intros x (Hx & Hlx). split; [exact Hx|]. split; [lc|]. intros Hne. specialize (Hlt1 Hne). lc. }
    destruct (existsb (Z.eqb c1) [110; 114; 116; 92; 48; 39; 34; 42]).
    { destruct (c_next s1) as [s2 c2] eqn:E2. injection H as <- <-.
      destruct (nxt_spec _ _ _ _ _ Hi1 E2) as (Hi2 & Hle2 & _). apply G. split; assumption. }
    destruct (c1 =? 120).
    { destruct (c_next s1) as [s2 c2] eqn:E2. destruct (nxt_spec _ _ _ _ _ Hi1 E2) as (Hi2 & Hle2 & _).
      destruct (scan_hex cursor (fun c => Some (c_next c)) 3 2 s2 c2 0) as [[[s3 c3] k]|] eqn:E3; [|discriminate].
      destruct (shex_spec _ _ _ _ _ _ _ _ Hi2 E3) as (Hi3 & Hle3).
      injection H as <- <-. apply G. destruct (Nat.ltb k 2).
      - split; [apply cinv_set_err; exact Hi3|]. pose proof (le_cur_set_err s3). lc.
      - split; [exact Hi3 | lc]. }
    destruct (c1 =? 117).
    { destruct (c_next s1) as [s2 c2] eqn:E2. destruct (nxt_spec _ _ _ _ _ Hi1 E2) as (Hi2 & Hle2 & _).
      destruct (negb (c2 =? 123)).
      { injection H as <- <-. apply G. split; [apply cinv_set_err; exact Hi2|]. pose proof (le_cur_set_err s2). lc. }
      destruct (c_next s2) as [s3 c3] eqn:E3. destruct (nxt_spec _ _ _ _ _ Hi2 E3) as (Hi3 & Hle3 & _).
      destruct (scan_hex cursor (fun c => Some (c_next c)) 7 6 s3 c3 0) as [[[s4 c4] k]|] eqn:E4; [|discriminate].
      destruct (shex_spec _ _ _ _ _ _ _ _ Hi3 E4) as (Hi4 & Hle4).
      assert (H4' : cinv src (if Nat.ltb k 1 then c_set_err s4 else s4) c4 /\ le_cur s1 (if Nat.ltb k 1 then c_set_err s4 else s4)).
      { destruct (Nat.ltb k 1).
        - split; [apply cinv_set_err; exact Hi4|]. pose proof (le_cur_set_err s4). lc.
        - split; [exact Hi4 | lc]. }
      destruct H4' as (Hi4' & Hle4'). set (s4' := if Nat.ltb k 1 then c_set_err s4 else s4) in *.
      destruct (negb (c4 =? 125)).
      { injection H as <- <-. apply G. split; [apply cinv_set_err; exact Hi4'|]. pose proof (le_cur_set_err s4'). lc. }
      destruct (c_next s4') as [s5 c5] eqn:E5. destruct (nxt_spec _ _ _ _ _ Hi4' E5) as (Hi5 & Hle5 & _).
      injection H as <- <-. apply G. split; [exact Hi5 | lc]. }
    injection H as <- <-. apply G. split; [apply cinv_set_err; exact Hi1|]. pose proof (le_cur_set_err s1). lc.
  Qed.

  Lemma sstr_spec : forall fuel s ch s' ch', cinv src s ch -> scan_string cursor nxt c_set_err fuel s ch = Some (s', ch') ->
    cinv src s' ch' /\ le_cur s s'.
  Proof.
    induction fuel as [|f IH]; intros s ch s' ch' Hi H; [discriminate|].
    cbn [scan_string] in H.
    destruct (ch =? 34). { injection H as <- <-. split; [exact Hi | apply le_cur_refl]. }
    destruct ((ch =? 10) || (ch <? 0)). { injection H as <- <-. split; [apply cinv_set_err; exact Hi | apply le_cur_set_err]. }
    destruct (ch =? 92).
    - destruct (scan_escape cursor nxt c_set_err s) as [[s1 c1]|] eqn:E1; [|discriminate].
      destruct (sesc_spec _ _ _ _ Hi E1) as (Hi1 & Hle1 & _).
      destruct (IH _ _ _ _ Hi1 H) as (Hi' & Hle'). split; [exact Hi' | lc].
    - unfold nxt in H at 1. destruct (c_next s) as [s1 c1] eqn:E1.
      destruct (nxt_spec _ _ _ _ _ Hi E1) as (Hi1 & Hle1 & _).
      destruct (IH _ _ _ _ Hi1 H) as (Hi' & Hle'). split; [exact Hi' | lc].
  Qed.

  Lemma sbc_spec : forall fuel s ch s' ch', cinv src s ch -> scan_block_comment cursor nxt c_set_err fuel s ch = Some (s', ch') ->
    cinv src s' ch' /\ le_cur s s'.
  Proof.
    induction fuel as [|f IH]; intros s ch s' ch' Hi H; [discriminate|].
    cbn [scan_block_comment] in H.
    destruct (ch <? 0). { injection H as <- <-. split; [apply cinv_set_err; exact Hi | apply le_cur_set_err]. }
    unfold nxt in H at 1. destruct (c_next s) as [s1 c1] eqn:E1.
    destruct (nxt_spec _ _ _ _ _ Hi E1) as (Hi1 & Hle1 & _).
    destruct ((ch =? 42) && (c1 =? 47)).
    - unfold nxt in H. destruct (c_next s1) as [s2 c2] eqn:E2. injection H as <- <-.
      destruct (nxt_spec _ _ _ _ _ Hi1 E2) as (Hi2 & Hle2 & _). split; [exact Hi2 | lc].
    - destruct (IH _ _ _ _ Hi1 H) as (Hi' & Hle'). split; [exact Hi' | lc].
  Qed.

  Lemma sop_spec : forall s ch0 ch ty s' ch', cinv src s ch -> scan_operator cursor nxt s ch0 ch = Some (ty, s', ch') ->
    cinv src s' ch' /\ le_cur s s' /\ ty <> TEOF.
  Proof.
    intros s ch0 ch ty s' ch' Hi H. unfold scan_operator, nxt, option_map in H.
    destruct (c_next s) as [s1 c1] eqn:E1. destruct (nxt_spec _ _ _ _ _ Hi E1) as (Hi1 & Hle1 & _).
    cbn [fst snd] in H.
    repeat match type of H with
           | context [if ?c then _ else _] => destruct c
           end; injection H as <- <- <-;
      (split; [first [exact Hi | exact Hi1] | split; [first [apply le_cur_refl | exact Hle1] | discriminate]]).
  Qed.
End Helpers.

(* ------------------------------------------------------------------------------------------------------------- *)
(* 5. next_token                                                                                                  *)
(* ------------------------------------------------------------------------------------------------------------- *)

(* what [next_token] guarantees about the token it returns, when it was called with the lookahead at byte [lo] and
   returns with the lookahead at byte [hi] *)
Definition tok_ok (src : list Z) (lo hi : nat) (t : token) : Prop :=
  exists p0, (lo <= p0 <= hi)%nat /\ (hi <= length src)%nat /\ t_off t = Z.of_nat p0 /\
    t_text t = firstn (hi - p0) (skipn p0 src) /\ (t_type t <> TEOF -> (p0 < hi)%nat) /\
    (src <> [] \/ t_type t <> TEOF -> walk src p0 1 1 (t_line t) (t_col t)).

Lemma tok_ok_weaken : forall src lo lo' hi t, (lo' <= lo)%nat -> tok_ok src lo hi t -> tok_ok src lo' hi t.
Proof. intros src lo lo' hi t Hl (p0 & H1 & H). exists p0. split; [lia | exact H]. Qed.

Lemma pos_token_start : forall s, pos (c_token_start s) = pos s.
Proof. reflexivity. Qed.
Lemma pos_token_stop : forall s, pos (c_token_stop s) = pos s.
Proof. reflexivity. Qed.

Lemma token_position_exact : forall src s ch off line col, cinv src s ch -> c_token_position s = (off, line, col) ->
  off = Z.of_nat (pos s) /\ (ch <> 10 -> src <> [] \/ ch <> rune_eof -> walk src (pos s) 1 1 line col).
Proof.
  intros src s ch off line col (Hsrc & Hidx & Hlcl & l & cl & Hwalk & Hst) Hp.
  pose proof (walk_col_pos _ _ _ _ _ _ Hwalk ltac:(lia)) as Hcl.
  unfold c_token_position in Hp. fold (pos s) in Hp.
  split. { destruct (0 <? c_col s); inversion Hp; reflexivity. }
  intros Hnl Hne.
  assert (Hlc : c_line s = l /\ c_col s = cl).
  { destruct Hst as [(b & r & _ & _ & _ & Hlc) | (_ & _ & Heof & [Hlc | (Hnil & _)])].
    - destruct (Z.eqb_spec ch 10); [contradiction | exact Hlc].
    - exact Hlc.
    - destruct Hne; contradiction. }
  destruct Hlc as (Hl & Hc). destruct (Z.ltb_spec 0 (c_col s)); [|lia].
  inversion Hp. rewrite Hl, Hc. exact Hwalk.
Qed.

Lemma is_ws_10 : forall ch, is_ws ch = false -> ch <> 10.
Proof. intros ch H ->. discriminate. Qed.

Lemma finish_ok : forall src s0 ch0 s' c' ty off line col lo,
  cinv src s0 ch0 -> is_ws ch0 = false -> cinv src s' c' -> le_cur (c_token_start s0) s' -> (lo <= pos s0)%nat ->
  c_token_position (c_token_start s0) = (off, line, col) ->
  (ty <> TEOF -> ch0 <> rune_eof /\ (pos s0 < pos s')%nat) ->
  tok_ok src lo (pos s') {| t_type := ty; t_off := off; t_line := line; t_col := col; t_text := c_token_text s' |}.
Proof.
  intros src s0 ch0 s' c' ty off line col lo Hi0 Hws Hi' (Hle & Htok) Hlo Hp Hty.
  destruct (token_position_exact _ _ _ _ _ _ (cinv_token_start _ _ _ Hi0) Hp) as (Hoff & Hwalk).
  rewrite pos_token_start in *.
  exists (pos s0). cbn [t_type t_off t_line t_col t_text].
  split; [lia|]. split; [eapply cinv_pos_le; exact Hi'|]. split; [exact Hoff|].
  split.
  - unfold c_token_text. rewrite Htok. cbn [c_token_start c_tok]. fold (pos s0). fold (pos s').
    destruct Hi' as (-> & _). reflexivity.
  - split; [intros H; apply Hty; exact H|].
    intros H. apply Hwalk; [apply is_ws_10; exact Hws|].
    destruct H as [H | H]; [left; exact H | right; apply Hty; exact H].
Qed.

Definition ntok := next_token cursor nxt c_token_start c_token_stop c_set_err c_token_position c_token_text.

Lemma ntok_spec : forall src fuel s ch t s' ch', cinv src s ch -> ntok fuel s ch = Some (t, s', ch') ->
  cinv src s' ch' /\ tok_ok src (pos s) (pos s') t.
Proof.
  intros src fuel. induction fuel as [|f IH]; intros s ch t s' ch' Hi H; [discriminate|].
  unfold ntok in H. cbn [next_token] in H. fold ntok in H.
  destruct (scan_while cursor nxt (S f) is_ws s ch) as [[s0 ch0]|] eqn:E0; [|discriminate].
  destruct (sw_spec src _ _ _ _ _ _ Hi E0) as (Hi0 & Hle0 & Hws & _).
  destruct (c_token_position (c_token_start s0)) as [[off line] col] eqn:Hp.
  pose proof (cinv_token_start _ _ _ Hi0) as Hi1.
  assert (Hlo : (pos s <= pos s0)%nat) by lc.
  (* all "finish" branches *)
  assert (FIN : forall ty s3 c3, cinv src s3 c3 -> le_cur (c_token_start s0) s3 ->
            (ty <> TEOF -> ch0 <> rune_eof /\ (pos s0 < pos s3)%nat) ->
            cinv src s3 c3 /\ tok_ok src (pos s) (pos s3)
              {| t_type := ty; t_off := off; t_line := line; t_col := col; t_text := c_token_text s3 |}).
  { intros ty s3 c3 Hi3 Hle3 Hty. split; [exact Hi3|]. exact (finish_ok src s0 ch0 s3 c3 ty off line col (pos s) Hi0 Hws Hi3 Hle3 Hlo Hp Hty). }
  destruct (ch0 =? rune_eof) eqn:Heof.
  { injection H as <- <- <-. apply FIN; [exact Hi1 | apply le_cur_refl | intros C; exfalso; apply C; reflexivity]. }
  apply Z.eqb_neq in Heof.
  destruct (is_ident_rune ch0 true).
  { unfold nxt in H at 1. destruct (c_next (c_token_start s0)) as [s2 c2] eqn:E2.
    destruct (nxt_spec _ _ _ _ _ Hi1 E2) as (Hi2 & Hle2 & Hlt2). specialize (Hlt2 Heof). rewrite pos_token_start in Hlt2.
    destruct (scan_while cursor nxt (S f) (fun x => is_ident_rune x false) s2 c2) as [[s3 c3]|] eqn:E3; [|discriminate].
    destruct (sw_spec src _ _ _ _ _ _ Hi2 E3) as (Hi3 & Hle3 & _).
    injection H as <- <- <-. apply FIN; [exact Hi3 | lc |]. intros _. split; [exact Heof | lc]. }
  destruct (is_num ch0) eqn:Hnum.
  { destruct (scan_while cursor nxt (S f) is_num (c_token_start s0) ch0) as [[s3 c3]|] eqn:E3; [|discriminate].
    destruct (sw_spec src _ _ _ _ _ _ Hi1 E3) as (Hi3 & Hle3 & _ & Hlt3). specialize (Hlt3 Hnum Heof).
    rewrite pos_token_start in Hlt3.
    injection H as <- <- <-. apply FIN; [exact Hi3 | exact Hle3 |]. intros _. split; [exact Heof | exact Hlt3]. }
  destruct (ch0 =? 34).
  { unfold nxt in H at 1. destruct (c_next (c_token_start s0)) as [s2 c2] eqn:E2.
    destruct (nxt_spec _ _ _ _ _ Hi1 E2) as (Hi2 & Hle2 & Hlt2). specialize (Hlt2 Heof). rewrite pos_token_start in Hlt2.
    destruct (scan_string cursor nxt c_set_err (S f) s2 c2) as [[s3 c3]|] eqn:E3; [|discriminate].
    destruct (sstr_spec src _ _ _ _ _ Hi2 E3) as (Hi3 & Hle3).
    unfold nxt in H. destruct (c_next s3) as [s4 c4] eqn:E4.
    destruct (nxt_spec _ _ _ _ _ Hi3 E4) as (Hi4 & Hle4 & _).
    injection H as <- <- <-. apply FIN; [exact Hi4 | lc |]. intros _. split; [exact Heof | lc]. }
  destruct (ch0 =? 47).
  { unfold nxt in H at 1. destruct (c_next (c_token_start s0)) as [s2 c2] eqn:E2.
    destruct (nxt_spec _ _ _ _ _ Hi1 E2) as (Hi2 & Hle2 & Hlt2). specialize (Hlt2 Heof). rewrite pos_token_start in Hlt2.
    destruct (c2 =? 47).
    { unfold nxt in H at 1. destruct (c_next (c_token_stop s2)) as [s3 c3] eqn:E3.
      destruct (nxt_spec _ _ _ _ _ (cinv_token_stop _ _ _ Hi2) E3) as (Hi3 & Hle3 & _).
      destruct (scan_while cursor nxt (S f) (fun x => negb (x =? 10) && (0 <=? x)) s3 c3) as [[s4 c4]|] eqn:E4; [|discriminate].
      destruct (sw_spec src _ _ _ _ _ _ Hi3 E4) as (Hi4 & Hle4 & _).
      destruct (IH _ _ _ _ _ Hi4 H) as (Hi' & Hok). split; [exact Hi'|].
      eapply tok_ok_weaken; [|exact Hok]. unfold le_cur in *. change (pos (c_token_stop s2)) with (pos s2) in *. lia. }
    destruct (c2 =? 42).
    { unfold nxt in H at 1. destruct (c_next (c_token_stop s2)) as [s3 c3] eqn:E3.
      destruct (nxt_spec _ _ _ _ _ (cinv_token_stop _ _ _ Hi2) E3) as (Hi3 & Hle3 & _).
      destruct (scan_block_comment cursor nxt c_set_err (S f) s3 c3) as [[s4 c4]|] eqn:E4; [|discriminate].
      destruct (sbc_spec src _ _ _ _ _ Hi3 E4) as (Hi4 & Hle4).
      destruct (IH _ _ _ _ _ Hi4 H) as (Hi' & Hok). split; [exact Hi'|].
      eapply tok_ok_weaken; [|exact Hok]. unfold le_cur in *. change (pos (c_token_stop s2)) with (pos s2) in *. lia. }
    destruct (scan_operator cursor nxt s2 ch0 c2) as [[[ty s3] c3]|] eqn:E3; [|discriminate].
    destruct (sop_spec src _ _ _ _ _ _ Hi2 E3) as (Hi3 & Hle3 & Hty).
    injection H as <- <- <-.
    apply FIN; [exact Hi3 | lc |]. intros _. split; [exact Heof | lc]. }
  unfold nxt in H at 1. destruct (c_next (c_token_start s0)) as [s2 c2] eqn:E2.
  destruct (nxt_spec _ _ _ _ _ Hi1 E2) as (Hi2 & Hle2 & Hlt2). specialize (Hlt2 Heof). rewrite pos_token_start in Hlt2.
  destruct (scan_operator cursor nxt s2 ch0 c2) as [[[ty s3] c3]|] eqn:E3; [|discriminate].
  destruct (sop_spec src _ _ _ _ _ _ Hi2 E3) as (Hi3 & Hle3 & Hty).
  injection H as <- <- <-.
  apply FIN; [exact Hi3 | lc |]. intros _. split; [exact Heof | lc].
Qed.

(* ------------------------------------------------------------------------------------------------------------- *)
(* 6. The token loop and the headline theorems                                                                    *)
(* ------------------------------------------------------------------------------------------------------------- *)

Definition tloop := tokenize_loop cursor nxt c_token_start c_token_stop c_set_err c_token_position c_token_text c_err.

Lemma spec_tokenize_unfold : forall fuel src,
  spec_tokenize fuel src = tloop fuel (fst (c_next (c_init src))) (snd (c_next (c_init src))) [].
Proof. intros fuel src. unfold spec_tokenize. destruct (c_next (c_init src)); reflexivity. Qed.

Definition tok_len (t : token) : Z := Z.of_nat (length (t_text t)).

(* consecutive tokens: strictly increasing offsets, and the text of the first ends before the second starts *)
Inductive tok_ordered : list token -> Prop :=
| to_nil : tok_ordered []
| to_one : forall t, tok_ordered [t]
| to_cons : forall t1 t2 ts, t_off t1 < t_off t2 -> t_off t1 + tok_len t1 <= t_off t2 ->
    tok_ordered (t2 :: ts) -> tok_ordered (t1 :: t2 :: ts).

(* exactness of one token: offset/text and line/column *)
Definition tok_text_exact (src : list Z) (t : token) : Prop :=
  0 <= t_off t /\ t_text t = firstn (length (t_text t)) (skipn (Z.to_nat (t_off t)) src)
  /\ (Z.to_nat (t_off t) + length (t_text t) <= length src)%nat.
Definition tok_pos_exact (src : list Z) (t : token) : Prop :=
  src <> [] \/ t_type t <> TEOF -> (t_line t, t_col t) = position_of src (Z.to_nat (t_off t)).

Lemma tok_ok_facts : forall src lo hi t, tok_ok src lo hi t ->
  tok_text_exact src t /\ tok_pos_exact src t /\ Z.of_nat lo <= t_off t /\ t_off t + tok_len t = Z.of_nat hi /\
  (t_type t <> TEOF -> 0 < tok_len t) /\ (t_type t <> TEOF -> (lo < hi)%nat) /\ (lo <= hi)%nat.
Proof.
  intros src lo hi t (p0 & Hp & Hhi & Hoff & Htext & Hne & Hwalk).
  assert (Hlen : length (t_text t) = (hi - p0)%nat).
  { rewrite Htext, firstn_length, skipn_length. lia. }
  unfold tok_text_exact, tok_pos_exact, tok_len. rewrite Hoff, Nat2Z.id, Hlen.
  split; [split; [lia | split; [exact Htext | lia]]|].
  split. { intros H. symmetry. apply walk_position_of; [apply Hwalk; exact H | lia]. }
  split; [lia|]. split; [lia|]. split; [intros H; specialize (Hne H); lia|]. split; [intros H; specialize (Hne H); lia | lia].
Qed.

(* the accumulator of the loop (most recent token first) *)
Fixpoint acc_ok (acc : list token) (hi : Z) : Prop :=
  match acc with
  | [] => True
  | t :: r => t_off t + tok_len t <= hi /\ 0 < tok_len t /\ acc_ok r (t_off t)
  end.

Lemma acc_ok_mono : forall acc hi hi', hi <= hi' -> acc_ok acc hi -> acc_ok acc hi'.
Proof. intros [|t r] hi hi' Hle H; [exact I|]. destruct H as (H1 & H2 & H3). cbn [acc_ok]. repeat split; [lia | exact H2 | exact H3]. Qed.

Lemma acc_ok_ordered : forall acc t tl, acc_ok acc (t_off t) -> tok_ordered (t :: tl) -> tok_ordered (rev acc ++ t :: tl).
Proof.
  induction acc as [|a r IH]; intros t tl Hacc Hord; [exact Hord|].
  destruct Hacc as (H1 & H2 & H3). cbn [rev]. rewrite <- app_assoc. cbn [app].
  apply IH; [exact H3|]. apply to_cons; [lia | exact H1 | exact Hord].
Qed.

Definition loop_result (src : list Z) (ts : list token) : Prop :=
  (forall t, In t ts -> tok_text_exact src t /\ tok_pos_exact src t) /\ tok_ordered ts /\
  exists ts' t, ts = ts' ++ [t] /\ t_type t = TEOF /\ (forall t', In t' ts' -> t_type t' <> TEOF).

Lemma tloop_spec : forall src fuel s ch acc ts, cinv src s ch -> tloop fuel s ch acc = Some (Some ts) ->
  (forall t, In t acc -> (tok_text_exact src t /\ tok_pos_exact src t) /\ t_type t <> TEOF) ->
  acc_ok acc (Z.of_nat (pos s)) -> loop_result src ts.
Proof.
  intros src fuel. induction fuel as [|f IH]; intros s ch acc ts Hi H Hacc Hok; [discriminate|].
  unfold tloop in H. cbn [tokenize_loop] in H. fold ntok in H. fold tloop in H.
  destruct (ntok (S f) s ch) as [[[t s'] c']|] eqn:E; [|discriminate].
  destruct (ntok_spec _ _ _ _ _ _ _ Hi E) as (Hi' & Htok).
  destruct (tok_ok_facts _ _ _ _ Htok) as (Htx & Hps & Hlo & Hend & Hlen & Hlt & Hle).
  destruct (c_err s'); [discriminate|].
  assert (Hok' : acc_ok acc (t_off t)) by (eapply acc_ok_mono; [|exact Hok]; lia).
  assert (Heofc : t_type t = TEOF -> Some (Some (rev (t :: acc))) = Some (Some ts) -> loop_result src ts).
  { intros Hty Heq. injection Heq as <-. split; [|split].
    - intros t0 Hin. apply in_app_or in Hin. destruct Hin as [Hin | [<- | []]]; [|split; assumption].
      apply (proj2 (in_rev _ _)) in Hin. apply Hacc; exact Hin.
    - cbn [rev]. apply acc_ok_ordered; [exact Hok' | apply to_one].
    - exists (rev acc), t. split; [reflexivity|]. split; [exact Hty|].
      intros t' Hin. apply (proj2 (in_rev _ _)) in Hin. apply Hacc; exact Hin. }
  assert (Hcont : t_type t <> TEOF -> tloop f s' c' (t :: acc) = Some (Some ts) -> loop_result src ts).
  { intros Hty Heq. apply (IH _ _ _ _ Hi' Heq).
    - intros t0 [<- | Hin]; [split; [split; assumption | exact Hty] | apply Hacc; exact Hin].
    - cbn [acc_ok]. split; [lia|]. split; [apply Hlen; exact Hty | exact Hok']. }
  destruct (t_type t) eqn:Hty; [apply Heofc; [reflexivity | exact H] | apply Hcont; [discriminate | exact H] ..].
Qed.

Lemma spec_tokenize_result : forall fuel src ts, spec_tokenize fuel src = Some (Some ts) -> loop_result src ts.
Proof.
  intros fuel src ts H. rewrite spec_tokenize_unfold in H.
  eapply tloop_spec; [apply c_next_init | exact H | intros t [] | exact I].
Qed.

(* ---- headline theorems ---- *)

(* "the text of every token is exactly the source bytes starting at its reported offset" *)
Theorem spec_token_text_exact : forall fuel src ts t, spec_tokenize fuel src = Some (Some ts) -> In t ts ->
  0 <= t_off t /\ t_text t = firstn (length (t_text t)) (skipn (Z.to_nat (t_off t)) src)
  /\ (Z.to_nat (t_off t) + length (t_text t) <= length src)%nat.
Proof. intros fuel src ts t H Hin. destruct (spec_tokenize_result _ _ _ H) as (Hall & _). apply Hall; exact Hin. Qed.

(* line = 1 + newlines before the token, column = 1 + characters since the last newline.  Stronger than asked: it also
   holds for the EOF token unless the source is empty (see the counterexample below). *)
Theorem spec_token_position_exact_strong : forall fuel src ts t, spec_tokenize fuel src = Some (Some ts) -> In t ts ->
  src <> [] \/ t_type t <> TEOF ->
  (t_line t, t_col t) = position_of src (Z.to_nat (t_off t)).
Proof. intros fuel src ts t H Hin. destruct (spec_tokenize_result _ _ _ H) as (Hall & _). apply Hall; exact Hin. Qed.

Theorem spec_token_position_exact : forall fuel src ts t, spec_tokenize fuel src = Some (Some ts) -> In t ts ->
  t_type t <> TEOF ->
  (t_line t, t_col t) = position_of src (Z.to_nat (t_off t)).
Proof. intros fuel src ts t H Hin Hty. eapply spec_token_position_exact_strong; [exact H | exact Hin | right; exact Hty]. Qed.

(* the EOF token of the empty source is reported at line 0, column 0, while position_of [] 0 = (1, 1) *)
Example eof_position_counterexample :
  spec_tokenize 2 [] = Some (Some [{| t_type := TEOF; t_off := 0; t_line := 0; t_col := 0; t_text := [] |}])
  /\ position_of [] 0 = (1, 1).
Proof. split; vm_compute; reflexivity. Qed.

Theorem spec_tokens_ordered : forall fuel src ts, spec_tokenize fuel src = Some (Some ts) -> tok_ordered ts.
Proof. intros fuel src ts H. destruct (spec_tokenize_result _ _ _ H) as (_ & Hord & _). exact Hord. Qed.

(* the same, by index *)
Lemma tok_ordered_nth : forall ts, tok_ordered ts -> forall i d, (S i < length ts)%nat ->
  t_off (nth i ts d) < t_off (nth (S i) ts d) /\
  t_off (nth i ts d) + Z.of_nat (length (t_text (nth i ts d))) <= t_off (nth (S i) ts d).
Proof.
  intros ts H. induction H as [| t | t1 t2 ts H1 H2 H IH]; intros i d Hi; cbn [length] in Hi; try lia.
  destruct i as [|i]; [cbn [nth]; split; assumption|].
  change (nth (S i) (t1 :: t2 :: ts) d) with (nth i (t2 :: ts) d).
  change (nth (S (S i)) (t1 :: t2 :: ts) d) with (nth (S i) (t2 :: ts) d).
  apply IH. cbn [length]. lia.
Qed.

Theorem spec_tokens_ordered_nth : forall fuel src ts i d, spec_tokenize fuel src = Some (Some ts) -> (S i < length ts)%nat ->
  t_off (nth i ts d) < t_off (nth (S i) ts d) /\
  t_off (nth i ts d) + Z.of_nat (length (t_text (nth i ts d))) <= t_off (nth (S i) ts d).
Proof. intros fuel src ts i d H Hi. apply tok_ordered_nth; [eapply spec_tokens_ordered; exact H | exact Hi]. Qed.

Theorem spec_last_is_eof : forall fuel src ts, spec_tokenize fuel src = Some (Some ts) ->
  exists ts' t, ts = ts' ++ [t] /\ t_type t = TEOF /\ (forall t', In t' ts' -> t_type t' <> TEOF).
Proof. intros fuel src ts H. destruct (spec_tokenize_result _ _ _ H) as (_ & _ & Hlast). exact Hlast. Qed.

(* ------------------------------------------------------------------------------------------------------------- *)
(* 7. Totality: fuel [length src + 1] is enough.  Measure: bytes from the lookahead character to the end.          *)
(* ------------------------------------------------------------------------------------------------------------- *)

Section Total.
  Variable src : list Z.
  Let rem (s : cursor) : nat := (length src - pos s)%nat.

  Lemma sw_total : forall p, p rune_eof = false -> forall fuel s ch, cinv src s ch -> (rem s < fuel)%nat ->
    exists s' ch', scan_while cursor nxt fuel p s ch = Some (s', ch').
  Proof.
    intros p Hp. induction fuel as [|f IH]; intros s ch Hi Hf; [lia|].
    cbn [scan_while]. destruct (p ch) eqn:Hpc; [|eauto].
    assert (Hne : ch <> rune_eof) by (intros ->; congruence).
    unfold nxt. destruct (c_next s) as [s1 c1] eqn:E1.
    destruct (nxt_spec _ _ _ _ _ Hi E1) as (Hi1 & _ & Hlt1). specialize (Hlt1 Hne).
    pose proof (cinv_pos_le _ _ _ Hi1). apply IH; [exact Hi1 | unfold rem in *; lia].
  Qed.

  Lemma shex_total : forall n maxd s ch k, exists s' ch' k', scan_hex cursor nxt n maxd s ch k = Some (s', ch', k').
  Proof.
    induction n as [|n IH]; intros maxd s ch k; cbn [scan_hex]; [eauto|].
    destruct (Nat.ltb k maxd && is_hex ch); [|eauto].
    unfold nxt. destruct (c_next s) as [s1 c1]. apply IH.
  Qed.

  Lemma sesc_total : forall s, exists s' ch', scan_escape cursor nxt c_set_err s = Some (s', ch').
  Proof.
    intros s. unfold scan_escape, nxt.
    destruct (c_next s) as [s1 c1].
    destruct (existsb (Z.eqb c1) [110; 114; 116; 92; 48; 39; 34; 42]). { destruct (c_next s1); eauto. }
    destruct (c1 =? 120).
    { destruct (c_next s1) as [s2 c2].
      destruct (shex_total 3 2 s2 c2 0) as (s3 & c3 & k & E). unfold nxt in E. rewrite E. eauto. }
    destruct (c1 =? 117); [|eauto].
    destruct (c_next s1) as [s2 c2]. destruct (negb (c2 =? 123)); [eauto|].
    destruct (c_next s2) as [s3 c3].
    destruct (shex_total 7 6 s3 c3 0) as (s4 & c4 & k & E). unfold nxt in E. rewrite E.
    destruct (negb (c4 =? 125)); [eauto|]. destruct (c_next (if Nat.ltb k 1 then c_set_err s4 else s4)); eauto.
  Qed.

  Lemma sstr_total : forall fuel s ch, cinv src s ch -> (rem s < fuel)%nat ->
    exists s' ch', scan_string cursor nxt c_set_err fuel s ch = Some (s', ch').
  Proof.
    induction fuel as [|f IH]; intros s ch Hi Hf; [lia|].
    cbn [scan_string].
    destruct (ch =? 34); [eauto|].
    destruct ((ch =? 10) || (ch <? 0)) eqn:Hc; [eauto|].
    assert (Hne : ch <> rune_eof).
    { intros ->. cbn in Hc. discriminate. }
    destruct (ch =? 92).
    - destruct (sesc_total s) as (s1 & c1 & E1). rewrite E1.
      destruct (sesc_spec src _ _ _ _ Hi E1) as (Hi1 & _ & Hlt1). specialize (Hlt1 Hne).
      pose proof (cinv_pos_le _ _ _ Hi1). apply IH; [exact Hi1 | unfold rem in *; lia].
    - unfold nxt at 1. destruct (c_next s) as [s1 c1] eqn:E1.
      destruct (nxt_spec _ _ _ _ _ Hi E1) as (Hi1 & _ & Hlt1). specialize (Hlt1 Hne).
      pose proof (cinv_pos_le _ _ _ Hi1). apply IH; [exact Hi1 | unfold rem in *; lia].
  Qed.

  Lemma sbc_total : forall fuel s ch, cinv src s ch -> (rem s < fuel)%nat ->
    exists s' ch', scan_block_comment cursor nxt c_set_err fuel s ch = Some (s', ch').
  Proof.
    induction fuel as [|f IH]; intros s ch Hi Hf; [lia|].
    cbn [scan_block_comment].
    destruct (ch <? 0) eqn:Hc; [eauto|].
    assert (Hne : ch <> rune_eof).
    { intros ->. cbn in Hc. discriminate. }
    unfold nxt at 1. destruct (c_next s) as [s1 c1] eqn:E1.
    destruct (nxt_spec _ _ _ _ _ Hi E1) as (Hi1 & _ & Hlt1). specialize (Hlt1 Hne).
    destruct ((ch =? 42) && (c1 =? 47)).
    - unfold nxt. destruct (c_next s1); eauto.
    - pose proof (cinv_pos_le _ _ _ Hi1). apply IH; [exact Hi1 | unfold rem in *; lia].
  Qed.

  Lemma sop_total : forall s ch0 ch, exists ty s' ch', scan_operator cursor nxt s ch0 ch = Some (ty, s', ch').
  Proof.
    intros s ch0 ch. unfold scan_operator, nxt, option_map.
    repeat match goal with
           | |- context [if ?c then _ else _] => destruct c
           end; eauto.
  Qed.

  Lemma ntok_total : forall fuel s ch, cinv src s ch -> (rem s < fuel)%nat ->
    exists t s' ch', ntok fuel s ch = Some (t, s', ch').
  Proof.
    induction fuel as [|f IH]; intros s ch Hi Hf; [lia|].
    unfold ntok. cbn [next_token]. fold ntok.
    destruct (sw_total is_ws eq_refl (S f) s ch Hi Hf) as (s0 & ch0 & E0). rewrite E0.
    destruct (sw_spec src _ _ _ _ _ _ Hi E0) as (Hi0 & Hle0 & _).
    destruct (c_token_position (c_token_start s0)) as [[off line] col].
    pose proof (cinv_token_start _ _ _ Hi0) as Hi1.
    assert (Hr0 : (rem (c_token_start s0) < S f)%nat) by (unfold rem in *; rewrite pos_token_start; unfold le_cur in *; lia).
    destruct (ch0 =? rune_eof) eqn:Heof; [eauto|]. apply Z.eqb_neq in Heof.
    (* the first character of the token *)
    destruct (c_next (c_token_start s0)) as [s2 c2] eqn:E2.
    destruct (nxt_spec _ _ _ _ _ Hi1 E2) as (Hi2 & Hle2 & Hlt2). specialize (Hlt2 Heof). rewrite pos_token_start in Hlt2.
    pose proof (cinv_pos_le _ _ _ Hi2) as Hb2.
    assert (Hr2 : (rem s2 < f)%nat) by (unfold rem in *; unfold le_cur in *; lia).
    destruct (is_ident_rune ch0 true).
    { unfold nxt at 1. rewrite E2.
      destruct (sw_total (fun x => is_ident_rune x false) eq_refl (S f) s2 c2 Hi2 ltac:(lia)) as (s3 & c3 & E3). rewrite E3. eauto. }
    destruct (is_num ch0).
    { destruct (sw_total is_num eq_refl (S f) _ ch0 Hi1 Hr0) as (s3 & c3 & E3). rewrite E3. eauto. }
    destruct (ch0 =? 34).
    { unfold nxt at 1. rewrite E2.
      destruct (sstr_total (S f) s2 c2 Hi2 ltac:(lia)) as (s3 & c3 & E3). rewrite E3.
      unfold nxt. destruct (c_next s3); eauto. }
    destruct (ch0 =? 47).
    { unfold nxt at 1. rewrite E2.
      destruct (c2 =? 47).
      { unfold nxt at 1. destruct (c_next (c_token_stop s2)) as [s3 c3] eqn:E3.
        destruct (nxt_spec _ _ _ _ _ (cinv_token_stop _ _ _ Hi2) E3) as (Hi3 & Hle3 & _).
        assert (Hr3 : (rem s3 < f)%nat).
        { unfold rem in *; unfold le_cur in *. change (pos (c_token_stop s2)) with (pos s2) in *. lia. }
        destruct (sw_total (fun x => negb (x =? 10) && (0 <=? x)) eq_refl (S f) s3 c3 Hi3 ltac:(lia)) as (s4 & c4 & E4). rewrite E4.
        destruct (sw_spec src _ _ _ _ _ _ Hi3 E4) as (Hi4 & Hle4 & _).
        apply IH; [exact Hi4 | unfold rem in *; unfold le_cur in *; lia]. }
      destruct (c2 =? 42).
      { unfold nxt at 1. destruct (c_next (c_token_stop s2)) as [s3 c3] eqn:E3.
        destruct (nxt_spec _ _ _ _ _ (cinv_token_stop _ _ _ Hi2) E3) as (Hi3 & Hle3 & _).
        assert (Hr3 : (rem s3 < f)%nat).
        { unfold rem in *; unfold le_cur in *. change (pos (c_token_stop s2)) with (pos s2) in *. lia. }
        destruct (sbc_total (S f) s3 c3 Hi3 ltac:(lia)) as (s4 & c4 & E4). rewrite E4.
        destruct (sbc_spec src _ _ _ _ _ Hi3 E4) as (Hi4 & Hle4).
        apply IH; [exact Hi4 | unfold rem in *; unfold le_cur in *; lia]. }
      destruct (sop_total s2 ch0 c2) as (ty & s3 & c3 & E3). rewrite E3. eauto. }
    unfold nxt at 1. rewrite E2.
    destruct (sop_total s2 ch0 c2) as (ty & s3 & c3 & E3). rewrite E3. eauto.
  Qed.

  Lemma tloop_total : forall fuel s ch acc, cinv src s ch -> (rem s < fuel)%nat -> tloop fuel s ch acc <> None.
  Proof.
    induction fuel as [|f IH]; intros s ch acc Hi Hf; [lia|].
    unfold tloop. cbn [tokenize_loop]. fold ntok. fold tloop.
    destruct (ntok_total (S f) s ch Hi Hf) as (t & s' & c' & E). rewrite E.
    destruct (ntok_spec _ _ _ _ _ _ _ Hi E) as (Hi' & Htok).
    destruct (tok_ok_facts _ _ _ _ Htok) as (_ & _ & _ & _ & _ & Hlt & _).
    destruct (c_err s'); [discriminate|].
    pose proof (cinv_pos_le _ _ _ Hi') as Hb.
    assert (Hcont : t_type t <> TEOF -> tloop f s' c' (t :: acc) <> None).
    { intros Hty. specialize (Hlt Hty). apply IH; [exact Hi' | unfold rem in *; lia]. }
    destruct (t_type t) eqn:Hty; [discriminate | apply Hcont; discriminate ..].
  Qed.
End Total.

Theorem spec_tokenize_total_fuel : forall src fuel, (length src < fuel)%nat -> spec_tokenize fuel src <> None.
Proof.
  intros src fuel Hf. rewrite spec_tokenize_unfold.
  apply (tloop_total src); [apply c_next_init | lia].
Qed.

Theorem spec_tokenize_total : forall src, exists fuel, spec_tokenize fuel src <> None.
Proof. intros src. exists (S (length src)). apply spec_tokenize_total_fuel. lia. Qed.

Print Assumptions spec_token_text_exact.
Print Assumptions spec_token_position_exact_strong.
Print Assumptions spec_token_position_exact.
Print Assumptions eof_position_counterexample.
Print Assumptions spec_tokens_ordered.
Print Assumptions spec_tokens_ordered_nth.
Print Assumptions spec_last_is_eof.
Print Assumptions spec_tokenize_total_fuel.
Print Assumptions spec_tokenize_total.
