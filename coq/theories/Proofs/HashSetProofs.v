(* The open-addressing table of Impl/HashSet.v (cedar-go types.Set: map[uint64]Value with linear probing
   `hash++` wrapping at 2^64, plus the sum of the member hashes) implements a mathematical finite set of
   veq-classes, for EVERY hash function (i.e. for all collision patterns).

   The only side condition is `Z.of_nat (length l) < two64` on the list the table is built from: with 2^64
   pairwise distinct members the table is full and the probe loops of the Go code do not terminate (the model
   runs out of fuel).  A Go slice cannot have 2^64 elements, so the condition always holds in practice. *)
From Coq Require Import ZArith List Bool Lia SetoidList Arith.
Import ListNotations.
From Cedar Require Import Base.Int64 Impl.HashSet.
Local Open Scope Z_scope.

(* ------------------------------------------------------------------------------------------------ *)
(* The probe sequence                                                                               *)
(* ------------------------------------------------------------------------------------------------ *)

Lemma two64_pos : 0 < two64.
Proof. reflexivity. Qed.

(* i-th slot visited when probing from h *)
Definition pr (h : Z) (i : nat) : Z := (h + Z.of_nat i) mod two64.

Lemma pr_range h i : 0 <= pr h i < two64.
Proof. unfold pr. apply Z.mod_pos_bound. exact two64_pos. Qed.

Lemma pr_0 h : 0 <= h < two64 -> pr h 0 = h.
Proof.
  intros H. unfold pr. change (Z.of_nat 0) with 0. rewrite Z.add_0_r. apply Z.mod_small; exact H.
Qed.

Lemma pr_succ h i : wrapu64 (pr h i + 1) = pr h (S i).
Proof.
  unfold wrapu64, pr. pose proof two64_pos as HM.
  rewrite Z.add_mod_idemp_l by lia. f_equal. lia.
Qed.

Lemma pr_inj h i j :
  Z.of_nat i < two64 -> Z.of_nat j < two64 -> pr h i = pr h j -> i = j.
Proof.
  intros Hi Hj E. unfold pr in E. pose proof two64_pos as HM.
  pose proof (Z.div_mod (h + Z.of_nat i) two64 ltac:(lia)) as D1.
  pose proof (Z.div_mod (h + Z.of_nat j) two64 ltac:(lia)) as D2.
  rewrite E in D1.
  set (q1 := (h + Z.of_nat i) / two64) in *.
  set (q2 := (h + Z.of_nat j) / two64) in *.
  set (r := (h + Z.of_nat j) mod two64) in *.
  assert (HD : Z.of_nat i - Z.of_nat j = two64 * (q1 - q2)) by lia.
  assert (HQ : q1 - q2 = 0) by nia.
  lia.
Qed.

Lemma pr_seq_NoDup h : forall n s,
  Z.of_nat (s + n) <= two64 -> NoDup (map (pr h) (seq s n)).
Proof.
  induction n as [|n IH]; intros s Hs.
  - constructor.
  - cbn [seq map]. constructor.
    + intros Hin. apply in_map_iff in Hin. destruct Hin as [x [Hx Hin]].
      apply in_seq in Hin. apply pr_inj in Hx; lia.
    + apply IH. lia.
Qed.

(* pigeonhole: a probe run of n <= 2^64 occupied slots needs n distinct keys *)
Lemma run_length h n (keys : list Z) :
  NoDup keys -> Z.of_nat n <= two64 ->
  (forall j, (j < n)%nat -> In (pr h j) keys) -> (n <= length keys)%nat.
Proof.
  intros ND Hn Hocc.
  assert (HL : (length (map (pr h) (seq 0 n)) <= length keys)%nat).
  { apply NoDup_incl_length.
    - apply pr_seq_NoDup. exact Hn.
    - intros k Hk. apply in_map_iff in Hk. destruct Hk as [x [<- Hx]].
      apply in_seq in Hx. apply Hocc. lia. }
  rewrite map_length, seq_length in HL. exact HL.
Qed.

(* ------------------------------------------------------------------------------------------------ *)
Section HashSetProofs.
  Variable V : Type.
  Variable veq : V -> V -> bool.
  Variable hash : V -> Z.
  Hypothesis veq_refl : forall a, veq a a = true.
  Hypothesis veq_sym : forall a b, veq a b = veq b a.
  Hypothesis veq_trans : forall a b c, veq a b = true -> veq b c = true -> veq a c = true.
  Hypothesis hash_range : forall v, 0 <= hash v < two64.
  Hypothesis hash_veq : forall a b, veq a b = true -> hash a = hash b.

  Local Notation sget := (slot_get V).
  Local Notation pinsert := (probe_insert V veq).
  Local Notation pcontains := (probe_contains V veq).
  Local Notation ins := (insert V veq hash).
  Local Notation newt := (new_table V veq hash).
  Local Notation cont := (contains V veq hash).
  Local Notation mem := (members V).
  Local Notation hval := (hash_val V hash).
  Local Notation teq := (table_equal V veq hash).

  Definition eqV (a b : V) : Prop := veq a b = true.
  (* membership up to veq *)
  Definition InV (v : V) (l : list V) : Prop := exists w, In w l /\ veq v w = true.

  (* keep the first occurrence of each veq-class *)
  Fixpoint dedup_veq (l : list V) : list V :=
    match l with
    | [] => []
    | x :: xs => x :: filter (fun y => negb (veq x y)) (dedup_veq xs)
    end.

  (* ---------------------------------------------------------------------------------------------- *)
  (* Lists up to veq                                                                                *)
  (* ---------------------------------------------------------------------------------------------- *)

  Lemma veq_sym_true a b : veq a b = true -> veq b a = true.
  Proof. intros H. rewrite veq_sym. exact H. Qed.

  Lemma InA_InV x l : InA eqV x l <-> InV x l.
  Proof.
    rewrite InA_alt. unfold InV, eqV. split; intros [w [H1 H2]]; exists w; auto.
  Qed.

  Lemma In_InV x l : In x l -> InV x l.
  Proof. intros H. exists x. auto. Qed.

  Lemma InV_veq a b l : veq a b = true -> InV b l -> InV a l.
  Proof. intros E [w [Hw Ew]]. exists w. split; [exact Hw|]. eapply veq_trans; eauto. Qed.

  Lemma InV_nil v : ~ InV v [].
  Proof. intros [w [[] _]]. Qed.

  Lemma InV_cons v x l : InV v (x :: l) <-> veq v x = true \/ InV v l.
  Proof.
    split.
    - intros [w [[->|Hw] E]]; [left; exact E | right; exists w; auto].
    - intros [E|[w [Hw E]]]; [exists x | exists w]; split; simpl; auto.
  Qed.

  Lemma InV_incl v l l' : (forall x, In x l -> In x l') -> InV v l -> InV v l'.
  Proof. intros H [w [Hw E]]. exists w. auto. Qed.

  Lemma NoDupV_cons_inv x l : NoDupA eqV (x :: l) -> ~ InV x l /\ NoDupA eqV l.
  Proof. intros H. inversion H as [|y l' Hn Hl]; subst. rewrite InA_InV in Hn. auto. Qed.

  Lemma NoDupV_cons x l : ~ InV x l -> NoDupA eqV l -> NoDupA eqV (x :: l).
  Proof. intros Hn Hl. constructor; [rewrite InA_InV; exact Hn | exact Hl]. Qed.

  Lemma NoDupV_remove a w b :
    NoDupA eqV (a ++ w :: b) -> NoDupA eqV (a ++ b) /\ ~ InV w (a ++ b).
  Proof.
    induction a as [|x a IH]; cbn [app]; intros H.
    - apply NoDupV_cons_inv in H. tauto.
    - apply NoDupV_cons_inv in H. destruct H as [Hx Hl]. destruct (IH Hl) as [IH1 IH2]. split.
      + apply NoDupV_cons; [|exact IH1]. intros Hin. apply Hx.
        eapply InV_incl; [|exact Hin]. intros y Hy. apply in_app_iff in Hy. apply in_app_iff.
        simpl. tauto.
      + intros Hin. apply InV_cons in Hin. destruct Hin as [E|Hin]; [|auto].
        apply Hx. exists w. split; [apply in_app_iff; simpl; auto | apply veq_sym_true; exact E].
  Qed.

  Lemma NoDupV_filter f l : NoDupA eqV l -> NoDupA eqV (filter f l).
  Proof.
    induction l as [|x l IH]; cbn [filter]; intros H; [constructor|].
    apply NoDupV_cons_inv in H. destruct H as [Hx Hl]. destruct (f x).
    - apply NoDupV_cons; [|auto]. intros Hin. apply Hx.
      eapply InV_incl; [|exact Hin]. intros y Hy. apply filter_In in Hy. tauto.
    - auto.
  Qed.

  (* pigeonhole on veq-classes *)
  Lemma NoDupV_incl_length : forall l1 l2,
    NoDupA eqV l1 -> (forall x, In x l1 -> InV x l2) -> (length l1 <= length l2)%nat.
  Proof.
    induction l1 as [|x l1 IH]; intros l2 ND Hincl; [simpl; lia|].
    apply NoDupV_cons_inv in ND. destruct ND as [Hx ND].
    destruct (Hincl x (or_introl eq_refl)) as [w [Hw Exw]].
    apply in_split in Hw. destruct Hw as [a [b ->]].
    assert (HL : (length l1 <= length (a ++ b))%nat).
    { apply IH; [exact ND|]. intros y Hy.
      destruct (Hincl y (or_intror Hy)) as [w' [Hw' Eyw]].
      apply in_app_iff in Hw'. destruct Hw' as [Hw'|[Hw'|Hw']].
      - exists w'. split; [apply in_app_iff; auto | exact Eyw].
      - subst w'. exfalso. apply Hx. exists y. split; [exact Hy|].
        eapply veq_trans; [exact Exw | apply veq_sym_true; exact Eyw].
      - exists w'. split; [apply in_app_iff; auto | exact Eyw]. }
    rewrite app_length in *. cbn [length]. lia.
  Qed.

  Lemma NoDupV_incl_rev l1 l2 :
    NoDupA eqV l1 -> (forall x, In x l1 -> InV x l2) -> (length l2 <= length l1)%nat ->
    forall w, In w l2 -> InV w l1.
  Proof.
    intros ND Hincl Hlen w Hw.
    destruct (existsb (veq w) l1) eqn:E.
    - apply existsb_exists in E. destruct E as [x [Hx Ex]]. exists x. auto.
    - exfalso. apply in_split in Hw. destruct Hw as [a [b ->]].
      assert (HL : (length l1 <= length (a ++ b))%nat).
      { apply NoDupV_incl_length; [exact ND|]. intros y Hy.
        destruct (Hincl y Hy) as [w' [Hw' Eyw]].
        apply in_app_iff in Hw'. destruct Hw' as [Hw'|[Hw'|Hw']].
        - exists w'. split; [apply in_app_iff; auto | exact Eyw].
        - subst w'. exfalso.
          assert (E' : existsb (veq w) l1 = true).
          { apply existsb_exists. exists y. split; [exact Hy | apply veq_sym_true; exact Eyw]. }
          congruence.
        - exists w'. split; [apply in_app_iff; auto | exact Eyw]. }
      rewrite app_length in *. cbn [length] in Hlen. lia.
  Qed.

  Lemma NoDupV_same_length l1 l2 :
    NoDupA eqV l1 -> NoDupA eqV l2 -> (forall v, InV v l1 <-> InV v l2) -> length l1 = length l2.
  Proof.
    intros N1 N2 H.
    assert ((length l1 <= length l2)%nat).
    { apply NoDupV_incl_length; [exact N1|]. intros x Hx. apply H. apply In_InV. exact Hx. }
    assert ((length l2 <= length l1)%nat).
    { apply NoDupV_incl_length; [exact N2|]. intros x Hx. apply H. apply In_InV. exact Hx. }
    lia.
  Qed.

  (* sum of hashes *)
  Fixpoint sumh (l : list V) : Z :=
    match l with [] => 0 | x :: xs => hash x + sumh xs end.

  Lemma sumh_remove a w b : sumh (a ++ w :: b) = hash w + sumh (a ++ b).
  Proof. induction a as [|x a IH]; cbn [app sumh]; lia. Qed.

  Lemma NoDupV_same_sumh : forall l1 l2,
    NoDupA eqV l1 -> NoDupA eqV l2 -> (forall v, InV v l1 <-> InV v l2) -> sumh l1 = sumh l2.
  Proof.
    induction l1 as [|x l1 IH]; intros l2 N1 N2 H.
    - destruct l2 as [|y l2]; [reflexivity|]. exfalso.
      apply (InV_nil y). apply H. apply In_InV. simpl. auto.
    - apply NoDupV_cons_inv in N1. destruct N1 as [Hx N1].
      assert (Hxin : InV x l2) by (apply H; apply In_InV; simpl; auto).
      destruct Hxin as [w [Hw Exw]].
      apply in_split in Hw. destruct Hw as [a [b ->]].
      destruct (NoDupV_remove _ _ _ N2) as [N2' Hw].
      rewrite sumh_remove. cbn [sumh]. rewrite (hash_veq _ _ Exw). f_equal.
      apply IH; [exact N1 | exact N2' |]. intros v. split.
      + intros Hv. assert (Hv2 : InV v (a ++ w :: b)).
        { apply H. apply InV_cons. auto. }
        destruct Hv2 as [w' [Hw' Evw]].
        apply in_app_iff in Hw'. destruct Hw' as [Hw'|[Hw'|Hw']].
        * exists w'. split; [apply in_app_iff; auto | exact Evw].
        * subst w'. exfalso. apply Hx. apply InV_veq with v; [|exact Hv].
          eapply veq_trans; [exact Exw | apply veq_sym_true; exact Evw].
        * exists w'. split; [apply in_app_iff; auto | exact Evw].
      + intros Hv. assert (Hv1 : InV v (x :: l1)).
        { apply H. eapply InV_incl; [|exact Hv]. intros y Hy.
          apply in_app_iff in Hy. apply in_app_iff. simpl. tauto. }
        apply InV_cons in Hv1. destruct Hv1 as [Evx|Hv1]; [|exact Hv1].
        exfalso. apply Hw. apply InV_veq with v; [|exact Hv].
        apply veq_sym_true. eapply veq_trans; [exact Evx | exact Exw].
  Qed.

  (* dedup_veq *)
  Lemma dedup_veq_incl : forall l y, In y (dedup_veq l) -> In y l.
  Proof.
    induction l as [|x l IH]; cbn [dedup_veq]; intros y Hy; [exact Hy|].
    destruct Hy as [->|Hy]; [simpl; auto|]. apply filter_In in Hy. right. apply IH. tauto.
  Qed.

  Lemma dedup_veq_InV : forall l v, InV v (dedup_veq l) <-> InV v l.
  Proof.
    intros l v. split.
    - apply InV_incl. intros x. apply dedup_veq_incl.
    - revert v. induction l as [|x l IH]; intros v Hv; [exact Hv|].
      cbn [dedup_veq]. apply InV_cons in Hv. destruct Hv as [E|Hv].
      + apply InV_cons. auto.
      + destruct (IH v Hv) as [w [Hw Evw]]. destruct (veq x w) eqn:Exw.
        * apply InV_cons. left. eapply veq_trans; [exact Evw | apply veq_sym_true; exact Exw].
        * apply InV_cons. right. exists w. split; [|exact Evw].
          apply filter_In. split; [exact Hw|]. rewrite Exw. reflexivity.
  Qed.

  Lemma dedup_veq_NoDupV : forall l, NoDupA eqV (dedup_veq l).
  Proof.
    induction l as [|x l IH]; cbn [dedup_veq]; [constructor|].
    apply NoDupV_cons; [|apply NoDupV_filter; exact IH].
    intros [w [Hw E]]. apply filter_In in Hw. destruct Hw as [_ Hw]. rewrite E in Hw. discriminate.
  Qed.

  Lemma dedup_veq_length l : (length (dedup_veq l) <= length l)%nat.
  Proof.
    apply NoDupV_incl_length; [apply dedup_veq_NoDupV|].
    intros x Hx. apply In_InV. apply dedup_veq_incl. exact Hx.
  Qed.

  (* ---------------------------------------------------------------------------------------------- *)
  (* slot_get                                                                                       *)
  (* ---------------------------------------------------------------------------------------------- *)

  Lemma sget_In : forall (t : table V) k v, sget t k = Some v -> In (k, v) t.
  Proof.
    induction t as [|[k0 v0] t IH]; cbn [slot_get]; intros k v H; [discriminate|].
    destruct (k0 =? k) eqn:E.
    - apply Z.eqb_eq in E. inversion H; subst. simpl; auto.
    - right. apply IH. exact H.
  Qed.

  Lemma sget_None : forall (t : table V) k, sget t k = None <-> ~ In k (map fst t).
  Proof.
    induction t as [|[k0 v0] t IH]; cbn [slot_get map fst]; intros k.
    - split; auto.
    - destruct (k0 =? k) eqn:E.
      + apply Z.eqb_eq in E. split; [discriminate|]. intros H. exfalso. apply H. simpl; auto.
      + apply Z.eqb_neq in E. rewrite IH. simpl. tauto.
  Qed.

  Lemma In_sget : forall (t : table V) k v, NoDup (map fst t) -> In (k, v) t -> sget t k = Some v.
  Proof.
    induction t as [|[k0 v0] t IH]; cbn [slot_get map fst]; intros k v ND H; [destruct H|].
    inversion ND as [|k1 l1 Hn ND']; subst.
    destruct H as [H|H].
    - inversion H; subst. rewrite Z.eqb_refl. reflexivity.
    - destruct (k0 =? k) eqn:E.
      + apply Z.eqb_eq in E. subst k0. exfalso. apply Hn.
        apply in_map_iff. exists (k, v). auto.
      + apply IH; auto.
  Qed.

  Lemma sget_occ (t : table V) k : In k (map fst t) -> exists e, sget t k = Some e.
  Proof.
    intros H. destruct (sget t k) as [e|] eqn:E; [eauto|].
    apply sget_None in E. contradiction.
  Qed.

  Lemma sget_Some_occ (t : table V) k e : sget t k = Some e -> In k (map fst t).
  Proof. intros H. apply sget_In in H. apply in_map_iff. exists (k, e). auto. Qed.

  Lemma In_mem (t : table V) k w : In (k, w) t -> In w (mem t).
  Proof. intros H. unfold members. apply in_map_iff. exists (k, w). auto. Qed.

  Lemma mem_In (t : table V) w : In w (mem t) -> exists k, In (k, w) t.
  Proof.
    unfold members. intros H. apply in_map_iff in H. destruct H as [[k w'] [E H]].
    simpl in E. subst w'. eauto.
  Qed.

  (* ---------------------------------------------------------------------------------------------- *)
  (* The table invariant                                                                            *)
  (* ---------------------------------------------------------------------------------------------- *)

  Record Inv (t : table V) : Prop := {
    inv_nodup : NoDup (map fst t);
    inv_range : forall k, In k (map fst t) -> 0 <= k < two64;
    inv_pair : forall k1 w1 k2 w2,
        In (k1, w1) t -> In (k2, w2) t -> veq w1 w2 = true -> k1 = k2;
    (* every member sits on the probe run of its hash, and the run up to it has no hole *)
    inv_run : forall k w, In (k, w) t ->
        exists d, (d < length t)%nat /\ k = pr (hash w) d /\
                  forall j, (j < d)%nat -> In (pr (hash w) j) (map fst t)
  }.

  Lemma Inv_nil : Inv [].
  Proof.
    constructor; cbn [map]; try (intros; contradiction). constructor.
  Qed.

  Lemma Inv_NoDupV t : Inv t -> NoDupA eqV (mem t).
  Proof.
    intros I. destruct I as [ND _ HP _]. unfold members.
    induction t as [|[k w] t IH]; cbn [map snd fst] in *; [constructor|].
    inversion ND as [|k1 l1 Hn ND']; subst.
    apply NoDupV_cons.
    - intros [w' [Hw' E]]. apply mem_In in Hw'. destruct Hw' as [k' Hk'].
      assert (k = k') by (eapply HP; [left; reflexivity | right; exact Hk' | exact E]).
      subst k'. apply Hn. apply in_map_iff. exists (k, w'). auto.
    - apply IH; [exact ND'|]. intros k1 w1 k2 w2 H1 H2. apply HP; right; assumption.
  Qed.

  (* ---------------------------------------------------------------------------------------------- *)
  (* insert                                                                                         *)
  (* ---------------------------------------------------------------------------------------------- *)

  Lemma probe_insert_walk (t : table V) v :
    NoDup (map fst t) -> Z.of_nat (length t) < two64 ->
    forall fuel i, (i + fuel = S (length t))%nat ->
      (forall j, (j < i)%nat -> exists e, sget t (pr (hash v) j) = Some e /\ veq v e = false) ->
      (exists e, In e (mem t) /\ veq v e = true /\ pinsert fuel t (pr (hash v) i) v = Some t)
      \/ (exists d, (d <= length t)%nat /\ sget t (pr (hash v) d) = None /\
            (forall j, (j < d)%nat -> exists e, sget t (pr (hash v) j) = Some e /\ veq v e = false) /\
            pinsert fuel t (pr (hash v) i) v = Some ((pr (hash v) d, v) :: t)).
  Proof.
    intros ND HL. induction fuel as [|f IH]; intros i Hi Hrun.
    - exfalso.
      assert (H : (S (length t) <= length (map fst t))%nat).
      { apply (run_length (hash v)); [exact ND | lia |].
        intros j Hj. destruct (Hrun j) as [e [He _]]; [lia|].
        eapply sget_Some_occ; exact He. }
      rewrite map_length in H. lia.
    - cbn [probe_insert]. destruct (sget t (pr (hash v) i)) as [e|] eqn:E.
      + destruct (veq v e) eqn:Ev.
        * left. exists e. split; [|auto]. apply sget_In in E. eapply In_mem; exact E.
        * rewrite pr_succ. apply IH; [lia|].
          intros j Hj. destruct (Nat.eq_dec j i) as [->|Hne]; [eauto|]. apply Hrun. lia.
      + right. exists i. split; [lia|]. auto.
  Qed.

  Lemma walk_not_member (t : table V) v d :
    Inv t -> sget t (pr (hash v) d) = None ->
    (forall j, (j < d)%nat -> exists e, sget t (pr (hash v) j) = Some e /\ veq v e = false) ->
    ~ InV v (mem t).
  Proof.
    intros I HN Hrun [w [Hw Ev]]. apply mem_In in Hw. destruct Hw as [k Hin].
    destruct (inv_run t I k w Hin) as [dw [Hdl [Hk Hocc]]].
    rewrite <- (hash_veq _ _ Ev) in Hk, Hocc.
    pose proof (In_sget t k w (inv_nodup t I) Hin) as Hg.
    destruct (lt_eq_lt_dec dw d) as [[Hlt|Heq]|Hgt].
    - destruct (Hrun dw Hlt) as [e [He Hf]]. rewrite <- Hk in He. congruence.
    - subst dw. rewrite <- Hk in HN. congruence.
    - apply sget_None in HN. apply HN. apply Hocc. exact Hgt.
  Qed.

  Lemma insert_spec (t : table V) v :
    Inv t -> Z.of_nat (length t) < two64 ->
    exists t', ins t v = Some t' /\ Inv t' /\ (length t' <= S (length t))%nat /\
      (forall u, InV u (mem t') <-> InV u (mem t) \/ veq u v = true) /\
      (forall w, In w (mem t') -> In w (mem t) \/ w = v).
  Proof.
    intros I HL. unfold insert.
    destruct (probe_insert_walk t v (inv_nodup t I) HL (S (length t)) 0%nat) as [H|H].
    - lia.
    - intros j Hj. lia.
    - destruct H as [e [He [Ev Hp]]]. rewrite pr_0 in Hp by apply hash_range.
      exists t. split; [exact Hp|]. split; [exact I|]. split; [lia|]. split.
      + intros u. split; [auto|]. intros [H|H]; [exact H|].
        exists e. split; [exact He|]. eapply veq_trans; eauto.
      + auto.
    - destruct H as [d [Hd [HN [Hrun Hp]]]]. rewrite pr_0 in Hp by apply hash_range.
      pose proof (walk_not_member t v d I HN Hrun) as Hnm.
      exists ((pr (hash v) d, v) :: t). split; [exact Hp|].
      split; [|split; [cbn [length]; lia|split]].
      + constructor; cbn [map fst length].
        * constructor; [|exact (inv_nodup t I)]. apply sget_None. exact HN.
        * intros k [<-|Hk]; [apply pr_range | apply (inv_range t I); exact Hk].
        * intros k1 w1 k2 w2 [H1|H1] [H2|H2] E.
          -- inversion H1; inversion H2; subst. reflexivity.
          -- inversion H1; subst. exfalso. apply Hnm. exists w2. split; [|exact E].
             eapply In_mem; exact H2.
          -- inversion H2; subst. exfalso. apply Hnm. exists w1.
             split; [eapply In_mem; exact H1 | apply veq_sym_true; exact E].
          -- eapply (inv_pair t I); eauto.
        * intros k w [H1|H1].
          -- inversion H1; subst. exists d. split; [lia|]. split; [reflexivity|].
             intros j Hj. right. destruct (Hrun j Hj) as [e [He _]].
             eapply sget_Some_occ; exact He.
          -- destruct (inv_run t I k w H1) as [dw [Hdl [Hk Hocc]]].
             exists dw. split; [lia|]. split; [exact Hk|]. intros j Hj. right. apply Hocc. exact Hj.
      + intros u. unfold members. cbn [map snd]. rewrite InV_cons. tauto.
      + intros w. unfold members. cbn [map snd]. intros [<-|H]; auto.
  Qed.

  Definition insert_step (acc : option (table V)) (v : V) : option (table V) :=
    match acc with Some t => ins t v | None => None end.

  Lemma new_table_gen : forall l (t : table V),
    Inv t -> Z.of_nat (length t + length l) < two64 ->
    exists t', fold_left insert_step l (Some t) = Some t' /\ Inv t' /\
      (length t' <= length t + length l)%nat /\
      (forall v, InV v (mem t') <-> InV v (mem t) \/ InV v l) /\
      (forall w, In w (mem t') -> In w (mem t) \/ In w l).
  Proof.
    induction l as [|x l IH]; intros t I HL; cbn [fold_left length] in *.
    - exists t. split; [reflexivity|]. split; [exact I|]. split; [lia|]. split.
      + intros v. split; [auto|]. intros [H|H]; [exact H|]. destruct (InV_nil _ H).
      + auto.
    - destruct (insert_spec t x I ltac:(lia)) as [t1 [E1 [I1 [L1 [M1 Sub1]]]]].
      cbn [insert_step]. rewrite E1.
      destruct (IH t1 I1 ltac:(lia)) as [t' [E' [I' [L' [M' Sub']]]]].
      exists t'. split; [exact E'|]. split; [exact I'|]. split; [lia|]. split.
      + intros v. rewrite M', M1, InV_cons. tauto.
      + intros w Hw. destruct (Sub' w Hw) as [H|H]; [|simpl; auto].
        destruct (Sub1 w H) as [H1| ->]; simpl; auto.
  Qed.

  Lemma new_table_spec l :
    Z.of_nat (length l) < two64 ->
    exists t, newt l = Some t /\ Inv t /\ (length t <= length l)%nat /\
      (forall v, InV v (mem t) <-> InV v l) /\ (forall w, In w (mem t) -> In w l).
  Proof.
    intros HL. destruct (new_table_gen l [] Inv_nil) as [t [E [I [L [M Sub]]]]].
    - cbn [length]. lia.
    - exists t. split; [exact E|]. split; [exact I|]. split; [exact L|]. split.
      + intros v. rewrite M. split; [|auto]. intros [H|H]; [destruct (InV_nil _ H) | exact H].
      + intros w Hw. destruct (Sub w Hw) as [[]|H]. exact H.
  Qed.

  Lemma new_table_inv l t :
    Z.of_nat (length l) < two64 -> newt l = Some t ->
    Inv t /\ Z.of_nat (length t) < two64 /\
    (forall v, InV v (mem t) <-> InV v l) /\ (forall w, In w (mem t) -> In w l).
  Proof.
    intros HL E. destruct (new_table_spec l HL) as [t' [E' [I [L [M Sub]]]]].
    rewrite E in E'. inversion E'; subst t'.
    split; [exact I|]. split; [lia|]. split; [exact M | exact Sub].
  Qed.

  (* ---------------------------------------------------------------------------------------------- *)
  (* contains                                                                                       *)
  (* ---------------------------------------------------------------------------------------------- *)

  Lemma contains_walk_total (t : table V) v :
    NoDup (map fst t) -> Z.of_nat (length t) < two64 ->
    forall fuel i, (i + fuel = S (length t))%nat ->
      (forall j, (j < i)%nat -> In (pr (hash v) j) (map fst t)) ->
      exists b, pcontains fuel t (pr (hash v) i) v = Some b.
  Proof.
    intros ND HL. induction fuel as [|f IH]; intros i Hi Hrun.
    - exfalso.
      assert (H : (S (length t) <= length (map fst t))%nat).
      { apply (run_length (hash v)); [exact ND | lia |]. intros j Hj. apply Hrun. lia. }
      rewrite map_length in H. lia.
    - cbn [probe_contains]. destruct (sget t (pr (hash v) i)) as [e|] eqn:E; [|eauto].
      destruct (veq v e); [eauto|]. rewrite pr_succ. apply IH; [lia|].
      intros j Hj. destruct (Nat.eq_dec j i) as [->|Hne].
      + eapply sget_Some_occ; exact E.
      + apply Hrun. lia.
  Qed.

  Lemma contains_walk_sound (t : table V) v :
    forall fuel h, pcontains fuel t h v = Some true -> InV v (mem t).
  Proof.
    induction fuel as [|f IH]; cbn [probe_contains]; intros h H; [discriminate|].
    destruct (sget t h) as [e|] eqn:E; [|discriminate].
    destruct (veq v e) eqn:Ev.
    - exists e. split; [|exact Ev]. apply sget_In in E. eapply In_mem; exact E.
    - eapply IH; exact H.
  Qed.

  Lemma contains_walk_complete (t : table V) v k w dw :
    NoDup (map fst t) -> In (k, w) t -> veq v w = true -> k = pr (hash v) dw ->
    (forall j, (j < dw)%nat -> In (pr (hash v) j) (map fst t)) ->
    forall fuel i, (i <= dw)%nat -> (dw - i < fuel)%nat ->
      pcontains fuel t (pr (hash v) i) v = Some true.
  Proof.
    intros ND Hin Ev Hk Hocc. induction fuel as [|f IH]; intros i Hi Hf; [lia|].
    cbn [probe_contains].
    destruct (Nat.eq_dec i dw) as [->|Hne].
    - rewrite <- Hk. rewrite (In_sget t k w ND Hin). rewrite Ev. reflexivity.
    - destruct (sget_occ t (pr (hash v) i)) as [e He]; [apply Hocc; lia|].
      rewrite He. destruct (veq v e); [reflexivity|].
      rewrite pr_succ. apply IH; lia.
  Qed.

  Lemma contains_spec (t : table V) v :
    Inv t -> Z.of_nat (length t) < two64 ->
    exists b, cont t v = Some b /\ (b = true <-> InV v (mem t)).
  Proof.
    intros I HL.
    assert (E : cont t v = pcontains (S (length t)) t (pr (hash v) 0) v).
    { unfold contains. rewrite pr_0 by apply hash_range. reflexivity. }
    destruct (contains_walk_total t v (inv_nodup t I) HL (S (length t)) 0%nat) as [b Hb].
    - lia.
    - intros j Hj. lia.
    - exists b. split; [rewrite E; exact Hb|]. split.
      + intros ->. eapply contains_walk_sound; exact Hb.
      + intros [w [Hw Ev]]. apply mem_In in Hw. destruct Hw as [k Hin].
        destruct (inv_run t I k w Hin) as [dw [Hdl [Hk Hocc]]].
        rewrite <- (hash_veq _ _ Ev) in Hk, Hocc.
        rewrite (contains_walk_complete t v k w dw (inv_nodup t I) Hin Ev Hk Hocc) in Hb.
        * congruence.
        * lia.
        * lia.
  Qed.

  (* ---------------------------------------------------------------------------------------------- *)
  (* hash_val                                                                                       *)
  (* ---------------------------------------------------------------------------------------------- *)

  Lemma hash_val_fold : forall l a,
    fold_left (fun a v => wrapu64 (a + hash v)) l (a mod two64) = (a + sumh l) mod two64.
  Proof.
    induction l as [|x l IH]; intros a; cbn [fold_left sumh].
    - rewrite Z.add_0_r. reflexivity.
    - unfold wrapu64 at 2. pose proof two64_pos as HM.
      rewrite Z.add_mod_idemp_l by lia. rewrite IH. f_equal. lia.
  Qed.

  Lemma hash_val_sumh (t : table V) : hval t = sumh (mem t) mod two64.
  Proof.
    unfold hash_val. change 0 with (0 mod two64) at 1. rewrite hash_val_fold. reflexivity.
  Qed.

  (* ---------------------------------------------------------------------------------------------- *)
  (* table_equal                                                                                    *)
  (* ---------------------------------------------------------------------------------------------- *)

  Definition contains_step (b : table V) (acc : option bool) (v : V) : option bool :=
    match acc with
    | Some true => cont b v
    | other => other
    end.

  Lemma contains_fold_false b : forall ms, fold_left (contains_step b) ms (Some false) = Some false.
  Proof. induction ms as [|x ms IH]; cbn [fold_left contains_step]; auto. Qed.

  Lemma contains_fold_spec (b : table V) :
    Inv b -> Z.of_nat (length b) < two64 ->
    forall ms, exists r, fold_left (contains_step b) ms (Some true) = Some r /\
                         (r = true <-> forall x, In x ms -> InV x (mem b)).
  Proof.
    intros I HL. induction ms as [|x ms IH]; cbn [fold_left contains_step].
    - exists true. split; [reflexivity|]. split; [intros _ y []|reflexivity].
    - destruct (contains_spec b x I HL) as [bx [Ex Hx]]. rewrite Ex. destruct bx.
      + destruct IH as [r [Er Hr]]. exists r. split; [exact Er|]. rewrite Hr. split.
        * intros H y [<-|Hy]; [apply Hx; reflexivity | apply H; exact Hy].
        * intros H y Hy. apply H. simpl; auto.
      + exists false. split; [apply contains_fold_false|]. split; [discriminate|].
        intros H. apply Hx. apply H. simpl; auto.
  Qed.

  Lemma same_classes_tables t1 t2 :
    Inv t1 -> Inv t2 -> (forall v, InV v (mem t1) <-> InV v (mem t2)) ->
    length t1 = length t2 /\ hval t1 = hval t2.
  Proof.
    intros I1 I2 H. pose proof (Inv_NoDupV t1 I1) as N1. pose proof (Inv_NoDupV t2 I2) as N2. split.
    - pose proof (NoDupV_same_length _ _ N1 N2 H) as HL. unfold members in HL.
      rewrite !map_length in HL. exact HL.
    - rewrite !hash_val_sumh. f_equal. apply NoDupV_same_sumh; assumption.
  Qed.

  Lemma table_equal_spec t1 t2 :
    Inv t1 -> Inv t2 -> Z.of_nat (length t2) < two64 ->
    exists b, teq t1 t2 = Some b /\ (b = true <-> (forall v, InV v (mem t1) <-> InV v (mem t2))).
  Proof.
    intros I1 I2 HL2. unfold table_equal.
    destruct (negb (Nat.eqb (length t1) (length t2)) || negb (hval t1 =? hval t2)) eqn:C.
    - exists false. split; [reflexivity|]. split; [discriminate|]. intros H. exfalso.
      destruct (same_classes_tables t1 t2 I1 I2 H) as [EL EH].
      rewrite EL, EH, Nat.eqb_refl, Z.eqb_refl in C. discriminate.
    - apply orb_false_iff in C. destruct C as [CL _].
      apply negb_false_iff in CL. apply Nat.eqb_eq in CL.
      destruct (contains_fold_spec t2 I2 HL2 (mem t1)) as [r [Er Hr]].
      exists r. split; [exact Er|]. rewrite Hr. split.
      + intros H v. split.
        * intros [w [Hw E]]. apply InV_veq with w; [exact E | apply H; exact Hw].
        * intros [w [Hw E]]. apply InV_veq with w; [exact E|].
          apply (NoDupV_incl_rev (mem t1) (mem t2)); [apply Inv_NoDupV; exact I1 | exact H | | exact Hw].
          unfold members. rewrite !map_length. lia.
      + intros H x Hx. apply H. apply In_InV. exact Hx.
  Qed.

  (* ---------------------------------------------------------------------------------------------- *)
  (* Headline theorems                                                                              *)
  (* ---------------------------------------------------------------------------------------------- *)

  (* the probe loops never run out of fuel *)
  Theorem new_table_total : forall l,
    Z.of_nat (length l) < two64 -> exists t, newt l = Some t.
  Proof. intros l HL. destruct (new_table_spec l HL) as [t [E _]]. eauto. Qed.

  Theorem contains_total : forall l t v,
    Z.of_nat (length l) < two64 -> newt l = Some t -> exists b, cont t v = Some b.
  Proof.
    intros l t v HL E. destruct (new_table_inv l t HL E) as [I [HT _]].
    destruct (contains_spec t v I HT) as [b [Hb _]]. eauto.
  Qed.

  Theorem set_members : forall l t v,
    Z.of_nat (length l) < two64 -> newt l = Some t ->
    (cont t v = Some true <-> InV v l).
  Proof.
    intros l t v HL E. destruct (new_table_inv l t HL E) as [I [HT [M _]]].
    destruct (contains_spec t v I HT) as [b [Hb Hiff]]. rewrite <- M, <- Hiff, Hb.
    split; [intros H; inversion H; reflexivity | intros ->; reflexivity].
  Qed.

  (* the table holds exactly one representative per veq-class of l *)
  Theorem set_len : forall l t,
    Z.of_nat (length l) < two64 -> newt l = Some t ->
    length t = length (dedup_veq l)
    /\ NoDupA eqV (mem t)                              (* members pairwise non-veq *)
    /\ (forall w, In w (mem t) -> In w l)              (* members are elements of l *)
    /\ (forall v, InV v (mem t) <-> InV v l)           (* every class of l is represented *)
    /\ NoDup (map fst t).                              (* one slot per member *)
  Proof.
    intros l t HL E. destruct (new_table_inv l t HL E) as [I [HT [M Sub]]].
    pose proof (Inv_NoDupV t I) as N. split; [|split; [exact N|split; [exact Sub|split; [exact M|]]]].
    - assert (HLen : length (mem t) = length (dedup_veq l)).
      { apply NoDupV_same_length; [exact N | apply dedup_veq_NoDupV |].
        intros v. rewrite M, dedup_veq_InV. reflexivity. }
      unfold members in HLen. rewrite map_length in HLen. exact HLen.
    - exact (inv_nodup t I).
  Qed.

  Theorem set_equal_iff : forall l1 l2 t1 t2,
    Z.of_nat (length l1) < two64 -> Z.of_nat (length l2) < two64 ->
    newt l1 = Some t1 -> newt l2 = Some t2 ->
    exists b, teq t1 t2 = Some b /\ (b = true <-> (forall v, InV v l1 <-> InV v l2)).
  Proof.
    intros l1 l2 t1 t2 HL1 HL2 E1 E2.
    destruct (new_table_inv l1 t1 HL1 E1) as [I1 [HT1 [M1 _]]].
    destruct (new_table_inv l2 t2 HL2 E2) as [I2 [HT2 [M2 _]]].
    destruct (table_equal_spec t1 t2 I1 I2 HT2) as [b [Hb Hiff]].
    exists b. split; [exact Hb|]. rewrite Hiff. split; intros H v.
    - rewrite <- M1, <- M2. apply H.
    - rewrite M1, M2. apply H.
  Qed.

  (* hash_val depends only on the veq-classes present, not on insertion order or duplicates *)
  Theorem hash_val_perm_invariant : forall l1 l2 t1 t2,
    Z.of_nat (length l1) < two64 -> Z.of_nat (length l2) < two64 ->
    newt l1 = Some t1 -> newt l2 = Some t2 ->
    (forall v, InV v l1 <-> InV v l2) -> hval t1 = hval t2.
  Proof.
    intros l1 l2 t1 t2 HL1 HL2 E1 E2 H.
    destruct (new_table_inv l1 t1 HL1 E1) as [I1 [_ [M1 _]]].
    destruct (new_table_inv l2 t2 HL2 E2) as [I2 [_ [M2 _]]].
    apply same_classes_tables; [exact I1 | exact I2 |].
    intros v. rewrite M1, M2. apply H.
  Qed.

  (* hash_val is the sum of the hashes of the first occurrences, modulo 2^64 *)
  Theorem hash_val_dedup : forall l t,
    Z.of_nat (length l) < two64 -> newt l = Some t ->
    hval t = sumh (dedup_veq l) mod two64.
  Proof.
    intros l t HL E. destruct (new_table_inv l t HL E) as [I [_ [M _]]].
    rewrite hash_val_sumh. f_equal. apply NoDupV_same_sumh.
    - apply Inv_NoDupV. exact I.
    - apply dedup_veq_NoDupV.
    - intros v. rewrite M, dedup_veq_InV. reflexivity.
  Qed.

End HashSetProofs.

(* ------------------------------------------------------------------------------------------------ *)
(* Wrap-around probing with a fully colliding hash: every value hashes to 2^64 - 1, so the members   *)
(* land in slots 2^64-1, 0, 1.                                                                       *)
(* ------------------------------------------------------------------------------------------------ *)
Example wrap_around_probe :
  let h := fun _ : Z => two64 - 1 in
  match new_table Z Z.eqb h [10; 20; 30; 20; 10] with
  | Some t =>
      (map fst t, map (contains Z Z.eqb h t) [10; 20; 30; 40], hash_val Z h t)
      = ([1; 0; two64 - 1], [Some true; Some true; Some true; Some false], two64 - 3)
  | None => False
  end.
Proof. vm_compute. reflexivity. Qed.

Print Assumptions new_table_total.
Print Assumptions contains_total.
Print Assumptions set_members.
Print Assumptions set_len.
Print Assumptions set_equal_iff.
Print Assumptions hash_val_perm_invariant.
Print Assumptions hash_val_dedup.
Print Assumptions wrap_around_probe.
