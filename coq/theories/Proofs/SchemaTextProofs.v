(* Proofs about Impl/SchemaText.v, part 2 of 2: the schema TEXT codec round-trips.
     parse_print_schema     : wf_text s = true -> parse_schema (print_schema s) = SOk (norm_text s)
     norm_text_idempotent   : wf_text s = true -> norm_text (norm_text s) = norm_text s /\ wf_text (norm_text s) = true
     second_text_rendering  : wf_text s = true -> print_schema (norm_text s) = print_schema s
   The lexer lemmas ([rd], the token reader as a function of the unread input) are in SchemaTextProofs1.v.
   The printer writes a built-in type name as __cedar::Name when the schema declares a type of that name (shadowed_builtins);
   norm_text follows it, the parser lemmas are proved for an arbitrary set [sh] of built-in names (Section WithShadowed), and
   Part 2 (resolve_norm_text_names') needs no hypothesis on the declared names any more.

   Shape of the parser lemmas.  The parser state holds ONE token of lookahead, so parsing the text [X ++ rest] of a construct
   needs the first token of [rest] to be readable; every lemma has the form
       rd rest = SOk st' -> (side conditions on rest / st') -> 2 * length (X ++ rest) + c <= fuel ->
       exists st, rd (X ++ rest) = SOk st /\ parse_X fuel st = SOk (norm x, st')
   i.e. from the state that has just read the first token of X, parse_X returns the normalised value and the state that has just read
   the first token of [rest].  The fuel bound mentions the whole remaining text so that sub-calls and loop iterations only
   need "the text got shorter". *)
From Coq Require Import String.
From Coq Require Import ZArith List Bool Lia Arith.
Import ListNotations.
From Cedar Require Import Base.Utf8 Base.Utf8Enc Lang.Value Impl.Tokenizer Impl.Quote Impl.PolicyJson Impl.SchemaJson Impl.SchemaText.
From Cedar Require Import Impl.SchemaResolve Proofs.SchemaResolveProofs.
From Cedar Require Import Proofs.ValueProofs Proofs.ValueJsonProofs Proofs.QuoteProofs Proofs.SchemaJsonProofs Proofs.SchemaTextProofs1.
Local Open Scope Z_scope.

Local Notation "x <- e ;; f" := (sbind e (fun x => f)) (at level 61, e at next level, right associativity).
Local Notation "' p <- e ;; f" := (sbind e (fun p => f)) (at level 61, p pattern, e at next level, right associativity).
Local Notation xattr := (xty * bool * annots)%type.

(* ------------------------------------------------------------------------------------------ *)
(* What the text syntax can express: wf_text                                                   *)
(* ------------------------------------------------------------------------------------------ *)
(* byte-level isValidIdent *)
Definition identb (s : str) : bool := word s && negb (is_reserved s).
(* a name written by marshalAttrName / marshalActionName: bare when it is a valid identifier, else quoted - and quoteCedar only
   reads back on valid UTF-8 (an invalid byte is written as \u{fffd}) *)
Definition name_ok (s : str) : bool := is_valid_ident s || utf8_ok s.
(* a reference to an entity type (memberOfTypes, principal / resource types, the type of an action parent), written verbatim and
   read by parsePath: IDENT { '::' IDENT }; the first component may also be the reserved word __cedar *)
Definition ent_path (r : str) : bool :=
  match comps r with
  | c :: cs => word c && (negb (is_reserved c) || str_eqb (s_of "__cedar") c) && forallb identb cs
  | [] => false
  end.
(* a type name in a type position (attribute, Set element, common type body, tags, context): as above, but parseType takes a
   first component `Set` for the set constructor *)
Definition type_path (r : str) : bool :=
  ent_path r && negb (str_eqb (s_of "Set") (hd [] (comps r))).
(* a namespace name: parseNamespace rejects __cedar anywhere *)
Definition ns_path (r : str) : bool := forallb identb (comps r).
(* annotations: the key is written verbatim after '@' and may be any identifier-shaped word, reserved or not *)
Definition annots_ok (a : annots) : bool :=
  keys_sorted a && forallb (fun kv : str * str => word (fst kv) && utf8_ok (snd kv)) a.

Fixpoint wf_tty (t : xty) : bool :=
  match t with
  | XString | XLong | XBool => true
  | XExt n => type_path n
  | XEnt r => type_path r
  | XRef r => type_path r
  | XSet e => wf_tty e
  | XRec fs => keys_sorted fs
               && (fix go (l : xrec) : bool :=
                     match l with
                     | [] => true
                     | x :: rest => name_ok (fst x) && wf_tty (fst (fst (snd x))) && annots_ok (snd (snd x)) && go rest
                     end) fs
  end.
Definition wf_tattr (kv : str * xattr) : bool := name_ok (fst kv) && wf_tty (fst (fst (snd kv))) && annots_ok (snd (snd kv)).
Lemma wf_tty_rec fs : wf_tty (XRec fs) = keys_sorted fs && forallb wf_tattr fs.
Proof. reflexivity. Qed.

Definition opt_wf_tty (o : option xty) : bool := match o with Some t => wf_tty t | None => true end.
Definition wf_entity_t (e : x_entity) : bool :=
  annots_ok (xe_annots e) && forallb ent_path (xe_parents e) && opt_wf_tty (option_map XRec (xe_shape e)) && opt_wf_tty (xe_tags e).
Definition wf_enum_t (e : x_enum) : bool := annots_ok (xn_annots e) && forallb utf8_ok (xn_values e).
Definition wf_common_t (c : x_common) : bool := annots_ok (xc_annots c) && wf_tty (xc_type c).
(* the grammar requires both a principal and a resource list, and neither may be empty (finding F45) *)
Definition wf_applies_t (a : x_applies) : bool :=
  negb (is_nil (xa_principals a)) && forallb ent_path (xa_principals a)
  && negb (is_nil (xa_resources a)) && forallb ent_path (xa_resources a) && opt_wf_tty (xa_context a).
Definition wf_parent (p : str * str) : bool :=
  match fst p with [] => name_ok (snd p) | ty => ent_path ty && utf8_ok (snd p) end.
Definition wf_action_t (a : x_action) : bool :=
  annots_ok (xac_annots a) && forallb wf_parent (xac_parents a)
  && match xac_applies a with Some ap => wf_applies_t ap | None => true end.

Definition wf_ns_t (n : x_ns) : bool :=
  annots_ok (xs_annots n)
  && keys_sorted (xs_entities n) && forallb (fun kv : str * x_entity => is_valid_ident (fst kv) && wf_entity_t (snd kv)) (xs_entities n)
  && keys_sorted (xs_enums n) && forallb (fun kv : str * x_enum => is_valid_ident (fst kv) && wf_enum_t (snd kv)) (xs_enums n)
  && disjoint_keys (xs_entities n) (xs_enums n)
  && keys_sorted (xs_commons n)
  && forallb (fun kv : str * x_common => is_valid_ident (fst kv) && negb (is_reserved_type_name (fst kv)) && wf_common_t (snd kv)) (xs_commons n)
  && keys_sorted (xs_actions n) && forallb (fun kv : str * x_action => name_ok (fst kv) && wf_action_t (snd kv)) (xs_actions n).

Definition wf_text (s : x_schema) : bool :=
  keys_sorted s
  && forallb (fun kv : str * x_ns => wf_ns_t (snd kv) && match fst kv with [] => is_nil (xs_annots (snd kv)) | name => ns_path name end) s.

(* ------------------------------------------------------------------------------------------ *)
(* What comes back: norm_text                                                                  *)
(* ------------------------------------------------------------------------------------------ *)
(* the parser does not classify type names: every name is an ast.TypeRef; a built-in name comes back as it was written,
   i.e. with the __cedar:: prefix when the schema declares a type of that name ([sh] = shadowedBuiltins) *)
Fixpoint norm_ty (sh : str -> bool) (t : xty) : xty :=
  match t with
  | XString => XRef (write_builtin sh (s_of "String"))
  | XLong => XRef (write_builtin sh (s_of "Long"))
  | XBool => XRef (write_builtin sh (s_of "Bool"))
  | XExt n => XRef (write_builtin sh n)
  | XEnt r => XRef r
  | XRef r => XRef r
  | XSet e => XSet (norm_ty sh e)
  | XRec fs => XRec ((fix go (l : xrec) : xrec :=
                        match l with [] => [] | x :: r => (fst x, (norm_ty sh (fst (fst (snd x))), snd (fst (snd x)), snd (snd x))) :: go r end) fs)
  end.
Definition norm_attr (sh : str -> bool) (a : xattr) : xattr := (norm_ty sh (fst (fst a)), snd (fst a), snd a).
Lemma norm_ty_rec sh fs : norm_ty sh (XRec fs) = XRec (mapv (norm_attr sh) fs).
Proof. reflexivity. Qed.
Definition norm_rec (sh : str -> bool) (fs : xrec) : xrec := mapv (norm_attr sh) fs.

Definition norm_entity_t (sh : str -> bool) (e : x_entity) : x_entity :=
  {| xe_annots := xe_annots e; xe_parents := xe_parents e; xe_shape := option_map (norm_rec sh) (xe_shape e);
     xe_tags := option_map (norm_ty sh) (xe_tags e) |}.
Definition norm_common_t (sh : str -> bool) (c : x_common) : x_common := {| xc_annots := xc_annots c; xc_type := norm_ty sh (xc_type c) |}.
Definition norm_applies_t (sh : str -> bool) (a : x_applies) : x_applies :=
  {| xa_principals := xa_principals a; xa_resources := xa_resources a; xa_context := option_map (norm_ty sh) (xa_context a) |}.
Definition norm_action_t (sh : str -> bool) (a : x_action) : x_action :=
  {| xac_annots := xac_annots a; xac_parents := xac_parents a; xac_applies := option_map (norm_applies_t sh) (xac_applies a) |}.
Definition norm_ns_t (sh : str -> bool) (n : x_ns) : x_ns :=
  {| xs_annots := xs_annots n; xs_entities := mapv (norm_entity_t sh) (xs_entities n); xs_enums := xs_enums n;
     xs_commons := mapv (norm_common_t sh) (xs_commons n); xs_actions := mapv (norm_action_t sh) (xs_actions n) |}.
(* the bare declarations are listed only when there are any (ns_keep, as for the JSON codec) *)
Definition norm_text (s : x_schema) : x_schema := mapv (norm_ns_t (shadowed_builtins s)) (filter ns_keep s).

(* the built-in names the printer may prefix *)
Definition is_builtin_name (n : str) : bool := existsb (fun b => str_eqb (s_of b) n) builtin_type_names.
Lemma shadowed_builtin : forall m n, shadowed_builtins m n = true -> is_builtin_name n = true.
Proof. intros m n H. unfold shadowed_builtins in H. apply andb_true_iff in H. destruct H as [H _]. exact H. Qed.
Lemma builtin_name_cases : forall n (P : str -> Prop), is_builtin_name n = true ->
  P (s_of "String") -> P (s_of "Long") -> P (s_of "Bool") -> P (s_of "ipaddr") -> P (s_of "decimal") -> P (s_of "datetime") -> P (s_of "duration") -> P n.
Proof.
  intros n P H. unfold is_builtin_name, builtin_type_names in H. cbn [existsb] in H. intros.
  repeat (apply orb_true_iff in H; destruct H as [H|H]); try discriminate; apply str_eqb_eq in H; subst n; assumption.
Qed.
Lemma type_path_wb : forall sh name, (forall n, sh n = true -> is_builtin_name n = true) -> type_path name = true ->
  type_path (write_builtin sh name) = true.
Proof.
  intros sh name Hsh Hp. unfold write_builtin. destruct (sh name) eqn:E; [|exact Hp].
  apply (builtin_name_cases name (fun n => type_path (s_of "__cedar::" ++ n) = true) (Hsh _ E)); reflexivity.
Qed.

(* ------------------------------------------------------------------------------------------ *)
(* Tactics and small helpers                                                                   *)
(* ------------------------------------------------------------------------------------------ *)
Lemma is_mk : forall K t s K', is (MkSt (mk_tok K t) s) K' = ttype_beq K K'.
Proof. reflexivity. Qed.
Lemma txt_mk : forall K t s, txt (MkSt (mk_tok K t) s) = t.
Proof. reflexivity. Qed.
Lemma kw_mk : forall K t s w, kw (MkSt (mk_tok K t) s) w = str_eqb (s_of w) t.
Proof. reflexivity. Qed.
Lemma tk_mk : forall K t s, tk (MkSt (mk_tok K t) s) = K.
Proof. reflexivity. Qed.
Lemma read_token_mk : forall t s, read_token (MkSt t s) = rd s.
Proof. reflexivity. Qed.

(* closed keyword comparisons *)
Ltac kwc :=
  repeat match goal with
         | |- context [str_eqb (s_of ?a) (s_of ?b)] =>
           let v := eval vm_compute in (str_eqb (s_of a) (s_of b)) in change (str_eqb (s_of a) (s_of b)) with v
         end.
Ltac sst :=
  repeat (progress (unfold expect, opt_comma; rewrite ?is_mk, ?kw_mk, ?txt_mk, ?tk_mk, ?read_token_mk; kwc;
                    cbn [ttype_beq negb andb orb sbind])).
Ltac flen := repeat (first [rewrite app_length in * | progress cbn [length] in * ]); lia.
Ltac andb_split H :=
  repeat match type of H with
         | (_ && _) = true => let H1 := fresh H in apply andb_true_iff in H; destruct H as [H H1]; andb_split H1
         end.

Lemma has_key_last : forall (A : Type) k (v : A) acc, keys_sorted (acc ++ [(k, v)]) = true -> has_key k acc = false.
Proof.
  intros A k v acc. induction acc as [|[k' v'] acc IH]; intros Hs; [reflexivity|].
  cbn [app] in Hs. pose proof (vj_sorted_all_lt _ _ _ Hs) as HF. rewrite Forall_forall in HF.
  assert (Hlt : str_ltb k' k = true) by (apply (HF (k, v)); apply in_app_iff; right; left; reflexivity).
  unfold has_key in *. cbn [rec_get].
  destruct (str_eqb k k') eqn:E.
  { apply str_eqb_eq in E. subst k'. rewrite str_ltb_irrefl in Hlt. discriminate. }
  apply IH. apply keys_sorted_cons in Hs. tauto.
Qed.

(* ------------------------------------------------------------------------------------------ *)
(* Annotations                                                                                 *)
(* ------------------------------------------------------------------------------------------ *)
Definition pa (ind : nat) (l : annots) : str :=
  flat_map (fun kv : str * str =>
              tabs ind ++ [64] ++ fst kv ++ (match snd kv with [] => [] | v => [40] ++ quote_cedar v ++ [41] end) ++ [10]) l.

Lemma print_annotations_sorted : forall ind a, keys_sorted a = true -> print_annotations ind a = pa ind a.
Proof. intros ind a H. unfold print_annotations. rewrite sj_rec_id by exact H. reflexivity. Qed.

Definition annot_ok (kv : str * str) : bool := word (fst kv) && utf8_ok (snd kv).

Lemma annots_lemma : forall l pre ind fuel rest st',
  keys_sorted (pre ++ l) = true -> forallb annot_ok l = true ->
  rd rest = SOk st' -> is st' KAt = false -> is st' KLParen = false ->
  (2 * length (pa ind l ++ rest) + 1 <= fuel)%nat ->
  exists st, rd (pa ind l ++ rest) = SOk st /\ parse_annotations fuel pre st = SOk (pre ++ l, st') /\ (tk st = KAt \/ st = st').
Proof.
  induction l as [|[key v] l IH]; intros pre ind fuel rest st' Hs Hok Hrd HnAt HnLP Hf.
  - exists st'. cbn [pa flat_map app]. split; [exact Hrd|]. split; [|right; reflexivity].
    destruct fuel as [|f]; [exfalso; flen|]. cbn [parse_annotations]. rewrite HnAt. cbn [negb]. rewrite app_nil_r. reflexivity.
  - cbn [forallb] in Hok. apply andb_true_iff in Hok. destruct Hok as [Hkv Hok]. unfold annot_ok in Hkv. cbn [fst snd] in Hkv.
    apply andb_true_iff in Hkv. destruct Hkv as [Hw Hv].
    cbn [pa flat_map fst snd] in Hf |- *. fold (pa ind l) in Hf |- *.
    destruct fuel as [|f]; [exfalso; flen|].
    assert (Hs' : keys_sorted ((pre ++ [(key, v)]) ++ l) = true) by (rewrite <- app_assoc; exact Hs).
    destruct (IH (pre ++ [(key, v)]) ind f rest st' Hs' Hok Hrd HnAt HnLP ltac:(flen)) as (st2 & Hrd2 & Hp2 & Hk2).
    assert (HLP2 : is st2 KLParen = false).
    { destruct Hk2 as [Hk2| ->]; [apply (is_no _ _ [KAt]); [left; symmetry; exact Hk2 | reflexivity] | exact HnLP]. }
    assert (Hins : rec_insert key v pre = pre ++ [(key, v)]) by (apply vj_insert_last; eapply vj_sorted_app_l; exact Hs').
    assert (Hhk : has_key key pre = false) by (eapply has_key_last; eapply vj_sorted_app_l; exact Hs').
    rewrite <- !app_assoc. cbn [app].
    eexists. split; [rewrite rd_tabs, rd_at; reflexivity|]. split; [|left; reflexivity].
    cbn [parse_annotations]. sst.
    destruct v as [|c v'].
    + cbn [app]. rewrite rd_word by (try exact Hw; reflexivity).
      destruct (is_reserved key); sst; rewrite rd_nl, Hrd2; sst; rewrite HLP2; sst; rewrite Hhk, Hins, Hp2, <- app_assoc; reflexivity.
    + cbn [app]. rewrite <- ?app_assoc. cbn [app]. rewrite rd_word by (try exact Hw; reflexivity).
      destruct (is_reserved key); sst; rewrite rd_lparen; sst; rewrite rd_string by exact Hv; sst; rewrite rd_rparen; sst;
        rewrite rd_nl, Hrd2; sst; rewrite Hhk, Hins, Hp2, <- app_assoc; reflexivity.
Qed.

(* ------------------------------------------------------------------------------------------ *)
(* Names                                                                                       *)
(* ------------------------------------------------------------------------------------------ *)
Lemma name_lemma : forall key rest st', name_ok key = true -> stopb rest = true -> rd rest = SOk st' ->
  exists st, rd (print_name key ++ rest) = SOk st /\ parse_name st = SOk (key, st') /\ (tk st = KIdent \/ tk st = KString).
Proof.
  intros key rest st' Hok Hstop Hrd. unfold print_name, name_ok in *.
  destruct (is_valid_ident key) eqn:E.
  - destruct (valid_ident_word key E) as [Hw Hres]. eexists.
    split; [rewrite rd_word by assumption; rewrite Hres; reflexivity|].
    split; [|left; reflexivity]. unfold parse_name. sst. rewrite Hrd. reflexivity.
  - cbn [orb] in Hok. eexists. split; [apply rd_string; exact Hok|]. split; [|right; reflexivity].
    unfold parse_name. sst. rewrite Hrd. reflexivity.
Qed.

(* ------------------------------------------------------------------------------------------ *)
(* Paths                                                                                       *)
(* ------------------------------------------------------------------------------------------ *)
Lemma identb_inv : forall c, identb c = true -> word c = true /\ is_reserved c = false.
Proof. intros c H. unfold identb in H. apply andb_true_iff in H. destruct H as [H1 H2]. apply negb_true_iff in H2. tauto. Qed.

Lemma dcs_cons : forall c cs, dcs (c :: cs) = 58 :: 58 :: c ++ dcs cs.
Proof. reflexivity. Qed.

Lemma stopb_dcs : forall cs rest, stopb rest = true -> stopb (dcs cs ++ rest) = true.
Proof. intros [|c cs] rest H; [exact H|reflexivity]. Qed.

Lemma path_rest_lemma : forall cs fuel rest st', forallb identb cs = true -> stopb rest = true ->
  rd rest = SOk st' -> is st' KDoubleColon = false -> (2 * length (dcs cs ++ rest) + 1 <= fuel)%nat ->
  exists st, rd (dcs cs ++ rest) = SOk st /\ (forall path, path_rest fuel path st = SOk (path ++ dcs cs, st'))
             /\ (tk st = KDoubleColon \/ st = st').
Proof.
  induction cs as [|c cs IH]; intros fuel rest st' Hcs Hstop Hrd Hnd Hf.
  - exists st'. split; [exact Hrd|]. split; [|right; reflexivity]. intros path.
    destruct fuel as [|f]; [exfalso; flen|]. cbn [path_rest]. rewrite Hnd. cbn [negb dcs flat_map]. rewrite app_nil_r. reflexivity.
  - cbn [forallb] in Hcs. apply andb_true_iff in Hcs. destruct Hcs as [Hc Hcs]. destruct (identb_inv c Hc) as [Hw Hres].
    rewrite dcs_cons in Hf |- *. destruct fuel as [|f]; [exfalso; flen|].
    destruct (IH f rest st' Hcs Hstop Hrd Hnd ltac:(flen)) as (st2 & Hrd2 & Hp2 & _).
    cbn [app]. rewrite <- app_assoc. eexists. split; [apply rd_dcolon|]. split; [|left; reflexivity]. intros path.
    cbn [path_rest]. sst. rewrite rd_word by (try exact Hw; apply stopb_dcs; exact Hstop). rewrite Hres. sst.
    rewrite Hrd2. sst. rewrite Hp2. unfold dcolon. rewrite <- !app_assoc. reflexivity.
Qed.

Definition first_ok (c : str) : bool := word c && (negb (is_reserved c) || str_eqb (s_of "__cedar") c).

Lemma path_lemma_c : forall c cs fuel rest st', first_ok c = true -> forallb identb cs = true -> stopb rest = true ->
  rd rest = SOk st' -> is st' KDoubleColon = false -> (2 * length ((c ++ dcs cs) ++ rest) + 1 <= fuel)%nat ->
  exists st, rd ((c ++ dcs cs) ++ rest) = SOk st /\ parse_path fuel st = SOk (c ++ dcs cs, st')
             /\ (tk st = KIdent \/ tk st = KReserved) /\ txt st = c.
Proof.
  intros c cs fuel rest st' Hc Hcs Hstop Hrd Hnd Hf. unfold first_ok in Hc. apply andb_true_iff in Hc. destruct Hc as [Hw Hc].
  rewrite <- app_assoc in Hf |- *.
  destruct (path_rest_lemma cs fuel rest st' Hcs Hstop Hrd Hnd ltac:(flen)) as (st2 & Hrd2 & Hp2 & _).
  eexists. split; [apply rd_word; [exact Hw|apply stopb_dcs; exact Hstop]|].
  split; [|split; [destruct (is_reserved c); [right|left]; reflexivity | reflexivity]].
  unfold parse_path, path_start_ok. destruct (is_reserved c) eqn:Hres; sst.
  - cbn [negb orb] in Hc. rewrite Hc. cbn [negb]. rewrite Hrd2. sst. apply Hp2.
  - rewrite Hrd2. sst. apply Hp2.
Qed.

Lemma ent_path_inv : forall r, ent_path r = true ->
  exists c cs, comps r = c :: cs /\ c ++ dcs cs = r /\ first_ok c = true /\ forallb identb cs = true.
Proof.
  intros r H. destruct (comps_spec r) as (c & cs & Hc & Hj). unfold ent_path in H. rewrite Hc in H.
  apply andb_true_iff in H. destruct H as [H1 H2]. exists c, cs. unfold first_ok. auto.
Qed.

Lemma path_lemma : forall r fuel rest st', ent_path r = true -> stopb rest = true ->
  rd rest = SOk st' -> is st' KDoubleColon = false -> (2 * length (r ++ rest) + 1 <= fuel)%nat ->
  exists st, rd (r ++ rest) = SOk st /\ parse_path fuel st = SOk (r, st')
             /\ (tk st = KIdent \/ tk st = KReserved) /\ txt st = hd [] (comps r).
Proof.
  intros r fuel rest st' Hr Hstop Hrd Hnd Hf. destruct (ent_path_inv r Hr) as (c & cs & Hc & Hj & Hfc & Hcs).
  rewrite Hc. cbn [hd]. rewrite <- Hj in Hf |- *. apply path_lemma_c; assumption.
Qed.

Lemma identb_first_ok : forall c, identb c = true -> first_ok c = true.
Proof. intros c H. destruct (identb_inv c H) as [Hw Hr]. unfold first_ok. rewrite Hw, Hr. reflexivity. Qed.

Lemma ns_path_ent_path : forall r, ns_path r = true -> ent_path r = true.
Proof.
  intros r H. unfold ns_path, ent_path in *. destruct (comps_spec r) as (c & cs & Hcomps & _). rewrite Hcomps in *.
  cbn [forallb] in H. apply andb_true_iff in H. destruct H as [Hc Hcs]. apply identb_first_ok in Hc. unfold first_ok in Hc. rewrite Hc, Hcs. reflexivity.
Qed.

Lemma ns_path_no_cedar : forall r, ns_path r = true -> existsb (str_eqb (s_of "__cedar")) (split_dcolon r []) = false.
Proof.
  intros r H. unfold ns_path, comps in H. induction (split_dcolon r []) as [|c cs IH]; [reflexivity|].
  cbn [forallb existsb] in *. apply andb_true_iff in H. destruct H as [Hc Hcs]. rewrite (IH Hcs), orb_false_r.
  destruct (identb_inv c Hc) as [_ Hr]. destruct (str_eqb (s_of "__cedar") c) eqn:E; [|reflexivity].
  apply str_eqb_eq in E. subst c. discriminate.
Qed.

(* Path '::' STR and the bare name of an action parent *)
Lemma path_ref_rest_q : forall cs fuel id rest st', forallb identb cs = true -> utf8_ok id = true -> rd rest = SOk st' ->
  (2 * length (dcs cs ++ 58%Z :: 58%Z :: quote_cedar id ++ rest) + 1 <= fuel)%nat ->
  exists st, rd (dcs cs ++ 58 :: 58 :: quote_cedar id ++ rest) = SOk st
             /\ forall path, path_ref_rest fuel path st = SOk (path ++ dcs cs, id, true, st').
Proof.
  induction cs as [|c cs IH]; intros fuel id rest st' Hcs Hid Hrd Hf.
  - cbn [dcs flat_map app] in *. eexists. split; [apply rd_dcolon|]. intros path.
    destruct fuel as [|f]; [exfalso; flen|]. cbn [path_ref_rest]. sst. rewrite rd_string by exact Hid. sst. rewrite Hrd. sst.
    rewrite app_nil_r. reflexivity.
  - cbn [forallb] in Hcs. apply andb_true_iff in Hcs. destruct Hcs as [Hc Hcs]. destruct (identb_inv c Hc) as [Hw Hres].
    rewrite dcs_cons in Hf |- *. destruct fuel as [|f]; [exfalso; flen|].
    destruct (IH f id rest st' Hcs Hid Hrd ltac:(flen)) as (st2 & Hrd2 & Hp2).
    cbn [app]. rewrite <- app_assoc. eexists. split; [apply rd_dcolon|]. intros path.
    cbn [path_ref_rest]. sst. rewrite rd_word by (try exact Hw; destruct cs; reflexivity). rewrite Hres. sst.
    rewrite Hrd2. sst. rewrite Hp2. unfold dcolon. rewrite <- !app_assoc. reflexivity.
Qed.

Lemma qual_name_lemma : forall p fuel rest st', wf_parent p = true -> stopb rest = true -> rd rest = SOk st' ->
  is st' KDoubleColon = false -> (2 * length (print_parent_ref p ++ rest) + 2 <= fuel)%nat ->
  exists st, rd (print_parent_ref p ++ rest) = SOk st /\ parse_qual_name fuel st = SOk (p, st')
             /\ In (tk st) [KIdent; KReserved; KString].
Proof.
  intros [ty id] fuel rest st' Hwf Hstop Hrd Hnd Hf. unfold wf_parent, print_parent_ref in *. cbn [fst snd] in *.
  destruct ty as [|t0 ty'].
  - unfold print_name, name_ok in *. destruct (is_valid_ident id) eqn:E.
    + destruct (valid_ident_word id E) as [Hw Hres]. eexists.
      split; [rewrite rd_word by assumption; rewrite Hres; reflexivity|]. split; [|left; reflexivity].
      unfold parse_qual_name, parse_path_for_ref, path_start_ok. sst. rewrite Hrd. sst.
      destruct fuel as [|f]; [exfalso; flen|]. cbn [path_ref_rest]. rewrite Hnd. reflexivity.
    + cbn [orb] in Hwf. eexists. split; [apply rd_string; exact Hwf|]. split; [|right; right; left; reflexivity].
      unfold parse_qual_name. sst. rewrite Hrd. reflexivity.
  - apply andb_true_iff in Hwf. destruct Hwf as [Hty Hid]. destruct (ent_path_inv _ Hty) as (c & cs & Hc & Hj & Hfc & Hcs).
    rewrite <- Hj in Hf |- *. unfold dcolon in *. rewrite <- !app_assoc in Hf |- *. cbn [app] in Hf |- *.
    unfold first_ok in Hfc. apply andb_true_iff in Hfc. destruct Hfc as [Hw Hfc].
    destruct (path_ref_rest_q cs fuel id rest st' Hcs Hid Hrd ltac:(flen)) as (st2 & Hrd2 & Hp2).
    eexists. split; [apply rd_word; [exact Hw|destruct cs; reflexivity]|].
    split; [|destruct (is_reserved c); [right; left|left]; reflexivity].
    unfold parse_qual_name, parse_path_for_ref, path_start_ok. destruct (is_reserved c) eqn:Hres; sst.
    + cbn [negb orb] in Hfc. rewrite Hfc. cbn [negb]. rewrite Hrd2. sst. rewrite Hp2. reflexivity.
    + rewrite Hrd2. sst. rewrite Hp2. reflexivity.
Qed.

(* ------------------------------------------------------------------------------------------ *)
(* Bracketed lists                                                                             *)
(* ------------------------------------------------------------------------------------------ *)
Lemma join_comma_cons2 : forall x y r, join_comma (x :: y :: r) = x ++ 44 :: 32 :: join_comma (y :: r).
Proof. reflexivity. Qed.

Lemma etl_lemma : forall l acc fuel rest st', l <> [] -> forallb ent_path l = true -> rd rest = SOk st' ->
  (2 * length (join_comma l ++ 93%Z :: rest) + 3 <= fuel)%nat ->
  exists st, rd (join_comma l ++ 93 :: rest) = SOk st /\ entity_types_loop fuel acc st = SOk (acc ++ l, st')
             /\ (tk st = KIdent \/ tk st = KReserved).
Proof.
  induction l as [|x l IH]; intros acc fuel rest st' Hne Hl Hrd Hf; [contradiction|].
  cbn [forallb] in Hl. apply andb_true_iff in Hl. destruct Hl as [Hx Hl].
  destruct fuel as [|f]; [exfalso; flen|].
  destruct l as [|y l].
  - cbn [join_comma] in *.
    destruct (path_lemma x f (93 :: rest) (MkSt (mk_tok KRBracket [93]) rest) Hx eq_refl (rd_rbracket rest) eq_refl ltac:(flen))
      as (st & Hrds & Hp & Hk & _).
    exists st. split; [exact Hrds|]. split; [|exact Hk].
    cbn [entity_types_loop].
    rewrite (is_no st KRBracket [KIdent; KReserved]) by (try reflexivity; cbn [In]; destruct Hk as [<-|<-]; tauto).
    rewrite Hp. sst. destruct f as [|f']; [exfalso; flen|]. cbn [entity_types_loop]. sst. rewrite Hrd. reflexivity.
  - rewrite join_comma_cons2 in Hf |- *. rewrite <- app_assoc in Hf |- *. cbn [app] in Hf |- *.
    destruct (IH (acc ++ [x]) f rest st' ltac:(discriminate) Hl Hrd ltac:(flen)) as (st2 & Hrd2 & Hp2 & _).
    destruct (path_lemma x f (44 :: 32 :: join_comma (y :: l) ++ 93 :: rest) (MkSt (mk_tok KComma [44]) (32 :: join_comma (y :: l) ++ 93 :: rest))
                Hx eq_refl (rd_comma _) eq_refl ltac:(flen)) as (st & Hrds & Hp & Hk & _).
    exists st. split; [exact Hrds|]. split; [|exact Hk].
    cbn [entity_types_loop].
    rewrite (is_no st KRBracket [KIdent; KReserved]) by (try reflexivity; cbn [In]; destruct Hk as [<-|<-]; tauto).
    rewrite Hp. sst. rewrite rd_sp, Hrd2. sst. rewrite Hp2, <- app_assoc. reflexivity.
Qed.

Lemma entity_types_lemma : forall l fuel rest st', l <> [] -> forallb ent_path l = true -> stopb rest = true ->
  rd rest = SOk st' -> is st' KDoubleColon = false -> (2 * length (print_list l ++ rest) + 4 <= fuel)%nat ->
  exists st, rd (print_list l ++ rest) = SOk st /\ parse_entity_types fuel st = SOk (l, st')
             /\ In (tk st) [KIdent; KReserved; KLBracket].
Proof.
  intros l fuel rest st' Hne Hl Hstop Hrd Hnd Hf. destruct l as [|x l]; [contradiction|]. destruct l as [|y l].
  - cbn [print_list forallb] in *. rewrite andb_true_r in Hl.
    destruct (path_lemma x fuel rest st' Hl Hstop Hrd Hnd ltac:(flen)) as (st & Hrds & Hp & Hk & _).
    exists st. split; [exact Hrds|]. split; [|cbn [In]; destruct Hk as [<-|<-]; tauto].
    unfold parse_entity_types.
    rewrite (is_no st KLBracket [KIdent; KReserved]) by (try reflexivity; cbn [In]; destruct Hk as [<-|<-]; tauto).
    rewrite Hp. reflexivity.
  - unfold print_list in *. rewrite <- !app_assoc in Hf |- *. cbn [app] in Hf |- *.
    destruct (etl_lemma (x :: y :: l) [] fuel rest st' Hne Hl Hrd ltac:(flen)) as (st2 & Hrd2 & Hp2 & _).
    eexists. split; [apply rd_lbracket|]. split; [|right; right; left; reflexivity].
    unfold parse_entity_types. sst. rewrite Hrd2. sst. exact Hp2.
Qed.

Lemma apl_lemma : forall l acc fuel rest st', l <> [] -> forallb wf_parent l = true -> rd rest = SOk st' ->
  (2 * length (join_comma (map print_parent_ref l) ++ 93%Z :: rest) + 4 <= fuel)%nat ->
  exists st, rd (join_comma (map print_parent_ref l) ++ 93 :: rest) = SOk st /\ action_parents_loop fuel acc st = SOk (acc ++ l, st')
             /\ In (tk st) [KIdent; KReserved; KString].
Proof.
  induction l as [|x l IH]; intros acc fuel rest st' Hne Hl Hrd Hf; [contradiction|].
  cbn [forallb] in Hl. apply andb_true_iff in Hl. destruct Hl as [Hx Hl].
  destruct fuel as [|f]; [exfalso; flen|].
  destruct l as [|y l].
  - cbn [join_comma map] in *.
    destruct (qual_name_lemma x f (93 :: rest) (MkSt (mk_tok KRBracket [93]) rest) Hx eq_refl (rd_rbracket rest) eq_refl ltac:(flen))
      as (st & Hrds & Hp & Hk).
    exists st. split; [exact Hrds|]. split; [|exact Hk].
    cbn [action_parents_loop]. rewrite (is_no st KRBracket _ Hk) by reflexivity.
    rewrite Hp. sst. destruct f as [|f']; [exfalso; flen|]. cbn [action_parents_loop]. sst. rewrite Hrd. reflexivity.
  - cbn [map] in Hf |- *. rewrite join_comma_cons2 in Hf |- *. rewrite <- app_assoc in Hf |- *. cbn [app] in Hf |- *.
    destruct (IH (acc ++ [x]) f rest st' ltac:(discriminate) Hl Hrd ltac:(cbn [map]; flen)) as (st2 & Hrd2 & Hp2 & _).
    cbn [map] in Hrd2.
    destruct (qual_name_lemma x f (44 :: 32 :: join_comma (print_parent_ref y :: map print_parent_ref l) ++ 93 :: rest)
                (MkSt (mk_tok KComma [44]) (32 :: join_comma (print_parent_ref y :: map print_parent_ref l) ++ 93 :: rest))
                Hx eq_refl (rd_comma _) eq_refl ltac:(flen)) as (st & Hrds & Hp & Hk).
    exists st. split; [exact Hrds|]. split; [|exact Hk].
    cbn [action_parents_loop]. rewrite (is_no st KRBracket _ Hk) by reflexivity.
    rewrite Hp. sst. rewrite rd_sp, Hrd2. sst. rewrite Hp2, <- app_assoc. reflexivity.
Qed.

Lemma action_parents_lemma : forall l fuel rest st', l <> [] -> forallb wf_parent l = true -> stopb rest = true ->
  rd rest = SOk st' -> is st' KDoubleColon = false -> (2 * length (print_list (map print_parent_ref l) ++ rest) + 5 <= fuel)%nat ->
  exists st, rd (print_list (map print_parent_ref l) ++ rest) = SOk st /\ parse_action_parents fuel st = SOk (l, st').
Proof.
  intros l fuel rest st' Hne Hl Hstop Hrd Hnd Hf. destruct l as [|x l]; [contradiction|]. destruct l as [|y l].
  - cbn [print_list map forallb] in *. rewrite andb_true_r in Hl.
    destruct (qual_name_lemma x fuel rest st' Hl Hstop Hrd Hnd ltac:(flen)) as (st & Hrds & Hp & Hk).
    exists st. split; [exact Hrds|]. unfold parse_action_parents. rewrite (is_no st KLBracket _ Hk) by reflexivity.
    rewrite Hp. reflexivity.
  - cbn [map] in *. unfold print_list in *. rewrite <- !app_assoc in Hf |- *. cbn [app] in Hf |- *.
    destruct (apl_lemma (x :: y :: l) [] fuel rest st' Hne Hl Hrd ltac:(cbn [map]; flen)) as (st2 & Hrd2 & Hp2 & _).
    cbn [map] in Hrd2.
    eexists. split; [apply rd_lbracket|]. unfold parse_action_parents. sst. rewrite Hrd2. sst. exact Hp2.
Qed.

Lemma enum_values_lemma : forall vs acc fuel rest st', forallb utf8_ok vs = true -> rd rest = SOk st' ->
  (2 * length (join_comma (map quote_cedar vs) ++ 93%Z :: rest) + 2 <= fuel)%nat ->
  exists st, rd (join_comma (map quote_cedar vs) ++ 93 :: rest) = SOk st /\ enum_values_loop fuel acc st = SOk (acc ++ vs, st').
Proof.
  induction vs as [|v vs IH]; intros acc fuel rest st' Hvs Hrd Hf.
  - cbn [map join_comma app] in *. eexists. split; [apply rd_rbracket|].
    destruct fuel as [|f]; [exfalso; flen|]. cbn [enum_values_loop]. sst. rewrite Hrd, app_nil_r. reflexivity.
  - cbn [forallb] in Hvs. apply andb_true_iff in Hvs. destruct Hvs as [Hv Hvs].
    destruct fuel as [|f]; [exfalso; flen|].
    destruct vs as [|w vs].
    + cbn [map join_comma] in *. eexists. split; [apply rd_string; exact Hv|].
      cbn [enum_values_loop]. sst. rewrite rd_rbracket. sst.
      destruct f as [|f']; [exfalso; flen|]. cbn [enum_values_loop]. sst. rewrite Hrd. reflexivity.
    + cbn [map] in Hf |- *. rewrite join_comma_cons2 in Hf |- *. rewrite <- app_assoc in Hf |- *. cbn [app] in Hf |- *.
      destruct (IH (acc ++ [v]) f rest st' Hvs Hrd ltac:(cbn [map]; flen)) as (st2 & Hrd2 & Hp2). cbn [map] in Hrd2.
      eexists. split; [apply rd_string; exact Hv|].
      cbn [enum_values_loop]. sst. rewrite rd_comma. sst. rewrite rd_sp, Hrd2. sst. rewrite Hp2, <- app_assoc. reflexivity.
Qed.

Section WithShadowed.
(* [sh] = the printer's set of shadowed built-in names; all that matters below is that it only holds built-in names *)
Variable sh : str -> bool.
Hypothesis Hsh : forall n, sh n = true -> is_builtin_name n = true.

(* ------------------------------------------------------------------------------------------ *)
(* Types                                                                                       *)
(* ------------------------------------------------------------------------------------------ *)
(* marshalRecordType on a key-sorted attribute list *)
Fixpoint pf (ind : nat) (l : xrec) : str :=
  match l with
  | [] => []
  | x :: r => pa ind (snd (snd x)) ++ tabs ind ++ print_name (fst x) ++ (if snd (fst (snd x)) then [63] else []) ++ [58; 32]
              ++ print_type sh (fst (fst (snd x))) ind ++ (match r with [] => [] | _ => [44] end) ++ [10] ++ pf ind r
  end.

Definition pgo (fs : xrec) : list (str * ((nat -> str) * bool * annots)) :=
  map (fun x : str * xattr => (fst x, (print_type sh (fst (fst (snd x))), snd (fst (snd x)), snd (snd x)))) fs.

Lemma print_type_rec_pgo : forall fs ind, print_type sh (XRec fs) ind = print_record ind (rec_of_list (pgo fs)).
Proof.
  intros fs ind. cbn [print_type]. f_equal. f_equal.
  induction fs as [|[key [[ty opt] an]] fs IH]; [reflexivity|]. cbn [pgo map fst snd]. rewrite IH. reflexivity.
Qed.

Lemma print_attrs_pf : forall ind fs, forallb wf_tattr fs = true -> print_attrs ind (pgo fs) = pf ind fs.
Proof.
  intros ind fs. induction fs as [|[key [[ty opt] an]] fs IH]; intros H; [reflexivity|].
  cbn [forallb] in H. apply andb_true_iff in H. destruct H as [Hx H]. unfold wf_tattr in Hx. cbn [fst snd] in Hx.
  apply andb_true_iff in Hx. destruct Hx as [_ Han]. unfold annots_ok in Han. apply andb_true_iff in Han. destruct Han as [Han _].
  cbn [pgo map print_attrs pf fst snd]. fold (pgo fs). rewrite (IH H), (print_annotations_sorted ind an Han).
  destruct fs; reflexivity.
Qed.

Lemma print_type_rec_eq : forall fs ind, wf_tty (XRec fs) = true ->
  print_type sh (XRec fs) ind = 123 :: (match fs with [] => [] | _ => 10 :: pf (S ind) fs ++ tabs ind end) ++ [125].
Proof.
  intros fs ind H. rewrite wf_tty_rec in H. apply andb_true_iff in H. destruct H as [Hs Hall].
  rewrite print_type_rec_pgo. rewrite sj_rec_id.
  2:{ rewrite (vj_keys_sorted_ext _ fs); [exact Hs|]. unfold pgo. rewrite map_map. reflexivity. }
  unfold print_record. destruct fs as [|x fs]; [reflexivity|].
  rewrite <- (print_attrs_pf (S ind) (x :: fs) Hall). reflexivity.
Qed.

Definition PT (t : xty) : Prop :=
  forall ind fuel rest st', wf_tty t = true -> stopb rest = true -> rd rest = SOk st' -> is st' KDoubleColon = false ->
  (2 * length (print_type sh t ind ++ rest) + 4 <= fuel)%nat ->
  exists st, rd (print_type sh t ind ++ rest) = SOk st /\ parse_type fuel st = SOk (norm_ty sh t, st').

Lemma annots_ok_inv : forall an, annots_ok an = true -> keys_sorted an = true /\ forallb annot_ok an = true.
Proof. intros an H. unfold annots_ok in H. apply andb_true_iff in H. exact H. Qed.

Lemma insert_norm_last : forall pre key (a : xattr), keys_sorted (pre ++ [(key, a)]) = true ->
  rec_insert key (norm_attr sh a) (mapv (norm_attr sh) pre) = mapv (norm_attr sh) (pre ++ [(key, a)]).
Proof.
  intros pre key a Hs. unfold mapv at 2. rewrite map_app. cbn [map fst snd]. apply vj_insert_last.
  rewrite (vj_keys_sorted_ext _ (pre ++ [(key, a)])); [exact Hs|].
  rewrite !map_app. unfold mapv. rewrite map_map. reflexivity.
Qed.

Lemma record_loop_lemma : forall l pre ind0 ind fuel rest st',
  Forall (fun kv : str * xattr => PT (fst (fst (snd kv)))) l -> keys_sorted (pre ++ l) = true -> forallb wf_tattr l = true ->
  rd rest = SOk st' -> (2 * length (pf ind l ++ tabs ind0 ++ 125%Z :: rest) + 3 <= fuel)%nat ->
  exists st, rd (pf ind l ++ tabs ind0 ++ 125 :: rest) = SOk st
             /\ record_loop fuel (mapv (norm_attr sh) pre) st = SOk (mapv (norm_attr sh) (pre ++ l), st')
             /\ In (tk st) [KRBrace; KAt; KIdent; KString].
Proof.
  induction l as [|x l IH]; intros pre ind0 ind fuel rest st' HF Hs Hwf Hrd Hf.
  - cbn [pf app] in *. eexists. split; [rewrite rd_tabs; apply rd_rbrace|]. split; [|left; reflexivity].
    destruct fuel as [|f]; [exfalso; flen|]. cbn [record_loop]. sst. rewrite Hrd, app_nil_r. reflexivity.
  - destruct x as [key [[ty opt] an]]. inversion HF as [|x' l' Hty HF']; subst. cbn [fst snd] in Hty.
    cbn [forallb] in Hwf. apply andb_true_iff in Hwf. destruct Hwf as [Hx Hwf]. unfold wf_tattr in Hx. cbn [fst snd] in Hx.
    apply andb_true_iff in Hx. destruct Hx as [Hx Han]. apply andb_true_iff in Hx. destruct Hx as [Hkey Hwty].
    destruct (annots_ok_inv an Han) as [Hans Hanok].
    destruct fuel as [|f]; [exfalso; flen|].
    set (tail := pf ind l ++ tabs ind0 ++ 125 :: rest) in *.
    set (rest_ty := (match l with [] => [] | _ => [44] end) ++ 10 :: tail).
    set (rest_name := (if opt then [63] else []) ++ 58 :: 32 :: print_type sh ty ind ++ rest_ty).
    assert (Htext : pf ind ((key, (ty, opt, an)) :: l) ++ tabs ind0 ++ 125 :: rest = pa ind an ++ tabs ind ++ print_name key ++ rest_name).
    { cbn [pf fst snd]. rewrite <- !app_assoc. reflexivity. }
    rewrite Htext in Hf |- *.
    assert (Hs' : keys_sorted ((pre ++ [(key, (ty, opt, an))]) ++ l) = true) by (rewrite <- app_assoc; exact Hs).
    destruct (IH (pre ++ [(key, (ty, opt, an))]) ind0 ind f rest st' HF' Hs' Hwf Hrd ltac:(subst rest_name rest_ty tail; flen))
      as (st_next & Hrd_next & Hp_next & Hk_next). fold tail in Hrd_next.
    assert (Hrt : exists st_ty', rd rest_ty = SOk st_ty' /\ stopb rest_ty = true /\ is st_ty' KDoubleColon = false
                                 /\ opt_comma st_ty' = SOk st_next).
    { subst rest_ty. destruct l as [|y l].
      - exists st_next. cbn [app]. rewrite rd_nl. split; [exact Hrd_next|]. split; [reflexivity|].
        split; [apply (is_no _ _ _ Hk_next); reflexivity|]. unfold opt_comma. rewrite (is_no _ KComma _ Hk_next) by reflexivity. reflexivity.
      - eexists. cbn [app]. split; [apply rd_comma|]. split; [reflexivity|]. split; [reflexivity|]. sst. rewrite rd_nl. exact Hrd_next. }
    destruct Hrt as (st_ty' & Hrd_ty' & Hstop_ty & Hnd_ty & Hoc).
    destruct (Hty ind f rest_ty st_ty' Hwty Hstop_ty Hrd_ty' Hnd_ty ltac:(subst rest_name rest_ty tail; flen)) as (st_ty & Hrd_ty & Hp_ty).
    assert (Hrn : exists st_q, rd rest_name = SOk st_q /\ stopb rest_name = true
                               /\ (' (optional, st3) <- (if is st_q KQuestion then (st3 <- read_token st_q ;; SOk (true, st3)) else SOk (false, st_q)) ;;
                                   st4 <- expect KColon st3 ;; SOk (optional, st4)) = SOk (opt, st_ty)).
    { subst rest_name. destruct opt; cbn [app].
      - eexists. split; [apply rd_question|]. split; [reflexivity|]. sst. rewrite rd_colon_sp. sst. rewrite rd_sp, Hrd_ty. reflexivity.
      - eexists. split; [apply rd_colon_sp|]. split; [reflexivity|]. sst. rewrite rd_sp, Hrd_ty. reflexivity. }
    destruct Hrn as (st_q & Hrd_q & Hstop_q & Hfrag).
    destruct (name_lemma key rest_name st_q Hkey Hstop_q Hrd_q) as (st_name & Hrd_name & Hp_name & Hk_name).
    assert (Hk_name' : In (tk st_name) [KIdent; KString]) by (cbn [In]; destruct Hk_name as [->| ->]; tauto).
    destruct (annots_lemma an [] ind f (tabs ind ++ print_name key ++ rest_name) st_name Hans Hanok
                ltac:(rewrite rd_tabs; exact Hrd_name) ltac:(apply (is_no _ _ _ Hk_name'); reflexivity)
                ltac:(apply (is_no _ _ _ Hk_name'); reflexivity) ltac:(subst rest_name rest_ty tail; flen)) as (st & Hrd_st & Hp_st & Hk_st).
    assert (Hk3 : In (tk st) [KAt; KIdent; KString]).
    { destruct Hk_st as [Hk_st|Hk_st]; [rewrite Hk_st; cbn [In]; tauto|]. subst st. cbn [In]. tauto. }
    assert (Hk : In (tk st) [KRBrace; KAt; KIdent; KString]) by (right; exact Hk3).
    exists st. split; [exact Hrd_st|]. split; [|exact Hk].
    cbn [record_loop].
    rewrite (is_no st KRBrace _ Hk3) by reflexivity.
    rewrite (is_no st KEOF _ Hk) by reflexivity.
    rewrite Hp_st. cbn [sbind app]. rewrite Hp_name. cbn [sbind].
    revert Hfrag. unfold expect.
    destruct (if is st_q KQuestion then st3 <- read_token st_q;; SOk (true, st3) else SOk (false, st_q)) as [[o st3]| | |]; cbn [sbind]; try discriminate.
    destruct (is st3 KColon); [|discriminate]. destruct (read_token st3) as [st4| | |]; cbn [sbind]; try discriminate.
    intros Hfrag. inversion Hfrag; subst o st4. rewrite Hp_ty. cbn [sbind]. rewrite Hoc. cbn [sbind].
    change (norm_ty sh ty, opt, an) with (norm_attr sh (ty, opt, an)).
    rewrite insert_norm_last by (eapply vj_sorted_app_l; exact Hs').
    rewrite Hp_next, <- app_assoc. reflexivity.
Qed.

Lemma record_lemma : forall fs ind fuel rest st',
  Forall (fun kv : str * xattr => PT (fst (fst (snd kv)))) fs -> wf_tty (XRec fs) = true -> rd rest = SOk st' ->
  (2 * length (print_type sh (XRec fs) ind ++ rest) + 3 <= fuel)%nat ->
  exists st, rd (print_type sh (XRec fs) ind ++ rest) = SOk st /\ parse_record_type fuel st = SOk (norm_rec sh fs, st') /\ tk st = KLBrace.
Proof.
  intros fs ind fuel rest st' HF Hwf Hrd Hf. rewrite (print_type_rec_eq fs ind Hwf) in Hf |- *.
  rewrite wf_tty_rec in Hwf. apply andb_true_iff in Hwf. destruct Hwf as [Hs Hall].
  destruct fuel as [|f]; [exfalso; flen|].
  destruct fs as [|x fs].
  - cbn [app] in *. eexists. split; [apply rd_lbrace|]. split; [|reflexivity].
    cbn [parse_record_type]. sst. rewrite rd_rbrace. sst.
    destruct f as [|f']; [exfalso; flen|]. cbn [record_loop]. sst. rewrite Hrd. reflexivity.
  - cbn [app] in Hf |- *. rewrite <- !app_assoc in Hf |- *. cbn [app] in Hf |- *.
    destruct (record_loop_lemma (x :: fs) [] ind (S ind) f rest st' HF Hs Hall Hrd ltac:(flen)) as (st1 & Hrd1 & Hp1 & _).
    eexists. split; [apply rd_lbrace|]. split; [|reflexivity].
    cbn [parse_record_type]. sst. rewrite rd_nl, Hrd1. sst. exact Hp1.
Qed.

Lemma type_ref_lemma : forall r fuel rest st', type_path r = true -> stopb rest = true -> rd rest = SOk st' ->
  is st' KDoubleColon = false -> (2 * length (r ++ rest) + 4 <= fuel)%nat ->
  exists st, rd (r ++ rest) = SOk st /\ parse_type fuel st = SOk (XRef r, st').
Proof.
  intros r fuel rest st' Hr Hstop Hrd Hnd Hf. unfold type_path in Hr. apply andb_true_iff in Hr. destruct Hr as [Hr Hset].
  apply negb_true_iff in Hset. destruct fuel as [|f]; [exfalso; flen|].
  destruct (path_lemma r f rest st' Hr Hstop Hrd Hnd ltac:(flen)) as (st & Hrds & Hp & Hk & Htxt).
  exists st. split; [exact Hrds|]. cbn [parse_type].
  assert (Hk' : In (tk st) [KIdent; KReserved]) by (cbn [In]; destruct Hk as [->| ->]; tauto).
  rewrite (is_no st KLBrace _ Hk') by reflexivity. unfold kw. rewrite Htxt, Hset, andb_false_r. rewrite Hp. reflexivity.
Qed.

Theorem type_lemma : forall t, PT t.
Proof.
  induction t as [| | |n|e IHe|fs IHfs|r|r] using xty_ind'; unfold PT; intros ind fuel rest st' Hwf Hstop Hrd Hnd Hf.
  - apply (type_ref_lemma (write_builtin sh (s_of "String"))); try assumption. apply type_path_wb; [exact Hsh|reflexivity].
  - apply (type_ref_lemma (write_builtin sh (s_of "Long"))); try assumption. apply type_path_wb; [exact Hsh|reflexivity].
  - apply (type_ref_lemma (write_builtin sh (s_of "Bool"))); try assumption. apply type_path_wb; [exact Hsh|reflexivity].
  - apply (type_ref_lemma (write_builtin sh n)); try assumption. apply type_path_wb; [exact Hsh|exact Hwf].
  - cbn [wf_tty print_type norm_ty] in *.
    change (s_of "Set<") with (s_of "Set" ++ [60]) in Hf |- *. rewrite <- !app_assoc in Hf |- *. cbn [app] in Hf |- *.
    destruct fuel as [|f]; [exfalso; flen|].
    destruct (IHe ind f (62 :: rest) (MkSt (mk_tok KRAngle [62]) rest) Hwf eq_refl (rd_rangle rest) eq_refl ltac:(flen))
      as (st_e & Hrd_e & Hp_e).
    eexists. split; [apply (rd_kw "Set" KIdent); reflexivity|].
    cbn [parse_type]. sst. rewrite rd_langle. sst. rewrite Hrd_e. sst. rewrite Hp_e. sst. rewrite Hrd. reflexivity.
  - destruct fuel as [|f]; [exfalso; flen|].
    destruct (record_lemma fs ind f rest st' IHfs Hwf Hrd ltac:(flen)) as (st & Hrds & Hp & Hk).
    exists st. split; [exact Hrds|]. cbn [parse_type]. rewrite (is_yes st KLBrace Hk). rewrite Hp. rewrite norm_ty_rec. reflexivity.
  - apply (type_ref_lemma r); assumption.
  - apply (type_ref_lemma r); assumption.
Qed.

Lemma record_lemma' : forall fs ind fuel rest st', wf_tty (XRec fs) = true -> rd rest = SOk st' ->
  (2 * length (print_type sh (XRec fs) ind ++ rest) + 3 <= fuel)%nat ->
  exists st, rd (print_type sh (XRec fs) ind ++ rest) = SOk st /\ parse_record_type fuel st = SOk (norm_rec sh fs, st') /\ tk st = KLBrace.
Proof.
  intros fs ind fuel rest st' Hwf Hrd Hf. apply record_lemma; try assumption.
  apply Forall_forall. intros kv _. apply type_lemma.
Qed.

(* ------------------------------------------------------------------------------------------ *)
(* Declarations: common types                                                                  *)
(* ------------------------------------------------------------------------------------------ *)
Lemma common_decl : forall ind name t an n fuel rest st',
  is_valid_ident name = true -> is_reserved_type_name name = false -> wf_tty t = true ->
  has_key name (xs_commons n) = false -> rd rest = SOk st' ->
  (2 * length (name ++ 32%Z :: 61%Z :: 32%Z :: print_type sh t ind ++ 59%Z :: 10%Z :: rest) + 6 <= fuel)%nat ->
  parse_decl fuel an n (MkSt (mk_tok KIdent (s_of "type")) (32 :: name ++ 32 :: 61 :: 32 :: print_type sh t ind ++ 59 :: 10 :: rest))
  = SOk (set_commons n (rec_insert name {| xc_annots := an; xc_type := norm_ty sh t |} (xs_commons n)), st').
Proof.
  intros ind name t an n fuel rest st' Hname Hrtn Hwf Hhk Hrd Hf. destruct (valid_ident_word name Hname) as [Hw Hres].
  destruct (type_lemma t ind fuel (59 :: 10 :: rest) (MkSt (mk_tok KSemicolon [59]) (10 :: rest)) Hwf eq_refl (rd_semi _) eq_refl ltac:(flen))
    as (st_t & Hrd_t & Hp_t).
  unfold parse_decl. sst. rewrite rd_sp, rd_word by (try exact Hw; reflexivity). rewrite Hres. sst.
  unfold parse_type_decl. sst. rewrite Hrtn. rewrite rd_sp, rd_equals. sst. rewrite rd_sp, Hrd_t. sst. rewrite Hp_t. sst.
  rewrite rd_nl, Hrd. sst. rewrite Hhk. reflexivity.
Qed.

(* ------------------------------------------------------------------------------------------ *)
(* Declarations: entity types                                                                  *)
(* ------------------------------------------------------------------------------------------ *)
Definition frag_in (fuel : nat) (st1 : pst) : spres (list str * pst) :=
  if is st1 KReserved && kw st1 "in" then (st2 <- read_token st1 ;; parse_entity_types fuel st2) else SOk ([], st1).
Definition frag_shape (fuel : nat) (st2 : pst) : spres (option xrec * pst) :=
  if is st2 KEquals then st3 <- read_token st2 ;; ' (fs, st4) <- parse_record_type fuel st3 ;; SOk (Some fs, st4)
  else if is st2 KLBrace then ' (fs, st4) <- parse_record_type fuel st2 ;; SOk (Some fs, st4)
  else SOk (None, st2).
Definition frag_tags (fuel : nat) (st3 : pst) : spres (option xty * pst) :=
  if is st3 KIdent && kw st3 "tags" then st4 <- read_token st3 ;; ' (t, st5) <- parse_type fuel st4 ;; SOk (Some t, st5)
  else SOk (None, st3).

Lemma parse_entity_eq : forall fuel an n st,
  parse_entity fuel an n st =
  (' (names, st1) <- parse_idents fuel st ;;
   if is st1 KIdent && kw st1 "enum" then (st2 <- read_token st1 ;; parse_enum_entity fuel an names n st2) else
   ' (member_of, st2) <- frag_in fuel st1 ;;
   ' (shape, st3) <- frag_shape fuel st2 ;;
   ' (tags, st4) <- frag_tags fuel st3 ;;
   st5 <- expect KSemicolon st4 ;;
   match add_entities names {| xe_annots := an; xe_parents := member_of; xe_shape := shape; xe_tags := tags |} n with
   | Some n' => SOk (n', st5)
   | None => SErr
   end).
Proof. reflexivity. Qed.

(* the first token of what follows the tags / the shape / the parents of an entity declaration *)
Definition F3 (st : pst) : Prop := tk st = KSemicolon \/ (tk st = KIdent /\ txt st = s_of "tags").
Definition F2 (st : pst) : Prop := tk st = KLBrace \/ F3 st.
Definition F1 (st : pst) : Prop := tk st = KReserved \/ F2 st.

Lemma is_tk : forall st K, is st K = ttype_beq (tk st) K.
Proof. reflexivity. Qed.

Ltac ftk H := unfold F1, F2, F3 in H; repeat match type of H with _ \/ _ => destruct H as [H|H] end.
Ltac ftk2 H := ftk H; [..|destruct H as [H ?Ht]]; rewrite ?is_tk, H; try reflexivity.

Lemma F1_enum : forall st, F1 st -> is st KIdent && kw st "enum" = false.
Proof. intros st H. ftk2 H. unfold kw. rewrite Ht. reflexivity. Qed.
Lemma F1_comma : forall st, F1 st -> is st KComma = false.
Proof. intros st H. ftk2 H. Qed.
Lemma F2_in : forall st, F2 st -> is st KReserved && kw st "in" = false.
Proof. intros st H. ftk2 H. Qed.
Lemma F2_dcolon : forall st, F2 st -> is st KDoubleColon = false.
Proof. intros st H. ftk2 H. Qed.
Lemma F3_equals : forall st, F3 st -> is st KEquals = false.
Proof. intros st H. ftk2 H. Qed.
Lemma F3_lbrace : forall st, F3 st -> is st KLBrace = false.
Proof. intros st H. ftk2 H. Qed.

Definition tags_text (ind : nat) (tags : option xty) : str :=
  match tags with None => [] | Some t => s_of " tags " ++ print_type sh t ind end.
Definition shape_text (ind : nat) (shape : option xrec) : str :=
  match shape with None => [] | Some fs => [32] ++ print_type sh (XRec fs) ind end.
Definition parents_text (parents : list str) : str :=
  match parents with [] => [] | p :: ps => s_of " in " ++ print_list (p :: ps) end.

Lemma frag_tags_lemma : forall tags ind fuel rest, opt_wf_tty tags = true ->
  (2 * length (tags_text ind tags ++ 59%Z :: 10%Z :: rest) + 4 <= fuel)%nat ->
  exists st, rd (tags_text ind tags ++ 59 :: 10 :: rest) = SOk st
             /\ frag_tags fuel st = SOk (option_map (norm_ty sh) tags, MkSt (mk_tok KSemicolon [59]) (10 :: rest)) /\ F3 st.
Proof.
  intros [t|] ind fuel rest Hwf Hf; cbn [tags_text opt_wf_tty option_map] in *.
  - change (s_of " tags ") with (32 :: s_of "tags" ++ [32]) in Hf |- *. cbn [app] in Hf |- *. rewrite <- !app_assoc in Hf |- *. cbn [app] in Hf |- *.
    destruct (type_lemma t ind fuel (59 :: 10 :: rest) (MkSt (mk_tok KSemicolon [59]) (10 :: rest)) Hwf eq_refl (rd_semi _) eq_refl ltac:(flen))
      as (st_t & Hrd_t & Hp_t).
    eexists. split; [rewrite rd_sp; apply (rd_kw "tags" KIdent); reflexivity|]. split; [|right; split; reflexivity].
    unfold frag_tags. sst. rewrite rd_sp, Hrd_t. sst. rewrite Hp_t. reflexivity.
  - cbn [app]. eexists. split; [apply rd_semi|]. split; [reflexivity|left; reflexivity].
Qed.

Lemma frag_shape_lemma : forall shape ind fuel X st3, opt_wf_tty (option_map XRec shape) = true -> rd X = SOk st3 -> F3 st3 ->
  (2 * length (shape_text ind shape ++ X) + 3 <= fuel)%nat ->
  exists st, rd (shape_text ind shape ++ X) = SOk st /\ frag_shape fuel st = SOk (option_map (norm_rec sh) shape, st3) /\ F2 st.
Proof.
  intros [fs|] ind fuel X st3 Hwf HrdX HF Hf; cbn [shape_text opt_wf_tty option_map] in *.
  - rewrite <- app_assoc in Hf |- *. cbn [app] in Hf |- *.
    destruct (record_lemma' fs ind fuel X st3 Hwf HrdX ltac:(flen)) as (st & Hrds & Hp & Hk).
    exists st. split; [rewrite rd_sp; exact Hrds|]. split; [|left; exact Hk].
    unfold frag_shape. rewrite !is_tk, Hk. cbn [ttype_beq]. rewrite Hp. reflexivity.
  - exists st3. split; [exact HrdX|]. split; [|right; exact HF].
    unfold frag_shape. rewrite (F3_equals _ HF), (F3_lbrace _ HF). reflexivity.
Qed.

Lemma frag_in_lemma : forall parents fuel X st2, forallb ent_path parents = true -> rd X = SOk st2 -> F2 st2 -> stopb X = true ->
  (2 * length (parents_text parents ++ X) + 4 <= fuel)%nat ->
  exists st, rd (parents_text parents ++ X) = SOk st /\ frag_in fuel st = SOk (parents, st2) /\ F1 st.
Proof.
  intros parents fuel X st2 Hwf HrdX HF Hstop Hf. destruct parents as [|p ps].
  - exists st2. split; [exact HrdX|]. split; [|right; exact HF]. unfold frag_in. rewrite (F2_in _ HF). reflexivity.
  - unfold parents_text in *. change (s_of " in ") with (32 :: s_of "in" ++ [32]) in Hf |- *. cbn [app] in Hf |- *.
    rewrite <- !app_assoc in Hf |- *. cbn [app] in Hf |- *.
    destruct (entity_types_lemma (p :: ps) fuel X st2 ltac:(discriminate) Hwf Hstop HrdX (F2_dcolon _ HF) ltac:(flen)) as (st & Hrds & Hp & _).
    eexists. split; [rewrite rd_sp; apply (rd_kw "in" KReserved); reflexivity|]. split; [|left; reflexivity].
    unfold frag_in. sst. rewrite rd_sp, Hrds. sst. exact Hp.
Qed.

Lemma stopb_ent_tail : forall ind shape tags rest, stopb (shape_text ind shape ++ tags_text ind tags ++ 59 :: 10 :: rest) = true.
Proof. intros ind [fs|] [t|] rest; reflexivity. Qed.
Lemma stopb_ent_tail1 : forall ind parents shape tags rest,
  stopb (parents_text parents ++ shape_text ind shape ++ tags_text ind tags ++ 59 :: 10 :: rest) = true.
Proof. intros ind [|p ps] shape tags rest; [apply stopb_ent_tail|reflexivity]. Qed.

Lemma entity_decl : forall ind name e an n fuel rest st',
  is_valid_ident name = true -> wf_entity_t e = true ->
  has_key name (xs_entities n) || has_key name (xs_enums n) = false -> rd rest = SOk st' ->
  (2 * length (name ++ parents_text (xe_parents e) ++ shape_text ind (xe_shape e) ++ tags_text ind (xe_tags e) ++ 59%Z :: 10%Z :: rest) + 6 <= fuel)%nat ->
  parse_decl fuel an n (MkSt (mk_tok KIdent (s_of "entity"))
                             (32 :: name ++ parents_text (xe_parents e) ++ shape_text ind (xe_shape e) ++ tags_text ind (xe_tags e) ++ 59 :: 10 :: rest))
  = SOk (set_entities n (rec_insert name {| xe_annots := an; xe_parents := xe_parents e; xe_shape := option_map (norm_rec sh) (xe_shape e);
                                            xe_tags := option_map (norm_ty sh) (xe_tags e) |} (xs_entities n)), st').
Proof.
  intros ind name e an n fuel rest st' Hname Hwf Hhk Hrd Hf. destruct (valid_ident_word name Hname) as [Hw Hres].
  unfold wf_entity_t in Hwf. apply andb_true_iff in Hwf. destruct Hwf as [Hwf Htags]. apply andb_true_iff in Hwf. destruct Hwf as [Hwf Hshape].
  apply andb_true_iff in Hwf. destruct Hwf as [_ Hpar].
  destruct (frag_tags_lemma (xe_tags e) ind fuel rest Htags ltac:(flen)) as (st3 & Hrd3 & Hp3 & HF3).
  destruct (frag_shape_lemma (xe_shape e) ind fuel _ st3 Hshape Hrd3 HF3 ltac:(flen)) as (st2 & Hrd2 & Hp2 & HF2).
  destruct (frag_in_lemma (xe_parents e) fuel _ st2 Hpar Hrd2 HF2 (stopb_ent_tail _ _ _ _) ltac:(flen)) as (st1 & Hrd1 & Hp1 & HF1).
  unfold parse_decl. sst. rewrite rd_sp, rd_word by (try exact Hw; apply stopb_ent_tail1). rewrite Hres. sst.
  rewrite parse_entity_eq. unfold parse_idents. sst. rewrite Hrd1. sst.
  destruct fuel as [|f]; [exfalso; flen|]. cbn [idents_rest]. rewrite (F1_comma _ HF1). cbn [negb sbind].
  rewrite (F1_enum _ HF1). rewrite Hp1. cbn [sbind]. rewrite Hp2. cbn [sbind]. rewrite Hp3. sst.
  rewrite rd_nl, Hrd. sst. cbn [add_entities]. rewrite Hhk. reflexivity.
Qed.

Lemma enum_decl : forall name vs an n fuel rest st',
  is_valid_ident name = true -> forallb utf8_ok vs = true ->
  has_key name (xs_enums n) || has_key name (xs_entities n) = false -> rd rest = SOk st' ->
  (2 * length (name ++ 32%Z :: s_of "enum" ++ 32%Z :: 91%Z :: join_comma (map quote_cedar vs) ++ 93%Z :: 59%Z :: 10%Z :: rest) + 6 <= fuel)%nat ->
  parse_decl fuel an n (MkSt (mk_tok KIdent (s_of "entity"))
                             (32 :: name ++ 32 :: s_of "enum" ++ 32 :: 91 :: join_comma (map quote_cedar vs) ++ 93 :: 59 :: 10 :: rest))
  = SOk (set_enums n (rec_insert name {| xn_annots := an; xn_values := vs |} (xs_enums n)), st').
Proof.
  intros name vs an n fuel rest st' Hname Hvs Hhk Hrd Hf. destruct (valid_ident_word name Hname) as [Hw Hres].
  destruct (enum_values_lemma vs [] fuel (59 :: 10 :: rest) (MkSt (mk_tok KSemicolon [59]) (10 :: rest)) Hvs (rd_semi _) ltac:(flen))
    as (st_v & Hrd_v & Hp_v).
  unfold parse_decl. sst. rewrite rd_sp, rd_word by (try exact Hw; reflexivity). rewrite Hres. sst.
  unfold parse_entity, parse_idents. sst. rewrite rd_sp, (rd_kw "enum" KIdent) by reflexivity. sst.
  destruct fuel as [|f]; [exfalso; flen|]. cbn [idents_rest]. sst.
  rewrite rd_sp, rd_lbracket. sst. unfold parse_enum_entity. sst. rewrite Hrd_v. sst. rewrite Hp_v. sst.
  rewrite rd_nl, Hrd. sst. cbn [add_enums]. rewrite Hhk. reflexivity.
Qed.

(* ------------------------------------------------------------------------------------------ *)
(* Declarations: actions                                                                       *)
(* ------------------------------------------------------------------------------------------ *)
Definition frag_ain (fuel : nat) (st1 : pst) : spres (list (str * str) * pst) :=
  if is st1 KReserved && kw st1 "in" then (st2 <- read_token st1 ;; parse_action_parents fuel st2) else SOk ([], st1).
Definition frag_applies (fuel : nat) (st2 : pst) : spres (option x_applies * pst) :=
  if is st2 KIdent && kw st2 "appliesTo" then
    st3 <- read_token st2 ;; ' (at_, st4) <- parse_applies_to fuel st3 ;; SOk (Some at_, st4)
  else SOk (None, st2).
Definition frag_attrs (st3 : pst) : spres pst :=
  if is st3 KIdent && kw st3 "attributes" then
    st4 <- read_token st3 ;; st5 <- expect KLBrace st4 ;; expect KRBrace st5
  else SOk st3.

Lemma parse_action_eq : forall fuel an n st,
  parse_action fuel an n st =
  (' (names, st1) <- parse_names fuel st ;;
   ' (member_of, st2) <- frag_ain fuel st1 ;;
   ' (applies, st3) <- frag_applies fuel st2 ;;
   st4 <- frag_attrs st3 ;;
   st5 <- expect KSemicolon st4 ;;
   match add_actions names {| xac_annots := an; xac_parents := member_of; xac_applies := applies |} n with
   | Some n' => SOk (n', st5)
   | None => SErr
   end).
Proof. reflexivity. Qed.

Definition G2 (st : pst) : Prop := tk st = KSemicolon \/ (tk st = KIdent /\ txt st = s_of "appliesTo").
Definition G1 (st : pst) : Prop := tk st = KReserved \/ G2 st.
Ltac gtk H := unfold G1, G2 in H; repeat match type of H with _ \/ _ => destruct H as [H|H] end;
              [..|destruct H as [H ?Ht]]; rewrite ?is_tk, H; try reflexivity.
Lemma G1_comma : forall st, G1 st -> is st KComma = false.
Proof. intros st H. gtk H. Qed.
Lemma G2_in : forall st, G2 st -> is st KReserved && kw st "in" = false.
Proof. intros st H. gtk H. Qed.
Lemma G2_dcolon : forall st, G2 st -> is st KDoubleColon = false.
Proof. intros st H. gtk H. Qed.

Definition aparents_text (l : list (str * str)) : str :=
  match l with [] => [] | p :: ps => s_of " in " ++ print_list (map print_parent_ref (p :: ps)) end.
Definition applies_opt_text (ind : nat) (o : option x_applies) : str :=
  match o with None => [] | Some ap => print_applies sh ind ap end.
Definition ctx_text (ind : nat) (c : option xty) : str :=
  match c with
  | None => [10]
  | Some t => 44 :: 10 :: tabs (S ind) ++ s_of "context" ++ 58 :: 32 :: print_type sh t (S ind) ++ [10]
  end.
Definition applies_nf (ind : nat) (ps rs : list str) (c : option xty) (X : str) : str :=
  32 :: s_of "appliesTo" ++ 32 :: 123 :: 10 :: tabs (S ind) ++ s_of "principal" ++ 58 :: 32 :: print_list ps
  ++ 44 :: 10 :: tabs (S ind) ++ s_of "resource" ++ 58 :: 32 :: print_list rs ++ ctx_text ind c ++ tabs ind ++ 125 :: X.

Lemma print_applies_nf : forall ind a X, xa_principals a <> [] -> xa_resources a <> [] ->
  print_applies sh ind a ++ X = applies_nf ind (xa_principals a) (xa_resources a) (xa_context a) X.
Proof.
  intros ind [ps rs c] X Hp Hr. cbn [xa_principals xa_resources xa_context] in *.
  destruct ps as [|p ps]; [contradiction|]. destruct rs as [|r rs]; [contradiction|].
  unfold print_applies, applies_nf, ctx_text. cbn [xa_principals xa_resources xa_context].
  destruct c as [t|]; repeat (first [rewrite <- app_assoc | progress cbn [app]]); reflexivity.
Qed.

Ltac tnorm := repeat (first [rewrite <- app_assoc | progress cbn [app]]).
Ltac tnorm_in H := repeat (first [rewrite <- app_assoc in H | progress cbn [app] in H]).

Lemma rd_close : forall ind X, rd (10 :: tabs ind ++ 125 :: X) = SOk (MkSt (mk_tok KRBrace [125]) X).
Proof. intros ind X. rewrite rd_nl, rd_tabs. apply rd_rbrace. Qed.

Lemma frag_applies_lemma : forall o ind fuel rest, match o with Some a => wf_applies_t a | None => true end = true ->
  (2 * length (applies_opt_text ind o ++ 59%Z :: 10%Z :: rest) + 8 <= fuel)%nat ->
  exists st, rd (applies_opt_text ind o ++ 59 :: 10 :: rest) = SOk st
             /\ frag_applies fuel st = SOk (option_map (norm_applies_t sh) o, MkSt (mk_tok KSemicolon [59]) (10 :: rest)) /\ G2 st.
Proof.
  intros [a|] ind fuel rest Hwf Hf; cbn [applies_opt_text option_map] in *.
  2:{ cbn [app]. eexists. split; [apply rd_semi|]. split; [reflexivity|left; reflexivity]. }
  unfold wf_applies_t in Hwf. destruct a as [ps rs c]. cbn [xa_principals xa_resources xa_context] in Hwf.
  apply andb_true_iff in Hwf. destruct Hwf as [Hwf Hc]. apply andb_true_iff in Hwf. destruct Hwf as [Hwf Hrs].
  apply andb_true_iff in Hwf. destruct Hwf as [Hwf Hrn]. apply andb_true_iff in Hwf. destruct Hwf as [Hpn Hps].
  destruct ps as [|p ps]; [discriminate|]. destruct rs as [|r rs]; [discriminate|].
  rewrite print_applies_nf in Hf |- * by (cbn; discriminate). cbn [xa_principals xa_resources xa_context] in Hf |- *.
  unfold applies_nf, norm_applies_t in *. cbn [xa_principals xa_resources xa_context].
  destruct fuel as [|f1]; [exfalso; flen|]. destruct f1 as [|f2]; [exfalso; flen|].
  destruct f2 as [|f3]; [exfalso; flen|]. destruct f3 as [|f4]; [exfalso; flen|].
  destruct c as [t|]; cbn [ctx_text opt_wf_tty option_map] in *; tnorm; tnorm_in Hf.
  - set (T3 := 10 :: tabs ind ++ 125 :: 59 :: 10 :: rest) in *.
    set (T2 := 44 :: 10 :: tabs (S ind) ++ s_of "context" ++ 58 :: 32 :: print_type sh t (S ind) ++ T3) in *.
    set (T1 := 44 :: 10 :: tabs (S ind) ++ s_of "resource" ++ 58 :: 32 :: print_list (r :: rs) ++ T2) in *.
    destruct (type_lemma t (S ind) (S f4) T3 _ Hc eq_refl (rd_close _ _) eq_refl ltac:(subst T1 T2 T3; flen)) as (st_t & Hrd_t & Hp_t).
    destruct (entity_types_lemma (r :: rs) (S (S f4)) T2 _ ltac:(discriminate) Hrs eq_refl (rd_comma _) eq_refl ltac:(subst T1 T2 T3; flen))
      as (st_rs & Hrd_rs & Hp_rs & _).
    destruct (entity_types_lemma (p :: ps) (S (S (S f4))) T1 _ ltac:(discriminate) Hps eq_refl (rd_comma _) eq_refl ltac:(subst T1 T2 T3; flen))
      as (st_ps & Hrd_ps & Hp_ps & _).
    subst T1 T2 T3.
    eexists. split; [rewrite rd_sp; apply (rd_kw "appliesTo" KIdent); reflexivity|]. split; [|right; split; reflexivity].
    unfold frag_applies. sst. rewrite rd_sp, rd_lbrace. sst. unfold parse_applies_to. sst.
    rewrite rd_nl, rd_tabs, (rd_kw "principal" KIdent) by reflexivity.
    cbn [applies_loop]. sst. rewrite rd_colon_sp. sst. rewrite rd_sp, Hrd_ps. sst. rewrite Hp_ps. sst.
    rewrite rd_nl, rd_tabs, (rd_kw "resource" KIdent) by reflexivity.
    cbn [applies_loop]. sst. rewrite rd_colon_sp. sst. rewrite rd_sp, Hrd_rs. sst. rewrite Hp_rs. sst.
    rewrite rd_nl, rd_tabs, (rd_kw "context" KIdent) by reflexivity.
    cbn [applies_loop]. sst. rewrite rd_colon_sp. sst. rewrite rd_sp, Hrd_t. sst. rewrite Hp_t. sst.
    cbn [applies_loop]. sst. rewrite rd_semi. reflexivity.
  - set (T2 := 10 :: tabs ind ++ 125 :: 59 :: 10 :: rest) in *.
    set (T1 := 44 :: 10 :: tabs (S ind) ++ s_of "resource" ++ 58 :: 32 :: print_list (r :: rs) ++ T2) in *.
    destruct (entity_types_lemma (r :: rs) (S (S f4)) T2 _ ltac:(discriminate) Hrs eq_refl (rd_close _ _) eq_refl ltac:(subst T1 T2; flen))
      as (st_rs & Hrd_rs & Hp_rs & _).
    destruct (entity_types_lemma (p :: ps) (S (S (S f4))) T1 _ ltac:(discriminate) Hps eq_refl (rd_comma _) eq_refl ltac:(subst T1 T2; flen))
      as (st_ps & Hrd_ps & Hp_ps & _).
    subst T1 T2.
    eexists. split; [rewrite rd_sp; apply (rd_kw "appliesTo" KIdent); reflexivity|]. split; [|right; split; reflexivity].
    unfold frag_applies. sst. rewrite rd_sp, rd_lbrace. sst. unfold parse_applies_to. sst.
    rewrite rd_nl, rd_tabs, (rd_kw "principal" KIdent) by reflexivity.
    cbn [applies_loop]. sst. rewrite rd_colon_sp. sst. rewrite rd_sp, Hrd_ps. sst. rewrite Hp_ps. sst.
    rewrite rd_nl, rd_tabs, (rd_kw "resource" KIdent) by reflexivity.
    cbn [applies_loop]. sst. rewrite rd_colon_sp. sst. rewrite rd_sp, Hrd_rs. sst. rewrite Hp_rs. sst.
    cbn [applies_loop]. sst. rewrite rd_semi. reflexivity.
Qed.

Lemma frag_ain_lemma : forall parents fuel X st2, forallb wf_parent parents = true -> rd X = SOk st2 -> G2 st2 -> stopb X = true ->
  (2 * length (aparents_text parents ++ X) + 5 <= fuel)%nat ->
  exists st, rd (aparents_text parents ++ X) = SOk st /\ frag_ain fuel st = SOk (parents, st2) /\ G1 st.
Proof.
  intros parents fuel X st2 Hwf HrdX HG Hstop Hf. destruct parents as [|p ps].
  - exists st2. split; [exact HrdX|]. split; [|right; exact HG]. unfold frag_ain. rewrite (G2_in _ HG). reflexivity.
  - unfold aparents_text in *. change (s_of " in ") with (32 :: s_of "in" ++ [32]) in Hf |- *. tnorm. tnorm_in Hf.
    destruct (action_parents_lemma (p :: ps) fuel X st2 ltac:(discriminate) Hwf Hstop HrdX (G2_dcolon _ HG) ltac:(flen)) as (st & Hrds & Hp).
    eexists. split; [rewrite rd_sp; apply (rd_kw "in" KReserved); reflexivity|]. split; [|left; reflexivity].
    unfold frag_ain. sst. rewrite rd_sp, Hrds. sst. exact Hp.
Qed.

Lemma stopb_act_tail : forall ind o rest, stopb (applies_opt_text ind o ++ 59 :: 10 :: rest) = true.
Proof. intros ind [a|] rest; reflexivity. Qed.
Lemma stopb_act_tail1 : forall ind parents o rest, stopb (aparents_text parents ++ applies_opt_text ind o ++ 59 :: 10 :: rest) = true.
Proof. intros ind [|p ps] o rest; [apply stopb_act_tail|reflexivity]. Qed.

Lemma action_decl : forall ind key a an n fuel rest st',
  name_ok key = true -> wf_action_t a = true -> has_key key (xs_actions n) = false -> rd rest = SOk st' ->
  (2 * length (print_name key ++ aparents_text (xac_parents a) ++ applies_opt_text ind (xac_applies a) ++ 59%Z :: 10%Z :: rest) + 10 <= fuel)%nat ->
  parse_decl fuel an n (MkSt (mk_tok KIdent (s_of "action"))
                             (32 :: print_name key ++ aparents_text (xac_parents a) ++ applies_opt_text ind (xac_applies a) ++ 59 :: 10 :: rest))
  = SOk (set_actions n (rec_insert key {| xac_annots := an; xac_parents := xac_parents a; xac_applies := option_map (norm_applies_t sh) (xac_applies a) |}
                                   (xs_actions n)), st').
Proof.
  intros ind key a an n fuel rest st' Hkey Hwf Hhk Hrd Hf.
  unfold wf_action_t in Hwf. apply andb_true_iff in Hwf. destruct Hwf as [Hwf Happ]. apply andb_true_iff in Hwf. destruct Hwf as [_ Hpar].
  destruct (frag_applies_lemma (xac_applies a) ind fuel rest Happ ltac:(flen)) as (st2 & Hrd2 & Hp2 & HG2).
  destruct (frag_ain_lemma (xac_parents a) fuel _ st2 Hpar Hrd2 HG2 (stopb_act_tail _ _ _) ltac:(flen)) as (st1 & Hrd1 & Hp1 & HG1).
  destruct (name_lemma key _ st1 Hkey (stopb_act_tail1 ind (xac_parents a) (xac_applies a) rest) Hrd1) as (st0 & Hrd0 & Hp0 & _).
  unfold parse_decl. sst. rewrite rd_sp, Hrd0. sst.
  rewrite parse_action_eq. unfold parse_names. rewrite Hp0. cbn [sbind].
  destruct fuel as [|f]; [exfalso; flen|]. cbn [names_rest]. rewrite (G1_comma _ HG1). cbn [negb sbind].
  rewrite Hp1. cbn [sbind]. rewrite Hp2. cbn [sbind]. unfold frag_attrs. sst.
  rewrite rd_nl, Hrd. sst. cbn [add_actions]. rewrite Hhk. reflexivity.
Qed.

(* ------------------------------------------------------------------------------------------ *)
(* One declaration block                                                                       *)
(* ------------------------------------------------------------------------------------------ *)
Inductive ditem := DC (kv : str * x_common) | DE (kv : str * x_entity) | DN (kv : str * x_enum) | DA (kv : str * x_action).

Definition print_item (ind : nat) (it : ditem) : str :=
  match it with
  | DC kv => print_common sh ind kv | DE kv => print_entity sh ind kv | DN kv => print_enum ind kv | DA kv => print_action sh ind kv
  end.
Definition wf_item (it : ditem) : bool :=
  match it with
  | DC kv => is_valid_ident (fst kv) && negb (is_reserved_type_name (fst kv)) && wf_common_t (snd kv)
  | DE kv => is_valid_ident (fst kv) && wf_entity_t (snd kv)
  | DN kv => is_valid_ident (fst kv) && wf_enum_t (snd kv)
  | DA kv => name_ok (fst kv) && wf_action_t (snd kv)
  end.
Definition fresh_item (it : ditem) (n : x_ns) : bool :=
  match it with
  | DC kv => negb (has_key (fst kv) (xs_commons n))
  | DE kv => negb (has_key (fst kv) (xs_entities n) || has_key (fst kv) (xs_enums n))
  | DN kv => negb (has_key (fst kv) (xs_enums n) || has_key (fst kv) (xs_entities n))
  | DA kv => negb (has_key (fst kv) (xs_actions n))
  end.
Definition add_item (it : ditem) (n : x_ns) : x_ns :=
  match it with
  | DC kv => set_commons n (rec_insert (fst kv) (norm_common_t sh (snd kv)) (xs_commons n))
  | DE kv => set_entities n (rec_insert (fst kv) (norm_entity_t sh (snd kv)) (xs_entities n))
  | DN kv => set_enums n (rec_insert (fst kv) (snd kv) (xs_enums n))
  | DA kv => set_actions n (rec_insert (fst kv) (norm_action_t sh (snd kv)) (xs_actions n))
  end.

Lemma decl_wrap : forall an ind (kwd : string) body fuel, annots_ok an = true -> word (s_of kwd) = true ->
  is_reserved (s_of kwd) = false ->
  (2 * length (pa ind an ++ tabs ind ++ s_of kwd ++ 32%Z :: body) + 1 <= fuel)%nat ->
  exists st, rd (pa ind an ++ tabs ind ++ s_of kwd ++ 32 :: body) = SOk st /\ In (tk st) [KAt; KIdent]
             /\ parse_annotations fuel [] st = SOk (an, MkSt (mk_tok KIdent (s_of kwd)) (32 :: body)).
Proof.
  intros an ind kwd body fuel Han Hw Hres Hf. destruct (annots_ok_inv an Han) as [Hs Hok].
  destruct (annots_lemma an [] ind fuel (tabs ind ++ s_of kwd ++ 32 :: body) (MkSt (mk_tok KIdent (s_of kwd)) (32 :: body)) Hs Hok
              ltac:(rewrite rd_tabs; apply rd_kw; [exact Hw|rewrite Hres; reflexivity|reflexivity]) eq_refl eq_refl Hf) as (st & Hrd & Hp & Hk).
  exists st. split; [exact Hrd|]. split; [|exact Hp]. destruct Hk as [Hk|Hk]; [rewrite Hk; cbn [In]; tauto|subst st; cbn [In]; tauto].
Qed.

Lemma common_text : forall ind kv rest, keys_sorted (xc_annots (snd kv)) = true ->
  print_common sh ind kv ++ rest
  = pa ind (xc_annots (snd kv)) ++ tabs ind ++ s_of "type" ++ 32 :: fst kv ++ 32 :: 61 :: 32 :: print_type sh (xc_type (snd kv)) ind ++ 59 :: 10 :: rest.
Proof.
  intros ind kv rest Hs. unfold print_common. rewrite (print_annotations_sorted _ _ Hs).
  change (s_of "type ") with (s_of "type" ++ [32]). tnorm. reflexivity.
Qed.

Lemma entity_text : forall ind kv rest, keys_sorted (xe_annots (snd kv)) = true ->
  print_entity sh ind kv ++ rest
  = pa ind (xe_annots (snd kv)) ++ tabs ind ++ s_of "entity" ++ 32 :: fst kv ++ parents_text (xe_parents (snd kv))
    ++ shape_text ind (xe_shape (snd kv)) ++ tags_text ind (xe_tags (snd kv)) ++ 59 :: 10 :: rest.
Proof.
  intros ind kv rest Hs. unfold print_entity, parents_text, shape_text, tags_text. cbv zeta. rewrite (print_annotations_sorted _ _ Hs).
  change (s_of "entity ") with (s_of "entity" ++ [32]). tnorm. reflexivity.
Qed.

Lemma enum_text : forall ind kv rest, keys_sorted (xn_annots (snd kv)) = true ->
  print_enum ind kv ++ rest
  = pa ind (xn_annots (snd kv)) ++ tabs ind ++ s_of "entity" ++ 32 :: fst kv ++ 32 :: s_of "enum" ++ 32 :: 91
    :: join_comma (map quote_cedar (xn_values (snd kv))) ++ 93 :: 59 :: 10 :: rest.
Proof.
  intros ind kv rest Hs. unfold print_enum. rewrite (print_annotations_sorted _ _ Hs).
  change (s_of "entity ") with (s_of "entity" ++ [32]). change (s_of " enum [") with (32 :: s_of "enum" ++ [32; 91]). tnorm. reflexivity.
Qed.

Lemma action_text : forall ind kv rest, keys_sorted (xac_annots (snd kv)) = true ->
  print_action sh ind kv ++ rest
  = pa ind (xac_annots (snd kv)) ++ tabs ind ++ s_of "action" ++ 32 :: print_name (fst kv) ++ aparents_text (xac_parents (snd kv))
    ++ applies_opt_text ind (xac_applies (snd kv)) ++ 59 :: 10 :: rest.
Proof.
  intros ind kv rest Hs. unfold print_action, aparents_text, applies_opt_text. cbv zeta. rewrite (print_annotations_sorted _ _ Hs).
  change (s_of "action ") with (s_of "action" ++ [32]). tnorm. reflexivity.
Qed.

Lemma item_lemma : forall it ind n fuel rest st', wf_item it = true -> fresh_item it n = true -> rd rest = SOk st' ->
  (2 * length (print_item ind it ++ rest) + 12 <= fuel)%nat ->
  exists st st1 an, rd (print_item ind it ++ rest) = SOk st /\ In (tk st) [KAt; KIdent]
    /\ parse_annotations fuel [] st = SOk (an, st1) /\ is st1 KIdent = true /\ kw st1 "namespace" = false
    /\ parse_decl fuel an n st1 = SOk (add_item it n, st').
Proof.
  intros [[name c]|[name e]|[name e]|[name a]] ind n fuel rest st' Hwf Hfresh Hrd Hf; cbn [print_item wf_item fresh_item add_item fst snd] in *.
  - apply andb_true_iff in Hwf. destruct Hwf as [Hwf Hc]. apply andb_true_iff in Hwf. destruct Hwf as [Hname Hrtn].
    apply negb_true_iff in Hrtn, Hfresh. unfold wf_common_t in Hc. apply andb_true_iff in Hc. destruct Hc as [Han Hty].
    destruct (annots_ok_inv _ Han) as [Hans _].
    rewrite (common_text ind (name, c) rest Hans) in Hf |- *. cbn [fst snd] in Hf |- *.
    match goal with |- context [rd (pa ind ?an ++ tabs ind ++ s_of ?kwd ++ 32 :: ?body)] =>
      destruct (decl_wrap an ind kwd body fuel Han eq_refl eq_refl ltac:(flen)) as (st & Hrds & Hk & Hp) end.
    exists st. eexists. eexists. split; [exact Hrds|]. split; [exact Hk|]. split; [exact Hp|]. split; [reflexivity|]. split; [reflexivity|].
    apply (common_decl ind name (xc_type c)); try assumption. flen.
  - apply andb_true_iff in Hwf. destruct Hwf as [Hname He]. apply negb_true_iff in Hfresh.
    assert (Han : annots_ok (xe_annots e) = true).
    { unfold wf_entity_t in He. apply andb_true_iff in He. destruct He as [He _]. apply andb_true_iff in He. destruct He as [He _].
      apply andb_true_iff in He. destruct He as [He _]. exact He. }
    destruct (annots_ok_inv _ Han) as [Hans _].
    rewrite (entity_text ind (name, e) rest Hans) in Hf |- *. cbn [fst snd] in Hf |- *.
    match goal with |- context [rd (pa ind ?an ++ tabs ind ++ s_of ?kwd ++ 32 :: ?body)] =>
      destruct (decl_wrap an ind kwd body fuel Han eq_refl eq_refl ltac:(flen)) as (st & Hrds & Hk & Hp) end.
    exists st. eexists. eexists. split; [exact Hrds|]. split; [exact Hk|]. split; [exact Hp|]. split; [reflexivity|]. split; [reflexivity|].
    apply (entity_decl ind name e); try assumption. flen.
  - apply andb_true_iff in Hwf. destruct Hwf as [Hname He]. apply negb_true_iff in Hfresh.
    unfold wf_enum_t in He. apply andb_true_iff in He. destruct He as [Han Hvs].
    destruct (annots_ok_inv _ Han) as [Hans _].
    rewrite (enum_text ind (name, e) rest Hans) in Hf |- *. cbn [fst snd] in Hf |- *.
    match goal with |- context [rd (pa ind ?an ++ tabs ind ++ s_of ?kwd ++ 32 :: ?body)] =>
      destruct (decl_wrap an ind kwd body fuel Han eq_refl eq_refl ltac:(flen)) as (st & Hrds & Hk & Hp) end.
    exists st. eexists. eexists. split; [exact Hrds|]. split; [exact Hk|]. split; [exact Hp|]. split; [reflexivity|]. split; [reflexivity|].
    destruct e as [ean evs]. cbn [xn_annots xn_values] in *. apply enum_decl; try assumption. flen.
  - apply andb_true_iff in Hwf. destruct Hwf as [Hname Ha]. apply negb_true_iff in Hfresh.
    assert (Han : annots_ok (xac_annots a) = true).
    { unfold wf_action_t in Ha. apply andb_true_iff in Ha. destruct Ha as [Ha _]. apply andb_true_iff in Ha. destruct Ha as [Ha _]. exact Ha. }
    destruct (annots_ok_inv _ Han) as [Hans _].
    rewrite (action_text ind (name, a) rest Hans) in Hf |- *. cbn [fst snd] in Hf |- *.
    match goal with |- context [rd (pa ind ?an ++ tabs ind ++ s_of ?kwd ++ 32 :: ?body)] =>
      destruct (decl_wrap an ind kwd body fuel Han eq_refl eq_refl ltac:(flen)) as (st & Hrds & Hk & Hp) end.
    exists st. eexists. eexists. split; [exact Hrds|]. split; [exact Hk|]. split; [exact Hp|]. split; [reflexivity|]. split; [reflexivity|].
    apply (action_decl ind name a); try assumption. flen.
Qed.

(* ------------------------------------------------------------------------------------------ *)
(* The declaration loop of a namespace                                                         *)
(* ------------------------------------------------------------------------------------------ *)
Fixpoint fresh_chain (its : list ditem) (n : x_ns) : Prop :=
  match its with [] => True | it :: r => fresh_item it n = true /\ fresh_chain r (add_item it n) end.
Definition add_items (its : list ditem) (n : x_ns) : x_ns := fold_left (fun n it => add_item it n) its n.

Lemma join_blocks_cons : forall first b r, join_blocks first (b :: r) = (if first then [] else [10]) ++ b ++ join_blocks false r.
Proof. reflexivity. Qed.
Lemma rd_first : forall (first : bool) s, rd ((if first then [] else [10]) ++ s) = rd s.
Proof. intros [|] s; [reflexivity|apply rd_nl]. Qed.

Lemma print_item_len : forall ind it, (1 <= length (print_item ind it))%nat.
Proof.
  intros ind [kv|kv|kv|kv]; unfold print_item, print_common, print_entity, print_enum, print_action; cbv zeta;
    repeat rewrite app_length; cbn [length]; lia.
Qed.

Lemma namespace_loop_lemma : forall its first n fuel rest st', forallb wf_item its = true -> fresh_chain its n -> rd rest = SOk st' ->
  (2 * length (join_blocks first (map (print_item 1) its) ++ 125%Z :: 10%Z :: rest) + 14 <= fuel)%nat ->
  exists st, rd (join_blocks first (map (print_item 1) its) ++ 125 :: 10 :: rest) = SOk st
             /\ namespace_loop fuel n st = SOk (add_items its n, st').
Proof.
  induction its as [|it its IH]; intros first n fuel rest st' Hwf Hfr Hrd Hf.
  - cbn [map join_blocks app] in *. eexists. split; [apply rd_rbrace|].
    destruct fuel as [|f]; [exfalso; flen|]. cbn [namespace_loop]. sst. rewrite rd_nl, Hrd. reflexivity.
  - cbn [map forallb] in *. apply andb_true_iff in Hwf. destruct Hwf as [Hit Hwf]. destruct Hfr as [Hfi Hfr].
    rewrite join_blocks_cons in Hf |- *. rewrite <- !app_assoc in Hf |- *. rewrite rd_first.
    destruct fuel as [|f]; [exfalso; flen|].
    pose proof (print_item_len 1 it) as Hlen.
    destruct (IH false (add_item it n) f rest st' Hwf Hfr Hrd ltac:(destruct first; flen)) as (st2 & Hrd2 & Hp2).
    destruct (item_lemma it 1 n f _ st2 Hit Hfi Hrd2 ltac:(destruct first; flen)) as (st & st1 & an & Hrds & Hk & Hpa & _ & _ & Hpd).
    exists st. split; [exact Hrds|]. cbn [namespace_loop].
    rewrite (is_no st KRBrace _ Hk), (is_no st KEOF _ Hk) by reflexivity.
    rewrite Hpa. cbn [sbind]. rewrite Hpd. cbn [sbind]. exact Hp2.
Qed.

(* ------------------------------------------------------------------------------------------ *)
(* Folding the declarations of a well-formed namespace                                         *)
(* ------------------------------------------------------------------------------------------ *)
Definition items_of (n : x_ns) : list ditem :=
  map DC (xs_commons n) ++ map DE (xs_entities n) ++ map DN (xs_enums n) ++ map DA (xs_actions n).

Lemma fresh_chain_app : forall a b n, fresh_chain (a ++ b) n <-> fresh_chain a n /\ fresh_chain b (add_items a n).
Proof.
  induction a as [|x a IH]; intros b n; cbn [app fresh_chain add_items fold_left]; [tauto|].
  fold (add_items a (add_item x n)). rewrite IH. tauto.
Qed.
Lemma add_items_app : forall a b n, add_items (a ++ b) n = add_items b (add_items a n).
Proof. intros a b n. unfold add_items. apply fold_left_app. Qed.

Lemma insert_mapv_last : forall (A B : Type) (g : A -> B) pre k v, keys_sorted (pre ++ [(k, v)]) = true ->
  rec_insert k (g v) (mapv g pre) = mapv g (pre ++ [(k, v)]).
Proof.
  intros A B g pre k v Hs. unfold mapv at 2. rewrite map_app. cbn [map fst snd]. apply vj_insert_last.
  rewrite (vj_keys_sorted_ext _ (pre ++ [(k, v)])); [exact Hs|].
  rewrite !map_app. unfold mapv. rewrite map_map. reflexivity.
Qed.
Lemma has_key_mapv_last : forall (A B : Type) (g : A -> B) pre k v, keys_sorted (pre ++ [(k, v)]) = true -> has_key k (mapv g pre) = false.
Proof.
  intros A B g pre k v Hs. apply (has_key_last B k (g v)).
  rewrite (vj_keys_sorted_ext _ (pre ++ [(k, v)])); [exact Hs|].
  rewrite !map_app. unfold mapv. rewrite map_map. reflexivity.
Qed.
Lemma has_key_mem : forall (A : Type) k (l : list (str * A)), has_key k l = mem k (map fst l).
Proof.
  intros A k l. unfold has_key, mem. induction l as [|[k' v] l IH]; [reflexivity|].
  cbn [rec_get map fst existsb]. destruct (str_eqb k k'); [reflexivity|exact IH].
Qed.

Definition nsacc (cs : list (str * x_common)) (es : list (str * x_entity)) (ens : list (str * x_enum)) (acts : list (str * x_action)) : x_ns :=
  {| xs_annots := []; xs_entities := es; xs_enums := ens; xs_commons := cs; xs_actions := acts |}.

Lemma sorted_snoc : forall (A : Type) (pre : list (str * A)) kv l, keys_sorted (pre ++ kv :: l) = true -> keys_sorted (pre ++ [kv]) = true.
Proof. intros A pre kv l H. apply (vj_sorted_app_l (pre ++ [kv]) l). rewrite <- app_assoc. exact H. Qed.

Lemma phase_commons : forall l pre es ens acts, keys_sorted (pre ++ l) = true ->
  fresh_chain (map DC l) (nsacc (mapv (norm_common_t sh) pre) es ens acts)
  /\ add_items (map DC l) (nsacc (mapv (norm_common_t sh) pre) es ens acts) = nsacc (mapv (norm_common_t sh) (pre ++ l)) es ens acts.
Proof.
  induction l as [|[k v] l IH]; intros pre es ens acts Hs.
  - rewrite app_nil_r. split; [exact I|reflexivity].
  - pose proof (sorted_snoc _ _ _ _ Hs) as Hs1.
    cbn [map fresh_chain add_items fold_left]. fold (add_items (map DC l)).
    assert (E : add_item (DC (k, v)) (nsacc (mapv (norm_common_t sh) pre) es ens acts) = nsacc (mapv (norm_common_t sh) (pre ++ [(k, v)])) es ens acts).
    { unfold add_item, set_commons, nsacc. cbn [fst snd xs_annots xs_entities xs_enums xs_commons xs_actions].
      rewrite insert_mapv_last by exact Hs1. reflexivity. }
    rewrite E. destruct (IH (pre ++ [(k, v)]) es ens acts ltac:(rewrite <- app_assoc; exact Hs)) as [IH1 IH2].
    rewrite <- app_assoc in IH2. split; [split; [|exact IH1]|exact IH2].
    cbn [fresh_item fst nsacc xs_commons]. rewrite (has_key_mapv_last _ _ _ _ _ _ Hs1). reflexivity.
Qed.

Lemma phase_entities : forall l pre cs ens acts, keys_sorted (pre ++ l) = true ->
  (forall kv, In kv l -> has_key (fst kv) ens = false) ->
  fresh_chain (map DE l) (nsacc cs (mapv (norm_entity_t sh) pre) ens acts)
  /\ add_items (map DE l) (nsacc cs (mapv (norm_entity_t sh) pre) ens acts) = nsacc cs (mapv (norm_entity_t sh) (pre ++ l)) ens acts.
Proof.
  induction l as [|[k v] l IH]; intros pre cs ens acts Hs Hd.
  - rewrite app_nil_r. split; [exact I|reflexivity].
  - pose proof (sorted_snoc _ _ _ _ Hs) as Hs1.
    cbn [map fresh_chain add_items fold_left]. fold (add_items (map DE l)).
    assert (E : add_item (DE (k, v)) (nsacc cs (mapv (norm_entity_t sh) pre) ens acts) = nsacc cs (mapv (norm_entity_t sh) (pre ++ [(k, v)])) ens acts).
    { unfold add_item, set_entities, nsacc. cbn [fst snd xs_annots xs_entities xs_enums xs_commons xs_actions].
      rewrite insert_mapv_last by exact Hs1. reflexivity. }
    rewrite E. destruct (IH (pre ++ [(k, v)]) cs ens acts ltac:(rewrite <- app_assoc; exact Hs) ltac:(intros kv Hkv; apply Hd; right; exact Hkv)) as [IH1 IH2].
    rewrite <- app_assoc in IH2. split; [split; [|exact IH1]|exact IH2].
    pose proof (Hd (k, v) (or_introl eq_refl)) as Hd1. cbn [fst] in Hd1.
    cbn [fresh_item fst nsacc xs_entities xs_enums]. rewrite (has_key_mapv_last _ _ _ _ _ _ Hs1), Hd1. reflexivity.
Qed.

Lemma phase_enums : forall l pre cs es acts, keys_sorted (pre ++ l) = true ->
  (forall kv, In kv l -> has_key (fst kv) es = false) ->
  fresh_chain (map DN l) (nsacc cs es pre acts)
  /\ add_items (map DN l) (nsacc cs es pre acts) = nsacc cs es (pre ++ l) acts.
Proof.
  induction l as [|[k v] l IH]; intros pre cs es acts Hs Hd.
  - rewrite app_nil_r. split; [exact I|reflexivity].
  - pose proof (sorted_snoc _ _ _ _ Hs) as Hs1.
    cbn [map fresh_chain add_items fold_left]. fold (add_items (map DN l)).
    assert (E : add_item (DN (k, v)) (nsacc cs es pre acts) = nsacc cs es (pre ++ [(k, v)]) acts).
    { unfold add_item, set_enums, nsacc. cbn [fst snd xs_annots xs_entities xs_enums xs_commons xs_actions].
      rewrite vj_insert_last by exact Hs1. reflexivity. }
    rewrite E. destruct (IH (pre ++ [(k, v)]) cs es acts ltac:(rewrite <- app_assoc; exact Hs) ltac:(intros kv Hkv; apply Hd; right; exact Hkv)) as [IH1 IH2].
    rewrite <- app_assoc in IH2. split; [split; [|exact IH1]|exact IH2].
    pose proof (Hd (k, v) (or_introl eq_refl)) as Hd1. cbn [fst] in Hd1.
    cbn [fresh_item fst nsacc xs_entities xs_enums]. rewrite (has_key_last _ _ _ _ Hs1), Hd1. reflexivity.
Qed.

Lemma phase_actions : forall l pre cs es ens, keys_sorted (pre ++ l) = true ->
  fresh_chain (map DA l) (nsacc cs es ens (mapv (norm_action_t sh) pre))
  /\ add_items (map DA l) (nsacc cs es ens (mapv (norm_action_t sh) pre)) = nsacc cs es ens (mapv (norm_action_t sh) (pre ++ l)).
Proof.
  induction l as [|[k v] l IH]; intros pre cs es ens Hs.
  - rewrite app_nil_r. split; [exact I|reflexivity].
  - pose proof (sorted_snoc _ _ _ _ Hs) as Hs1.
    cbn [map fresh_chain add_items fold_left]. fold (add_items (map DA l)).
    assert (E : add_item (DA (k, v)) (nsacc cs es ens (mapv (norm_action_t sh) pre)) = nsacc cs es ens (mapv (norm_action_t sh) (pre ++ [(k, v)]))).
    { unfold add_item, set_actions, nsacc. cbn [fst snd xs_annots xs_entities xs_enums xs_commons xs_actions].
      rewrite insert_mapv_last by exact Hs1. reflexivity. }
    rewrite E. destruct (IH (pre ++ [(k, v)]) cs es ens ltac:(rewrite <- app_assoc; exact Hs)) as [IH1 IH2].
    rewrite <- app_assoc in IH2. split; [split; [|exact IH1]|exact IH2].
    cbn [fresh_item fst nsacc xs_actions]. rewrite (has_key_mapv_last _ _ _ _ _ _ Hs1). reflexivity.
Qed.

Record wf_ns_tp (n : x_ns) : Prop := {
  wt_annots : annots_ok (xs_annots n) = true;
  wt_es : keys_sorted (xs_entities n) = true;
  wt_es_wf : forallb (fun kv : str * x_entity => is_valid_ident (fst kv) && wf_entity_t (snd kv)) (xs_entities n) = true;
  wt_ens : keys_sorted (xs_enums n) = true;
  wt_ens_wf : forallb (fun kv : str * x_enum => is_valid_ident (fst kv) && wf_enum_t (snd kv)) (xs_enums n) = true;
  wt_disj : disjoint_keys (xs_entities n) (xs_enums n) = true;
  wt_cs : keys_sorted (xs_commons n) = true;
  wt_cs_wf : forallb (fun kv : str * x_common => is_valid_ident (fst kv) && negb (is_reserved_type_name (fst kv)) && wf_common_t (snd kv)) (xs_commons n) = true;
  wt_as : keys_sorted (xs_actions n) = true;
  wt_as_wf : forallb (fun kv : str * x_action => name_ok (fst kv) && wf_action_t (snd kv)) (xs_actions n) = true }.

Lemma wf_ns_t_iff : forall n, wf_ns_t n = true <-> wf_ns_tp n.
Proof.
  intros n. unfold wf_ns_t. rewrite !andb_true_iff. split.
  - intros H. constructor; tauto.
  - intros [H1 H2 H3 H4 H5 H6 H7 H8 H9 H10]. tauto.
Qed.

Lemma items_fold : forall n, wf_ns_t n = true ->
  fresh_chain (items_of n) empty_ns /\ add_items (items_of n) empty_ns = set_annots (norm_ns_t sh n) [].
Proof.
  intros n Hwf. apply wf_ns_t_iff in Hwf. destruct Hwf as [Han Hes Hesw Hens Hensw Hdj Hcs Hcsw Has Hasw].
  unfold items_of. change empty_ns with (nsacc (mapv (norm_common_t sh) []) (mapv (norm_entity_t sh) []) [] (mapv (norm_action_t sh) [])).
  destruct (phase_commons (xs_commons n) [] (mapv (norm_entity_t sh) []) [] (mapv (norm_action_t sh) []) Hcs) as [F1 E1].
  destruct (phase_entities (xs_entities n) [] (mapv (norm_common_t sh) ([] ++ xs_commons n)) [] (mapv (norm_action_t sh) []) Hes ltac:(reflexivity)) as [F2 E2].
  destruct (phase_enums (xs_enums n) [] (mapv (norm_common_t sh) ([] ++ xs_commons n)) (mapv (norm_entity_t sh) ([] ++ xs_entities n)) (mapv (norm_action_t sh) []) Hens) as [F3 E3].
  { intros kv Hkv. rewrite has_key_mem, sj_mapv_keys. cbn [app]. unfold disjoint_keys in Hdj. rewrite forallb_forall in Hdj.
    apply negb_true_iff. apply Hdj. exact Hkv. }
  destruct (phase_actions (xs_actions n) [] (mapv (norm_common_t sh) ([] ++ xs_commons n)) (mapv (norm_entity_t sh) ([] ++ xs_entities n)) ([] ++ xs_enums n) Has) as [F4 E4].
  split.
  - apply fresh_chain_app. split; [exact F1|]. rewrite E1. apply fresh_chain_app. split; [exact F2|]. rewrite E2.
    apply fresh_chain_app. split; [exact F3|]. rewrite E3. exact F4.
  - rewrite !add_items_app, E1, E2, E3, E4. reflexivity.
Qed.

Lemma decl_blocks_items : forall ind n, wf_ns_t n = true -> decl_blocks sh ind n = map (print_item ind) (items_of n).
Proof.
  intros ind n Hwf. apply wf_ns_t_iff in Hwf. destruct Hwf as [Han Hes Hesw Hens Hensw Hdj Hcs Hcsw Has Hasw].
  unfold decl_blocks, items_of. rewrite !sj_rec_id by assumption. rewrite !map_app, !map_map. reflexivity.
Qed.

(* ------------------------------------------------------------------------------------------ *)
(* Namespaces                                                                                  *)
(* ------------------------------------------------------------------------------------------ *)
Lemma namespace_text : forall name n rest, wf_ns_t n = true ->
  print_namespace sh (name, n) ++ rest
  = pa 0 (xs_annots n) ++ tabs 0 ++ s_of "namespace" ++ 32 :: name ++ 32 :: 123 :: 10
    :: join_blocks true (map (print_item 1) (items_of n)) ++ 125 :: 10 :: rest.
Proof.
  intros name n rest Hwf. unfold print_namespace. cbn [fst snd]. rewrite (decl_blocks_items 1 n Hwf).
  apply wf_ns_t_iff in Hwf. destruct Hwf as [Han _ _ _ _ _ _ _ _ _]. destruct (annots_ok_inv _ Han) as [Hans _].
  rewrite (print_annotations_sorted _ _ Hans).
  change (s_of "namespace ") with (s_of "namespace" ++ [32]). change (s_of " {") with [32; 123]. tnorm. reflexivity.
Qed.

Lemma namespace_lemma : forall name n fuel rest st', ns_path name = true -> wf_ns_t n = true -> rd rest = SOk st' ->
  (2 * length (print_namespace sh (name, n) ++ rest) + 8 <= fuel)%nat ->
  exists st st1 st2, rd (print_namespace sh (name, n) ++ rest) = SOk st /\ In (tk st) [KAt; KIdent]
    /\ parse_annotations fuel [] st = SOk (xs_annots n, st1) /\ is st1 KIdent && kw st1 "namespace" = true
    /\ read_token st1 = SOk st2 /\ parse_namespace fuel (xs_annots n) st2 = SOk (name, norm_ns_t sh n, st').
Proof.
  intros name n fuel rest st' Hname Hwf Hrd Hf. rewrite (namespace_text name n rest Hwf) in Hf |- *.
  destruct (items_fold n Hwf) as [Hfresh Hfold].
  assert (Hitems : forallb wf_item (items_of n) = true).
  { apply wf_ns_t_iff in Hwf. destruct Hwf as [Han Hes Hesw Hens Hensw Hdj Hcs Hcsw Has Hasw].
    unfold items_of. rewrite !forallb_app. rewrite !forallb_forall in *.
    repeat (apply andb_true_iff; split); apply forallb_forall; intros it Hit; apply in_map_iff in Hit; destruct Hit as (kv & <- & Hkv); cbn [wf_item]; auto. }
  assert (Han : annots_ok (xs_annots n) = true) by (apply wf_ns_t_iff in Hwf; destruct Hwf; assumption).
  destruct (namespace_loop_lemma (items_of n) true empty_ns fuel rest st' Hitems Hfresh Hrd ltac:(flen)) as (st_l & Hrd_l & Hp_l).
  destruct (path_lemma name fuel (32 :: 123 :: 10 :: join_blocks true (map (print_item 1) (items_of n)) ++ 125 :: 10 :: rest)
              (MkSt (mk_tok KLBrace [123]) (10 :: join_blocks true (map (print_item 1) (items_of n)) ++ 125 :: 10 :: rest))
              (ns_path_ent_path _ Hname) eq_refl ltac:(rewrite rd_sp; apply rd_lbrace) eq_refl ltac:(flen)) as (st_p & Hrd_p & Hp_p & _).
  match goal with |- context [rd (pa 0 ?an ++ tabs 0 ++ s_of ?kwd ++ 32 :: ?body)] =>
    destruct (decl_wrap an 0 kwd body fuel Han eq_refl eq_refl ltac:(flen)) as (st & Hrds & Hk & Hp) end.
  exists st. eexists. exists st_p. split; [exact Hrds|]. split; [exact Hk|]. split; [exact Hp|]. split; [reflexivity|].
  split; [rewrite read_token_mk, rd_sp; exact Hrd_p|].
  unfold parse_namespace. rewrite Hp_p. cbn [sbind]. rewrite (ns_path_no_cedar _ Hname). sst.
  rewrite rd_nl, Hrd_l. sst. rewrite Hp_l. cbn [sbind]. rewrite Hfold. reflexivity.
Qed.

Lemma print_namespace_len : forall kv, (1 <= length (print_namespace sh kv))%nat.
Proof. intros kv. unfold print_namespace. repeat rewrite app_length. cbn [length]. lia. Qed.

(* ------------------------------------------------------------------------------------------ *)
(* The schema loop                                                                             *)
(* ------------------------------------------------------------------------------------------ *)
Inductive sitem := SD (it : ditem) | SN (kv : str * x_ns).
Definition print_sitem (x : sitem) : str := match x with SD it => print_item 0 it | SN kv => print_namespace sh kv end.
Definition swf (x : sitem) : bool := match x with SD it => wf_item it | SN kv => ns_path (fst kv) && wf_ns_t (snd kv) end.
Definition sstep (x : sitem) (p : x_ns * x_schema) : x_ns * x_schema :=
  match x with
  | SD it => (add_item it (fst p), snd p)
  | SN kv => (fst p, rec_insert (fst kv) (norm_ns_t sh (snd kv)) (snd p))
  end.
Definition sfresh1 (x : sitem) (p : x_ns * x_schema) : bool :=
  match x with SD it => fresh_item it (fst p) | SN kv => negb (has_key (fst kv) (snd p)) end.
Fixpoint sfresh (l : list sitem) (p : x_ns * x_schema) : Prop :=
  match l with [] => True | x :: r => sfresh1 x p = true /\ sfresh r (sstep x p) end.
Definition ssteps (l : list sitem) (p : x_ns * x_schema) : x_ns * x_schema := fold_left (fun p x => sstep x p) l p.
Definition sresult (p : x_ns * x_schema) : x_schema := (if has_decls (fst p) then [([], fst p)] else []) ++ snd p.

Lemma print_sitem_len : forall x, (1 <= length (print_sitem x))%nat.
Proof. intros [it|kv]; [apply print_item_len|apply print_namespace_len]. Qed.

Lemma schema_loop_lemma : forall l first bare nss fuel, forallb swf l = true -> sfresh l (bare, nss) ->
  (2 * length (join_blocks first (map print_sitem l)) + 16 <= fuel)%nat ->
  exists st, rd (join_blocks first (map print_sitem l)) = SOk st
             /\ schema_loop fuel bare nss st = SOk (sresult (ssteps l (bare, nss))).
Proof.
  induction l as [|x l IH]; intros first bare nss fuel Hwf Hfr Hf.
  - cbn [map join_blocks] in *. eexists. split; [apply rd_nil|].
    destruct fuel as [|f]; [exfalso; flen|]. cbn [schema_loop]. sst. reflexivity.
  - cbn [map forallb] in *. apply andb_true_iff in Hwf. destruct Hwf as [Hx Hwf]. destruct Hfr as [Hfx Hfr].
    rewrite join_blocks_cons in Hf |- *. rewrite rd_first.
    destruct fuel as [|f]; [exfalso; flen|].
    pose proof (print_sitem_len x) as Hlen.
    destruct (IH false (fst (sstep x (bare, nss))) (snd (sstep x (bare, nss))) f Hwf
                ltac:(rewrite <- surjective_pairing; exact Hfr) ltac:(destruct first; flen)) as (st2 & Hrd2 & Hp2).
    rewrite <- surjective_pairing in Hp2.
    destruct x as [it|[name n]]; cbn [print_sitem swf sfresh1 sstep fst snd] in *.
    + destruct (item_lemma it 0 bare f _ st2 Hx Hfx Hrd2 ltac:(destruct first; flen)) as (st & st1 & an & Hrds & Hk & Hpa & Hi1 & Hkw1 & Hpd).
      exists st. split; [exact Hrds|]. cbn [schema_loop]. rewrite (is_no st KEOF _ Hk) by reflexivity.
      rewrite Hpa. cbn [sbind]. rewrite Hi1, Hkw1. cbn [andb]. rewrite Hpd. cbn [sbind]. exact Hp2.
    + apply andb_true_iff in Hx. destruct Hx as [Hname Hn]. apply negb_true_iff in Hfx.
      destruct (namespace_lemma name n f _ st2 Hname Hn Hrd2 ltac:(destruct first; flen))
        as (st & st1 & st_p & Hrds & Hk & Hpa & Hi1 & Hrt & Hpn).
      exists st. split; [exact Hrds|]. cbn [schema_loop]. rewrite (is_no st KEOF _ Hk) by reflexivity.
      rewrite Hpa. cbn [sbind]. rewrite Hi1, Hrt. cbn [sbind]. rewrite Hpn. cbn [sbind]. rewrite Hfx. exact Hp2.
Qed.

(* ------------------------------------------------------------------------------------------ *)
(* The whole schema                                                                            *)
(* ------------------------------------------------------------------------------------------ *)
Definition named_kv (kv : str * x_ns) : bool := negb (is_nil (fst kv)).
Definition sitems_of (s : x_schema) : list sitem :=
  (match rec_get [] s with Some n => map SD (items_of n) | None => [] end) ++ map SN (filter named_kv s).

Lemma sfresh_app : forall a b p, sfresh (a ++ b) p <-> sfresh a p /\ sfresh b (ssteps a p).
Proof.
  induction a as [|x a IH]; intros b p; cbn [app sfresh ssteps fold_left]; [tauto|].
  fold (ssteps a (sstep x p)). rewrite IH. tauto.
Qed.
Lemma ssteps_app : forall a b p, ssteps (a ++ b) p = ssteps b (ssteps a p).
Proof. intros a b p. unfold ssteps. apply fold_left_app. Qed.

Lemma ssteps_SD : forall its b m, ssteps (map SD its) (b, m) = (add_items its b, m) /\ (fresh_chain its b -> sfresh (map SD its) (b, m)).
Proof.
  induction its as [|it its IH]; intros b m; [split; [reflexivity|intros _; exact I]|].
  cbn [map ssteps fold_left sstep fst snd sfresh sfresh1 fresh_chain add_items]. fold (ssteps (map SD its)). fold (add_items its).
  destruct (IH (add_item it b) m) as [E F]. split; [exact E|]. intros [H1 H2]. split; [exact H1|exact (F H2)].
Qed.

Lemma ssteps_SN : forall l pre b, keys_sorted (pre ++ l) = true ->
  ssteps (map SN l) (b, mapv (norm_ns_t sh) pre) = (b, mapv (norm_ns_t sh) (pre ++ l)) /\ sfresh (map SN l) (b, mapv (norm_ns_t sh) pre).
Proof.
  induction l as [|[k v] l IH]; intros pre b Hs.
  - rewrite app_nil_r. split; [reflexivity|exact I].
  - pose proof (sorted_snoc _ _ _ _ Hs) as Hs1.
    cbn [map ssteps fold_left sstep fst snd sfresh sfresh1]. fold (ssteps (map SN l)).
    rewrite insert_mapv_last by exact Hs1. rewrite (has_key_mapv_last _ _ _ _ _ _ Hs1).
    destruct (IH (pre ++ [(k, v)]) b ltac:(rewrite <- app_assoc; exact Hs)) as [E F]. rewrite <- app_assoc in E.
    split; [exact E|]. split; [reflexivity|exact F].
Qed.

Lemma str_ltb_nil_r : forall k, str_ltb k [] = false.
Proof. intros [|c k]; reflexivity. Qed.

Lemma sorted_tail_nonnil : forall (A : Type) k (v : A) l, keys_sorted ((k, v) :: l) = true -> Forall (fun kv => fst kv <> []) l.
Proof.
  intros A k v l Hs. pose proof (vj_sorted_all_lt _ _ _ Hs) as HF. eapply Forall_impl; [|exact HF].
  intros [k' v'] Hlt E. cbn [fst] in *. subst k'. rewrite str_ltb_nil_r in Hlt. discriminate.
Qed.

Lemma filter_named_all : forall l : x_schema, Forall (fun kv => fst kv <> []) l -> filter named_kv l = l.
Proof.
  intros l H. induction H as [|[k v] l Hk Hl IH]; [reflexivity|]. cbn [filter named_kv fst] in *.
  destruct k; [contradiction|]. cbn [is_nil negb]. rewrite IH. reflexivity.
Qed.
Lemma filter_keep_all : forall l : x_schema, Forall (fun kv => fst kv <> []) l -> filter ns_keep l = l.
Proof.
  intros l H. induction H as [|[k v] l Hk Hl IH]; [reflexivity|]. cbn [filter]. unfold ns_keep at 1. cbn [fst] in *.
  destruct k; [contradiction|]. cbn [is_nil negb orb]. rewrite IH. reflexivity.
Qed.
Lemma rec_get_nil_none : forall l : x_schema, Forall (fun kv => fst kv <> []) l -> rec_get [] l = None.
Proof.
  intros l H. induction H as [|[k v] l Hk Hl IH]; [reflexivity|]. cbn [rec_get fst] in *. destruct k; [contradiction|]. exact IH.
Qed.

Lemma wf_text_in : forall s kv, wf_text s = true -> In kv s ->
  wf_ns_t (snd kv) = true /\ (fst kv = [] -> xs_annots (snd kv) = []) /\ (fst kv <> [] -> ns_path (fst kv) = true).
Proof.
  intros s kv H Hin. unfold wf_text in H. apply andb_true_iff in H. destruct H as [_ H]. rewrite forallb_forall in H.
  specialize (H kv Hin). apply andb_true_iff in H. destruct H as [H1 H2]. split; [exact H1|].
  destruct (fst kv) as [|c k]; split; intros E; try congruence.
  destruct (xs_annots (snd kv)); [reflexivity|discriminate].
Qed.

Lemma has_decls_norm_t : forall n, has_decls (norm_ns_t sh n) = has_decls n.
Proof. intros n. unfold has_decls, norm_ns_t. cbn [xs_entities xs_enums xs_actions xs_commons]. rewrite !is_nil_mapv. reflexivity. Qed.

Lemma swf_sitems : forall s, wf_text s = true -> forallb swf (sitems_of s) = true.
Proof.
  intros s Hwf. unfold sitems_of. rewrite forallb_app. apply andb_true_iff. split.
  - destruct (rec_get [] s) as [n|] eqn:E; [|reflexivity].
    assert (Hin : In ([], n) s).
    { clear -E. induction s as [|[k v] s IH]; [discriminate|]. cbn [rec_get] in E. destruct (str_eqb [] k) eqn:Ek.
      - apply str_eqb_eq in Ek. inversion E; subst. left. reflexivity.
      - right. exact (IH E). }
    destruct (wf_text_in s _ Hwf Hin) as [Hn _]. cbn [snd] in Hn.
    apply wf_ns_t_iff in Hn. destruct Hn as [Han Hes Hesw Hens Hensw Hdj Hcs Hcsw Has Hasw].
    unfold items_of. rewrite !map_app, !forallb_app. rewrite !forallb_forall in *.
    repeat (apply andb_true_iff; split); apply forallb_forall; intros x Hx; apply in_map_iff in Hx; destruct Hx as (it & <- & Hit);
      apply in_map_iff in Hit; destruct Hit as (kv & <- & Hkv); cbn [swf wf_item]; auto.
  - apply forallb_forall. intros x Hx. apply in_map_iff in Hx. destruct Hx as (kv & <- & Hkv). apply filter_In in Hkv. destruct Hkv as [Hkv Hnm].
    destruct (wf_text_in s kv Hwf Hkv) as (Hn & _ & Hp). cbn [swf]. rewrite Hn, Hp; [reflexivity|].
    unfold named_kv in Hnm. destruct (fst kv); [discriminate|discriminate].
Qed.

Lemma set_annots_nil_id : forall n, xs_annots n = [] -> set_annots (norm_ns_t sh n) [] = norm_ns_t sh n.
Proof. intros [an es ens cs acts] H. cbn in H. subst an. reflexivity. Qed.

Lemma sitems_result : forall s, wf_text s = true ->
  sfresh (sitems_of s) (empty_ns, []) /\ sresult (ssteps (sitems_of s) (empty_ns, [])) = mapv (norm_ns_t sh) (filter ns_keep s).
Proof.
  intros s Hwf. assert (Hs : keys_sorted s = true) by (unfold wf_text in Hwf; apply andb_true_iff in Hwf; tauto).
  unfold sitems_of.
  destruct s as [|[k n0] named].
  { split; [exact I|reflexivity]. }
  pose proof (sorted_tail_nonnil _ _ _ _ Hs) as Hnn.
  destruct k as [|c k].
  - cbn [rec_get filter named_kv fst is_nil negb]. change (str_eqb [] []) with true. cbv iota.
    rewrite (filter_named_all named Hnn).
    destruct (wf_text_in _ ([], n0) Hwf (or_introl eq_refl)) as (Hn & Han & _). cbn [fst snd] in *.
    destruct (items_fold n0 Hn) as [Hfresh Hfold].
    destruct (ssteps_SD (items_of n0) empty_ns []) as [E1 F1].
    destruct (ssteps_SN named [] (add_items (items_of n0) empty_ns) ltac:(apply keys_sorted_cons in Hs; tauto)) as [E2 F2].
    cbn [app] in E2. change (mapv (norm_ns_t sh) []) with (@nil (str * x_ns)) in E2, F2.
    assert (E : ssteps (map SD (items_of n0) ++ map SN named) (empty_ns, []) = (add_items (items_of n0) empty_ns, mapv (norm_ns_t sh) named)).
    { rewrite ssteps_app. etransitivity; [exact (f_equal (ssteps (map SN named)) E1)|exact E2]. }
    split.
    + apply sfresh_app. split; [exact (F1 Hfresh)|].
      assert (G : forall p, p = (add_items (items_of n0) empty_ns, @nil (str * x_ns)) -> sfresh (map SN named) p) by (intros p ->; exact F2).
      apply G. exact E1.
    + transitivity (sresult (add_items (items_of n0) empty_ns, mapv (norm_ns_t sh) named)); [exact (f_equal sresult E)|].
      unfold sresult. cbn [fst snd]. rewrite Hfold, (set_annots_nil_id n0 (Han eq_refl)), has_decls_norm_t.
      cbn [filter]. unfold ns_keep at 1. cbn [fst snd is_nil negb orb]. rewrite (filter_keep_all named Hnn).
      destruct (has_decls n0); reflexivity.
  - assert (Hall : Forall (fun kv : str * x_ns => fst kv <> []) ((c :: k, n0) :: named)) by (constructor; [discriminate|exact Hnn]).
    match goal with |- context [rec_get ?k0 ?l] =>
      let R := fresh "R" in assert (R : rec_get k0 l = None) by (apply rec_get_nil_none; exact Hall); rewrite R end.
    match goal with |- context [filter named_kv ?l] =>
      let R := fresh "R" in assert (R : filter named_kv l = l) by (apply filter_named_all; exact Hall); rewrite R end.
    match goal with |- context [filter ns_keep ?l] =>
      let R := fresh "R" in assert (R : filter ns_keep l = l) by (apply filter_keep_all; exact Hall); rewrite R end.
    cbn [app].
    destruct (ssteps_SN ((c :: k, n0) :: named) [] empty_ns Hs) as [E2 F2].
    change (mapv (norm_ns_t sh) []) with (@nil (str * x_ns)) in E2, F2. cbn [app] in E2.
    split; [exact F2|]. transitivity (sresult (empty_ns, mapv (norm_ns_t sh) ((c :: k, n0) :: named))); [exact (f_equal sresult E2)|]. reflexivity.
Qed.

End WithShadowed.

Lemma print_schema_items : forall s, wf_text s = true -> print_schema s = join_blocks true (map (print_sitem (shadowed_builtins s)) (sitems_of s)).
Proof.
  intros s Hwf. assert (Hs : keys_sorted s = true) by (unfold wf_text in Hwf; apply andb_true_iff in Hwf; tauto).
  unfold print_schema. cbv zeta. rewrite (sj_rec_id s Hs). unfold sitems_of. rewrite map_app, !map_map. cbn [print_sitem].
  fold named_kv. f_equal. f_equal.
  destruct (rec_get [] s) as [n|] eqn:E; [|reflexivity].
  assert (Hin : In ([], n) s).
  { clear -E. induction s as [|[k v] s IH]; [discriminate|]. cbn [rec_get] in E. destruct (str_eqb [] k) eqn:Ek.
    - apply str_eqb_eq in Ek. inversion E; subst. left. reflexivity.
    - right. exact (IH E). }
  destruct (wf_text_in s _ Hwf Hin) as [Hn _]. cbn [snd] in Hn. rewrite (decl_blocks_items (shadowed_builtins s) 0 n Hn), map_map. reflexivity.
Qed.

Theorem parse_print_schema : forall s, wf_text s = true -> parse_schema (print_schema s) = SOk (norm_text s).
Proof.
  intros s Hwf. unfold parse_schema. change (read_token {| p_tok := mk_tok KEOF []; p_src := print_schema s |}) with (rd (print_schema s)).
  rewrite (print_schema_items s Hwf). set (sh := shadowed_builtins s).
  assert (Hsh : forall n, sh n = true -> is_builtin_name n = true) by (intros n; apply shadowed_builtin).
  destruct (sitems_result sh s Hwf) as [Hfresh Hres].
  destruct (schema_loop_lemma sh Hsh (sitems_of s) true empty_ns [] (parse_schema_fuel (length (join_blocks true (map (print_sitem sh) (sitems_of s)))))
              (swf_sitems s Hwf) Hfresh ltac:(unfold parse_schema_fuel; lia)) as (st & Hrd & Hp).
  rewrite Hrd. cbn [sbind]. rewrite Hp. f_equal. exact Hres.
Qed.

(* ------------------------------------------------------------------------------------------ *)
(* Normalisation is idempotent and preserves wf_text                                           *)
(* ------------------------------------------------------------------------------------------ *)
(* a normalised type only holds references: normalising it again, with whatever set of shadowed names, changes nothing *)
Lemma norm_ty_idem : forall sh sh' t, norm_ty sh' (norm_ty sh t) = norm_ty sh t.
Proof.
  intros sh sh'. induction t as [| | |n|e IHe|fs IHfs|r|r] using xty_ind'; try reflexivity.
  - cbn [norm_ty]. rewrite IHe. reflexivity.
  - rewrite !norm_ty_rec. f_equal. rewrite sj_mapv_mapv. apply sj_mapv_ext_in. intros [key [[ty opt] an]] Hin.
    rewrite Forall_forall in IHfs. specialize (IHfs _ Hin). cbn [fst snd] in *. unfold norm_attr. cbn [fst snd]. rewrite IHfs. reflexivity.
Qed.

Lemma norm_entity_t_idem : forall sh sh' e, norm_entity_t sh' (norm_entity_t sh e) = norm_entity_t sh e.
Proof.
  intros sh sh' [an ps shp tg]. unfold norm_entity_t. cbn [xe_annots xe_parents xe_shape xe_tags]. f_equal.
  - destruct shp as [fs|]; [|reflexivity]. cbn [option_map]. f_equal.
    pose proof (norm_ty_idem sh sh' (XRec fs)) as H. rewrite !norm_ty_rec in H. injection H as H1. exact H1.
  - destruct tg as [t|]; [|reflexivity]. cbn [option_map]. rewrite norm_ty_idem. reflexivity.
Qed.
Lemma norm_common_t_idem : forall sh sh' c, norm_common_t sh' (norm_common_t sh c) = norm_common_t sh c.
Proof. intros sh sh' [an t]. unfold norm_common_t. cbn [xc_annots xc_type]. rewrite norm_ty_idem. reflexivity. Qed.
Lemma norm_applies_t_idem : forall sh sh' a, norm_applies_t sh' (norm_applies_t sh a) = norm_applies_t sh a.
Proof.
  intros sh sh' [ps rs c]. unfold norm_applies_t. cbn [xa_principals xa_resources xa_context]. destruct c as [t|]; [|reflexivity].
  cbn [option_map]. rewrite norm_ty_idem. reflexivity.
Qed.
Lemma norm_action_t_idem : forall sh sh' a, norm_action_t sh' (norm_action_t sh a) = norm_action_t sh a.
Proof.
  intros sh sh' [an ps ap]. unfold norm_action_t. cbn [xac_annots xac_parents xac_applies]. destruct ap as [a|]; [|reflexivity].
  cbn [option_map]. rewrite norm_applies_t_idem. reflexivity.
Qed.

Lemma norm_ns_t_idem : forall sh sh' n, norm_ns_t sh' (norm_ns_t sh n) = norm_ns_t sh n.
Proof.
  intros sh sh' n. unfold norm_ns_t. cbn [xs_annots xs_entities xs_enums xs_commons xs_actions]. rewrite !sj_mapv_mapv. f_equal.
  - apply sj_mapv_ext_in. intros kv _. apply norm_entity_t_idem.
  - apply sj_mapv_ext_in. intros kv _. apply norm_common_t_idem.
  - apply sj_mapv_ext_in. intros kv _. apply norm_action_t_idem.
Qed.

Lemma filter_keep_norm_t : forall sh l, filter ns_keep (mapv (norm_ns_t sh) l) = mapv (norm_ns_t sh) (filter ns_keep l).
Proof.
  intros sh. induction l as [|[name n] l IH]; [reflexivity|]. rewrite sj_mapv_cons. cbn [filter fst snd]. rewrite IH.
  unfold ns_keep. cbn [fst snd]. rewrite has_decls_norm_t. destruct (negb (is_nil name) || has_decls n); reflexivity.
Qed.

Theorem norm_text_idem : forall s, norm_text (norm_text s) = norm_text s.
Proof.
  intros s. unfold norm_text at 1. generalize (shadowed_builtins (norm_text s)). intros sh'. unfold norm_text.
  rewrite filter_keep_norm_t, filter_idem, sj_mapv_mapv.
  apply sj_mapv_ext_in. intros kv _. apply norm_ns_t_idem.
Qed.

Lemma forallb_mapv : forall (A B : Type) (g : A -> B) (p : str * B -> bool) (q : str * A -> bool) l,
  (forall kv, In kv l -> q kv = true -> p (fst kv, g (snd kv)) = true) -> forallb q l = true -> forallb p (mapv g l) = true.
Proof.
  intros A B g p q l H Hq. rewrite forallb_forall in *. intros kv Hkv. unfold mapv in Hkv. apply in_map_iff in Hkv.
  destruct Hkv as (x & <- & Hx). apply H; [exact Hx|apply Hq; exact Hx].
Qed.

Section NormWf.
Variable sh : str -> bool.
Hypothesis Hsh : forall n, sh n = true -> is_builtin_name n = true.

Lemma wf_tty_norm : forall t, wf_tty t = true -> wf_tty (norm_ty sh t) = true.
Proof.
  induction t as [| | |n|e IHe|fs IHfs|r|r] using xty_ind'; intros H; try exact H.
  - apply type_path_wb; [exact Hsh|reflexivity].
  - apply type_path_wb; [exact Hsh|reflexivity].
  - apply type_path_wb; [exact Hsh|reflexivity].
  - apply type_path_wb; [exact Hsh|exact H].
  - cbn [norm_ty wf_tty] in *. exact (IHe H).
  - rewrite norm_ty_rec, wf_tty_rec in *. apply andb_true_iff in H. destruct H as [Hs Hall]. apply andb_true_iff. split.
    + rewrite sj_sorted_mapv. exact Hs.
    + rewrite forallb_forall in *. intros kv Hkv. unfold mapv in Hkv. apply in_map_iff in Hkv. destruct Hkv as (x & <- & Hx).
      specialize (Hall x Hx). rewrite Forall_forall in IHfs. specialize (IHfs x Hx).
      unfold wf_tattr, norm_attr in *. cbn [fst snd]. apply andb_true_iff in Hall. destruct Hall as [Hall Han].
      apply andb_true_iff in Hall. destruct Hall as [Hk Ht]. rewrite Hk, Han, (IHfs Ht). reflexivity.
Qed.

Lemma opt_wf_tty_norm : forall o, opt_wf_tty o = true -> opt_wf_tty (option_map (norm_ty sh) o) = true.
Proof. intros [t|] H; [exact (wf_tty_norm t H)|reflexivity]. Qed.
Lemma opt_wf_rec_norm : forall o, opt_wf_tty (option_map XRec o) = true -> opt_wf_tty (option_map XRec (option_map (norm_rec sh) o)) = true.
Proof. intros [fs|] H; [|reflexivity]. cbn [option_map opt_wf_tty] in *. unfold norm_rec. rewrite <- norm_ty_rec. exact (wf_tty_norm _ H). Qed.

Lemma wf_entity_t_norm : forall e, wf_entity_t e = true -> wf_entity_t (norm_entity_t sh e) = true.
Proof.
  intros e H. unfold wf_entity_t in *. cbn [norm_entity_t xe_annots xe_parents xe_shape xe_tags].
  apply andb_true_iff in H. destruct H as [H Ht]. apply andb_true_iff in H. destruct H as [H Hs]. rewrite H.
  rewrite (opt_wf_rec_norm _ Hs), (opt_wf_tty_norm _ Ht). reflexivity.
Qed.
Lemma wf_common_t_norm : forall c, wf_common_t c = true -> wf_common_t (norm_common_t sh c) = true.
Proof.
  intros c H. unfold wf_common_t in *. cbn [norm_common_t xc_annots xc_type]. apply andb_true_iff in H. destruct H as [H Ht].
  rewrite H, (wf_tty_norm _ Ht). reflexivity.
Qed.
Lemma wf_action_t_norm : forall a, wf_action_t a = true -> wf_action_t (norm_action_t sh a) = true.
Proof.
  intros a H. unfold wf_action_t in *. cbn [norm_action_t xac_annots xac_parents xac_applies]. apply andb_true_iff in H. destruct H as [H Hap].
  rewrite H. destruct (xac_applies a) as [ap|]; [|reflexivity]. cbn [option_map andb].
  unfold wf_applies_t in *. cbn [norm_applies_t xa_principals xa_resources xa_context]. apply andb_true_iff in Hap. destruct Hap as [Hap Hc].
  rewrite Hap, (opt_wf_tty_norm _ Hc). reflexivity.
Qed.

Lemma wf_ns_t_norm : forall n, wf_ns_t n = true -> wf_ns_t (norm_ns_t sh n) = true.
Proof.
  intros n Hwf. apply wf_ns_t_iff in Hwf. destruct Hwf as [Han Hes Hesw Hens Hensw Hdj Hcs Hcsw Has Hasw].
  apply wf_ns_t_iff. constructor; cbn [norm_ns_t xs_annots xs_entities xs_enums xs_commons xs_actions]; auto.
  - rewrite sj_sorted_mapv. exact Hes.
  - refine (forallb_mapv _ _ _ _ _ _ _ Hesw). intros kv _ H. cbn [fst snd]. apply andb_true_iff in H. destruct H as [H1 H2].
    rewrite H1, (wf_entity_t_norm _ H2). reflexivity.
  - unfold disjoint_keys in *. rewrite sj_mapv_keys. exact Hdj.
  - rewrite sj_sorted_mapv. exact Hcs.
  - refine (forallb_mapv _ _ _ _ _ _ _ Hcsw). intros kv _ H. cbn [fst snd]. apply andb_true_iff in H. destruct H as [H1 H2].
    rewrite H1, (wf_common_t_norm _ H2). reflexivity.
  - rewrite sj_sorted_mapv. exact Has.
  - refine (forallb_mapv _ _ _ _ _ _ _ Hasw). intros kv _ H. cbn [fst snd]. apply andb_true_iff in H. destruct H as [H1 H2].
    rewrite H1, (wf_action_t_norm _ H2). reflexivity.
Qed.
End NormWf.

Theorem wf_norm_text : forall s, wf_text s = true -> wf_text (norm_text s) = true.
Proof.
  intros s Hwf. assert (Hs : keys_sorted s = true) by (unfold wf_text in Hwf; apply andb_true_iff in Hwf; tauto).
  unfold wf_text. apply andb_true_iff. split.
  - unfold norm_text. rewrite sj_sorted_mapv. apply sj_sorted_filter. exact Hs.
  - apply forallb_forall. intros kv Hkv. unfold norm_text, mapv in Hkv. apply in_map_iff in Hkv. destruct Hkv as (x & <- & Hx).
    apply filter_In in Hx. destruct Hx as [Hx _]. unfold wf_text in Hwf. apply andb_true_iff in Hwf. destruct Hwf as [_ Hall].
    rewrite forallb_forall in Hall. specialize (Hall x Hx). apply andb_true_iff in Hall. destruct Hall as [H1 H2]. cbn [fst snd].
    rewrite (wf_ns_t_norm _ (shadowed_builtin s) _ H1). exact H2.
Qed.

Theorem norm_text_idempotent : forall s, wf_text s = true -> norm_text (norm_text s) = norm_text s /\ wf_text (norm_text s) = true.
Proof. intros s Hwf. split; [apply norm_text_idem|apply wf_norm_text; exact Hwf]. Qed.

(* ------------------------------------------------------------------------------------------ *)
(* A second rendering is byte-identical                                                        *)
(* ------------------------------------------------------------------------------------------ *)
(* a normalised type is printed verbatim, whatever the set of shadowed names of the second rendering is *)
Section SecondRendering.
Variables sh sh' : str -> bool.
Hypothesis Hsh : forall n, sh n = true -> is_builtin_name n = true.

Lemma pf_norm : forall ind fs,
  Forall (fun kv : str * xattr => wf_tty (fst (fst (snd kv))) = true ->
                                  forall i, print_type sh' (norm_ty sh (fst (fst (snd kv)))) i = print_type sh (fst (fst (snd kv))) i) fs ->
  forallb wf_tattr fs = true -> pf sh' ind (mapv (norm_attr sh) fs) = pf sh ind fs.
Proof.
  intros ind fs HF. induction HF as [|[key [[ty opt] an]] fs Hx HF IH]; intros Hwf; [reflexivity|].
  cbn [forallb] in Hwf. apply andb_true_iff in Hwf. destruct Hwf as [Hw Hwf].
  unfold wf_tattr in Hw. cbn [fst snd] in *. apply andb_true_iff in Hw. destruct Hw as [Hw _]. apply andb_true_iff in Hw. destruct Hw as [_ Hty].
  rewrite sj_mapv_cons. cbn [pf fst snd norm_attr]. rewrite (IH Hwf), (Hx Hty). destruct fs; reflexivity.
Qed.

Lemma print_type_norm : forall t, wf_tty t = true -> forall ind, print_type sh' (norm_ty sh t) ind = print_type sh t ind.
Proof.
  induction t as [| | |n|e IHe|fs IHfs|r|r] using xty_ind'; intros Hwf ind; try reflexivity.
  - cbn [norm_ty print_type wf_tty] in *. rewrite (IHe Hwf). reflexivity.
  - pose proof (wf_tty_norm sh Hsh _ Hwf) as Hwf'. rewrite norm_ty_rec in *.
    rewrite (print_type_rec_eq sh' _ ind Hwf'), (print_type_rec_eq sh _ ind Hwf).
    rewrite wf_tty_rec in Hwf. apply andb_true_iff in Hwf. destruct Hwf as [_ Hall].
    rewrite (pf_norm (S ind) fs IHfs Hall). destruct fs; reflexivity.
Qed.

Lemma print_entity_norm : forall ind k e, wf_entity_t e = true -> print_entity sh' ind (k, norm_entity_t sh e) = print_entity sh ind (k, e).
Proof.
  intros ind k e H. unfold wf_entity_t in H. apply andb_true_iff in H. destruct H as [H Ht]. apply andb_true_iff in H. destruct H as [_ Hs].
  unfold print_entity. cbv zeta. cbn [fst snd norm_entity_t xe_annots xe_parents xe_shape xe_tags].
  destruct (xe_shape e) as [fs|]; destruct (xe_tags e) as [t|]; cbn [option_map opt_wf_tty] in *;
    unfold norm_rec; rewrite <- ?norm_ty_rec, ?(print_type_norm _ Hs), ?(print_type_norm _ Ht); reflexivity.
Qed.
Lemma print_common_norm : forall ind k c, wf_common_t c = true -> print_common sh' ind (k, norm_common_t sh c) = print_common sh ind (k, c).
Proof.
  intros ind k c H. unfold wf_common_t in H. apply andb_true_iff in H. destruct H as [_ Ht].
  unfold print_common. cbn [fst snd norm_common_t xc_annots xc_type]. rewrite (print_type_norm _ Ht). reflexivity.
Qed.
Lemma print_action_norm : forall ind k a, wf_action_t a = true -> print_action sh' ind (k, norm_action_t sh a) = print_action sh ind (k, a).
Proof.
  intros ind k a H. unfold wf_action_t in H. apply andb_true_iff in H. destruct H as [_ Hap].
  unfold print_action. cbv zeta. cbn [fst snd norm_action_t xac_annots xac_parents xac_applies].
  destruct (xac_applies a) as [ap|]; [|reflexivity]. cbn [option_map]. f_equal. f_equal. f_equal.
  unfold wf_applies_t in Hap. apply andb_true_iff in Hap. destruct Hap as [_ Hc].
  unfold print_applies. cbn [norm_applies_t xa_principals xa_resources xa_context].
  destruct (xa_context ap) as [t|]; [|reflexivity]. cbn [option_map opt_wf_tty] in *. rewrite (print_type_norm _ Hc). reflexivity.
Qed.

Lemma map_mapv_ext : forall (A : Type) (g : A -> A) (h h' : str * A -> str) l,
  (forall kv, In kv l -> h' (fst kv, g (snd kv)) = h kv) -> map h' (mapv g l) = map h l.
Proof. intros A g h h' l H. unfold mapv. rewrite map_map. apply map_ext_in. intros kv Hkv. apply H. exact Hkv. Qed.

Lemma decl_blocks_norm : forall ind n, wf_ns_t n = true -> decl_blocks sh' ind (norm_ns_t sh n) = decl_blocks sh ind n.
Proof.
  intros ind n Hwf. pose proof (wf_ns_t_norm sh Hsh _ Hwf) as Hwf'.
  apply wf_ns_t_iff in Hwf. destruct Hwf as [Han Hes Hesw Hens Hensw Hdj Hcs Hcsw Has Hasw].
  apply wf_ns_t_iff in Hwf'. destruct Hwf' as [Han' Hes' _ Hens' _ _ Hcs' _ Has' _].
  unfold decl_blocks. rewrite !sj_rec_id by assumption. cbn [norm_ns_t xs_entities xs_enums xs_commons xs_actions].
  rewrite forallb_forall in Hesw, Hcsw, Hasw. f_equal; [|f_equal; [|f_equal]].
  - apply map_mapv_ext. intros [k c] Hkv. specialize (Hcsw _ Hkv). cbn [fst snd] in *. apply andb_true_iff in Hcsw. destruct Hcsw as [_ Hc].
    apply print_common_norm. exact Hc.
  - apply map_mapv_ext. intros [k e] Hkv. specialize (Hesw _ Hkv). cbn [fst snd] in *. apply andb_true_iff in Hesw. destruct Hesw as [_ He].
    apply print_entity_norm. exact He.
  - apply map_mapv_ext. intros [k a] Hkv. specialize (Hasw _ Hkv). cbn [fst snd] in *. apply andb_true_iff in Hasw. destruct Hasw as [_ Ha].
    apply print_action_norm. exact Ha.
Qed.

Lemma print_namespace_norm : forall k n, wf_ns_t n = true -> print_namespace sh' (k, norm_ns_t sh n) = print_namespace sh (k, n).
Proof. intros k n Hwf. unfold print_namespace. cbn [fst snd]. rewrite (decl_blocks_norm 1 n Hwf). reflexivity. Qed.

Lemma rec_get_mapv_nonnil : forall (l : x_schema), Forall (fun kv => fst kv <> []) l -> rec_get [] (mapv (norm_ns_t sh) l) = None.
Proof.
  intros l H. induction H as [|[k v] l Hk Hl IH]; [reflexivity|]. rewrite sj_mapv_cons. cbn [rec_get fst snd] in *.
  destruct k; [contradiction|]. exact IH.
Qed.
Lemma filter_named_mapv : forall (l : x_schema), Forall (fun kv => fst kv <> []) l -> filter named_kv (mapv (norm_ns_t sh) l) = mapv (norm_ns_t sh) l.
Proof.
  intros l H. induction H as [|[k v] l Hk Hl IH]; [reflexivity|]. rewrite sj_mapv_cons. cbn [filter named_kv fst snd] in *.
  destruct k; [contradiction|]. cbn [is_nil negb]. rewrite IH. reflexivity.
Qed.

Lemma map_print_namespace_norm : forall (l : x_schema), (forall kv, In kv l -> wf_ns_t (snd kv) = true) ->
  map (print_namespace sh') (mapv (norm_ns_t sh) l) = map (print_namespace sh) l.
Proof.
  intros l H. apply map_mapv_ext. intros [k n] Hkv. cbn [fst snd]. apply print_namespace_norm. apply (H _ Hkv).
Qed.
End SecondRendering.

Lemma decl_blocks_empty : forall sh ind n, has_decls n = false -> decl_blocks sh ind n = [].
Proof.
  intros sh ind n H. unfold has_decls in H. apply negb_false_iff in H. repeat (apply andb_true_iff in H; destruct H as [H ?]).
  unfold decl_blocks. destruct (xs_entities n); [|discriminate]. destruct (xs_enums n); [|discriminate].
  destruct (xs_actions n); [|discriminate]. destruct (xs_commons n); [|discriminate]. reflexivity.
Qed.

Corollary second_text_rendering : forall s, wf_text s = true -> print_schema (norm_text s) = print_schema s.
Proof.
  intros s Hwf. assert (Hs : keys_sorted s = true) by (unfold wf_text in Hwf; apply andb_true_iff in Hwf; tauto).
  pose proof (wf_norm_text s Hwf) as Hwf'.
  assert (Hs' : keys_sorted (norm_text s) = true) by (unfold wf_text in Hwf'; apply andb_true_iff in Hwf'; tauto).
  unfold print_schema. cbv zeta. rewrite (sj_rec_id _ Hs), (sj_rec_id _ Hs').
  change (fun kv : str * x_ns => negb (is_nil (fst kv))) with named_kv.
  generalize (shadowed_builtins (norm_text s)). intros sh'.
  assert (Hin : forall kv, In kv s -> wf_ns_t (snd kv) = true) by (intros kv Hkv; apply (wf_text_in s kv Hwf Hkv)).
  clear Hwf' Hs'. unfold norm_text.
  pose proof (shadowed_builtin s) as Hsh. set (sh := shadowed_builtins s) in *.
  destruct s as [|[k n0] named]; [reflexivity|].
  pose proof (sorted_tail_nonnil _ _ _ _ Hs) as Hnn.
  assert (Hin' : forall kv, In kv named -> wf_ns_t (snd kv) = true) by (intros kv Hkv; apply Hin; right; exact Hkv).
  destruct k as [|c k].
  - pose proof (Hin ([], n0) (or_introl eq_refl)) as Hn0. cbn [snd] in Hn0.
    match goal with |- context [filter ns_keep ?l] =>
      assert (K : filter ns_keep l = if has_decls n0 then l else named);
        [cbn [filter]; unfold ns_keep at 1; cbn [fst snd is_nil negb orb]; rewrite (filter_keep_all named Hnn); reflexivity|rewrite K; clear K]
    end.
    match goal with |- context [filter named_kv (?a :: named)] =>
      assert (R0 : filter named_kv (a :: named) = named);
        [cbn [filter]; unfold named_kv at 1; cbn [fst is_nil negb]; apply filter_named_all; exact Hnn|rewrite R0; clear R0]
    end.
    cbn [rec_get fst]. change (str_eqb [] []) with true. cbv iota.
    destruct (has_decls n0) eqn:Hd.
    + rewrite sj_mapv_cons. cbn [rec_get fst snd filter]. unfold named_kv at 1. cbn [fst is_nil negb]. change (str_eqb [] []) with true. cbv iota.
      rewrite (filter_named_mapv sh named Hnn), (decl_blocks_norm sh sh' Hsh 0 n0 Hn0), (map_print_namespace_norm sh sh' Hsh named Hin'). reflexivity.
    + rewrite (rec_get_mapv_nonnil sh named Hnn), (filter_named_mapv sh named Hnn), (decl_blocks_empty sh 0 n0 Hd), (map_print_namespace_norm sh sh' Hsh named Hin').
      reflexivity.
  - assert (Hall : Forall (fun kv : str * x_ns => fst kv <> []) ((c :: k, n0) :: named)) by (constructor; [discriminate|exact Hnn]).
    match goal with |- context [filter ns_keep ?l] =>
      let R := fresh "R" in assert (R : filter ns_keep l = l) by (apply filter_keep_all; exact Hall); rewrite R end.
    match goal with |- context [rec_get ?k0 (mapv (norm_ns_t sh) ?l)] =>
      let R := fresh "R" in assert (R : rec_get k0 (mapv (norm_ns_t sh) l) = None) by (apply rec_get_mapv_nonnil; exact Hall); rewrite R end.
    match goal with |- context [filter named_kv (mapv (norm_ns_t sh) ?l)] =>
      let R := fresh "R" in assert (R : filter named_kv (mapv (norm_ns_t sh) l) = mapv (norm_ns_t sh) l) by (apply filter_named_mapv; exact Hall); rewrite R end.
    match goal with |- context [rec_get ?k0 (?a :: named)] =>
      let R := fresh "R" in assert (R : rec_get k0 (a :: named) = None) by (apply rec_get_nil_none; exact Hall); rewrite R end.
    match goal with |- context [filter named_kv (?a :: named)] =>
      let R := fresh "R" in assert (R : filter named_kv (a :: named) = a :: named) by (apply filter_named_all; exact Hall); rewrite R end.
    rewrite (map_print_namespace_norm sh sh' Hsh _ Hin). reflexivity.
Qed.

(* ------------------------------------------------------------------------------------------ *)
(* Why each clause of wf_text is there: concrete schemas (vm_compute)                          *)
(* ------------------------------------------------------------------------------------------ *)
Definition t_ent0 : x_entity := {| xe_annots := []; xe_parents := []; xe_shape := None; xe_tags := None |}.
Definition t_ns0 : x_ns := {| xs_annots := []; xs_entities := [(s_of "A", t_ent0)]; xs_enums := []; xs_commons := []; xs_actions := [] |}.
Definition with_entity (name : str) (e : x_entity) (n : x_ns) : x_ns := set_entities n (rec_insert name e (xs_entities n)).
Definition act (ap : option x_applies) : x_action := {| xac_annots := []; xac_parents := []; xac_applies := ap |}.

(* finding F45: an appliesTo without principal (or resource) types prints as a text that the grammar rejects *)
Definition f45_schema : x_schema :=
  [([], set_actions t_ns0 [(s_of "view", act (Some {| xa_principals := []; xa_resources := [s_of "A"]; xa_context := None |}))])].
Example f45_rejected : parse_schema (print_schema f45_schema) = SErr /\ wf_text f45_schema = false.
Proof. split; vm_compute; reflexivity. Qed.

(* a type named `Set` cannot be referenced in a type position (parseType takes it for the set constructor) ... *)
Definition set_attr_schema : x_schema :=
  [([], with_entity (s_of "B") {| xe_annots := []; xe_parents := []; xe_shape := Some [(s_of "x", (XRef (s_of "Set"), false, []))]; xe_tags := None |}
                    (with_entity (s_of "Set") t_ent0 t_ns0))].
Example set_type_rejected : parse_schema (print_schema set_attr_schema) = SErr /\ wf_text set_attr_schema = false.
Proof. split; vm_compute; reflexivity. Qed.
(* ... but it can be declared and referenced as an entity type (memberOfTypes, principal / resource types): ent_path is weaker than type_path *)
Definition set_parent_schema : x_schema :=
  [([], with_entity (s_of "B") {| xe_annots := []; xe_parents := [s_of "Set"]; xe_shape := None; xe_tags := None |} (with_entity (s_of "Set") t_ent0 t_ns0))].
Example set_parent_ok : wf_text set_parent_schema = true /\ parse_schema (print_schema set_parent_schema) = SOk set_parent_schema.
Proof. split; vm_compute; reflexivity. Qed.

(* quoted strings must be valid UTF-8: quoteCedar writes an invalid byte as \u{fffd} *)
Definition bad_utf8_schema : x_schema :=
  [([], {| xs_annots := []; xs_entities := []; xs_enums := [(s_of "E", {| xn_annots := []; xn_values := [[255]] |})]; xs_commons := []; xs_actions := [] |})].
Example bad_utf8_changes : parse_schema (print_schema bad_utf8_schema)
  = SOk [([], {| xs_annots := []; xs_entities := []; xs_enums := [(s_of "E", {| xn_annots := []; xn_values := [[239; 191; 189]] |})];
                 xs_commons := []; xs_actions := [] |})]
  /\ wf_text bad_utf8_schema = false.
Proof. split; vm_compute; reflexivity. Qed.

(* a common type may not be named like a reserved type name (parseTypeDecl rejects `type Bool = ...`) *)
Definition reserved_common_schema : x_schema :=
  [([], set_commons t_ns0 [(s_of "Bool", {| xc_annots := []; xc_type := XLong |})])].
Example reserved_common_rejected : parse_schema (print_schema reserved_common_schema) = SErr /\ wf_text reserved_common_schema = false.
Proof. split; vm_compute; reflexivity. Qed.

(* declared entity names are written verbatim: they must be identifiers *)
Definition bad_name_schema : x_schema := [([], with_entity (s_of "a b") t_ent0 t_ns0)].
Example bad_name_rejected : parse_schema (print_schema bad_name_schema) = SErr /\ wf_text bad_name_schema = false.
Proof. split; vm_compute; reflexivity. Qed.

(* an entity type and an enumerated type of the same name: the second declaration is rejected *)
Definition clash_schema : x_schema := [([], set_enums t_ns0 [(s_of "A", {| xn_annots := []; xn_values := [s_of "v"] |})])].
Example clash_rejected : parse_schema (print_schema clash_schema) = SErr /\ wf_text clash_schema = false.
Proof. split; vm_compute; reflexivity. Qed.

(* the annotations of the bare declarations are not part of the AST: the printer drops them *)
Definition bare_annot_schema : x_schema := [([], set_annots t_ns0 [(s_of "doc", s_of "x")])].
Example bare_annot_dropped : parse_schema (print_schema bare_annot_schema) = SOk [([], t_ns0)] /\ wf_text bare_annot_schema = false.
Proof. split; vm_compute; reflexivity. Qed.

(* no component of a namespace name may be __cedar (while a type reference may start with it) *)
Definition cedar_ns_schema : x_schema := [(s_of "__cedar", t_ns0)].
Example cedar_ns_rejected : parse_schema (print_schema cedar_ns_schema) = SErr /\ wf_text cedar_ns_schema = false.
Proof. split; vm_compute; reflexivity. Qed.
Definition cedar_ref_schema : x_schema :=
  [([], with_entity (s_of "B") {| xe_annots := []; xe_parents := []; xe_shape := Some [(s_of "x", (XRef (s_of "__cedar::String"), false, []))]; xe_tags := None |} t_ns0)].
Example cedar_ref_ok : wf_text cedar_ref_schema = true /\ parse_schema (print_schema cedar_ref_schema) = SOk cedar_ref_schema.
Proof. split; vm_compute; reflexivity. Qed.

(* an annotation key may be a reserved word; a name that is one is written quoted *)
Definition reserved_words_schema : x_schema :=
  [([], set_actions (set_annots t_ns0 []) [(s_of "in", {| xac_annots := [(s_of "if", []); (s_of "is", s_of "x")]; xac_parents := []; xac_applies := None |})])].
Example reserved_words_ok : wf_text reserved_words_schema = true /\ parse_schema (print_schema reserved_words_schema) = SOk reserved_words_schema.
Proof. split; vm_compute; reflexivity. Qed.

(* the builtin names come back as type references *)
Definition builtin_schema : x_schema :=
  [([], set_commons t_ns0 [(s_of "T", {| xc_annots := []; xc_type := XSet (XRec [(s_of "a", (XLong, true, [])); (s_of "b", (XExt (s_of "ipaddr"), false, []))]) |})])].
Example builtin_normalised : parse_schema (print_schema builtin_schema)
  = SOk [([], set_commons t_ns0 [(s_of "T", {| xc_annots := []; xc_type := XSet (XRec [(s_of "a", (XRef (s_of "Long"), true, [])); (s_of "b", (XRef (s_of "ipaddr"), false, []))]) |})])].
Proof. vm_compute. reflexivity. Qed.

(* ------------------------------------------------------------------------------------------ *)
(* wf_text implies the well-formedness of the JSON codec (SchemaJsonProofs.wf_schema)          *)
(* ------------------------------------------------------------------------------------------ *)
Lemma wf_tty_wf_ty : forall t, wf_tty t = true -> wf_ty t = true.
Proof.
  induction t as [| | |n|e IHe|fs IHfs|r|r] using xty_ind'; intros H; try reflexivity.
  - exact (IHe H).
  - rewrite wf_tty_rec in H. rewrite wf_ty_rec. apply andb_true_iff in H. destruct H as [Hs Hall]. rewrite Hs. cbn [andb].
    rewrite forallb_forall in *. intros kv Hkv. specialize (Hall kv Hkv). rewrite Forall_forall in IHfs. specialize (IHfs kv Hkv).
    unfold wf_tattr in Hall. unfold wf_xattr. apply andb_true_iff in Hall. destruct Hall as [Hall Han]. apply andb_true_iff in Hall.
    destruct Hall as [_ Ht]. destruct (annots_ok_inv _ Han) as [Hans _]. rewrite (IHfs Ht), Hans. reflexivity.
Qed.
Lemma opt_wf_tty_wf_ty : forall o, opt_wf_tty o = true -> opt_wf_ty o = true.
Proof. intros [t|] H; [exact (wf_tty_wf_ty t H)|reflexivity]. Qed.

Lemma forallb_impl : forall (A : Type) (p q : A -> bool) l, (forall x, p x = true -> q x = true) -> forallb p l = true -> forallb q l = true.
Proof. intros A p q l H Hp. rewrite forallb_forall in *. intros x Hx. apply H. apply Hp. exact Hx. Qed.

Lemma wf_ns_t_wf_ns : forall n, wf_ns_t n = true -> wf_ns n = true.
Proof.
  intros n Hwf. apply wf_ns_t_iff in Hwf. destruct Hwf as [Han Hes Hesw Hens Hensw Hdj Hcs Hcsw Has Hasw].
  apply wf_ns_iff. constructor; try assumption.
  - apply (annots_ok_inv _ Han).
  - intros kv Hkv. rewrite forallb_forall in Hesw. specialize (Hesw kv Hkv). apply andb_true_iff in Hesw. destruct Hesw as [_ He].
    unfold wf_entity_t in He. unfold wf_entity. apply andb_true_iff in He. destruct He as [He Ht]. apply andb_true_iff in He. destruct He as [He Hs].
    apply andb_true_iff in He. destruct He as [Ha _]. destruct (annots_ok_inv _ Ha) as [Ha' _].
    rewrite Ha', (opt_wf_tty_wf_ty _ Hs), (opt_wf_tty_wf_ty _ Ht). reflexivity.
  - intros kv Hkv. rewrite forallb_forall in Hensw. specialize (Hensw kv Hkv). apply andb_true_iff in Hensw. destruct Hensw as [_ He].
    unfold wf_enum_t in He. unfold wf_enum. apply andb_true_iff in He. destruct He as [Ha _]. apply (annots_ok_inv _ Ha).
  - intros kv Hkv. rewrite forallb_forall in Hcsw. specialize (Hcsw kv Hkv). apply andb_true_iff in Hcsw. destruct Hcsw as [_ Hc].
    unfold wf_common_t in Hc. unfold wf_common. apply andb_true_iff in Hc. destruct Hc as [Ha Ht]. destruct (annots_ok_inv _ Ha) as [Ha' _].
    rewrite Ha', (wf_tty_wf_ty _ Ht). reflexivity.
  - intros kv Hkv. rewrite forallb_forall in Hasw. specialize (Hasw kv Hkv). apply andb_true_iff in Hasw. destruct Hasw as [_ Hc].
    unfold wf_action_t in Hc. unfold wf_action. apply andb_true_iff in Hc. destruct Hc as [Hc Hap]. apply andb_true_iff in Hc. destruct Hc as [Ha _].
    destruct (annots_ok_inv _ Ha) as [Ha' _]. rewrite Ha'. cbn [andb]. destruct (xac_applies (snd kv)) as [ap|]; [|reflexivity].
    unfold wf_applies_t in Hap. unfold wf_applies. apply andb_true_iff in Hap. destruct Hap as [_ Hc]. exact (opt_wf_tty_wf_ty _ Hc).
Qed.

Theorem wf_text_wf_schema : forall s, wf_text s = true -> wf_schema s = true.
Proof.
  intros s H. unfold wf_text in H. unfold wf_schema. apply andb_true_iff in H. destruct H as [Hs Hall]. rewrite Hs. cbn [andb].
  refine (forallb_impl _ _ _ _ _ Hall). intros kv Hkv. apply andb_true_iff in Hkv. destruct Hkv as [H1 H2].
  rewrite (wf_ns_t_wf_ns _ H1). cbn [andb]. destruct (fst kv); [exact H2|reflexivity].
Qed.

(* ================================================================================================================= *)
(* Part 2: resolution (Impl/SchemaResolve.v) of the schema that comes back                                            *)
(* ================================================================================================================= *)
Import Cedar.Impl.SchemaResolve.   (* [sep], [mem] ...: shadowed by later imports above *)
Section ResolveSh.
(* the set of shadowed built-in names the text was printed with (any set, in this section) *)
Variable sh : str -> bool.

(* norm_text on what the resolver reads: every type name becomes a TypeRef, a shadowed built-in name with the __cedar:: prefix;
   the empty bare namespace goes *)
Fixpoint nrm (t : sty) : sty :=
  match t with
  | TyString => TyRef (write_builtin sh (s_of "String"))
  | TyLong => TyRef (write_builtin sh (s_of "Long"))
  | TyBool => TyRef (write_builtin sh (s_of "Bool"))
  | TyExt n => TyRef (write_builtin sh n)
  | TyEnt r => TyRef r
  | TyRef r => TyRef r
  | TySet e => TySet (nrm e)
  | TyRec fs => TyRec ((fix go (l : list (str * (sty * bool))) : list (str * (sty * bool)) :=
                          match l with [] => [] | x :: r => (fst x, (nrm (fst (snd x)), snd (snd x))) :: go r end) fs)
  end.
Definition nrm_fields (fs : list (str * (sty * bool))) : list (str * (sty * bool)) :=
  map (fun x => (fst x, (nrm (fst (snd x)), snd (snd x)))) fs.
Lemma nrm_rec : forall fs, nrm (TyRec fs) = TyRec (nrm_fields fs).
Proof. reflexivity. Qed.

Definition nrm_entity (e : s_entity) : s_entity :=
  {| se_name := se_name e; se_parents := se_parents e; se_shape := option_map nrm_fields (se_shape e); se_tags := option_map nrm (se_tags e) |}.
Definition nrm_applies (ap : s_applies) : s_applies :=
  {| sa_principals := sa_principals ap; sa_resources := sa_resources ap; sa_context := option_map nrm (sa_context ap) |}.
Definition nrm_action (a : s_action) : s_action :=
  {| sac_name := sac_name a; sac_parents := sac_parents a; sac_applies := option_map nrm_applies (sac_applies a) |}.
Definition nrm_common (c : str * sty) : str * sty := (fst c, nrm (snd c)).
Definition nrm_ns (ns : s_ns) : s_ns :=
  {| sn_name := sn_name ns; sn_entities := map nrm_entity (sn_entities ns); sn_enums := sn_enums ns;
     sn_commons := map nrm_common (sn_commons ns); sn_actions := map nrm_action (sn_actions ns) |}.
Definition nrm_s (S : s_schema) : s_schema := map nrm_ns (filter s_keep S).

Definition erase_fields (fs : xrec) : list (str * (sty * bool)) :=
  map (fun x : str * xattr => (fst x, (erase_ty (fst (fst (snd x))), snd (fst (snd x))))) fs.
Lemma erase_ty_rec : forall fs, erase_ty (XRec fs) = TyRec (erase_fields fs).
Proof.
  intros fs. cbn [erase_ty]. f_equal. induction fs as [|[key [[ty opt] an]] fs IH]; [reflexivity|].
  cbn [erase_fields map fst snd]. rewrite IH. reflexivity.
Qed.
Lemma erase_rec_fields : forall fs, erase_rec fs = erase_fields fs.
Proof. intros fs. unfold erase_rec. rewrite erase_ty_rec. reflexivity. Qed.

Lemma erase_norm_ty : forall t, erase_ty (norm_ty sh t) = nrm (erase_ty t).
Proof.
  induction t as [| | |n|e IHe|fs IHfs|r|r] using xty_ind'; try reflexivity.
  - cbn [norm_ty erase_ty nrm]. rewrite IHe. reflexivity.
  - rewrite norm_ty_rec, !erase_ty_rec, nrm_rec. f_equal. unfold erase_fields, nrm_fields, mapv. rewrite !map_map.
    apply map_ext_in. intros kv Hkv. rewrite Forall_forall in IHfs. specialize (IHfs kv Hkv). cbn [fst snd norm_attr]. rewrite IHfs. reflexivity.
Qed.

Lemma erase_norm_text_sh : forall s, erase (mapv (norm_ns_t sh) (filter ns_keep s)) = nrm_s (erase s).
Proof.
  intros s. unfold erase, nrm_s. rewrite sj_filter_map.
  assert (Hf : filter (fun x => s_keep (erase_ns x)) s = filter ns_keep s).
  { apply filter_ext. intros [name n]. unfold s_keep, ns_keep, has_decls, erase_ns. cbn [fst snd sn_name sn_entities sn_enums sn_commons sn_actions].
    rewrite !is_nil_map. reflexivity. }
  rewrite Hf. unfold mapv. rewrite !map_map. apply map_ext. intros [name n].
  unfold erase_ns, nrm_ns, norm_ns_t. cbn [fst snd sn_name sn_entities sn_enums sn_commons sn_actions xs_annots xs_entities xs_enums xs_commons xs_actions].
  f_equal; unfold mapv; rewrite !map_map; apply map_ext; intros [key v]; cbn [fst snd].
  - unfold nrm_entity, norm_entity_t. cbn [se_name se_parents se_shape se_tags xe_annots xe_parents xe_shape xe_tags]. f_equal.
    + destruct (xe_shape v) as [fs|]; [|reflexivity]. cbn [option_map]. f_equal. rewrite !erase_rec_fields.
      pose proof (erase_norm_ty (XRec fs)) as H. rewrite norm_ty_rec, !erase_ty_rec, nrm_rec in H. injection H as H1. exact H1.
    + destruct (xe_tags v) as [t|]; [|reflexivity]. cbn [option_map]. rewrite erase_norm_ty. reflexivity.
  - unfold nrm_common, norm_common_t. cbn [fst snd xc_type]. rewrite erase_norm_ty. reflexivity.
  - unfold nrm_action, norm_action_t. cbn [sac_name sac_parents sac_applies xac_annots xac_parents xac_applies]. f_equal.
    destruct (xac_applies v) as [ap|]; [|reflexivity]. cbn [option_map]. f_equal.
    unfold nrm_applies, norm_applies_t. cbn [sa_principals sa_resources sa_context xa_principals xa_resources xa_context]. f_equal.
    destruct (xa_context ap) as [t|]; [|reflexivity]. cbn [option_map]. rewrite erase_norm_ty. reflexivity.
Qed.

(* ---- registration and the shadowing check only look at names ---- *)
Lemma existsb_nrm : forall (Q : s_ns -> bool) S,
  (forall ns, Q (nrm_ns ns) = Q ns) -> (forall ns, s_keep ns = false -> Q ns = false) -> existsb Q (nrm_s S) = existsb Q S.
Proof.
  intros Q S H1 H2. unfold nrm_s. induction S as [|ns S IH]; [reflexivity|]. cbn [filter existsb].
  destruct (s_keep ns) eqn:E; [cbn [map existsb]; rewrite H1, IH; reflexivity | rewrite IH, (H2 ns E); reflexivity].
Qed.
Lemma flat_map_nrm : forall (B : Type) (F : s_ns -> list B) (h : B -> B) S,
  (forall ns, F (nrm_ns ns) = map h (F ns)) -> (forall ns, s_keep ns = false -> F ns = []) -> flat_map F (nrm_s S) = map h (flat_map F S).
Proof.
  intros B F h S H1 H2. unfold nrm_s. induction S as [|ns S IH]; [reflexivity|]. cbn [filter flat_map]. rewrite map_app.
  destruct (s_keep ns) eqn:E; [cbn [map flat_map]; rewrite H1, IH; reflexivity | rewrite IH, (H2 ns E); reflexivity].
Qed.
Lemma flat_map_nrm_id : forall (B : Type) (F : s_ns -> list B) S,
  (forall ns, F (nrm_ns ns) = F ns) -> (forall ns, s_keep ns = false -> F ns = []) -> flat_map F (nrm_s S) = flat_map F S.
Proof.
  intros B F S H1 H2. rewrite (flat_map_nrm B F (fun x => x) S); [apply map_id| |exact H2]. intros ns. rewrite map_id. apply H1.
Qed.

Definition nrm_dc (c : str * (str * sty)) : str * (str * sty) := (fst c, (fst (snd c), nrm (snd (snd c)))).
Definition nrm_d (d : decls) : decls := {| d_ents := d_ents d; d_enums := d_enums d; d_commons := map nrm_dc (d_commons d) |}.

Lemma names_nrm_entities : forall l, map se_name (map nrm_entity l) = map se_name l.
Proof. intros l. rewrite map_map. reflexivity. Qed.
Lemma names_nrm_commons : forall l, map fst (map nrm_common l) = map fst l.
Proof. intros l. rewrite map_map. reflexivity. Qed.
Lemma names_nrm_actions : forall l, map sac_name (map nrm_action l) = map sac_name l.
Proof. intros l. rewrite map_map. reflexivity. Qed.

Lemma register_nrm : forall S, register (nrm_s S) = option_map nrm_d (register S).
Proof.
  intros S. unfold register.
  rewrite (existsb_nrm (fun ns => existsb (fun e => mem (se_name e) (sn_enums ns)) (sn_entities ns))).
  2:{ intros ns. cbn [nrm_ns sn_entities sn_enums]. rewrite existsb_map. reflexivity. }
  2:{ intros ns E. destruct (s_keep_false ns E) as (_ & -> & _). reflexivity. }
  destruct (existsb _ S); [reflexivity|]. cbn [option_map]. unfold nrm_d. cbn [d_ents d_enums d_commons]. f_equal. f_equal.
  - apply flat_map_nrm_id.
    + intros ns. cbn [nrm_ns sn_entities sn_name]. rewrite map_map. reflexivity.
    + intros ns E. destruct (s_keep_false ns E) as (_ & -> & _). reflexivity.
  - apply flat_map_nrm_id; [reflexivity|]. intros ns E. destruct (s_keep_false ns E) as (_ & _ & -> & _). reflexivity.
  - apply flat_map_nrm.
    + intros ns. cbn [nrm_ns sn_commons sn_name]. rewrite !map_map. reflexivity.
    + intros ns E. destruct (s_keep_false ns E) as (_ & _ & _ & -> & _). reflexivity.
Qed.

Lemma shadowing_nrm : forall S, shadowing_ok (nrm_s S) = shadowing_ok S.
Proof.
  intros S. unfold shadowing_ok. rewrite !flat_map_filter, !existsb_filter. f_equal.
  assert (H1 : flat_map (fun x => if is_nil_str (sn_name x) then map se_name (sn_entities x) ++ sn_enums x ++ map fst (sn_commons x) else []) (nrm_s S)
             = flat_map (fun x => if is_nil_str (sn_name x) then map se_name (sn_entities x) ++ sn_enums x ++ map fst (sn_commons x) else []) S).
  { apply flat_map_nrm_id.
    - intros ns. cbn [nrm_ns sn_entities sn_name sn_enums sn_commons]. rewrite names_nrm_entities, names_nrm_commons. reflexivity.
    - intros ns E. destruct (s_keep_false ns E) as (_ & -> & -> & -> & _). destruct (is_nil_str (sn_name ns)); reflexivity. }
  assert (H2 : flat_map (fun x => if is_nil_str (sn_name x) then map sac_name (sn_actions x) else []) (nrm_s S)
             = flat_map (fun x => if is_nil_str (sn_name x) then map sac_name (sn_actions x) else []) S).
  { apply flat_map_nrm_id.
    - intros ns. cbn [nrm_ns sn_actions sn_name]. rewrite names_nrm_actions. reflexivity.
    - intros ns E. destruct (s_keep_false ns E) as (_ & _ & _ & _ & ->). destruct (is_nil_str (sn_name ns)); reflexivity. }
  rewrite H1, H2. apply existsb_nrm.
  - intros ns. cbn [nrm_ns sn_entities sn_name sn_enums sn_commons sn_actions].
    rewrite names_nrm_entities, names_nrm_commons. rewrite (existsb_map _ nrm_action). reflexivity.
  - intros ns E. destruct (s_keep_false ns E) as (-> & _). reflexivity.
Qed.

(* ---- the declarations: same names, normalised bodies ---- *)
Lemma assoc_map_snd : forall (A B : Type) (h : A -> B) x (l : list (str * A)),
  assoc x (map (fun c => (fst c, h (snd c))) l) = option_map h (assoc x l).
Proof.
  intros A B h x l. induction l as [|[k v] l IH]; [reflexivity|]. cbn [map assoc fst snd]. destruct (str_eqb k x); [reflexivity|exact IH].
Qed.

Definition nrm_cb (c : str * sty) : str * sty := (fst c, nrm (snd c)).
Lemma common_nrm : forall d p, common (nrm_d d) p = option_map nrm_cb (common d p).
Proof.
  intros d p. unfold common, nrm_d. cbn [d_commons]. rewrite <- map_rev.
  exact (assoc_map_snd _ _ nrm_cb p (rev (d_commons d))).
Qed.

Definition has_common (d : decls) (p : str) : bool := match common d p with Some _ => true | None => false end.
Lemma has_common_nrm : forall d p, has_common (nrm_d d) p = has_common d p.
Proof. intros d p. unfold has_common. rewrite common_nrm. destruct (common d p); reflexivity. Qed.

Lemma type_ref_path_nrm : forall d ns r, type_ref_path (nrm_d d) ns r = type_ref_path d ns r.
Proof.
  intros d ns r. unfold type_ref_path. destruct (has_sep r); [reflexivity|]. destruct ns as [|c ns]; [reflexivity|].
  rewrite common_nrm. destruct (common d ((c :: ns) ++ sep ++ r)); reflexivity.
Qed.

(* ---- the hypothesis: in scope, the names that become references still mean what they meant ---- *)
(* r, read as a type reference in namespace ns, is neither a common type nor an entity type: it falls through to the builtins *)
Definition free (d : decls) (ns r : str) : bool :=
  (is_nil_str ns || (negb (has_common d (ns ++ sep ++ r)) && negb (is_entity d (ns ++ sep ++ r))))
  && negb (has_common d r) && negb (is_entity d r).
Definition is_ext (n : str) : bool := existsb (fun e => str_eqb (s_of e) n) ["ipaddr"; "decimal"; "datetime"; "duration"]%string.
(* an EntityTypeRef r means the same as the TypeRef r: no common type captures it, it is not a __cedar:: path nor a builtin name *)
Definition ent_ok (d : decls) (ns r : str) : bool :=
  if has_sep r then match strip_prefix cedar_prefix r with None => true | Some _ => false end && negb (has_common d r)
  else (is_nil_str ns || negb (has_common d (ns ++ sep ++ r))) && negb (has_common d r)
       && match builtin r with None => true | Some _ => false end.
(* a built-in name: written with the prefix (then no common type may be called __cedar::name), or free in its scope *)
Definition bi_ok (d : decls) (ns r : str) : bool :=
  if sh r then negb (has_common d (cedar_prefix ++ r)) else free d ns r.
Fixpoint ok_ty (d : decls) (ns : str) (t : sty) : bool :=
  match t with
  | TyString => bi_ok d ns (s_of "String")
  | TyLong => bi_ok d ns (s_of "Long")
  | TyBool => bi_ok d ns (s_of "Bool")
  | TyExt n => is_ext n && bi_ok d ns n
  | TySet e => ok_ty d ns e
  | TyRec fs => (fix go (l : list (str * (sty * bool))) : bool := match l with [] => true | x :: r => ok_ty d ns (fst (snd x)) && go r end) fs
  | TyEnt r => ent_ok d ns r
  | TyRef _ => true
  end.
Lemma ok_ty_rec : forall d ns fs, ok_ty d ns (TyRec fs) = forallb (fun x => ok_ty d ns (fst (snd x))) fs.
Proof. reflexivity. Qed.

Definition commons_ok (d : decls) : Prop := forall p cns ct, common d p = Some (cns, ct) -> ok_ty d cns ct = true.

Lemma ref_builtin : forall f d ns r b, free d ns r = true -> has_sep r = false -> builtin r = Some b ->
  resolve_type (S f) (nrm_d d) ns (TyRef r) = ROk b.
Proof.
  intros f d ns r b Hfree Hsep Hb. unfold free in Hfree. apply andb_true_iff in Hfree. destruct Hfree as [Hfree He].
  apply andb_true_iff in Hfree. destruct Hfree as [Hq Hc]. apply negb_true_iff in He, Hc.
  cbn [resolve_type]. rewrite Hsep, !common_nrm.
  unfold has_common in Hc. destruct (common d r) eqn:Ec; [discriminate|]. cbn [option_map].
  change (is_entity (nrm_d d)) with (is_entity d). rewrite He, Hb.
  destruct (is_nil_str ns) eqn:En; cbn [negb andb orb] in *; [reflexivity|].
  apply andb_true_iff in Hq. destruct Hq as [Hq1 Hq2]. apply negb_true_iff in Hq1, Hq2. unfold has_common in Hq1.
  destruct (common d (ns ++ sep ++ r)) eqn:Eq; [discriminate|]. cbn [option_map]. rewrite Hq2. reflexivity.
Qed.

Lemma is_ext_inv : forall n, is_ext n = true -> has_sep n = false /\ builtin n = Some (RExt n).
Proof.
  intros n H. unfold is_ext in H. cbn [existsb] in H.
  repeat (apply orb_true_iff in H; destruct H as [H|H]); try discriminate; apply str_eqb_eq in H; subst n; split; reflexivity.
Qed.

Lemma strip_prefix_app : forall p r, strip_prefix p (p ++ r) = Some r.
Proof. induction p as [|a p IH]; intros r; [destruct r; reflexivity|]. cbn [app strip_prefix]. rewrite Z.eqb_refl. apply IH. Qed.

Lemma has_sep_cedar : forall r, has_sep (cedar_prefix ++ r) = true.
Proof. intros r. reflexivity. Qed.

Lemma ref_builtin_wb : forall f d ns r b, bi_ok d ns r = true -> has_sep r = false -> builtin r = Some b ->
  resolve_type (S f) (nrm_d d) ns (TyRef (write_builtin sh r)) = ROk b.
Proof.
  intros f d ns r b Hok Hsep Hb. unfold bi_ok in Hok. unfold write_builtin. destruct (sh r).
  - change (s_of "__cedar::") with cedar_prefix. cbn [resolve_type]. rewrite has_sep_cedar, strip_prefix_app, Hb. reflexivity.
  - cbn [app]. apply ref_builtin; assumption.
Qed.

Lemma fields_nrm : forall (rec rec' : sty -> rres rty) fs,
  (forall x, In x fs -> rec' (nrm (fst (snd x))) = rec (fst (snd x))) ->
  resolve_fields rec' (nrm_fields fs) = resolve_fields rec fs.
Proof.
  intros rec rec' fs H. induction fs as [|[k [x opt]] fs IH]; [reflexivity|].
  cbn [nrm_fields map resolve_fields fst snd]. fold (nrm_fields fs).
  pose proof (H (k, (x, opt)) (or_introl eq_refl)) as Hx. cbn [fst snd] in Hx. rewrite Hx.
  rewrite IH; [reflexivity|]. intros y Hy. apply H. right. exact Hy.
Qed.

Lemma rt_nrm : forall fuel d ns t, commons_ok d -> ok_ty d ns t = true ->
  resolve_type fuel (nrm_d d) ns (nrm t) = resolve_type fuel d ns t.
Proof.
  induction fuel as [|f IH]; intros d ns t Hc Hok; [reflexivity|].
  destruct t as [| | |n|e|fs|r|r].
  - apply ref_builtin_wb; [exact Hok|reflexivity|reflexivity].
  - apply ref_builtin_wb; [exact Hok|reflexivity|reflexivity].
  - apply ref_builtin_wb; [exact Hok|reflexivity|reflexivity].
  - cbn [ok_ty] in Hok. apply andb_true_iff in Hok. destruct Hok as [He Hfr]. destruct (is_ext_inv n He) as [Hs Hb].
    cbn [nrm]. rewrite (ref_builtin_wb f d ns n (RExt n) Hfr Hs Hb). reflexivity.
  - cbn [nrm resolve_type ok_ty] in *. rewrite (IH d ns e Hc Hok). reflexivity.
  - rewrite nrm_rec, !resolve_type_rec. rewrite ok_ty_rec in Hok. rewrite forallb_forall in Hok.
    rewrite (fields_nrm (resolve_type f d ns) (resolve_type f (nrm_d d) ns) fs); [reflexivity|].
    intros x Hx. apply IH; [exact Hc|apply Hok; exact Hx].
  - cbn [nrm ok_ty] in *. unfold ent_ok in Hok. cbn [resolve_type]. unfold resolve_entity_ref.
    destruct (has_sep r) eqn:Hs.
    + apply andb_true_iff in Hok. destruct Hok as [Hp Hcm]. apply negb_true_iff in Hcm. unfold has_common in Hcm.
      destruct (strip_prefix cedar_prefix r); [discriminate|]. rewrite common_nrm. destruct (common d r); [discriminate|]. cbn [option_map].
      change (is_entity (nrm_d d)) with (is_entity d). destruct (is_entity d r); reflexivity.
    + apply andb_true_iff in Hok. destruct Hok as [Hok Hb]. apply andb_true_iff in Hok. destruct Hok as [Hq Hcm].
      apply negb_true_iff in Hcm. unfold has_common in Hcm. rewrite !common_nrm. destruct (common d r); [discriminate|]. cbn [option_map].
      change (is_entity (nrm_d d)) with (is_entity d). destruct (builtin r); [discriminate|].
      destruct (is_nil_str ns) eqn:En; cbn [negb andb orb] in *.
      * destruct ns; [|discriminate]. cbn [qualify]. destruct (is_entity d r); reflexivity.
      * apply negb_true_iff in Hq. unfold has_common in Hq. destruct (common d (ns ++ sep ++ r)); [discriminate|]. cbn [option_map].
        destruct ns as [|c ns]; [discriminate|]. cbn [qualify]. destruct (is_entity d ((c :: ns) ++ sep ++ r)); [reflexivity|].
        destruct (is_entity d r); reflexivity.
  - cbn [nrm resolve_type]. change (is_entity (nrm_d d)) with (is_entity d). rewrite !common_nrm.
    destruct (has_sep r).
    + destruct (strip_prefix cedar_prefix r); [reflexivity|]. destruct (common d r) as [[cns ct]|] eqn:E; cbn [option_map nrm_cb fst snd]; [|reflexivity].
      apply IH; [exact Hc|exact (Hc _ _ _ E)].
    + destruct (is_nil_str ns).
      * destruct (common d r) as [[cns ct]|] eqn:E; cbn [option_map nrm_cb fst snd negb andb]; [|reflexivity]. apply IH; [exact Hc|exact (Hc _ _ _ E)].
      * destruct (common d (ns ++ sep ++ r)) as [[cns ct]|] eqn:E; cbn [option_map nrm_cb fst snd]; [apply IH; [exact Hc|exact (Hc _ _ _ E)]|].
        destruct (negb false && is_entity d (ns ++ sep ++ r)); [reflexivity|].
        destruct (common d r) as [[cns ct]|] eqn:E2; cbn [option_map nrm_cb fst snd]; [|reflexivity]. apply IH; [exact Hc|exact (Hc _ _ _ E2)].
Qed.

(* ---- sizes and fuel ---- *)
Lemma sty_size_nrm : forall t, sty_size (nrm t) = sty_size t.
Proof.
  induction t as [| | |n|e IHe|fs IHfs|r|r] using sty_ind'; try reflexivity.
  - cbn [nrm sty_size]. rewrite IHe. reflexivity.
  - rewrite nrm_rec, !sty_size_rec. f_equal. induction IHfs as [|[k [x opt]] fs Hx _ IH]; [reflexivity|].
    cbn [nrm_fields map fields_size fst snd] in *. fold (nrm_fields fs). rewrite Hx, IH. reflexivity.
Qed.

Lemma resolve_fuel_nrm : forall d t, resolve_fuel (nrm_d d) (nrm t) = resolve_fuel d t.
Proof.
  intros d t. unfold resolve_fuel, nrm_d. cbn [d_commons]. rewrite sty_size_nrm, map_length. f_equal. f_equal. f_equal.
  induction (d_commons d) as [|c l IH]; [reflexivity|]. cbn [map fold_right nrm_dc snd]. rewrite sty_size_nrm, IH. reflexivity.
Qed.

(* ---- the dependency graph of the cycle check ---- *)
Definition nocommon (d : decls) (ns r : str) : bool :=
  (is_nil_str ns || negb (has_common d (ns ++ sep ++ r))) && negb (has_common d r).

Lemma nocommon_path : forall d ns r, nocommon d ns r = true -> has_common d (type_ref_path d ns r) = false.
Proof.
  intros d ns r H. unfold nocommon in H. apply andb_true_iff in H. destruct H as [Hq Hr]. apply negb_true_iff in Hr.
  unfold type_ref_path. destruct (has_sep r); [exact Hr|]. destruct ns as [|c ns]; [exact Hr|]. cbn [is_nil_str orb] in Hq.
  apply negb_true_iff in Hq. unfold has_common in Hq. destruct (common d ((c :: ns) ++ sep ++ r)); [discriminate|exact Hr].
Qed.
Lemma free_nocommon : forall d ns r, free d ns r = true -> nocommon d ns r = true.
Proof.
  intros d ns r H. unfold free in H. unfold nocommon. apply andb_true_iff in H. destruct H as [H _]. apply andb_true_iff in H. destruct H as [Hq Hr].
  rewrite Hr, andb_true_r. destruct (is_nil_str ns); [reflexivity|]. cbn [orb] in *. apply andb_true_iff in Hq. tauto.
Qed.
Lemma ent_ok_nocommon : forall d ns r, ent_ok d ns r = true -> has_common d (type_ref_path d ns r) = false.
Proof.
  intros d ns r H. unfold ent_ok in H. unfold type_ref_path. destruct (has_sep r) eqn:E.
  - apply andb_true_iff in H. destruct H as [_ H]. apply negb_true_iff in H. exact H.
  - apply andb_true_iff in H. destruct H as [H _]. fold (nocommon d ns r) in H. pose proof (nocommon_path d ns r H) as Hp.
    unfold type_ref_path in Hp. rewrite E in Hp. exact Hp.
Qed.

Lemma bi_ok_path : forall d ns r, bi_ok d ns r = true -> has_common d (type_ref_path d ns (write_builtin sh r)) = false.
Proof.
  intros d ns r H. unfold bi_ok in H. unfold write_builtin. destruct (sh r).
  - change (s_of "__cedar::") with cedar_prefix. unfold type_ref_path. rewrite has_sep_cedar. apply negb_true_iff in H. exact H.
  - cbn [app]. apply nocommon_path. apply free_nocommon. exact H.
Qed.

Lemma refs_nrm : forall d ns t, ok_ty d ns t = true ->
  filter (has_common d) (map (type_ref_path d ns) (collect_refs (nrm t))) = filter (has_common d) (map (type_ref_path d ns) (collect_refs t)).
Proof.
  intros d ns. induction t as [| | |n|e IHe|fs IHfs|r|r] using sty_ind'; intros Hok; cbn [nrm collect_refs map filter ok_ty] in *; try reflexivity.
  - rewrite (bi_ok_path _ _ _ Hok). reflexivity.
  - rewrite (bi_ok_path _ _ _ Hok). reflexivity.
  - rewrite (bi_ok_path _ _ _ Hok). reflexivity.
  - apply andb_true_iff in Hok. destruct Hok as [_ Hok]. rewrite (bi_ok_path _ _ _ Hok). reflexivity.
  - exact (IHe Hok).
  - change (filter (has_common d) (map (type_ref_path d ns) (collect_refs (nrm (TyRec fs))))
            = filter (has_common d) (map (type_ref_path d ns) (collect_refs (TyRec fs)))).
    rewrite nrm_rec, !collect_refs_rec. change (forallb (fun x => ok_ty d ns (fst (snd x))) fs = true) in Hok.
    induction IHfs as [|[k [x opt]] fs Hx _ IH]; [reflexivity|].
    cbn [forallb] in Hok. apply andb_true_iff in Hok. destruct Hok as [Hok1 Hok2].
    cbn [nrm_fields map fields_refs fst snd] in *. fold (nrm_fields fs). rewrite !map_app, !filter_app, (Hx Hok1), (IH Hok2). reflexivity.
  - rewrite (ent_ok_nocommon _ _ _ Hok). reflexivity.
Qed.

Lemma deps_nrm : forall d name, commons_ok d -> deps_of (nrm_d d) name = deps_of d name.
Proof.
  intros d name Hc. unfold deps_of. rewrite common_nrm. destruct (common d name) as [[ns body]|] eqn:E; cbn [option_map nrm_cb fst snd]; [|reflexivity].
  rewrite (filter_ext _ (has_common d)).
  2:{ intros p. rewrite common_nrm. unfold has_common. destruct (common d p); reflexivity. }
  rewrite (map_ext _ (type_ref_path d ns)) by (intros r; apply type_ref_path_nrm).
  rewrite (refs_nrm d ns body (Hc _ _ _ E)). apply filter_ext. intros p. reflexivity.
Qed.

Lemma common_names_nrm : forall d, common_names (nrm_d d) = common_names d.
Proof. intros d. unfold common_names, nrm_d. cbn [d_commons]. rewrite map_map. reflexivity. Qed.

Lemma kahn_nrm : forall fuel d deg queue visited, commons_ok d -> kahn fuel (nrm_d d) deg queue visited = kahn fuel d deg queue visited.
Proof.
  induction fuel as [|f IH]; intros d deg queue visited Hc; [reflexivity|]. cbn [kahn]. destruct queue as [|node q]; [reflexivity|].
  rewrite (deps_nrm d node Hc). destruct (dec_all (deps_of d node) deg q). apply IH. exact Hc.
Qed.

Lemma cycle_free_nrm : forall d, commons_ok d -> cycle_free (nrm_d d) = cycle_free d.
Proof.
  intros d Hc. unfold cycle_free, indeg0. cbv zeta. rewrite common_names_nrm.
  rewrite (flat_map_ext _ (deps_of d)) by (intros a; apply deps_nrm; exact Hc). rewrite kahn_nrm by exact Hc. reflexivity.
Qed.

(* ---- the whole resolution ---- *)
Definition ok_entity (d : decls) (ns : str) (e : s_entity) : bool :=
  match se_shape e with Some fs => ok_ty d ns (TyRec fs) | None => true end && match se_tags e with Some t => ok_ty d ns t | None => true end.
Definition ok_action (d : decls) (ns : str) (a : s_action) : bool :=
  match sac_applies a with Some ap => match sa_context ap with Some t => ok_ty d ns t | None => true end | None => true end.
Definition ok_ns (d : decls) (ns : s_ns) : bool :=
  forallb (ok_entity d (sn_name ns)) (sn_entities ns) && forallb (fun c : str * sty => ok_ty d (sn_name ns) (snd c)) (sn_commons ns)
  && forallb (ok_action d (sn_name ns)) (sn_actions ns).
(* the side condition of part 2, on the resolver's view of the schema: in the scope where it occurs, no builtin name
   (String, Long, Bool, an extension type) is also the name of a declared common or entity type, the extension types are the four
   known ones, and an EntityTypeRef is not captured by a common type *)
Definition resolve_same_ok (S : s_schema) : bool := match register S with Some d => forallb (ok_ns d) S | None => true end.

Lemma commons_ok_of : forall S d, register S = Some d -> forallb (ok_ns d) S = true -> commons_ok d.
Proof.
  intros S d Hreg Hall p cns ct Hc. apply common_In in Hc.
  unfold register in Hreg. destruct (existsb _ S); [discriminate|]. injection Hreg as <-. cbn [d_commons] in Hc.
  apply in_flat_map in Hc. destruct Hc as (ns & Hns & Hc). apply in_map_iff in Hc. destruct Hc as (c & Hc & Hcin). injection Hc as _ <- <-.
  rewrite forallb_forall in Hall. specialize (Hall ns Hns). unfold ok_ns in Hall. apply andb_true_iff in Hall. destruct Hall as [Hall _].
  apply andb_true_iff in Hall. destruct Hall as [_ Hall]. rewrite forallb_forall in Hall. exact (Hall c Hcin).
Qed.

Lemma r_rt_nrm : forall d ns t, commons_ok d -> ok_ty d ns t = true -> r_rt (nrm_d d) ns (nrm t) = r_rt d ns t.
Proof. intros d ns t Hc Hok. unfold r_rt. rewrite resolve_fuel_nrm. apply rt_nrm; assumption. Qed.

Lemma r_ent_nrm : forall d ns e, commons_ok d -> ok_entity d ns e = true -> r_ent (nrm_d d) ns (nrm_entity e) = r_ent d ns e.
Proof.
  intros d ns e Hc Hok. unfold ok_entity in Hok. apply andb_true_iff in Hok. destruct Hok as [Hs Ht].
  unfold r_ent. cbn [nrm_entity se_parents]. change (r_eref (nrm_d d) ns) with (r_eref d ns).
  destruct (all_ok (r_eref d ns) (se_parents e)) as [ps| |]; cbn [rbind]; try reflexivity.
  unfold r_ent_rest. cbn [nrm_entity se_shape se_tags se_name].
  destruct (se_shape e) as [fs|]; cbn [option_map].
  - change (TyRec (nrm_fields fs)) with (nrm (TyRec fs)). rewrite (r_rt_nrm d ns _ Hc Hs).
    destruct (se_tags e) as [t|]; cbn [option_map]; [rewrite (r_rt_nrm d ns _ Hc Ht)|]; reflexivity.
  - destruct (se_tags e) as [t|]; cbn [option_map]; [rewrite (r_rt_nrm d ns _ Hc Ht)|]; reflexivity.
Qed.

Lemma r_act_nrm : forall d ns a, commons_ok d -> ok_action d ns a = true -> r_act (nrm_d d) ns (nrm_action a) = r_act d ns a.
Proof.
  intros d ns a Hc Hok. unfold ok_action in Hok. unfold r_act. cbn [nrm_action sac_applies sac_parents].
  change (r_eref (nrm_d d) ns) with (r_eref d ns).
  destruct (sac_applies a) as [ap|]; cbn [option_map]; [|reflexivity].
  cbn [nrm_applies sa_principals sa_resources sa_context].
  destruct (sa_context ap) as [t|]; cbn [option_map]; [rewrite (r_rt_nrm d ns _ Hc Hok)|]; reflexivity.
Qed.

Lemma all_ok_map_ext : forall (A B : Type) (f f' : A -> rres B) (g : A -> A) l,
  (forall x, In x l -> f' (g x) = f x) -> all_ok f' (map g l) = all_ok f l.
Proof.
  intros A B f f' g l H. induction l as [|x l IH]; [reflexivity|]. cbn [map]. rewrite !all_ok_cons, (H x (or_introl eq_refl)), IH; [reflexivity|].
  intros y Hy. apply H. right. exact Hy.
Qed.

Definition same_concat {B} (x y : rres (list (list B))) : Prop :=
  match x, y with ROk a, ROk b => List.concat a = List.concat b | RErr, RErr => True | RFuel, RFuel => True | _, _ => False end.

Lemma all_ok_nrm_s : forall (B : Type) (f f' : s_ns -> rres (list B)) S,
  (forall ns, In ns S -> f' (nrm_ns ns) = f ns) -> (forall ns, s_keep ns = false -> f ns = ROk []) ->
  same_concat (all_ok f' (nrm_s S)) (all_ok f S).
Proof.
  intros B f f' S H1 H2. unfold nrm_s. induction S as [|ns S IH]; [reflexivity|]. cbn [filter]. rewrite (all_ok_cons f).
  assert (IH' := IH (fun x Hx => H1 x (or_intror Hx))). clear IH.
  destruct (s_keep ns) eqn:Ek.
  - cbn [map]. rewrite all_ok_cons, (H1 ns (or_introl eq_refl)). destruct (f ns); cbn [rbind same_concat]; try exact I.
    destruct (all_ok f' (map nrm_ns (filter s_keep S))), (all_ok f S); cbn [rbind same_concat] in *; try tauto.
    cbn [List.concat]. rewrite IH'. reflexivity.
  - rewrite (H2 ns Ek). cbn [rbind].
    destruct (all_ok f' (map nrm_ns (filter s_keep S))), (all_ok f S); cbn [rbind same_concat] in *; try tauto.
Qed.

Theorem resolve_nrm_s : forall S, resolve_same_ok S = true -> resolve_schema (nrm_s S) = resolve_schema S.
Proof.
  intros S Hok. unfold resolve_same_ok in Hok. rewrite !resolve_schema_eq, register_nrm, shadowing_nrm.
  destruct (register S) as [d|] eqn:Hreg; cbn [option_map]; [|reflexivity].
  pose proof (commons_ok_of S d Hreg Hok) as Hc. rewrite (cycle_free_nrm d Hc).
  destruct (negb (shadowing_ok S)); [reflexivity|]. destruct (negb (cycle_free d)); [reflexivity|].
  rewrite forallb_forall in Hok.
  pose proof (all_ok_nrm_s _ (fun ns => all_ok (r_ent d (sn_name ns)) (sn_entities ns)) (fun ns => all_ok (r_ent (nrm_d d) (sn_name ns)) (sn_entities ns)) S) as He.
  pose proof (all_ok_nrm_s _ (fun ns => all_ok (r_act d (sn_name ns)) (sn_actions ns)) (fun ns => all_ok (r_act (nrm_d d) (sn_name ns)) (sn_actions ns)) S) as Ha.
  assert (He' : same_concat (all_ok (fun ns => all_ok (r_ent (nrm_d d) (sn_name ns)) (sn_entities ns)) (nrm_s S))
                            (all_ok (fun ns => all_ok (r_ent d (sn_name ns)) (sn_entities ns)) S)).
  { apply He.
    - intros ns Hns. cbn [nrm_ns sn_name sn_entities]. apply all_ok_map_ext. intros e Hein. apply r_ent_nrm; [exact Hc|].
      specialize (Hok ns Hns). unfold ok_ns in Hok. apply andb_true_iff in Hok. destruct Hok as [Hok _]. apply andb_true_iff in Hok. destruct Hok as [Hok _].
      rewrite forallb_forall in Hok. exact (Hok e Hein).
    - intros ns E. destruct (s_keep_false ns E) as (_ & -> & _). reflexivity. }
  assert (Ha' : same_concat (all_ok (fun ns => all_ok (r_act (nrm_d d) (sn_name ns)) (sn_actions ns)) (nrm_s S))
                            (all_ok (fun ns => all_ok (r_act d (sn_name ns)) (sn_actions ns)) S)).
  { apply Ha.
    - intros ns Hns. cbn [nrm_ns sn_name sn_actions]. apply all_ok_map_ext. intros a Hain. apply r_act_nrm; [exact Hc|].
      specialize (Hok ns Hns). unfold ok_ns in Hok. apply andb_true_iff in Hok. destruct Hok as [_ Hok].
      rewrite forallb_forall in Hok. exact (Hok a Hain).
    - intros ns E. destruct (s_keep_false ns E) as (_ & _ & _ & _ & ->). reflexivity. }
  clear He Ha.
  destruct (all_ok (fun ns => all_ok (r_ent (nrm_d d) (sn_name ns)) (sn_entities ns)) (nrm_s S)) as [es'| |],
           (all_ok (fun ns => all_ok (r_ent d (sn_name ns)) (sn_entities ns)) S) as [es| |]; cbn [same_concat] in He'; try tauto;
  destruct (all_ok (fun ns => all_ok (r_act (nrm_d d) (sn_name ns)) (sn_actions ns)) (nrm_s S)) as [acts'| |],
           (all_ok (fun ns => all_ok (r_act d (sn_name ns)) (sn_actions ns)) S) as [acts| |]; cbn [same_concat] in Ha'; try tauto; try reflexivity.
  rewrite He', Ha'. reflexivity.
Qed.

End ResolveSh.

Theorem resolve_norm_text : forall s, resolve_same_ok (shadowed_builtins s) (erase s) = true ->
  resolve_schema (erase (norm_text s)) = resolve_schema (erase s).
Proof. intros s H. unfold norm_text. rewrite erase_norm_text_sh. apply resolve_nrm_s. exact H. Qed.

(* the former finding F26: a declared type named like a builtin used to capture the bare builtin name of the printed text;
   the printer now writes __cedar::String, and resolution does not see the difference *)
Definition f26_schema : x_schema :=
  [([], {| xs_annots := [];
           xs_entities := [(s_of "A", {| xe_annots := []; xe_parents := []; xe_shape := Some [(s_of "x", (XString, false, []))]; xe_tags := None |});
                           (s_of "String", {| xe_annots := []; xe_parents := []; xe_shape := None; xe_tags := None |})];
           xs_enums := []; xs_commons := []; xs_actions := [] |})].
Example f26_repaired :
  wf_text f26_schema = true
  /\ parse_schema (print_schema f26_schema)
     = SOk [([], {| xs_annots := [];
                    xs_entities := [(s_of "A", {| xe_annots := []; xe_parents := [];
                                                  xe_shape := Some [(s_of "x", (XRef (s_of "__cedar::String"), false, []))]; xe_tags := None |});
                                    (s_of "String", {| xe_annots := []; xe_parents := []; xe_shape := None; xe_tags := None |})];
                    xs_enums := []; xs_commons := []; xs_actions := [] |})]
  /\ resolve_schema (erase f26_schema)
     = VOk {| rs_entities := [(s_of "A", ([], Some [(s_of "x", (RString, false))], None)); (s_of "String", ([], None, None))]; rs_actions := [] |}
  /\ resolve_schema (erase (norm_text f26_schema)) = resolve_schema (erase f26_schema).
Proof. repeat split; vm_compute; reflexivity. Qed.

(* ---- from the syntax: wf_text and "no EntityTypeRef, known extension types" are enough ---- *)
Definition declared_names (n : x_ns) : list str := map fst (xs_entities n) ++ map fst (xs_enums n) ++ map fst (xs_commons n).
(* no EntityTypeRef (the text parser never builds one), and only the four known extension types *)
Fixpoint plain_ty (t : xty) : bool :=
  match t with
  | XString | XLong | XBool | XRef _ => true
  | XExt n => is_ext n
  | XEnt _ => false
  | XSet e => plain_ty e
  | XRec fs => (fix go (l : xrec) : bool := match l with [] => true | x :: r => plain_ty (fst (fst (snd x))) && go r end) fs
  end.
Lemma plain_ty_rec : forall fs, plain_ty (XRec fs) = forallb (fun x : str * xattr => plain_ty (fst (fst (snd x)))) fs.
Proof. reflexivity. Qed.
Definition opt_plain (o : option xty) : bool := match o with Some t => plain_ty t | None => true end.
Definition plain_ns (n : x_ns) : bool :=
  forallb (fun kv : str * x_entity => opt_plain (option_map XRec (xe_shape (snd kv))) && opt_plain (xe_tags (snd kv))) (xs_entities n)
  && forallb (fun kv : str * x_common => plain_ty (xc_type (snd kv))) (xs_commons n)
  && forallb (fun kv : str * x_action => match xac_applies (snd kv) with Some ap => opt_plain (xa_context ap) | None => true end) (xs_actions n).
Definition plain_schema (s : x_schema) : bool := forallb (fun kv : str * x_ns => plain_ns (snd kv)) s.

Definition colon_free (x : str) : Prop := ~ In 58 x.

Lemma prefix_colon : forall u v p q, colon_free u -> colon_free v -> u ++ 58 :: p = v ++ 58 :: q -> u = v.
Proof.
  induction u as [|a u IH]; intros [|b v] p q Hu Hv H; cbn [app] in H.
  - reflexivity.
  - injection H as H _. exfalso. apply Hv. left. symmetry. exact H.
  - injection H as H _. exfalso. apply Hu. left. exact H.
  - injection H as H1 H2. subst b. f_equal. apply (IH v p q); [intros Hin; apply Hu; right; exact Hin|intros Hin; apply Hv; right; exact Hin|exact H2].
Qed.

Lemma suffix_colon : forall a b x y, colon_free x -> colon_free y -> a ++ sep ++ x = b ++ sep ++ y -> x = y.
Proof.
  intros a b x y Hx Hy H. apply (f_equal (@rev Z)) in H. unfold sep in H. rewrite !rev_app_distr in H. cbn [rev app] in H.
  rewrite <- !app_assoc in H. cbn [app] in H.
  assert (E : rev x = rev y).
  { apply (prefix_colon (rev x) (rev y) (58 :: rev a) (58 :: rev b)); [intros Hin; apply Hx; apply in_rev; exact Hin|intros Hin; apply Hy; apply in_rev; exact Hin|exact H]. }
  rewrite <- (rev_involutive x), <- (rev_involutive y), E. reflexivity.
Qed.

Lemma word_colon_free : forall w, word w = true -> colon_free w.
Proof.
  intros [|c w] H; [discriminate|]. cbn [word] in H. apply andb_true_iff in H. destruct H as [Hc Hw].
  assert (Hall : forallb is_ident_continue (c :: w) = true) by (cbn [forallb]; rewrite (ident_start_continue c Hc), Hw; reflexivity).
  rewrite forallb_forall in Hall. intros Hin. specialize (Hall 58 Hin). discriminate.
Qed.

Lemma builtin_colon_free : forall r, is_builtin_name r = true -> colon_free r.
Proof.
  intros r H. apply (builtin_name_cases r colon_free H); intros Hin; cbn in Hin;
    repeat (destruct Hin as [Hin|Hin]; [discriminate|]); exact Hin.
Qed.

Lemma qualify_ne : forall nsn name ns r, colon_free name -> colon_free r -> name <> r ->
  qualify nsn name <> r /\ qualify nsn name <> ns ++ sep ++ r.
Proof.
  intros nsn name ns r Hname Hrc Hne. destruct nsn as [|c nsn]; cbn [qualify]; split.
  - exact Hne.
  - intros E. apply Hname. rewrite E. apply in_or_app. right. left. reflexivity.
  - intros E. apply Hrc. rewrite <- E. apply in_or_app. right. left. reflexivity.
  - intros E. apply Hne. exact (suffix_colon _ _ _ _ Hname Hrc E).
Qed.

Lemma decl_origin : forall s d x, register (erase s) = Some d -> is_entity d x = true \/ has_common d x = true ->
  exists kv name, In kv s /\ In name (declared_names (snd kv)) /\ x = qualify (fst kv) name.
Proof.
  intros s d x Hreg H. unfold register in Hreg. destruct (existsb _ (erase s)); [discriminate|]. injection Hreg as <-.
  unfold is_entity, has_common in H. cbn [d_ents d_enums] in H.
  assert (Hin : In x (flat_map (fun ns => map (fun e => qualify (sn_name ns) (se_name e)) (sn_entities ns)) (erase s))
             \/ In x (flat_map (fun ns => map (qualify (sn_name ns)) (sn_enums ns)) (erase s))
             \/ In x (map fst (flat_map (fun ns => map (fun c : str * sty => (qualify (sn_name ns) (fst c), (sn_name ns, snd c))) (sn_commons ns)) (erase s)))).
  { destruct H as [H|H].
    - apply orb_true_iff in H. destruct H as [H|H]; apply mem_In in H; tauto.
    - right. right. destruct (common _ x) as [c|] eqn:E; [|discriminate]. apply common_In in E. cbn [d_commons] in E.
      apply in_map_iff. exists (x, c). split; [reflexivity|exact E]. }
  clear H. unfold erase in Hin. unfold declared_names.
  destruct Hin as [Hin|[Hin|Hin]].
  - apply in_flat_map in Hin. destruct Hin as (ns & Hns & Hin). apply in_map_iff in Hns. destruct Hns as (kv & <- & Hkv).
    apply in_map_iff in Hin. destruct Hin as (e & <- & He). cbn [erase_ns sn_entities sn_name] in *. apply in_map_iff in He. destruct He as (e0 & <- & He0).
    cbn [se_name]. exists kv, (fst e0). split; [exact Hkv|]. split; [|reflexivity]. apply in_or_app. left. apply in_map. exact He0.
  - apply in_flat_map in Hin. destruct Hin as (ns & Hns & Hin). apply in_map_iff in Hns. destruct Hns as (kv & <- & Hkv).
    apply in_map_iff in Hin. destruct Hin as (e & <- & He). cbn [erase_ns sn_enums sn_name] in *.
    exists kv, e. split; [exact Hkv|]. split; [|reflexivity]. apply in_or_app. right. apply in_or_app. left. exact He.
  - apply in_map_iff in Hin. destruct Hin as (c & <- & Hin).
    apply in_flat_map in Hin. destruct Hin as (ns & Hns & Hin). apply in_map_iff in Hns. destruct Hns as (kv & <- & Hkv).
    apply in_map_iff in Hin. destruct Hin as (c0 & <- & Hc0). cbn [erase_ns sn_commons sn_name fst] in *. apply in_map_iff in Hc0. destruct Hc0 as (c1 & <- & Hc1).
    cbn [fst]. exists kv, (fst c1). split; [exact Hkv|]. split; [|reflexivity]. apply in_or_app. right. apply in_or_app. right. apply in_map. exact Hc1.
Qed.

Lemma declared_ident : forall s kv name, wf_text s = true -> In kv s -> In name (declared_names (snd kv)) -> colon_free name.
Proof.
  intros s kv name Hwf Hkv Hname. destruct (wf_text_in s kv Hwf Hkv) as (Hn & _). apply wf_ns_t_iff in Hn.
  destruct Hn as [Han Hes Hesw Hens Hensw Hdj Hcs Hcsw Has Hasw]. unfold declared_names in Hname. rewrite forallb_forall in Hesw, Hensw, Hcsw.
  assert (Hv : is_valid_ident name = true).
  { apply in_app_or in Hname. destruct Hname as [Hname|Hname]; [|apply in_app_or in Hname; destruct Hname as [Hname|Hname]];
      apply in_map_iff in Hname; destruct Hname as (x & <- & Hx).
    - specialize (Hesw x Hx). apply andb_true_iff in Hesw. tauto.
    - specialize (Hensw x Hx). apply andb_true_iff in Hensw. tauto.
    - specialize (Hcsw x Hx). apply andb_true_iff in Hcsw. destruct Hcsw as [Hcsw _]. apply andb_true_iff in Hcsw. tauto. }
  apply word_colon_free. apply (valid_ident_word name Hv).
Qed.

Lemma existsb_key_in : forall (A : Type) r (l : list (str * A)), In r (map fst l) -> existsb (fun kv => str_eqb (fst kv) r) l = true.
Proof.
  intros A r l H. apply in_map_iff in H. destruct H as (kv & <- & Hkv). apply existsb_exists. exists kv. split; [exact Hkv|apply str_eqb_refl].
Qed.

Lemma ns_declares_in : forall r n, In r (declared_names n) -> ns_declares r n = true.
Proof.
  intros r n H. unfold declared_names in H. unfold ns_declares. apply in_app_or in H. destruct H as [H|H]; [|apply in_app_or in H; destruct H as [H|H]].
  - rewrite (existsb_key_in _ r _ H). reflexivity.
  - rewrite (existsb_key_in _ r _ H). rewrite orb_true_r. reflexivity.
  - rewrite (existsb_key_in _ r _ H). rewrite orb_true_r. reflexivity.
Qed.

(* a built-in name that the printer does not prefix is not declared anywhere *)
Lemma unshadowed_ne : forall s r kv name, shadowed_builtins s r = false -> is_builtin_name r = true ->
  In kv s -> In name (declared_names (snd kv)) -> name <> r.
Proof.
  intros s r kv name Hsh Hb Hkv Hname ->. unfold shadowed_builtins in Hsh. fold (is_builtin_name r) in Hsh. rewrite Hb in Hsh. cbn [andb] in Hsh.
  assert (H : existsb (fun kv0 : str * x_ns => ns_declares r (snd kv0)) s = true).
  { apply existsb_exists. exists kv. split; [exact Hkv|apply ns_declares_in; exact Hname]. }
  rewrite H in Hsh. discriminate.
Qed.

Lemma free_unshadowed : forall s d ns r, wf_text s = true -> register (erase s) = Some d ->
  is_builtin_name r = true -> shadowed_builtins s r = false -> free d ns r = true.
Proof.
  intros s d ns r Hwf Hreg Hr Hsh. pose proof (builtin_colon_free r Hr) as Hrc.
  assert (Hno : forall x, (x = r \/ x = ns ++ sep ++ r) -> is_entity d x = false /\ has_common d x = false).
  { intros x Hx.
    assert (H : ~ (is_entity d x = true \/ has_common d x = true)).
    { intros H. destruct (decl_origin s d x Hreg H) as (kv & name & Hkv & Hname & E).
      pose proof (declared_ident s kv name Hwf Hkv Hname) as Hcf.
      pose proof (unshadowed_ne s r kv name Hsh Hr Hkv Hname) as Hne.
      destruct (qualify_ne (fst kv) name ns r Hcf Hrc Hne) as [N1 N2]. destruct Hx as [-> | ->]; [apply N1|apply N2]; symmetry; exact E. }
    destruct (is_entity d x), (has_common d x); try tauto; exfalso; apply H; tauto. }
  destruct (Hno r (or_introl eq_refl)) as [E1 C1]. destruct (Hno (ns ++ sep ++ r) (or_intror eq_refl)) as [E2 C2].
  unfold free. rewrite E1, C1, E2, C2. destruct (is_nil_str ns); reflexivity.
Qed.

(* no common type is called __cedar::name: that would need a namespace named __cedar *)
Lemma no_cedar_common : forall s d r, wf_text s = true -> register (erase s) = Some d -> is_builtin_name r = true ->
  has_common d (cedar_prefix ++ r) = false.
Proof.
  intros s d r Hwf Hreg Hr. pose proof (builtin_colon_free r Hr) as Hrc.
  destruct (has_common d (cedar_prefix ++ r)) eqn:E; [|reflexivity]. exfalso.
  destruct (decl_origin s d _ Hreg (or_intror E)) as (kv & name & Hkv & Hname & Eq).
  pose proof (declared_ident s kv name Hwf Hkv Hname) as Hcf.
  change cedar_prefix with (s_of "__cedar" ++ sep) in Eq. rewrite <- app_assoc in Eq.
  destruct (fst kv) as [|c nsn] eqn:Ens; cbn [qualify] in Eq.
  - apply Hcf. rewrite <- Eq. apply in_or_app. right. left. reflexivity.
  - pose proof (suffix_colon _ _ _ _ Hrc Hcf Eq) as En. subst name. apply app_inv_tail in Eq.
    destruct (wf_text_in s kv Hwf Hkv) as (_ & _ & Hp). rewrite Ens in Hp. specialize (Hp ltac:(discriminate)). rewrite <- Eq in Hp. discriminate.
Qed.

Lemma bi_ok_builtin : forall s d ns r, wf_text s = true -> register (erase s) = Some d -> is_builtin_name r = true ->
  bi_ok (shadowed_builtins s) d ns r = true.
Proof.
  intros s d ns r Hwf Hreg Hr. unfold bi_ok. destruct (shadowed_builtins s r) eqn:E.
  - rewrite (no_cedar_common s d r Hwf Hreg Hr). reflexivity.
  - apply (free_unshadowed s); assumption.
Qed.

Lemma is_ext_builtin : forall n, is_ext n = true -> is_builtin_name n = true.
Proof.
  intros n H. unfold is_ext in H. cbn [existsb] in H.
  repeat (apply orb_true_iff in H; destruct H as [H|H]); try discriminate; apply str_eqb_eq in H; subst n; reflexivity.
Qed.

Lemma plain_ok_ty : forall s d ns, wf_text s = true -> register (erase s) = Some d ->
  forall t, plain_ty t = true -> ok_ty (shadowed_builtins s) d ns (erase_ty t) = true.
Proof.
  intros s d ns Hwf Hreg. induction t as [| | |n|e IHe|fs IHfs|r|r] using xty_ind'; intros Hp; try discriminate; try reflexivity.
  - apply (bi_ok_builtin s); try assumption; reflexivity.
  - apply (bi_ok_builtin s); try assumption; reflexivity.
  - apply (bi_ok_builtin s); try assumption; reflexivity.
  - cbn [plain_ty erase_ty ok_ty] in *. rewrite Hp. apply (bi_ok_builtin s); try assumption. apply is_ext_builtin. exact Hp.
  - exact (IHe Hp).
  - rewrite erase_ty_rec, ok_ty_rec. rewrite plain_ty_rec in Hp. unfold erase_fields. rewrite forallb_forall in *.
    intros x Hx. apply in_map_iff in Hx. destruct Hx as (y & <- & Hy). cbn [fst snd]. rewrite Forall_forall in IHfs. apply (IHfs y Hy). apply Hp. exact Hy.
Qed.

(* Part 2, final form: with the printer writing __cedar::Name for shadowed built-in names, no hypothesis on the declared
   names is left *)
Theorem resolve_norm_text_names' : forall s, wf_text s = true -> plain_schema s = true ->
  resolve_schema (erase (norm_text s)) = resolve_schema (erase s).
Proof.
  intros s Hwf Hpl. apply resolve_norm_text. unfold resolve_same_ok. destruct (register (erase s)) as [d|] eqn:Hreg; [|reflexivity].
  unfold erase. apply forallb_forall. intros ns Hns. apply in_map_iff in Hns. destruct Hns as ([name n] & <- & Hkv).
  unfold plain_schema in Hpl. rewrite forallb_forall in Hpl. specialize (Hpl _ Hkv). cbn [snd] in Hpl. unfold plain_ns in Hpl.
  apply andb_true_iff in Hpl. destruct Hpl as [Hpl Hpa]. apply andb_true_iff in Hpl. destruct Hpl as [Hpe Hpc].
  rewrite forallb_forall in Hpe, Hpc, Hpa.
  pose proof (plain_ok_ty s d name Hwf Hreg) as Hok.
  unfold ok_ns, erase_ns. cbn [fst snd sn_name sn_entities sn_commons sn_actions]. repeat (apply andb_true_iff; split); apply forallb_forall; intros x Hx;
    apply in_map_iff in Hx; destruct Hx as (y & <- & Hy).
  - specialize (Hpe y Hy). apply andb_true_iff in Hpe. destruct Hpe as [Hs Ht]. unfold ok_entity. cbn [se_shape se_tags].
    apply andb_true_iff. split.
    + destruct (xe_shape (snd y)) as [fs|]; [|reflexivity]. cbn [option_map opt_plain] in *. rewrite erase_rec_fields, <- erase_ty_rec. apply Hok. exact Hs.
    + destruct (xe_tags (snd y)) as [t|]; [|reflexivity]. cbn [option_map opt_plain] in *. apply Hok. exact Ht.
  - cbn [snd]. apply Hok. apply Hpc. exact Hy.
  - specialize (Hpa y Hy). unfold ok_action. cbn [sac_applies]. destruct (xac_applies (snd y)) as [ap|]; [|reflexivity]. cbn [option_map sa_context].
    destruct (xa_context ap) as [t|]; [|reflexivity]. cbn [option_map opt_plain] in *. apply Hok. exact Hpa.
Qed.

(* the earlier statement, kept for reference: its extra hypothesis is no longer needed *)
Definition no_builtin_names (s : x_schema) : bool :=
  forallb (fun kv : str * x_ns => forallb (fun name => negb (is_builtin_name name)) (declared_names (snd kv))) s.
Corollary resolve_norm_text_names : forall s, wf_text s = true -> no_builtin_names s = true -> plain_schema s = true ->
  resolve_schema (erase (norm_text s)) = resolve_schema (erase s).
Proof. intros s Hwf _ Hpl. apply resolve_norm_text_names'; assumption. Qed.

(* a shadowed built-in in a NAMESPACED schema: NS1 declares `String`, NS2 uses the built-in *)
Definition f26_ns_schema : x_schema :=
  [(s_of "NS1", {| xs_annots := []; xs_entities := [(s_of "String", {| xe_annots := []; xe_parents := []; xe_shape := None; xe_tags := None |})];
                   xs_enums := []; xs_commons := []; xs_actions := [] |});
   (s_of "NS2", {| xs_annots := []; xs_entities := []; xs_enums := [];
                   xs_commons := [(s_of "T", {| xc_annots := []; xc_type := XSet XString |})]; xs_actions := [] |})].
Example f26_ns_prefixed :
  wf_text f26_ns_schema = true /\ plain_schema f26_ns_schema = true
  /\ parse_schema (print_schema f26_ns_schema) = SOk (norm_text f26_ns_schema)
  /\ xs_commons (snd (nth 1 (norm_text f26_ns_schema) ([], empty_ns)))
     = [(s_of "T", {| xc_annots := []; xc_type := XSet (XRef (s_of "__cedar::String")) |})].
Proof. repeat split; vm_compute; reflexivity. Qed.

Print Assumptions parse_print_schema.
Print Assumptions norm_text_idempotent.
Print Assumptions second_text_rendering.
Print Assumptions wf_text_wf_schema.
Print Assumptions resolve_norm_text.
Print Assumptions resolve_norm_text_names'.
