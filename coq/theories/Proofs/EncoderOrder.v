(* C14, encoder clause: what an encoder writes does not depend on the order in which a map-backed container happens to be traversed.
   Policy sets (text and JSON list policies in id order), entity maps (EntityJsonProofs.enc_entity_map_perm). *)
From Coq Require Import List Bool Permutation.
Import ListNotations.
From Cedar Require Import Lang.Value Impl.PolicySet Proofs.PolicySetProofs Proofs.PolicySetHistory.

(* the id-sorted listing of a policy set (MarshalCedar, MarshalJSON, All) is the same for every traversal order of the underlying map *)
Theorem sort_by_id_perm_eq : forall s1 s2 : pset, uniq s1 -> Permutation s1 s2 -> sort_by_id s1 = sort_by_id s2.
Proof.
  intros s1 s2 U1 P. pose proof (perm_uniq _ _ P U1) as U2.
  apply (bindings_unique_ext (abs s1) (abs s2)); [|apply sort_bindings; exact U1|apply sort_bindings; exact U2].
  intros k. unfold abs. destruct (ps_get s1 k) as [h|] eqn:E1.
  - apply (ps_get_in s1 k h U1) in E1. symmetry. apply (ps_get_in s2 k h U2). eapply Permutation_in; eassumption.
  - destruct (ps_get s2 k) as [h|] eqn:E2; [|reflexivity].
    apply (ps_get_in s2 k h U2) in E2. apply Permutation_sym in P. pose proof (Permutation_in _ P E2) as Hin.
    apply (ps_get_in s1 k h U1) in Hin. congruence.
Qed.

Print Assumptions sort_by_id_perm_eq.
